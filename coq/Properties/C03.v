(* C03 - Termination: every traversal finishes in work bounded by the input size.
   Loops that are not structurally recursive run on explicit fuel in the models and return [Fault OutOfFuel]
   when it is exhausted; the statements below say that the stated fuel - a function of the input length -
   always suffices, and bound the number of items yielded.  Statements only; every proof is [exact <lemma>].
   The traversals of the directory parsers (TLV parser, resource tree, export binary search, scanner) are
   stated in the files of their own properties; this file states the cross-cutting core.
   Second part (from "work bounds" on): explicit WORK bounds by ghost step counters (Spec/WorkSpec.v; proofs in
   Proofs/WorkProofs.v, CountProofs.v, ScanWorkProofs.v) and the item-count bounds of the DESIGN.md table. *)
From PV.Model Require Import Machine Mapping Views Relocs Rich Strings Pattern Exec ScanView CStrFmt.
From PV.Spec Require Import SafetySpec RelocSpec.
From PV.Proofs Require SafetyProofs BoundsProofs RelocsProofs RichProofs StringsProofs PatternProofs ExecProofs ViewsProofs CStrFmtProofs.
Import ExecProofs.

(* relocation blocks: the iterator terminates on every directory (fuel = its length) and yields at most
   len/8 blocks, each consuming at least its 8-byte header (IterBlocks.data strictly shrinks) *)
Theorem C03_reloc_blocks_bounded : forall data, lenN data + 3 < W64 ->
  exists bs, blocks data = Ok bs /\ 8 * lenN bs <= lenN data.
Proof. exact BoundsProofs.blocks_bounded. Qed.
Print Assumptions C03_reloc_blocks_bounded.

(* the relocation builder terminates and writes at most 12 bytes per rva (at least one rva per block) *)
Theorem C03_reloc_build_bounded : forall rvas types,
  length rvas = length types -> 2 * lenN rvas + 11 < W32 ->
  Forall (fun r => r < W32) rvas -> Forall (fun t => 1 <= t <= 15) types ->
  exists out bs, build rvas types = Ok out /\ bytes_ok out /\ lenN out <= 12 * lenN rvas /\
    blocks out = Ok bs /\ fold_pairs out = Ok (combine rvas types) /\
    Forall (fun b => b_va b mod 4096 = 0 /\ b_sob b mod 4 = 0) bs.
Proof. exact RelocsProofs.build_roundtrip. Qed.
Print Assumptions C03_reloc_build_bounded.

(* string enumerator: iteration to exhaustion terminates within fuel length+1 and yields at most length+1 items *)
Theorem C03_strings_bounded : forall c base bytes,
  exists l, enumerate c base bytes = Ok l /\ (length l <= length bytes + 1)%nat.
Proof. exact BoundsProofs.enumerate_bounded. Qed.
Print Assumptions C03_strings_bounded.

(* sentinel / predicate scans and C strings stop at the end of the slice: fuel = (slice length / element size) + 1
   suffices on both read paths, and the result never exceeds the slice *)
Theorem C03_sentinel_scans_terminate : forall v byva,
  (forall a size align, no_fault (rd (sl_of v byva) a size align)) /\
  (forall a size, no_fault (rd_copy (sl_of v byva) a size)) /\
  (forall a size align n, no_fault (rd_slice (sl_of v byva) a size align n)) /\
  (forall a size align p, 0 < size -> no_fault (rd_slice_f (v_get v) (sl_of v byva) a size align p)) /\
  (forall a, no_fault (rd_c_str (v_get v) (sl_of v byva) a)).
Proof. exact BoundsProofs.view_typed_total. Qed.
Print Assumptions C03_sentinel_scans_terminate.

(* Rich header: the two backward scans never run out of fuel *)
Theorem C03_rich_scans_terminate : forall image f, try_from image <> Fault f.
Proof. exact RichProofs.try_from_no_fault. Qed.
Print Assumptions C03_rich_scans_terminate.

(* pattern parser: fuel = length+1 for ANY byte string *)
Theorem C03_pattern_parse_terminates : forall input,
  exists r, parse input = Ok r /\ match r with inl (_, pos) => (pos <= length input)%nat | inr _ => True end.
Proof. exact PatternProofs.parse_total. Qed.
Print Assumptions C03_pattern_parse_terminates.

(* pattern interpreter: ANY atom list at ANY cursor terminates within fuel |pat|+1 per invocation; the program
   counter never moves backwards (the termination measure) *)
Theorem C03_pattern_exec_terminates : forall v pat cursor save, ViewsProofs.view_ok v -> v_len v < W32 ->
  exists ok save', view_exec v pat cursor save = Ok (ok, save').
Proof. exact ExecProofs.view_exec_total. Qed.
Print Assumptions C03_pattern_exec_terminates.
Theorem C03_pattern_exec_pc_monotone : forall sc pat, scan_ok sc -> forall fuel pc cur mask ext save,
  (S (length pat - pc) <= fuel)%nat -> good pc (exec sc pat fuel pc cur mask ext save).
Proof. exact ExecProofs.exec_good. Qed.
Print Assumptions C03_pattern_exec_pc_monotone.

(* formatting any C string read from the image terminates (fuel length+1) and writes at most 4 bytes per byte *)
Theorem C03_cstr_format_terminates : forall bytes,
  (exists out, cstr_debug bytes = Ok out /\ (length out <= 4 * length bytes + 2)%nat) /\
  (exists out, cstr_display bytes = Ok out /\ (length out <= 4 * length bytes)%nat).
Proof. exact BoundsProofs.cstr_format_total. Qed.
Print Assumptions C03_cstr_format_terminates.

(* ---- traversals of the directory parsers, restated from the files of their own properties ---- *)
From PV.Model Require Dirs Resources VersionInfo Iters.
From PV.Spec Require Deque DirSpec.
From PV.Proofs Require DirsProofs ResourcesProofs VersionInfoProofs ItersProofs.

(* exception lookup: the binary search terminates on ANY table (sorted or not) and stays inside the slice *)
Theorem C03_exception_search_terminates : forall t pc,
  exists r, Dirs.index_of t pc = Ok r /\
    match r with
    | Dirs.Found i => i < lenN t /\ exists f, nth_error t (N.to_nat i) = Some f /\ DirSpec.contains f pc = true
    | Dirs.Insert k => k <= lenN t
    end.
Proof. exact DirsProofs.index_of_total. Qed.
Print Assumptions C03_exception_search_terminates.

(* POGO records: the iterator terminates on any dword array *)
Theorem C03_pgo_iter_terminates : forall g image, exists items, Dirs.pgo_iter g image = Ok items /\ DirSpec.pgo_iter_check g image items = true.
Proof. exact DirsProofs.pgo_iter_correct. Qed.
Print Assumptions C03_pgo_iter_terminates.

(* resources: fsck terminates on ANY section bytes - cyclic or self-referential directories are reported as errors *)
Theorem C03_resources_fsck_terminates : forall s, no_fault (Resources.fsck s).
Proof. exact ResourcesProofs.fsck_no_fault. Qed.
Print Assumptions C03_resources_fsck_terminates.

(* version info: after an error the TLV parser is exhausted; with ANY visitor the walk completes within fuel |words|+1 per level *)
Theorem C03_tlv_parser_stops_after_error : forall vl ws e rest, VersionInfoProofs.len_ok ws ->
  VersionInfo.parser_next vl ws = Some (Err e, rest) -> rest = [] /\ VersionInfo.parser_next vl rest = None.
Proof. exact VersionInfoProofs.parser_err_stops. Qed.
Print Assumptions C03_tlv_parser_stops_after_error.
Theorem C03_version_info_walk_terminates : forall St A (V : VersionInfo.visitor St) (init : St) (proj : St -> A) base bytes,
  VersionInfoProofs.bytes_len_ok bytes -> no_fault (VersionInfo.api V false init proj base bytes).
Proof. exact @VersionInfoProofs.api_no_fault. Qed.
Print Assumptions C03_version_info_walk_terminates.

(* iterators that define only next: any call history terminates within the fuel, and once exhausted they stay exhausted *)
Theorem C03_forward_iterators_fused : forall (S A : Type) (next : S -> res (option A * S)) (measure : S -> nat) (Inv : S -> Prop),
  (forall s, Inv s -> next s = Ok (None, s) \/
                      (exists x s', next s = Ok (Some x, s') /\ Inv s' /\ (measure s' < measure s)%nat)) ->
  forall s s', Inv s -> next s = Ok (None, s') -> s' = s /\ next s' = Ok (None, s').
Proof. exact @ItersProofs.fwd_fused. Qed.
Print Assumptions C03_forward_iterators_fused.

(* non-termination of the code as it stood, repaired in /repo *)
Theorem C03_F13_iter_orig_refuted : forall fuel,
  iter_blocks_gen advance_orig fuel 0 RelocsProofs.f13_witness = Fault OutOfFuel.
Proof. exact RelocsProofs.iter_blocks_orig_refuted. Qed.
Print Assumptions C03_F13_iter_orig_refuted.
Theorem C03_F14_build_orig_refuted : forall fuel,
  build_gen count_page_orig fuel [8191] [3] = Fault OutOfFuel.
Proof. exact RelocsProofs.build_orig_refuted. Qed.
Print Assumptions C03_F14_build_orig_refuted.
(* F15: <CStr as Debug>::fmt never finished on a DEL byte at the start of an escape run *)
Theorem C03_F15_cstr_debug_orig_refuted : forall fuel, cstr_debug_orig fuel [127] = Fault OutOfFuel.
Proof. exact CStrFmtProofs.cstr_debug_orig_refuted. Qed.
Print Assumptions C03_F15_cstr_debug_orig_refuted.

(* ================= work bounds (ghost step counters, Spec/WorkSpec.v) ================= *)
From PV.Spec Require WorkSpec PatSyntax.
From PV.Proofs Require WorkProofs.

(* Exec::exec with a step counter: one unit per atom executed and per iteration of the retry loop of exec_many,
   summed over all nested invocations.  Erasing the counter gives back the model of Scanner::exec: same verdict,
   same captures, same fuel. *)
Theorem C03_exec_steps_erasure : forall sc pat cursor save,
  match WorkSpec.run_exec_steps sc pat cursor save with
  | Ok (ok, save', _) => run_exec sc pat cursor save = Ok (ok, save')
  | Err e => run_exec sc pat cursor save = Err e
  | Fault f => run_exec sc pat cursor save = Fault f
  end.
Proof. exact WorkProofs.run_exec_steps_erase. Qed.
Print Assumptions C03_exec_steps_erasure.

(* total work of Scanner::exec on a view.  [wcost cf smax pat 0] is defined by recursion over the pattern:
     plain atom: 1 + rest;   Many lim: (f + 1) * (1 + rest);   Case: 1 + cf * rest
   where f = slice length if lim = 0, else min (slice length) (256 * largest Rangext operand before the atom + lim)
   - the number of cursor positions the skip range can try.  Its closed form is |pat| * prod over the Many atoms of
   (f_i + 1): ONE FACTOR PER SKIP-RANGE OPERATOR, which is inherent in "first match, skipping as little as
   possible" (every position of an outer range restarts the inner ones); linear (<= |pat|) without skip ranges.
   cf = 1 needs the Case blocks to be properly nested ([cases_nested], a decidable check on the atom list);
   for arbitrary atom lists every Case atom costs a factor 2 (see the two _refuted lemmas below). *)
Theorem C03_exec_work_bounded : forall v pat cursor save,
  ViewsProofs.view_ok v -> v_len v < W32 -> SafetySpec.placed (v_addr v) (v_len v) ->
  exists ok save' n,
    WorkSpec.run_exec_steps (scan_of_view v) pat cursor save = Ok (ok, save', n) /\
    view_exec v pat cursor save = Ok (ok, save') /\
    n <= WorkSpec.wcost 2 (v_len v) pat 0 /\
    WorkSpec.wcost 2 (v_len v) pat 0 <= lenN pat * WorkSpec.wprod 2 (v_len v) pat 0 /\
    (WorkSpec.cases_nested pat = true ->
       n <= WorkSpec.wcost 1 (v_len v) pat 0 /\
       WorkSpec.wcost 1 (v_len v) pat 0 <= lenN pat * WorkSpec.wprod 1 (v_len v) pat 0 /\
       (WorkProofs.no_many pat = true -> n <= lenN pat)).
Proof. exact WorkProofs.view_exec_work. Qed.
Print Assumptions C03_exec_work_bounded.

(* the same for any implementation of the Scan trait whose slices are at most smax long *)
Theorem C03_exec_work_nested : forall sc pat smax,
  (forall cur l, sc_slice_len sc cur = Some l -> l <= smax) -> WorkSpec.cases_nested pat = true ->
  forall cursor save ok save' n, WorkSpec.run_exec_steps sc pat cursor save = Ok (ok, save', n) ->
    n <= WorkSpec.wcost 1 smax pat 0 /\ WorkSpec.wcost 1 smax pat 0 <= lenN pat * WorkSpec.wprod 1 smax pat 0.
Proof. exact WorkProofs.exec_work_nested. Qed.
Print Assumptions C03_exec_work_nested.
Theorem C03_exec_work_any_atoms : forall sc pat smax,
  (forall cur l, sc_slice_len sc cur = Some l -> l <= smax) ->
  forall cursor save ok save' n, WorkSpec.run_exec_steps sc pat cursor save = Ok (ok, save', n) ->
    n <= WorkSpec.wcost 2 smax pat 0 /\ WorkSpec.wcost 2 smax pat 0 <= lenN pat * WorkSpec.wprod 2 smax pat 0.
Proof. exact WorkProofs.exec_work_any. Qed.
Print Assumptions C03_exec_work_any_atoms.
(* every factor is at most the longest slice, whatever the operands *)
Theorem C03_exec_many_factor_le : forall smax x lim, WorkSpec.many_factor smax x lim <= smax.
Proof. exact WorkProofs.many_factor_le. Qed.
Print Assumptions C03_exec_many_factor_le.

(* what the static check means: an invocation started right after a Case atom can only fail inside the block of
   that Case (so the else-branch never re-executes atoms the failed attempt already went through) *)
Theorem C03_exec_nesting_check_sound : forall sc pat, WorkSpec.cases_nested pat = true ->
  forall pc k, nth_error pat pc = Some (Case k) ->
  forall fuel cur mask ext save p1 c1 s1,
    exec sc pat fuel (S pc) cur mask ext save = Ok (false, p1, c1, s1) -> (p1 <= S pc + N.to_nat k)%nat.
Proof. exact WorkProofs.cases_nested_sound. Qed.
Print Assumptions C03_exec_nesting_check_sound.

(* REFUTED without the nesting hypothesis: 12 hand-written Case(0) atoms and a byte that does not match take
   2^13 - 1 steps (the cf = 2 bound is attained) ... *)
Theorem C03_exec_work_case_chain_refuted :
  WorkProofs.no_many (WorkProofs.case_chain 12) = true /\ lenN (WorkProofs.case_chain 12) = 13 /\
  WorkSpec.cases_nested (WorkProofs.case_chain 12) = false /\
  WorkSpec.run_exec_steps (scan_of_view WorkProofs.zero_view) (WorkProofs.case_chain 12) 256 [0] = Ok (false, [0], 8191) /\
  WorkSpec.wcost 2 4096 (WorkProofs.case_chain 12) 0 = 8191.
Proof. exact WorkProofs.exec_work_case_chain_refuted. Qed.
Print Assumptions C03_exec_work_case_chain_refuted.
(* ... and so did a pattern STRING the parser accepted before the repair of F40 ([parse_orig] = the parser as it
   stood): k groups "(%{|?)" followed by "01" (a brace left open inside an alternative; the parser reset its depth at
   '|' instead of rejecting it): 7 * 2^k - 5 steps for 6k + 2 characters, on an image of zeros - super-polynomial work
   in the pattern length.  The repaired parser reports StackError at the first '|' ... *)
Theorem C03_exec_work_unbalanced_brace_refuted :
  parse_orig (WorkProofs.brace_text 10) = Ok (inr (WorkProofs.brace_pat 10)) /\
  parse_orig (WorkProofs.brace_text 12) = Ok (inr (WorkProofs.brace_pat 12)) /\
  WorkProofs.no_many (WorkProofs.brace_pat 10) = true /\ WorkProofs.no_many (WorkProofs.brace_pat 12) = true /\
  lenN (WorkProofs.brace_pat 10) = 62 /\ lenN (WorkProofs.brace_pat 12) = 74 /\
  WorkSpec.cases_nested (WorkProofs.brace_pat 10) = false /\ WorkSpec.cases_nested (WorkProofs.brace_pat 12) = false /\
  WorkSpec.run_exec_steps (scan_of_view WorkProofs.zero_view) (WorkProofs.brace_pat 10) 256 [0] = Ok (false, [256], 7163) /\
  WorkSpec.run_exec_steps (scan_of_view WorkProofs.zero_view) (WorkProofs.brace_pat 12) 256 [0] = Ok (false, [256], 28667).
Proof. exact WorkProofs.exec_work_unbalanced_brace_refuted. Qed.
Print Assumptions C03_exec_work_unbalanced_brace_refuted.
Theorem C03_unbalanced_brace_rejected :
  parse (WorkProofs.brace_text 10) = Ok (inl (StackError, 3%nat)) /\ parse (WorkProofs.brace_text 12) = Ok (inl (StackError, 3%nat)).
Proof. exact WorkProofs.unbalanced_brace_rejected. Qed.
Print Assumptions C03_unbalanced_brace_rejected.

(* ... and since that repair EVERY pattern string the parser accepts passes the nesting check, so the bound with one factor
   per skip range and none per Case (C03_exec_work_nested, C03_exec_work_bounded) holds for every accepted pattern string
   (Proofs/PatNestProofs.v: an invariant of the parser loop over all lists that refine the back-patched result). *)
From PV.Proofs Require PatNestProofs.
Theorem C03_exec_parsed_patterns_nested : forall s p, parse s = Ok (inr p) -> WorkSpec.cases_nested p = true.
Proof. exact PatNestProofs.parse_nested. Qed.
Print Assumptions C03_exec_parsed_patterns_nested.
(* in particular every compiled AST of the documented syntax (the statement that was open before) *)
Theorem C03_exec_compiled_patterns_nested : forall a, PatSyntax.wf a -> WorkSpec.cases_nested (PatSyntax.compile a) = true.
Proof. exact PatNestProofs.compile_nested. Qed.
Print Assumptions C03_exec_compiled_patterns_nested.
(* examples computed *)
Theorem C03_exec_nesting_check_examples :
  forallb (fun a => WorkSpec.cases_nested (PatSyntax.compile a))
   [ [PatSyntax.IByte 0x83; PatSyntax.IByte 0xc0; PatSyntax.IByte 0x2a; PatSyntax.IAlt [PatSyntax.IByte 0x6a; PatSyntax.IWild 1] [[PatSyntax.IByte 0x68; PatSyntax.IWild 4]]; PatSyntax.IByte 0xe8];
     [PatSyntax.IByte 1; PatSyntax.IAlt [PatSyntax.IByte 2; PatSyntax.IWild 1] [[PatSyntax.IByte 3]; []]; PatSyntax.IWild 2; PatSyntax.ISkip 0; PatSyntax.IWild 1; PatSyntax.IStr []; PatSyntax.IByte 9];
     [PatSyntax.IByte 1; PatSyntax.ISub PatSyntax.JP [PatSyntax.IAlt [PatSyntax.ISave; PatSyntax.ISave] [[PatSyntax.IRead PatSyntax.RU16]; [PatSyntax.IZero; PatSyntax.ISave; PatSyntax.ISave]]; PatSyntax.ISave]; PatSyntax.ISave; PatSyntax.IWild 2];
     [PatSyntax.IAlt [PatSyntax.IAlt [PatSyntax.IByte 1] [[PatSyntax.IByte 2; PatSyntax.IRange 1 3]]; PatSyntax.IWild 1] [[PatSyntax.ISub PatSyntax.J1 [PatSyntax.IWild 1]; PatSyntax.IWild 1]]; PatSyntax.IWild 1; PatSyntax.IByte 7; PatSyntax.ISub PatSyntax.J4 [PatSyntax.ISave]];
     [PatSyntax.IAlt [PatSyntax.ISub PatSyntax.J1 [PatSyntax.IAlt [PatSyntax.IByte 1] [[PatSyntax.IRange 0 300; PatSyntax.IByte 2]]]; PatSyntax.IJump PatSyntax.J4; PatSyntax.IByte 3] [[PatSyntax.IJump PatSyntax.JP; PatSyntax.IAlt [] [[]]]; [PatSyntax.IRange 2 9]]; PatSyntax.IByte 4];
     [PatSyntax.ISave; PatSyntax.IWild 1; PatSyntax.IRange 2 9]; [] ] = true.
Proof. exact WorkProofs.cases_nested_examples. Qed.
Print Assumptions C03_exec_nesting_check_examples.

Example C03_exec_work_nonvacuous :
  let pat := PatSyntax.compile [PatSyntax.IByte 0; PatSyntax.IRange 0 8;
                                PatSyntax.IAlt [PatSyntax.IByte 1] [[PatSyntax.IByte 0; PatSyntax.IRange 0 300; PatSyntax.IByte 2]];
                                PatSyntax.IByte 3] in
  pat = [Save 0; Byte 0; Many 8; Case 2; Byte 1; Break 5; Nop; Byte 0; Rangext 1; Many 44; Byte 2; Byte 3] /\
  WorkSpec.cases_nested pat = true /\ WorkProofs.no_many pat = false /\
  WorkSpec.run_exec_steps (scan_of_view WorkProofs.zero_view) pat 256 [0] = Ok (false, [256], 2459) /\
  WorkSpec.wcost 1 4096 pat 0 = 8192 /\ lenN pat * WorkSpec.wprod 1 4096 pat 0 = 32508.
Proof. exact WorkProofs.exec_work_nonvacuous. Qed.

(* ================= item counts of the directory traversals (Proofs/CountProofs.v) ================= *)
From PV.Proofs Require CountProofs.

(* TLV parser: an item that parses consumes at least 4 words, so at most len/4 items parse per level (4 fixed
   levels: VS_VERSIONINFO, *FileInfo, StringTable / Var, String) ... *)
Theorem C03_tlv_items_bounded : forall vl ws, VersionInfoProofs.len_ok ws ->
  4 * lenN (VersionInfoProofs.items vl ws) <= lenN ws.
Proof. exact CountProofs.Tlv.tlv_items_bounded. Qed.
Print Assumptions C03_tlv_items_bounded.
(* ... and the iterator is exhausted after at most len/4 + 1 results (fuel |ws| + 1 suffices); at most one is an error *)
Theorem C03_tlv_parser_run_bounded : forall vl ws, VersionInfoProofs.len_ok ws ->
  exists l, WorkSpec.parser_run (S (length ws)) vl ws = Some l /\
    4 * lenN (filter WorkSpec.is_ok l) <= lenN ws /\ lenN l <= lenN ws / 4 + 1.
Proof. exact CountProofs.Tlv.tlv_parser_run_bounded. Qed.
Print Assumptions C03_tlv_parser_run_bounded.

(* binary searches: floor(log2 n) + 2 iterations of the loop (the last one sees the empty interval), on ANY table *)
Theorem C03_exception_search_log : forall t pc,
  let fuel := S (S (N.to_nat (N.log2 (lenN t)))) in
  Dirs.index_of t pc = Dirs.bsearch fuel (Dirs.cmp_rf pc) t 0 (lenN t) /\
  Dirs.bsearch fuel (Dirs.cmp_rf pc) t 0 (lenN t) <> Fault OutOfFuel.
Proof. exact CountProofs.DirSearch.index_of_log. Qed.
Print Assumptions C03_exception_search_log.
From PV.Model Require Exports.
Theorem C03_export_name_search_log : forall cstr t n,
  Exports.name cstr t n =
  Exports.bsearch cstr t (S (S (N.to_nat (N.log2 (lenN (Exports.t_names t)))))) 0 (lenN (Exports.t_names t)) n.
Proof. exact CountProofs.ExpSearch.name_log. Qed.
Print Assumptions C03_export_name_search_log.

(* sentinel scans: the result index r satisfies (r + 1) * size <= slice length, so at most blen/size iterations;
   the NUL of a C string is found among the len bytes of the slice *)
Theorem C03_scan_f_bound : forall get p off blen size fuel n r, 0 < size ->
  scan_f get fuel p off blen size n = Ok r -> n <= r /\ (r + 1) * size <= blen.
Proof. exact CountProofs.Scans.scan_f_bound. Qed.
Print Assumptions C03_scan_f_bound.
Theorem C03_find_nul_bound : forall get n off i, find_nul get off n = Some i -> i < N.of_nat n.
Proof. exact CountProofs.Scans.find_nul_bound. Qed.
Print Assumptions C03_find_nul_bound.

(* Rich header: one record per pair of dwords between the 4-dword header and the 2-dword trailer, all before e_lfanew *)
Theorem C03_rich_records_count : forall image s e, try_from image = Ok (s, e) ->
  length (records image (s, e)) = ((e - s - 6) / 2)%nat /\
  exists e_lfanew, nth_error image 15 = Some e_lfanew /\
    (2 * length (records image (s, e)) + 6 + 16 <= N.to_nat (e_lfanew / 4))%nat.
Proof. exact CountProofs.RichCount.records_count_try_from. Qed.
Print Assumptions C03_rich_records_count.

(* resources: the traversal, the tree printer and fsck look at no more than len/8 entries in total and nest at
   most 32 deep (the depth argument of walk / draw / fsck_dir is the structural recursion argument), whatever
   the offsets say - cycles and k-fold shared children included.  fsck_c is fsck with a visit counter. *)
Theorem C03_resources_walk_bounded : forall s r lvl,
  WorkSpec.witem_count (fst (Resources.walk 32 s r lvl (Resources.fsck_budget s))) <= Resources.rs_len s / 8.
Proof. exact CountProofs.ResCount.walk_budget. Qed.
Print Assumptions C03_resources_walk_bounded.
Theorem C03_resources_display_bounded : forall s, Resources.display_lines s <= Resources.rs_len s / 8 + 1.
Proof. exact CountProofs.ResCount.display_lines_bound. Qed.
Print Assumptions C03_resources_display_bounded.
Theorem C03_resources_fsck_visits_bounded : forall s,
  fst (WorkSpec.fsck_c s) = Resources.fsck s /\ snd (WorkSpec.fsck_c s) <= Resources.rs_len s / 8.
Proof. exact CountProofs.ResCount.fsck_c_spec. Qed.
Print Assumptions C03_resources_fsck_visits_bounded.

(* relocation directory: a block costs its 8-byte header and 2 bytes per word, all inside the directory, so the fold
   decodes at most len/2 words and yields at most len/2 (rva, type) pairs *)
Theorem C03_reloc_fold_bounded : forall data, lenN data + 3 < W64 ->
  exists bs flat, blocks data = Ok bs /\ fold_pairs data = Ok flat /\
    8 * lenN bs + 2 * CountProofs.RelocCount.total_words bs <= lenN data /\
    lenN flat <= CountProofs.RelocCount.total_words bs /\ 2 * lenN flat <= lenN data.
Proof. exact CountProofs.RelocCount.fold_bounded. Qed.
Print Assumptions C03_reloc_fold_bounded.

(* exception and debug directories: Size/12 and Size/28 records (restated from C15) *)
Theorem C03_exception_count : forall v va size r, Dirs.exception_try_from v (Some (va, size)) = Ok r ->
  Mapping.r_len r = size /\ length (Dirs.exception_functions v r) = N.to_nat (size / 12).
Proof. exact CountProofs.DirCount.exception_count. Qed.
Print Assumptions C03_exception_count.
Theorem C03_debug_count : forall v va size r, Dirs.debug_try_from v (Some (va, size)) = Ok r ->
  Mapping.r_len r = size /\ length (Dirs.debug_dirs v r) = N.to_nat (size / 28).
Proof. exact CountProofs.DirCount.debug_count. Qed.
Print Assumptions C03_debug_count.

(* ================= string enumerator: work of a full iteration ================= *)
(* next_c / enumerate_c are Model/Strings.v next / enumerate with the number of bytes looked at.  One call examines
   exactly the bytes between the old and the new offset (offset strictly increases when an item is returned);
   iteration to exhaustion examines every byte exactly once: total work = len, whatever the number of items
   (so certainly <= 2 * len + items). *)
Theorem C03_strings_next_work : forall c base bytes offset, offset <= lenN bytes ->
  fst (WorkSpec.next_c c base bytes offset) = Strings.next c base bytes offset /\
  match WorkSpec.next_c c base bytes offset with
  | (Some (_, off'), n) => offset < off' /\ off' <= lenN bytes /\ n = off' - offset
  | (None, n) => n = lenN bytes - offset
  end.
Proof. exact CountProofs.StrWork.next_work. Qed.
Print Assumptions C03_strings_next_work.
Theorem C03_strings_enumerate_work : forall c base bytes,
  exists l, WorkSpec.enumerate_c c base bytes = Ok (l, lenN bytes) /\ enumerate c base bytes = Ok l.
Proof. exact CountProofs.StrWork.enumerate_work. Qed.
Print Assumptions C03_strings_enumerate_work.

(* ================= Matches::next: candidates per call and per scan ================= *)
From PV.Model Require Scanner.
From PV.Proofs Require ScanWorkProofs ScannerIterProofs.
(* `hits` is the implementation's own counter of Scanner::exec invocations (incremented once before each).  One call
   of Matches::next hands at most (new range.start - old range.start) candidates to exec, and range.start never
   passes max(range.start, range.end): at most the remaining range length per call ... *)
Theorem C03_scanner_candidates_per_call : forall v pat, ViewsProofs.view_ok v -> v_len v < W32 ->
  forall st save, Scanner.m_end st < W32 -> Scanner.m_hits st <= Scanner.m_start st ->
  exists ok st' save', Scanner.next v pat st save = Ok (ok, st', save') /\
    Scanner.m_hits st <= Scanner.m_hits st' /\
    Scanner.m_hits st' - Scanner.m_hits st <= Scanner.m_start st' - Scanner.m_start st /\
    Scanner.m_start st <= Scanner.m_start st' /\
    Scanner.m_start st' <= N.max (Scanner.m_start st) (Scanner.m_end st).
Proof. exact ScanWorkProofs.next_candidates_bounded. Qed.
Print Assumptions C03_scanner_candidates_per_call.
(* ... and over ANY number of calls of one iteration the total is at most the distance range.start has moved, i.e. at
   most the length of the range (each candidate costs at most the exec bound above) *)
Theorem C03_scanner_candidates_per_scan : forall v pat, ViewsProofs.view_ok v -> v_len v < W32 ->
  forall n st save l, Scanner.m_end st < W32 -> Scanner.m_hits st <= Scanner.m_start st ->
  Scanner.iterate n v pat st save = Ok l ->
    let st' := ScanWorkProofs.final_state l st in
    Scanner.m_hits st <= Scanner.m_hits st' /\
    Scanner.m_hits st' - Scanner.m_hits st <= Scanner.m_start st' - Scanner.m_start st /\
    Scanner.m_start st <= Scanner.m_start st' /\
    Scanner.m_start st' <= N.max (Scanner.m_start st) (Scanner.m_end st).
Proof. exact ScanWorkProofs.iterate_candidates_bounded. Qed.
Print Assumptions C03_scanner_candidates_per_scan.
(* (range.end - range.start) + 1 calls exhaust the iteration (restated from C10) *)
Theorem C03_scanner_calls_to_exhaustion : forall v pat, ViewsProofs.view_ok v -> v_len v < W32 ->
  forall n st save, Scanner.m_end st < W32 -> Scanner.m_hits st <= Scanner.m_start st ->
  (N.to_nat (Scanner.m_end st - Scanner.m_start st) < n)%nat ->
  exists l cs, Scanner.iterate n v pat st save = Ok l /\
    ScannerIterProofs.run_sound v pat (Scanner.m_start st) (Scanner.m_end st) l cs.
Proof. exact ScannerIterProofs.iteration_sound. Qed.
Print Assumptions C03_scanner_calls_to_exhaustion.

Example C03_nonvacuous :
  cstr_debug [65; 127; 10; 200; 34] = Ok [34; 65; 92;120;55;70; 92;120;48;65; 92;120;67;56; 92;34; 34] /\
  enumerate {| min_len := 2; min_len_nul := 2; strict := false |} 0 [65;66;0;67] = Ok [ {| f_start := 0; f_len := 2; f_addr := 0; f_nul := true |} ].
Proof. vm_compute. repeat split; reflexivity. Qed.

(* ---- component `util`: termination and output bounds of the utility / formatting layer ---- *)
From PV.Model Require Util.
From PV.Spec Require UtilSpec.
From PV.Proofs Require UtilText UtilProofs.

(* the two loops that are not structural (`for x in decode_utf16(..)`, trimn's `while len > 0`): fuel length + 1
   suffices on every input; decoding yields at most one item per code unit *)
Theorem C03_util_fuel_suffices : forall ws,
  Util.decode_iter (S (length ws)) None ws = Ok (UtilSpec.utf16_decode_spec ws) /\
  Util.trimn_loop (S (length ws)) ws (lenN ws) = Ok (lenN (UtilSpec.trim_spec ws)) /\
  (length (UtilSpec.utf16_decode_spec ws) <= length ws)%nat.
Proof. exact UtilProofs.util_fuel_suffices. Qed.
Print Assumptions C03_util_fuel_suffices.

(* FmtUtf16: Display writes at most 3 bytes per input word (4 for the 2 words of a surrogate pair),
   Debug at most 6 bytes per word plus the 3 bytes of L" and " *)
Theorem C03_util_fmt_bounds : forall ws, UtilSpec.units_ok ws ->
  (exists out, Util.fmt_display ws = Ok out /\ (length out <= 3 * length ws)%nat) /\
  (exists out, Util.fmt_debug ws = Ok out /\ (length out <= 6 * length ws + 3)%nat).
Proof. exact UtilProofs.fmt_bounds. Qed.
Print Assumptions C03_util_fmt_bounds.

(* the GUID formatters write exactly 38 (dashed) / 32 (plain) bytes *)
Theorem C03_util_guid_length : forall upper dashed g out, Util.Data1 g < 2 ^ 32 -> Util.Data2 g < 2 ^ 16 -> Util.Data3 g < 2 ^ 16 ->
  length (Util.Data4 g) = 8%nat -> bytes_ok (Util.Data4 g) -> Util.guid_fmt upper dashed g = Ok out ->
  length out = if dashed then 38%nat else 32%nat.
Proof. exact UtilProofs.guid_fmt_length. Qed.
Print Assumptions C03_util_guid_length.

(* Ptr::fmt / Pir::fmt write exactly 2 + 2 * size_of::<Va>() bytes *)
Theorem C03_util_ptr_fmt_length : forall bits va out, bits = 32 \/ bits = 64 -> va < 2 ^ bits -> Util.ptr_fmt bits va = Ok out ->
  lenN out = 2 + 2 * (bits / 8).
Proof. exact UtilProofs.ptr_fmt_length. Qed.
Print Assumptions C03_util_ptr_fmt_length.

(* to_strs yields at most one name per bit of the flag word *)
Theorem C03_util_to_strs_bounded : forall checks size t x, size * 8 < W32 ->
  exists l, Util.to_strs checks size t x = Ok l /\ (length l <= N.to_nat (size * 8))%nat.
Proof. exact UtilProofs.to_strs_bounded. Qed.
Print Assumptions C03_util_to_strs_bounded.
