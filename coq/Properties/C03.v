(* C03 - Termination: every traversal finishes in work bounded by the input size.
   Loops that are not structurally recursive run on explicit fuel in the models and return [Fault OutOfFuel]
   when it is exhausted; the statements below say that the stated fuel - a function of the input length -
   always suffices, and bound the number of items yielded.  Statements only; every proof is [exact <lemma>].
   The traversals of the directory parsers (TLV parser, resource tree, export binary search, scanner) are
   stated in the files of their own properties; this file states the cross-cutting core. *)
From PV.Model Require Import Machine Mapping Views Relocs Rich Strings Pattern Exec ScanView CStrFmt.
From PV.Spec Require Import SafetySpec RelocSpec.
From PV.Proofs Require SafetyProofs BoundsProofs RelocsProofs RichProofs StringsProofs PatternProofs ExecProofs ViewsProofs CStrFmtProofs.
Import ExecProofs.

(* relocation blocks: the iterator terminates on every directory (fuel = its length) and yields at most
   len/8 blocks, each consuming at least its 8-byte header (IterBlocks.data strictly shrinks) *)
Theorem C03_reloc_blocks_bounded : forall data, lenN data + 3 < W64 ->
  exists bs, blocks data = Ok bs /\ 8 * lenN bs <= lenN data.
Proof. exact BoundsProofs.blocks_bounded. Qed.
Print Assumptions C03_reloc_blocks_bounded.

(* the relocation builder terminates and writes at most 12 bytes per rva (at least one rva per block) *)
Theorem C03_reloc_build_bounded : forall rvas types,
  length rvas = length types -> 2 * lenN rvas + 11 < W32 ->
  Forall (fun r => r < W32) rvas -> Forall (fun t => 1 <= t <= 15) types ->
  exists out bs, build rvas types = Ok out /\ bytes_ok out /\ lenN out <= 12 * lenN rvas /\
    blocks out = Ok bs /\ fold_pairs out = Ok (combine rvas types) /\
    Forall (fun b => b_va b mod 4096 = 0 /\ b_sob b mod 4 = 0) bs.
Proof. exact RelocsProofs.build_roundtrip. Qed.
Print Assumptions C03_reloc_build_bounded.

(* string enumerator: iteration to exhaustion terminates within fuel length+1 and yields at most length+1 items *)
Theorem C03_strings_bounded : forall c base bytes,
  exists l, enumerate c base bytes = Ok l /\ (length l <= length bytes + 1)%nat.
Proof. exact BoundsProofs.enumerate_bounded. Qed.
Print Assumptions C03_strings_bounded.

(* sentinel / predicate scans and C strings stop at the end of the slice: fuel = (slice length / element size) + 1
   suffices on both read paths, and the result never exceeds the slice *)
Theorem C03_sentinel_scans_terminate : forall v byva,
  (forall a size align, no_fault (rd (sl_of v byva) a size align)) /\
  (forall a size, no_fault (rd_copy (sl_of v byva) a size)) /\
  (forall a size align n, no_fault (rd_slice (sl_of v byva) a size align n)) /\
  (forall a size align p, 0 < size -> no_fault (rd_slice_f (v_get v) (sl_of v byva) a size align p)) /\
  (forall a, no_fault (rd_c_str (v_get v) (sl_of v byva) a)).
Proof. exact BoundsProofs.view_typed_total. Qed.
Print Assumptions C03_sentinel_scans_terminate.

(* Rich header: the two backward scans never run out of fuel *)
Theorem C03_rich_scans_terminate : forall image f, try_from image <> Fault f.
Proof. exact RichProofs.try_from_no_fault. Qed.
Print Assumptions C03_rich_scans_terminate.

(* pattern parser: fuel = length+1 for ANY byte string *)
Theorem C03_pattern_parse_terminates : forall input,
  exists r, parse input = Ok r /\ match r with inl (_, pos) => (pos <= length input)%nat | inr _ => True end.
Proof. exact PatternProofs.parse_total. Qed.
Print Assumptions C03_pattern_parse_terminates.

(* pattern interpreter: ANY atom list at ANY cursor terminates within fuel |pat|+1 per invocation; the program
   counter never moves backwards (the termination measure) *)
Theorem C03_pattern_exec_terminates : forall v pat cursor save, ViewsProofs.view_ok v -> v_len v < W32 ->
  exists ok save', view_exec v pat cursor save = Ok (ok, save').
Proof. exact ExecProofs.view_exec_total. Qed.
Print Assumptions C03_pattern_exec_terminates.
Theorem C03_pattern_exec_pc_monotone : forall sc pat, scan_ok sc -> forall fuel pc cur mask ext save,
  (S (length pat - pc) <= fuel)%nat -> good pc (exec sc pat fuel pc cur mask ext save).
Proof. exact ExecProofs.exec_good. Qed.
Print Assumptions C03_pattern_exec_pc_monotone.

(* formatting any C string read from the image terminates (fuel length+1) and writes at most 4 bytes per byte *)
Theorem C03_cstr_format_terminates : forall bytes,
  (exists out, cstr_debug bytes = Ok out /\ (length out <= 4 * length bytes + 2)%nat) /\
  (exists out, cstr_display bytes = Ok out /\ (length out <= 4 * length bytes)%nat).
Proof. exact BoundsProofs.cstr_format_total. Qed.
Print Assumptions C03_cstr_format_terminates.

(* ---- traversals of the directory parsers, restated from the files of their own properties ---- *)
From PV.Model Require Dirs Resources VersionInfo Iters.
From PV.Spec Require Deque DirSpec.
From PV.Proofs Require DirsProofs ResourcesProofs VersionInfoProofs ItersProofs.

(* exception lookup: the binary search terminates on ANY table (sorted or not) and stays inside the slice *)
Theorem C03_exception_search_terminates : forall t pc,
  exists r, Dirs.index_of t pc = Ok r /\
    match r with
    | Dirs.Found i => i < lenN t /\ exists f, nth_error t (N.to_nat i) = Some f /\ DirSpec.contains f pc = true
    | Dirs.Insert k => k <= lenN t
    end.
Proof. exact DirsProofs.index_of_total. Qed.
Print Assumptions C03_exception_search_terminates.

(* POGO records: the iterator terminates on any dword array *)
Theorem C03_pgo_iter_terminates : forall g image, exists items, Dirs.pgo_iter g image = Ok items /\ DirSpec.pgo_iter_check g image items = true.
Proof. exact DirsProofs.pgo_iter_correct. Qed.
Print Assumptions C03_pgo_iter_terminates.

(* resources: fsck terminates on ANY section bytes - cyclic or self-referential directories are reported as errors *)
Theorem C03_resources_fsck_terminates : forall s, no_fault (Resources.fsck s).
Proof. exact ResourcesProofs.fsck_no_fault. Qed.
Print Assumptions C03_resources_fsck_terminates.

(* version info: after an error the TLV parser is exhausted; with ANY visitor the walk completes within fuel |words|+1 per level *)
Theorem C03_tlv_parser_stops_after_error : forall vl ws e rest, VersionInfoProofs.len_ok ws ->
  VersionInfo.parser_next vl ws = Some (Err e, rest) -> rest = [] /\ VersionInfo.parser_next vl rest = None.
Proof. exact VersionInfoProofs.parser_err_stops. Qed.
Print Assumptions C03_tlv_parser_stops_after_error.
Theorem C03_version_info_walk_terminates : forall St A (V : VersionInfo.visitor St) (init : St) (proj : St -> A) base bytes,
  VersionInfoProofs.bytes_len_ok bytes -> no_fault (VersionInfo.api V false init proj base bytes).
Proof. exact @VersionInfoProofs.api_no_fault. Qed.
Print Assumptions C03_version_info_walk_terminates.

(* iterators that define only next: any call history terminates within the fuel, and once exhausted they stay exhausted *)
Theorem C03_forward_iterators_fused : forall (S A : Type) (next : S -> res (option A * S)) (measure : S -> nat) (Inv : S -> Prop),
  (forall s, Inv s -> next s = Ok (None, s) \/
                      (exists x s', next s = Ok (Some x, s') /\ Inv s' /\ (measure s' < measure s)%nat)) ->
  forall s s', Inv s -> next s = Ok (None, s') -> s' = s /\ next s' = Ok (None, s').
Proof. exact @ItersProofs.fwd_fused. Qed.
Print Assumptions C03_forward_iterators_fused.

(* non-termination of the code as it stood, repaired in /repo *)
Theorem C03_F13_iter_orig_refuted : forall fuel,
  iter_blocks_gen advance_orig fuel 0 RelocsProofs.f13_witness = Fault OutOfFuel.
Proof. exact RelocsProofs.iter_blocks_orig_refuted. Qed.
Print Assumptions C03_F13_iter_orig_refuted.
Theorem C03_F14_build_orig_refuted : forall fuel,
  build_gen count_page_orig fuel [8191] [3] = Fault OutOfFuel.
Proof. exact RelocsProofs.build_orig_refuted. Qed.
Print Assumptions C03_F14_build_orig_refuted.
(* F15: <CStr as Debug>::fmt never finished on a DEL byte at the start of an escape run *)
Theorem C03_F15_cstr_debug_orig_refuted : forall fuel, cstr_debug_orig fuel [127] = Fault OutOfFuel.
Proof. exact CStrFmtProofs.cstr_debug_orig_refuted. Qed.
Print Assumptions C03_F15_cstr_debug_orig_refuted.

Example C03_nonvacuous :
  cstr_debug [65; 127; 10; 200; 34] = Ok [34; 65; 92;120;55;70; 92;120;48;65; 92;120;67;56; 92;34; 34] /\
  enumerate {| min_len := 2; min_len_nul := 2; strict := false |} 0 [65;66;0;67] = Ok [ {| f_start := 0; f_len := 2; f_addr := 0; f_nul := true |} ].
Proof. vm_compute. repeat split; reflexivity. Qed.
