(* C01 - Memory safety: every reference, slice or string the safe API returns lies inside the buffer and is
   aligned for its type.  In the models every accessor returns the REGION (offset, length) of the borrow it
   hands out, and the statements below say where that region lies relative to the buffer (address [addr], [len]
   bytes) - for every buffer content, length and address, every section table and every argument.
   Statements only; every proof is [exact <lemma>].  The directory parsers add their own region theorems in the
   files of their properties; this file states the core every one of them stands on:
   header gate -> unchecked header accessors -> slice/read -> typed reads. *)
From PV.Model Require Import Machine Mapping Views Headers Relocs.
From PV.Spec Require Import SafetySpec RelocSpec.
From PV.Proofs Require SafetyProofs BoundsProofs HeadersProofs MappingProofs RelocsProofs.
Import HeadersProofs.

(* 1. After the validation gate, every unchecked header accessor (raw pointer casts, from_raw_parts) returns a
      borrow inside the buffer and aligned for its struct type; alignments and sizes come from the layout
      regenerated from src/image.rs on every run. *)
Theorem C01_header_accessors_64 : forall m soi, validate fmt64 m = Ok soi -> Forall (aregion_ok m) (accessors fmt64 m).
Proof. exact HeadersProofs.accessors_ok64. Qed.
Print Assumptions C01_header_accessors_64.
Theorem C01_header_accessors_32 : forall m soi, validate fmt32 m = Ok soi -> Forall (aregion_ok m) (accessors fmt32 m).
Proof. exact HeadersProofs.accessors_ok32. Qed.
Print Assumptions C01_header_accessors_32.

(* 1b. check_sum and rich_structure reinterpret the whole image as len/4 dwords: aligned and inside the buffer *)
Theorem C01_dword_view : forall f m soi, validate f m = Ok soi ->
  (m_addr m + 0) mod 4 = 0 /\ 0 + 4 * (m_len m / 4) <= m_len m.
Proof. exact SafetyProofs.dword_view_safe. Qed.
Print Assumptions C01_dword_view.

(* 2. slice / read, file and mapped views: whatever (rva | va, min_size, align) is passed, a returned slice lies
      inside the buffer, has at least min_size bytes, and its START ADDRESS is a multiple of align. *)
Theorem C01_slice : forall v rva min_size align r, SafetyProofs.is_pow2 align -> placed (v_addr v) (v_len v) ->
  slice v rva min_size align = Ok r -> slice_safe (v_addr v) (v_len v) min_size align r.
Proof. exact SafetyProofs.slice_safe_view_pow2. Qed.
Print Assumptions C01_slice.
Theorem C01_read : forall v va min_size align r, SafetyProofs.is_pow2 align -> placed (v_addr v) (v_len v) ->
  read v va min_size align = Ok r -> slice_safe (v_addr v) (v_len v) min_size align r.
Proof. exact SafetyProofs.read_safe_view_pow2. Qed.
Print Assumptions C01_read.
(* the code tests alignment with a mask after debug-asserting a power of two; for powers of two that is the
   divisibility test of the models (for other arguments the API's documented precondition is violated) *)
Theorem C01_alignment_test_is_mask : forall a x, SafetyProofs.is_pow2 a -> (N.land x (a - 1) =? 0) = aligned_to a x.
Proof. exact SafetyProofs.pow2_mask_is_mod. Qed.
Print Assumptions C01_alignment_test_is_mask.
Theorem C01_section_bytes : forall len address size r, get_section_bytes len address size = Ok r -> region_in len r.
Proof. exact SafetyProofs.get_section_bytes_safe. Qed.
Print Assumptions C01_section_bytes.

(* 3. the typed casts justified by (min_size_of, align_of): derva/deref, derva_copy/into, derva_slice,
      derva_slice_f/_s, derva_c_str and their VA twins return regions inside the buffer, aligned for the
      element type, of exactly size / n*size / k*size bytes; a C string is non-empty (it includes its NUL). *)
Theorem C01_typed_reads : forall v byva, placed (v_addr v) (v_len v) ->
  (forall a size align r, rd (sl_of v byva) a size align = Ok r -> typed_safe (v_addr v) (v_len v) align r /\ r_len r = size) /\
  (forall a size r, rd_copy (sl_of v byva) a size = Ok r -> region_in (v_len v) r /\ r_len r = size) /\
  (forall a size align n r, rd_slice (sl_of v byva) a size align n = Ok r -> typed_safe (v_addr v) (v_len v) align r /\ r_len r = size * n) /\
  (forall a size align p r, rd_slice_f (v_get v) (sl_of v byva) a size align p = Ok r ->
     typed_safe (v_addr v) (v_len v) align r /\ exists n, r_len r = n * size) /\
  (forall a r, rd_c_str (v_get v) (sl_of v byva) a = Ok r -> region_in (v_len v) r /\ 0 < r_len r).
Proof. exact BoundsProofs.view_typed_safe. Qed.
Print Assumptions C01_typed_reads.

(* 4. the dword-aligned relocation block walk: every block (8-byte header + its words) lies inside the directory *)
Theorem C01_reloc_blocks : forall data off b bs, chainb data off (b :: bs) = true ->
  let rem := lenN data - off in
  let next := off + N.min (align4 (N.max (b_sob b) 8)) rem in
  b_off b = off /\ b_va b = u32_at data off /\ b_sob b = u32_at data (off + 4) /\
  b_words b = words_spec data (off + 8) ((N.min (b_sob b) rem - 8) / 2) /\
  off + 8 + 2 * lenN (b_words b) <= next /\ off < next <= lenN data /\
  (b_sob b mod 4 = 0 -> 8 <= b_sob b <= rem -> next = off + b_sob b) /\
  chainb data next bs = true.
Proof. exact RelocsProofs.chainb_inv. Qed.
Print Assumptions C01_reloc_blocks.

(* 5. directory modules with their own size/alignment checks before casts (restated from their properties) *)
From PV.Model Require Resources Dirs.
From PV.Proofs Require ResourcesProofs DirsProofs.
(* resources: the entry array handed out by from_raw_parts in Directory::entries lies inside the section and is aligned (after F4) *)
Theorem C01_resource_entries : forall s off o, Resources.dir_try_from s off = Ok o -> Resources.entries_safe s o = true.
Proof. exact ResourcesProofs.dir_try_from_entries_safe. Qed.
Print Assumptions C01_resource_entries.
(* exception: UNWIND_INFO and its code array - 4 + 2*CountOfCodes bytes - lie inside the slice they were read from *)
Theorem C01_unwind_info : forall v f u, Dirs.unwind_info v f = Ok u ->
  exists b, slice v (Dirs.rf_unwind f) 4 1 = Ok b /\ r_off u = r_off b /\
    r_len u = 4 + 2 * v_get v (r_off b + 2) /\ r_len u <= r_len b /\
    Dirs.uw_count (v_get v) u = v_get v (r_off b + 2) /\
    Dirs.uw_codes (v_get v) u = {| r_off := r_off b + 4; r_len := 2 * v_get v (r_off b + 2) |}.
Proof. exact DirsProofs.unwind_info_shape. Qed.
Print Assumptions C01_unwind_info.

(* 6. The directory modules, accessor by accessor (vocabulary in Spec/SafetyDirsSpec.v, proofs in
      Proofs/SafetyDirsProofs.v): every struct reference, array, array element, string and payload slice a parser
      hands out lies inside the buffer of the view and its address is a multiple of the alignment of the Rust type
      it is cast to (gen/Layout.v, regenerated from src/image.rs).  [vsafe v align r] = inside [v]'s buffer and
      (v_addr v + r_off r) mod align = 0; [array_safe v size align n r] adds r_len r = size * n; [elem r size k] is
      element k; [cstr_safe] = inside and non-empty.  Where a model decodes VALUES (the export tables) the statement
      is about the slicing step the values were decoded from. *)
From PV.Model Require Exports Imports VersionInfo Rich Convert.
From PV.gen Require Import Layout.
From PV.Spec Require Import SafetyDirsSpec.
From PV.Spec Require ConvertSimSpec.
From PV.Proofs Require SafetyDirsProofs.

(* exports: the IMAGE_EXPORT_DIRECTORY reference; the three tables of a By value (&[Rva], &[Rva], &[u16]: the static
   empty slice or a derva_slice region); the C string every name lookup and forwarder reads *)
Theorem C01_exports_regions : forall v dd, placed (v_addr v) (v_len v) ->
  (forall x, Exports.try_from (slice v) dd = Ok x -> vsafe v IMAGE_EXPORT_DIRECTORY_align (export_dir x)) /\
  (forall t, Exports.view_by v dd = Ok t ->
     exists x, Exports.try_from (slice v) dd = Ok x /\ vsafe v IMAGE_EXPORT_DIRECTORY_align (export_dir x) /\
       table_src v 4 u32_align (x_fn v x IMAGE_EXPORT_DIRECTORY_AddressOfFunctions_off) (x_fn v x IMAGE_EXPORT_DIRECTORY_NumberOfFunctions_off) (Exports.t_funcs t) /\
       table_src v 4 u32_align (x_fn v x IMAGE_EXPORT_DIRECTORY_AddressOfNames_off) (x_fn v x IMAGE_EXPORT_DIRECTORY_NumberOfNames_off) (Exports.t_names t) /\
       table_src v 2 u16_align (x_fn v x IMAGE_EXPORT_DIRECTORY_AddressOfNameOrdinals_off) (x_fn v x IMAGE_EXPORT_DIRECTORY_NumberOfNames_off) (Exports.t_idxs t)) /\
  (forall a s, Exports.view_cstr v a = Ok s ->
     exists r, rd_c_str (v_get v) (slice v) a = Ok r /\ cstr_safe v r /\ s = Exports.bytes_of (v_get v) (r_off r) (r_len r - 1)).
Proof. exact SafetyDirsProofs.exports_regions. Qed.
Print Assumptions C01_exports_regions.

(* imports: the descriptor array and each descriptor; dll names; the IAT / INT thunk arrays of a descriptor (&[Va],
   4-byte aligned in PE32, 8-byte aligned in PE32+) and each thunk; the name of a by-name import; the IAT directory *)
Theorem C01_imports_regions : forall p, placed (v_addr (Imports.p_v p)) (v_len (Imports.p_v p)) ->
  (forall r, Imports.imports p = Ok r ->
     exists n, array_safe (Imports.p_v p) IMAGE_IMPORT_DESCRIPTOR_size IMAGE_IMPORT_DESCRIPTOR_align n r /\
       forall k, k < n -> vsafe (Imports.p_v p) IMAGE_IMPORT_DESCRIPTOR_align (elem r IMAGE_IMPORT_DESCRIPTOR_size k)) /\
  (forall d r, Imports.dll_name p d = Ok r -> cstr_safe (Imports.p_v p) r) /\
  (forall rva r, Imports.thunks p rva = Ok r ->
     exists n, array_safe (Imports.p_v p) (Imports.va_bytes p) (va_align p) n r /\
       forall k, k < n -> vsafe (Imports.p_v p) (va_align p) (elem r (Imports.va_bytes p) k)) /\
  (forall va i, Imports.import_from_va p va = Ok i -> import_safe p i) /\
  (forall r, Forall (fun ri => forall i, ri = Ok i -> import_safe p i) (Imports.int_imports p r)) /\
  (forall r, Imports.iat p = Ok r ->
     exists d, Imports.dir_entry p IMAGE_DIRECTORY_ENTRY_IAT = Ok d /\
       array_safe (Imports.p_v p) (Imports.va_bytes p) (va_align p) (snd d / Imports.va_bytes p) r /\
       forall k, k < snd d / Imports.va_bytes p -> vsafe (Imports.p_v p) (va_align p) (elem r (Imports.va_bytes p) k)) /\
  (forall r, Forall (fun x => forall i, snd x = Ok i -> import_safe p i) (Imports.iat_iter p r)).
Proof. exact SafetyDirsProofs.imports_regions. Qed.
Print Assumptions C01_imports_regions.

(* exception: the &[RUNTIME_FUNCTION] and each record; the bytes of a function; the &UNWIND_INFO (alignment 1) and the
   &[UNWIND_CODE] that unwind_codes() builds with from_raw_parts directly behind it, ending where the checked region ends *)
Theorem C01_exception_regions : forall v, placed (v_addr v) (v_len v) ->
  (forall dd r, Dirs.exception_try_from v dd = Ok r ->
     exists n, array_safe v RUNTIME_FUNCTION_size RUNTIME_FUNCTION_align n r /\
       forall k, k < n -> vsafe v RUNTIME_FUNCTION_align (elem r RUNTIME_FUNCTION_size k)) /\
  (forall f r, Dirs.function_bytes v f = Ok r -> region_in (v_len v) r /\ r_len r = Dirs.rf_end f - Dirs.rf_begin f) /\
  (forall f u, Dirs.unwind_info v f = Ok u ->
     vsafe v UNWIND_INFO_align u /\ UNWIND_INFO_size <= r_len u /\
     r_off (Dirs.uw_codes (v_get v) u) = r_off u + UNWIND_INFO_UnwindCode_off /\
     r_len (Dirs.uw_codes (v_get v) u) = UNWIND_CODE_size * Dirs.uw_count (v_get v) u /\
     r_off (Dirs.uw_codes (v_get v) u) + r_len (Dirs.uw_codes (v_get v) u) = r_off u + r_len u /\
     vsafe v UNWIND_CODE_align (Dirs.uw_codes (v_get v) u)).
Proof. exact SafetyDirsProofs.exception_regions. Qed.
Print Assumptions C01_exception_regions.

(* security: the certificate lies inside the file, starts at a multiple of align_of::<WIN_CERTIFICATE>() and has at least
   the 8 header bytes that image() dereferences and certificate_data() skips with get_unchecked(8..) *)
Theorem C01_security_region : forall v dd r, Dirs.security_try_from v dd = Ok r ->
  vsafe v WIN_CERTIFICATE_align r /\ WIN_CERTIFICATE_size <= r_len r /\
  exists d, Dirs.certificate_data r = Ok d /\ region_in (v_len v) d /\
            r_off d = r_off r + WIN_CERTIFICATE_bCertificate_off /\ r_off d + r_len d = r_off r + r_len r.
Proof. exact SafetyDirsProofs.security_region. Qed.
Print Assumptions C01_security_region.

(* debug: the &[IMAGE_DEBUG_DIRECTORY], each entry of it and each Dir the iterator yields; Dir::data; the casts of
   Dir::entry (CodeView PDB20 / PDB70 header + file name, IMAGE_DEBUG_MISC, the PGO dword slice, raw bytes);
   pdb_file_name; every name PgoIter cuts out of the dword slice *)
Theorem C01_debug_regions : forall v, placed (v_addr v) (v_len v) ->
  (forall dd r, Dirs.debug_try_from v dd = Ok r ->
     exists n, array_safe v IMAGE_DEBUG_DIRECTORY_size IMAGE_DEBUG_DIRECTORY_align n r /\
       (forall k, k < n -> vsafe v IMAGE_DEBUG_DIRECTORY_align (elem r IMAGE_DEBUG_DIRECTORY_size k)) /\
       (forall d, In d (Dirs.debug_dirs v r) ->
          vsafe v IMAGE_DEBUG_DIRECTORY_align {| r_off := Dirs.dd_off d; r_len := IMAGE_DEBUG_DIRECTORY_size |})) /\
  (forall d b, Dirs.dir_data v d = Some b -> region_in (v_len v) b) /\
  (forall d e, Dirs.dir_entry v d = Ok e -> entry_safe v e) /\
  (forall ds n, Dirs.pdb_file_name v ds = Some n -> cstr_safe v n) /\
  (forall image items, vsafe v u32_align image -> Dirs.pgo_iter (v_get v) image = Ok items ->
     Forall (fun it => cstr_safe v (Dirs.pg_name it) /\ r_off image <= r_off (Dirs.pg_name it) /\
                       r_off (Dirs.pg_name it) + r_len (Dirs.pg_name it) <= r_off image + r_len image) items).
Proof. exact SafetyDirsProofs.debug_regions. Qed.
Print Assumptions C01_debug_regions.

(* TLS: the IMAGE_TLS_DIRECTORY32 / 64 reference (alignment 4 / 8); raw data; the &u32 slot; the &[Va] of callbacks *)
Theorem C01_tls_regions : forall v, placed (v_addr v) (v_len v) ->
  (forall dd t, Dirs.tls_try_from v dd = Ok t -> vsafe v (tls_align v) t /\ r_len t = tls_size v) /\
  (forall t r, Dirs.tls_raw_data v t = Ok r -> region_in (v_len v) r /\ r_len r = Dirs.tls_end v t - Dirs.tls_start v t) /\
  (forall t r, Dirs.tls_slot v t = Ok r -> vsafe v u32_align r /\ r_len r = 4) /\
  (forall t r, Dirs.tls_callbacks v t = Ok r ->
     exists n, array_safe v (Dirs.va_size v) (va_align_v v) n r /\
       forall k, k < n -> vsafe v (va_align_v v) (elem r (Dirs.va_size v) k)).
Proof. exact SafetyDirsProofs.tls_regions. Qed.
Print Assumptions C01_tls_regions.

(* load config: the IMAGE_LOAD_CONFIG_DIRECTORY32 / 64 reference (alignment 4 / 8); the &u32 cookie; the &[Va] handler table *)
Theorem C01_load_config_regions : forall v, placed (v_addr v) (v_len v) ->
  (forall dd t, Dirs.load_config_try_from v dd = Ok t -> vsafe v (lc_align v) t /\ r_len t = lc_size v) /\
  (forall t r, Dirs.lc_security_cookie v t = Ok r -> vsafe v u32_align r /\ r_len r = 4) /\
  (forall t r, Dirs.lc_se_handler_table v t = Ok r ->
     array_safe v (Dirs.va_size v) (va_align_v v) (Dirs.lc_count v t) r /\
     forall k, k < Dirs.lc_count v t -> vsafe v (va_align_v v) (elem r (Dirs.va_size v) k)).
Proof. exact SafetyDirsProofs.load_config_regions. Qed.
Print Assumptions C01_load_config_regions.

(* resources: all offsets are relative to the section [s] (address rs_addr, rs_len bytes); [sec_safe s align o size] =
   [size] bytes at offset [o] inside the section, at an address that is a multiple of [align].  Resources::slice / slice_ws;
   Directory::try_from with the entry arrays of entries() / named_entries() / id_entries() and each entry; wide names;
   sub-directories and data entries; DataEntry::bytes; the find.rs queries; GroupResource::new with its entry array *)
Theorem C01_resources_regions : forall s,
  (forall off size align o, splaced s -> Resources.rslice s off size align = Ok o -> o = off /\ sec_safe s align o size) /\
  (forall off o n, Resources.slice_ws s off = Ok (o, n) ->
     o = off + 2 /\ n = Resources.rd16 s off /\ sec_safe s u16_align off 2 /\ sec_safe s u16_align o (2 * n)) /\
  (forall off o, Resources.dir_try_from s off = Ok o ->
     o = off /\ ent_safe s (Resources.EDir o) /\
     (forall e, In e (Resources.entries s o) -> sec_safe s IMAGE_RESOURCE_DIRECTORY_ENTRY_align e IMAGE_RESOURCE_DIRECTORY_ENTRY_size) /\
     (forall e, In e (Resources.named_entries s o) -> In e (Resources.entries s o)) /\
     (forall e, In e (Resources.id_entries s o) -> In e (Resources.entries s o))) /\
  (forall e nm, Resources.e_name s e = Ok nm ->
     match nm with
     | Resources.NId _ => True
     | Resources.NWide ws => exists o n, Resources.slice_ws s (Resources.rd32 s e - Resources.B31) = Ok (o, n) /\ ws = Resources.words s o n /\
                               sec_safe s u16_align (Resources.rd32 s e - Resources.B31) 2 /\ sec_safe s u16_align o (2 * n)
     | Resources.NStr _ => False
     end) /\
  (forall e x, Resources.e_entry s e = Ok x -> ent_safe s x) /\
  (forall o r, Resources.data_bytes s o = Ok r -> region_in (Resources.rs_len s) r) /\
  (forall lo a b r, Resources.find_resource lo s a b = Resources.FOk r -> region_in (Resources.rs_len s) r) /\
  (forall lo a b c r, Resources.find_resource_ex lo s a b c = Resources.FOk r -> region_in (Resources.rs_len s) r) /\
  (forall r, Resources.manifest s = Resources.FOk r -> region_in (Resources.rs_len s) r) /\
  (forall r, Resources.version_info s = Resources.FOk r -> region_in (Resources.rs_len s) r /\ (Resources.rs_addr s + r_off r) mod 4 = 0) /\
  (forall g g', region_in (Resources.rs_len s) g -> Resources.group_new s g = Ok g' ->
     g' = g /\ sec_safe s GRPICONDIR_align (r_off g) GRPICONDIR_size /\
     r_len g = GRPICONDIR_size + GRPICONDIRENTRY_size * Resources.g_count s g /\
     forall e, In e (Resources.g_entries s g) ->
       sec_safe s GRPICONDIRENTRY_align e GRPICONDIRENTRY_size /\ r_off g + GRPICONDIR_size <= e /\
       e + GRPICONDIRENTRY_size <= r_off g + r_len g) /\
  (forall g id r, Resources.g_image s g id = Resources.FOk r -> region_in (Resources.rs_len s) r).
Proof. exact SafetyDirsProofs.resources_regions. Qed.
Print Assumptions C01_resources_regions.
(* icons() / cursors(): every group resource of the listing *)
Theorem C01_resource_groups : forall s ty, Forall (fun x => forall nm g, x = Resources.FOk (nm, g) ->
    region_in (Resources.rs_len s) g /\ sec_safe s GRPICONDIR_align (r_off g) GRPICONDIR_size /\
    r_len g = GRPICONDIR_size + GRPICONDIRENTRY_size * Resources.g_count s g /\
    forall e, In e (Resources.g_entries s g) -> sec_safe s GRPICONDIRENTRY_align e GRPICONDIRENTRY_size /\
      r_off g + GRPICONDIR_size <= e /\ e + GRPICONDIRENTRY_size <= r_off g + r_len g) (Resources.group_list s ty).
Proof. exact SafetyDirsProofs.group_list_safe. Qed.
Print Assumptions C01_resource_groups.
(* Pe::resources() of a file or mapped view: the section is a borrow of the view's buffer, so a section borrow that is
   inside the section and aligned is inside the buffer and aligned *)
Theorem C01_resources_in_view : forall v dd s, placed (v_addr v) (v_len v) -> ConvertSimSpec.view_resources v dd = Ok s ->
  exists off, sec_of_view v s off /\ splaced s /\
    (forall align o size, sec_safe s align o size -> vsafe v align {| r_off := off + o; r_len := size |}) /\
    (forall r, region_in (Resources.rs_len s) r -> region_in (v_len v) {| r_off := off + r_off r; r_len := r_len r |}).
Proof. exact SafetyDirsProofs.view_resources_safe. Qed.
Print Assumptions C01_resources_in_view.

(* version info: the &[u16] view of the resource bytes; key / value / children of every block inside the words given to
   the parser; the VS_FIXEDFILEINFO cast (a 52-byte value of the first block of a dword aligned resource is dword aligned
   and inside; the model's misaligned-cast fault is unreachable); Language::from_slice *)
Theorem C01_version_info_regions :
  (forall base bytes ws, VersionInfo.try_from base bytes = Ok ws ->
     base mod 4 = 0 /\ base mod u16_align = 0 /\ ws = VersionInfo.words_of bytes /\ 2 * lenN ws <= lenN bytes) /\
  (forall vl ws t rest, vi_len_ok ws -> VersionInfo.parse_tlv vl ws = Ok (t, rest) ->
     3 + lenN (VersionInfo.t_key t) <= lenN ws /\ VersionInfo.t_voff t + lenN (VersionInfo.t_value t) <= lenN ws /\
     VersionInfo.t_voff t + lenN (VersionInfo.t_value t) + lenN (VersionInfo.t_children t) <= lenN ws) /\
  (forall base ws t rest, base mod 4 = 0 -> vi_len_ok ws -> VersionInfo.parse_tlv VersionInfo.VBytes ws = Ok (t, rest) ->
     2 * lenN (VersionInfo.t_value t) = VS_FIXEDFILEINFO_size ->
     VersionInfo.fixed_ref base t = Ok (Some (VersionInfo.t_value t)) /\
     (base + 2 * VersionInfo.t_voff t) mod VS_FIXEDFILEINFO_align = 0 /\
     2 * VersionInfo.t_voff t + VS_FIXEDFILEINFO_size <= 2 * lenN ws) /\
  (forall ws, Language_size * lenN (VersionInfo.lang_from_slice ws) <= 2 * lenN ws) /\
  Language_align = u16_align.
Proof. exact SafetyDirsProofs.version_info_regions. Qed.
Print Assumptions C01_version_info_regions.

(* Rich structure, on the dword view of C01_dword_view: the dos stub, the Rich image and the record words are dword
   slices inside the buffer *)
Theorem C01_rich_region : forall v s e, v_addr v mod 4 = 0 -> ConvertSimSpec.view_rich (v_get v) (v_len v) = Ok (s, e) ->
  (16 <= s)%nat /\ (s + 6 <= e)%nat /\ 4 * N.of_nat e <= v_len v /\
  vsafe v u32_align {| r_off := 0; r_len := 4 * N.of_nat s |} /\
  vsafe v u32_align {| r_off := 4 * N.of_nat s; r_len := 4 * N.of_nat (e - s) |} /\
  vsafe v u32_align {| r_off := 4 * N.of_nat (s + 4); r_len := 4 * N.of_nat (e - s - 6) |}.
Proof. exact SafetyDirsProofs.view_rich_region. Qed.
Print Assumptions C01_rich_region.

(* base relocations: the directory bytes are inside the buffer and dword aligned, and (with C01_reloc_blocks) every block
   header IterBlocks::peek dereferences starts at a multiple of 4 inside the directory *)
Theorem C01_relocs_region : forall v dd r, placed (v_addr v) (v_len v) -> ConvertSimSpec.relocs_try_from v dd = Ok r ->
  vsafe v IMAGE_BASE_RELOCATION_align r /\ exists va, dd = Some (va, r_len r).
Proof. exact SafetyDirsProofs.relocs_try_from_safe. Qed.
Print Assumptions C01_relocs_region.
Theorem C01_reloc_blocks_aligned : forall data bs off, off mod 4 = 0 -> chainb data off bs = true ->
  Forall (fun b => b_off b mod 4 = 0 /\ b_off b + IMAGE_BASE_RELOCATION_size + 2 * lenN (b_words b) <= lenN data) bs.
Proof. exact SafetyDirsProofs.reloc_blocks_aligned. Qed.
Print Assumptions C01_reloc_blocks_aligned.

(* 7. the unchecked accesses that hand out no borrow - the models mark them with a UB fault - are unreachable: the header
      copy of to_view / to_file (get_unchecked(..SizeOfHeaders) on source and destination), the probe of binary_search_by
      in the exception lookup, the VS_FIXEDFILEINFO cast of a dword aligned version resource *)
Theorem C01_no_ub :
  (forall f m, mem_ok m -> no_fault (Convert.pe_to_view f m)) /\
  (forall f m, mem_ok m -> no_fault (Convert.pe_to_file f m)) /\
  (forall t pc, no_fault (Dirs.index_of t pc)) /\
  (forall t pc, no_fault (Dirs.lookup_function_entry t pc)) /\
  (forall St (V : VersionInfo.visitor St) base ws s, base mod 4 = 0 -> vi_len_ok ws -> no_fault (VersionInfo.visit V false base ws s)).
Proof. exact SafetyDirsProofs.no_ub. Qed.
Print Assumptions C01_no_ub.

(* 8. the invariant of CStr (from_bytes_unchecked: "the byte slice ends with the only nul byte"; AsRef strips it with
      get_unchecked(..len - 1)): every string handed out by derva_c_str / deref_c_str - export and forwarder names, dll
      names, import names - and by the debug parsers (pdb file names, PGO section names) is non-empty, ends with a NUL
      and contains no other *)
Theorem C01_c_str_invariant :
  (forall get sl a q, rd_c_str get sl a = Ok q ->
     0 < r_len q /\ get (r_off q + r_len q - 1) = 0 /\ forall k, k < r_len q - 1 -> get (r_off q + k) <> 0) /\
  (forall g off len q, Dirs.cstr_from_bytes g off len = Some q ->
     r_off q = off /\ 0 < r_len q /\ r_len q <= len /\ g (r_off q + r_len q - 1) = 0 /\ forall k, k < r_len q - 1 -> g (r_off q + k) <> 0).
Proof. exact SafetyDirsProofs.c_str_invariants. Qed.
Print Assumptions C01_c_str_invariant.

(* defects repaired in /repo, as theorems about the code as it stood *)
(* F3: a file-view slice tested the alignment of base+rva but returned base+PointerToRawData+(rva-VA) *)
Theorem C01_F3_slice_file_orig_refuted :
  exists r, slice_file_orig 0 4096 [{| s_va := 4096; s_vs := 512; s_prd := 1026; s_srd := 512 |}] 4096 4 4 = Ok r
            /\ (0 + r_off r) mod 4 <> 0.
Proof. exact MappingProofs.slice_file_orig_refuted. Qed.
Print Assumptions C01_F3_slice_file_orig_refuted.
(* F2: an odd SizeOfOptionalHeader was accepted and the section table borrowed through a misaligned pointer *)
Theorem C01_F2_validate_orig_refuted :
  exists soi, validate_orig fmt32 (bytes_mem 0 (tiny_pe32 2)) = Ok soi /\
    (m_addr (bytes_mem 0 (tiny_pe32 2)) + a_off (acc_section_headers fmt32 (bytes_mem 0 (tiny_pe32 2)))) mod 4 <> 0.
Proof. exact HeadersProofs.f2_validate_orig_refuted. Qed.
Print Assumptions C01_F2_validate_orig_refuted.

Example C01_nonvacuous :
  let v := {| v_file := false; v_addr := 4096; v_len := 8192; v_get := fun i => if i =? 4100 then 0 else 65;
              v_w := W64; v_base := 5368709120; v_soh := 1024; v_soi := 8192; v_secs := [] |} in
  slice v 4096 4 4 = Ok {| r_off := 4096; r_len := 4096 |} /\
  rd_c_str (v_get v) (sl_of v false) 4096 = Ok {| r_off := 4096; r_len := 5 |}.
Proof. vm_compute. repeat split; reflexivity. Qed.

(* the directory statements are not vacuous: on a mapped PE32+ view of zero bytes (and on a file view for the security
   directory, on the example section of C12 for resources) every parser returns a region *)
Example C01_dirs_nonvacuous :
  let v := {| v_file := false; v_addr := 4096; v_len := 8192; v_get := fun _ => 0;
              v_w := W64; v_base := 5368709120; v_soh := 1024; v_soi := 8192; v_secs := [] |} in
  let f := {| v_file := true; v_addr := 4096; v_len := 8192; v_get := fun _ => 0;
              v_w := W64; v_base := 5368709120; v_soh := 1024; v_soi := 8192; v_secs := [] |} in
  Exports.try_from (slice v) (Some (4096, 40)) = Ok 4096 /\
  Dirs.exception_try_from v (Some (4096, 24)) = Ok {| r_off := 4096; r_len := 24 |} /\
  Dirs.unwind_info v {| Dirs.rf_begin := 4096; Dirs.rf_end := 4100; Dirs.rf_unwind := 4104 |} = Ok {| r_off := 4104; r_len := 4 |} /\
  Dirs.debug_try_from v (Some (4096, 56)) = Ok {| r_off := 4096; r_len := 56 |} /\
  Dirs.tls_try_from v (Some (4096, 40)) = Ok {| r_off := 4096; r_len := 40 |} /\
  Dirs.load_config_try_from v (Some (4096, 112)) = Ok {| r_off := 4096; r_len := 112 |} /\
  Dirs.security_try_from f (Some (4096, 16)) = Ok {| r_off := 4096; r_len := 16 |} /\
  Resources.dir_try_from ResourcesProofs.ex_sec 0 = Ok 0 /\
  Resources.e_entry ResourcesProofs.ex_sec 16 = Ok (Resources.EData 24) /\
  Resources.data_bytes ResourcesProofs.ex_sec 24 = Ok {| r_off := 40; r_len := 4 |}.
Proof. vm_compute. repeat split; reflexivity. Qed.

(* =====================================================================================================
   9. Checked twins (Model/Checked.v, Proofs/CheckedProofs.v): the raw references that the first-phase models hand
      out without a reference check.  In a twin every [&*(p as *const T)], [from_raw_parts] and [get_unchecked] is
      [ref_chk addr len off size align], which is [Fault UBOob] when the reference leaves the buffer and
      [Fault UBAlign] when its address is not a multiple of align_of::<T>(); the theorems say the twin returns what
      the model returns, i.e. no such fault is reachable.
   ===================================================================================================== *)
From PV.Model Require Import Checked.
From PV.Proofs Require CheckedProofs.

(* base relocations of a file or mapped view: every &IMAGE_BASE_RELOCATION that IterBlocks::peek dereferences and every
   &[u16] it builds with from_raw_parts lies inside the directory and is aligned for its type *)
Theorem C01_reloc_refs_checked : forall v dd r, placed (v_addr v) (v_len v) -> v_len v + 3 < W64 ->
  ConvertSimSpec.relocs_try_from v dd = Ok r ->
  blocks_chk (v_addr v + r_off r) (ConvertSimSpec.relocs_data v r) = blocks (ConvertSimSpec.relocs_data v r) /\
  fold_pairs_chk (v_addr v + r_off r) (ConvertSimSpec.relocs_data v r) = fold_pairs (ConvertSimSpec.relocs_data v r).
Proof. exact CheckedProofs.view_relocs_chk_eq. Qed.
Print Assumptions C01_reloc_refs_checked.
(* any directory handed to BaseRelocs::parse: at a multiple of 4 the walk is the model, elsewhere parse refuses it *)
Theorem C01_reloc_parse_checked : forall base data, lenN data + 3 < W64 ->
  reloc_parse_chk base data = if base mod 4 =? 0 then blocks data else Err EMisaligned.
Proof. exact CheckedProofs.reloc_parse_chk_spec. Qed.
Print Assumptions C01_reloc_parse_checked.
(* and the refusal is what keeps the iterator sound: on a misaligned directory with room for one header the first
   dereference would be through a misaligned reference *)
Theorem C01_reloc_refs_need_alignment : forall base data, base mod 4 <> 0 -> 8 <= lenN data -> blocks_chk base data = Fault UBAlign.
Proof. exact CheckedProofs.blocks_chk_misaligned. Qed.
Print Assumptions C01_reloc_refs_need_alignment.

(* validate_headers: &IMAGE_DOS_HEADER at 0 and &IMAGE_NT_HEADERS at e_lfanew are taken only after the length and
   alignment tests that make them valid *)
Theorem C01_header_refs_checked : forall f m, f = fmt32 \/ f = fmt64 -> mem_ok m -> validate_chk f m = validate f m.
Proof. exact CheckedProofs.validate_chk_eq. Qed.
Print Assumptions C01_header_refs_checked.
(* rich_structure() / check_sum: from_raw_parts(image.as_ptr() as *const u32, image.len() / 4) on a validated image *)
Theorem C01_dword_view_checked : forall f m soi, validate f m = Ok soi -> dword_view_chk m = Ok tt.
Proof. exact CheckedProofs.dword_view_chk_ok. Qed.
Print Assumptions C01_dword_view_checked.

(* the casts of the typed read family, relative to the byte slice they were derived from *)
Theorem C01_typed_refs_checked : forall v byva, placed (v_addr v) (v_len v) ->
  (forall a size align, rd_chk (sl_of v byva) (v_addr v) a size align = rd (sl_of v byva) a size align) /\
  (forall a size, rd_copy_chk (sl_of v byva) (v_addr v) a size = rd_copy (sl_of v byva) a size) /\
  (forall a size, rd_into_chk (sl_of v byva) a size = rd_copy (sl_of v byva) a size) /\
  (forall a size align n, rd_slice_chk (sl_of v byva) (v_addr v) a size align n = rd_slice (sl_of v byva) a size align n) /\
  (forall a size align p, 0 < size -> 0 < align -> size mod align = 0 -> v_len v + size < W64 ->
     rd_slice_f_chk (v_get v) (sl_of v byva) (v_addr v) a size align p = rd_slice_f (v_get v) (sl_of v byva) a size align p) /\
  (forall a, rd_c_str_chk (v_get v) (sl_of v byva) (v_addr v) a = rd_c_str (v_get v) (sl_of v byva) a) /\
  (forall a q, rd_c_str (v_get v) (sl_of v byva) a = Ok q -> cstr_len_chk (v_addr v) q = Ok (r_len q - 1)).
Proof. exact CheckedProofs.view_typed_chk_eq. Qed.
Print Assumptions C01_typed_refs_checked.

(* the reference check is live: outside, misaligned, fine *)
Example C01_checked_nonvacuous :
  ref_chk 4096 100 96 120 4 = Fault UBOob /\ ref_chk 4098 200 0 64 4 = Fault UBAlign /\ ref_chk 4096 200 0 64 4 = Ok tt /\
  blocks_chk 4098 [0;16;0;0; 12;0;0;0; 5;48; 0;0] = Fault UBAlign.
Proof. vm_compute. repeat split; reflexivity. Qed.

(* ---- component `util`: WideStr constructors / accessors, strn / wstrn / trimn (Model/Util.v; qualified names) ---- *)
From PV.Model Require Util.
From PV.Spec Require UtilSpec.
From PV.Proofs Require UtilText UtilProofs.

(* WideStr::from_words hands out the prefix of first word + 1 words of the slice it was given; the result satisfies
   the invariant from_words_unchecked asks for (first word + 1 = number of words) *)
Theorem C01_util_from_words_region : forall words at_ r, UtilSpec.units_ok words -> Util.from_words words = Ok (Some (at_, r)) ->
  at_ = 0 /\ (exists rest, words = r ++ rest) /\ lenN r <= lenN words /\ UtilSpec.wide_inv r /\
  (exists w0, hd_error words = Some w0 /\ lenN r = w0 + 1).
Proof. exact UtilProofs.from_words_region. Qed.
Print Assumptions C01_util_from_words_region.

(* <WideStr as FromBytes>::from_bytes under the guarantees of its callers (derva_string / deref_string slice with
   MIN_SIZE_OF = 2 and ALIGN_OF = 2): the unchecked read and from_raw_parts stay inside the byte slice, aligned *)
Theorem C01_util_from_bytes_region : forall addr bytes at_ ws, bytes_ok bytes -> aligned_to 2 addr = true -> 2 <= lenN bytes ->
  Util.from_bytes addr bytes = Ok (Some (at_, ws)) ->
  at_ = 0 /\ at_ + 2 * lenN ws <= lenN bytes /\ lenN ws = u16_at bytes 0 + 1 /\ UtilSpec.wide_inv ws /\
  (forall i, i < lenN ws -> nth (N.to_nat i) ws 0 = u16_at bytes (at_ + 2 * i)).
Proof. exact UtilProofs.from_bytes_region. Qed.
Print Assumptions C01_util_from_bytes_region.

(* ... and exactly outside those guarantees the accesses are undefined behaviour (UBOob / UBAlign in the model) *)
Theorem C01_util_from_bytes_faults_iff : forall addr bytes, bytes_ok bytes ->
  ((exists f, Util.from_bytes addr bytes = Fault f) <-> (aligned_to 2 addr = false \/ lenN bytes < 2)).
Proof. exact UtilProofs.from_bytes_faults_iff. Qed.
Print Assumptions C01_util_from_bytes_faults_iff.

Theorem C01_util_from_bytes_unguarded_refuted :
  Util.from_bytes 4096 [] = Fault UBOob /\ Util.from_bytes 4096 [7] = Fault UBOob /\ Util.from_bytes 4097 [1; 0; 65; 0] = Fault UBAlign.
Proof. exact UtilProofs.from_bytes_unguarded_refuted. Qed.
Print Assumptions C01_util_from_bytes_unguarded_refuted.

(* Deref / AsRef (get_unchecked(1..)) is in bounds on the result of every constructor; it is out of bounds exactly on
   the empty slice, which no constructor produces *)
Theorem C01_util_as_ref_after_constructors :
  (forall words at_ r, UtilSpec.units_ok words -> Util.from_words words = Ok (Some (at_, r)) -> exists t, Util.as_ref r = Ok t) /\
  (forall addr bytes at_ r, bytes_ok bytes -> aligned_to 2 addr = true -> 2 <= lenN bytes ->
     Util.from_bytes addr bytes = Ok (Some (at_, r)) -> exists t, Util.as_ref r = Ok t) /\
  (forall checks s buffer r, Util.from_str checks s buffer = Ok r -> exists t, Util.as_ref r = Ok t).
Proof. exact UtilProofs.as_ref_after_constructors. Qed.
Print Assumptions C01_util_as_ref_after_constructors.

Theorem C01_util_as_ref_faults_iff : forall words, (exists f, Util.as_ref words = Fault f) <-> words = [].
Proof. exact UtilProofs.as_ref_faults_iff. Qed.
Print Assumptions C01_util_as_ref_faults_iff.

(* WideStr::from_str hands the WHOLE buffer to from_words_unchecked: the invariant holds only when the string fills it *)
Theorem C01_util_from_str_invariant_iff : forall checks s buffer r, Util.from_str checks s buffer = Ok r -> lenN buffer <= 65536 ->
  (UtilSpec.wide_invb r = true <-> lenN buffer <= lenN (Util.str_encode_utf16 s) + 1).
Proof. exact UtilProofs.from_str_invariant_iff. Qed.
Print Assumptions C01_util_from_str_invariant_iff.

(* strn / wstrn / trimn return prefixes of the buffer they were given *)
Theorem C01_util_strn_trimn_regions : forall buf,
  (exists r rest, Util.strn buf = Ok r /\ Util.wstrn buf = Ok r /\ buf = r ++ rest) /\
  (exists r k, Util.trimn buf = Ok r /\ buf = r ++ repeat 0 k).
Proof. exact UtilProofs.strn_trimn_regions. Qed.
Print Assumptions C01_util_strn_trimn_regions.

(* ---- leaf functions regenerated from the source on every run (tools/gen_leaf.py -> gen/Leaf.v): agreement with the hand-written model ---- *)
(* the same agreement, for the alignment tests of the safety property (the models' aligned_to on addresses is the usize instance) *)
From PV.gen Require Leaf.
From PV.Proofs Require LeafAlign.
Theorem C01_leaf_aligned_to_usize : forall x a, Leaf.L_align_usize_aligned_to_dom x a = true -> Leaf.L_align_usize_aligned_to_ok x a = true ->
  Leaf.L_align_usize_aligned_to x a = Machine.aligned_to a x.
Proof. exact LeafAlign.align_usize_aligned_to_agrees. Qed.
Print Assumptions C01_leaf_aligned_to_usize.
Theorem C01_leaf_align_to_usize : forall x a, Leaf.L_align_usize_align_to_dom x a = true -> Leaf.L_align_usize_align_to_ok x a = true ->
  Leaf.L_align_usize_align_to x a = Machine.align_to W64 a x.
Proof. exact LeafAlign.align_usize_align_to_agrees. Qed.
Print Assumptions C01_leaf_align_to_usize.

(* the source places the binders of the generated leaf definitions stand for (third audit, F2) *)
From Coq Require Import List String.
Import ListNotations.
Theorem C01_leaf_reads_align :
  Leaf.L_align_u32_align_to_args = ["self : u32"%string; "arg1 : u32"%string] /\
  Leaf.L_align_u32_aligned_to_args = ["self : u32"%string; "arg1 : u32"%string] /\
  Leaf.L_align_usize_align_to_args = ["self : usize"%string; "arg1 : usize"%string] /\
  Leaf.L_align_usize_aligned_to_args = ["self : usize"%string; "arg1 : usize"%string].
Proof. exact LeafAlign.leaf_reads_align. Qed.
Print Assumptions C01_leaf_reads_align.
