(* C01 - Memory safety: every reference, slice or string the safe API returns lies inside the buffer and is
   aligned for its type.  In the models every accessor returns the REGION (offset, length) of the borrow it
   hands out, and the statements below say where that region lies relative to the buffer (address [addr], [len]
   bytes) - for every buffer content, length and address, every section table and every argument.
   Statements only; every proof is [exact <lemma>].  The directory parsers add their own region theorems in the
   files of their properties; this file states the core every one of them stands on:
   header gate -> unchecked header accessors -> slice/read -> typed reads. *)
From PV.Model Require Import Machine Mapping Views Headers Relocs.
From PV.Spec Require Import SafetySpec RelocSpec.
From PV.Proofs Require SafetyProofs BoundsProofs HeadersProofs MappingProofs RelocsProofs.
Import HeadersProofs.

(* 1. After the validation gate, every unchecked header accessor (raw pointer casts, from_raw_parts) returns a
      borrow inside the buffer and aligned for its struct type; alignments and sizes come from the layout
      regenerated from src/image.rs on every run. *)
Theorem C01_header_accessors_64 : forall m soi, validate fmt64 m = Ok soi -> Forall (aregion_ok m) (accessors fmt64 m).
Proof. exact HeadersProofs.accessors_ok64. Qed.
Print Assumptions C01_header_accessors_64.
Theorem C01_header_accessors_32 : forall m soi, validate fmt32 m = Ok soi -> Forall (aregion_ok m) (accessors fmt32 m).
Proof. exact HeadersProofs.accessors_ok32. Qed.
Print Assumptions C01_header_accessors_32.

(* 1b. check_sum and rich_structure reinterpret the whole image as len/4 dwords: aligned and inside the buffer *)
Theorem C01_dword_view : forall f m soi, validate f m = Ok soi ->
  (m_addr m + 0) mod 4 = 0 /\ 0 + 4 * (m_len m / 4) <= m_len m.
Proof. exact SafetyProofs.dword_view_safe. Qed.
Print Assumptions C01_dword_view.

(* 2. slice / read, file and mapped views: whatever (rva | va, min_size, align) is passed, a returned slice lies
      inside the buffer, has at least min_size bytes, and its START ADDRESS is a multiple of align. *)
Theorem C01_slice : forall v rva min_size align r, placed (v_addr v) (v_len v) ->
  slice v rva min_size align = Ok r -> slice_safe (v_addr v) (v_len v) min_size align r.
Proof. exact SafetyProofs.slice_safe_view. Qed.
Print Assumptions C01_slice.
Theorem C01_read : forall v va min_size align r, placed (v_addr v) (v_len v) ->
  read v va min_size align = Ok r -> slice_safe (v_addr v) (v_len v) min_size align r.
Proof. exact SafetyProofs.read_safe_view. Qed.
Print Assumptions C01_read.
Theorem C01_section_bytes : forall len address size r, get_section_bytes len address size = Ok r -> region_in len r.
Proof. exact SafetyProofs.get_section_bytes_safe. Qed.
Print Assumptions C01_section_bytes.

(* 3. the typed casts justified by (min_size_of, align_of): derva/deref, derva_copy/into, derva_slice,
      derva_slice_f/_s, derva_c_str and their VA twins return regions inside the buffer, aligned for the
      element type, of exactly size / n*size / k*size bytes; a C string is non-empty (it includes its NUL). *)
Theorem C01_typed_reads : forall v byva, placed (v_addr v) (v_len v) ->
  (forall a size align r, rd (sl_of v byva) a size align = Ok r -> typed_safe (v_addr v) (v_len v) align r /\ r_len r = size) /\
  (forall a size r, rd_copy (sl_of v byva) a size = Ok r -> region_in (v_len v) r /\ r_len r = size) /\
  (forall a size align n r, rd_slice (sl_of v byva) a size align n = Ok r -> typed_safe (v_addr v) (v_len v) align r /\ r_len r = size * n) /\
  (forall a size align p r, rd_slice_f (v_get v) (sl_of v byva) a size align p = Ok r ->
     typed_safe (v_addr v) (v_len v) align r /\ exists n, r_len r = n * size) /\
  (forall a r, rd_c_str (v_get v) (sl_of v byva) a = Ok r -> region_in (v_len v) r /\ 0 < r_len r).
Proof. exact BoundsProofs.view_typed_safe. Qed.
Print Assumptions C01_typed_reads.

(* 4. the dword-aligned relocation block walk: every block (8-byte header + its words) lies inside the directory *)
Theorem C01_reloc_blocks : forall data off b bs, chainb data off (b :: bs) = true ->
  let rem := lenN data - off in
  let next := off + N.min (align4 (N.max (b_sob b) 8)) rem in
  b_off b = off /\ b_va b = u32_at data off /\ b_sob b = u32_at data (off + 4) /\
  b_words b = words_spec data (off + 8) ((N.min (b_sob b) rem - 8) / 2) /\
  off + 8 + 2 * lenN (b_words b) <= next /\ off < next <= lenN data /\
  (b_sob b mod 4 = 0 -> 8 <= b_sob b <= rem -> next = off + b_sob b) /\
  chainb data next bs = true.
Proof. exact RelocsProofs.chainb_inv. Qed.
Print Assumptions C01_reloc_blocks.

(* 5. directory modules with their own size/alignment checks before casts (restated from their properties) *)
From PV.Model Require Resources Dirs.
From PV.Proofs Require ResourcesProofs DirsProofs.
(* resources: the entry array handed out by from_raw_parts in Directory::entries lies inside the section and is aligned (after F4) *)
Theorem C01_resource_entries : forall s off o, Resources.dir_try_from s off = Ok o -> Resources.entries_safe s o = true.
Proof. exact ResourcesProofs.dir_try_from_entries_safe. Qed.
Print Assumptions C01_resource_entries.
(* exception: UNWIND_INFO and its code array - 4 + 2*CountOfCodes bytes - lie inside the slice they were read from *)
Theorem C01_unwind_info : forall v f u, Dirs.unwind_info v f = Ok u ->
  exists b, slice v (Dirs.rf_unwind f) 4 1 = Ok b /\ r_off u = r_off b /\
    r_len u = 4 + 2 * v_get v (r_off b + 2) /\ r_len u <= r_len b /\
    Dirs.uw_count (v_get v) u = v_get v (r_off b + 2) /\
    Dirs.uw_codes (v_get v) u = {| r_off := r_off b + 4; r_len := 2 * v_get v (r_off b + 2) |}.
Proof. exact DirsProofs.unwind_info_shape. Qed.
Print Assumptions C01_unwind_info.

(* defects repaired in /repo, as theorems about the code as it stood *)
(* F3: a file-view slice tested the alignment of base+rva but returned base+PointerToRawData+(rva-VA) *)
Theorem C01_F3_slice_file_orig_refuted :
  exists r, slice_file_orig 0 4096 [{| s_va := 4096; s_vs := 512; s_prd := 1026; s_srd := 512 |}] 4096 4 4 = Ok r
            /\ (0 + r_off r) mod 4 <> 0.
Proof. exact MappingProofs.slice_file_orig_refuted. Qed.
Print Assumptions C01_F3_slice_file_orig_refuted.
(* F2: an odd SizeOfOptionalHeader was accepted and the section table borrowed through a misaligned pointer *)
Theorem C01_F2_validate_orig_refuted :
  exists soi, validate_orig fmt32 (bytes_mem 0 (tiny_pe32 2)) = Ok soi /\
    (m_addr (bytes_mem 0 (tiny_pe32 2)) + a_off (acc_section_headers fmt32 (bytes_mem 0 (tiny_pe32 2)))) mod 4 <> 0.
Proof. exact HeadersProofs.f2_validate_orig_refuted. Qed.
Print Assumptions C01_F2_validate_orig_refuted.

Example C01_nonvacuous :
  let v := {| v_file := false; v_addr := 4096; v_len := 8192; v_get := fun i => if i =? 4100 then 0 else 65;
              v_w := W64; v_base := 5368709120; v_soh := 1024; v_soi := 8192; v_secs := [] |} in
  slice v 4096 4 4 = Ok {| r_off := 4096; r_len := 4096 |} /\
  rd_c_str (v_get v) (sl_of v false) 4096 = Ok {| r_off := 4096; r_len := 5 |}.
Proof. vm_compute. repeat split; reflexivity. Qed.
