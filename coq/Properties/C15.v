(* C15 — Debug, TLS, load-config, exception and security directories are decoded as stored.
   Statements only; every proof is [exact <lemma>].

   v        a view (PeFile / PeView after validation; Model/Views.v)
   dd       pe.data_directory().get(IMAGE_DIRECTORY_ENTRY_x) : option (VirtualAddress, Size)
   view_ok  the header fields are machine words (ViewsProofs.view_ok)
   dd_ok    VirtualAddress and Size are u32
   bytes_lt the buffer holds bytes (values below 256) *)
From PV.Model Require Import Machine Mapping Views Dirs.
From PV.Spec Require Import MappingSpec ViewSpec DirSpec.
From PV.gen Require Import Layout.
From PV.Proofs Require ViewsProofs DirsProofs DirsLayout.
Import ViewsProofs DirsProofs.

(* ================================================================ exception directory *)

(* Size mod 12 <> 0 -> Invalid; else the Size bytes that slicing at VirtualAddress yields (Null when absent) *)
Theorem C15_exception_try_from : forall v dd, view_ok v -> dd_ok dd ->
  exception_try_from v dd = exception_spec v dd.
Proof. exact DirsProofs.exception_try_from_correct. Qed.
Print Assumptions C15_exception_try_from.

(* ... Size/12 records, record i decoded from offset 12*i of that slice *)
Theorem C15_exception_shape : forall v va size,
  (size mod 12 <> 0 -> exception_try_from v (Some (va, size)) = Err EInvalid) /\
  (size mod 12 = 0 -> size < W32 -> va = 0 -> exception_try_from v (Some (va, size)) = Err ENull) /\
  exception_try_from v None = Err EBounds /\
  forall r, exception_try_from v (Some (va, size)) = Ok r ->
    size mod 12 = 0 /\ r_len r = size /\ length (exception_functions v r) = N.to_nat (size / 12) /\
    forall i, i < size / 12 ->
      nth_error (exception_functions v r) (N.to_nat i) =
      Some {| rf_begin := u32at (v_get v) (r_off r + 12 * i); rf_end := u32at (v_get v) (r_off r + 12 * i + 4);
              rf_unwind := u32at (v_get v) (r_off r + 12 * i + 8) |}.
Proof. exact DirsProofs.exception_shape. Qed.
Print Assumptions C15_exception_shape.

(* check_sorted decides: every record an interval, consecutive records do not overlap *)
Theorem C15_check_sorted : forall t, check_sorted t = true <-> sorted_table t.
Proof. exact DirsProofs.check_sorted_spec. Qed.
Print Assumptions C15_check_sorted.

(* THE LOOKUP THEOREM: on a table with check_sorted = true,  index_of pc = Ok i  <->  Begin_i <= pc < End_i *)
Theorem C15_index_of_found_iff : forall t pc i, check_sorted t = true ->
  (index_of t pc = Ok (Found i) <->
   exists f, nth_error t (N.to_nat i) = Some f /\ rf_begin f <= pc /\ pc < rf_end f).
Proof. exact DirsProofs.index_of_found_iff. Qed.
Print Assumptions C15_index_of_found_iff.

(* ... and Err exactly when no record contains pc *)
Theorem C15_index_of_none_iff : forall t pc, check_sorted t = true ->
  ((exists k, index_of t pc = Ok (Insert k)) <-> forall f, In f t -> contains f pc = false).
Proof. exact DirsProofs.index_of_none_iff. Qed.
Print Assumptions C15_index_of_none_iff.

(* before the first record, after the last, strictly inside a gap: Err with the insertion index *)
Theorem C15_index_of_before_first : forall t pc f0, check_sorted t = true ->
  nth_error t 0 = Some f0 -> pc < rf_begin f0 -> index_of t pc = Ok (Insert 0).
Proof. exact DirsProofs.index_of_before_first. Qed.
Print Assumptions C15_index_of_before_first.

Theorem C15_index_of_after_last : forall t pc fl, check_sorted t = true ->
  nth_error t (length t - 1) = Some fl -> rf_begin fl <= pc -> rf_end fl <= pc -> index_of t pc = Ok (Insert (lenN t)).
Proof. exact DirsProofs.index_of_after_last. Qed.
Print Assumptions C15_index_of_after_last.

Theorem C15_index_of_in_gap : forall t pc i f g, check_sorted t = true ->
  nth_error t i = Some f -> nth_error t (S i) = Some g -> rf_end f <= pc -> pc < rf_begin g ->
  index_of t pc = Ok (Insert (N.of_nat (S i))).
Proof. exact DirsProofs.index_of_in_gap. Qed.
Print Assumptions C15_index_of_in_gap.

(* "any correct binary search": a sorted table satisfies the precondition of slice::binary_search_by for the
   repaired closure, and EVERY result allowed by its contract is a correct lookup (on any table) *)
Theorem C15_closure_orders_sorted_tables : forall t pc, check_sorted t = true -> cmp_sorted (cmp_rf pc) t.
Proof. exact DirsProofs.cmp_rf_sorted. Qed.
Print Assumptions C15_closure_orders_sorted_tables.

Theorem C15_contract_gives_lookup : forall t pc r, bsearch_contract (cmp_rf pc) t r -> index_rel t pc r = true.
Proof. exact DirsProofs.contract_gives_lookup. Qed.
Print Assumptions C15_contract_gives_lookup.

(* the model's plain binary search meets that contract, within its fuel *)
Theorem C15_index_of_sorted : forall t pc, check_sorted t = true ->
  exists r, index_of t pc = Ok r /\ bsearch_contract (cmp_rf pc) t r /\ index_rel t pc r = true.
Proof. exact DirsProofs.index_of_sorted. Qed.
Print Assumptions C15_index_of_sorted.

(* on ANY table (sorted or not) the search terminates, stays inside the slice, and answers Found only for a
   record that contains pc *)
Theorem C15_index_of_total : forall t pc,
  exists r, index_of t pc = Ok r /\
    match r with
    | Found i => i < lenN t /\ exists f, nth_error t (N.to_nat i) = Some f /\ contains f pc = true
    | Insert k => k <= lenN t
    end.
Proof. exact DirsProofs.index_of_total. Qed.
Print Assumptions C15_index_of_total.

Theorem C15_lookup_function_entry : forall t pc, check_sorted t = true ->
  (forall i f, lookup_function_entry t pc = Ok (Some (i, f)) <->
     nth_error t (N.to_nat i) = Some f /\ rf_begin f <= pc /\ pc < rf_end f) /\
  (lookup_function_entry t pc = Ok None <-> forall f, In f t -> contains f pc = false).
Proof. exact DirsProofs.lookup_sorted. Qed.
Print Assumptions C15_lookup_function_entry.

(* bytes = [Begin, End) through the slicing rule; Overflow if reversed *)
Theorem C15_function_bytes : forall v f, view_ok v -> rf_begin f < W32 -> rf_end f < W32 ->
  function_bytes v f = function_bytes_spec v f.
Proof. exact DirsProofs.function_bytes_correct. Qed.
Print Assumptions C15_function_bytes.

(* unwind_info has 4 + 2*CountOfCodes bytes, all inside the slice at UnwindData; the codes follow the header *)
Theorem C15_unwind_info : forall v f, view_ok v -> bytes_lt (v_get v) -> rf_unwind f < W32 ->
  unwind_info v f = unwind_info_spec v f.
Proof. exact DirsProofs.unwind_info_correct. Qed.
Print Assumptions C15_unwind_info.

Theorem C15_unwind_info_shape : forall v f u, unwind_info v f = Ok u ->
  exists b, slice v (rf_unwind f) 4 1 = Ok b /\ r_off u = r_off b /\
    r_len u = 4 + 2 * v_get v (r_off b + 2) /\ r_len u <= r_len b /\
    uw_count (v_get v) u = v_get v (r_off b + 2) /\
    uw_codes (v_get v) u = {| r_off := r_off b + 4; r_len := 2 * v_get v (r_off b + 2) |}.
Proof. exact DirsProofs.unwind_info_shape. Qed.
Print Assumptions C15_unwind_info_shape.

(* F17: the closure as it stood finds nothing inside a function of a sorted table and counts pc = End as inside *)
Theorem C15_F17_index_of_orig_refuted :
  let t := [ {| rf_begin := 4096; rf_end := 4112; rf_unwind := 0 |};
             {| rf_begin := 4112; rf_end := 4128; rf_unwind := 0 |};
             {| rf_begin := 4144; rf_end := 4160; rf_unwind := 0 |} ] in
  check_sorted t = true /\
  index_of_orig t 4100 = Ok (Insert 3) /\ index_of t 4100 = Ok (Found 0) /\
  index_of_orig t 4150 = Ok (Insert 0) /\ index_of t 4150 = Ok (Found 2) /\
  index_of_orig t 4128 = Ok (Found 1) /\ index_of t 4128 = Ok (Insert 2).
Proof. exact DirsProofs.index_of_orig_refuted. Qed.
Print Assumptions C15_F17_index_of_orig_refuted.

(* ================================================================ security directory *)

Theorem C15_security : forall v dd, dd_ok dd -> v_addr v mod 4 = 0 ->
  security_try_from v dd = security_spec v dd.
Proof. exact DirsProofs.security_correct. Qed.
Print Assumptions C15_security.

(* mapped view -> Unmapped; null -> Null; misaligned -> Misaligned; else Size-8 bytes at file offset VirtualAddress+8 *)
Theorem C15_security_shape : forall v va size, va < W32 -> size < W32 -> v_addr v mod 4 = 0 ->
  (v_file v = false -> security_try_from v (Some (va, size)) = Err EUnmapped) /\
  (v_file v = true -> va = 0 -> security_try_from v (Some (va, size)) = Err ENull) /\
  (v_file v = true -> va <> 0 -> (va mod 8 <> 0 \/ size mod 8 <> 0) -> security_try_from v (Some (va, size)) = Err EMisaligned) /\
  (forall r, security_try_from v (Some (va, size)) = Ok r ->
     v_file v = true /\ r = {| r_off := va; r_len := size |} /\ va + size <= v_len v /\ 8 <= size /\
     certificate_data r = Ok {| r_off := va + 8; r_len := size - 8 |} /\
     certificate_data_spec (Some (va, size)) = Some {| r_off := va + 8; r_len := size - 8 |}).
Proof. exact DirsProofs.security_shape. Qed.
Print Assumptions C15_security_shape.

(* F8: the code as it stood panics on VirtualAddress + Size >= 2^32 *)
Theorem C15_F8_security_orig_refuted :
  let v := {| v_file := true; v_addr := 4096; v_len := 7168; v_get := fun _ => 0; v_w := W64;
              v_base := 5368709120; v_soh := 1024; v_soi := 16384; v_secs := [] |} in
  security_try_from_orig v (Some (4294967288, 8)) = Fault POverflow /\
  security_try_from v (Some (4294967288, 8)) = Err EBounds.
Proof. exact DirsProofs.security_orig_refuted. Qed.
Print Assumptions C15_F8_security_orig_refuted.

(* ================================================================ debug directory *)

Theorem C15_debug_try_from : forall v dd, view_ok v -> dd_ok dd -> debug_try_from v dd = debug_spec v dd.
Proof. exact DirsProofs.debug_try_from_correct. Qed.
Print Assumptions C15_debug_try_from.

Theorem C15_debug_shape : forall v va size,
  (size mod 28 <> 0 -> debug_try_from v (Some (va, size)) = Err EInvalid) /\
  (size mod 28 = 0 -> size < W32 -> va = 0 -> debug_try_from v (Some (va, size)) = Err ENull) /\
  debug_try_from v None = Err EBounds /\
  forall r, debug_try_from v (Some (va, size)) = Ok r ->
    size mod 28 = 0 /\ r_len r = size /\ length (debug_dirs v r) = N.to_nat (size / 28) /\
    forall i, i < size / 28 -> nth_error (debug_dirs v r) (N.to_nat i) = Some (ddir_at (v_get v) (r_off r + 28 * i)).
Proof. exact DirsProofs.debug_shape. Qed.
Print Assumptions C15_debug_shape.

(* data = SizeOfData bytes at PointerToRawData (file view) / AddressOfRawData (mapped view) *)
Theorem C15_dir_data : forall v d, ddir_ok d -> dir_data v d = dir_data_spec v d.
Proof. exact DirsProofs.dir_data_correct. Qed.
Print Assumptions C15_dir_data.

(* entries by type: CodeView NB10 / RSDS (path = bytes to the first NUL after the fixed part), MISC, POGO, else raw *)
Theorem C15_dir_entry : forall v d, bytes_lt (v_get v) -> ddir_ok d -> dir_entry v d = entry_spec v d.
Proof. exact DirsProofs.dir_entry_correct. Qed.
Print Assumptions C15_dir_entry.

Theorem C15_cstr_from_bytes : forall g off len,
  match cstr_from_bytes g off len with
  | Some r => r_off r = off /\ 0 < r_len r /\ r_len r <= len /\ g (off + r_len r - 1) = 0 /\
              forall k, k < r_len r - 1 -> g (off + k) <> 0
  | None => forall k, k < len -> g (off + k) <> 0
  end.
Proof. exact DirsProofs.cstr_from_bytes_spec. Qed.
Print Assumptions C15_cstr_from_bytes.

(* CodeView against an independent writer: signature, GUID / timestamp, age, path *)
Theorem C15_cv70_roundtrip : forall v d b guid age path, bytes_lt (v_get v) -> ddir_ok d -> dd_type d = 2 ->
  dir_data_spec v d = Some b -> (v_addr v + r_off b) mod 4 = 0 ->
  lenN guid = 16 -> age < W32 -> path_ok path -> r_len b = lenN (cv70_write guid age path) ->
  written (v_get v) (r_off b) (cv70_write guid age path) ->
  dir_entry v d = Ok (ECv70 (r_off b) {| r_off := r_off b + 24; r_len := lenN path + 1 |}) /\
  u32at (v_get v) (r_off b + 20) = age /\ written (v_get v) (r_off b + 4) guid.
Proof. exact DirsProofs.cv70_roundtrip. Qed.
Print Assumptions C15_cv70_roundtrip.

Theorem C15_cv20_roundtrip : forall v d b offset stamp age path, bytes_lt (v_get v) -> ddir_ok d -> dd_type d = 2 ->
  dir_data_spec v d = Some b -> (v_addr v + r_off b) mod 4 = 0 ->
  offset < W32 -> stamp < W32 -> age < W32 -> path_ok path -> r_len b = lenN (cv20_write offset stamp age path) ->
  written (v_get v) (r_off b) (cv20_write offset stamp age path) ->
  dir_entry v d = Ok (ECv20 (r_off b) {| r_off := r_off b + 16; r_len := lenN path + 1 |}) /\
  u32at (v_get v) (r_off b + 8) = stamp /\ u32at (v_get v) (r_off b + 12) = age.
Proof. exact DirsProofs.cv20_roundtrip. Qed.
Print Assumptions C15_cv20_roundtrip.

(* pdb_file_name: the path of the first entry that decodes as CodeView *)
Theorem C15_pdb_file_name : forall v ds,
  match pdb_file_name v ds with
  | Some n => exists pre d post img, ds = pre ++ d :: post /\
                (dir_entry v d = Ok (ECv20 img n) \/ dir_entry v d = Ok (ECv70 img n)) /\
                forall d', In d' pre -> ~ is_cv v d'
  | None => forall d, In d ds -> ~ is_cv v d
  end.
Proof. exact DirsProofs.pdb_file_name_spec. Qed.
Print Assumptions C15_pdb_file_name.

(* POGO: the iterator terminates without a panic on every dword slice; its records are exactly the list the
   checker accepts: (rva, size, NUL-terminated name), next record 2 + len(name)/4 + 1 dwords further *)
Theorem C15_pgo_iter : forall g image items, pgo_iter_check g image items = true <-> pgo_iter g image = Ok items.
Proof. exact DirsProofs.pgo_iter_check_exact. Qed.
Print Assumptions C15_pgo_iter.

Theorem C15_pgo_iter_total : forall g image, exists items, pgo_iter g image = Ok items /\ pgo_iter_check g image items = true.
Proof. exact DirsProofs.pgo_iter_correct. Qed.
Print Assumptions C15_pgo_iter_total.

(* POGO against an independent writer: any record list, names of any length *)
Theorem C15_pgo_roundtrip : forall g rs fuel off, Forall pgo_rec_ok rs ->
  written g off (pgo_write rs) -> lenN (pgo_write rs) / 4 < N.of_nat fuel ->
  pgo_items fuel g off (lenN (pgo_write rs) / 4) = Ok (pgo_expect rs off).
Proof. exact DirsProofs.pgo_roundtrip. Qed.
Print Assumptions C15_pgo_roundtrip.

(* ================================================================ TLS and load config *)

Theorem C15_tls_try_from : forall v dd, view_ok v -> dd_ok dd ->
  tls_try_from v dd = struct_spec (tls_dir_size v) (va_size v) v dd.
Proof. exact DirsProofs.tls_try_from_correct. Qed.
Print Assumptions C15_tls_try_from.

Theorem C15_load_config_try_from : forall v dd, view_ok v -> dd_ok dd ->
  load_config_try_from v dd = struct_spec (lc_dir_size v) (va_size v) v dd.
Proof. exact DirsProofs.load_config_try_from_correct. Qed.
Print Assumptions C15_load_config_try_from.

(* absent directory: VirtualAddress 0 -> Null *)
Theorem C15_absent_is_null : forall v size,
  tls_try_from v (Some (0, size)) = Err ENull /\ load_config_try_from v (Some (0, size)) = Err ENull /\
  tls_try_from v None = Err EBounds /\ load_config_try_from v None = Err EBounds.
Proof. exact DirsProofs.absent_is_null. Qed.
Print Assumptions C15_absent_is_null.

(* raw_data = End - Start bytes at Start through the VA path; Invalid if reversed *)
Theorem C15_tls_raw_data : forall v t, view_ok v -> bytes_lt (v_get v) ->
  (tls_end v t < tls_start v t -> tls_raw_data v t = Err EInvalid) /\
  (tls_start v t <= tls_end v t -> v_base v < tls_start v t -> tls_start v t - v_base v <= v_soi v ->
   tls_raw_data v t = lift_region (tls_end v t - tls_start v t)
                        (slice_spec v (tls_start v t - v_base v) (tls_end v t - tls_start v t) 1)).
Proof. exact DirsProofs.tls_raw_data_correct. Qed.
Print Assumptions C15_tls_raw_data.

Theorem C15_tls_slot : forall v t, view_ok v -> v_base v < tls_index v t -> tls_index v t - v_base v <= v_soi v ->
  tls_slot v t = lift_region 4 (slice_spec v (tls_index v t - v_base v) 4 4).
Proof. exact DirsProofs.tls_slot_correct. Qed.
Print Assumptions C15_tls_slot.

(* callbacks up to the first zero *)
Theorem C15_tls_callbacks : forall v t,
  match read v (tls_cb v t) 0 (va_size v) with
  | Ok r =>
    match tls_callbacks v t with
    | Ok q => exists n, q = {| r_off := r_off r; r_len := n * va_size v |} /\
                is_first (v_get v) (fun x => x =? 0) (r_off r) (r_len r) (va_size v) n
    | Err e => e = EBounds /\ none_in (v_get v) (fun x => x =? 0) (r_off r) (r_len r) (va_size v)
    | Fault _ => False
    end
  | Err e => tls_callbacks v t = Err e
  | Fault f => tls_callbacks v t = Fault f
  end.
Proof. exact DirsProofs.tls_callbacks_correct. Qed.
Print Assumptions C15_tls_callbacks.

Theorem C15_lc_security_cookie : forall v t, view_ok v -> v_base v < lc_cookie_ptr v t -> lc_cookie_ptr v t - v_base v <= v_soi v ->
  lc_security_cookie v t = lift_region 4 (slice_spec v (lc_cookie_ptr v t - v_base v) 4 4).
Proof. exact DirsProofs.lc_security_cookie_correct. Qed.
Print Assumptions C15_lc_security_cookie.

(* the handler table: SEHandlerCount Va-sized entries at SEHandlerTable *)
Theorem C15_lc_se_handler_table : forall v t, view_ok v -> v_base v < lc_table_ptr v t -> lc_table_ptr v t - v_base v <= v_soi v ->
  lc_se_handler_table v t =
  if va_size v * lc_count v t <? W64
  then lift_region (va_size v * lc_count v t) (slice_spec v (lc_table_ptr v t - v_base v) (va_size v * lc_count v t) (va_size v))
  else Err EOverflow.
Proof. exact DirsProofs.lc_se_handler_table_correct. Qed.
Print Assumptions C15_lc_se_handler_table.

(* ================================================================ SHAPE: which bytes are decoded how
   (audit: C15_security, C15_dir_entry, C15_function_bytes, C15_unwind_info compare the decoder over slice with the same
   reading over slice_spec and say where the bytes lie, not how they are decoded.)  Spec/DirShape.v states the decoded
   values over the bytes of the view at the literal offsets of the PE/COFF specification:
     word_at g o = g o + 256 g(o+1),  dword_at g o = the same over four bytes,  bytes_at g o n = the n bytes from o.
   The accessors that read fields through the returned references (Model/DirsFields.v: sec_length, sec_revision,
   certificate_bytes, entry_fields = CodeView::format / age / image fields, Dbg::image() fields) are extracted and printed by
   the driver; they used to be decoded inside ocaml/dirs_driver.ml. *)
From PV.Model Require Import DirsFields.
From PV.Spec Require Import DirShape.
From PV.Proofs Require DirsShape.

(* security: a successful try_from returns exactly the Size bytes at FILE OFFSET VirtualAddress; dwLength is the dword at 0,
   wRevision the word at 4, wCertificateType the word at 6, and the certificate is the Size-8 bytes from offset 8 *)
Theorem C15_security_fields : forall v va size r, security_try_from v (Some (va, size)) = Ok r ->
  v_file v = true /\ r = {| r_off := va; r_len := size |} /\ 8 <= size /\ va + size <= v_len v /\
  sec_length (v_get v) r = dword_at (v_get v) va /\
  sec_revision (v_get v) r = word_at (v_get v) (va + 4) /\
  certificate_type (v_get v) r = word_at (v_get v) (va + 6) /\
  certificate_bytes (v_get v) r = Ok (bytes_at (v_get v) (va + 8) (N.to_nat (size - 8))).
Proof. exact DirsShape.security_fields. Qed.
Print Assumptions C15_security_fields.

(* debug entry fields: NB10 = the four signature bytes, Offset at 4, TimeDateStamp at 8, Age at 12;
   RSDS = the four signature bytes, the 16 GUID bytes at 4, Age at 20; MISC = DataType at 0, Length at 4, Unicode = byte 8 *)
Theorem C15_entry_fields : forall g e,
  entry_fields g e =
    match e with
    | ECv20 i _ => FCv20 [g i; g (i + 1); g (i + 2); g (i + 3)] (dword_at g (i + 4)) (dword_at g (i + 8)) (dword_at g (i + 12))
    | ECv70 i _ => FCv70 [g i; g (i + 1); g (i + 2); g (i + 3)] (bytes_at g (i + 4) 16) (dword_at g (i + 20))
    | EDbg i => FMisc (dword_at g i) (dword_at g (i + 4)) (g (i + 8))
    | _ => FOther
    end.
Proof. exact DirsShape.entry_fields_is_shape. Qed.
Print Assumptions C15_entry_fields.

(* what a successfully decoded debug entry IS ([entry_shape] of Spec/DirShape.v, o = PointerToRawData for a file view and
   AddressOfRawData for a mapped view): the SizeOfData bytes at o lie inside the buffer;
   Type 2 with bytes 'N' 'B' '1' '0' at o -> Cv20 at o, at least 16 bytes, 4-aligned, fields as above, path = the bytes from o+16 up to
     and including the FIRST NUL, inside SizeOfData-16 bytes;  Type 2 with 'R' 'S' 'D' 'S' -> Cv70, at least 24 bytes, path from o+24;
   Type 4 -> MISC at o, at least 12 bytes, 4-aligned;  Type 13 -> the 4*(SizeOfData/4) bytes at o as dwords, 4-aligned;
   any other Type -> the raw payload (None when it leaves the buffer) *)
Theorem C15_dir_entry_shape : forall v d e, bytes_lt (v_get v) -> ddir_ok d -> dir_entry v d = Ok e -> entry_shape v d e.
Proof. exact DirsShape.dir_entry_shape. Qed.
Print Assumptions C15_dir_entry_shape.

(* and which bytes give which error *)
Theorem C15_dir_entry_errors : forall v d, bytes_lt (v_get v) -> ddir_ok d ->
  let g := v_get v in let o := payload_off v d in
  let typed := dd_type d = 2 \/ dd_type d = 4 \/ dd_type d = 13 in
  let min := if dd_type d =? 2 then 16 else if dd_type d =? 4 then 12 else 4 in
  (typed -> v_len v < o + dd_size d -> dir_entry v d = Err EBounds) /\
  (typed -> o + dd_size d <= v_len v -> dd_size d < min -> dir_entry v d = Err EBounds) /\
  (typed -> o + dd_size d <= v_len v -> min <= dd_size d -> (v_addr v + o) mod 4 <> 0 -> dir_entry v d = Err EMisaligned) /\
  (dd_type d = 2 -> o + dd_size d <= v_len v -> 16 <= dd_size d -> (v_addr v + o) mod 4 = 0 ->
     (bytes_at g o 4 <> [78; 66; 49; 48] -> bytes_at g o 4 <> [82; 83; 68; 83] -> dir_entry v d = Err EBadMagic) /\
     (bytes_at g o 4 = [78; 66; 49; 48] -> (forall k, k < dd_size d - 16 -> g (o + 16 + k) <> 0) -> dir_entry v d = Err EEncoding) /\
     (bytes_at g o 4 = [82; 83; 68; 83] -> dd_size d < 24 -> dir_entry v d = Err EBounds) /\
     (bytes_at g o 4 = [82; 83; 68; 83] -> 24 <= dd_size d -> (forall k, k < dd_size d - 24 -> g (o + 24 + k) <> 0) -> dir_entry v d = Err EEncoding)).
Proof. exact DirsShape.dir_entry_errors. Qed.
Print Assumptions C15_dir_entry_errors.

(* UNWIND_INFO fields: Version = byte 0 mod 8, Flags = byte 0 / 8, SizeOfProlog = byte 1, CountOfCodes = byte 2,
   FrameRegister = byte 3 mod 16, FrameOffset = byte 3 / 16, codes = the 2*CountOfCodes bytes from offset 4 *)
Theorem C15_unwind_fields : forall g r,
  {| us_version := uw_version g r; us_flags := uw_flags g r; us_prolog := uw_size_of_prolog g r; us_count := uw_count g r;
     us_reg := uw_frame_register g r; us_offset := uw_frame_offset g r; us_codes := uw_codes g r |}
  = {| us_version := g (r_off r) mod 8; us_flags := g (r_off r) / 8; us_prolog := g (r_off r + 1); us_count := g (r_off r + 2);
       us_reg := g (r_off r + 3) mod 16; us_offset := g (r_off r + 3) / 16;
       us_codes := {| r_off := r_off r + 4; r_len := 2 * g (r_off r + 2) |} |}.
Proof. exact DirsShape.unwind_fields. Qed.
Print Assumptions C15_unwind_fields.

(* unwind_info over the bytes: the header is what slicing yields at UnwindData (4 bytes, alignment 1); the result is its first
   4 + 2*CountOfCodes bytes, Bounds when they do not fit in that slice; slicing errors propagate *)
Theorem C15_unwind_info_closed : forall v f, bytes_lt (v_get v) ->
  unwind_info v f =
    match slice v (rf_unwind f) 4 1 with
    | Ok b => if r_len b <? 4 + 2 * v_get v (r_off b + 2) then Err EBounds
              else Ok {| r_off := r_off b; r_len := 4 + 2 * v_get v (r_off b + 2) |}
    | Err e => Err e
    | Fault x => Fault x
    end.
Proof. exact DirsShape.unwind_info_closed. Qed.
Print Assumptions C15_unwind_info_closed.

(* function bytes: Overflow when End < Begin, else the End-Begin bytes that slicing yields at Begin (alignment 1) *)
Theorem C15_function_bytes_closed : forall v f, rf_end f < W64 ->
  function_bytes v f =
    if rf_end f <? rf_begin f then Err EOverflow
    else match slice v (rf_begin f) (rf_end f - rf_begin f) 1 with
         | Ok b => Ok {| r_off := r_off b; r_len := rf_end f - rf_begin f |}
         | Err e => Err e
         | Fault x => Fault x
         end.
Proof. exact DirsShape.function_bytes_closed. Qed.
Print Assumptions C15_function_bytes_closed.

Example C15_shape_nonvacuous :
  dir_entry DirsShape.ex_cv_view DirsShape.ex_cv_dir = Ok (ECv70 32 {| r_off := 56; r_len := 6 |}) /\
  entry_fields (v_get DirsShape.ex_cv_view) (ECv70 32 {| r_off := 56; r_len := 6 |})
  = FCv70 [82; 83; 68; 83] [1;2;3;4;5;6;7;8;9;10;11;12;13;14;15;16] 7 /\
  entry_fields_shape (v_get DirsShape.ex_cv_view) (ECv70 32 {| r_off := 56; r_len := 6 |})
  = FCv70 [82; 83; 68; 83] [1;2;3;4;5;6;7;8;9;10;11;12;13;14;15;16] 7 /\
  security_try_from DirsShape.ex_cv_view (Some (32, 32)) = Ok {| r_off := 32; r_len := 32 |} /\
  sec_length (v_get DirsShape.ex_cv_view) {| r_off := 32; r_len := 32 |} = 1396986706 /\
  certificate_type (v_get DirsShape.ex_cv_view) {| r_off := 32; r_len := 32 |} = 1027.
Proof. vm_compute. repeat split; reflexivity. Qed.

(* ================================================================ no modelled function faults
   (no panic, no out-of-bounds or misaligned unchecked access, no fuel exhaustion) *)
Theorem C15_no_fault : forall v dd t pc f d r image,
  bytes_lt (v_get v) -> v_addr v mod 4 = 0 ->
  no_fault (exception_try_from v dd) /\ no_fault (index_of t pc) /\ no_fault (lookup_function_entry t pc) /\
  no_fault (function_bytes v f) /\ no_fault (unwind_info v f) /\
  no_fault (security_try_from v dd) /\ (forall s, security_try_from v dd = Ok s -> no_fault (certificate_data s)) /\
  no_fault (debug_try_from v dd) /\ no_fault (dir_entry v d) /\ no_fault (pgo_iter (v_get v) image) /\
  no_fault (tls_try_from v dd) /\ no_fault (tls_raw_data v r) /\ no_fault (tls_slot v r) /\ no_fault (tls_callbacks v r) /\
  no_fault (load_config_try_from v dd) /\ no_fault (lc_security_cookie v r) /\ no_fault (lc_se_handler_table v r).
Proof. exact DirsProofs.all_no_fault. Qed.
Print Assumptions C15_no_fault.

(* ================================================================ the constants of the model are those of src/image.rs
   (coq/gen/Layout.v is regenerated from the source on every run) *)
Theorem C15_layout_agrees :
  (* RUNTIME_FUNCTION, UNWIND_INFO, UNWIND_CODE *)
  RUNTIME_FUNCTION_size = 12 /\ RUNTIME_FUNCTION_align = 4 /\ RUNTIME_FUNCTION_BeginAddress_off = 0 /\
  RUNTIME_FUNCTION_EndAddress_off = 4 /\ RUNTIME_FUNCTION_UnwindData_off = 8 /\
  UNWIND_INFO_size = 4 /\ UNWIND_INFO_align = 1 /\ UNWIND_INFO_VersionFlags_off = 0 /\ UNWIND_INFO_SizeOfProlog_off = 1 /\
  UNWIND_INFO_CountOfCodes_off = 2 /\ UNWIND_INFO_FrameRegisterOffset_off = 3 /\ UNWIND_INFO_UnwindCode_off = 4 /\
  UNWIND_CODE_size = 2 /\
  (* WIN_CERTIFICATE *)
  WIN_CERTIFICATE_size = 8 /\ WIN_CERTIFICATE_align = 4 /\ WIN_CERTIFICATE_wCertificateType_off = 6 /\ WIN_CERTIFICATE_bCertificate_off = 8 /\
  (* IMAGE_DEBUG_DIRECTORY and the typed payloads *)
  IMAGE_DEBUG_DIRECTORY_size = 28 /\ IMAGE_DEBUG_DIRECTORY_align = 4 /\ IMAGE_DEBUG_DIRECTORY_TimeDateStamp_off = 4 /\
  IMAGE_DEBUG_DIRECTORY_Type_off = 12 /\ IMAGE_DEBUG_DIRECTORY_SizeOfData_off = 16 /\
  IMAGE_DEBUG_DIRECTORY_AddressOfRawData_off = 20 /\ IMAGE_DEBUG_DIRECTORY_PointerToRawData_off = 24 /\
  IMAGE_DEBUG_CV_INFO_PDB20_size = 16 /\ IMAGE_DEBUG_CV_INFO_PDB20_align = 4 /\ IMAGE_DEBUG_CV_INFO_PDB20_TimeDateStamp_off = 8 /\
  IMAGE_DEBUG_CV_INFO_PDB20_Age_off = 12 /\ IMAGE_DEBUG_CV_INFO_PDB20_PdbFileName_off = 16 /\
  IMAGE_DEBUG_CV_INFO_PDB70_size = 24 /\ IMAGE_DEBUG_CV_INFO_PDB70_align = 4 /\ IMAGE_DEBUG_CV_INFO_PDB70_Signature_off = 4 /\
  IMAGE_DEBUG_CV_INFO_PDB70_Age_off = 20 /\ IMAGE_DEBUG_CV_INFO_PDB70_PdbFileName_off = 24 /\ GUID_size = 16 /\
  IMAGE_DEBUG_MISC_size = 12 /\ IMAGE_DEBUG_MISC_align = 4 /\
  (* TLS and load config, both widths *)
  (forall v, v_w v = W32 -> tls_dir_size v = IMAGE_TLS_DIRECTORY32_size /\ va_size v = IMAGE_TLS_DIRECTORY32_align /\
     va_size v = IMAGE_TLS_DIRECTORY32_EndAddressOfRawData_off /\ 2 * va_size v = IMAGE_TLS_DIRECTORY32_AddressOfIndex_off /\
     3 * va_size v = IMAGE_TLS_DIRECTORY32_AddressOfCallBacks_off /\
     lc_dir_size v = IMAGE_LOAD_CONFIG_DIRECTORY32_size /\ va_size v = IMAGE_LOAD_CONFIG_DIRECTORY32_align /\
     lc_cookie_off v = IMAGE_LOAD_CONFIG_DIRECTORY32_SecurityCookie_off /\
     lc_table_off v = IMAGE_LOAD_CONFIG_DIRECTORY32_SEHandlerTable_off /\ lc_count_off v = IMAGE_LOAD_CONFIG_DIRECTORY32_SEHandlerCount_off) /\
  (forall v, v_w v = W64 -> tls_dir_size v = IMAGE_TLS_DIRECTORY64_size /\ va_size v = IMAGE_TLS_DIRECTORY64_align /\
     va_size v = IMAGE_TLS_DIRECTORY64_EndAddressOfRawData_off /\ 2 * va_size v = IMAGE_TLS_DIRECTORY64_AddressOfIndex_off /\
     3 * va_size v = IMAGE_TLS_DIRECTORY64_AddressOfCallBacks_off /\
     lc_dir_size v = IMAGE_LOAD_CONFIG_DIRECTORY64_size /\ va_size v = IMAGE_LOAD_CONFIG_DIRECTORY64_align /\
     lc_cookie_off v = IMAGE_LOAD_CONFIG_DIRECTORY64_SecurityCookie_off /\
     lc_table_off v = IMAGE_LOAD_CONFIG_DIRECTORY64_SEHandlerTable_off /\ lc_count_off v = IMAGE_LOAD_CONFIG_DIRECTORY64_SEHandlerCount_off) /\
  (* data directory indices and debug types *)
  IMAGE_DIRECTORY_ENTRY_EXCEPTION = 3 /\ IMAGE_DIRECTORY_ENTRY_SECURITY = 4 /\ IMAGE_DIRECTORY_ENTRY_DEBUG = 6 /\
  IMAGE_DIRECTORY_ENTRY_TLS = 9 /\ IMAGE_DIRECTORY_ENTRY_LOAD_CONFIG = 10.
Proof. exact DirsLayout.dirs_layout_agrees. Qed.
Print Assumptions C15_layout_agrees.


(* the debug entry types and data directory indices the model dispatches on are the constants of src/image.rs *)
From PV.gen Require Consts.
From PV.Proofs Require ConstsDirs.
Theorem C15_constants_match_source :
  Consts.K_IMAGE_DEBUG_TYPE_CODEVIEW = 2 /\ Consts.K_IMAGE_DEBUG_TYPE_MISC = 4 /\ Consts.K_IMAGE_DEBUG_TYPE_POGO = 13 /\
  Consts.K_IMAGE_DIRECTORY_ENTRY_EXCEPTION = 3 /\ Consts.K_IMAGE_DIRECTORY_ENTRY_SECURITY = 4 /\ Consts.K_IMAGE_DIRECTORY_ENTRY_DEBUG = 6 /\
  Consts.K_IMAGE_DIRECTORY_ENTRY_TLS = 9 /\ Consts.K_IMAGE_DIRECTORY_ENTRY_LOAD_CONFIG = 10.
Proof. exact ConstsDirs.dirs_consts. Qed.
Print Assumptions C15_constants_match_source.

Example C15_nonvacuous :
  let t := [ {| rf_begin := 4096; rf_end := 4112; rf_unwind := 8192 |};
             {| rf_begin := 4112; rf_end := 4128; rf_unwind := 8196 |};
             {| rf_begin := 4144; rf_end := 4160; rf_unwind := 8200 |} ] in
  let bytes := [0;16;0;0; 16;16;0;0; 0;32;0;0;   16;16;0;0; 32;16;0;0; 4;32;0;0;   48;16;0;0; 64;16;0;0; 8;32;0;0] in
  let v := {| v_file := false; v_addr := 4096; v_len := 12288;
              v_get := fun i => if (8448 <=? i) && (i <? 8484) then nth (N.to_nat (i - 8448)) bytes 0 else if i =? 8194 then 2 else 0;
              v_w := W64; v_base := 5368709120; v_soh := 1024; v_soi := 12288; v_secs := [] |} in
  let vf := {| v_file := true; v_addr := 4096; v_len := 2048; v_get := fun i => if i =? 1030 then 2 else 0;
               v_w := W32; v_base := 4194304; v_soh := 1024; v_soi := 12288; v_secs := [] |} in
  check_sorted t = true /\
  exception_try_from v (Some (8448, 36)) = Ok {| r_off := 8448; r_len := 36 |} /\
  exception_functions v {| r_off := 8448; r_len := 36 |} = t /\
  exception_try_from v (Some (8448, 35)) = Err EInvalid /\ exception_try_from v (Some (0, 0)) = Err ENull /\
  index_of t 4100 = Ok (Found 0) /\ index_of t 4112 = Ok (Found 1) /\ index_of t 4130 = Ok (Insert 2) /\
  index_of t 4000 = Ok (Insert 0) /\ index_of t 4160 = Ok (Insert 3) /\
  unwind_info v {| rf_begin := 4096; rf_end := 4112; rf_unwind := 8192 |} = Ok {| r_off := 8192; r_len := 8 |} /\
  security_try_from vf (Some (1024, 16)) = Ok {| r_off := 1024; r_len := 16 |} /\ certificate_type (v_get vf) {| r_off := 1024; r_len := 16 |} = 2 /\
  security_try_from v (Some (1024, 16)) = Err EUnmapped /\ security_try_from vf (Some (1028, 16)) = Err EMisaligned.
Proof. exact DirsProofs.nonvacuous_example. Qed.

(* ---- leaf functions regenerated from the source on every run (tools/gen_leaf.py -> gen/Leaf.v): agreement with the hand-written model ---- *)
(* src/pe64/exception.rs UnwindInfo::{version, flags, frame_register, frame_offset}, regenerated from the source on
   every run, are the accessors of Model/Dirs.v on the header byte at the field's Layout offset *)
From PV.Model Require Mapping Dirs.
From PV.gen Require Leaf Layout.
From PV.Proofs Require LeafDirs.
Theorem C15_leaf_unwind_version : forall g r,
  Leaf.L_exception_UnwindInfo_version_dom (Dirs.u8at g (Mapping.r_off r + Layout.UNWIND_INFO_VersionFlags_off)) = true ->
  Leaf.L_exception_UnwindInfo_version_ok (Dirs.u8at g (Mapping.r_off r + Layout.UNWIND_INFO_VersionFlags_off)) = true /\
  Leaf.L_exception_UnwindInfo_version (Dirs.u8at g (Mapping.r_off r + Layout.UNWIND_INFO_VersionFlags_off)) = Dirs.uw_version g r.
Proof. exact LeafDirs.uw_version_agrees. Qed.
Print Assumptions C15_leaf_unwind_version.
Theorem C15_leaf_unwind_flags : forall g r,
  Leaf.L_exception_UnwindInfo_flags_dom (Dirs.u8at g (Mapping.r_off r + Layout.UNWIND_INFO_VersionFlags_off)) = true ->
  Leaf.L_exception_UnwindInfo_flags_ok (Dirs.u8at g (Mapping.r_off r + Layout.UNWIND_INFO_VersionFlags_off)) = true /\
  Leaf.L_exception_UnwindInfo_flags (Dirs.u8at g (Mapping.r_off r + Layout.UNWIND_INFO_VersionFlags_off)) = Dirs.uw_flags g r.
Proof. exact LeafDirs.uw_flags_agrees. Qed.
Print Assumptions C15_leaf_unwind_flags.
Theorem C15_leaf_unwind_frame_register : forall g r,
  Leaf.L_exception_UnwindInfo_frame_register_dom (Dirs.u8at g (Mapping.r_off r + Layout.UNWIND_INFO_FrameRegisterOffset_off)) = true ->
  Leaf.L_exception_UnwindInfo_frame_register_ok (Dirs.u8at g (Mapping.r_off r + Layout.UNWIND_INFO_FrameRegisterOffset_off)) = true /\
  Leaf.L_exception_UnwindInfo_frame_register (Dirs.u8at g (Mapping.r_off r + Layout.UNWIND_INFO_FrameRegisterOffset_off)) = Dirs.uw_frame_register g r.
Proof. exact LeafDirs.uw_frame_register_agrees. Qed.
Print Assumptions C15_leaf_unwind_frame_register.
Theorem C15_leaf_unwind_frame_offset : forall g r,
  Leaf.L_exception_UnwindInfo_frame_offset_dom (Dirs.u8at g (Mapping.r_off r + Layout.UNWIND_INFO_FrameRegisterOffset_off)) = true ->
  Leaf.L_exception_UnwindInfo_frame_offset_ok (Dirs.u8at g (Mapping.r_off r + Layout.UNWIND_INFO_FrameRegisterOffset_off)) = true /\
  Leaf.L_exception_UnwindInfo_frame_offset (Dirs.u8at g (Mapping.r_off r + Layout.UNWIND_INFO_FrameRegisterOffset_off)) = Dirs.uw_frame_offset g r.
Proof. exact LeafDirs.uw_frame_offset_agrees. Qed.
Print Assumptions C15_leaf_unwind_frame_offset.

(* the source places the binders of the generated leaf definitions stand for (third audit, F2) *)
From Coq Require Import List String.
Import ListNotations.
Theorem C15_leaf_reads_dirs :
  Leaf.L_exception_UnwindInfo_version_args = ["self.image.VersionFlags : u8"%string] /\
  Leaf.L_exception_UnwindInfo_flags_args = ["self.image.VersionFlags : u8"%string] /\
  Leaf.L_exception_UnwindInfo_frame_register_args = ["self.image.FrameRegisterOffset : u8"%string] /\
  Leaf.L_exception_UnwindInfo_frame_offset_args = ["self.image.FrameRegisterOffset : u8"%string].
Proof. exact LeafDirs.leaf_reads_dirs. Qed.
Print Assumptions C15_leaf_reads_dirs.
