(* C07 — Headers: accepted only if structurally in-bounds, then reported verbatim.
   Statements only; every proof is [exact <lemma>]. *)
From PV.Model Require Import Machine Mapping Headers.
From PV.gen Require Import Layout.
From PV.Spec Require Import HeaderSpec.
From PV.Proofs Require HeadersProofs ChecksumProofs.
Import HeadersProofs.

(* A buffer is accepted exactly when the conjunction the property lists holds, and the
   constructor then reports SizeOfImage.  [accept] takes its offsets from the PE/COFF
   specification; the model takes them from the layout regenerated from src/image.rs. *)
Theorem C07_validate_accept_64 : forall m soi, validate fmt64 m = Ok soi <-> accept true m /\ soi = s_soi m.
Proof. exact HeadersProofs.validate_accept64. Qed.
Print Assumptions C07_validate_accept_64.

Theorem C07_validate_accept_32 : forall m soi, validate fmt32 m = Ok soi <-> accept false m /\ soi = s_soi m.
Proof. exact HeadersProofs.validate_accept32. Qed.
Print Assumptions C07_validate_accept_32.

(* a structurally valid image of the other bitness is rejected with the dedicated error *)
Theorem C07_wrong_format_32 : forall m, accept true m -> validate fmt32 m = Err EPeMagic.
Proof. exact HeadersProofs.wrong_format_32. Qed.
Print Assumptions C07_wrong_format_32.

Theorem C07_wrong_format_64 : forall m, accept false m -> e_lfanew m + f_nt_size fmt64 <= m_len m ->
  validate fmt64 m = Err EPeMagic.
Proof. exact HeadersProofs.wrong_format_64. Qed.
Print Assumptions C07_wrong_format_64.

(* the format-agnostic constructor always ends up with the parser matching the magic *)
Theorem C07_wrapper : forall m,
  (wrap_from_bytes m = Ok T64 <-> accept true m) /\ (wrap_from_bytes m = Ok T32 <-> accept false m).
Proof. exact HeadersProofs.wrap_correct. Qed.
Print Assumptions C07_wrapper.

Theorem C07_wrapper_magic : forall m,
  (wrap_from_bytes m = Ok T64 -> s_magic m = 523) /\ (wrap_from_bytes m = Ok T32 -> s_magic m = 267).
Proof. exact HeadersProofs.wrap_magic. Qed.
Print Assumptions C07_wrapper_magic.

(* the generated struct layout is the PE/COFF layout (re-checked against src/image.rs on every run) *)
Theorem C07_layout_matches_format :
  IMAGE_DOS_HEADER_size = DOS_SIZE /\ IMAGE_DOS_HEADER_e_lfanew_off = E_LFANEW_OFF /\ IMAGE_DOS_HEADER_e_magic_off = 0 /\
  IMAGE_NT_HEADERS32_FileHeader_off = FILE_HEADER_OFF /\ IMAGE_NT_HEADERS64_FileHeader_off = FILE_HEADER_OFF /\
  IMAGE_FILE_HEADER_size = FILE_HEADER_SIZE /\ IMAGE_FILE_HEADER_NumberOfSections_off = NSEC_OFF /\
  IMAGE_FILE_HEADER_SizeOfOptionalHeader_off = OPTSZ_OFF /\
  IMAGE_NT_HEADERS32_OptionalHeader_off = OPT_OFF /\ IMAGE_NT_HEADERS64_OptionalHeader_off = OPT_OFF /\
  IMAGE_OPTIONAL_HEADER32_size = OPT_FIXED_SIZE false /\ IMAGE_OPTIONAL_HEADER64_size = OPT_FIXED_SIZE true /\
  IMAGE_NT_HEADERS32_size = OPT_OFF + OPT_FIXED_SIZE false /\ IMAGE_NT_HEADERS64_size = OPT_OFF + OPT_FIXED_SIZE true /\
  IMAGE_OPTIONAL_HEADER32_Magic_off = 0 /\ IMAGE_OPTIONAL_HEADER64_Magic_off = 0 /\
  IMAGE_OPTIONAL_HEADER32_SizeOfImage_off = SOI_OFF /\ IMAGE_OPTIONAL_HEADER64_SizeOfImage_off = SOI_OFF /\
  IMAGE_OPTIONAL_HEADER32_SizeOfHeaders_off = SOH_OFF /\ IMAGE_OPTIONAL_HEADER64_SizeOfHeaders_off = SOH_OFF /\
  IMAGE_OPTIONAL_HEADER32_CheckSum_off = CSUM_OFF /\ IMAGE_OPTIONAL_HEADER64_CheckSum_off = CSUM_OFF /\
  IMAGE_OPTIONAL_HEADER32_NumberOfRvaAndSizes_off = NRVA_OFF false /\ IMAGE_OPTIONAL_HEADER64_NumberOfRvaAndSizes_off = NRVA_OFF true /\
  IMAGE_OPTIONAL_HEADER32_ImageBase_off = BASE_OFF false /\ IMAGE_OPTIONAL_HEADER64_ImageBase_off = BASE_OFF true /\
  IMAGE_OPTIONAL_HEADER32_DataDirectory_off = OPT_FIXED_SIZE false /\ IMAGE_OPTIONAL_HEADER64_DataDirectory_off = OPT_FIXED_SIZE true /\
  IMAGE_SECTION_HEADER_size = SEC_SIZE /\ IMAGE_DATA_DIRECTORY_size = DIR_SIZE /\ IMAGE_NUMBEROF_DIRECTORY_ENTRIES = MAX_DIRS /\
  IMAGE_NT_OPTIONAL_HDR32_MAGIC = MAGIC false /\ IMAGE_NT_OPTIONAL_HDR64_MAGIC = MAGIC true /\
  IMAGE_DOS_SIGNATURE = 23117 /\ IMAGE_NT_HEADERS_SIGNATURE = 17744 /\
  IMAGE_SECTION_HEADER_VirtualSize_off = 8 /\ IMAGE_SECTION_HEADER_VirtualAddress_off = 12 /\
  IMAGE_SECTION_HEADER_SizeOfRawData_off = 16 /\ IMAGE_SECTION_HEADER_PointerToRawData_off = 20 /\
  IMAGE_NT_HEADERS32_align <= 4 /\ IMAGE_NT_HEADERS64_align <= 4 /\ IMAGE_SECTION_HEADER_align <= 4 /\
  IMAGE_DATA_DIRECTORY_align <= 4 /\ IMAGE_DOS_HEADER_align <= 4 /\ IMAGE_FILE_HEADER_align <= 4.
Proof. exact HeadersProofs.layout_matches_format. Qed.
Print Assumptions C07_layout_matches_format.

(* after acceptance the accessors return exactly the regions the format prescribes ... *)
Theorem C07_accessor_positions : forall f m, f = fmt32 \/ f = fmt64 ->
  a_off (acc_nt_headers f m) = s_e_lfanew m /\ a_off (acc_file_header f m) = s_e_lfanew m + FILE_HEADER_OFF /\
  a_off (acc_optional_header f m) = s_e_lfanew m + OPT_OFF /\
  a_off (acc_data_directory f m) = s_e_lfanew m + OPT_OFF + OPT_FIXED_SIZE (f_64 f) /\
  a_len (acc_data_directory f m) = DIR_SIZE * N.min (s_nrva (f_64 f) m) MAX_DIRS /\
  a_off (acc_section_headers f m) = s_e_lfanew m + OPT_OFF + s_optsz m /\
  a_len (acc_section_headers f m) = SEC_SIZE * s_nsec m /\
  a_len (acc_headers_image f m) = s_soh m /\ a_len (acc_dos_image f m) = s_e_lfanew m.
Proof. exact HeadersProofs.accessor_positions. Qed.
Print Assumptions C07_accessor_positions.

(* ... which lie inside the buffer and are aligned for their types (also the header part of C01) *)
Theorem C07_accessors_in_bounds_64 : forall m soi, validate fmt64 m = Ok soi -> Forall (aregion_ok m) (accessors fmt64 m).
Proof. exact HeadersProofs.accessors_ok64. Qed.
Print Assumptions C07_accessors_in_bounds_64.
Theorem C07_accessors_in_bounds_32 : forall m soi, validate fmt32 m = Ok soi -> Forall (aregion_ok m) (accessors fmt32 m).
Proof. exact HeadersProofs.accessors_ok32. Qed.
Print Assumptions C07_accessors_in_bounds_32.

(* section lookup by RVA = the first section whose [VA, VA+VS) contains it *)
Theorem C07_by_rva : forall secs rva, Forall section_ok secs -> rva < W32 -> forall i,
  by_rva_secs secs i rva = find_index (in_vs rva) secs i.
Proof. exact HeadersProofs.by_rva_correct. Qed.
Print Assumptions C07_by_rva.

(* the computed checksum is the standard PE checksum of the buffer, for every buffer length *)
Theorem C07_check_sum : forall f m, mem_ok m -> (f = fmt32 \/ f = fmt64) ->
  e_lfanew m mod 4 = 0 -> e_lfanew m + f_nt_size f <= m_len m ->
  check_sum f m = pe_checksum (f_64 f) m.
Proof. exact ChecksumProofs.check_sum_correct. Qed.
Print Assumptions C07_check_sum.

(* defects repaired in /repo, as theorems about the code as it stood *)
Theorem C07_F22_wrapper_orig_refuted :
  validate fmt32 (bytes_mem 0 (tiny_pe32 96)) = Ok 4096 /\ wrap_from_bytes_orig (bytes_mem 0 (tiny_pe32 96)) = Err EBounds
  /\ wrap_from_bytes (bytes_mem 0 (tiny_pe32 96)) = Ok T32.
Proof. exact HeadersProofs.f22_wrapper_orig_refuted. Qed.
Print Assumptions C07_F22_wrapper_orig_refuted.
Theorem C07_F2_validate_orig_refuted :
  exists soi, validate_orig fmt32 (bytes_mem 0 (tiny_pe32 2)) = Ok soi /\
    (m_addr (bytes_mem 0 (tiny_pe32 2)) + a_off (acc_section_headers fmt32 (bytes_mem 0 (tiny_pe32 2)))) mod 4 <> 0.
Proof. exact HeadersProofs.f2_validate_orig_refuted. Qed.
Print Assumptions C07_F2_validate_orig_refuted.
Theorem C07_F21_check_sum_orig_refuted :
  check_sum_orig fmt32 (ChecksumProofs.f21_m 1) = check_sum_orig fmt32 (ChecksumProofs.f21_m 2) /\
  pe_checksum false (ChecksumProofs.f21_m 1) <> pe_checksum false (ChecksumProofs.f21_m 2).
Proof. exact ChecksumProofs.check_sum_orig_refuted. Qed.
Print Assumptions C07_F21_check_sum_orig_refuted.

(* ---- section lookup by name (second audit: the property says "section lookup by name/RVA agrees with the table") ---- *)
From PV.Proofs Require ByNameProofs.
(* by_name answers the FIRST header, in table order, whose eight name bytes equal the query padded with zeros to eight
   bytes; the name field is NUL padded, not NUL terminated - interior NULs are compared like any other byte *)
Theorem C07_by_name : forall f m name i,
  by_name f m name = Some i <->
  lenN name <= IMAGE_SIZEOF_SHORT_NAME /\
  exists k, (k < N.to_nat (h_nsec f m))%nat /\ i = N.of_nat k /\
    ByNameProofs.name_at m (sec_table_off f m) k = pad8 name 8 /\
    forall j, (j < k)%nat -> ByNameProofs.name_at m (sec_table_off f m) j <> pad8 name 8.
Proof. exact ByNameProofs.by_name_correct. Qed.
Print Assumptions C07_by_name.
(* nothing is answered exactly when the query is longer than eight bytes or no header carries the padded name *)
Theorem C07_by_name_none : forall f m name,
  by_name f m name = None <->
  (IMAGE_SIZEOF_SHORT_NAME < lenN name \/
   forall k, (k < N.to_nat (h_nsec f m))%nat -> ByNameProofs.name_at m (sec_table_off f m) k <> pad8 name 8).
Proof. exact ByNameProofs.by_name_none. Qed.
Print Assumptions C07_by_name_none.
(* the padded query: eight bytes, the bytes of the name followed by zeros *)
Theorem C07_by_name_padding : forall n name, length (pad8 name n) = n /\
  forall i, (i < n)%nat -> nth i (pad8 name n) 0 = nth i name 0.
Proof. exact ByNameProofs.pad8_spec. Qed.
Print Assumptions C07_by_name_padding.
