(* C05 — VA-based, RVA-based and typed reads are consistent views of the same bytes.
   Statements only; every proof is [exact <lemma>]. *)
From PV.Model Require Import Machine Mapping Views.
From PV.Spec Require Import MappingSpec ViewSpec.
From PV.Proofs Require ViewsProofs.
Import ViewsProofs.

Theorem C05_rva_to_va : forall v rva, rva_to_va v rva = rva_to_va_spec v rva.
Proof. exact ViewsProofs.rva_to_va_correct. Qed.
Print Assumptions C05_rva_to_va.

Theorem C05_va_to_rva : forall v va, view_ok v -> va_to_rva v va = va_to_rva_spec v va.
Proof. exact ViewsProofs.va_to_rva_correct. Qed.
Print Assumptions C05_va_to_rva.

(* rva -> va -> rva and va -> rva -> va are the identity on (0, SizeOfImage) *)
Theorem C05_rva_va_roundtrip : forall v r, view_ok v -> 0 < r -> r < v_soi v -> v_base v + r < v_w v ->
  rva_to_va v r = Ok (v_base v + r) /\ va_to_rva v (v_base v + r) = Ok r.
Proof. exact ViewsProofs.rva_va_roundtrip. Qed.
Print Assumptions C05_rva_va_roundtrip.

Theorem C05_va_rva_roundtrip : forall v va r, view_ok v -> va < v_w v -> va_to_rva v va = Ok r -> 0 < r -> r < v_soi v ->
  rva_to_va v r = Ok va.
Proof. exact ViewsProofs.va_rva_roundtrip. Qed.
Print Assumptions C05_va_rva_roundtrip.

(* a mapped view slices the buffer at offset rva *)
Theorem C05_slice_section : forall addr len rva min_size align,
  slice_section addr len rva min_size align = slice_section_spec addr len rva min_size align.
Proof. exact ViewsProofs.slice_section_correct. Qed.
Print Assumptions C05_slice_section.

Theorem C05_slice : forall v rva min_size align, view_ok v -> rva < W32 ->
  slice v rva min_size align = slice_spec v rva min_size align.
Proof. exact ViewsProofs.slice_correct. Qed.
Print Assumptions C05_slice.

(* reading at B + r returns exactly what slicing at r returns: same region, same error *)
Theorem C05_read_is_slice : forall v va min_size align, view_ok v ->
  va <> 0 -> v_base v < va -> va - v_base v <= v_soi v ->
  read v va min_size align = slice v (va - v_base v) min_size align.
Proof. exact ViewsProofs.read_is_slice. Qed.
Print Assumptions C05_read_is_slice.

Theorem C05_read : forall v va min_size align, view_ok v ->
  match read_spec v va min_size align with
  | Some r => read v va min_size align = r
  | None => True
  end.
Proof. exact ViewsProofs.read_correct. Qed.
Print Assumptions C05_read.

(* a zero address always yields the null error *)
Theorem C05_zero_is_null : forall v min_size align,
  slice v 0 min_size align = Err ENull /\ read v 0 min_size align = Err ENull /\
  rva_to_va v 0 = Err ENull /\ va_to_rva v 0 = Err ENull.
Proof. exact ViewsProofs.zero_is_null. Qed.
Print Assumptions C05_zero_is_null.

Theorem C05_typed_zero_is_null : forall get sl size align len p,
  (forall m a, sl 0 m a = Err ENull) ->
  rd sl 0 size align = Err ENull /\ rd_copy sl 0 size = Err ENull /\
  (size * len < W64 -> rd_slice sl 0 size align len = Err ENull) /\
  rd_slice_f get sl 0 size align p = Err ENull /\ rd_c_str get sl 0 = Err ENull.
Proof. exact ViewsProofs.typed_zero_is_null. Qed.
Print Assumptions C05_typed_zero_is_null.

(* typed reads return precisely a prefix of the untyped slice, under their length rule *)
Theorem C05_rd_is_prefix : forall sl a size align,
  match sl a size align with
  | Ok r => rd sl a size align = Ok {| r_off := r_off r; r_len := size |}
  | Err e => rd sl a size align = Err e
  | Fault f => rd sl a size align = Fault f
  end.
Proof. exact ViewsProofs.rd_is_prefix. Qed.
Print Assumptions C05_rd_is_prefix.

Theorem C05_rd_slice_is_prefix : forall sl a size align len,
  if size * len <? W64 then
    match sl a (size * len) align with
    | Ok r => rd_slice sl a size align len = Ok {| r_off := r_off r; r_len := size * len |}
    | Err e => rd_slice sl a size align len = Err e
    | Fault f => rd_slice sl a size align len = Fault f
    end
  else rd_slice sl a size align len = Err EOverflow.
Proof. exact ViewsProofs.rd_slice_is_prefix. Qed.
Print Assumptions C05_rd_slice_is_prefix.

(* predicate / sentinel terminated arrays: the longest prefix of whole elements before the
   first one satisfying p; Bounds when the slice holds none; the scan never runs out of fuel *)
Theorem C05_rd_slice_f : forall get sl a size align p, 0 < size ->
  match sl a 0 align with
  | Ok r =>
    match rd_slice_f get sl a size align p with
    | Ok q => exists n, q = {| r_off := r_off r; r_len := n * size |} /\ is_first get p (r_off r) (r_len r) size n
    | Err e => e = EBounds /\ none_in get p (r_off r) (r_len r) size
    | Fault _ => False
    end
  | Err e => rd_slice_f get sl a size align p = Err e
  | Fault f => rd_slice_f get sl a size align p = Fault f
  end.
Proof. exact ViewsProofs.rd_slice_f_correct. Qed.
Print Assumptions C05_rd_slice_f.

(* C strings: bytes up to and including the first NUL; Encoding when there is none *)
Theorem C05_rd_c_str : forall get sl a,
  match sl a 0 1 with
  | Ok r =>
    match rd_c_str get sl a with
    | Ok q => r_off q = r_off r /\ r_len q <= r_len r /\ get (r_off r + r_len q - 1) = 0 /\ 0 < r_len q /\
              forall k, k < r_len q - 1 -> get (r_off r + k) <> 0
    | Err e => e = EEncoding /\ forall k, k < r_len r -> get (r_off r + k) <> 0
    | Fault _ => False
    end
  | Err e => rd_c_str get sl a = Err e
  | Fault f => rd_c_str get sl a = Fault f
  end.
Proof. exact ViewsProofs.rd_c_str_correct. Qed.
Print Assumptions C05_rd_c_str.

(* F25, the code as it stood before the repair panicked on overflow *)
Theorem C05_F25_rva_to_va_orig_refuted :
  rva_to_va_orig {| v_file := true; v_addr := 0; v_len := 0; v_get := fun _ => 0; v_w := W32;
                    v_base := 4294963200; v_soh := 0; v_soi := 65536; v_secs := [] |} 8192 = Fault POverflow.
Proof. exact ViewsProofs.rva_to_va_orig_refuted. Qed.
Print Assumptions C05_F25_rva_to_va_orig_refuted.

Example C05_nonvacuous :
  let v := {| v_file := false; v_addr := 4096; v_len := 8192; v_get := fun i => if i =? 4100 then 0 else 65;
              v_w := W64; v_base := 5368709120; v_soh := 1024; v_soi := 8192; v_secs := [] |} in
  view_ok v /\ rva_to_va v 4096 = Ok 5368713216 /\ va_to_rva v 5368713216 = Ok 4096 /\
  read v 5368713216 4 4 = slice v 4096 4 4 /\ slice v 4096 4 4 = Ok {| r_off := 4096; r_len := 4096 |} /\
  rd_c_str (v_get v) (slice v) 4096 = Ok {| r_off := 4096; r_len := 5 |}.
Proof. exact ViewsProofs.nonvacuous_example. Qed.

(* ---- leaf functions regenerated from the source on every run (tools/gen_leaf.py -> gen/Leaf.v): agreement with the hand-written model ---- *)
(* src/util/align.rs: impl_align_to! expanded for u32 and for usize, regenerated from the source on every run, is
   Machine.align_to / aligned_to exactly when the source's debug assertion holds (align is a power of two) *)
From PV.gen Require Leaf.
From PV.Proofs Require LeafAlign.
Theorem C05_leaf_align_to_u32 : forall x a, Leaf.L_align_u32_align_to_dom x a = true -> Leaf.L_align_u32_align_to_ok x a = true ->
  Leaf.L_align_u32_align_to x a = Machine.align_to W32 a x.
Proof. exact LeafAlign.align_u32_align_to_agrees. Qed.
Print Assumptions C05_leaf_align_to_u32.
Theorem C05_leaf_aligned_to_u32 : forall x a, Leaf.L_align_u32_aligned_to_dom x a = true -> Leaf.L_align_u32_aligned_to_ok x a = true ->
  Leaf.L_align_u32_aligned_to x a = Machine.aligned_to a x.
Proof. exact LeafAlign.align_u32_aligned_to_agrees. Qed.
Print Assumptions C05_leaf_aligned_to_u32.
Theorem C05_leaf_align_to_usize : forall x a, Leaf.L_align_usize_align_to_dom x a = true -> Leaf.L_align_usize_align_to_ok x a = true ->
  Leaf.L_align_usize_align_to x a = Machine.align_to W64 a x.
Proof. exact LeafAlign.align_usize_align_to_agrees. Qed.
Print Assumptions C05_leaf_align_to_usize.
Theorem C05_leaf_aligned_to_usize : forall x a, Leaf.L_align_usize_aligned_to_dom x a = true -> Leaf.L_align_usize_aligned_to_ok x a = true ->
  Leaf.L_align_usize_aligned_to x a = Machine.aligned_to a x.
Proof. exact LeafAlign.align_usize_aligned_to_agrees. Qed.
Print Assumptions C05_leaf_aligned_to_usize.
Theorem C05_leaf_align_precondition : forall x a, Leaf.L_align_usize_align_to_ok x a = true <-> exists k, a = 2 ^ k.
Proof. exact LeafAlign.align_usize_ok_iff. Qed.
Print Assumptions C05_leaf_align_precondition.
Theorem C05_leaf_align_non_pow2_differs :
  Leaf.L_align_u32_align_to_ok 5 3 = false /\ Leaf.L_align_u32_align_to 5 3 = 5 /\ Machine.align_to W32 3 5 = 6.
Proof. exact LeafAlign.align_to_non_pow2_differs. Qed.
Print Assumptions C05_leaf_align_non_pow2_differs.

(* the source places the binders of the generated leaf definitions stand for (third audit, F2) *)
From Coq Require Import List String.
Import ListNotations.
Theorem C05_leaf_reads_align :
  Leaf.L_align_u32_align_to_args = ["self : u32"%string; "arg1 : u32"%string] /\
  Leaf.L_align_u32_aligned_to_args = ["self : u32"%string; "arg1 : u32"%string] /\
  Leaf.L_align_usize_align_to_args = ["self : usize"%string; "arg1 : usize"%string] /\
  Leaf.L_align_usize_aligned_to_args = ["self : usize"%string; "arg1 : usize"%string].
Proof. exact LeafAlign.leaf_reads_align. Qed.
Print Assumptions C05_leaf_reads_align.
