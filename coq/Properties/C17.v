(* C17 - The compile-time pattern macro and the run-time parser produce the same pattern.
   Statements only; every proof is [exact <lemma>].

   PARTIAL BY NATURE.  What is proved here is the part of the macro that is ordinary code: the literal unescaper
   parse_str_literal (Model/Unescape.v) against the Rust Reference's string-literal semantics (Spec/RustLiteral.v),
   the composition macro = parse . unescape with the parser model of C11 (Model/Pattern.v), and - section (4) - the
   code generation step as far as it is code of the crate: the TEXT the macro returns (the atom vector formatted with
   the derived Debug inside the format string, Model/Codegen.v) read back by an independent reader of the Rust
   fragment it is written in (Spec/RustTokens.v: tokens, the block with the glob import, the borrowed array, the
   variant table with arities and field ranges).  That rustc's own lexer, parser and name resolution read that text
   the way Spec/RustTokens.v does is NOT proved (it is not code of the crate); it is covered by the correspondence
   check only (generated crates, compiled against the working tree, whose consts are compared with
   pelite::pattern::parse of the same literals and with hand-built vectors of every variant).

   A literal is the list of chars of the token as written (quotes and suffix included), after CRLF normalisation. *)
From Coq Require Import String.
From PV.Model Require Import Machine Pattern Unescape Codegen.
From PV.Spec Require Import RustLiteral RustTokens.
From PV.Proofs Require UnescapeProofs PatRangeProofs CodegenProofs.

(* (1) Where the macro accepts a literal it assigns it Rust's meaning: no escape is read differently, no backslash
   is dropped, nothing after the closing quote is ignored.  [~ In 13 lit]: no isolated CR in the token - rustc's
   lexer rejects such a source file before any meaning is assigned (C17_isolated_cr_witness shows the hypothesis is
   needed; the correspondence check confirms that such a crate does not compile). *)
Theorem C17_macro_unescape_sound : forall lit s, ~ In 13 lit ->
  parse_str_literal lit = inr s -> rust_unescape lit = Some s.
Proof. exact UnescapeProofs.macro_unescape_sound. Qed.
Print Assumptions C17_macro_unescape_sound.

(* (1) without the side condition: on any token rustc's lexer accepts - value s', suffix sfx - the macro, if it accepts,
   returns exactly s', and the token has no suffix. *)
Theorem C17_macro_unescape_agrees : forall lit s s' sfx,
  parse_str_literal lit = inr s -> rust_token lit = Some (s', sfx) -> s' = s /\ sfx = [].
Proof. exact UnescapeProofs.macro_unescape_agrees. Qed.
Print Assumptions C17_macro_unescape_agrees.

(* (1') Outside the known class (a Rust-valid literal that uses \0, \xHH, \u{..} or a line continuation) the macro
   reads every literal Rust reads: together with (1) the unescaper IS Rust's function there. *)
Theorem C17_macro_unescape_complete : forall lit s, rust_unescape lit = Some s ->
  escape_not_supported_by_macro lit = false -> parse_str_literal lit = inr s.
Proof. exact UnescapeProofs.macro_unescape_complete. Qed.
Print Assumptions C17_macro_unescape_complete.

(* (2) Totality: on ANY char list the macro, up to code generation, ends in an expansion or in one of its explicit
   refusals (a compile error); it never faults inside the unescaper or the parser. *)
Theorem C17_macro_no_fault : forall lit f, macro_model lit <> MFault f.
Proof. exact UnescapeProofs.macro_no_fault. Qed.
Print Assumptions C17_macro_no_fault.

(* what the macro accepts is a token that starts and ends with a double quote; other tokens are refused *)
Theorem C17_macro_accepts_shape : forall lit s, parse_str_literal lit = inr s -> exists inner, lit = 34 :: inner ++ [34].
Proof. exact UnescapeProofs.macro_accepts_shape. Qed.
Print Assumptions C17_macro_accepts_shape.
Theorem C17_macro_rejects_non_string : forall lit q t, lit = q :: t -> q <> 34 -> parse_str_literal lit = inl RNoQuote.
Proof. exact UnescapeProofs.macro_rejects_non_string. Qed.
Print Assumptions C17_macro_rejects_non_string.

(* (3) The composition.  By definition the macro hands to the code generator what the run-time parser returns for
   the unescaped text ... *)
Theorem C17_macro_is_parse_of_unescape : forall lit,
  macro_model lit = match parse_str_literal lit with
                    | inl r => MLiteral r
                    | inr s => of_parse (parse (utf8_encode s))
                    end.
Proof. exact UnescapeProofs.macro_is_parse_of_unescape. Qed.
Print Assumptions C17_macro_is_parse_of_unescape.

(* ... so, for every Rust string literal outside the known class, the macro expands to exactly the atoms the run-time
   parser returns for the literal's value, and the call does not compile when the run-time parser rejects it
   (parse is total by C11_parse_total, hence the [exists r]) ... *)
Theorem C17_macro_eq_runtime_parse : forall lit s, rust_unescape lit = Some s ->
  escape_not_supported_by_macro lit = false ->
  exists r, parse (utf8_encode s) = Ok r /\
    macro_model lit = match r with inr atoms => MExpands atoms | inl (e, pos) => MPattern e pos end.
Proof. exact UnescapeProofs.macro_eq_runtime_parse. Qed.
Print Assumptions C17_macro_eq_runtime_parse.

(* ... and conversely whatever the macro expands to - for ANY token - is the run-time parser's result on Rust's
   reading of it: the macro never produces a pattern for text Rust reads differently or does not read. *)
Theorem C17_macro_expansion_is_runtime_parse : forall lit atoms, ~ In 13 lit -> macro_model lit = MExpands atoms ->
  exists s, rust_unescape lit = Some s /\ parse (utf8_encode s) = Ok (inr atoms).
Proof. exact UnescapeProofs.macro_expansion_is_runtime_parse. Qed.
Print Assumptions C17_macro_expansion_is_runtime_parse.

(* the boolean evaluated on the generated crate's output is the reflection of the two theorems above *)
Theorem C17_oracle_holds_on_model : forall lit, ~ In 13 lit -> escape_not_supported_by_macro lit = false ->
  c17_oracle (option_map utf8_encode (rust_unescape lit))
             (match rust_unescape lit with Some s => UnescapeProofs.obs_of_parse (parse (utf8_encode s)) | None => None end)
             (UnescapeProofs.obs_of_macro (macro_model lit)) = true.
Proof. exact UnescapeProofs.oracle_holds_on_model. Qed.
Print Assumptions C17_oracle_holds_on_model.

(* String::push / str::chars: the chars of the String the unescaper builds are the chars it pushed *)
Theorem C17_utf8_decode_encode : forall cs, Forall UnescapeProofs.scalar cs -> utf8_decode (utf8_encode cs) = Some cs.
Proof. exact UnescapeProofs.utf8_decode_encode. Qed.
Print Assumptions C17_utf8_decode_encode.

(* ---- the defect repaired in /repo, as a fact about the code as it stood (F36) ----
   The token 4D in double quotes followed by the suffix x: the old unescaper stopped at the closing quote and
   never looked at the rest, so pattern!(..) compiled although the same token is not a Rust string expression. *)
Theorem C17_F36_suffix_ignored_refuted :
  parse_str_literal_orig [34; 52; 68; 34; 120] = inr [52; 68] /\ rust_unescape [34; 52; 68; 34; 120] = None
  /\ rust_lex_ok [34; 52; 68; 34; 120] = true
  /\ macro_model_orig [34; 52; 68; 34; 120] = MExpands [Save 0; Byte 77]
  /\ macro_model [34; 52; 68; 34; 120] = MLiteral RSuffix.
Proof. exact UnescapeProofs.macro_unescape_orig_refuted. Qed.
Print Assumptions C17_F36_suffix_ignored_refuted.
(* what the old code did guarantee: the value of the token, whatever its suffix *)
Theorem C17_orig_reads_token_value : forall lit s, ~ In 13 lit ->
  parse_str_literal_orig lit = inr s -> exists sfx, rust_token lit = Some (s, sfx).
Proof. exact UnescapeProofs.macro_unescape_orig_token. Qed.
Print Assumptions C17_orig_reads_token_value.

(* ---- known class escape_not_supported_by_macro: Rust reads the literal, the run-time parser accepts its value,
   the macro refuses it (loudly: the refusal is a compile error, never a different pattern) ---- *)
Theorem C17_known_class_witness :
  let lit2 := [34; 52; 68; 92; 120; 50; 48; 53; 65; 34] in
  escape_not_supported_by_macro lit2 = true
  /\ rust_unescape lit2 = Some [52; 68; 32; 53; 65]
  /\ parse (utf8_encode [52; 68; 32; 53; 65]) = Ok (inr [Save 0; Byte 77; Byte 90])
  /\ macro_model lit2 = MLiteral (RUnknownEscape 120).
Proof. exact UnescapeProofs.escape_not_supported_witness. Qed.
Print Assumptions C17_known_class_witness.

(* the hypothesis of (1) is needed *)
Theorem C17_isolated_cr_witness :
  parse_str_literal [34; 52; 68; 13; 34] = inr [52; 68; 13] /\ rust_unescape [34; 52; 68; 13; 34] = None
  /\ rust_lex_ok [34; 52; 68; 13; 34] = false.
Proof. exact UnescapeProofs.isolated_cr_witness. Qed.
Print Assumptions C17_isolated_cr_witness.

(* non-vacuity: the literal  E8 ${'} DQab DQ ? 0F  in double quotes, where each inner DQ is written backslash-quote and
   between a and b stand the escapes backslash-backslash and backslash-t; it is a Rust string literal outside the known
   class, and Rust, the macro's unescaper and the composition all compute *)
Example C17_nonvacuous :
  let lit := [34; 69;56;32; 36;123;39;125;32; 92;34; 97; 92;92; 92;116; 98; 92;34; 32;63;32; 48;70; 34] in
  rust_unescape lit = Some [69;56;32; 36;123;39;125;32; 34;97;92;9;98;34; 32;63;32; 48;70]
  /\ escape_not_supported_by_macro lit = false /\ forallb (fun c => negb (c =? 13)) lit = true
  /\ macro_model lit = MExpands [Save 0; Byte 232; Push 4; Jump4; Save 1; Pop; Byte 97; Byte 92; Byte 9; Byte 98; Skip 1; Byte 15].
Proof. vm_compute. repeat split; reflexivity. Qed.

(* ==== (4) code generation: the text the macro returns, read back as Rust ====
   Model/Codegen.v: [fmt_dec] (Display of an unsigned integer), [debug_atom] (the derived Debug of enum Atom: 20 tuple
   variants with one u8 field, 6 unit variants), [debug_atoms] (Debug of Vec<Atom>), [rust_format] on the format string
   of lib.rs:31, [expansion] = the whole text, [macro_expansion] = the macro up to that text.
   Spec/RustTokens.v: [tokenize], [eval_tokens], [eval_expansion] : text -> option (list atom).
   [atom_u8 a]: the field of [a] (if it has one) is below 256 - true of every Rust value of the enum by its type; the
   model's fields are unbounded N, hence the hypothesis. *)

(* the format string has one hole: the text is the constant head, the Debug text of the vector, and the closing brace *)
Theorem C17_expansion_text : forall atoms,
  expansion atoms = CodegenProofs.head_text ++ debug_atoms atoms ++ [32; 125].
Proof. exact CodegenProofs.expansion_eq. Qed.
Print Assumptions C17_expansion_text.

(* Display of an integer, read back as a Rust integer literal, for EVERY n: one token, the same value *)
Theorem C17_decimal_roundtrip : forall n, tokenize (fmt_dec n) = Some [TInt n].
Proof. exact CodegenProofs.decimal_roundtrip. Qed.
Print Assumptions C17_decimal_roundtrip.

(* the round trip, for EVERY atom vector: the printed text evaluates to a slice equal to the vector *)
Theorem C17_codegen_roundtrip : forall atoms, Forall atom_u8 atoms -> eval_expansion (expansion atoms) = Some atoms.
Proof. exact CodegenProofs.codegen_roundtrip. Qed.
Print Assumptions C17_codegen_roundtrip.

(* no two vectors are printed as the same text *)
Theorem C17_expansion_injective : forall a b, Forall atom_u8 a -> Forall atom_u8 b -> expansion a = expansion b -> a = b.
Proof. exact CodegenProofs.expansion_injective. Qed.
Print Assumptions C17_expansion_injective.

(* the hypothesis is needed and says the right thing: a field that does not fit the u8 is printed as a literal that
   does not compile *)
Theorem C17_out_of_range_refused : eval_expansion (expansion [Save 0; Byte 256]) = None.
Proof. exact CodegenProofs.out_of_range_refused. Qed.
Print Assumptions C17_out_of_range_refused.

(* ... for every vector: the text evaluates to the vector exactly when every field fits *)
Theorem C17_codegen_roundtrip_iff : forall atoms, eval_expansion (expansion atoms) = Some atoms <-> Forall atom_u8 atoms.
Proof. exact CodegenProofs.codegen_roundtrip_iff. Qed.
Print Assumptions C17_codegen_roundtrip_iff.

(* the hypothesis always holds where the macro uses the printer: the run-time parser's atoms fit their fields, for
   every input of bytes (an invariant of the parser loop: result vector, save counter, saved counters of open groups) *)
Theorem C17_parse_output_fits_u8 : forall input atoms, Forall (fun b => b < 256) input ->
  parse input = Ok (inr atoms) -> Forall atom_u8 atoms.
Proof. exact PatRangeProofs.parse_u8. Qed.
Print Assumptions C17_parse_output_fits_u8.

(* (3) THROUGH THE PRINTED TEXT.  [Forall scalar lit]: the token is a list of Rust chars.  For every Rust string literal
   outside the known class the text the macro returns evaluates to exactly the atoms the run-time parser returns for
   the literal's value; the call does not compile when the run-time parser rejects the value ... *)
Theorem C17_macro_text_eq_runtime_parse : forall lit s, Forall UnescapeProofs.scalar lit -> rust_unescape lit = Some s ->
  escape_not_supported_by_macro lit = false ->
  exists r, parse (utf8_encode s) = Ok r /\
    match r with
    | inr atoms => exists text, macro_expansion lit = TExpands text /\ eval_expansion text = Some atoms
    | inl (e, pos) => macro_expansion lit = TPattern e pos
    end.
Proof. exact CodegenProofs.macro_text_eq_runtime_parse. Qed.
Print Assumptions C17_macro_text_eq_runtime_parse.

(* ... and conversely whatever text the macro returns, for ANY token, evaluates to the run-time parser's result on
   Rust's reading of the token *)
Theorem C17_macro_text_is_runtime_parse : forall lit text, ~ In 13 lit -> Forall UnescapeProofs.scalar lit ->
  macro_expansion lit = TExpands text ->
  exists s atoms, rust_unescape lit = Some s /\ parse (utf8_encode s) = Ok (inr atoms) /\ eval_expansion text = Some atoms.
Proof. exact CodegenProofs.macro_text_is_runtime_parse. Qed.
Print Assumptions C17_macro_text_is_runtime_parse.

(* totality up to the returned text: a text or an explicit refusal, never a fault; and the returned text always
   lexes and evaluates, to the vector the macro computed (the `.parse().unwrap()` of lib.rs:31 finds tokens) *)
Theorem C17_macro_expansion_no_fault : forall lit f, macro_expansion lit <> TFault f.
Proof. exact CodegenProofs.macro_expansion_no_fault. Qed.
Print Assumptions C17_macro_expansion_no_fault.
Theorem C17_macro_text_compiles : forall lit text, Forall UnescapeProofs.scalar lit -> macro_expansion lit = TExpands text ->
  exists ts atoms, tokenize text = Some ts /\ eval_tokens ts = Some atoms /\ macro_model lit = MExpands atoms.
Proof. exact CodegenProofs.macro_text_compiles. Qed.
Print Assumptions C17_macro_text_compiles.

(* the boolean evaluated on the implementation's printed text is the reflection of the round trip *)
Theorem C17_codegen_oracle_holds_on_model : forall atoms, Forall atom_u8 atoms ->
  codegen_oracle atom_eqb (expansion atoms) atoms = true.
Proof. exact CodegenProofs.codegen_oracle_holds. Qed.
Print Assumptions C17_codegen_oracle_holds_on_model.

(* non-vacuity: the text of a vector with every kind of variant and the boundary field values, spelled out; the reader
   accepts a trailing comma and other whitespace and refuses an unknown name, a unit variant that is called, a tuple
   variant that is not, a literal suffix and a negative literal *)
Example C17_codegen_nonvacuous :
  let v := [Save 0; Byte 144; Push 4; Jump4; Pop; Skip 255; Rangext 1; Many 10; VTypeName; ReadI16 7; Nop] in
  expansion v = text_of "{ use ::pelite::pattern::Atom::*; &[Save(0), Byte(144), Push(4), Jump4, Pop, Skip(255), Rangext(1), Many(10), VTypeName, ReadI16(7), Nop] }"
  /\ eval_expansion (expansion v) = Some v
  /\ eval_expansion (expansion []) = Some []
  /\ eval_expansion (text_of "{use ::pelite::pattern::Atom::*;&[Byte( 7 ,),Pop,]}") = Some [Byte 7; Pop]
  /\ eval_expansion (text_of "{ use ::pelite::pattern::Atom::*; &[Bite(7)] }") = None
  /\ eval_expansion (text_of "{ use ::pelite::pattern::Atom::*; &[Pop(7)] }") = None
  /\ eval_expansion (text_of "{ use ::pelite::pattern::Atom::*; &[Byte] }") = None
  /\ eval_expansion (text_of "{ use ::pelite::pattern::Atom::*; &[Byte(7u8)] }") = None
  /\ eval_expansion (text_of "{ use ::pelite::pattern::Atom::*; &[Byte(-7)] }") = None
  /\ eval_expansion (text_of "{ use ::pelite::pattern::Atom::*; [Byte(7)] }") = None.
Proof. vm_compute. repeat split; reflexivity. Qed.

(* the macro end to end: the literal of C17_nonvacuous, its text and the value of the text *)
Example C17_macro_text_nonvacuous :
  let lit := [34; 69;56;32; 36;123;39;125;32; 92;34; 97; 92;92; 92;116; 98; 92;34; 32;63;32; 48;70; 34] in
  macro_expansion lit = TExpands (text_of "{ use ::pelite::pattern::Atom::*; &[Save(0), Byte(232), Push(4), Jump4, Save(1), Pop, Byte(97), Byte(92), Byte(9), Byte(98), Skip(1), Byte(15)] }")
  /\ (match macro_expansion lit with TExpands t => eval_expansion t | _ => None end)
     = Some [Save 0; Byte 232; Push 4; Jump4; Save 1; Pop; Byte 97; Byte 92; Byte 9; Byte 98; Skip 1; Byte 15].
Proof. vm_compute. repeat split; reflexivity. Qed.

(* OPEN: C17_rustc_reads_expansion_as_spec : rustc's tokenizer (str::parse::<TokenStream>), expression parser and name
   resolution agree with Spec/RustTokens.v on the expansion text: the block compiles to a &[Atom] equal to
   eval_expansion of the text, in any scope the macro may be invoked in.  rustc is not code of the crate and has no
   model; covered by the correspondence check only (translation validation on generated crates: the consts produced by
   pattern!(..) and by hand-built expansion texts of every variant, compared element by element). *)
