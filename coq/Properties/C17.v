(* C17 - The compile-time pattern macro and the run-time parser produce the same pattern.
   Statements only; every proof is [exact <lemma>].

   PARTIAL BY NATURE.  What is proved here is the part of the macro that is ordinary code: the literal unescaper
   parse_str_literal (Model/Unescape.v) against the Rust Reference's string-literal semantics (Spec/RustLiteral.v),
   and the composition macro = parse . unescape with the parser model of C11 (Model/Pattern.v).  The code generation
   step - the atom vector formatted with Debug and re-parsed as tokens inside rustc - has no model; it is covered only
   by the correspondence check (a generated crate, compiled against the working tree, whose consts are compared with
   pelite::pattern::parse of the same literals).

   A literal is the list of chars of the token as written (quotes and suffix included), after CRLF normalisation. *)
From PV.Model Require Import Machine Pattern Unescape.
From PV.Spec Require Import RustLiteral.
From PV.Proofs Require UnescapeProofs.

(* (1) Where the macro accepts a literal it assigns it Rust's meaning: no escape is read differently, no backslash
   is dropped, nothing after the closing quote is ignored.  [~ In 13 lit]: no isolated CR in the token - rustc's
   lexer rejects such a source file before any meaning is assigned (C17_isolated_cr_witness shows the hypothesis is
   needed; the correspondence check confirms that such a crate does not compile). *)
Theorem C17_macro_unescape_sound : forall lit s, ~ In 13 lit ->
  parse_str_literal lit = inr s -> rust_unescape lit = Some s.
Proof. exact UnescapeProofs.macro_unescape_sound. Qed.
Print Assumptions C17_macro_unescape_sound.

(* (1) without the side condition: on any token rustc's lexer accepts - value s', suffix sfx - the macro, if it accepts,
   returns exactly s', and the token has no suffix. *)
Theorem C17_macro_unescape_agrees : forall lit s s' sfx,
  parse_str_literal lit = inr s -> rust_token lit = Some (s', sfx) -> s' = s /\ sfx = [].
Proof. exact UnescapeProofs.macro_unescape_agrees. Qed.
Print Assumptions C17_macro_unescape_agrees.

(* (1') Outside the known class (a Rust-valid literal that uses \0, \xHH, \u{..} or a line continuation) the macro
   reads every literal Rust reads: together with (1) the unescaper IS Rust's function there. *)
Theorem C17_macro_unescape_complete : forall lit s, rust_unescape lit = Some s ->
  escape_not_supported_by_macro lit = false -> parse_str_literal lit = inr s.
Proof. exact UnescapeProofs.macro_unescape_complete. Qed.
Print Assumptions C17_macro_unescape_complete.

(* (2) Totality: on ANY char list the macro, up to code generation, ends in an expansion or in one of its explicit
   refusals (a compile error); it never faults inside the unescaper or the parser. *)
Theorem C17_macro_no_fault : forall lit f, macro_model lit <> MFault f.
Proof. exact UnescapeProofs.macro_no_fault. Qed.
Print Assumptions C17_macro_no_fault.

(* what the macro accepts is a token that starts and ends with a double quote; other tokens are refused *)
Theorem C17_macro_accepts_shape : forall lit s, parse_str_literal lit = inr s -> exists inner, lit = 34 :: inner ++ [34].
Proof. exact UnescapeProofs.macro_accepts_shape. Qed.
Print Assumptions C17_macro_accepts_shape.
Theorem C17_macro_rejects_non_string : forall lit q t, lit = q :: t -> q <> 34 -> parse_str_literal lit = inl RNoQuote.
Proof. exact UnescapeProofs.macro_rejects_non_string. Qed.
Print Assumptions C17_macro_rejects_non_string.

(* (3) The composition.  By definition the macro hands to the code generator what the run-time parser returns for
   the unescaped text ... *)
Theorem C17_macro_is_parse_of_unescape : forall lit,
  macro_model lit = match parse_str_literal lit with
                    | inl r => MLiteral r
                    | inr s => of_parse (parse (utf8_encode s))
                    end.
Proof. exact UnescapeProofs.macro_is_parse_of_unescape. Qed.
Print Assumptions C17_macro_is_parse_of_unescape.

(* ... so, for every Rust string literal outside the known class, the macro expands to exactly the atoms the run-time
   parser returns for the literal's value, and the call does not compile when the run-time parser rejects it
   (parse is total by C11_parse_total, hence the [exists r]) ... *)
Theorem C17_macro_eq_runtime_parse : forall lit s, rust_unescape lit = Some s ->
  escape_not_supported_by_macro lit = false ->
  exists r, parse (utf8_encode s) = Ok r /\
    macro_model lit = match r with inr atoms => MExpands atoms | inl (e, pos) => MPattern e pos end.
Proof. exact UnescapeProofs.macro_eq_runtime_parse. Qed.
Print Assumptions C17_macro_eq_runtime_parse.

(* ... and conversely whatever the macro expands to - for ANY token - is the run-time parser's result on Rust's
   reading of it: the macro never produces a pattern for text Rust reads differently or does not read. *)
Theorem C17_macro_expansion_is_runtime_parse : forall lit atoms, ~ In 13 lit -> macro_model lit = MExpands atoms ->
  exists s, rust_unescape lit = Some s /\ parse (utf8_encode s) = Ok (inr atoms).
Proof. exact UnescapeProofs.macro_expansion_is_runtime_parse. Qed.
Print Assumptions C17_macro_expansion_is_runtime_parse.

(* the boolean evaluated on the generated crate's output is the reflection of the two theorems above *)
Theorem C17_oracle_holds_on_model : forall lit, ~ In 13 lit -> escape_not_supported_by_macro lit = false ->
  c17_oracle (option_map utf8_encode (rust_unescape lit))
             (match rust_unescape lit with Some s => UnescapeProofs.obs_of_parse (parse (utf8_encode s)) | None => None end)
             (UnescapeProofs.obs_of_macro (macro_model lit)) = true.
Proof. exact UnescapeProofs.oracle_holds_on_model. Qed.
Print Assumptions C17_oracle_holds_on_model.

(* String::push / str::chars: the chars of the String the unescaper builds are the chars it pushed *)
Theorem C17_utf8_decode_encode : forall cs, Forall UnescapeProofs.scalar cs -> utf8_decode (utf8_encode cs) = Some cs.
Proof. exact UnescapeProofs.utf8_decode_encode. Qed.
Print Assumptions C17_utf8_decode_encode.

(* ---- the defect repaired in /repo, as a fact about the code as it stood (F36) ----
   The token 4D in double quotes followed by the suffix x: the old unescaper stopped at the closing quote and
   never looked at the rest, so pattern!(..) compiled although the same token is not a Rust string expression. *)
Theorem C17_F36_suffix_ignored_refuted :
  parse_str_literal_orig [34; 52; 68; 34; 120] = inr [52; 68] /\ rust_unescape [34; 52; 68; 34; 120] = None
  /\ rust_lex_ok [34; 52; 68; 34; 120] = true
  /\ macro_model_orig [34; 52; 68; 34; 120] = MExpands [Save 0; Byte 77]
  /\ macro_model [34; 52; 68; 34; 120] = MLiteral RSuffix.
Proof. exact UnescapeProofs.macro_unescape_orig_refuted. Qed.
Print Assumptions C17_F36_suffix_ignored_refuted.
(* what the old code did guarantee: the value of the token, whatever its suffix *)
Theorem C17_orig_reads_token_value : forall lit s, ~ In 13 lit ->
  parse_str_literal_orig lit = inr s -> exists sfx, rust_token lit = Some (s, sfx).
Proof. exact UnescapeProofs.macro_unescape_orig_token. Qed.
Print Assumptions C17_orig_reads_token_value.

(* ---- known class escape_not_supported_by_macro: Rust reads the literal, the run-time parser accepts its value,
   the macro refuses it (loudly: the refusal is a compile error, never a different pattern) ---- *)
Theorem C17_known_class_witness :
  let lit2 := [34; 52; 68; 92; 120; 50; 48; 53; 65; 34] in
  escape_not_supported_by_macro lit2 = true
  /\ rust_unescape lit2 = Some [52; 68; 32; 53; 65]
  /\ parse (utf8_encode [52; 68; 32; 53; 65]) = Ok (inr [Save 0; Byte 77; Byte 90])
  /\ macro_model lit2 = MLiteral (RUnknownEscape 120).
Proof. exact UnescapeProofs.escape_not_supported_witness. Qed.
Print Assumptions C17_known_class_witness.

(* the hypothesis of (1) is needed *)
Theorem C17_isolated_cr_witness :
  parse_str_literal [34; 52; 68; 13; 34] = inr [52; 68; 13] /\ rust_unescape [34; 52; 68; 13; 34] = None
  /\ rust_lex_ok [34; 52; 68; 13; 34] = false.
Proof. exact UnescapeProofs.isolated_cr_witness. Qed.
Print Assumptions C17_isolated_cr_witness.

(* non-vacuity: the literal  E8 ${'} DQab DQ ? 0F  in double quotes, where each inner DQ is written backslash-quote and
   between a and b stand the escapes backslash-backslash and backslash-t; it is a Rust string literal outside the known
   class, and Rust, the macro's unescaper and the composition all compute *)
Example C17_nonvacuous :
  let lit := [34; 69;56;32; 36;123;39;125;32; 92;34; 97; 92;92; 92;116; 98; 92;34; 32;63;32; 48;70; 34] in
  rust_unescape lit = Some [69;56;32; 36;123;39;125;32; 34;97;92;9;98;34; 32;63;32; 48;70]
  /\ escape_not_supported_by_macro lit = false /\ forallb (fun c => negb (c =? 13)) lit = true
  /\ macro_model lit = MExpands [Save 0; Byte 232; Push 4; Jump4; Save 1; Pop; Byte 97; Byte 92; Byte 9; Byte 98; Skip 1; Byte 15].
Proof. vm_compute. repeat split; reflexivity. Qed.

(* OPEN: C17_codegen_roundtrip : for every atom list a, the tokens rustc obtains from
   format!("{{ use ::pelite::pattern::Atom::*; &{:?} }}", a) evaluate to a slice equal to a
   - the Debug-print-and-reparse step of the macro (DESIGN.md section 7 C17).  It runs inside rustc and has no model;
   covered by the correspondence check only (translation validation on generated crates). *)
