(* C14 — Base relocations: blocks partition the directory and build/parse round-trips.
   This file contains statements only; every proof is [exact <lemma>]. *)
From PV.Model Require Import Machine Relocs.
From PV.Spec Require Import RelocSpec.
From PV.Proofs Require RelocsProofs.

(* For every directory (any bytes, any length a slice can have) the block iterator
   terminates within fuel = length, never faults, and its output is the partition
   described by [chainb]: offsets start at 0, each block is header + clamped
   (SizeOfBlock-8)/2 words, lies inside [off, next), next = off + min(align4(max
   SizeOfBlock 8), remaining) > off, and fewer than 8 bytes remain at the end. *)
Theorem C14_blocks_partition : forall data, lenN data + 3 < W64 ->
  exists bs, blocks data = Ok bs /\ chainb data 0 bs = true.
Proof. exact RelocsProofs.blocks_partition. Qed.
Print Assumptions C14_blocks_partition.

(* What [chainb] says, as propositions: consecutive, non-overlapping, nothing
   skipped when the size is a multiple of four. *)
Theorem C14_chain_meaning : forall data off b bs, chainb data off (b :: bs) = true ->
  let rem := lenN data - off in
  let next := off + N.min (align4 (N.max (b_sob b) 8)) rem in
  b_off b = off /\ b_va b = u32_at data off /\ b_sob b = u32_at data (off + 4) /\
  b_words b = words_spec data (off + 8) ((N.min (b_sob b) rem - 8) / 2) /\
  off + 8 + 2 * lenN (b_words b) <= next /\ off < next <= lenN data /\
  (b_sob b mod 4 = 0 -> 8 <= b_sob b <= rem -> next = off + b_sob b) /\
  chainb data next bs = true.
Proof. exact RelocsProofs.chainb_inv. Qed.
Print Assumptions C14_chain_meaning.

(* The internal fold reports exactly the non-padding entries of the iterator's
   blocks, as (block address + low 12 bits, high 4 bits), in stored order. *)
Theorem C14_fold_is_flat : forall data, lenN data + 3 < W64 ->
  exists bs, blocks data = Ok bs /\ fold_pairs data = Ok (flat_spec bs).
Proof. exact RelocsProofs.fold_is_flat. Qed.
Print Assumptions C14_fold_is_flat.

(* Round trip, for any rva list (ascending or not), types 1..15. *)
Theorem C14_build_roundtrip : forall rvas types,
  length rvas = length types -> 2 * lenN rvas + 11 < W32 ->
  Forall (fun r => r < W32) rvas -> Forall (fun t => 1 <= t <= 15) types ->
  exists out bs, build rvas types = Ok out /\ bytes_ok out /\ lenN out <= 12 * lenN rvas /\
    blocks out = Ok bs /\ fold_pairs out = Ok (combine rvas types) /\
    Forall (fun b => b_va b mod 4096 = 0 /\ b_sob b mod 4 = 0) bs.
Proof. exact RelocsProofs.build_roundtrip. Qed.
Print Assumptions C14_build_roundtrip.

(* The executable oracles run on the implementation hold of the model. *)
Theorem C14_parse_oracle : forall data, lenN data + 3 < W64 ->
  exists bs flat, blocks data = Ok bs /\ fold_pairs data = Ok flat /\
    parse_ok data bs (flat_spec bs) flat = true.
Proof. exact RelocsProofs.parse_ok_model. Qed.
Print Assumptions C14_parse_oracle.

Theorem C14_build_oracle : forall rvas types,
  build_pre rvas types = true -> 2 * lenN rvas + 11 < W32 ->
  exists out bs flat, build rvas types = Ok out /\ blocks out = Ok bs /\ fold_pairs out = Ok flat /\
    build_ok rvas types out bs flat = true.
Proof. exact RelocsProofs.build_ok_model. Qed.
Print Assumptions C14_build_oracle.

(* The two defects repaired in /repo, as theorems about the code as it stood. *)
Theorem C14_F13_iter_orig_refuted : forall fuel,
  iter_blocks_gen advance_orig fuel 0 RelocsProofs.f13_witness = Fault OutOfFuel.
Proof. exact RelocsProofs.iter_blocks_orig_refuted. Qed.
Print Assumptions C14_F13_iter_orig_refuted.

Theorem C14_F14_build_orig_refuted : forall fuel,
  build_gen count_page_orig fuel [8191] [3] = Fault OutOfFuel.
Proof. exact RelocsProofs.build_orig_refuted. Qed.
Print Assumptions C14_F14_build_orig_refuted.

(* Non-vacuity: the hypotheses are met by concrete non-trivial inputs. *)
Example C14_nonvacuous_parse :
  blocks [0;16;0;0; 12;0;0;0; 5;48; 0;0;  0;32;0;0; 10;0;0;0; 255;63]
  = Ok [ {| b_off := 0; b_va := 4096; b_sob := 12; b_words := [12293; 0] |};
         {| b_off := 12; b_va := 8192; b_sob := 10; b_words := [16383] |} ].
Proof. vm_compute. reflexivity. Qed.
Example C14_nonvacuous_build :
  build [4101; 8191; 8192] [3; 10; 1]
  = Ok [0;16;0;0; 12;0;0;0; 5;48; 255;175;  0;32;0;0; 12;0;0;0; 0;16; 0;0].
Proof. vm_compute. reflexivity. Qed.

(* ---- leaf functions regenerated from the source on every run (tools/gen_leaf.py -> gen/Leaf.v): agreement with the hand-written model ---- *)
(* src/base_relocs.rs Block::rva_of / type_of / encode_type_offset and the block bounds of build, regenerated from the
   source on every run, are the functions of Model/Relocs.v (arguments in the ranges of their Rust types) *)
From PV.Model Require Relocs.
From PV.gen Require Leaf.
From PV.Proofs Require LeafRelocs.
Theorem C14_leaf_rva_of : forall va w, Leaf.L_base_relocs_Block_rva_of_dom va w = true ->
  Leaf.L_base_relocs_Block_rva_of_ok va w = true /\ Leaf.L_base_relocs_Block_rva_of va w = Relocs.rva_of va w.
Proof. exact LeafRelocs.rva_of_agrees. Qed.
Print Assumptions C14_leaf_rva_of.
Theorem C14_leaf_type_of : forall w, Leaf.L_base_relocs_Block_type_of_dom w = true ->
  Leaf.L_base_relocs_Block_type_of_ok w = true /\ Leaf.L_base_relocs_Block_type_of w = Relocs.type_of w.
Proof. exact LeafRelocs.type_of_agrees. Qed.
Print Assumptions C14_leaf_type_of.
Theorem C14_leaf_encode_type_offset : forall base rva ty, Leaf.L_base_relocs_encode_type_offset_dom base rva ty = true ->
  Relocs.encode_type_offset base rva ty =
    if Leaf.L_base_relocs_encode_type_offset_ok base rva ty then Ok (Leaf.L_base_relocs_encode_type_offset base rva ty)
    else Fault POverflow.
Proof. exact LeafRelocs.encode_type_offset_agrees. Qed.
Print Assumptions C14_leaf_encode_type_offset.
Theorem C14_leaf_build_step : forall cnt fuel r0 rs types, Leaf.L_base_relocs_build__start_dom r0 = true ->
  Relocs.build_gen cnt (S fuel) (r0 :: rs) types =
    (let start := Leaf.L_base_relocs_build__start r0 in
     end_ <- (if Leaf.L_base_relocs_build__end_ok r0 then Ok (Leaf.L_base_relocs_build__end r0) else Fault POverflow) ;;
     let n := cnt start end_ (r0 :: rs) in
     let size := Machine.align_to W64 4 (8 + 2 * N.of_nat n) in
     ws <- Relocs.encode_all start (firstn n (r0 :: rs)) (firstn n types) ;;
     let pad := if N.odd (N.of_nat n) then [0; 0] else [] in
     rest <- Relocs.build_gen cnt fuel (skipn n (r0 :: rs)) (skipn n types) ;;
     Ok (le32 start ++ le32 (size mod W32) ++ flat_map le16 ws ++ pad ++ rest)).
Proof. exact LeafRelocs.build_gen_step. Qed.
Print Assumptions C14_leaf_build_step.

(* the source places the binders of the generated leaf definitions stand for (third audit, F2) *)
From Coq Require Import List String.
Import ListNotations.
Theorem C14_leaf_reads_relocs :
  Leaf.L_base_relocs_Block_rva_of_args = ["self.image.VirtualAddress : u32"%string; "arg1 : u16"%string] /\
  Leaf.L_base_relocs_Block_type_of_args = ["arg1 : u16"%string] /\
  Leaf.L_base_relocs_encode_type_offset_args = ["arg1 : u32"%string; "arg2 : u32"%string; "arg3 : u8"%string] /\
  Leaf.L_base_relocs_build__start_args = ["arg1[0] : u32"%string] /\
  Leaf.L_base_relocs_build__end_args = ["arg1[0] : u32"%string].
Proof. exact LeafRelocs.leaf_reads_relocs. Qed.
Print Assumptions C14_leaf_reads_relocs.
