(* C11 — Pattern strings mean what the syntax documentation says.
   Statements only; every proof is [exact <lemma>].  Open statements are listed at the end. *)
From PV.Model Require Import Machine Mapping Views Pattern Exec ScanView.
From PV.Spec Require Import PatSyntax PatSem.
From PV.Proofs Require PatternProofs ExecProofs ViewsProofs PatSyntaxProofs PatSemProofs PatSemFull PatScanFile PatTrim.
Import ExecProofs.

(* Parsing ANY byte string terminates (fuel = length + 1) with a pattern or an error whose position lies within the input. *)
Theorem C11_parse_total : forall input,
  exists r, parse input = Ok r /\ match r with inl (_, pos) => (pos <= length input)%nat | inr _ => True end.
Proof. exact PatternProofs.parse_total. Qed.
Print Assumptions C11_parse_total.

(* one iteration never gives input back and never moves the recorded position itself *)
Theorem C11_parse_step : forall st chr rest st' rest' u, pstep st chr rest = inr (st', rest', u) ->
  (length rest' <= length rest)%nat /\ p_pos st' = p_pos st.
Proof. exact PatternProofs.pstep_spec. Qed.
Print Assumptions C11_parse_step.

(* Executing ANY atom list (parser output or not) at ANY cursor with ANY save array returns a verdict within
   fuel |pat|+1 per invocation: no fault, no panic, no unbounded recursion - for every Scan implementation in which
   a readable byte does not sit at rva 2^32-1 ... *)
Theorem C11_exec_total : forall sc pat, scan_ok sc -> forall cursor save,
  exists ok save', run_exec sc pat cursor save = Ok (ok, save').
Proof. exact ExecProofs.run_exec_total. Qed.
Print Assumptions C11_exec_total.

(* ... which holds for every file or mapped view over a buffer shorter than 4 GiB *)
Theorem C11_view_exec_total : forall v pat cursor save, ViewsProofs.view_ok v -> v_len v < W32 ->
  exists ok save', view_exec v pat cursor save = Ok (ok, save').
Proof. exact ExecProofs.view_exec_total. Qed.
Print Assumptions C11_view_exec_total.

(* the program counter of the interpreter never moves backwards (the termination measure) *)
Theorem C11_exec_pc_monotone : forall sc pat, scan_ok sc -> forall fuel pc cur mask ext save,
  (S (length pat - pc) <= fuel)%nat -> good pc (exec sc pat fuel pc cur mask ext save).
Proof. exact ExecProofs.exec_good. Qed.
Print Assumptions C11_exec_pc_monotone.

(* the advertised save length covers every slot any atom of the pattern can write *)
Theorem C11_save_len_covers : forall pat a s, In a pat -> atom_slot a = Some s -> s + 1 <= save_len pat.
Proof. exact ExecProofs.save_len_ge. Qed.
Print Assumptions C11_save_len_covers.
Theorem C11_save_array_length : forall save s v, length (set_slot save s v) = length save.
Proof. exact ExecProofs.set_slot_length. Qed.
Print Assumptions C11_save_array_length.

(* defects repaired in /repo, as facts about the code as it stood *)
Theorem C11_F10_depth_exceeds_u8 :
  exists st rest, pstep {| p_res := [Save 0; Jump4]; p_save := 1; p_depth := 255; p_subs := []; p_pos := 0; p_barrier := 0 |} 123 [] = inr (st, rest, true) /\ p_depth st = 256.
Proof. exact PatternProofs.depth_exceeds_u8. Qed.
Print Assumptions C11_F10_depth_exceeds_u8.
Theorem C11_F11_aligned_shift_overflow :
  parse [48; 48; 64; 122; 48; 48] = Ok (inr [Save 0; Byte 0; Aligned 35; Byte 0]) /\ 32 <= 35.
Proof. exact ExecProofs.aligned_shift_overflow. Qed.
Print Assumptions C11_F11_aligned_shift_overflow.

Example C11_nonvacuous :
  parse [66;57;39;63;63;32;54;56;63;63;63;63;32;69;56;36;123;39;125;32;56;66]
  = Ok (inr [Save 0; Byte 185; Save 1; Skip 2; Byte 104; Skip 4; Byte 232; Push 4; Jump4; Save 2; Pop; Byte 139]).
Proof. vm_compute. reflexivity. Qed.

(* Theorem 2 on the fragment without braces and alternatives: the parser inverts the printer of the documented syntax.
   [show] prints an AST (Spec/PatSyntax.v) in the canonical spelling, [compile] is the intended compiler, [wf] bounds the
   numbers (bytes < 256, skips < 16384, a < b, at most 254 captures, @0..@Z, no double quote inside a string). *)
Theorem C11_parse_show_compile_flat : forall a, flat a = true -> wf a -> parse (show a) = Ok (inr (compile a)).
Proof. exact PatSyntaxProofs.parse_show_compile_flat. Qed.
Print Assumptions C11_parse_show_compile_flat.

(* Theorem 2 in full: braces after jumps and parenthesised alternatives (nested to any depth) included. [wf] adds that
   every Case/Break offset of a group fits a byte (alt_ok) - beyond that the real parser answers SubOverflow. *)
Theorem C11_parse_show_compile : forall a, wf a -> parse (show a) = Ok (inr (compile a)).
Proof. exact PatSyntaxProofs.parse_show_compile. Qed.
Print Assumptions C11_parse_show_compile.

(* the documented reading "[n] is n consecutive question marks", for the compiler: n question marks after a skip of k
   bytes make one skip of k + n bytes, up to 255 *)
Theorem C11_wild_run : forall n c k, last_atom (c_res c) = Some (Skip k) -> c_closed c = false -> 0 < k -> (N.to_nat k + n <= 255)%nat ->
  c_res (Nat.iter n wild1 c) = set_last (c_res c) (Skip (k + N.of_nat n)).
Proof. exact PatSyntaxProofs.wild_run. Qed.
Print Assumptions C11_wild_run.

Example C11_syntax_nonvacuous :
  let a := [IByte 0x83; IAlt [IByte 0x6a; IWild 1] [[IByte 0x68; IWild 4]; [ISub J4 [ISave; IRange 2 300]]]; IWild 2; IByte 0xe8; IRead RI8; IWild 3] in
  wf a /\ compile a = [Save 0; Byte 0x83; Case 3; Byte 0x6a; Skip 1; Break 12; Case 3; Byte 0x68; Skip 4; Break 8; Nop; Push 4; Jump4; Save 1; Skip 2;
                       Rangext 1; Many 42; Pop; Skip 2; Byte 0xe8; ReadI8 2].
Proof. exact PatSyntaxProofs.syntax_nonvacuous. Qed.

(* Theorem 3a: compiler correctness of the pattern VM on the fragment without braces and alternatives. [den_top]
   (Spec/PatSem.v) is the structural meaning of the AST: Some log = the layout at the cursor satisfies the pattern, with the
   captures in order of appearance. Scanner::exec on the compiled pattern returns true exactly then, and the save array it
   leaves is the given one with the captures of the log stored (slots beyond the array dropped) - range skips [a-b]
   (retry loop, first-byte peeking) included. [scan_wf]: byte reads give bytes, a readable byte is not at rva 2^32-1,
   pointers translate to u32 rvas, the slice at a cursor shows the same bytes as byte reads. [ends_solid]: the last item
   constrains something (the parser trims trailing skips, C11_exec_comp_den_flat is the statement without trimming). *)
Theorem C11_exec_compile_den_flat : forall sc a cursor save,
  scan_wf sc -> flat a = true -> wf a -> ends_solid a = true -> cursor < W32 ->
  exists ok save', run_exec sc (compile a) cursor save = Ok (ok, save') /\
    match den_top sc a cursor with
    | Some lg => ok = true /\ save' = apply_log lg save
    | None => ok = false
    end.
Proof. exact PatSemProofs.exec_compile_den_flat. Qed.
Print Assumptions C11_exec_compile_den_flat.

Theorem C11_exec_comp_den_flat : forall sc a cursor save, scan_wf sc -> flat a = true -> wf a -> cursor < W32 ->
  exists ok save', run_exec sc (c_res (comp_seq a cinit)) cursor save = Ok (ok, save') /\
    match den_top sc a cursor with
    | Some lg => ok = true /\ save' = apply_log lg save
    | None => ok = false
    end.
Proof. exact PatSemProofs.exec_comp_den_flat. Qed.
Print Assumptions C11_exec_comp_den_flat.

(* a pattern whose last item constrains something is compiled without trimming *)
Theorem C11_compile_solid : forall a, ends_solid a = true -> compile a = c_res (comp_seq a cinit).
Proof. exact PatSemProofs.compile_solid. Qed.
Print Assumptions C11_compile_solid.

(* the hypotheses on the Scan implementation are satisfiable: any byte list below 4 GiB as one flat section *)
Theorem C11_scan_wf_satisfiable : forall mem base, Forall (fun b => b < 256) mem -> base + lenN mem < W32 ->
  scan_wf (PatSemProofs.list_scan mem base).
Proof. exact PatSemProofs.list_scan_wf. Qed.
Print Assumptions C11_scan_wf_satisfiable.

(* ... and hold for every mapped view (PeView) over a buffer of bytes shorter than 4 GiB; so theorem 3a speaks about
   Scanner::exec on such a view *)
Theorem C11_mapped_view_scan_wf : forall v, ViewsProofs.view_ok v -> v_file v = false -> v_len v < W32 -> (forall o, v_get v o < 256) ->
  scan_wf (scan_of_view v).
Proof. exact PatSemProofs.mapped_view_scan_wf. Qed.
Print Assumptions C11_mapped_view_scan_wf.
Theorem C11_view_exec_compile_den_flat : forall v a cursor save,
  ViewsProofs.view_ok v -> v_file v = false -> v_len v < W32 -> (forall o, v_get v o < 256) ->
  flat a = true -> wf a -> ends_solid a = true -> cursor < W32 ->
  exists ok save', view_exec v (compile a) cursor save = Ok (ok, save') /\
    match den_top (scan_of_view v) a cursor with
    | Some lg => ok = true /\ save' = apply_log lg save
    | None => ok = false
    end.
Proof. exact PatSemProofs.view_exec_compile_den_flat. Qed.
Print Assumptions C11_view_exec_compile_den_flat.

(* 50 [1-3] ' ff u1 on 50 aa bb ff 07: two bytes are skipped (one is not enough); captures: rva of ff, the value 7 *)
Example C11_sem_nonvacuous :
  let a := [IByte 0x50; IRange 1 3; ISave; IByte 0xff; IRead RU8] in
  let sc := PatSemProofs.list_scan [0x50; 0xaa; 0xbb; 0xff; 0x07] 0x1000 in
  wf a /\ flat a = true /\ ends_solid a = true /\
  den_top sc a 0x1000 = Some [(0, 0x1000); (1, 0x1003); (2, 7)] /\
  run_exec sc (compile a) 0x1000 [0; 0; 0; 9] = Ok (true, [0x1000; 0x1003; 7; 9]) /\
  den_top sc a 0x1001 = None /\ run_exec sc (compile a) 0x1001 [0; 0; 0; 9] = Ok (false, [0x1001; 0; 0; 9]).
Proof. exact PatSemProofs.sem_nonvacuous. Qed.

(* ---------------------------------------------------------------------------------------------------------------------
   Theorem 3b: compiler correctness of the pattern VM for the WHOLE documented syntax - brace sub-patterns after jumps
   (the sub-pattern runs at the jump target and matching resumes at the byte after the jump operand) and parenthesised
   alternatives (tried left to right), nested to any depth. [den_top] (Spec/PatSem.v) is the structural semantics with
   ATOMIC groups; the one place where the implementation departs from it is the decidable known class F34,
   [range_skip_in_last_alternative_with_suffix] (the last alternative of a group is compiled inline, so a range skip in it
   retries against what follows the closing parenthesis). Outside the class: Scanner::exec on the compiled pattern returns
   true exactly when [den_top] returns a log (verdict exact), and then the save array keeps its length and every slot the
   log writes holds the value the log gives it last ([log_ok]; slots the successful path does not write are
   unconstrained, because failed alternatives and failed skip candidates leave their writes behind).
   [untrimmed]: the last compiled atom constrains something (the parser trims trailing skips/returns; C11_exec_comp_den
   is the statement on the untrimmed compiler output, without that hypothesis). *)

(* step 1: the fragment "flat + braces" (no alternatives at any depth; never in the class) *)
Theorem C11_exec_compile_den_sub : forall sc a cursor save,
  scan_wf sc -> noalt a = true -> wf a -> untrimmed a = true -> cursor < W32 ->
  exists ok save', run_exec sc (compile a) cursor save = Ok (ok, save') /\
    match den_top sc a cursor with
    | Some lg => ok = true /\ log_ok lg save save'
    | None => ok = false
    end.
Proof. exact PatSemFull.exec_compile_den_sub. Qed.
Print Assumptions C11_exec_compile_den_sub.

(* step 2: the whole syntax outside the known class *)
Theorem C11_exec_compile_den : forall sc a cursor save,
  scan_wf sc -> wf a -> range_skip_in_last_alternative_with_suffix a = false -> untrimmed a = true -> cursor < W32 ->
  exists ok save', run_exec sc (compile a) cursor save = Ok (ok, save') /\
    match den_top sc a cursor with
    | Some lg => ok = true /\ log_ok lg save save'
    | None => ok = false
    end.
Proof. exact PatSemFull.exec_compile_den. Qed.
Print Assumptions C11_exec_compile_den.

Theorem C11_exec_comp_den : forall sc a cursor save,
  scan_wf sc -> wf a -> range_skip_in_last_alternative_with_suffix a = false -> cursor < W32 ->
  exists ok save', run_exec sc (c_res (comp_seq a cinit)) cursor save = Ok (ok, save') /\
    match den_top sc a cursor with
    | Some lg => ok = true /\ log_ok lg save save'
    | None => ok = false
    end.
Proof. exact PatSemFull.exec_comp_den. Qed.
Print Assumptions C11_exec_comp_den.

Theorem C11_compile_untrimmed : forall a, untrimmed a = true -> compile a = c_res (comp_seq a cinit).
Proof. exact PatSemFull.compile_untrimmed. Qed.
Print Assumptions C11_compile_untrimmed.

(* a pattern without alternatives is never in the class *)
Theorem C11_noalt_outside_class : forall a, noalt a = true -> range_skip_in_last_alternative_with_suffix a = false.
Proof. exact PatSemFull.noalt_f34. Qed.
Print Assumptions C11_noalt_outside_class.

(* ... for Scanner::exec on a mapped view (PeView) *)
Theorem C11_view_exec_compile_den : forall v a cursor save,
  ViewsProofs.view_ok v -> v_file v = false -> v_len v < W32 -> (forall o, v_get v o < 256) ->
  wf a -> range_skip_in_last_alternative_with_suffix a = false -> untrimmed a = true -> cursor < W32 ->
  exists ok save', view_exec v (compile a) cursor save = Ok (ok, save') /\
    match den_top (scan_of_view v) a cursor with
    | Some lg => ok = true /\ log_ok lg save save'
    | None => ok = false
    end.
Proof. exact PatSemFull.view_exec_compile_den. Qed.
Print Assumptions C11_view_exec_compile_den.

(* F34, the known class: ( 11 | 22 [0-4] 33 ) 44 on the bytes 22 33 33 44. The pattern is in the class, the structural
   semantics rejects the layout (22 33 matches the second alternative on its own with no byte skipped, then 33 is not 44)
   and Scanner::exec accepts it (the inline range skip is retried with one byte skipped against "33 ) 44"). With the two
   alternatives swapped the pattern is outside the class and both reject. *)
Theorem C11_F34_known_class_witness :
  let a := [IAlt [IByte 0x11] [[IByte 0x22; IRange 0 4; IByte 0x33]]; IByte 0x44] in
  let a' := [IAlt [IByte 0x22; IRange 0 4; IByte 0x33] [[IByte 0x11]]; IByte 0x44] in
  let sc := PatSemProofs.list_scan [0x22; 0x33; 0x33; 0x44] 0x1000 in
  wf a /\ untrimmed a = true /\ range_skip_in_last_alternative_with_suffix a = true /\
  den_top sc a 0x1000 = None /\ run_exec sc (compile a) 0x1000 [0] = Ok (true, [0x1000]) /\
  wf a' /\ range_skip_in_last_alternative_with_suffix a' = false /\
  den_top sc a' 0x1000 = None /\ run_exec sc (compile a') 0x1000 [0] = Ok (false, [0x1000]).
Proof. exact PatSemFull.F34_witness. Qed.
Print Assumptions C11_F34_known_class_witness.

(* e8 ${ ' ( 6a ? | 68 ' [1-3] c3 ) } 90: the jump lands on 68, the second alternative matches with two bytes skipped,
   matching resumes after the operand on 90; captures: the target, the byte after 68 *)
Example C11_sem_full_nonvacuous :
  let a := [IByte 0xe8; ISub J4 [ISave; IAlt [IByte 0x6a; IWild 1] [[IByte 0x68; ISave; IRange 1 3; IByte 0xc3]]]; IByte 0x90] in
  let sc := PatSemProofs.list_scan [0xe8; 0x02; 0; 0; 0; 0x90; 0xcc; 0x68; 0xaa; 0xbb; 0xc3] 0x1000 in
  wf a /\ untrimmed a = true /\ range_skip_in_last_alternative_with_suffix a = false /\
  den_top sc a 0x1000 = Some [(0, 0x1000); (1, 0x1007); (2, 0x1008)] /\
  run_exec sc (compile a) 0x1000 [0; 0; 0; 9] = Ok (true, [0x1000; 0x1007; 0x1008; 9]) /\
  den_top sc a 0x1001 = None /\ (exists s, run_exec sc (compile a) 0x1001 [0; 0; 0; 9] = Ok (false, s)).
Proof. exact PatSemFull.sem_full_nonvacuous. Qed.

(* ... and on a FILE view (PeFile) whose sections do not overlap in their virtual extents ([sections_disjoint], a decidable
   condition on the section table: exec_many peeks into the slice of the first section containing the cursor, while the
   byte match at cursor+i looks the section up again): scan_wf holds, so theorems 3a and 3b speak about Scanner::exec there *)
Theorem C11_file_view_scan_wf : forall v, ViewsProofs.view_ok v -> v_file v = true -> v_len v < W32 -> (forall o, v_get v o < 256) ->
  PatScanFile.sections_disjoint v = true -> scan_wf (scan_of_view v).
Proof. exact PatScanFile.file_view_scan_wf. Qed.
Print Assumptions C11_file_view_scan_wf.
Theorem C11_file_view_exec_compile_den : forall v a cursor save,
  ViewsProofs.view_ok v -> v_file v = true -> v_len v < W32 -> (forall o, v_get v o < 256) -> PatScanFile.sections_disjoint v = true ->
  wf a -> range_skip_in_last_alternative_with_suffix a = false -> untrimmed a = true -> cursor < W32 ->
  exists ok save', view_exec v (compile a) cursor save = Ok (ok, save') /\
    match den_top (scan_of_view v) a cursor with
    | Some lg => ok = true /\ log_ok lg save save'
    | None => ok = false
    end.
Proof. exact PatScanFile.file_view_exec_compile_den. Qed.
Print Assumptions C11_file_view_exec_compile_den.
Theorem C11_file_view_exec_compile_den_flat : forall v a cursor save,
  ViewsProofs.view_ok v -> v_file v = true -> v_len v < W32 -> (forall o, v_get v o < 256) -> PatScanFile.sections_disjoint v = true ->
  flat a = true -> wf a -> ends_solid a = true -> cursor < W32 ->
  exists ok save', view_exec v (compile a) cursor save = Ok (ok, save') /\
    match den_top (scan_of_view v) a cursor with
    | Some lg => ok = true /\ save' = apply_log lg save
    | None => ok = false
    end.
Proof. exact PatScanFile.file_view_exec_compile_den_flat. Qed.
Print Assumptions C11_file_view_exec_compile_den_flat.

(* The parser trims a trailing Pop (a pattern that ends in a closing brace). Scanner::exec does not see the difference - the
   invocation that would return at the Pop returns at the end of the pattern instead - so theorem 3b also holds for patterns
   whose compiled form loses nothing but the returns of closing braces ([trims_only_braces], implied by [untrimmed]).
   What remains excluded are patterns ending in a skip or a range skip (also inside a final brace): the parser drops those
   atoms, while [den] requires a trailing range skip to be readable - there the pattern says less than it is written. *)
Theorem C11_run_exec_trailing_pop : forall sc, ExecProofs.scan_ok sc -> forall pat cursor save,
  run_exec sc (pat ++ [Pop]) cursor save = run_exec sc pat cursor save.
Proof. exact PatTrim.run_exec_trail_pop. Qed.
Print Assumptions C11_run_exec_trailing_pop.
Theorem C11_exec_compile_den_braces : forall sc a cursor save,
  scan_wf sc -> wf a -> range_skip_in_last_alternative_with_suffix a = false -> trims_only_braces a = true -> cursor < W32 ->
  exists ok save', run_exec sc (compile a) cursor save = Ok (ok, save') /\
    match den_top sc a cursor with
    | Some lg => ok = true /\ log_ok lg save save'
    | None => ok = false
    end.
Proof. exact PatTrim.exec_compile_den_braces. Qed.
Print Assumptions C11_exec_compile_den_braces.
Theorem C11_untrimmed_braces : forall a, untrimmed a = true -> trims_only_braces a = true.
Proof. exact PatTrim.untrimmed_braces. Qed.
Print Assumptions C11_untrimmed_braces.

(* ---------------------------------------------------------------------------------------------------------------
   F40 (repaired, repo 91e76e1): braces are balanced inside every alternative.  At '|' and ')' the parser now compares
   the brace depth with the depth at the '(' of the group and reports StackError when they differ; before, it reset the
   depth silently and accepted e.g. "(%{|?)01", whose Push resumes behind the group ([parse_orig] = the parser as it stood). *)
From PV.Spec Require WorkSpec.
From PV.Proofs Require PatNestProofs.
Theorem C11_F40_parse_orig_unbalanced_refuted :
  parse_orig [40; 37; 123; 124; 63; 41; 48; 49] = Ok (inr [Save 0; Case 3; Push 1; Jump1; Break 2; Nop; Skip 1; Byte 1]) /\
  WorkSpec.cases_nested [Save 0; Case 3; Push 1; Jump1; Break 2; Nop; Skip 1; Byte 1] = false /\
  parse [40; 37; 123; 124; 63; 41; 48; 49] = Ok (inl (StackError, 3%nat)) /\
  parse [40; 37; 123; 63; 41] = Ok (inl (StackError, 4%nat)) /\
  parse [37; 123; 40; 48; 49; 125; 124; 63; 41] = Ok (inl (StackError, 5%nat)).      (* since F43: at the '}' already, not at the '|' *)
Proof. exact PatNestProofs.parse_orig_unbalanced_refuted. Qed.
Print Assumptions C11_F40_parse_orig_unbalanced_refuted.

(* Every pattern the parser accepts - ANY byte string, not only the spellings of well-formed ASTs - passes the static
   nesting check of Spec/WorkSpec.v: an invocation of the interpreter started right behind a Case atom can only fail
   inside the block of that Case (C03_exec_nesting_check_sound), so the work bound with one factor per skip range and
   none per Case (C03_exec_work_nested) applies to every accepted pattern string. *)
Theorem C11_parse_output_nested : forall s p, parse s = Ok (inr p) -> WorkSpec.cases_nested p = true.
Proof. exact PatNestProofs.parse_nested. Qed.
Print Assumptions C11_parse_output_nested.
Theorem C11_compile_nested : forall a, wf a -> WorkSpec.cases_nested (compile a) = true.
Proof. exact PatNestProofs.compile_nested. Qed.
Print Assumptions C11_compile_nested.
(* not vacuous: "(%{01}|?)02".  The two neighbouring shapes that were still accepted when this was written - a '}' inside a
   group that closes a brace opened before it ("%{(01}%{|02)}03", F43) and a '{' right behind a ')' ("(01|%){02}03", F42) -
   are rejected since the two repairs (see the end of this file); [parse_orig42] = the parser as it stood accepted them *)
Example C11_parse_output_nested_nonvacuous :
  parse [40; 37; 123; 48; 49; 125; 124; 63; 41; 48; 50] = Ok (inr [Save 0; Case 5; Push 1; Jump1; Byte 1; Pop; Break 2; Nop; Skip 1; Byte 2]) /\
  (exists p, parse_orig42 [37; 123; 40; 48; 49; 125; 37; 123; 124; 48; 50; 41; 125; 48; 51] = Ok (inr p) /\ WorkSpec.cases_nested p = true) /\
  (exists p, parse_orig42 [40; 48; 49; 124; 37; 41; 123; 48; 50; 125; 48; 51] = Ok (inr p) /\ WorkSpec.cases_nested p = true) /\
  parse [37; 123; 40; 48; 49; 125; 37; 123; 124; 48; 50; 41; 125; 48; 51] = Ok (inl (StackError, 5%nat)) /\
  parse [40; 48; 49; 124; 37; 41; 123; 48; 50; 125; 48; 51] = Ok (inl (StackInvalid, 6%nat)).
Proof. exact PatNestProofs.parse_nested_nonvacuous. Qed.

(* ---------------------------------------------------------------------------------------------------------------
   The converse: every string the parser ACCEPTS is in the documented grammar and means its AST.
   [read_pat] (Spec/PatRead.v) is an independent reader of the documented concrete syntax - a lexer and a
   recursive-descent recogniser that share nothing with the model of the parser - from the bytes of a pattern string to
   the AST of Spec/PatSyntax.v.  It is also the oracle of the correspondence check for every string the real parser
   accepts ([accepted_ok]) or rejects ([documented]).

   F42 / F43 (repaired, repo cc9193c and a8f7b6c; [parse_orig42] = the parser as it stood): the '{' arm looked at the
   last atom only, so a '{' directly behind ')' rewrote the jump that ends the LAST alternative into Push, Jump after the
   Break offsets were patched, and a '{' directly behind '{' rewrote the same jump twice; the '}' arm compared the depth
   with zero, so an alternative could close a brace that was opened before its group.  Those strings are not in the
   grammar ([read_pat] = None), and the first one matched bytes the pattern never looked at. *)
From PV.Spec Require Import PatRead.
From PV.Proofs Require PatReadProofs.
Theorem C11_F42_brace_after_group_orig_refuted :
  let s := [40; 48; 49; 124; 37; 41; 123; 48; 50; 125; 48; 51] in                 (* (01|%){02}03 *)
  let p := [Save 0; Case 2; Byte 1; Break 2; Nop; Push 1; Jump1; Byte 2; Pop; Byte 3] in
  parse_orig42 s = Ok (inr p) /\ read_pat s = None /\
  run_exec (PatSemProofs.list_scan [0x01; 0x00; 0x02; 0x99] 0x1000) p 0x1000 [0] = Ok (true, [0x1000]) /\
  parse s = Ok (inl (StackInvalid, 6%nat)) /\
  let s2 := [37; 123; 123; 48; 49; 125; 125; 48; 50] in                           (* %{{01}}02 *)
  parse_orig42 s2 = Ok (inr [Save 0; Push 1; Push 1; Jump1; Byte 1; Pop; Pop; Byte 2]) /\ read_pat s2 = None /\
  parse s2 = Ok (inl (StackInvalid, 2%nat)).
Proof. exact PatReadProofs.F42_brace_after_group_orig_refuted. Qed.
Print Assumptions C11_F42_brace_after_group_orig_refuted.
Theorem C11_F43_brace_closed_across_group_orig_refuted :
  let s := [37; 123; 40; 48; 49; 125; 37; 123; 124; 48; 50; 41; 125; 48; 51] in   (* %{(01}%{|02)}03 *)
  parse_orig42 s = Ok (inr [Save 0; Push 1; Jump1; Case 5; Byte 1; Pop; Push 1; Jump1; Break 2; Nop; Byte 2; Pop; Byte 3]) /\
  read_pat s = None /\ parse s = Ok (inl (StackError, 5%nat)).
Proof. exact PatReadProofs.F43_brace_closed_across_group_orig_refuted. Qed.
Print Assumptions C11_F43_brace_closed_across_group_orig_refuted.

(* [wfb] decides [wf]; the oracle [accepted_ok s atoms] of the correspondence check answers true exactly when the string is
   in the grammar, its AST is well-formed and compiles to the atoms *)
Theorem C11_wfb_decides_wf : forall a, wfb a = true <-> wf a.
Proof. exact PatReadProofs.wfb_spec. Qed.
Print Assumptions C11_wfb_decides_wf.
Theorem C11_accepted_ok_spec : forall s atoms, accepted_ok s atoms = true <-> exists a, read_pat s = Some a /\ wf a /\ compile a = atoms.
Proof. exact PatReadProofs.accepted_ok_spec. Qed.
Print Assumptions C11_accepted_ok_spec.

(* not vacuous: strings of the grammar in a spelling the printer never produces -  *""<tab>[00]<lf>{"hi"00}()(|)@zi1u4z'
   (reading decision R1: whitespace and items that denote nothing between a jump and its brace), (%{01}|?)02,
   ${%{${%{}}}}, (01|% {02})03 - are read, well-formed, accepted by the repaired parser and compiled as their AST says *)
Example C11_reader_nonvacuous :
  Forall (fun s => exists a p, read_pat s = Some a /\ wfb a = true /\ parse s = Ok (inr p) /\ p = compile a)
    [ [42; 34; 34; 9; 91; 48; 48; 93; 10; 123; 34; 104; 105; 34; 48; 48; 125; 40; 41; 40; 124; 41; 64; 122; 105; 49; 117; 52; 122; 39];
      [40; 37; 123; 48; 49; 125; 124; 63; 41; 48; 50];
      [36; 123; 37; 123; 36; 123; 37; 123; 125; 125; 125; 125];
      [40; 48; 49; 124; 37; 32; 123; 48; 50; 125; 41; 48; 51] ].
Proof. exact PatReadProofs.accepted_nonvacuous. Qed.

(* (a) The reader inverts the printer: the canonical spelling of a well-formed AST is read back as that AST.  An empty run
   of question marks prints as nothing, so it cannot be read back (it compiles to nothing): [no_empty_wild]. *)
Theorem C11_read_show : forall a, wf a -> no_empty_wild a = true -> read_pat (show a) = Some a.
Proof. exact PatReadProofs.read_show. Qed.
Print Assumptions C11_read_show.
Theorem C11_read_show_empty_wild_refuted :
  wf [IByte 1; IWild 0; IByte 2] /\ read_pat (show [IByte 1; IWild 0; IByte 2]) = Some [IByte 1; IByte 2].
Proof. exact PatReadProofs.read_show_empty_wild_refuted. Qed.
Print Assumptions C11_read_show_empty_wild_refuted.

(* (b) THE CONVERSE OF THEOREM 2.  Every string of bytes the (repaired) parser accepts - in any spelling: hex digits of
   either case, whitespace of every kind or none, leading zeros, "" and [0] between a jump and its brace - is in the
   documented grammar, its AST is well-formed, and the pattern the parser produced is what the intended compiler makes of
   that AST.  So "for every well-formed pattern string" in theorem 3 covers every accepted string. *)
From PV.Proofs Require PatConverse.
Theorem C11_parse_accepts_grammar : forall s p, Forall (fun ch => ch < 256) s -> parse s = Ok (inr p) ->
  exists a, read_pat s = Some a /\ wf a /\ p = compile a.
Proof. exact PatConverse.parse_accepts_grammar. Qed.
Print Assumptions C11_parse_accepts_grammar.

(* (c) Theorem 2 for EVERY spelling, not only the printer's: a string of the grammar whose AST is well-formed is accepted
   and compiled as its AST says *)
Theorem C11_parse_read_compile : forall s a, read_pat s = Some a -> wf a -> parse s = Ok (inr (compile a)).
Proof. exact PatConverse.parse_read_compile. Qed.
Print Assumptions C11_parse_read_compile.

(* (b) and (c): the parser accepts exactly the well-formed strings of the documented grammar *)
Theorem C11_parse_iff_grammar : forall s p, Forall (fun ch => ch < 256) s ->
  (parse s = Ok (inr p) <-> exists a, read_pat s = Some a /\ wf a /\ p = compile a).
Proof. exact PatConverse.parse_iff_grammar. Qed.
Print Assumptions C11_parse_iff_grammar.

(* (b) + theorem 3b: what an accepted string MEANS.  For every string the parser accepts the reader finds a well-formed AST,
   and - outside the known class F34, when nothing but returns of closing braces is trimmed - Scanner::exec on the parsed
   pattern returns true exactly when the structural semantics of that AST returns a log, with the captures of the log *)
Theorem C11_accepted_string_means_ast : forall sc s p cursor save, Forall (fun ch => ch < 256) s -> parse s = Ok (inr p) ->
  exists a, read_pat s = Some a /\ wf a /\ p = compile a /\
    (scan_wf sc -> range_skip_in_last_alternative_with_suffix a = false -> trims_only_braces a = true -> cursor < W32 ->
     exists ok save', run_exec sc p cursor save = Ok (ok, save') /\
       match den_top sc a cursor with
       | Some lg => ok = true /\ log_ok lg save save'
       | None => ok = false
       end).
Proof. exact PatConverse.accepted_string_means_ast. Qed.
Print Assumptions C11_accepted_string_means_ast.

(* every iteration of the parser loop is one token of the independent lexer: it succeeds exactly when the item's limit holds
   (skips < 16384, a < b, fewer than 255 captures), consumes exactly the token, appends the item's atoms and takes its slot *)
Theorem C11_iteration_is_one_token : forall st c t it r, lex1 (c :: t) = Some (TItem it, r) -> c <> 63 ->
  exists st1 u, PatConverse.eff st st1 (PatConverse.item_atoms it (p_save st)) (PatConverse.item_slots it) /\
    if PatConverse.item_condb it (p_save st) then pstep st c t = inr (st1, r, u) else exists e, pstep st c t = inl e.
Proof. exact PatConverse.pstep_of_lex1. Qed.
Print Assumptions C11_iteration_is_one_token.
Theorem C11_no_token_no_iteration : forall st c t, is_ws c = false -> lex1 (c :: t) = None -> exists e, pstep st c t = inl e.
Proof. exact PatConverse.pstep_lex1_none. Qed.
Print Assumptions C11_no_token_no_iteration.
