(* C11 — Pattern strings mean what the syntax documentation says.
   Statements only; every proof is [exact <lemma>].  Open statements are listed at the end. *)
From PV.Model Require Import Machine Mapping Views Pattern Exec ScanView.
From PV.Proofs Require PatternProofs ExecProofs ViewsProofs.
Import ExecProofs.

(* Parsing ANY byte string terminates (fuel = length + 1) with a pattern or an error whose position lies within the input. *)
Theorem C11_parse_total : forall input,
  exists r, parse input = Ok r /\ match r with inl (_, pos) => (pos <= length input)%nat | inr _ => True end.
Proof. exact PatternProofs.parse_total. Qed.
Print Assumptions C11_parse_total.

(* one iteration never gives input back and never moves the recorded position itself *)
Theorem C11_parse_step : forall st chr rest st' rest' u, pstep st chr rest = inr (st', rest', u) ->
  (length rest' <= length rest)%nat /\ p_pos st' = p_pos st.
Proof. exact PatternProofs.pstep_spec. Qed.
Print Assumptions C11_parse_step.

(* Executing ANY atom list (parser output or not) at ANY cursor with ANY save array returns a verdict within
   fuel |pat|+1 per invocation: no fault, no panic, no unbounded recursion - for every Scan implementation in which
   a readable byte does not sit at rva 2^32-1 ... *)
Theorem C11_exec_total : forall sc pat, scan_ok sc -> forall cursor save,
  exists ok save', run_exec sc pat cursor save = Ok (ok, save').
Proof. exact ExecProofs.run_exec_total. Qed.
Print Assumptions C11_exec_total.

(* ... which holds for every file or mapped view over a buffer shorter than 4 GiB *)
Theorem C11_view_exec_total : forall v pat cursor save, ViewsProofs.view_ok v -> v_len v < W32 ->
  exists ok save', view_exec v pat cursor save = Ok (ok, save').
Proof. exact ExecProofs.view_exec_total. Qed.
Print Assumptions C11_view_exec_total.

(* the program counter of the interpreter never moves backwards (the termination measure) *)
Theorem C11_exec_pc_monotone : forall sc pat, scan_ok sc -> forall fuel pc cur mask ext save,
  (S (length pat - pc) <= fuel)%nat -> good pc (exec sc pat fuel pc cur mask ext save).
Proof. exact ExecProofs.exec_good. Qed.
Print Assumptions C11_exec_pc_monotone.

(* the advertised save length covers every slot any atom of the pattern can write *)
Theorem C11_save_len_covers : forall pat a s, In a pat -> atom_slot a = Some s -> s + 1 <= save_len pat.
Proof. exact ExecProofs.save_len_ge. Qed.
Print Assumptions C11_save_len_covers.
Theorem C11_save_array_length : forall save s v, length (set_slot save s v) = length save.
Proof. exact ExecProofs.set_slot_length. Qed.
Print Assumptions C11_save_array_length.

(* defects repaired in /repo, as facts about the code as it stood *)
Theorem C11_F10_depth_exceeds_u8 :
  exists st rest, pstep {| p_res := [Save 0; Jump4]; p_save := 1; p_depth := 255; p_subs := []; p_pos := 0; p_barrier := 0 |} 123 [] = inr (st, rest, true) /\ p_depth st = 256.
Proof. exact PatternProofs.depth_exceeds_u8. Qed.
Print Assumptions C11_F10_depth_exceeds_u8.
Theorem C11_F11_aligned_shift_overflow :
  parse [48; 48; 64; 122; 48; 48] = Ok (inr [Save 0; Byte 0; Aligned 35; Byte 0]) /\ 32 <= 35.
Proof. exact ExecProofs.aligned_shift_overflow. Qed.
Print Assumptions C11_F11_aligned_shift_overflow.

Example C11_nonvacuous :
  parse [66;57;39;63;63;32;54;56;63;63;63;63;32;69;56;36;123;39;125;32;56;66]
  = Ok (inr [Save 0; Byte 185; Save 1; Skip 2; Byte 104; Skip 4; Byte 232; Push 4; Jump4; Save 2; Pop; Byte 139]).
Proof. vm_compute. reflexivity. Qed.

(* OPEN: C11_parse_show_compile : forall a, wf a -> parse (show a) = Ok (inr (compile a))
   - the parser inverts the printer of the documented syntax (DESIGN.md section 7 C11 theorem 2). Not proved;
   carried by the correspondence check, whose generator prints patterns from an AST of the documented syntax. *)
(* OPEN: C11_exec_compile_den : forall a, wf a -> ~ range_skip_in_last_alternative_with_suffix a ->
   forall scan c sigma, exec (compile a) scan c sigma = den a scan c sigma
   - compiler correctness of the backtracking VM against a structural semantics (theorem 3). Not proved; the
   harness's layout synthesiser plays the role of den as a TEST oracle (expected verdict and captures). *)
