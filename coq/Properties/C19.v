(* C19 — Format-agnostic wrappers and JSON serialization mirror the format-specific API.
   Statements only; every proof is [exact <lemma>].

   PARTIAL by nature: serde / serde_json are outside any model.  What is proved, over the executable
   models of the wrapper layer (Model/Wrap.v, Model/WrapDirs.v) and of the serialization
   (Model/Json.v, Model/WrapJson.v):
     first round  - variant selection, the delegation diagrams of the header / slice / derva groups,
                    the computed JSON detail "DataDirectory.Sections" (F24), null-ness of `.ok()` fields;
     second round - every wrapper method with code of its own (the three iterators of Wrap<By>, the
                    transposes, Wrap<Desc>::int, the wrapped iterators) returns what the format-specific
                    method of the held variant returns; an abstract JSON type with the compact printer of
                    serde_json and a parser / validator, parser o printer = identity; the model of
                    serialize_pe: it succeeds on every accepted image, its text is well formed and denotes
                    the model's tree, every member is the value of the model accessor it is built from,
                    an `.ok()` member is null exactly when the accessor errs.
     third round  - the tenth member, `resources` (Model/WrapJsonRes.v): total on any section, bounded by the
                    budget and the depth limit, equal to the declarative value of the tree / of the listing of C12
                    on every section fsck accepts; the oracle on the text with no member dropped (block at the end).
   That the real wrapper code and the real Serialize impls ARE these models is established by the
   correspondence check (the implementation's JSON text is parsed by the extracted parser and compared
   with the model's tree), not by theorem. *)
From Coq Require Import Strings.String.
From PV.Model Require Import JsonStr.
From PV.Model Require Import Machine Mapping Views Headers Wrap WrapDirs Json WrapStrTab WrapJson.
From PV.Model Require Exports Imports Dirs Relocs Rich.
From PV.gen Require Import Layout.
From PV.Spec Require Import HeaderSpec WrapSpec.
From PV.Proofs Require HeadersProofs WrapProofs WrapDirsProofs JsonProofs WrapJsonProofs JsonUtf8Proofs WrapJsonUtf8.

(* ---- variant selection (strengthens C07_wrapper): for ANY buffer the constructor returns
   T64 exactly when the PE32+ parser accepts it, T32 exactly when the PE32 parser accepts it,
   an error exactly when neither does, and never panics ---- *)
Theorem C19_select_64 : forall m, wrap_from_bytes m = Ok T64 <-> exists soi, validate fmt64 m = Ok soi.
Proof. exact WrapProofs.select_64. Qed.
Print Assumptions C19_select_64.

Theorem C19_select_32 : forall m, wrap_from_bytes m = Ok T32 <-> exists soi, validate fmt32 m = Ok soi.
Proof. exact WrapProofs.select_32. Qed.
Print Assumptions C19_select_32.

Theorem C19_select_err : forall m e, wrap_from_bytes m = Err e ->
  (forall soi, validate fmt32 m <> Ok soi) /\ (forall soi, validate fmt64 m <> Ok soi).
Proof. exact WrapProofs.select_err. Qed.
Print Assumptions C19_select_err.

Theorem C19_select_no_fault : forall m, no_fault (wrap_from_bytes m).
Proof. exact WrapProofs.wrap_no_fault. Qed.
Print Assumptions C19_select_no_fault.

(* as a total function of the buffer the constructor is the selection the PE/COFF reading prescribes
   (acceptance conjunction of Spec/HeaderSpec.v with magic 0x20b, else with magic 0x10b, else failure) *)
Theorem C19_select_is_spec : forall m,
  match select_spec m with
  | Some w => wrap_from_bytes m = Ok w
  | None => exists e, wrap_from_bytes m = Err e
  end.
Proof. exact WrapProofs.select_is_spec. Qed.
Print Assumptions C19_select_is_spec.

(* ---- delegation: on the value the constructor returned, every wrapper method (the match on the
   variant) is the operation of the format NAMED BY THE OPTIONAL-HEADER MAGIC, and that format's
   own constructor accepts the buffer ---- *)
Theorem C19_wrapper_mirrors : forall m w, wrap_from_bytes m = Ok w ->
  fmt_by_magic m = Some (fmt_of w) /\
  (exists soi, validate (fmt_of w) m = Ok soi) /\
  forall (A : Type) (op : fmt -> A), dispatch w op = op (fmt_of w).
Proof. exact WrapProofs.wrapper_mirrors. Qed.
Print Assumptions C19_wrapper_mirrors.

(* the list of diagrams for the modelled method groups: header accessors, data directories,
   section headers and lookup, slice / slice_bytes / get_section_bytes, the derva family,
   Headers::{check_sum, code_range, image_range} *)
Theorem C19_delegation_diagrams : forall w file m,
  wrap_accessors w m = op_accessors (fmt_of w) m /\
  wrap_data_directory w m = op_data_directory (fmt_of w) m /\
  wrap_section_headers w m = op_section_headers (fmt_of w) m /\
  (forall rva, wrap_by_rva w m rva = op_by_rva (fmt_of w) m rva) /\
  (forall rva n a, wrap_slice w file m rva n a = op_slice (fmt_of w) file m rva n a) /\
  (forall rva, wrap_slice_bytes w file m rva = op_slice_bytes (fmt_of w) file m rva) /\
  (forall i, wrap_get_section_bytes w file m i = op_get_section_bytes (fmt_of w) file m i) /\
  (forall rva s a, wrap_derva w file m rva s a = op_derva (fmt_of w) file m rva s a) /\
  (forall rva s, wrap_derva_copy w file m rva s = op_derva_copy (fmt_of w) file m rva s) /\
  (forall rva s a n, wrap_derva_slice w file m rva s a n = op_derva_slice (fmt_of w) file m rva s a n) /\
  (forall rva s a x, wrap_derva_slice_s w file m rva s a x = op_derva_slice_s (fmt_of w) file m rva s a x) /\
  (forall rva s a p, wrap_derva_slice_f w file m rva s a p = op_derva_slice_f (fmt_of w) file m rva s a p) /\
  (forall rva, wrap_derva_c_str w file m rva = op_derva_c_str (fmt_of w) file m rva) /\
  wrap_check_sum w m = op_check_sum (fmt_of w) m /\
  wrap_code_range w m = op_code_range (fmt_of w) m /\
  wrap_image_range w m = op_image_range (fmt_of w) m.
Proof. exact WrapProofs.delegation_diagrams. Qed.
Print Assumptions C19_delegation_diagrams.

(* ---- JSON, the computed detail "DataDirectory.Sections": equals entry by entry what the
   accessor SectionHeaders::by_rva returns for dd.VirtualAddress, and never panics ---- *)
Theorem C19_details_eq_accessor : forall f m,
  details_dd_sections f m = Ok (map (fun d => by_rva f m (fst d)) (op_data_directory f m)).
Proof. exact WrapProofs.details_eq_accessor. Qed.
Print Assumptions C19_details_eq_accessor.

Theorem C19_details_no_fault : forall f m, no_fault (details_dd_sections f m).
Proof. exact WrapProofs.details_no_fault. Qed.
Print Assumptions C19_details_no_fault.

(* the extracted oracle accepts an observed table exactly when it is the model's *)
Theorem C19_details_oracle_sound : forall f m obs, details_ok f m obs = true <-> details_dd_sections f m = Ok obs.
Proof. exact WrapProofs.details_oracle_sound. Qed.
Print Assumptions C19_details_oracle_sound.

(* what the F24 repair changes: the code as it stood agrees whenever no section end wraps,
   and panics when a section with VirtualAddress <= rva and VirtualAddress + VirtualSize >= 2^32 is reached *)
Theorem C19_details_orig_agrees : forall secs, Forall (fun s => s_va s + s_vs s < W32) secs ->
  forall idx rva, dd_pos_orig secs idx rva = dd_pos secs idx rva.
Proof. exact WrapProofs.dd_pos_orig_agrees. Qed.
Print Assumptions C19_details_orig_agrees.

Theorem C19_details_orig_faults : forall s rest idx rva,
  s_va s <= rva -> W32 <= s_va s + s_vs s -> dd_pos_orig (s :: rest) idx rva = Fault POverflow.
Proof. exact WrapProofs.dd_pos_orig_faults. Qed.
Print Assumptions C19_details_orig_faults.

(* ---- JSON, the `.ok()` fields of serialize_pe whose accessors are modelled: the accessor never
   panics, and the field is null exactly when the accessor returns an error ---- *)
Theorem C19_ok_fields_no_fault : forall f file m,
  no_fault (acc_exports f file m) /\ no_fault (acc_tls f file m) /\ no_fault (acc_load_config f file m) /\
  no_fault (acc_debug f file m) /\ no_fault (acc_base_relocs f file m) /\ no_fault (acc_security f file m).
Proof. exact WrapProofs.accessors_no_fault. Qed.
Print Assumptions C19_ok_fields_no_fault.

Theorem C19_ok_fields_null_iff_err : forall f file m,
  (json_is_null (acc_exports f file m) = true <-> exists e, acc_exports f file m = Err e) /\
  (json_is_null (acc_tls f file m) = true <-> exists e, acc_tls f file m = Err e) /\
  (json_is_null (acc_load_config f file m) = true <-> exists e, acc_load_config f file m = Err e) /\
  (json_is_null (acc_debug f file m) = true <-> exists e, acc_debug f file m = Err e) /\
  (json_is_null (acc_base_relocs f file m) = true <-> exists e, acc_base_relocs f file m = Err e) /\
  (json_is_null (acc_security f file m) = true <-> exists e, acc_security f file m = Err e).
Proof. exact WrapProofs.ok_fields_null_iff_err. Qed.
Print Assumptions C19_ok_fields_null_iff_err.

(* ---- defects repaired in /repo, as theorems about the code as it stood ---- *)
(* F24: an accepted PE32 image with one section at 0xFFFFF000 of size 0x2000 and a data directory
   pointing at it: the detail table of the code as it stood panics (add overflow) *)
Theorem C19_F24_details_orig_refuted :
  wrap_from_bytes WrapProofs.f24_mem = Ok T32 /\
  details_dd_sections_orig fmt32 WrapProofs.f24_mem = Fault POverflow /\
  details_dd_sections fmt32 WrapProofs.f24_mem = Ok (None :: repeat None 15).
Proof. exact WrapProofs.f24_details_orig_refuted. Qed.
Print Assumptions C19_F24_details_orig_refuted.

(* F8 (reached through serialize_pe): security directory at 0xFFFFFFF8 of size 8 *)
Theorem C19_F8_security_orig_refuted :
  acc_security_orig fmt32 true WrapProofs.f24_mem = Fault POverflow /\ acc_security fmt32 true WrapProofs.f24_mem = Err EBounds.
Proof. exact WrapProofs.f8_security_orig_refuted. Qed.
Print Assumptions C19_F8_security_orig_refuted.

(* ================================================================================================
   SECOND ROUND: the rest of the wrapper layer
   ================================================================================================ *)

(* ---- the generic items of wrap/mod.rs: `impl Iterator for Wrap` run to exhaustion yields the items of the
   held iterator tagged with the variant; transpose and into ---- *)
Theorem C19_wrap_iterator : forall (A : Type) w (l : list A),
  wcollect (tag w l) = map (tag w) l /\ map winto (map (tag w) l) = l.
Proof. exact @WrapDirsProofs.wrap_iterator. Qed.
Print Assumptions C19_wrap_iterator.

Theorem C19_wrap_transpose : forall (A : Type) w (r : res A), wtranspose (tag w r) = (x <- r ;; Ok (tag w x)).
Proof. exact @WrapDirsProofs.wtranspose_tag. Qed.
Print Assumptions C19_wrap_transpose.

(* ---- Wrap<By> (wrap/exports.rs): the delegating methods, for any By value ---- *)
Theorem C19_by_delegates : forall w cstr t,
  wby_functions w t = Exports.t_funcs t /\ wby_names w t = Exports.t_names t /\ wby_name_indices w t = Exports.t_idxs t /\
  (forall rva, wby_symbol_from_rva w cstr t rva = Exports.symbol_from_rva (cstr (fmt_of w)) t rva) /\
  (forall h, wby_name_of_hint w cstr t h = Exports.name_of_hint (cstr (fmt_of w)) t h) /\
  (forall h, wby_hint w cstr t h = Exports.hint (cstr (fmt_of w)) t h) /\
  (forall i, wby_index w cstr t i = Exports.index (cstr (fmt_of w)) t i) /\
  (forall o, wby_ordinal w cstr t o = Exports.ordinal (cstr (fmt_of w)) t o) /\
  (forall n, wby_name w cstr t n = Exports.name (cstr (fmt_of w)) t n) /\
  (forall n, wby_name_linear w cstr t n = Exports.name_linear (cstr (fmt_of w)) t n) /\
  (forall h n, wby_hint_name w cstr t h n = Exports.hint_name (cstr (fmt_of w)) t h n) /\
  (forall i, wby_import w cstr t i = Exports.import_ (cstr (fmt_of w)) t i) /\
  (forall i, wby_name_lookup w cstr t i = Exports.name_lookup (cstr (fmt_of w)) t i) /\
  wby_check_sorted w cstr t = Exports.check_sorted (cstr (fmt_of w)) t.
Proof. exact WrapDirsProofs.wby_delegates. Qed.
Print Assumptions C19_by_delegates.

(* ---- Wrap<By>::iter / iter_names / iter_name_indices are written out in the wrapper (ranges, zip, casts):
   on the value the wrapper constructor returned they are the format-specific iterators, item by item ---- *)
Theorem C19_by_iterators_mirror : forall m w file t, wrap_from_bytes m = Ok w -> mem_ok m ->
  op_exports_by (fmt_of w) file m = Ok t ->
  let cs := fun f => op_cstr f file m in
  wrap_exports_by w file m = Ok (tag w t) /\
  wby_iter w cs t = Exports.iter (op_cstr (fmt_of w) file m) t /\
  wby_iter_names w cs t = Exports.iter_names (op_cstr (fmt_of w) file m) t /\
  wby_iter_name_indices w cs t = Exports.iter_name_indices (op_cstr (fmt_of w) file m) t.
Proof. exact WrapDirsProofs.wrap_by_iterators. Qed.
Print Assumptions C19_by_iterators_mirror.

(* for ANY By value the two name iterators agree as long as the name table has fewer than 2^32 entries ... *)
Theorem C19_by_iter_names_mirror : forall w cstr t, lenN (Exports.t_names t) < W32 ->
  wby_iter_names w cstr t = Exports.iter_names (cstr (fmt_of w)) t /\
  wby_iter_name_indices w cstr t = Exports.iter_name_indices (cstr (fmt_of w)) t.
Proof. exact WrapDirsProofs.wby_name_iterators_mirror. Qed.
Print Assumptions C19_by_iter_names_mirror.
(* ... and the bound is needed: `names.len() as u32` (it cannot be violated by a table read from an image,
   whose length is a u32 field) *)
Theorem C19_by_iter_names_truncates : forall w cstr t, lenN (Exports.t_names t) = W32 -> wby_iter_names w cstr t = [].
Proof. exact WrapDirsProofs.wby_iter_names_truncates. Qed.
Print Assumptions C19_by_iter_names_truncates.

(* ---- imports / IAT / debug / TLS / load config wrappers with code of their own ---- *)
Theorem C19_directory_wrappers_mirror : forall w file m,
  wrap_exports_by w file m = (t <- op_exports_by (fmt_of w) file m ;; Ok (tag w t)) /\
  (forall r, map winto (wrap_imports_iter w file m r) = op_descs (fmt_of w) file m r) /\
  (forall d, wrap_desc_iat w file m d = (l <- op_desc_iat (fmt_of w) file m d ;; Ok (tag w l))) /\
  (forall d, wrap_desc_int w file m d = op_desc_int (fmt_of w) file m d) /\
  (forall r, map winto (wrap_iat_iter w file m r) = op_iat_iter (fmt_of w) file m r) /\
  (forall r, map winto (wrap_debug_iter w file m r) = op_debug_dirs (fmt_of w) file m r) /\
  (forall t, wrap_tls_callbacks w file m t = (r <- op_tls_callbacks (fmt_of w) file m t ;; Ok (tag w r))) /\
  (forall t, wrap_lc_se_handler_table w file m t = (r <- op_lc_se_handler_table (fmt_of w) file m t ;; Ok (tag w r))).
Proof. exact WrapDirsProofs.directory_wrappers_mirror. Qed.
Print Assumptions C19_directory_wrappers_mirror.

(* the width of the Va items (IAT, callbacks, SE handlers) is the held variant's *)
Theorem C19_va_width : forall w file m,
  Imports.va_bytes (pe_of (fmt_of w) file m) = (match w with T32 => 4 | T64 => 8 end) /\
  Dirs.va_size (pe_view (fmt_of w) file m) = (match w with T32 => 4 | T64 => 8 end).
Proof. exact WrapDirsProofs.va_width. Qed.
Print Assumptions C19_va_width.

(* wrap/sections.rs name_bytes (util::trimn): exactly the trailing zero bytes are removed *)
Theorem C19_trimn_spec : forall buf,
  exists zeros, buf = trimn buf ++ zeros /\ Forall (fun b => b = 0) zeros /\
  ((0 < length (trimn buf))%nat -> nth (length (trimn buf) - 1) (trimn buf) 0 <> 0).
Proof. exact WrapDirsProofs.trimn_spec. Qed.
Print Assumptions C19_trimn_spec.

(* ================================================================================================
   SECOND ROUND: JSON
   ================================================================================================ *)

(* ---- the abstract JSON type: the parser inverts the compact printer on EVERY value; hence every printed
   text is well formed (accepted by the validator of the RFC 8259 grammar) and the printer loses nothing ---- *)
Theorem C19_json_parse_print : forall j, parse_json (print_json j) = Some j.
Proof. exact JsonProofs.parse_print. Qed.
Print Assumptions C19_json_parse_print.

Theorem C19_json_print_well_formed : forall j, well_formed (print_json j) = true.
Proof. exact JsonProofs.print_well_formed. Qed.
Print Assumptions C19_json_print_well_formed.

Theorem C19_json_print_injective : forall a b, print_json a = print_json b -> a = b.
Proof. exact JsonProofs.print_json_inj. Qed.
Print Assumptions C19_json_print_injective.

(* the validator is not the constant true *)
Theorem C19_json_validator_rejects :
  well_formed [123; 34; 97; 34; 58; 125] = false /\
  well_formed [91; 49; 44; 93] = false /\
  well_formed [48; 49] = false /\
  well_formed [34; 10; 34] = false /\
  well_formed [34; 92; 120; 34] = false /\
  well_formed [91; 49; 93; 93] = false /\
  well_formed [123; 34; 97; 34; 58; 91; 49; 44; 123; 125; 93; 125] = true.
Proof. exact JsonProofs.well_formed_rejects. Qed.
Print Assumptions C19_json_validator_rejects.

(* ---- "serializing any accepted image succeeds": the model of serialize_pe returns a value on every image
   the format's constructor accepts - no accessor, iterator or formatter inside it panics or errs ---- *)
Theorem C19_serialize_total : forall f file m soi, validate f m = Ok soi -> mem_ok m ->
  exists j, json_of_image f file m = Ok j.
Proof. exact WrapJsonProofs.json_of_image_total. Qed.
Print Assumptions C19_serialize_total.

(* ---- through the wrapper: the text is the print of the held format's tree, it is well formed, and parsing
   it gives that tree back ---- *)
Theorem C19_serialize_text : forall m w file, wrap_from_bytes m = Ok w -> mem_ok m ->
  exists j text, json_of_image (fmt_of w) file m = Ok j /\ wrap_json w file m = Ok j /\
    wrap_json_text w file m = Ok text /\ text = print_json j /\
    well_formed text = true /\ parse_json text = Some j.
Proof. exact WrapJsonProofs.wrap_json_text_ok. Qed.
Print Assumptions C19_serialize_text.

(* ---- "each serialized field equals the value the corresponding accessor returns" ----
   the nine members, in this order, are the nine group values *)
Theorem C19_json_members : forall f file m j, json_of_image f file m = Ok j ->
  exists jh jr je ji jb jd jt jl js,
    json_headers f m = Ok jh /\ json_rich m = Ok jr /\ json_exports f file m = Ok je /\ json_imports f file m = Ok ji /\
    json_base_relocs f file m = Ok jb /\ json_debug f file m = Ok jd /\ json_tls f file m = Ok jt /\
    json_load_config f file m = Ok jl /\ json_security f file m = Ok js /\
    jkeys j = [k_headers; k_rich_structure; k_exports; k_imports; k_base_relocs; k_debug; k_tls; k_load_config; k_security] /\
    jfield k_headers j = Some jh /\ jfield k_rich_structure j = Some jr /\ jfield k_exports j = Some je /\
    jfield k_imports j = Some ji /\ jfield k_base_relocs j = Some jb /\ jfield k_debug j = Some jd /\
    jfield k_tls j = Some jt /\ jfield k_load_config j = Some jl /\ jfield k_security j = Some js.
Proof. exact WrapJsonProofs.json_members. Qed.
Print Assumptions C19_json_members.

(* an `.ok()` member is null exactly when the accessor it is built from returns an error *)
Theorem C19_ok_members_null_iff_err : forall f file m,
  (forall j, json_rich m = Ok j -> (j = JNull <-> exists e, acc_rich m = Err e)) /\
  (forall j, json_exports f file m = Ok j -> (j = JNull <-> exists e, op_exports_by f file m = Err e)) /\
  (forall j, json_imports f file m = Ok j -> (j = JNull <-> exists e, op_imports f file m = Err e)) /\
  (forall j, json_base_relocs f file m = Ok j -> (j = JNull <-> exists e, op_base_relocs f file m = Err e)) /\
  (forall j, json_debug f file m = Ok j -> (j = JNull <-> exists e, op_debug f file m = Err e)) /\
  (forall j, json_tls f file m = Ok j -> (j = JNull <-> exists e, op_tls f file m = Err e)) /\
  (forall j, json_load_config f file m = Ok j -> (j = JNull <-> exists e, op_load_config f file m = Err e)) /\
  (forall j, json_security f file m = Ok j -> (j = JNull <-> exists e, op_security f file m = Err e)).
Proof. exact WrapJsonProofs.ok_members_null_iff_err. Qed.
Print Assumptions C19_ok_members_null_iff_err.

(* the header members by path: the fields validate_headers consults, the two tables, the computed details *)
Theorem C19_headers_fields : forall f m jh, json_headers f m = Ok jh ->
  json_get [Key (S_"DosHeader"); Key (S_"e_magic")] jh = Some (JNum (rd16 m IMAGE_DOS_HEADER_e_magic_off)) /\
  json_get [Key (S_"DosHeader"); Key (S_"e_lfanew")] jh = Some (JNum (e_lfanew m)) /\
  json_get [Key (S_"NtHeaders"); Key (S_"Signature")] jh = Some (JNum (rd32 m (e_lfanew m))) /\
  json_get [Key (S_"NtHeaders"); Key (S_"FileHeader"); Key (S_"NumberOfSections")] jh = Some (JNum (h_nsec f m)) /\
  json_get [Key (S_"NtHeaders"); Key (S_"FileHeader"); Key (S_"SizeOfOptionalHeader")] jh = Some (JNum (h_optsz f m)) /\
  json_get [Key (S_"NtHeaders"); Key (S_"OptionalHeader"); Key (S_"Magic")] jh = Some (JNum (h_magic f m)) /\
  json_get [Key (S_"NtHeaders"); Key (S_"OptionalHeader"); Key (S_"SizeOfCode")] jh = Some (JNum (h_soc f m)) /\
  json_get [Key (S_"NtHeaders"); Key (S_"OptionalHeader"); Key (S_"BaseOfCode")] jh = Some (JNum (h_boc f m)) /\
  json_get [Key (S_"NtHeaders"); Key (S_"OptionalHeader"); Key (S_"ImageBase")] jh = Some (JNum (h_base f m)) /\
  json_get [Key (S_"NtHeaders"); Key (S_"OptionalHeader"); Key (S_"SizeOfImage")] jh = Some (JNum (h_soi f m)) /\
  json_get [Key (S_"NtHeaders"); Key (S_"OptionalHeader"); Key (S_"SizeOfHeaders")] jh = Some (JNum (h_soh f m)) /\
  json_get [Key (S_"NtHeaders"); Key (S_"OptionalHeader"); Key (S_"NumberOfRvaAndSizes")] jh = Some (JNum (h_nrva f m)) /\
  json_get [Key (S_"DataDirectory")] jh = Some (JArr (map json_data_dir (op_data_directory f m))) /\
  json_get [Key (S_"SectionHeaders")] jh = Some (JArr (map (fun i => json_section m (sec_off f m i)) (range (h_nsec f m)))) /\
  json_get [Key (S_"details"); Key (S_"OptionalHeader.CheckSum")] jh = Some (JNum (check_sum f m)) /\
  json_get [Key (S_"details"); Key (S_"OptionalHeader.Magic")] jh = Some (jenum tab_OptionalMagic (h_magic f m)) /\
  json_get [Key (S_"details"); Key (S_"DataDirectory.Sections")] jh =
    Some (JArr (map (jopt JNum) (map (fun d => by_rva f m (fst d)) (op_data_directory f m)))).
Proof. exact WrapJsonProofs.headers_fields. Qed.
Print Assumptions C19_headers_fields.

(* the array "SectionHeaders" runs over the section table of Model/Headers.v; the geometry members of an item
   are the fields of the model's section record *)
Theorem C19_section_fields : forall f m,
  sections f m = map (fun i => section_at m (sec_off f m i)) (range (h_nsec f m)) /\
  forall o,
  json_get [Key (S_"VirtualAddress")] (json_section m o) = Some (JNum (s_va (section_at m o))) /\
  json_get [Key (S_"VirtualSize")] (json_section m o) = Some (JNum (s_vs (section_at m o))) /\
  json_get [Key (S_"PointerToRawData")] (json_section m o) = Some (JNum (s_prd (section_at m o))) /\
  json_get [Key (S_"SizeOfRawData")] (json_section m o) = Some (JNum (s_srd (section_at m o))) /\
  json_get [Key (S_"Name")] (json_section m o) = Some (json_sec_name (bytes_from m (o + IMAGE_SECTION_HEADER_Name_off) 8)).
Proof. exact WrapJsonProofs.section_fields. Qed.
Print Assumptions C19_section_fields.

(* the members of "exports": the By accessors; dll_name null iff derva_c_str errs; every name member is a
   name the format-specific iter_name_indices yields, with its index *)
Theorem C19_exports_fields : forall v x t j, json_by v x t = Ok j ->
  json_get [Key (S_"time_date_stamp")] j = Some (JNum (Exports.x_field (v_get v) x IMAGE_EXPORT_DIRECTORY_TimeDateStamp_off)) /\
  json_get [Key (S_"ordinal_base")] j = Some (JNum (Exports.t_base t mod W16)) /\
  json_get [Key (S_"functions")] j = Some (JArr (map JNum (Exports.t_funcs t))) /\
  (exists names, json_export_names (Exports.iter_name_indices (Exports.view_cstr v) t) = Ok names /\
                 json_get [Key (S_"names")] j = Some (JObj names)) /\
  (json_get [Key (S_"dll_name")] j = Some JNull <->
   exists e, Exports.view_cstr v (Exports.x_field (v_get v) x IMAGE_EXPORT_DIRECTORY_Name_off) = Err e).
Proof. exact WrapJsonProofs.exports_fields. Qed.
Print Assumptions C19_exports_fields.

Theorem C19_export_names_sound : forall l names, json_export_names l = Ok names ->
  forall k v, In (k, v) names -> exists ix, v = JNum ix /\ In (Ok k, ix) l /\ utf8_valid k = true.
Proof. exact WrapJsonProofs.export_names_sound. Qed.
Print Assumptions C19_export_names_sound.

(* the members of tls / load_config / security / base_relocs / rich_structure, and the array shape of imports / debug *)
Theorem C19_directory_fields : forall f file m,
  (forall t j, op_tls f file m = Ok t -> json_tls f file m = Ok j ->
     exists ord ocb, ok_ (Dirs.tls_raw_data (pe_view f file m) t) = Ok ord /\ ok_ (Dirs.tls_callbacks (pe_view f file m) t) = Ok ocb /\
       json_get [Key (S_"raw_data")] j = Some (jopt (fun r => JStr (base64 (rbytes (m_get m) r))) ord) /\
       json_get [Key (S_"callbacks")] j = Some (jopt (fun r => JArr (map JNum (va_values (pe_view f file m) r))) ocb)) /\
  (forall t j, op_load_config f file m = Ok t -> json_load_config f file m = Ok j ->
     exists oc os, ok_ (Dirs.lc_security_cookie (pe_view f file m) t) = Ok oc /\ ok_ (Dirs.lc_se_handler_table (pe_view f file m) t) = Ok os /\
       json_get [Key (S_"security_cookie")] j = Some (jopt (fun r => JNum (Dirs.u32at (m_get m) (r_off r))) oc) /\
       json_get [Key (S_"se_handler_table")] j = Some (jopt (fun r => JArr (map JNum (va_values (pe_view f file m) r))) os)) /\
  (forall r j, op_security f file m = Ok r -> json_security f file m = Ok j ->
     json_get [Key (S_"certificate_type")] j = Some (JNum (Dirs.certificate_type (m_get m) r)) /\
     exists data, Dirs.certificate_data r = Ok data /\
       json_get [Key (S_"certificate_data")] j = Some (JStr (base64 (rbytes (m_get m) data)))) /\
  (forall r j, op_base_relocs f file m = Ok r -> json_base_relocs f file m = Ok j ->
     exists ps, Relocs.fold_pairs (rbytes (m_get m) r) = Ok ps /\
       json_get [Key (S_"rvas")] j = Some (JArr (map (fun p => JNum (fst p)) ps)) /\
       json_get [Key (S_"types")] j = Some (JArr (map (fun p => JNum (snd p)) ps))) /\
  (forall se j, acc_rich m = Ok se -> json_rich m = Ok j ->
     json_get [Key (S_"xor_key")] j = Some (JNum (Rich.xor_key (mem_dwords m) se)) /\
     json_get [Key (S_"checksum")] j = Some (JNum (Rich.checksum (mem_dwords m) se)) /\
     json_get [Key (S_"records")] j = Some (JArr (map json_rich_record (Rich.records (mem_dwords m) se)))) /\
  (forall r j, op_imports f file m = Ok r -> json_imports f file m = Ok j ->
     exists l, map_res (json_desc (pe_of f file m)) (op_descs f file m r) = Ok l /\ j = JArr l) /\
  (forall r j, op_debug f file m = Ok r -> json_debug f file m = Ok j ->
     exists l, map_res (json_dir (pe_view f file m)) (op_debug_dirs f file m r) = Ok l /\ j = JArr l).
Proof. exact WrapJsonProofs.directory_fields. Qed.
Print Assumptions C19_directory_fields.

(* ---- RFC 8259 section 8.1: the text is UTF-8.  [utf8] (Spec/WrapSpec.v) is the declarative RFC 3629 structure; the
   boolean check of the model (the stand-in for str::from_utf8) decides it; a value whose strings and keys are UTF-8
   prints to UTF-8 text; every string of the serialization model is UTF-8 on an accepted image (this includes the two
   `from_utf8_unchecked` on the serialized path: CodeView::format and the ASCII runs of CStr's Display); hence the
   text serialize produces is UTF-8 ---- *)
Theorem C19_utf8_valid_iff : forall s, utf8_valid s = true <-> utf8 s.
Proof. exact JsonUtf8Proofs.utf8_valid_iff. Qed.
Print Assumptions C19_utf8_valid_iff.

Theorem C19_print_json_utf8 : forall j, json_utf8 j -> utf8_valid (print_json j) = true.
Proof. exact JsonUtf8Proofs.print_json_utf8_valid. Qed.
Print Assumptions C19_print_json_utf8.

Theorem C19_serialize_strings_utf8 : forall f file m j, mem_ok m -> json_of_image f file m = Ok j -> json_utf8 j.
Proof. exact WrapJsonUtf8.json_of_image_utf8. Qed.
Print Assumptions C19_serialize_strings_utf8.

Theorem C19_serialize_text_utf8 : forall m w file text, wrap_from_bytes m = Ok w -> mem_ok m ->
  wrap_json_text w file m = Ok text -> utf8_valid text = true.
Proof. exact WrapJsonUtf8.wrap_json_text_utf8. Qed.
Print Assumptions C19_serialize_text_utf8.

(* ---- the oracle the check evaluates on the text the IMPLEMENTATION produced: when it accepts, that text is
   well formed, it is the canonical print of its tree, and the tree minus "resources" is the model's ---- *)
Theorem C19_json_text_oracle_sound : forall model text, json_text_ok model text = true ->
  exists j jm, parse_json text = Some j /\ well_formed text = true /\ text = print_json j /\
    model = Ok jm /\ drop_member k_resources j = jm.
Proof. exact WrapJsonProofs.json_text_ok_sound. Qed.
Print Assumptions C19_json_text_oracle_sound.

Theorem C19_json_text_oracle_complete : forall members res_value,
  (forall k v, In (k, v) members -> list_eqb k k_resources = false) ->
  json_text_ok (Ok (JObj members)) (print_json (JObj (members ++ [(k_resources, res_value)]))) = true.
Proof. exact WrapJsonProofs.json_text_ok_complete. Qed.
Print Assumptions C19_json_text_oracle_complete.

Example C19_nonvacuous :
  wrap_from_bytes WrapProofs.f24_mem = Ok T32 /\ select_spec WrapProofs.f24_mem = Some T32 /\
  fmt_by_magic WrapProofs.f24_mem = Some fmt32 /\
  wrap_image_range T32 WrapProofs.f24_mem = (1024, 12288) /\
  wrap_slice T32 false WrapProofs.f24_mem 64 4 4 = Ok {| r_off := 64; r_len := 960 |} /\
  wrap_derva T32 false WrapProofs.f24_mem 64 4 4 = Ok {| r_off := 64; r_len := 4 |} /\
  json_is_null (acc_exports fmt32 true WrapProofs.f24_mem) = true.
Proof. vm_compute. repeat split; reflexivity. Qed.

(* second round, not vacuous: the serialization model evaluated on the accepted 1 KiB image above - nine members,
   exports / security null, the section name, a details string, a flag list; its printed text (2962 bytes) passes
   the validator when the validator is actually run on it *)
Example C19_json_nonvacuous :
  let j := WrapJsonProofs.f24_json in
  json_of_image fmt32 true WrapProofs.f24_mem = Ok j /\
    wrap_json T32 true WrapProofs.f24_mem = Ok j /\
    length (print_json j) = 2962%nat /\ well_formed (print_json j) = true /\ parse_json (print_json j) = Some j /\
    utf8_valid (print_json j) = true /\
    jkeys j = [k_headers; k_rich_structure; k_exports; k_imports; k_base_relocs; k_debug; k_tls; k_load_config; k_security] /\
    jfield k_exports j = Some JNull /\ jfield k_security j = Some JNull /\
    json_get [Key k_headers; Key (S_"NtHeaders"); Key (S_"OptionalHeader"); Key (S_"SizeOfImage")] j = Some (JNum 12288) /\
    json_get [Key k_headers; Key (S_"SectionHeaders"); Idx 0; Key (S_"Name")] j = Some (JStr (S_".t")) /\
    json_get [Key k_headers; Key (S_"details"); Key (S_"OptionalHeader.Magic")] j = Some (JStr (S_"IMAGE_NT_OPTIONAL_HDR32_MAGIC")) /\
    json_get [Key k_headers; Key (S_"details"); Key (S_"FileHeader.Characteristics")] j =
      Some (JArr [JStr (S_"IMAGE_FILE_EXECUTABLE_IMAGE"); JStr (S_"IMAGE_FILE_32BIT_MACHINE")]) /\
    json_get [Key k_headers; Key (S_"details"); Key (S_"DataDirectory.Sections"); Idx 0] j = Some JNull.
Proof. vm_compute. repeat split; reflexivity. Qed.

(* the wrapper's written-out iterators on a two-name table whose ordinal table is a permutation: hint 0 -> index 1 *)
Example C19_by_iterators_nonvacuous :
  let t := {| Exports.t_funcs := [4096; 8192]; Exports.t_names := [100; 200]; Exports.t_idxs := [1; 0];
              Exports.t_base := 1; Exports.t_dva := 0; Exports.t_dsize := 0 |} in
  let cstr := fun (f : fmt) (rva : N) => if f_64 f then Ok [rva] else Err ENull in
  wby_iter_names T64 cstr t = [(Ok [100], Ok (Exports.Symbol 8192)); (Ok [200], Ok (Exports.Symbol 4096))] /\
  wby_iter_name_indices T32 cstr t = [(Err ENull, 1); (Err ENull, 0)] /\
  wby_iter T64 cstr t = [Ok (Exports.Symbol 4096); Ok (Exports.Symbol 8192)] /\
  print_json (JObj [(S_"a\b", JArr [JNum 10; JNull; JBool true; JStr [10; 34; 200]])]) =
    S_"{""a\\b"":[10,null,true,""\n\"""  ++ [200] ++ S_"""]}".
Proof. vm_compute. repeat split; reflexivity. Qed.

(* ---- leaf functions regenerated from the source on every run (tools/gen_leaf.py -> gen/Leaf.v): agreement with the hand-written model ---- *)
(* src/pe64/headers.rs Headers::{code_range, image_range}, compiled for pe32 and for pe64 and regenerated from the
   source on every run, are Wrap.op_code_range / op_image_range on the optional-header fields they read *)
From PV.Model Require Headers Wrap.
From PV.gen Require Leaf.
From PV.Proofs Require LeafWrap.
Theorem C19_leaf_code_range : forall f m,
  (if Headers.f_64 f then Leaf.L_pe64_headers_Headers_code_range else Leaf.L_pe32_headers_Headers_code_range) (Wrap.h_soc f m) (Wrap.h_boc f m)
    = Wrap.op_code_range f m /\
  (if Headers.f_64 f then Leaf.L_pe64_headers_Headers_code_range_ok else Leaf.L_pe32_headers_Headers_code_range_ok) (Wrap.h_soc f m) (Wrap.h_boc f m)
    = true.
Proof. exact LeafWrap.code_range_agrees. Qed.
Print Assumptions C19_leaf_code_range.
Theorem C19_leaf_image_range : forall f m,
  (if Headers.f_64 f then Leaf.L_pe64_headers_Headers_image_range else Leaf.L_pe32_headers_Headers_image_range) (Headers.h_soi f m) (Headers.h_soh f m)
    = Wrap.op_image_range f m /\
  (if Headers.f_64 f then Leaf.L_pe64_headers_Headers_image_range_ok else Leaf.L_pe32_headers_Headers_image_range_ok) (Headers.h_soi f m) (Headers.h_soh f m)
    = true.
Proof. exact LeafWrap.image_range_agrees. Qed.
Print Assumptions C19_leaf_image_range.

(* the source places the binders of the generated leaf definitions stand for (third audit, F2) *)
From Coq Require Import List String.
Import ListNotations.
Theorem C19_leaf_reads_wrap :
  Leaf.L_pe32_headers_Headers_code_range_args = ["optional_header.SizeOfCode : u32"%string; "optional_header.BaseOfCode : u32"%string] /\
  Leaf.L_pe32_headers_Headers_image_range_args = ["optional_header.SizeOfImage : u32"%string; "optional_header.SizeOfHeaders : u32"%string] /\
  Leaf.L_pe64_headers_Headers_code_range_args = ["optional_header.SizeOfCode : u32"%string; "optional_header.BaseOfCode : u32"%string] /\
  Leaf.L_pe64_headers_Headers_image_range_args = ["optional_header.SizeOfImage : u32"%string; "optional_header.SizeOfHeaders : u32"%string].
Proof. exact LeafWrap.leaf_reads_wrap. Qed.
Print Assumptions C19_leaf_reads_wrap.

(* ==== third round: the tenth member, "resources" (src/resources/mod.rs `mod serde`; Model/WrapJsonRes.v, Spec/WrapResSpec.v) ====
   Qualified names throughout: Model/Resources.v reuses the names rd16 / rd32 / name / root of the header models. *)
From PV.Model Require WrapJsonRes Resources.
From PV.Spec Require WrapResSpec ResTree.
From PV.Proofs Require WrapJsonResProofs WrapJsonResListing.

(* (a) totality: for ANY section - any bytes, counts, offsets, placement - the model of Serialize for Resources returns a
   value: no error, no panic, no fuel running out.  The fuel of the root walk is JRES_DEPTH = FSCK_MAX_DEPTH - 1 = 31 levels
   below the root; at fuel 0 a sub-directory is not followed (the arm `_ =>` of WalkEntry), so the recursion ends by
   construction *)
Theorem C19_resources_total : forall s : Resources.rsec, exists j, WrapJsonRes.json_resources s = Ok j.
Proof. exact WrapJsonResProofs.json_resources_total. Qed.
Print Assumptions C19_resources_total.

(* ... hence serialize_pe with all ten members succeeds on every accepted image, through the wrapper its text is the
   print of the held format's tree, is well formed and parses back to that tree *)
Theorem C19_serialize_full_total : forall f file m soi,
  validate f m = Ok soi -> mem_ok m -> exists j, WrapJsonRes.json_of_image_full f file m = Ok j.
Proof. exact WrapJsonResProofs.json_of_image_full_total. Qed.
Print Assumptions C19_serialize_full_total.

Theorem C19_serialize_full_text : forall w file m,
  wrap_from_bytes m = Ok w -> mem_ok m ->
  exists j, WrapJsonRes.json_of_image_full (fmt_of w) file m = Ok j /\ WrapJsonRes.wrap_json_full w file m = Ok j /\
            WrapJsonRes.wrap_json_full_text w file m = Ok (print_json j) /\
            well_formed (print_json j) = true /\ parse_json (print_json j) = Some j.
Proof. exact WrapJsonResProofs.serialize_full_text. Qed.
Print Assumptions C19_serialize_full_text.

(* the ten-member object is the nine-member object of the second round with the member appended: every theorem about
   json_of_image above is a theorem about the first nine members of json_of_image_full *)
Theorem C19_serialize_full_split : forall f file m,
  WrapJsonRes.json_of_image_full f file m =
  (j <- json_of_image f file m ;; jr <- WrapJsonRes.json_resources_member f file m ;;
   Ok (WrapJsonResProofs.add_member j WrapJsonRes.k_res_member jr)).
Proof. exact WrapJsonResProofs.json_of_image_full_split. Qed.
Print Assumptions C19_serialize_full_split.

(* (b) boundedness, for ANY section: the number of entry objects (objects with a "name" member) is at most the budget
   length / 8, and arrays are nested at most FSCK_MAX_DEPTH = 32 deep - directories that contain themselves included *)
Theorem C19_resources_bounded : forall (s : Resources.rsec) j,
  WrapJsonRes.json_resources s = Ok j ->
  WrapResSpec.jentries j <= Resources.rs_len s / 8 /\ (WrapResSpec.jdepth j <= Resources.FSCK_DEPTH)%nat.
Proof. exact WrapJsonResProofs.json_resources_bounded. Qed.
Print Assumptions C19_resources_bounded.

(* (c) content: a section whose root denotes a tree (Spec/ResTree.v repr, the notion of C12) nested at most 32 directories
   deep with at most length / 8 entries - exactly the sections fsck accepts, C12_fsck_iff - serializes to the declarative
   value of that tree: every directory the array of its entries in stored order, names (an id with a predefined type
   name is that name on the first level and the number below it; UTF-16 names decoded with U+FFFD for unpaired
   surrogates), data entries { OffsetToData, Size, CodePage }; nothing is cut *)
Theorem C19_resources_mirror_tree : forall (s : Resources.rsec) kids,
  ResTree.repr s (ResTree.RDir 0 kids) = true ->
  (ResTree.height (ResTree.RDir 0 kids) <= Resources.FSCK_DEPTH)%nat ->
  ResTree.size (ResTree.RDir 0 kids) <= Resources.rs_len s / 8 ->
  WrapJsonRes.json_resources s = Ok (WrapResSpec.tree_json (Resources.rs_va s) true (ResTree.RDir 0 kids)).
Proof. exact WrapJsonResProofs.json_resources_repr. Qed.
Print Assumptions C19_resources_mirror_tree.

Theorem C19_resources_of_fsck : forall s : Resources.rsec,
  Resources.fsck s = Ok tt ->
  exists kids, ResTree.repr s (ResTree.RDir 0 kids) = true /\
    WrapJsonRes.json_resources s = Ok (WrapResSpec.tree_json (Resources.rs_va s) true (ResTree.RDir 0 kids)).
Proof. exact WrapJsonResProofs.json_resources_of_fsck. Qed.
Print Assumptions C19_resources_of_fsck.

(* the oracle run on the implementation's text with NO member dropped is sound and complete *)
Theorem C19_json_text_full_oracle_sound : forall model text,
  WrapResSpec.json_text_full_ok model text = true ->
  exists j, model = Ok j /\ parse_json text = Some j /\ well_formed text = true /\ text = print_json j.
Proof. exact WrapJsonResProofs.json_text_full_ok_sound. Qed.
Print Assumptions C19_json_text_full_oracle_sound.
Theorem C19_json_text_full_oracle_complete : forall j, WrapResSpec.json_text_full_ok (Ok j) (print_json j) = true.
Proof. exact WrapJsonResProofs.json_text_full_ok_complete. Qed.
Print Assumptions C19_json_text_full_oracle_complete.

(* ... and it subsumes the oracle of the second round (which dropped the member) *)
Theorem C19_json_text_full_oracle_implies_nine : forall f file m text,
  WrapResSpec.json_text_full_ok (WrapJsonRes.json_of_image_full f file m) text = true ->
  json_text_ok (json_of_image f file m) text = true.
Proof. exact WrapJsonResProofs.json_text_full_ok_implies_nine. Qed.
Print Assumptions C19_json_text_full_oracle_implies_nine.

(* (c') the serializer mirrors traversal.  For EVERY tree the value read off its depth-first listing (Spec/ResTree.v flatten;
   listing_json groups it with kids_of / take_sub, the functions the lookups of C12 are specified with) is the value read off
   the tree; hence on a section that denotes a tree within the limits the member is listing_json of what Resources.walk -
   the traversal of C12 (C12_walk_repr) - lists with the limits of fsck *)
Theorem C19_listing_json_flatten : forall (s : Resources.rsec) va o kids fuel lvl,
  (ResTree.height (ResTree.RDir o kids) <= fuel)%nat ->
  JArr (WrapResSpec.listing_json fuel va lvl (ResTree.flatten s lvl (ResTree.RDir o kids)))
  = WrapResSpec.tree_json va (lvl =? 0) (ResTree.RDir o kids).
Proof. exact WrapJsonResListing.listing_json_flatten. Qed.
Print Assumptions C19_listing_json_flatten.

Theorem C19_resources_mirror_listing : forall (s : Resources.rsec) kids,
  ResTree.repr s (ResTree.RDir 0 kids) = true ->
  (ResTree.height (ResTree.RDir 0 kids) <= Resources.FSCK_DEPTH)%nat ->
  ResTree.size (ResTree.RDir 0 kids) <= Resources.rs_len s / 8 ->
  WrapJsonRes.json_resources s =
  Ok (JArr (WrapResSpec.listing_json Resources.FSCK_DEPTH (Resources.rs_va s) 0
             (fst (Resources.walk Resources.FSCK_DEPTH s 0 0 (Resources.fsck_budget s))))).
Proof. exact WrapJsonResListing.json_resources_mirror_listing. Qed.
Print Assumptions C19_resources_mirror_listing.

(* (d) non-vacuity: a two-level section with a named entry (an unpaired surrogate in its name) and the id 3 on both levels
   (renamed "#ICON" on the first, the number 3 on the second); the self-containing root of F16 cut by the budget (24
   bytes: 3 entries) and, in a section of 320 bytes, by the depth limit (32 entries, 32 levels); a misaligned root is
   null, an empty root is [] *)
Example C19_resources_nonvacuous :
  ResTree.repr WrapJsonResProofs.ex_res_sec WrapJsonResProofs.ex_res_tree = true /\ Resources.fsck WrapJsonResProofs.ex_res_sec = Ok tt /\
  WrapJsonRes.json_resources WrapJsonResProofs.ex_res_sec = Ok (WrapResSpec.tree_json 4096 true WrapJsonResProofs.ex_res_tree) /\
  WrapJsonResProofs.fmap_print (WrapJsonRes.json_resources WrapJsonResProofs.ex_res_sec) =
    Some (S_"[{""name"":""A" ++ [239; 191; 189] ++
          S_""",""data"":{""address"":4192,""size"":4,""code_page"":0}},{""name"":""#ICON"",""directory"":[{""name"":3,""data"":{""address"":4192,""size"":4,""code_page"":1252}}]}]") /\
  WrapJsonResProofs.fmap_print (WrapJsonRes.json_resources WrapJsonResProofs.ex_res_self) =
    Some (S_"[{""name"":""#CURSOR"",""directory"":[{""name"":1,""directory"":[{""name"":1,""directory"":[]}]}]}]") /\
  (match WrapJsonRes.json_resources WrapJsonResProofs.ex_res_deep with Ok j => (WrapResSpec.jentries j, WrapResSpec.jdepth j) | _ => (0, O) end) = (32, 32%nat) /\
  WrapJsonRes.json_resources (ResourcesProofs.sec_of 4098 4096 [0;0;0;0; 0;0;0;0; 0;0;0;0; 0;0; 0;0]) = Ok JNull /\
  WrapJsonRes.json_resources (ResourcesProofs.sec_of 4096 4096 [0;0;0;0; 0;0;0;0; 0;0;0;0; 0;0; 0;0]) = Ok (JArr []).
Proof. exact WrapJsonResProofs.ex_res_nonvacuous. Qed.
Print Assumptions C19_resources_nonvacuous.

(* OPEN: C19_resources_is_serde : the Serialize impls of src/resources/mod.rs `mod serde` ARE WrapJsonRes.json_resources -
   correspondence only (the full JSON text, `resources` included, is compared byte for byte on every accepted case) *)
(* OPEN: C19_resources_cut_listing : on a section that is NOT a tree within the limits (dangling references, a walk cut by the
   budget or by the depth limit) the member equals a declarative function of the listing Resources.walk produces (which
   entries survive the cut) - only the model and C19_resources_bounded speak about such sections *)

(* ---- Serialize for Directory / DirectoryEntry (fourth audit, M7): the public impls that start a walk of their own - a
   fresh budget of length / 8, depth 0, type ids never renamed.  For ANY section and offset they return a value within the
   two bounds; a directory that denotes a tree within the limits is serialized as the declarative value of that tree with
   no renaming on any level.  (The harness compares both texts with these model functions on every accepted image.) *)
From PV.Proofs Require WrapJsonDirProofs.
Theorem C19_directory_serialize_total : forall (s : Resources.rsec) off,
  (exists j, WrapJsonRes.json_directory s off = Ok j) /\ (exists j, WrapJsonRes.json_dir_entry s off = Ok j).
Proof. exact WrapJsonDirProofs.directory_serialize_total. Qed.
Print Assumptions C19_directory_serialize_total.

Theorem C19_directory_serialize_bounded : forall (s : Resources.rsec) off j,
  WrapJsonRes.json_directory s off = Ok j ->
  WrapResSpec.jentries j <= Resources.rs_len s / 8 /\ (WrapResSpec.jdepth j <= Resources.FSCK_DEPTH)%nat.
Proof. exact WrapJsonDirProofs.json_directory_bounded. Qed.
Print Assumptions C19_directory_serialize_bounded.

Theorem C19_directory_serialize_mirror_tree : forall (s : Resources.rsec) off kids,
  ResTree.repr s (ResTree.RDir off kids) = true ->
  (ResTree.height (ResTree.RDir off kids) <= Resources.FSCK_DEPTH)%nat ->
  ResTree.size (ResTree.RDir off kids) <= Resources.rs_len s / 8 ->
  WrapJsonRes.json_directory s off = Ok (WrapResSpec.tree_json (Resources.rs_va s) false (ResTree.RDir off kids)).
Proof. exact WrapJsonDirProofs.json_directory_repr. Qed.
Print Assumptions C19_directory_serialize_mirror_tree.
