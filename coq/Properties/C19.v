(* C19 — Format-agnostic wrappers and JSON serialization mirror the format-specific API.
   Statements only; every proof is [exact <lemma>].

   PARTIAL by nature: serde / serde_json and the wrapper methods over directories that have
   no model here (exports, imports, debug, tls, load config, scanner, resources ...) are
   outside the theorems; their delegation and the field-by-field JSON table are established
   by the correspondence check (differential testing), not by theorem.  What is proved:
   variant selection, the delegation diagrams of the modelled method groups, the computed
   JSON detail "DataDirectory.Sections" (F24), and null-ness of the modelled `.ok()` fields. *)
From PV.Model Require Import Machine Mapping Views Headers Wrap.
From PV.gen Require Import Layout.
From PV.Spec Require Import HeaderSpec WrapSpec.
From PV.Proofs Require HeadersProofs WrapProofs.

(* ---- variant selection (strengthens C07_wrapper): for ANY buffer the constructor returns
   T64 exactly when the PE32+ parser accepts it, T32 exactly when the PE32 parser accepts it,
   an error exactly when neither does, and never panics ---- *)
Theorem C19_select_64 : forall m, wrap_from_bytes m = Ok T64 <-> exists soi, validate fmt64 m = Ok soi.
Proof. exact WrapProofs.select_64. Qed.
Print Assumptions C19_select_64.

Theorem C19_select_32 : forall m, wrap_from_bytes m = Ok T32 <-> exists soi, validate fmt32 m = Ok soi.
Proof. exact WrapProofs.select_32. Qed.
Print Assumptions C19_select_32.

Theorem C19_select_err : forall m e, wrap_from_bytes m = Err e ->
  (forall soi, validate fmt32 m <> Ok soi) /\ (forall soi, validate fmt64 m <> Ok soi).
Proof. exact WrapProofs.select_err. Qed.
Print Assumptions C19_select_err.

Theorem C19_select_no_fault : forall m, no_fault (wrap_from_bytes m).
Proof. exact WrapProofs.wrap_no_fault. Qed.
Print Assumptions C19_select_no_fault.

(* as a total function of the buffer the constructor is the selection the PE/COFF reading prescribes
   (acceptance conjunction of Spec/HeaderSpec.v with magic 0x20b, else with magic 0x10b, else failure) *)
Theorem C19_select_is_spec : forall m,
  match select_spec m with
  | Some w => wrap_from_bytes m = Ok w
  | None => exists e, wrap_from_bytes m = Err e
  end.
Proof. exact WrapProofs.select_is_spec. Qed.
Print Assumptions C19_select_is_spec.

(* ---- delegation: on the value the constructor returned, every wrapper method (the match on the
   variant) is the operation of the format NAMED BY THE OPTIONAL-HEADER MAGIC, and that format's
   own constructor accepts the buffer ---- *)
Theorem C19_wrapper_mirrors : forall m w, wrap_from_bytes m = Ok w ->
  fmt_by_magic m = Some (fmt_of w) /\
  (exists soi, validate (fmt_of w) m = Ok soi) /\
  forall (A : Type) (op : fmt -> A), dispatch w op = op (fmt_of w).
Proof. exact WrapProofs.wrapper_mirrors. Qed.
Print Assumptions C19_wrapper_mirrors.

(* the list of diagrams for the modelled method groups: header accessors, data directories,
   section headers and lookup, slice / slice_bytes / get_section_bytes, the derva family,
   Headers::{check_sum, code_range, image_range} *)
Theorem C19_delegation_diagrams : forall w file m,
  wrap_accessors w m = op_accessors (fmt_of w) m /\
  wrap_data_directory w m = op_data_directory (fmt_of w) m /\
  wrap_section_headers w m = op_section_headers (fmt_of w) m /\
  (forall rva, wrap_by_rva w m rva = op_by_rva (fmt_of w) m rva) /\
  (forall rva n a, wrap_slice w file m rva n a = op_slice (fmt_of w) file m rva n a) /\
  (forall rva, wrap_slice_bytes w file m rva = op_slice_bytes (fmt_of w) file m rva) /\
  (forall i, wrap_get_section_bytes w file m i = op_get_section_bytes (fmt_of w) file m i) /\
  (forall rva s a, wrap_derva w file m rva s a = op_derva (fmt_of w) file m rva s a) /\
  (forall rva s, wrap_derva_copy w file m rva s = op_derva_copy (fmt_of w) file m rva s) /\
  (forall rva s a n, wrap_derva_slice w file m rva s a n = op_derva_slice (fmt_of w) file m rva s a n) /\
  (forall rva s a x, wrap_derva_slice_s w file m rva s a x = op_derva_slice_s (fmt_of w) file m rva s a x) /\
  (forall rva s a p, wrap_derva_slice_f w file m rva s a p = op_derva_slice_f (fmt_of w) file m rva s a p) /\
  (forall rva, wrap_derva_c_str w file m rva = op_derva_c_str (fmt_of w) file m rva) /\
  wrap_check_sum w m = op_check_sum (fmt_of w) m /\
  wrap_code_range w m = op_code_range (fmt_of w) m /\
  wrap_image_range w m = op_image_range (fmt_of w) m.
Proof. exact WrapProofs.delegation_diagrams. Qed.
Print Assumptions C19_delegation_diagrams.

(* ---- JSON, the computed detail "DataDirectory.Sections": equals entry by entry what the
   accessor SectionHeaders::by_rva returns for dd.VirtualAddress, and never panics ---- *)
Theorem C19_details_eq_accessor : forall f m,
  details_dd_sections f m = Ok (map (fun d => by_rva f m (fst d)) (op_data_directory f m)).
Proof. exact WrapProofs.details_eq_accessor. Qed.
Print Assumptions C19_details_eq_accessor.

Theorem C19_details_no_fault : forall f m, no_fault (details_dd_sections f m).
Proof. exact WrapProofs.details_no_fault. Qed.
Print Assumptions C19_details_no_fault.

(* the extracted oracle accepts an observed table exactly when it is the model's *)
Theorem C19_details_oracle_sound : forall f m obs, details_ok f m obs = true <-> details_dd_sections f m = Ok obs.
Proof. exact WrapProofs.details_oracle_sound. Qed.
Print Assumptions C19_details_oracle_sound.

(* what the F24 repair changes: the code as it stood agrees whenever no section end wraps,
   and panics when a section with VirtualAddress <= rva and VirtualAddress + VirtualSize >= 2^32 is reached *)
Theorem C19_details_orig_agrees : forall secs, Forall (fun s => s_va s + s_vs s < W32) secs ->
  forall idx rva, dd_pos_orig secs idx rva = dd_pos secs idx rva.
Proof. exact WrapProofs.dd_pos_orig_agrees. Qed.
Print Assumptions C19_details_orig_agrees.

Theorem C19_details_orig_faults : forall s rest idx rva,
  s_va s <= rva -> W32 <= s_va s + s_vs s -> dd_pos_orig (s :: rest) idx rva = Fault POverflow.
Proof. exact WrapProofs.dd_pos_orig_faults. Qed.
Print Assumptions C19_details_orig_faults.

(* ---- JSON, the `.ok()` fields of serialize_pe whose accessors are modelled: the accessor never
   panics, and the field is null exactly when the accessor returns an error ---- *)
Theorem C19_ok_fields_no_fault : forall f file m,
  no_fault (acc_exports f file m) /\ no_fault (acc_tls f file m) /\ no_fault (acc_load_config f file m) /\
  no_fault (acc_debug f file m) /\ no_fault (acc_base_relocs f file m) /\ no_fault (acc_security f file m).
Proof. exact WrapProofs.accessors_no_fault. Qed.
Print Assumptions C19_ok_fields_no_fault.

Theorem C19_ok_fields_null_iff_err : forall f file m,
  (json_is_null (acc_exports f file m) = true <-> exists e, acc_exports f file m = Err e) /\
  (json_is_null (acc_tls f file m) = true <-> exists e, acc_tls f file m = Err e) /\
  (json_is_null (acc_load_config f file m) = true <-> exists e, acc_load_config f file m = Err e) /\
  (json_is_null (acc_debug f file m) = true <-> exists e, acc_debug f file m = Err e) /\
  (json_is_null (acc_base_relocs f file m) = true <-> exists e, acc_base_relocs f file m = Err e) /\
  (json_is_null (acc_security f file m) = true <-> exists e, acc_security f file m = Err e).
Proof. exact WrapProofs.ok_fields_null_iff_err. Qed.
Print Assumptions C19_ok_fields_null_iff_err.

(* ---- defects repaired in /repo, as theorems about the code as it stood ---- *)
(* F24: an accepted PE32 image with one section at 0xFFFFF000 of size 0x2000 and a data directory
   pointing at it: the detail table of the code as it stood panics (add overflow) *)
Theorem C19_F24_details_orig_refuted :
  wrap_from_bytes WrapProofs.f24_mem = Ok T32 /\
  details_dd_sections_orig fmt32 WrapProofs.f24_mem = Fault POverflow /\
  details_dd_sections fmt32 WrapProofs.f24_mem = Ok (None :: repeat None 15).
Proof. exact WrapProofs.f24_details_orig_refuted. Qed.
Print Assumptions C19_F24_details_orig_refuted.

(* F8 (reached through serialize_pe): security directory at 0xFFFFFFF8 of size 8 *)
Theorem C19_F8_security_orig_refuted :
  acc_security_orig fmt32 true WrapProofs.f24_mem = Fault POverflow /\ acc_security fmt32 true WrapProofs.f24_mem = Err EBounds.
Proof. exact WrapProofs.f8_security_orig_refuted. Qed.
Print Assumptions C19_F8_security_orig_refuted.

Example C19_nonvacuous :
  wrap_from_bytes WrapProofs.f24_mem = Ok T32 /\ select_spec WrapProofs.f24_mem = Some T32 /\
  fmt_by_magic WrapProofs.f24_mem = Some fmt32 /\
  wrap_image_range T32 WrapProofs.f24_mem = (1024, 12288) /\
  wrap_slice T32 false WrapProofs.f24_mem 64 4 4 = Ok {| r_off := 64; r_len := 960 |} /\
  wrap_derva T32 false WrapProofs.f24_mem 64 4 4 = Ok {| r_off := 64; r_len := 4 |} /\
  json_is_null (acc_exports fmt32 true WrapProofs.f24_mem) = true.
Proof. vm_compute. repeat split; reflexivity. Qed.
