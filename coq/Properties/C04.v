(* C04 — File views resolve RVAs through the section table exactly as the PE mapping says.
   Statements only; every proof is [exact <lemma>]. *)
From PV.Model Require Import Machine Mapping.
From PV.Spec Require Import MappingSpec.
From PV.Proofs Require MappingProofs.

(* For every section table (any length, any u32 field values) and every RVA, the
   section walk with its wrapping arithmetic computes the loop-free mapping rule:
   identity below SizeOfHeaders; otherwise PointerToRawData + (rva - VirtualAddress)
   of the FIRST section whose virtual extent contains it, exactly when that offset
   lies in the stored raw data; ZeroFill in the virtual-only tail; Bounds outside
   every section; Overflow when the raw range is corrupt. *)
Theorem C04_rva_to_file_offset : forall soh secs rva, Forall section_ok secs -> rva < W32 ->
  rva_to_file_offset soh secs rva = rva_to_file_offset_spec soh secs rva.
Proof. exact MappingProofs.rva_to_file_offset_correct. Qed.
Print Assumptions C04_rva_to_file_offset.

Theorem C04_file_offset_to_rva : forall soh secs fo, Forall section_ok secs -> fo < W64 ->
  (fo < soh -> fo < W32) ->
  file_offset_to_rva soh secs fo = file_offset_to_rva_spec soh secs fo.
Proof. exact MappingProofs.file_offset_to_rva_correct. Qed.
Print Assumptions C04_file_offset_to_rva.

(* Slicing: for every buffer address and length, request size and alignment. *)
Theorem C04_slice_file : forall base len secs rva min_size align, Forall section_ok secs -> rva < W32 ->
  slice_file base len secs rva min_size align = slice_file_spec base len secs rva min_size align.
Proof. exact MappingProofs.slice_file_correct. Qed.
Print Assumptions C04_slice_file.

(* In the property's words: the bytes start at PRD + (rva - VA) of the first containing
   section and end where its raw data ends, inside the buffer, aligned as requested. *)
Theorem C04_slice_file_ok : forall base len secs rva min_size align r,
  Forall section_ok secs -> rva < W32 ->
  slice_file base len secs rva min_size align = Ok r ->
  exists s, first_v secs rva = Some s /\
    r_off r = s_prd s + (rva - s_va s) /\ r_off r + r_len r = s_prd s + s_srd s /\
    s_prd s + s_srd s <= len /\ min_size <= r_len r /\ (base + r_off r) mod align = 0 /\ rva <> 0.
Proof. exact MappingProofs.slice_file_ok_inv. Qed.
Print Assumptions C04_slice_file_ok.

(* "a request for more bytes than that never succeeds" *)
Theorem C04_slice_never_exceeds_raw : forall base len secs rva min_size align s,
  Forall section_ok secs -> rva < W32 -> first_v secs rva = Some s ->
  s_srd s - (rva - s_va s) < min_size ->
  forall r, slice_file base len secs rva min_size align <> Ok r.
Proof. exact MappingProofs.slice_never_exceeds_raw. Qed.
Print Assumptions C04_slice_never_exceeds_raw.

(* file offset -> RVA inverts RVA -> file offset on every stored, mapped, unaliased byte *)
Theorem C04_offset_rva_inverse : forall soh secs rva fo, Forall section_ok secs -> rva < W32 ->
  rva_to_file_offset soh secs rva = Ok fo -> unaliased soh secs rva fo = true ->
  file_offset_to_rva soh secs fo = Ok rva.
Proof. exact MappingProofs.offset_rva_inverse. Qed.
Print Assumptions C04_offset_rva_inverse.

(* ... and the hypothesis is not a loosening: no function inverts two RVAs stored at one offset *)
Theorem C04_inverse_impossible_when_aliased : forall (f : N -> res N) rva1 rva2 fo,
  rva1 <> rva2 -> ~ (f fo = Ok rva1 /\ f fo = Ok rva2).
Proof. exact MappingProofs.inverse_impossible_when_aliased. Qed.
Print Assumptions C04_inverse_impossible_when_aliased.

Theorem C04_get_section_bytes : forall len address size, address < W32 -> size < W32 ->
  get_section_bytes len address size = get_section_bytes_spec len address size.
Proof. exact MappingProofs.get_section_bytes_correct. Qed.
Print Assumptions C04_get_section_bytes.

(* F3, the code as it stood before the repair returned a misaligned pointer *)
Theorem C04_F3_slice_file_orig_refuted :
  exists r, slice_file_orig 0 4096 [{| s_va := 4096; s_vs := 512; s_prd := 1026; s_srd := 512 |}] 4096 4 4 = Ok r
            /\ (0 + r_off r) mod 4 <> 0.
Proof. exact MappingProofs.slice_file_orig_refuted. Qed.
Print Assumptions C04_F3_slice_file_orig_refuted.

(* Non-vacuity: a two-section table, one query in each class *)
Example C04_nonvacuous :
  let secs := [ {| s_va := 4096; s_vs := 768; s_prd := 1024; s_srd := 512 |};
                {| s_va := 8192; s_vs := 100; s_prd := 1536; s_srd := 512 |} ] in
  rva_to_file_offset 1024 secs 4100 = Ok 1028 /\ rva_to_file_offset 1024 secs 4700 = Err EZeroFill /\
  rva_to_file_offset 1024 secs 5000 = Err EBounds /\ rva_to_file_offset 1024 secs 100 = Ok 100 /\
  file_offset_to_rva 1024 secs 1028 = Ok 4100 /\
  slice_file 16 2048 secs 8200 4 4 = Ok {| r_off := 1544; r_len := 504 |}.
Proof. vm_compute. repeat split; reflexivity. Qed.
