(* C13 - Version information is reported completely and unaltered.
   Statements only; every proof is [exact <lemma>].  The resource is a list of u16 words (a byte buffer at
   address [base] for the api_* functions); "false" selects the repaired code (F12, F32). *)
From PV.Model Require Import Machine VersionInfo.
From PV.Spec Require Import TlvEnc.
From PV.Proofs Require VersionInfoProofs VersionInfoRoundtrip VersionInfoQueries VersionInfoContain.
Import VersionInfoProofs.

(* (5) For every visitor (every implementation of the Visit trait, in particular the six built-in queries), every
   buffer and every address: the call returns Misaligned or completes; no panic, no misaligned or out-of-bounds
   reference, and the fuel |words|+1 of every parser loop suffices. *)
Theorem C13_api_no_fault : forall St A (V : visitor St) (init : St) (proj : St -> A) base bytes,
  bytes_len_ok bytes -> no_fault (api V false init proj base bytes).
Proof. exact @VersionInfoProofs.api_no_fault. Qed.
Print Assumptions C13_api_no_fault.

(* visit is the walk [pvisit] over the item lists of the nested parsers (items = the Ok items of a Parser run to exhaustion) *)
Theorem C13_visit_total : forall St (V : visitor St) base ws s,
  base mod 4 = 0 -> len_ok ws -> visit V false base ws s = Ok (pvisit V ws s).
Proof. exact @VersionInfoProofs.visit_pure. Qed.
Print Assumptions C13_visit_total.

(* (1) parse_tlv inverts the documented block layout: every key without NUL (either parity), every value
   (also empty), every children area, each of the three value-length conventions, padding that nothing follows
   present or omitted, followed by the sibling padding and anything else. *)
Theorem C13_parse_tlv_roundtrip : forall tight vl wtype f key value children pad rest,
  ~ In 0 key -> vl_field_ok vl f value ->
  let e := enc_tlv tight wtype f key value children in
  2 * lenN e < 65536 -> lenN rest + 65536 < W64 ->
  (pad = padw (lenN e) \/ (pad = [] /\ rest = [])) ->
  parse_tlv vl (e ++ pad ++ rest) =
  Ok ({| t_key := key; t_value := value; t_children := children;
         t_voff := 4 + lenN key + (if tight && isnil value && isnil children then 0 else lenN key mod 2) |}, rest).
Proof. exact VersionInfoProofs.parse_enc_tlv. Qed.
Print Assumptions C13_parse_tlv_roundtrip.

(* the same for any admissible gaps g1 g2 g3 (0 or 1 arbitrary words where padding is due, none where nothing follows) *)
Theorem C13_parse_tlv_shape : forall vl f wtype key g1 value g2 children g3 rest,
  let L := 4 + lenN key + lenN g1 + lenN value + lenN g2 + lenN children in
  ~ In 0 key -> L + 8 + lenN g3 + lenN rest < W64 -> vl_field_ok vl f value ->
  (lenN g1 = lenN key mod 2 \/ (g1 = [] /\ value = [] /\ g2 = [] /\ children = [])) ->
  (lenN g2 = lenN value mod 2 \/ (g2 = [] /\ children = [])) ->
  (lenN g3 = L mod 2 \/ (g3 = [] /\ rest = [])) ->
  parse_tlv vl ((2 * L :: f :: wtype :: key ++ 0 :: g1 ++ value ++ g2 ++ children) ++ g3 ++ rest)
  = Ok ({| t_key := key; t_value := value; t_children := children; t_voff := 4 + lenN key + lenN g1 |}, rest).
Proof. exact VersionInfoProofs.parse_tlv_shape. Qed.
Print Assumptions C13_parse_tlv_shape.

(* (4) containment: a parser yields at most one error and then nothing; it never faults; whatever a block
   yields (key, value, children) lies inside the block's own wLength words, in this order and without
   overlap, and the siblings are parsed from what follows the block *)
Theorem C13_parser_err_stops : forall vl ws e rest, len_ok ws ->
  parser_next vl ws = Some (Err e, rest) -> rest = [] /\ parser_next vl rest = None.
Proof. exact VersionInfoProofs.parser_err_stops. Qed.
Print Assumptions C13_parser_err_stops.

Theorem C13_parser_never_faults : forall vl ws f rest, len_ok ws -> parser_next vl ws <> Some (Fault f, rest).
Proof. exact VersionInfoProofs.parser_never_faults. Qed.
Print Assumptions C13_parser_never_faults.

Theorem C13_parse_tlv_contained : forall vl ws t rest, len_ok ws -> parse_tlv vl ws = Ok (t, rest) ->
  let L := N.max 4 (word ws 0 / 2) in
  L <= lenN ws /\ rest = drop (N.min (align2 L) (lenN ws)) ws /\
  (exists a b, take L ws = a ++ t_key t ++ b /\ lenN a = 3) /\
  (exists a b, take L ws = a ++ t_value t ++ b /\ lenN a = t_voff t) /\
  (exists a, take L ws = a ++ t_children t /\ t_voff t + lenN (t_value t) <= lenN a).
Proof. exact VersionInfoProofs.parse_tlv_contained. Qed.
Print Assumptions C13_parse_tlv_contained.

(* the event stream seen by an all-accepting visitor is [all_events]: the first well-formed top-level block,
   its blocks, tables, strings (value stripped of one trailing NUL) and variables in stored order *)
Theorem C13_events : forall base bytes, bytes_len_ok bytes ->
  api_events false 0 base bytes = if base mod 4 =? 0 then Ok (all_events (words_of bytes)) else Err EMisaligned.
Proof. exact VersionInfoProofs.api_events_spec. Qed.
Print Assumptions C13_events.

(* every visitor that accepts everything computes the fold of its callbacks over that event list *)
Theorem C13_accepting_visitor_is_fold : forall St (V : visitor St),
  (forall s k f, snd (v_version_info V s k f) = true) -> (forall s k, snd (v_file_info V s k) = true) ->
  (forall s k, snd (v_string_table V s k) = true) ->
  forall ws s, pvisit V ws s = fold_left (step V) (all_events ws) s.
Proof. exact @VersionInfoProofs.at_visit. Qed.
Print Assumptions C13_accepting_visitor_is_fold.

(* (3, part) fixed() and source_code() are the stated functions of the reported events *)
Theorem C13_queries_of_events : forall base bytes evs, bytes_len_ok bytes -> api_events false 0 base bytes = Ok evs ->
  api_fixed false base bytes = Ok (fixed_of evs) /\ api_source_code false base bytes = Ok (source_of evs).
Proof. exact VersionInfoProofs.queries_of_events. Qed.
Print Assumptions C13_queries_of_events.

(* translation() is the value of the last Translation variable among the reported events *)
Theorem C13_translation_of_events : forall base bytes evs, bytes_len_ok bytes -> api_events false 0 base bytes = Ok evs ->
  api_translation false base bytes = Ok (translation_of [] evs).
Proof. exact VersionInfoProofs.translation_of_events. Qed.
Print Assumptions C13_translation_of_events.

(* F12: the code as it stood panics on an odd-length key with nothing after its terminator *)
Theorem C13_F12_parse_tlv_orig_refuted : parse_tlv_orig VZero [10; 0; 0; 97; 0] = Fault PIndex.
Proof. exact VersionInfoProofs.f12_refuted. Qed.
Print Assumptions C13_F12_parse_tlv_orig_refuted.

(* F32: with two tables of one language the old FileInfo visitor loses the first table (value() finds A,
   the dump does not); the repaired one agrees with the report *)
Theorem C13_F32_file_info_orig_refuted :
  match visit (Recorder 0) false 0 f32_ws rc_init,
        visit (FileInfoV true) false 0 f32_ws fi_default,
        visit (FileInfoV false) false 0 f32_ws fi_default with
  | Ok r, Ok fo, Ok fn =>
    rc_events r = events_of f32_vi /\
    spec_value (1033, 1200) [65] (rc_events r) = Some [49] /\
    dump_lookup (fi_strings fo) (1033, 1200) [65] = None /\ dump_agrees (rc_events r) (fi_strings fo) = false /\
    dump_lookup (fi_strings fn) (1033, 1200) [65] = Some [49] /\ dump_agrees (rc_events r) (fi_strings fn) = true
  | _, _, _ => False
  end.
Proof. exact VersionInfoProofs.f32_refuted. Qed.
Print Assumptions C13_F32_file_info_orig_refuted.

(* non-vacuity: a complete resource (fixed info, translation, an unknown block, a table with an odd key and an
   embedded NUL, an absent value, an unterminated value) in both padding conventions is reported completely *)
Theorem C13_nonvacuous :
  vinfo_ok true demo_vi = true /\ vinfo_ok false demo_vi = true /\
  api_events false 0 4096 (flat_map le16 (encode true demo_vi)) = Ok (events_of demo_vi) /\
  api_events false 0 4096 (flat_map le16 (encode false demo_vi)) = Ok (events_of demo_vi) /\
  api_translation false 4096 (flat_map le16 (encode true demo_vi)) = Ok [(1033, 1200)] /\
  api_value false (1033, 1200) [65; 98; 99] 4096 (flat_map le16 (encode true demo_vi)) = Ok (Some [49; 0; 50]) /\
  api_strings false (1033, 1200) 4096 (flat_map le16 (encode true demo_vi)) = Ok [([65; 98; 99], [49; 0; 50]); ([75], []); ([75; 75], [120])] /\
  api_events false 0 4098 (flat_map le16 (encode true demo_vi)) = Err EMisaligned.
Proof. exact VersionInfoProofs.demo_roundtrip. Qed.
Print Assumptions C13_nonvacuous.

(* (2) the whole resource: for every abstract version resource the encoder can represent (every key NUL-free,
   every block - root, StringFileInfo, VarFileInfo, unknown blocks, each StringTable, String and Var - shorter
   than 65536 bytes, wLength being a u16) and both padding conventions, the report of its encoding is exactly
   [events_of]: fixed info as stored, every block, every (table, key, value) once and in stored order with one
   trailing NUL stripped, every variable with its words as stored *)
Theorem C13_events_roundtrip : forall tight v, vinfo_ok tight v = true -> all_events (encode tight v) = events_of v.
Proof. exact VersionInfoRoundtrip.events_roundtrip. Qed.
Print Assumptions C13_events_roundtrip.

(* the same through the API on the little-endian bytes at any 4-aligned address *)
Theorem C13_events_roundtrip_bytes : forall tight v base, vinfo_ok tight v = true ->
  Forall (fun w => w < 65536) (encode tight v) -> base mod 4 = 0 ->
  api_events false 0 base (flat_map le16 (encode tight v)) = Ok (events_of v).
Proof. exact VersionInfoRoundtrip.events_roundtrip_bytes. Qed.
Print Assumptions C13_events_roundtrip_bytes.

(* the round trip covers variables whose stored byte count is odd (wValueLength = 2n+1, the last byte being the low
   half of one more word): the report holds the n whole words, for an even and an odd n, in both conventions *)
Theorem C13_odd_byte_count_nonvacuous :
  let odd_vi := VersionInfoRoundtrip.odd_vi in
  vinfo_ok true odd_vi = true /\ vinfo_ok false odd_vi = true /\
  word (skipn 22 (encode true odd_vi)) 1 = 5 /\ word (skipn 42 (encode true odd_vi)) 1 = 3 /\
  api_events false 0 0 (flat_map le16 (encode true odd_vi)) =
    Ok [EvVersion [86] None; EvEnter 0; EvFile VarFileInfo; EvEnter 1; EvVar Translation [1033; 1200]; EvVar [65] [5]; EvExit 1; EvExit 0] /\
  api_events false 0 0 (flat_map le16 (encode false odd_vi)) = api_events false 0 0 (flat_map le16 (encode true odd_vi)) /\
  api_translation false 0 (flat_map le16 (encode true odd_vi)) = Ok [(1033, 1200)].
Proof. exact VersionInfoRoundtrip.odd_var_demo. Qed.
Print Assumptions C13_odd_byte_count_nonvacuous.

(* (3) value(lang, key), strings(lang) and file_info() are the stated functions of the reported events, although
   these visitors skip the tables of other languages (and value() every block but StringFileInfo):
   value = the last value reported under (lang, key), strings = the (key, value) pairs reported inside tables of
   that language in order, file_info = the fixed info, the last Translation variable and a map that holds exactly
   the languages of the reported tables and under each (language, key) the last reported value - tables of one
   language merged (the F32 repair) *)
Theorem C13_value_strings_file_info_of_events : forall base bytes evs lang key, bytes_len_ok bytes ->
  api_events false 0 base bytes = Ok evs ->
  api_value false lang key base bytes = Ok (spec_value lang key evs) /\
  api_strings false lang base bytes = Ok (spec_strings lang evs) /\
  (exists fi, api_file_info false false base bytes = Ok fi /\ fi_fixed fi = fixed_of evs /\
     fi_langs fi = translation_of [] evs /\ dump_agrees evs (fi_strings fi) = true).
Proof. exact VersionInfoQueries.value_strings_file_info_of_events. Qed.
Print Assumptions C13_value_strings_file_info_of_events.

(* (3) the single-value query, the per-language enumeration, the hash-map dump and the source-code rendering agree
   with one another: they are four views of one report [evs] - source_code() renders it line by line, strings(lang)
   lists its strings of that language, file_info().strings[lang] exists exactly when a table of that language is
   reported and holds under each key the last value strings(lang) lists under it, and value(lang, key) is that
   entry of the dump.  The last holds for every key without U+FFFD: a stored key with an unpaired surrogate is
   reported as U+FFFD by strings()/file_info() and is never matched by value(), which compares char by char. *)
Theorem C13_queries_agree : forall base bytes lang, bytes_len_ok bytes -> base mod 4 = 0 ->
  exists evs strs fi,
    api_events false 0 base bytes = Ok evs /\ api_strings false lang base bytes = Ok strs /\
    api_file_info false false base bytes = Ok fi /\ api_source_code false base bytes = Ok (source_of evs) /\
    strs = spec_strings lang evs /\
    (forall k, dump_lookup (fi_strings fi) lang k = last_value list_eqb k None strs) /\
    (hm_get lang_eqb lang (fi_strings fi) <> None <-> exists l, In (EvTable l) evs /\ lang_matches lang l = true) /\
    (forall key, ~ In 65533 key -> api_value false lang key base bytes = Ok (dump_lookup (fi_strings fi) lang key)).
Proof. exact VersionInfoQueries.queries_agree. Qed.
Print Assumptions C13_queries_agree.

(* the restriction is necessary: a stored key that is an unpaired surrogate is listed under U+FFFD, not found by value() *)
Theorem C13_value_lookup_needs_no_fffd :
  let bytes := flat_map le16 (encode true VersionInfoQueries.fffd_vi) in
  api_value false (1033, 1200) [65533] 0 bytes = Ok None /\
  match api_file_info false false 0 bytes with
  | Ok fi => dump_lookup (fi_strings fi) (1033, 1200) [65533] = Some [49]
  | _ => False
  end.
Proof. exact VersionInfoQueries.fffd_witness. Qed.
Print Assumptions C13_value_lookup_needs_no_fffd.

(* (4) containment, stronger form.  In the encoding of a well-formed resource, ONE string table [x] is replaced by
   arbitrary words [g] of the same length (any corruption inside that table, its header included).  Whatever [g]
   is, the report differs from the well-formed report [events_of v] only between the tables before [x] and the
   end of that StringFileInfo block: the root, every other block and every earlier table with all its strings are
   reported unchanged - the events before the malformed child are a prefix of the well-formed events.  If [g]
   keeps the table's own wLength word, then either the enumeration of the tables ends there ([mid = []]), or [g] is
   read as ONE table whose key, value and children are made of words of [g] only, followed by the unchanged
   reports of all later tables: no string is attributed to another table. *)
Theorem C13_corrupt_table_contained : forall tight key fixed bpre bpost tpre tpost x g,
  let v := {| vi_key := key; vi_fixed := fixed; vi_blocks := bpre ++ BStrings (tpre ++ x :: tpost) :: bpost |} in
  let frame mid :=
    [EvVersion key (fixed_opt fixed); EvEnter 0] ++ flat_map block_events bpre ++
    ([EvFile StringFileInfo; EvEnter 1] ++ flat_map table_events tpre ++ mid ++ [EvExit 1]) ++
    flat_map block_events bpost ++ [EvExit 0] in
  let corrupted :=
    encode_blocks tight key fixed
      (map (enc_block tight) bpre ++
       enc_strings_block tight (map (enc_table tight) tpre ++ g :: map (enc_table tight) tpost) ::
       map (enc_block tight) bpost) in
  vinfo_ok tight v = true -> lenN g = lenN (enc_table tight x) ->
  events_of v = frame (table_events x ++ flat_map table_events tpost) /\
  exists mid, all_events corrupted = frame mid /\
    (word g 0 = word (enc_table tight x) 0 ->
     mid = [] \/
     exists t, mid = ev_table t ++ flat_map table_events tpost /\
       (exists a b, g = a ++ t_key t ++ b) /\ (exists a b, g = a ++ t_value t ++ b) /\ (exists a, g = a ++ t_children t)).
Proof. exact VersionInfoContain.corrupt_table_contained. Qed.
Print Assumptions C13_corrupt_table_contained.

(* non-vacuity of (4): both outcomes occur in the resource of F32 (two tables of one language) - the first table
   with a non-zero wValueLength ends the enumeration of the tables; with another first key character it is
   reported under that key with its own strings and the second table is reported unchanged *)
Theorem C13_corrupt_table_nonvacuous :
  let t1 := VersionInfoContain.demo_t1 in let t2 := VersionInfoContain.demo_t2 in
  let g1 := VersionInfoContain.demo_g1 in let g2 := VersionInfoContain.demo_g2 in
  vinfo_ok false f32_vi = true /\ f32_vi = {| vi_key := [86; 83]; vi_fixed := []; vi_blocks := [] ++ BStrings ([] ++ t1 :: [t2]) :: [] |} /\
  lenN g1 = lenN (enc_table false t1) /\ word g1 0 = word (enc_table false t1) 0 /\
  lenN g2 = lenN (enc_table false t1) /\ word g2 0 = word (enc_table false t1) 0 /\
  all_events (VersionInfoContain.corrupted false [86; 83] [] [] [] [] [t2] g1) = VersionInfoContain.frame [86; 83] [] [] [] [] [] /\
  all_events (VersionInfoContain.corrupted false [86; 83] [] [] [] [] [t2] g2) =
    VersionInfoContain.frame [86; 83] [] [] [] []
      (table_events {| vt_key := 90 :: tl f32_lang; vt_strings := vt_strings t1 |} ++ table_events t2).
Proof. exact VersionInfoContain.corrupt_demo. Qed.
Print Assumptions C13_corrupt_table_nonvacuous.

(* (4) the same one level down: ONE String [s] of a table (key [xk], strings [spre ++ s :: spost]) is replaced by
   arbitrary words [g] of the same length.  The root, every other block, every other table with all its strings,
   and the strings before [s] in its own table are reported unchanged.  If [g] keeps the String's wLength word,
   either the enumeration of that table's strings ends there, or [g] is read as ONE string whose key and value
   are made of words of [g] only, followed by the unchanged later strings: a malformed String is never
   attributed to another key, table or language. *)
Theorem C13_corrupt_string_contained : forall tight key fixed bpre bpost tpre tpost xk spre spost s g,
  let x := {| vt_key := xk; vt_strings := spre ++ s :: spost |} in
  let v := {| vi_key := key; vi_fixed := fixed; vi_blocks := bpre ++ BStrings (tpre ++ x :: tpost) :: bpost |} in
  let frame mid :=
    [EvVersion key (fixed_opt fixed); EvEnter 0] ++ flat_map block_events bpre ++
    ([EvFile StringFileInfo; EvEnter 1] ++ flat_map table_events tpre ++
     ([EvTable xk; EvEnter 2] ++ map string_event spre ++ mid ++ [EvExit 2]) ++
     flat_map table_events tpost ++ [EvExit 1]) ++
    flat_map block_events bpost ++ [EvExit 0] in
  let corrupted :=
    encode_blocks tight key fixed
      (map (enc_block tight) bpre ++
       enc_strings_block tight
         (map (enc_table tight) tpre ++
          enc_table_strings tight xk (map (enc_string tight) spre ++ g :: map (enc_string tight) spost) ::
          map (enc_table tight) tpost) ::
       map (enc_block tight) bpost) in
  vinfo_ok tight v = true -> lenN g = lenN (enc_string tight s) ->
  events_of v = frame (string_event s :: map string_event spost) /\
  exists mid, all_events corrupted = frame mid /\
    (word g 0 = word (enc_string tight s) 0 ->
     mid = [] \/
     exists t, mid = ev_string t :: map string_event spost /\
       (exists a b, g = a ++ t_key t ++ b) /\ (exists a b, g = a ++ t_value t ++ b)).
Proof. exact VersionInfoContain.corrupt_string_contained. Qed.
Print Assumptions C13_corrupt_string_contained.
