(* C13 - Version information is reported completely and unaltered.
   Statements only; every proof is [exact <lemma>].  The resource is a list of u16 words (a byte buffer at
   address [base] for the api_* functions); "false" selects the repaired code (F12, F32). *)
From PV.Model Require Import Machine VersionInfo.
From PV.Spec Require Import TlvEnc.
From PV.Proofs Require VersionInfoProofs.
Import VersionInfoProofs.

(* (5) For every visitor (every implementation of the Visit trait, in particular the six built-in queries), every
   buffer and every address: the call returns Misaligned or completes; no panic, no misaligned or out-of-bounds
   reference, and the fuel |words|+1 of every parser loop suffices. *)
Theorem C13_api_no_fault : forall St A (V : visitor St) (init : St) (proj : St -> A) base bytes,
  bytes_len_ok bytes -> no_fault (api V false init proj base bytes).
Proof. exact @VersionInfoProofs.api_no_fault. Qed.
Print Assumptions C13_api_no_fault.

(* visit is the walk [pvisit] over the item lists of the nested parsers (items = the Ok items of a Parser run to exhaustion) *)
Theorem C13_visit_total : forall St (V : visitor St) base ws s,
  base mod 4 = 0 -> len_ok ws -> visit V false base ws s = Ok (pvisit V ws s).
Proof. exact @VersionInfoProofs.visit_pure. Qed.
Print Assumptions C13_visit_total.

(* (1) parse_tlv inverts the documented block layout: every key without NUL (either parity), every value
   (also empty), every children area, each of the three value-length conventions, padding that nothing follows
   present or omitted, followed by the sibling padding and anything else. *)
Theorem C13_parse_tlv_roundtrip : forall tight vl wtype f key value children pad rest,
  ~ In 0 key -> vl_field_ok vl f value ->
  let e := enc_tlv tight wtype f key value children in
  2 * lenN e < 65536 -> lenN rest + 65536 < W64 ->
  (pad = padw (lenN e) \/ (pad = [] /\ rest = [])) ->
  parse_tlv vl (e ++ pad ++ rest) =
  Ok ({| t_key := key; t_value := value; t_children := children;
         t_voff := 4 + lenN key + (if tight && isnil value && isnil children then 0 else lenN key mod 2) |}, rest).
Proof. exact VersionInfoProofs.parse_enc_tlv. Qed.
Print Assumptions C13_parse_tlv_roundtrip.

(* the same for any admissible gaps g1 g2 g3 (0 or 1 arbitrary words where padding is due, none where nothing follows) *)
Theorem C13_parse_tlv_shape : forall vl f wtype key g1 value g2 children g3 rest,
  let L := 4 + lenN key + lenN g1 + lenN value + lenN g2 + lenN children in
  ~ In 0 key -> L + 8 + lenN g3 + lenN rest < W64 -> vl_field_ok vl f value ->
  (lenN g1 = lenN key mod 2 \/ (g1 = [] /\ value = [] /\ g2 = [] /\ children = [])) ->
  (lenN g2 = lenN value mod 2 \/ (g2 = [] /\ children = [])) ->
  (lenN g3 = L mod 2 \/ (g3 = [] /\ rest = [])) ->
  parse_tlv vl ((2 * L :: f :: wtype :: key ++ 0 :: g1 ++ value ++ g2 ++ children) ++ g3 ++ rest)
  = Ok ({| t_key := key; t_value := value; t_children := children; t_voff := 4 + lenN key + lenN g1 |}, rest).
Proof. exact VersionInfoProofs.parse_tlv_shape. Qed.
Print Assumptions C13_parse_tlv_shape.

(* (4) containment: a parser yields at most one error and then nothing; it never faults; whatever a block
   yields (key, value, children) lies inside the block's own wLength words, in this order and without
   overlap, and the siblings are parsed from what follows the block *)
Theorem C13_parser_err_stops : forall vl ws e rest, len_ok ws ->
  parser_next vl ws = Some (Err e, rest) -> rest = [] /\ parser_next vl rest = None.
Proof. exact VersionInfoProofs.parser_err_stops. Qed.
Print Assumptions C13_parser_err_stops.

Theorem C13_parser_never_faults : forall vl ws f rest, len_ok ws -> parser_next vl ws <> Some (Fault f, rest).
Proof. exact VersionInfoProofs.parser_never_faults. Qed.
Print Assumptions C13_parser_never_faults.

Theorem C13_parse_tlv_contained : forall vl ws t rest, len_ok ws -> parse_tlv vl ws = Ok (t, rest) ->
  let L := N.max 4 (word ws 0 / 2) in
  L <= lenN ws /\ rest = drop (N.min (align2 L) (lenN ws)) ws /\
  (exists a b, take L ws = a ++ t_key t ++ b /\ lenN a = 3) /\
  (exists a b, take L ws = a ++ t_value t ++ b /\ lenN a = t_voff t) /\
  (exists a, take L ws = a ++ t_children t /\ t_voff t + lenN (t_value t) <= lenN a).
Proof. exact VersionInfoProofs.parse_tlv_contained. Qed.
Print Assumptions C13_parse_tlv_contained.

(* the event stream seen by an all-accepting visitor is [all_events]: the first well-formed top-level block,
   its blocks, tables, strings (value stripped of one trailing NUL) and variables in stored order *)
Theorem C13_events : forall base bytes, bytes_len_ok bytes ->
  api_events false 0 base bytes = if base mod 4 =? 0 then Ok (all_events (words_of bytes)) else Err EMisaligned.
Proof. exact VersionInfoProofs.api_events_spec. Qed.
Print Assumptions C13_events.

(* every visitor that accepts everything computes the fold of its callbacks over that event list *)
Theorem C13_accepting_visitor_is_fold : forall St (V : visitor St),
  (forall s k f, snd (v_version_info V s k f) = true) -> (forall s k, snd (v_file_info V s k) = true) ->
  (forall s k, snd (v_string_table V s k) = true) ->
  forall ws s, pvisit V ws s = fold_left (step V) (all_events ws) s.
Proof. exact @VersionInfoProofs.at_visit. Qed.
Print Assumptions C13_accepting_visitor_is_fold.

(* (3, part) fixed() and source_code() are the stated functions of the reported events *)
Theorem C13_queries_of_events : forall base bytes evs, bytes_len_ok bytes -> api_events false 0 base bytes = Ok evs ->
  api_fixed false base bytes = Ok (fixed_of evs) /\ api_source_code false base bytes = Ok (source_of evs).
Proof. exact VersionInfoProofs.queries_of_events. Qed.
Print Assumptions C13_queries_of_events.

(* translation() is the value of the last Translation variable among the reported events *)
Theorem C13_translation_of_events : forall base bytes evs, bytes_len_ok bytes -> api_events false 0 base bytes = Ok evs ->
  api_translation false base bytes = Ok (translation_of [] evs).
Proof. exact VersionInfoProofs.translation_of_events. Qed.
Print Assumptions C13_translation_of_events.

(* F12: the code as it stood panics on an odd-length key with nothing after its terminator *)
Theorem C13_F12_parse_tlv_orig_refuted : parse_tlv_orig VZero [10; 0; 0; 97; 0] = Fault PIndex.
Proof. exact VersionInfoProofs.f12_refuted. Qed.
Print Assumptions C13_F12_parse_tlv_orig_refuted.

(* F32: with two tables of one language the old FileInfo visitor loses the first table (value() finds A,
   the dump does not); the repaired one agrees with the report *)
Theorem C13_F32_file_info_orig_refuted :
  match visit (Recorder 0) false 0 f32_ws rc_init,
        visit (FileInfoV true) false 0 f32_ws fi_default,
        visit (FileInfoV false) false 0 f32_ws fi_default with
  | Ok r, Ok fo, Ok fn =>
    rc_events r = events_of f32_vi /\
    spec_value (1033, 1200) [65] (rc_events r) = Some [49] /\
    dump_lookup (fi_strings fo) (1033, 1200) [65] = None /\ dump_agrees (rc_events r) (fi_strings fo) = false /\
    dump_lookup (fi_strings fn) (1033, 1200) [65] = Some [49] /\ dump_agrees (rc_events r) (fi_strings fn) = true
  | _, _, _ => False
  end.
Proof. exact VersionInfoProofs.f32_refuted. Qed.
Print Assumptions C13_F32_file_info_orig_refuted.

(* non-vacuity: a complete resource (fixed info, translation, an unknown block, a table with an odd key and an
   embedded NUL, an absent value, an unterminated value) in both padding conventions is reported completely *)
Theorem C13_nonvacuous :
  vinfo_ok true demo_vi = true /\ vinfo_ok false demo_vi = true /\
  api_events false 0 4096 (flat_map le16 (encode true demo_vi)) = Ok (events_of demo_vi) /\
  api_events false 0 4096 (flat_map le16 (encode false demo_vi)) = Ok (events_of demo_vi) /\
  api_translation false 4096 (flat_map le16 (encode true demo_vi)) = Ok [(1033, 1200)] /\
  api_value false (1033, 1200) [65; 98; 99] 4096 (flat_map le16 (encode true demo_vi)) = Ok (Some [49; 0; 50]) /\
  api_strings false (1033, 1200) 4096 (flat_map le16 (encode true demo_vi)) = Ok [([65; 98; 99], [49; 0; 50]); ([75], []); ([75; 75], [120])] /\
  api_events false 0 4098 (flat_map le16 (encode true demo_vi)) = Err EMisaligned.
Proof. exact VersionInfoProofs.demo_roundtrip. Qed.
Print Assumptions C13_nonvacuous.

(* OPEN: C13_events_roundtrip : forall tight v, vinfo_ok tight v = true -> all_events (encode tight v) = events_of v
   (checked on every generated uncorrupted case by the oracle, and on demo_vi / f32_vi by computation) *)
(* OPEN: C13_value_strings_file_info_of_events : forall base bytes evs lang key, bytes_len_ok bytes ->
   api_events false 0 base bytes = Ok evs ->
   api_value false lang key base bytes = Ok (spec_value lang key evs) /\
   api_strings false lang base bytes = Ok (spec_strings lang evs) /\
   (exists fi, api_file_info false false base bytes = Ok fi /\ fi_fixed fi = fixed_of evs /\
      fi_langs fi = translation_of [] evs /\ dump_agrees evs (fi_strings fi) = true)
   (evaluated by the oracle on the implementation's observations of every case) *)
