(* C10 - The scanner reports exactly the positions where the pattern matches.
   Statements only; every proof is [exact <lemma>].  Open statements are listed at the end. *)
From PV.Model Require Import Machine Mapping Views Pattern Exec ScanView Scanner.
From PV.Spec Require Import MappingSpec ScanSpec.
From PV.Proofs Require ViewsProofs ScannerProofs ExecSaveProofs ScannerIterProofs ScannerOverlapProofs.
Import ScannerProofs ExecSaveProofs ScannerIterProofs ScannerOverlapProofs.

(* Theorems 1 and 6 (soundness, no fault, termination measure).  For EVERY view (file or mapped, any section table),
   pattern, save array and range - also reversed, empty, beyond the image, starting in a virtual-only tail - one call of
   Matches::next returns a verdict (no panic, no fault, within the stated fuel); range.end is untouched, the invariant
   hits <= range.start is kept (so the counter cannot overflow), range.start never moves backwards and stays below
   max(range.start, range.end); and when the call returns true there is a position c with
   range.start_before <= c < range.end at which Scanner::exec succeeds with exactly the returned captures, and the
   new range.start lies strictly beyond c - hence successive reports are strictly ascending and their number is
   bounded by the length of the range. *)
Theorem C10_next_total_sound : forall v pat, ViewsProofs.view_ok v -> v_len v < W32 ->
  forall st save, m_end st < W32 -> m_hits st <= m_start st ->
  exists ok st' save', next v pat st save = Ok (ok, st', save') /\
    m_end st' = m_end st /\ m_hits st' <= m_start st' /\ m_start st <= m_start st' /\
    m_start st' <= N.max (m_start st) (m_end st) /\
    (ok = true -> exists c s_in, m_start st <= c /\ c < m_end st /\ c < m_start st' /\
                                 view_exec v pat c s_in = Ok (true, save')).
Proof. exact ScannerProofs.next_total_sound. Qed.
Print Assumptions C10_next_total_sound.

(* Theorem 2, scanner side: the search prefix is the literal prefix of the pattern - the bytes of the leading Byte atoms,
   looking through Save/Aligned/Nop - and has at most 16 bytes. *)
Theorem C10_setup_is_literal_prefix : forall pat, setup pat = literal_prefix pat 16 /\ lenN (setup pat) <= 16.
Proof. exact ScannerProofs.setup_spec. Qed.
Print Assumptions C10_setup_is_literal_prefix.

(* Theorem 3 (Horspool).  The table built at scanner.rs:525 is qslen - 1 - (last index below qslen-1 holding the byte),
   or qslen when the byte does not occur there ... *)
Theorem C10_jump_table : forall qs c,
  ((forall k, (k < length qs - 1)%nat -> nth k qs 0 <> c) /\ jumps qs c = lenN qs) \/
  (exists k, (k < length qs - 1)%nat /\ nth k qs 0 = c /\
             (forall k', (k < k')%nat -> (k' < length qs - 1)%nat -> nth k' qs 0 <> c) /\
             jumps qs c = lenN qs - N.of_nat k - 1).
Proof. exact ScannerProofs.jumps_characterised. Qed.
Print Assumptions C10_jump_table.
(* ... and shifting by it is safe: the prefix occurs nowhere strictly between the window and the shifted window *)
Theorem C10_shift_safe : forall get qs off i j, qs <> [] ->
  i < j -> j < i + jumps qs (get (off + i + (lenN qs - 1))) -> slice_eq get (off + j) qs = false.
Proof. exact ScannerProofs.shift_safe. Qed.
Print Assumptions C10_shift_safe.

(* Theorem 5, structural part: finds never faults, returns the save array of the FIRST call untouched by the
   uniqueness probe, and is true exactly when the first call reports a match and a second call (made on the empty
   save array) reports none. *)
Theorem C10_finds : forall v pat rs re save, ViewsProofs.view_ok v -> v_len v < W32 -> re < W32 ->
  exists b ok1 st1 save1, finds v pat rs re save = Ok (b, save1) /\
    next v pat (matches rs re) save = Ok (ok1, st1, save1) /\
    (b = true <-> ok1 = true /\ exists st2 sv2, next v pat st1 [] = Ok (false, st2, sv2)).
Proof. exact ScannerProofs.finds_spec. Qed.
Print Assumptions C10_finds.

(* Theorem 2, interpreter side (prefix lemma): a successful execution at c has read the literal prefix byte by byte
   at c, c+1, ... (equality under the byte mask 0xff, i.e. equality for bytes) *)
Theorem C10_exec_reads_prefix : forall v pat c s s', view_exec v pat c s = Ok (true, s') ->
  forall k, (k < length (setup pat))%nat ->
  exists x, sc_read (scan_of_view v) 1 (c + N.of_nat k) = Some x /\ N.land x 255 = N.land (nth k (setup pat) 0) 255.
Proof. exact ScannerProofs.view_exec_reads_prefix. Qed.
Print Assumptions C10_exec_reads_prefix.

(* Theorem 4 (completeness), per call.  [Eall ex p]: executing at p succeeds whatever the save array holds (for
   patterns without Check/Pir this is "exec succeeds at p").  [win qs] = 1 for prefixes shorter than 4 (strategies 0
   and 1), |qs| otherwise (strategy 2).
   Mapped view: every position the call moves range.start past, other than the reported one, that lies at least
   win bytes before the end of the range and of the image, does NOT match; and when the call returns false no such
   position at or after range.start matches.  Hence the three strategies report the same obliged positions. *)
Theorem C10_next_complete_mapped : forall v pat, ViewsProofs.view_ok v -> v_len v < W32 -> v_file v = false ->
  (forall i, v_get v i < 256) -> bytes_ok (setup pat) ->
  forall st save, m_end st < W32 -> m_hits st <= m_start st ->
  exists ok st' save', next v pat st save = Ok (ok, st', save') /\
    if ok then exists c s_in, m_start st <= c /\ c < m_start st' /\ view_exec v pat c s_in = Ok (true, save') /\
        forall p, m_start st <= p -> p < m_start st' -> p <> c -> p + win (setup pat) <= N.min (m_end st) (v_len v) ->
                  ~ Eall (view_exec v pat) p
    else forall p, m_start st <= p -> p + win (setup pat) <= N.min (m_end st) (v_len v) -> ~ Eall (view_exec v pat) p.
Proof. exact ScannerProofs.next_complete_mapped. Qed.
Print Assumptions C10_next_complete_mapped.

(* File view, outside the known class (table sorted by VirtualAddress) and with every virtual extent below 2^32:
   [obl v pat rend secs p]: p lies in the first section s of the table whose virtual extent contains it, the raw data
   of s lies inside the file, p is mapped (p - VA < VirtualSize) and p + win <= min(range.end, VA + SizeOfRawData). *)
Theorem C10_next_complete_file : forall v pat, ViewsProofs.view_ok v -> v_len v < W32 -> v_file v = true ->
  (forall i, v_get v i < 256) -> bytes_ok (setup pat) ->
  sorted_by_va (v_secs v) = true -> sections_sane (v_secs v) = true ->
  forall st save, m_end st < W32 -> m_hits st <= m_start st ->
  exists ok st' save', next v pat st save = Ok (ok, st', save') /\
    if ok then exists c s_in, m_start st <= c /\ c < m_start st' /\ view_exec v pat c s_in = Ok (true, save') /\
        forall p, m_start st <= p -> p < m_start st' -> p <> c -> obl v pat (m_end st) (v_secs v) p -> ~ Eall (view_exec v pat) p
    else forall p, m_start st <= p -> obl v pat (m_end st) (v_secs v) p -> ~ Eall (view_exec v pat) p.
Proof. exact ScannerProofs.next_complete_file. Qed.
Print Assumptions C10_next_complete_file.

(* F9, the code as it stood before the repair, refuted on four witnesses (and the repaired code on the same inputs) *)
Theorem C10_F9_next_orig_refuted :
  let tail := wit_view true 1536 [{| s_va := 4096; s_vs := 1024; s_prd := 1024; s_srd := 512 |}] in
  let mapped := wit_view false 4608 [{| s_va := 4096; s_vs := 256; s_prd := 4096; s_srd := 256 |}] in
  let high := wit_view true 9216 [{| s_va := 4294963200; s_vs := 2048; s_prd := 1024; s_srd := 8192 |}] in
  next_orig tail wit_pat (matches 4864 5120) [0] = Fault PSliceOrder /\
  next tail wit_pat (matches 4864 5120) [0] = Ok (false, {| m_start := 4864; m_end := 5120; m_hits := 0 |}, [0]) /\
  next_orig mapped wit_pat (matches 4700 4800) [0] = Fault PSliceOrder /\
  next mapped wit_pat (matches 4700 4800) [0] = Ok (false, {| m_start := 4700; m_end := 4800; m_hits := 0 |}, [0]) /\
  next_orig tail wit_pat (matches 4200 4150) [0] = Fault PSliceOrder /\
  next tail wit_pat (matches 4200 4150) [0] = Ok (false, {| m_start := 4200; m_end := 4150; m_hits := 0 |}, [0]) /\
  next_orig high wit_pat (matches 4294963200 4294967295) [0] = Fault POverflow /\
  next high wit_pat (matches 4294963200 4294967295) [0] = Ok (false, {| m_start := 4294967295; m_end := 4294967295; m_hits := 2 |}, [4294963472]).
Proof. exact ScannerProofs.next_orig_refuted. Qed.
Print Assumptions C10_F9_next_orig_refuted.

(* F28, known class sections_not_sorted: an obliged matching position that the iteration never reports *)
Theorem C10_F28_sections_not_sorted_witness :
  let v := wit_view true 1536 [{| s_va := 8192; s_vs := 256; s_prd := 1280; s_srd := 256 |};
                               {| s_va := 4096; s_vs := 256; s_prd := 1024; s_srd := 256 |}] in
  sections_not_sorted v = true /\
  must_report v (window wit_pat) 0 12288 4112 = true /\
  view_exec v wit_pat 4112 [0] = Ok (true, [4112]) /\
  iterate 3 v wit_pat (matches 0 12288) [0]
  = Ok [(true, {| m_start := 8209; m_end := 12288; m_hits := 1 |}, [8208]);
        (false, {| m_start := 8448; m_end := 12288; m_hits := 1 |}, [8208])].
Proof. exact ScannerProofs.sections_not_sorted_witness. Qed.
Print Assumptions C10_F28_sections_not_sorted_witness.


(* the prefix buffer length of the model is QS_BUF_LEN of src/pe64/scanner.rs, regenerated on every run *)
From PV.gen Require Consts.
From PV.Proofs Require ConstsScanner.
Theorem C10_constants_match_source : N.of_nat Scanner.QS_BUF_LEN = Consts.K_QS_BUF_LEN.
Proof. exact ConstsScanner.scanner_consts. Qed.
Print Assumptions C10_constants_match_source.

Example C10_nonvacuous :
  let v := wit_view true 1536 [{| s_va := 4096; s_vs := 256; s_prd := 1024; s_srd := 256 |};
                               {| s_va := 8192; s_vs := 256; s_prd := 1280; s_srd := 256 |}] in
  sections_not_sorted v = false /\
  iterate 3 v wit_pat (matches 0 12288) [0]
  = Ok [(true, {| m_start := 4113; m_end := 12288; m_hits := 1 |}, [4112]);
        (true, {| m_start := 8209; m_end := 12288; m_hits := 2 |}, [8208]);
        (false, {| m_start := 8448; m_end := 12288; m_hits := 2 |}, [8208])] /\
  finds v wit_pat 0 8192 [0] = Ok (true, [4112]) /\ finds v wit_pat 0 12288 [0] = Ok (false, [4112]).
Proof. exact ScannerProofs.nonvacuous_example. Qed.

(* ---------------------------------------------------------------------------------------------------------------
   Second round.  [reads_no_saves pat]: the pattern has no Check and no Pir atom (forallb nosave_atom pat = true).
   [writes w s]: the array s after the sequence w of writes `if slot < len { save[slot] = value }`, oldest first. *)

(* Theorem 5, the lemma it needed.  For a pattern without Check/Pir the save array is write-only: at every cursor the
   verdict is fixed by (view, pattern, cursor) and the outgoing array is the incoming one with a fixed write log
   applied - for EVERY incoming array, of any length (the empty array of the uniqueness probe included). *)
Theorem C10_exec_verdict_ignores_saves : forall v pat, reads_no_saves pat -> ViewsProofs.view_ok v -> v_len v < W32 ->
  forall c, exists ok w, forall s, view_exec v pat c s = Ok (ok, writes w s).
Proof. exact ScannerIterProofs.view_exec_log. Qed.
Print Assumptions C10_exec_verdict_ignores_saves.

(* the same without any hypothesis on the view: the whole outcome, faults included, ignores the incoming array *)
Theorem C10_exec_outcome_ignores_saves : forall v pat, reads_no_saves pat ->
  forall c, exists o : res (bool * list (N * N)), forall s, view_exec v pat c s =
    match o with Ok (ok, w) => Ok (ok, writes w s) | Err e => Err e | Fault f => Fault f end.
Proof. exact ScannerIterProofs.view_exec_outcome. Qed.
Print Assumptions C10_exec_outcome_ignores_saves.

(* what a write log leaves in a slot the array has: the last value written to it, else what was there *)
Theorem C10_writes_slot : forall w s n, (n < length s)%nat ->
  nth_error (writes w s) n = match last_write w n with Some x => Some x | None => nth_error s n end.
Proof. exact ExecSaveProofs.writes_nth. Qed.
Print Assumptions C10_writes_slot.

(* two incoming arrays: same verdict, lengths kept, and every slot both arrays have either holds the same written
   value afterwards or was not written and keeps what each array held *)
Theorem C10_exec_two_arrays : forall v pat, reads_no_saves pat -> ViewsProofs.view_ok v -> v_len v < W32 ->
  forall c s1 s2 ok s1', view_exec v pat c s1 = Ok (ok, s1') ->
  exists s2', view_exec v pat c s2 = Ok (ok, s2') /\ length s1' = length s1 /\ length s2' = length s2 /\
    forall n, (n < length s1)%nat -> (n < length s2)%nat ->
      (exists x, nth_error s1' n = Some x /\ nth_error s2' n = Some x) \/
      (nth_error s1' n = nth_error s1 n /\ nth_error s2' n = nth_error s2 n).
Proof. exact ScannerIterProofs.view_exec_two_arrays. Qed.
Print Assumptions C10_exec_two_arrays.

(* hence the [Eall] of the completeness theorems is plain success, on whatever array one tries *)
Theorem C10_Eall_is_success : forall v pat, reads_no_saves pat -> ViewsProofs.view_ok v -> v_len v < W32 ->
  forall p s, Eall (view_exec v pat) p <-> exists s', view_exec v pat p s = Ok (true, s').
Proof. exact ScannerIterProofs.Eall_is_success. Qed.
Print Assumptions C10_Eall_is_success.

(* the parser of C11 (Model/Pattern.v) never emits Check or Pir: every pattern it accepts is write-only *)
Theorem C10_parse_reads_no_saves : forall input p, parse input = Ok (inr p) -> reads_no_saves p.
Proof. exact ExecSaveProofs.parse_reads_no_saves. Qed.
Print Assumptions C10_parse_reads_no_saves.

(* Matches::next as a whole: verdict, new range and counter are fixed by (view, pattern, state); the caller's array
   receives a fixed write log *)
Theorem C10_next_ignores_saves : forall v pat, reads_no_saves pat -> ViewsProofs.view_ok v -> v_len v < W32 ->
  forall st, m_end st < W32 -> m_hits st <= m_start st ->
  exists ok st' w, forall s, next v pat st s = Ok (ok, st', writes w s).
Proof. exact ScannerIterProofs.next_log. Qed.
Print Assumptions C10_next_ignores_saves.

(* Theorem 4 packaged: `while matches.next(&mut save) { .. }`.
   [iterate n v pat st save] makes at most n calls and stops after the first false; l lists the outcomes
   (verdict, Matches value, save array) of the calls.  [run_sound v pat lo rend l cs] - unfolded here - says: every
   call but the last returned true and the last returned false (the iteration ran to exhaustion); the reported
   positions cs are strictly ascending; the i-th lies in [lo, rend), below the i-th call's new range.start, and exec
   succeeds there with exactly the captures the i-th call returned. *)
Theorem C10_run_sound_unfold : forall v pat lo rend l cs, run_sound v pat lo rend l cs <->
  (map ok_of_call l = repeat true (length cs) ++ [false] /\
   ascending cs = true /\
   forall i c, nth_error cs i = Some c ->
     lo <= c /\ c < rend /\
     exists st_i sv_i s_in, nth_error l i = Some (true, st_i, sv_i) /\ c < m_start st_i /\
                            view_exec v pat c s_in = Ok (true, sv_i)).
Proof. exact ScannerIterProofs.run_sound_unfold. Qed.
Print Assumptions C10_run_sound_unfold.

(* EVERY view, pattern, save array and range: (range.end - range.start) + 1 calls suffice to exhaust the iteration
   (no fault, no fuel exhaustion) and the run is sound *)
Theorem C10_iteration_sound : forall v pat, ViewsProofs.view_ok v -> v_len v < W32 ->
  forall n st save, m_end st < W32 -> m_hits st <= m_start st -> (N.to_nat (m_end st - m_start st) < n)%nat ->
  exists l cs, iterate n v pat st save = Ok l /\ run_sound v pat (m_start st) (m_end st) l cs.
Proof. exact ScannerIterProofs.iteration_sound. Qed.
Print Assumptions C10_iteration_sound.

(* mapped view, any pattern: moreover every obliged position at which exec succeeds whatever the array holds is
   reported exactly once *)
Theorem C10_iteration_complete_mapped : forall v pat, ViewsProofs.view_ok v -> v_len v < W32 ->
  (forall i, v_get v i < 256) -> bytes_ok (setup pat) ->
  forall n st save, v_file v = false -> m_end st < W32 -> m_hits st <= m_start st ->
  (N.to_nat (m_end st - m_start st) < n)%nat ->
  exists l cs, iterate n v pat st save = Ok l /\ run_sound v pat (m_start st) (m_end st) l cs /\
    forall p, m_start st <= p -> p + win (setup pat) <= N.min (m_end st) (v_len v) -> Eall (view_exec v pat) p ->
              count_occ N.eq_dec cs p = 1%nat.
Proof. exact ScannerIterProofs.iteration_mapped. Qed.
Print Assumptions C10_iteration_complete_mapped.

(* file view, table sorted by VirtualAddress, extents below 2^32 *)
Theorem C10_iteration_complete_file : forall v pat, ViewsProofs.view_ok v -> v_len v < W32 ->
  (forall i, v_get v i < 256) -> bytes_ok (setup pat) ->
  forall n st save, v_file v = true -> sorted_by_va (v_secs v) = true -> sections_sane (v_secs v) = true ->
  m_end st < W32 -> m_hits st <= m_start st -> (N.to_nat (m_end st - m_start st) < n)%nat ->
  exists l cs, iterate n v pat st save = Ok l /\ run_sound v pat (m_start st) (m_end st) l cs /\
    forall p, m_start st <= p -> obl v pat (m_end st) (v_secs v) p -> Eall (view_exec v pat) p ->
              count_occ N.eq_dec cs p = 1%nat.
Proof. exact ScannerIterProofs.iteration_file. Qed.
Print Assumptions C10_iteration_complete_file.

(* the boolean obligation of the run-time oracle implies the Prop obligation of the theorems (window >= win) *)
Theorem C10_must_report_obl : forall v pat rs re p, must_report v (window pat) rs re p = true ->
  rs <= p /\
  if v_file v then sections_sane (v_secs v) = true /\ obl v pat re (v_secs v) p
  else p + win (setup pat) <= N.min re (v_len v).
Proof. exact ScannerIterProofs.must_report_obl. Qed.
Print Assumptions C10_must_report_obl.

(* THE PROPERTY, in the vocabulary of the oracle (Spec/ScanSpec.v).  File or mapped view outside the known class
   sections_not_sorted, pattern that does not read the save array (every parser output): iterating next to exhaustion
   reports - strictly ascending, each a match inside the range - every position that must_report obliges and at
   which Scanner::exec succeeds (on any array), exactly once. *)
Theorem C10_iteration_enumerates : forall v pat, ViewsProofs.view_ok v -> v_len v < W32 ->
  (forall i, v_get v i < 256) -> bytes_ok (setup pat) -> sections_not_sorted v = false -> reads_no_saves pat ->
  forall n st save, m_end st < W32 -> m_hits st <= m_start st -> (N.to_nat (m_end st - m_start st) < n)%nat ->
  exists l cs, iterate n v pat st save = Ok l /\ run_sound v pat (m_start st) (m_end st) l cs /\
    forall p s s', must_report v (window pat) (m_start st) (m_end st) p = true -> view_exec v pat p s = Ok (true, s') ->
                   count_occ N.eq_dec cs p = 1%nat.
Proof. exact ScannerIterProofs.iteration_enumerates. Qed.
Print Assumptions C10_iteration_enumerates.

(* Theorem 5 complete.  finds returns true exactly when the iteration on the caller's array reports exactly one
   position (cs has length 1; cs contains every obliged matching position once, so: exactly one report, and no other
   obliged match).  The array it returns is the first call's; when a position c was reported it is the write log of
   the execution at c applied to an array of the caller's length, hence agrees with a fresh execution at c on every
   slot that execution writes (captures_ok of the Spec). *)
Theorem C10_finds_exact : forall v pat, ViewsProofs.view_ok v -> v_len v < W32 ->
  (forall i, v_get v i < 256) -> bytes_ok (setup pat) -> sections_not_sorted v = false -> reads_no_saves pat ->
  forall rs re save, re < W32 ->
  exists b save1 l cs, finds v pat rs re save = Ok (b, save1) /\
    iterate (S (N.to_nat (re - rs))) v pat (matches rs re) save = Ok l /\
    run_sound v pat rs re l cs /\
    (forall p s s', must_report v (window pat) rs re p = true -> view_exec v pat p s = Ok (true, s') ->
                    count_occ N.eq_dec cs p = 1%nat) /\
    (b = true <-> length cs = 1%nat) /\
    (exists ok1 st1, nth_error l 0 = Some (ok1, st1, save1)) /\ length save1 = length save /\
    forall c, nth_error cs 0 = Some c ->
      (exists w s_in, (forall s, view_exec v pat c s = Ok (true, writes w s)) /\ length s_in = length save /\
                      save1 = writes w s_in) /\
      forall fill fresh, view_exec v pat c (repeat fill (length save)) = Ok (true, fresh) ->
                         captures_ok fill save1 fresh = true.
Proof. exact ScannerIterProofs.finds_exact. Qed.
Print Assumptions C10_finds_exact.

(* the same on ANY view (unsorted tables, bytes not assumed): finds is "exactly one report" *)
Theorem C10_finds_one_report : forall v pat, reads_no_saves pat -> ViewsProofs.view_ok v -> v_len v < W32 ->
  forall rs re save, re < W32 ->
  exists b save1 l cs, finds v pat rs re save = Ok (b, save1) /\
    iterate (S (N.to_nat (re - rs))) v pat (matches rs re) save = Ok l /\
    run_sound v pat rs re l cs /\ (b = true <-> length cs = 1%nat) /\
    (exists ok1 st1, nth_error l 0 = Some (ok1, st1, save1)) /\ length save1 = length save /\
    forall c, nth_error cs 0 = Some c ->
      (exists w s_in, (forall s, view_exec v pat c s = Ok (true, writes w s)) /\ length s_in = length save /\
                      save1 = writes w s_in) /\
      forall fill fresh, view_exec v pat c (repeat fill (length save)) = Ok (true, fresh) ->
                         captures_ok fill save1 fresh = true.
Proof. exact ScannerIterProofs.finds_one_report. Qed.
Print Assumptions C10_finds_one_report.

Example C10_round2_nonvacuous :
  let v := wit_view true 1536 [{| s_va := 4096; s_vs := 256; s_prd := 1024; s_srd := 256 |};
                               {| s_va := 8192; s_vs := 256; s_prd := 1280; s_srd := 256 |}] in
  reads_no_saves wit_pat /\ sections_not_sorted v = false /\
  must_report v (window wit_pat) 0 12288 4112 = true /\ must_report v (window wit_pat) 0 12288 8208 = true /\
  view_exec v wit_pat 4112 [] = Ok (true, []) /\ view_exec v wit_pat 8208 [7; 7] = Ok (true, [8208; 7]) /\
  finds v wit_pat 0 8192 [0] = Ok (true, [4112]) /\ finds v wit_pat 0 12288 [0] = Ok (false, [4112]).
Proof. exact ScannerIterProofs.iter_nonvacuous. Qed.

(* Detection power, mutant M4 of the self-test (scanner.rs:563 with VirtualSize replaced by SizeOfRawData in the overlap
   test; [next_m4] is Matches::next with that test).  It IS a different function - witness: a section with
   VirtualSize < SizeOfRawData and a range starting at VA + VirtualSize, where the mutant reports a stored, unmapped
   position that the code does not - but the position is a match that must_report does not oblige, and the mutant
   satisfies the per-call soundness and completeness statements word for word.  So it can only ever show up as a
   disagreement with the model (it does, on the boundary stream of the generator), never as an oracle failure. *)
Theorem C10_M4_differs :
  next m4_view wit_pat (matches 4128 8192) [0] = Ok (false, {| m_start := 4128; m_end := 8192; m_hits := 0 |}, [0]) /\
  next_m4 m4_view wit_pat (matches 4128 8192) [0] = Ok (true, {| m_start := 4161; m_end := 8192; m_hits := 1 |}, [4160]) /\
  view_exec m4_view wit_pat 4160 [0] = Ok (true, [4160]) /\
  must_report m4_view (window wit_pat) 4128 8192 4160 = false.
Proof. exact ScannerOverlapProofs.m4_differs. Qed.
Print Assumptions C10_M4_differs.
Theorem C10_M4_total_sound : forall v pat, ViewsProofs.view_ok v -> v_len v < W32 ->
  forall st save, m_end st < W32 -> m_hits st <= m_start st ->
  exists ok st' save', next_m4 v pat st save = Ok (ok, st', save') /\
    m_end st' = m_end st /\ m_hits st' <= m_start st' /\ m_start st <= m_start st' /\
    m_start st' <= N.max (m_start st) (m_end st) /\
    (ok = true -> exists c s_in, m_start st <= c /\ c < m_end st /\ c < m_start st' /\
                                 view_exec v pat c s_in = Ok (true, save')).
Proof. exact ScannerOverlapProofs.next_m4_total_sound. Qed.
Print Assumptions C10_M4_total_sound.
Theorem C10_M4_complete_file : forall v pat, ViewsProofs.view_ok v -> v_len v < W32 -> v_file v = true ->
  (forall i, v_get v i < 256) -> bytes_ok (setup pat) ->
  sorted_by_va (v_secs v) = true -> sections_sane (v_secs v) = true ->
  forall st save, m_end st < W32 -> m_hits st <= m_start st ->
  exists ok st' save', next_m4 v pat st save = Ok (ok, st', save') /\
    if ok then exists c s_in, m_start st <= c /\ c < m_start st' /\ view_exec v pat c s_in = Ok (true, save') /\
        forall p, m_start st <= p -> p < m_start st' -> p <> c -> obl v pat (m_end st) (v_secs v) p -> ~ Eall (view_exec v pat) p
    else forall p, m_start st <= p -> obl v pat (m_end st) (v_secs v) p -> ~ Eall (view_exec v pat) p.
Proof. exact ScannerOverlapProofs.next_m4_complete_file. Qed.
Print Assumptions C10_M4_complete_file.

(* No statement of C10 is open. *)

(* ---- leaf functions regenerated from the source on every run (tools/gen_leaf.py -> gen/Leaf.v): agreement with the hand-written model ---- *)
(* the scanner's default range is Headers::code_range: the same agreement, stated where the scanner property can see it *)
From PV.Model Require Headers Wrap.
From PV.gen Require Leaf.
From PV.Proofs Require LeafWrap.
Theorem C10_leaf_code_range : forall f m,
  (if Headers.f_64 f then Leaf.L_pe64_headers_Headers_code_range else Leaf.L_pe32_headers_Headers_code_range) (Wrap.h_soc f m) (Wrap.h_boc f m)
    = Wrap.op_code_range f m /\
  (if Headers.f_64 f then Leaf.L_pe64_headers_Headers_code_range_ok else Leaf.L_pe32_headers_Headers_code_range_ok) (Wrap.h_soc f m) (Wrap.h_boc f m)
    = true.
Proof. exact LeafWrap.code_range_agrees. Qed.
Print Assumptions C10_leaf_code_range.

(* the source places the binders of the generated leaf definitions stand for (third audit, F2) *)
From Coq Require Import List String.
Import ListNotations.
Theorem C10_leaf_reads_wrap :
  Leaf.L_pe32_headers_Headers_code_range_args = ["optional_header.SizeOfCode : u32"%string; "optional_header.BaseOfCode : u32"%string] /\
  Leaf.L_pe32_headers_Headers_image_range_args = ["optional_header.SizeOfImage : u32"%string; "optional_header.SizeOfHeaders : u32"%string] /\
  Leaf.L_pe64_headers_Headers_code_range_args = ["optional_header.SizeOfCode : u32"%string; "optional_header.BaseOfCode : u32"%string] /\
  Leaf.L_pe64_headers_Headers_image_range_args = ["optional_header.SizeOfImage : u32"%string; "optional_header.SizeOfHeaders : u32"%string].
Proof. exact LeafWrap.leaf_reads_wrap. Qed.
Print Assumptions C10_leaf_reads_wrap.
