(* C10 - The scanner reports exactly the positions where the pattern matches.
   Statements only; every proof is [exact <lemma>].  Open statements are listed at the end. *)
From PV.Model Require Import Machine Mapping Views Pattern Exec ScanView Scanner.
From PV.Spec Require Import MappingSpec ScanSpec.
From PV.Proofs Require ViewsProofs ScannerProofs.
Import ScannerProofs.

(* Theorems 1 and 6 (soundness, no fault, termination measure).  For EVERY view (file or mapped, any section table),
   pattern, save array and range - also reversed, empty, beyond the image, starting in a virtual-only tail - one call of
   Matches::next returns a verdict (no panic, no fault, within the stated fuel); range.end is untouched, the invariant
   hits <= range.start is kept (so the counter cannot overflow), range.start never moves backwards and stays below
   max(range.start, range.end); and when the call returns true there is a position c with
   range.start_before <= c < range.end at which Scanner::exec succeeds with exactly the returned captures, and the
   new range.start lies strictly beyond c - hence successive reports are strictly ascending and their number is
   bounded by the length of the range. *)
Theorem C10_next_total_sound : forall v pat, ViewsProofs.view_ok v -> v_len v < W32 ->
  forall st save, m_end st < W32 -> m_hits st <= m_start st ->
  exists ok st' save', next v pat st save = Ok (ok, st', save') /\
    m_end st' = m_end st /\ m_hits st' <= m_start st' /\ m_start st <= m_start st' /\
    m_start st' <= N.max (m_start st) (m_end st) /\
    (ok = true -> exists c s_in, m_start st <= c /\ c < m_end st /\ c < m_start st' /\
                                 view_exec v pat c s_in = Ok (true, save')).
Proof. exact ScannerProofs.next_total_sound. Qed.
Print Assumptions C10_next_total_sound.

(* Theorem 2, scanner side: the search prefix is the literal prefix of the pattern - the bytes of the leading Byte atoms,
   looking through Save/Aligned/Nop - and has at most 16 bytes. *)
Theorem C10_setup_is_literal_prefix : forall pat, setup pat = literal_prefix pat 16 /\ lenN (setup pat) <= 16.
Proof. exact ScannerProofs.setup_spec. Qed.
Print Assumptions C10_setup_is_literal_prefix.

(* Theorem 3 (Horspool).  The table built at scanner.rs:525 is qslen - 1 - (last index below qslen-1 holding the byte),
   or qslen when the byte does not occur there ... *)
Theorem C10_jump_table : forall qs c,
  ((forall k, (k < length qs - 1)%nat -> nth k qs 0 <> c) /\ jumps qs c = lenN qs) \/
  (exists k, (k < length qs - 1)%nat /\ nth k qs 0 = c /\
             (forall k', (k < k')%nat -> (k' < length qs - 1)%nat -> nth k' qs 0 <> c) /\
             jumps qs c = lenN qs - N.of_nat k - 1).
Proof. exact ScannerProofs.jumps_characterised. Qed.
Print Assumptions C10_jump_table.
(* ... and shifting by it is safe: the prefix occurs nowhere strictly between the window and the shifted window *)
Theorem C10_shift_safe : forall get qs off i j, qs <> [] ->
  i < j -> j < i + jumps qs (get (off + i + (lenN qs - 1))) -> slice_eq get (off + j) qs = false.
Proof. exact ScannerProofs.shift_safe. Qed.
Print Assumptions C10_shift_safe.

(* Theorem 5, structural part: finds never faults, returns the save array of the FIRST call untouched by the
   uniqueness probe, and is true exactly when the first call reports a match and a second call (made on the empty
   save array) reports none. *)
Theorem C10_finds : forall v pat rs re save, ViewsProofs.view_ok v -> v_len v < W32 -> re < W32 ->
  exists b ok1 st1 save1, finds v pat rs re save = Ok (b, save1) /\
    next v pat (matches rs re) save = Ok (ok1, st1, save1) /\
    (b = true <-> ok1 = true /\ exists st2 sv2, next v pat st1 [] = Ok (false, st2, sv2)).
Proof. exact ScannerProofs.finds_spec. Qed.
Print Assumptions C10_finds.

(* Theorem 2, interpreter side (prefix lemma): a successful execution at c has read the literal prefix byte by byte
   at c, c+1, ... (equality under the byte mask 0xff, i.e. equality for bytes) *)
Theorem C10_exec_reads_prefix : forall v pat c s s', view_exec v pat c s = Ok (true, s') ->
  forall k, (k < length (setup pat))%nat ->
  exists x, sc_read (scan_of_view v) 1 (c + N.of_nat k) = Some x /\ N.land x 255 = N.land (nth k (setup pat) 0) 255.
Proof. exact ScannerProofs.view_exec_reads_prefix. Qed.
Print Assumptions C10_exec_reads_prefix.

(* Theorem 4 (completeness), per call.  [Eall ex p]: executing at p succeeds whatever the save array holds (for
   patterns without Check/Pir this is "exec succeeds at p").  [win qs] = 1 for prefixes shorter than 4 (strategies 0
   and 1), |qs| otherwise (strategy 2).
   Mapped view: every position the call moves range.start past, other than the reported one, that lies at least
   win bytes before the end of the range and of the image, does NOT match; and when the call returns false no such
   position at or after range.start matches.  Hence the three strategies report the same obliged positions. *)
Theorem C10_next_complete_mapped : forall v pat, ViewsProofs.view_ok v -> v_len v < W32 -> v_file v = false ->
  (forall i, v_get v i < 256) -> bytes_ok (setup pat) ->
  forall st save, m_end st < W32 -> m_hits st <= m_start st ->
  exists ok st' save', next v pat st save = Ok (ok, st', save') /\
    if ok then exists c s_in, m_start st <= c /\ c < m_start st' /\ view_exec v pat c s_in = Ok (true, save') /\
        forall p, m_start st <= p -> p < m_start st' -> p <> c -> p + win (setup pat) <= N.min (m_end st) (v_len v) ->
                  ~ Eall (view_exec v pat) p
    else forall p, m_start st <= p -> p + win (setup pat) <= N.min (m_end st) (v_len v) -> ~ Eall (view_exec v pat) p.
Proof. exact ScannerProofs.next_complete_mapped. Qed.
Print Assumptions C10_next_complete_mapped.

(* File view, outside the known class (table sorted by VirtualAddress) and with every virtual extent below 2^32:
   [obl v pat rend secs p]: p lies in the first section s of the table whose virtual extent contains it, the raw data
   of s lies inside the file, p is mapped (p - VA < VirtualSize) and p + win <= min(range.end, VA + SizeOfRawData). *)
Theorem C10_next_complete_file : forall v pat, ViewsProofs.view_ok v -> v_len v < W32 -> v_file v = true ->
  (forall i, v_get v i < 256) -> bytes_ok (setup pat) ->
  sorted_by_va (v_secs v) = true -> sections_sane (v_secs v) = true ->
  forall st save, m_end st < W32 -> m_hits st <= m_start st ->
  exists ok st' save', next v pat st save = Ok (ok, st', save') /\
    if ok then exists c s_in, m_start st <= c /\ c < m_start st' /\ view_exec v pat c s_in = Ok (true, save') /\
        forall p, m_start st <= p -> p < m_start st' -> p <> c -> obl v pat (m_end st) (v_secs v) p -> ~ Eall (view_exec v pat) p
    else forall p, m_start st <= p -> obl v pat (m_end st) (v_secs v) p -> ~ Eall (view_exec v pat) p.
Proof. exact ScannerProofs.next_complete_file. Qed.
Print Assumptions C10_next_complete_file.

(* F9, the code as it stood before the repair, refuted on four witnesses (and the repaired code on the same inputs) *)
Theorem C10_F9_next_orig_refuted :
  let tail := wit_view true 1536 [{| s_va := 4096; s_vs := 1024; s_prd := 1024; s_srd := 512 |}] in
  let mapped := wit_view false 4608 [{| s_va := 4096; s_vs := 256; s_prd := 4096; s_srd := 256 |}] in
  let high := wit_view true 9216 [{| s_va := 4294963200; s_vs := 2048; s_prd := 1024; s_srd := 8192 |}] in
  next_orig tail wit_pat (matches 4864 5120) [0] = Fault PSliceOrder /\
  next tail wit_pat (matches 4864 5120) [0] = Ok (false, {| m_start := 4864; m_end := 5120; m_hits := 0 |}, [0]) /\
  next_orig mapped wit_pat (matches 4700 4800) [0] = Fault PSliceOrder /\
  next mapped wit_pat (matches 4700 4800) [0] = Ok (false, {| m_start := 4700; m_end := 4800; m_hits := 0 |}, [0]) /\
  next_orig tail wit_pat (matches 4200 4150) [0] = Fault PSliceOrder /\
  next tail wit_pat (matches 4200 4150) [0] = Ok (false, {| m_start := 4200; m_end := 4150; m_hits := 0 |}, [0]) /\
  next_orig high wit_pat (matches 4294963200 4294967295) [0] = Fault POverflow /\
  next high wit_pat (matches 4294963200 4294967295) [0] = Ok (false, {| m_start := 4294967295; m_end := 4294967295; m_hits := 2 |}, [4294963472]).
Proof. exact ScannerProofs.next_orig_refuted. Qed.
Print Assumptions C10_F9_next_orig_refuted.

(* F28, known class sections_not_sorted: an obliged matching position that the iteration never reports *)
Theorem C10_F28_sections_not_sorted_witness :
  let v := wit_view true 1536 [{| s_va := 8192; s_vs := 256; s_prd := 1280; s_srd := 256 |};
                               {| s_va := 4096; s_vs := 256; s_prd := 1024; s_srd := 256 |}] in
  sections_not_sorted v = true /\
  must_report v (window wit_pat) 0 12288 4112 = true /\
  view_exec v wit_pat 4112 [0] = Ok (true, [4112]) /\
  iterate 3 v wit_pat (matches 0 12288) [0]
  = Ok [(true, {| m_start := 8209; m_end := 12288; m_hits := 1 |}, [8208]);
        (false, {| m_start := 8448; m_end := 12288; m_hits := 1 |}, [8208])].
Proof. exact ScannerProofs.sections_not_sorted_witness. Qed.
Print Assumptions C10_F28_sections_not_sorted_witness.

Example C10_nonvacuous :
  let v := wit_view true 1536 [{| s_va := 4096; s_vs := 256; s_prd := 1024; s_srd := 256 |};
                               {| s_va := 8192; s_vs := 256; s_prd := 1280; s_srd := 256 |}] in
  sections_not_sorted v = false /\
  iterate 3 v wit_pat (matches 0 12288) [0]
  = Ok [(true, {| m_start := 4113; m_end := 12288; m_hits := 1 |}, [4112]);
        (true, {| m_start := 8209; m_end := 12288; m_hits := 2 |}, [8208]);
        (false, {| m_start := 8448; m_end := 12288; m_hits := 2 |}, [8208])] /\
  finds v wit_pat 0 8192 [0] = Ok (true, [4112]) /\ finds v wit_pat 0 12288 [0] = Ok (false, [4112]).
Proof. exact ScannerProofs.nonvacuous_example. Qed.

(* OPEN: C10_exec_verdict_ignores_saves : forall v pat, reads_no_saves pat -> forall c s1 s2,
     fst-verdict (view_exec v pat c s1) = fst-verdict (view_exec v pat c s2)
   - for patterns without Check/Pir atoms the verdict of the interpreter does not depend on the incoming save array,
   so Eall p is plain "exec succeeds at p" and the probe of finds on the empty array sees the same matches
   (DESIGN.md section 7 C10 theorem 5, second half).  Not proved (a relational induction over the 26 cases of exec);
   covered by the correspondence check only: finds is compared with the number of reported positions on every case. *)
(* OPEN: C10_iteration_enumerates : the list produced by iterating next to exhaustion equals the ascending list of
   obliged matching positions plus possibly tail-window positions - the corollary of C10_next_total_sound and
   C10_next_complete_* by induction on the number of calls; and must_report v (window pat) .. c = true -> obl .. c
   (the boolean obligation of the oracle implies the Prop used in C10_next_complete_file). *)
