(* C02 - Totality: parsing and querying never panics or aborts, whatever the input.
   In the models a panic of a checked build (integer overflow, slice index, length mismatch, unwrap) is the
   outcome [Fault P..]; [no_fault r] says that r is a value or an error.  Statements only; every proof is
   [exact <lemma>].  The theorems about the directory parsers live in the files of their own properties
   (C08, C09, C12, C13, C15, C06, C10, C18); this file states the cross-cutting core. *)
From PV.Model Require Import Machine Mapping Views Headers Relocs Rich Strings Pattern Exec ScanView CStrFmt.
From PV.Spec Require Import SafetySpec RelocSpec.
From PV.Proofs Require SafetyProofs BoundsProofs RelocsProofs RichProofs StringsProofs PatternProofs ExecProofs ViewsProofs CStrFmtProofs HeadersProofs.

(* constructors: header validation of either format and the format-agnostic wrapper, any buffer at any address *)
Theorem C02_validate_total : forall f m, no_fault (validate f m).
Proof. exact SafetyProofs.validate_no_fault. Qed.
Print Assumptions C02_validate_total.
Theorem C02_wrapper_total : forall m, no_fault (wrap_from_bytes m).
Proof. exact SafetyProofs.wrap_from_bytes_no_fault. Qed.
Print Assumptions C02_wrapper_total.

(* address translation, any section table and any argument *)
Theorem C02_rva_to_file_offset_total : forall soh secs rva, no_fault (rva_to_file_offset soh secs rva).
Proof. exact SafetyProofs.rva_to_file_offset_no_fault. Qed.
Print Assumptions C02_rva_to_file_offset_total.
Theorem C02_file_offset_to_rva_total : forall soh secs fo, no_fault (file_offset_to_rva soh secs fo).
Proof. exact SafetyProofs.file_offset_to_rva_no_fault. Qed.
Print Assumptions C02_file_offset_to_rva_total.
Theorem C02_rva_to_va_total : forall v rva, no_fault (rva_to_va v rva).
Proof. exact SafetyProofs.rva_to_va_no_fault. Qed.
Print Assumptions C02_rva_to_va_total.
Theorem C02_va_to_rva_total : forall v va, no_fault (va_to_rva v va).
Proof. exact SafetyProofs.va_to_rva_no_fault. Qed.
Print Assumptions C02_va_to_rva_total.

(* slicing and reading, file and mapped views, any address and min_size, any power-of-two align (the documented
   precondition of AlignTo: anything else fails a debug assertion by design) *)
Theorem C02_slice_total : forall v rva min_size align, SafetyProofs.is_pow2 align -> no_fault (slice v rva min_size align).
Proof. exact SafetyProofs.slice_no_fault_pow2. Qed.
Print Assumptions C02_slice_total.
Theorem C02_read_total : forall v va min_size align, SafetyProofs.is_pow2 align -> no_fault (read v va min_size align).
Proof. exact SafetyProofs.read_no_fault_pow2. Qed.
Print Assumptions C02_read_total.

(* the typed read family on both paths (derva.. by RVA, deref.. by VA): no panic, and the sentinel / predicate
   scans never run out of fuel *)
Theorem C02_typed_reads_total : forall v byva,
  (forall a size align, no_fault (rd (sl_of v byva) a size align)) /\
  (forall a size, no_fault (rd_copy (sl_of v byva) a size)) /\
  (forall a size align n, no_fault (rd_slice (sl_of v byva) a size align n)) /\
  (forall a size align p, 0 < size -> no_fault (rd_slice_f (v_get v) (sl_of v byva) a size align p)) /\
  (forall a, no_fault (rd_c_str (v_get v) (sl_of v byva) a)).
Proof. exact BoundsProofs.view_typed_total. Qed.
Print Assumptions C02_typed_reads_total.

(* relocations: iterating and folding any directory; building from any equal-length lists (documented precondition) *)
Theorem C02_relocs_total : forall data, lenN data + 3 < W64 ->
  exists bs flat, blocks data = Ok bs /\ fold_pairs data = Ok flat.
Proof. exact BoundsProofs.relocs_total. Qed.
Print Assumptions C02_relocs_total.
Theorem C02_relocs_build_total : forall rvas types, build_pre rvas types = true -> 2 * lenN rvas + 11 < W32 ->
  exists out, build rvas types = Ok out.
Proof. exact BoundsProofs.relocs_build_total. Qed.
Print Assumptions C02_relocs_build_total.

(* Rich header, string enumerator, pattern parser, pattern interpreter, C string formatters *)
Theorem C02_rich_total : forall image, no_fault (try_from image).
Proof. exact RichProofs.try_from_no_fault. Qed.
Print Assumptions C02_rich_total.
Theorem C02_strings_total : forall c base bytes, exists l, enumerate c base bytes = Ok l.
Proof. exact BoundsProofs.strings_total. Qed.
Print Assumptions C02_strings_total.
Theorem C02_pattern_parse_total : forall input,
  exists r, parse input = Ok r /\ match r with inl (_, pos) => (pos <= length input)%nat | inr _ => True end.
Proof. exact PatternProofs.parse_total. Qed.
Print Assumptions C02_pattern_parse_total.
Theorem C02_pattern_exec_total : forall v pat cursor save, ViewsProofs.view_ok v -> v_len v < W32 ->
  exists ok save', view_exec v pat cursor save = Ok (ok, save').
Proof. exact ExecProofs.view_exec_total. Qed.
Print Assumptions C02_pattern_exec_total.
Theorem C02_cstr_format_total : forall bytes,
  (exists out, cstr_debug bytes = Ok out /\ (length out <= 4 * length bytes + 2)%nat) /\
  (exists out, cstr_display bytes = Ok out /\ (length out <= 4 * length bytes)%nat).
Proof. exact BoundsProofs.cstr_format_total. Qed.
Print Assumptions C02_cstr_format_total.

(* ---- the directory parsers and conversions: restated here from the files of their own properties ---- *)
From PV.Model Require Convert Exports Scanner VersionInfo Iters.
From PV.Proofs Require ConvertProofs ExportsProofs ScannerProofs VersionInfoProofs ItersProofs.

(* file <-> view conversion on any buffer (after F5) *)
Theorem C02_to_view_total : forall f m, mem_ok m -> no_fault (Convert.pe_to_view f m).
Proof. exact ConvertProofs.pe_to_view_no_fault. Qed.
Print Assumptions C02_to_view_total.
Theorem C02_to_file_total : forall f m, mem_ok m -> no_fault (Convert.pe_to_file f m).
Proof. exact ConvertProofs.pe_to_file_no_fault. Qed.
Print Assumptions C02_to_file_total.

(* export directory: table extraction and get_proc_address by ordinal, name and import on any view (after F6, F7) *)
Theorem C02_exports_by_total : forall v dd, no_fault (Exports.view_by v dd).
Proof. exact ExportsProofs.view_by_no_fault. Qed.
Print Assumptions C02_exports_by_total.
Theorem C02_get_proc_address_total : forall v dd, (forall i, v_get v i < 256) ->
  (forall o, no_fault (Exports.get_export_ordinal v dd o)) /\ (forall n, no_fault (Exports.get_export_name v dd n)) /\
  (forall i, no_fault (Exports.get_export_import v dd i)) /\
  (forall r, no_fault r -> no_fault (Exports.get_proc_address v r)).
Proof. exact ExportsProofs.get_export_no_fault. Qed.
Print Assumptions C02_get_proc_address_total.

(* scanner: Matches::next returns a verdict for every pattern, save array and range (after F9) *)
Theorem C02_scanner_next_total : forall v pat, ViewsProofs.view_ok v -> v_len v < W32 ->
  forall st save, Scanner.m_end st < W32 -> Scanner.m_hits st <= Scanner.m_start st ->
  exists ok st' save', Scanner.next v pat st save = Ok (ok, st', save') /\
    Scanner.m_end st' = Scanner.m_end st /\ Scanner.m_hits st' <= Scanner.m_start st' /\ Scanner.m_start st <= Scanner.m_start st' /\
    Scanner.m_start st' <= N.max (Scanner.m_start st) (Scanner.m_end st) /\
    (ok = true -> exists c s_in, Scanner.m_start st <= c /\ c < Scanner.m_end st /\ c < Scanner.m_start st' /\
                                 view_exec v pat c s_in = Ok (true, save')).
Proof. exact ScannerProofs.next_total_sound. Qed.
Print Assumptions C02_scanner_next_total.

(* version information: try_from + visit with ANY visitor on any bytes at any address (after F12) *)
Theorem C02_version_info_total : forall St A (V : VersionInfo.visitor St) (init : St) (proj : St -> A) base bytes,
  VersionInfoProofs.bytes_len_ok bytes -> no_fault (VersionInfo.api V false init proj base bytes).
Proof. exact @VersionInfoProofs.api_no_fault. Qed.
Print Assumptions C02_version_info_total.

(* RichIter under any call history (after F23) *)
Theorem C02_rich_iter_total : forall hist pool, Forall ItersProofs.rich_inv pool -> no_fault (Iters.m_run Iters.rich_impl pool hist).
Proof. exact ItersProofs.rich_no_fault. Qed.
Print Assumptions C02_rich_iter_total.

(* imports: directory, descriptors, name and address tables, thunk decoding (after F38) *)
From PV.Model Require Imports Dirs Resources.
From PV.Proofs Require ImportsProofs DirsProofs ResourcesProofs.
Theorem C02_imports_total : forall p d rva,
  no_fault (Imports.imports p) /\ no_fault (Imports.iat p) /\ no_fault (Imports.dll_name p d) /\ no_fault (Imports.desc_iat p d) /\
  no_fault (Imports.desc_int p d) /\ no_fault (Imports.thunks p rva).
Proof. exact ImportsProofs.tables_no_fault. Qed.
Print Assumptions C02_imports_total.
Theorem C02_import_from_va_total : forall p t, no_fault (Imports.import_from_va p t).
Proof. exact ImportsProofs.import_from_va_no_fault. Qed.
Print Assumptions C02_import_from_va_total.

(* exception, security, debug, TLS and load config directories (after F8, F17) *)
Theorem C02_directories_total : forall v dd t pc f d r image,
  DirsProofs.bytes_lt (v_get v) -> v_addr v mod 4 = 0 ->
  no_fault (Dirs.exception_try_from v dd) /\ no_fault (Dirs.index_of t pc) /\ no_fault (Dirs.lookup_function_entry t pc) /\
  no_fault (Dirs.function_bytes v f) /\ no_fault (Dirs.unwind_info v f) /\
  no_fault (Dirs.security_try_from v dd) /\ (forall s, Dirs.security_try_from v dd = Ok s -> no_fault (Dirs.certificate_data s)) /\
  no_fault (Dirs.debug_try_from v dd) /\ no_fault (Dirs.dir_entry v d) /\ no_fault (Dirs.pgo_iter (v_get v) image) /\
  no_fault (Dirs.tls_try_from v dd) /\ no_fault (Dirs.tls_raw_data v r) /\ no_fault (Dirs.tls_slot v r) /\ no_fault (Dirs.tls_callbacks v r) /\
  no_fault (Dirs.load_config_try_from v dd) /\ no_fault (Dirs.lc_security_cookie v r) /\ no_fault (Dirs.lc_se_handler_table v r).
Proof. exact DirsProofs.all_no_fault. Qed.
Print Assumptions C02_directories_total.

(* resources: the consistency check on ANY section bytes, including directories that contain themselves (after F4, F16) *)
Theorem C02_resources_fsck_total : forall s, no_fault (Resources.fsck s).
Proof. exact ResourcesProofs.fsck_no_fault. Qed.
Print Assumptions C02_resources_fsck_total.

(* panics of the code as it stood, repaired in /repo (each also listed under its own property) *)
Theorem C02_F25_rva_to_va_orig_refuted :
  rva_to_va_orig {| v_file := true; v_addr := 0; v_len := 0; v_get := fun _ => 0; v_w := W32;
                    v_base := 4294963200; v_soh := 0; v_soi := 65536; v_secs := [] |} 8192 = Fault POverflow.
Proof. exact ViewsProofs.rva_to_va_orig_refuted. Qed.
Print Assumptions C02_F25_rva_to_va_orig_refuted.

Example C02_nonvacuous :
  validate fmt32 (HeadersProofs.bytes_mem 0 (HeadersProofs.tiny_pe32 96)) = Ok 4096 /\
  blocks [0;16;0;0; 12;0;0;0; 5;48; 0;0] = Ok [ {| b_off := 0; b_va := 4096; b_sob := 12; b_words := [12293; 0] |} ].
Proof. vm_compute. repeat split; reflexivity. Qed.
