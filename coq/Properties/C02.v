(* C02 - Totality: parsing and querying never panics or aborts, whatever the input.
   In the models a panic of a checked build (integer overflow, slice index, length mismatch, unwrap) is the
   outcome [Fault P..]; [no_fault r] says that r is a value or an error.  Statements only; every proof is
   [exact <lemma>].  The theorems about the directory parsers live in the files of their own properties
   (C08, C09, C12, C13, C15, C06, C10, C18); this file states the cross-cutting core. *)
From PV.Model Require Import Machine Mapping Views Headers Relocs Rich Strings Pattern Exec ScanView CStrFmt.
From PV.Spec Require Import SafetySpec RelocSpec.
From PV.Proofs Require SafetyProofs BoundsProofs RelocsProofs RichProofs StringsProofs PatternProofs ExecProofs ViewsProofs CStrFmtProofs HeadersProofs.

(* constructors: header validation of either format and the format-agnostic wrapper, any buffer at any address *)
Theorem C02_validate_total : forall f m, no_fault (validate f m).
Proof. exact SafetyProofs.validate_no_fault. Qed.
Print Assumptions C02_validate_total.
Theorem C02_wrapper_total : forall m, no_fault (wrap_from_bytes m).
Proof. exact SafetyProofs.wrap_from_bytes_no_fault. Qed.
Print Assumptions C02_wrapper_total.

(* address translation, any section table and any argument *)
Theorem C02_rva_to_file_offset_total : forall soh secs rva, no_fault (rva_to_file_offset soh secs rva).
Proof. exact SafetyProofs.rva_to_file_offset_no_fault. Qed.
Print Assumptions C02_rva_to_file_offset_total.
Theorem C02_file_offset_to_rva_total : forall soh secs fo, no_fault (file_offset_to_rva soh secs fo).
Proof. exact SafetyProofs.file_offset_to_rva_no_fault. Qed.
Print Assumptions C02_file_offset_to_rva_total.
Theorem C02_rva_to_va_total : forall v rva, no_fault (rva_to_va v rva).
Proof. exact SafetyProofs.rva_to_va_no_fault. Qed.
Print Assumptions C02_rva_to_va_total.
Theorem C02_va_to_rva_total : forall v va, no_fault (va_to_rva v va).
Proof. exact SafetyProofs.va_to_rva_no_fault. Qed.
Print Assumptions C02_va_to_rva_total.

(* slicing and reading, file and mapped views, any address and min_size, any power-of-two align (the documented
   precondition of AlignTo: anything else fails a debug assertion by design) *)
Theorem C02_slice_total : forall v rva min_size align, SafetyProofs.is_pow2 align -> no_fault (slice v rva min_size align).
Proof. exact SafetyProofs.slice_no_fault_pow2. Qed.
Print Assumptions C02_slice_total.
Theorem C02_read_total : forall v va min_size align, SafetyProofs.is_pow2 align -> no_fault (read v va min_size align).
Proof. exact SafetyProofs.read_no_fault_pow2. Qed.
Print Assumptions C02_read_total.

(* the typed read family on both paths (derva.. by RVA, deref.. by VA): no panic, and the sentinel / predicate
   scans never run out of fuel *)
Theorem C02_typed_reads_total : forall v byva,
  (forall a size align, no_fault (rd (sl_of v byva) a size align)) /\
  (forall a size, no_fault (rd_copy (sl_of v byva) a size)) /\
  (forall a size align n, no_fault (rd_slice (sl_of v byva) a size align n)) /\
  (forall a size align p, 0 < size -> no_fault (rd_slice_f (v_get v) (sl_of v byva) a size align p)) /\
  (forall a, no_fault (rd_c_str (v_get v) (sl_of v byva) a)).
Proof. exact BoundsProofs.view_typed_total. Qed.
Print Assumptions C02_typed_reads_total.

(* relocations: iterating and folding any directory; building from any equal-length lists (documented precondition) *)
Theorem C02_relocs_total : forall data, lenN data + 3 < W64 ->
  exists bs flat, blocks data = Ok bs /\ fold_pairs data = Ok flat.
Proof. exact BoundsProofs.relocs_total. Qed.
Print Assumptions C02_relocs_total.
Theorem C02_relocs_build_total : forall rvas types, build_pre rvas types = true -> 2 * lenN rvas + 11 < W32 ->
  exists out, build rvas types = Ok out.
Proof. exact BoundsProofs.relocs_build_total. Qed.
Print Assumptions C02_relocs_build_total.

(* Rich header, string enumerator, pattern parser, pattern interpreter, C string formatters *)
Theorem C02_rich_total : forall image, no_fault (try_from image).
Proof. exact RichProofs.try_from_no_fault. Qed.
Print Assumptions C02_rich_total.
Theorem C02_strings_total : forall c base bytes, exists l, enumerate c base bytes = Ok l.
Proof. exact BoundsProofs.strings_total. Qed.
Print Assumptions C02_strings_total.
Theorem C02_pattern_parse_total : forall input,
  exists r, parse input = Ok r /\ match r with inl (_, pos) => (pos <= length input)%nat | inr _ => True end.
Proof. exact PatternProofs.parse_total. Qed.
Print Assumptions C02_pattern_parse_total.
Theorem C02_pattern_exec_total : forall v pat cursor save, ViewsProofs.view_ok v -> v_len v < W32 ->
  exists ok save', view_exec v pat cursor save = Ok (ok, save').
Proof. exact ExecProofs.view_exec_total. Qed.
Print Assumptions C02_pattern_exec_total.
Theorem C02_cstr_format_total : forall bytes,
  (exists out, cstr_debug bytes = Ok out /\ (length out <= 4 * length bytes + 2)%nat) /\
  (exists out, cstr_display bytes = Ok out /\ (length out <= 4 * length bytes)%nat).
Proof. exact BoundsProofs.cstr_format_total. Qed.
Print Assumptions C02_cstr_format_total.

(* ---- the directory parsers and conversions: restated here from the files of their own properties ---- *)
From PV.Model Require Convert Exports Scanner VersionInfo Iters.
From PV.Proofs Require ConvertProofs ExportsProofs ScannerProofs VersionInfoProofs ItersProofs.

(* file <-> view conversion on any buffer (after F5) *)
Theorem C02_to_view_total : forall f m, mem_ok m -> no_fault (Convert.pe_to_view f m).
Proof. exact ConvertProofs.pe_to_view_no_fault. Qed.
Print Assumptions C02_to_view_total.
Theorem C02_to_file_total : forall f m, mem_ok m -> no_fault (Convert.pe_to_file f m).
Proof. exact ConvertProofs.pe_to_file_no_fault. Qed.
Print Assumptions C02_to_file_total.

(* export directory: table extraction and get_proc_address by ordinal, name and import on any view (after F6, F7) *)
Theorem C02_exports_by_total : forall v dd, no_fault (Exports.view_by v dd).
Proof. exact ExportsProofs.view_by_no_fault. Qed.
Print Assumptions C02_exports_by_total.
Theorem C02_get_proc_address_total : forall v dd, (forall i, v_get v i < 256) ->
  (forall o, no_fault (Exports.get_export_ordinal v dd o)) /\ (forall n, no_fault (Exports.get_export_name v dd n)) /\
  (forall i, no_fault (Exports.get_export_import v dd i)) /\
  (forall r, no_fault r -> no_fault (Exports.get_proc_address v r)).
Proof. exact ExportsProofs.get_export_no_fault. Qed.
Print Assumptions C02_get_proc_address_total.

(* scanner: Matches::next returns a verdict for every pattern, save array and range (after F9) *)
Theorem C02_scanner_next_total : forall v pat, ViewsProofs.view_ok v -> v_len v < W32 ->
  forall st save, Scanner.m_end st < W32 -> Scanner.m_hits st <= Scanner.m_start st ->
  exists ok st' save', Scanner.next v pat st save = Ok (ok, st', save') /\
    Scanner.m_end st' = Scanner.m_end st /\ Scanner.m_hits st' <= Scanner.m_start st' /\ Scanner.m_start st <= Scanner.m_start st' /\
    Scanner.m_start st' <= N.max (Scanner.m_start st) (Scanner.m_end st) /\
    (ok = true -> exists c s_in, Scanner.m_start st <= c /\ c < Scanner.m_end st /\ c < Scanner.m_start st' /\
                                 view_exec v pat c s_in = Ok (true, save')).
Proof. exact ScannerProofs.next_total_sound. Qed.
Print Assumptions C02_scanner_next_total.

(* version information: try_from + visit with ANY visitor on any bytes at any address (after F12) *)
Theorem C02_version_info_total : forall St A (V : VersionInfo.visitor St) (init : St) (proj : St -> A) base bytes,
  VersionInfoProofs.bytes_len_ok bytes -> no_fault (VersionInfo.api V false init proj base bytes).
Proof. exact @VersionInfoProofs.api_no_fault. Qed.
Print Assumptions C02_version_info_total.

(* RichIter under any call history (after F23) *)
Theorem C02_rich_iter_total : forall hist pool, Forall ItersProofs.rich_inv pool -> no_fault (Iters.m_run Iters.rich_impl pool hist).
Proof. exact ItersProofs.rich_no_fault. Qed.
Print Assumptions C02_rich_iter_total.

(* imports: directory, descriptors, name and address tables, thunk decoding (after F38) *)
From PV.Model Require Imports Dirs Resources.
From PV.Proofs Require ImportsProofs DirsProofs ResourcesProofs.
Theorem C02_imports_total : forall p d rva,
  no_fault (Imports.imports p) /\ no_fault (Imports.iat p) /\ no_fault (Imports.dll_name p d) /\ no_fault (Imports.desc_iat p d) /\
  no_fault (Imports.desc_int p d) /\ no_fault (Imports.thunks p rva).
Proof. exact ImportsProofs.tables_no_fault. Qed.
Print Assumptions C02_imports_total.
Theorem C02_import_from_va_total : forall p t, no_fault (Imports.import_from_va p t).
Proof. exact ImportsProofs.import_from_va_no_fault. Qed.
Print Assumptions C02_import_from_va_total.

(* exception, security, debug, TLS and load config directories (after F8, F17) *)
Theorem C02_directories_total : forall v dd t pc f d r image,
  DirsProofs.bytes_lt (v_get v) -> v_addr v mod 4 = 0 ->
  no_fault (Dirs.exception_try_from v dd) /\ no_fault (Dirs.index_of t pc) /\ no_fault (Dirs.lookup_function_entry t pc) /\
  no_fault (Dirs.function_bytes v f) /\ no_fault (Dirs.unwind_info v f) /\
  no_fault (Dirs.security_try_from v dd) /\ (forall s, Dirs.security_try_from v dd = Ok s -> no_fault (Dirs.certificate_data s)) /\
  no_fault (Dirs.debug_try_from v dd) /\ no_fault (Dirs.dir_entry v d) /\ no_fault (Dirs.pgo_iter (v_get v) image) /\
  no_fault (Dirs.tls_try_from v dd) /\ no_fault (Dirs.tls_raw_data v r) /\ no_fault (Dirs.tls_slot v r) /\ no_fault (Dirs.tls_callbacks v r) /\
  no_fault (Dirs.load_config_try_from v dd) /\ no_fault (Dirs.lc_security_cookie v r) /\ no_fault (Dirs.lc_se_handler_table v r).
Proof. exact DirsProofs.all_no_fault. Qed.
Print Assumptions C02_directories_total.

(* resources: the consistency check on ANY section bytes, including directories that contain themselves (after F4, F16) *)
Theorem C02_resources_fsck_total : forall s, no_fault (Resources.fsck s).
Proof. exact ResourcesProofs.fsck_no_fault. Qed.
Print Assumptions C02_resources_fsck_total.

(* panics of the code as it stood, repaired in /repo (each also listed under its own property) *)
Theorem C02_F25_rva_to_va_orig_refuted :
  rva_to_va_orig {| v_file := true; v_addr := 0; v_len := 0; v_get := fun _ => 0; v_w := W32;
                    v_base := 4294963200; v_soh := 0; v_soi := 65536; v_secs := [] |} 8192 = Fault POverflow.
Proof. exact ViewsProofs.rva_to_va_orig_refuted. Qed.
Print Assumptions C02_F25_rva_to_va_orig_refuted.

Example C02_nonvacuous :
  validate fmt32 (HeadersProofs.bytes_mem 0 (HeadersProofs.tiny_pe32 96)) = Ok 4096 /\
  blocks [0;16;0;0; 12;0;0;0; 5;48; 0;0] = Ok [ {| b_off := 0; b_va := 4096; b_sob := 12; b_words := [12293; 0] |} ].
Proof. vm_compute. repeat split; reflexivity. Qed.

(* =====================================================================================================
   Checked twins (Model/Checked.v, Proofs/CheckedProofs.v).  The first-phase models above write some plain Rust
   operators with unbounded arithmetic and total [nth], so "no Fault" over them never asked whether the operator can
   overflow or the index is in range.  Each twin restates its function with [chk_add/chk_sub/chk_mul] at EVERY plain
   [+ - *], [Fault PIndex]/[PSliceOrder] at every index and re-slicing, and a reference check at every raw cast; the
   theorems say that the twin returns exactly what the model returns: no operator of the mirrored Rust function
   panics, under the machine ranges stated.
   ===================================================================================================== *)
From PV.Model Require Import Checked.
From PV.Proofs Require CheckedProofs.

(* pe.rs:85/:133/:693 - [rva - VirtualAddress], [section_offset + PointerToRawData], [file_offset as Rva - PointerToRawData],
   [section_offset + VirtualAddress], [VirtualEnd - rva]: for EVERY section table and argument, no range hypothesis *)
Theorem C02_checked_rva_to_file_offset : forall soh secs rva, rva_to_file_offset_chk soh secs rva = rva_to_file_offset soh secs rva.
Proof. exact CheckedProofs.rva_to_file_offset_chk_eq. Qed.
Print Assumptions C02_checked_rva_to_file_offset.
Theorem C02_checked_file_offset_to_rva : forall soh secs fo, file_offset_to_rva_chk soh secs fo = file_offset_to_rva soh secs fo.
Proof. exact CheckedProofs.file_offset_to_rva_chk_eq. Qed.
Print Assumptions C02_checked_file_offset_to_rva.
Theorem C02_checked_range_file : forall len secs rva min_size, range_file_chk len secs rva min_size = range_file len secs rva min_size.
Proof. exact CheckedProofs.range_file_chk_eq. Qed.
Print Assumptions C02_checked_range_file.
(* slice / read on both kinds of view and va_to_rva: [va - image_base] behind [va < image_base ||] *)
Theorem C02_checked_slice : forall v rva min_size align, slice_chk v rva min_size align = slice v rva min_size align.
Proof. exact CheckedProofs.slice_chk_eq. Qed.
Print Assumptions C02_checked_slice.
Theorem C02_checked_read : forall v va min_size align, read_chk v va min_size align = read v va min_size align.
Proof. exact CheckedProofs.read_chk_eq. Qed.
Print Assumptions C02_checked_read.
Theorem C02_checked_va_to_rva : forall v va, va_to_rva_chk v va = va_to_rva v va.
Proof. exact CheckedProofs.va_to_rva_chk_eq. Qed.
Print Assumptions C02_checked_va_to_rva.

(* the typed read family on both paths: the casts of derva/deref, derva_copy, derva_into ([&bytes[..len]]), derva_slice;
   the loop of derva_slice_f ([len * size_of], [offset + size_of] - the overflow the source comment admits -, [len += 1],
   the element reference and the final from_raw_parts); CStr::from_bytes ([len + 1], get_unchecked) and the NUL-stripping
   [len - 1] of c_str.rs:93.  [size mod align = 0] holds of every Rust type; [v_len + size < 2^64] is the hypothesis the
   comment at pe.rs:349 calls "ridiculous" to violate (a slice has at most isize::MAX bytes) *)
Theorem C02_checked_typed_reads : forall v byva, SafetySpec.placed (v_addr v) (v_len v) ->
  (forall a size align, rd_chk (sl_of v byva) (v_addr v) a size align = rd (sl_of v byva) a size align) /\
  (forall a size, rd_copy_chk (sl_of v byva) (v_addr v) a size = rd_copy (sl_of v byva) a size) /\
  (forall a size, rd_into_chk (sl_of v byva) a size = rd_copy (sl_of v byva) a size) /\
  (forall a size align n, rd_slice_chk (sl_of v byva) (v_addr v) a size align n = rd_slice (sl_of v byva) a size align n) /\
  (forall a size align p, 0 < size -> 0 < align -> size mod align = 0 -> v_len v + size < W64 ->
     rd_slice_f_chk (v_get v) (sl_of v byva) (v_addr v) a size align p = rd_slice_f (v_get v) (sl_of v byva) a size align p) /\
  (forall a, rd_c_str_chk (v_get v) (sl_of v byva) (v_addr v) a = rd_c_str (v_get v) (sl_of v byva) a) /\
  (forall a q, rd_c_str (v_get v) (sl_of v byva) a = Ok q -> cstr_len_chk (v_addr v) q = Ok (r_len q - 1)).
Proof. exact CheckedProofs.view_typed_chk_eq. Qed.
Print Assumptions C02_checked_typed_reads.
Theorem C02_checked_slice_f_needs_range :
  scan_f_chk (fun _ => 1) 0 1 (fun _ => false) 0 (W64 - 1) 8 1 2305843009213693951 = Fault POverflow.
Proof. exact CheckedProofs.scan_f_chk_needs_range. Qed.
Print Assumptions C02_checked_slice_f_needs_range.

(* pe.rs:764 validate_headers: [e_lfanew + size_of NT], [num_rva_sizes * size_of DD], [nt_end + size_of_data_dir],
   [NumberOfSections * size_of SH], [e_lfanew + (size_of NT - size_of OPT) + SizeOfOptionalHeader],
   [size_of_sections + start_of_sections], and the two header casts, for every buffer of bytes at any address *)
Theorem C02_checked_validate : forall f m, f = fmt32 \/ f = fmt64 -> mem_ok m -> validate_chk f m = validate f m.
Proof. exact CheckedProofs.validate_chk_eq. Qed.
Print Assumptions C02_checked_validate.
(* wrap/file.rs:12: the twin lets a Fault of the PE32 retry through where Headers.v:157 has [| _ => Err EBounds] *)
Theorem C02_checked_wrapper : forall m, mem_ok m -> wrap_from_bytes_chk m = wrap_from_bytes m.
Proof. exact CheckedProofs.wrap_from_bytes_chk_eq. Qed.
Print Assumptions C02_checked_wrapper.

(* rich_structure.rs:36 try_from: the seven [image[..]] indexings, [end - 1], [end - 2], [end - 6], [start + 1..3],
   [start -= 2] and the two re-slicings - for every dword list, including every e_lfanew below 0x40 (the scan stops
   at [end < 16] before anything is indexed) *)
Theorem C02_checked_rich_try_from : forall image, lenN image < W64 -> try_from_chk image = try_from image.
Proof. exact CheckedProofs.try_from_chk_eq. Qed.
Print Assumptions C02_checked_rich_try_from.
(* xor_key ([self.image[1]]), records ([&self.image[4..len - 2]]) and checksum (rotate amounts [i + 0..3], [i += 4] in u32)
   of an accepted structure *)
Theorem C02_checked_rich_accessors : forall image se, Forall (fun d => d < W32) image -> lenN image < W64 -> try_from image = Ok se ->
  xor_key_chk image se = Ok (xor_key image se) /\ records_chk image se = Ok (records image se) /\
  checksum_chk image se = Ok (checksum image se).
Proof. exact CheckedProofs.rich_accessors_chk_eq. Qed.
Print Assumptions C02_checked_rich_accessors.
(* encode: below 2^29 - 6 records the code as it stood and the repaired code both are the model *)
Theorem C02_checked_rich_encode : forall stub recs dest_len, 4 * lenN stub < W32 -> N.of_nat dest_len < W64 -> (lenN recs + 2) * 8 + 32 < W32 ->
  encode_chk stub recs dest_len = CheckedProofs.lift_encode (encode stub recs dest_len) /\
  encode_orig_chk stub recs dest_len = CheckedProofs.lift_encode (encode stub recs dest_len).
Proof. exact CheckedProofs.encode_chk_eq. Qed.
Print Assumptions C02_checked_rich_encode.
(* F41: the obligation was false - [((xor_key / 32) % 3 + n as u32) * 8 + 0x20] leaves u32 from 2^29 - 4 records on
   (panic in checked builds, a wrapped length in optimised builds); repaired in /repo by computing in usize *)
Theorem C02_F41_rich_encode_orig_refuted : forall stub recs dest_len, 4 * lenN stub < W32 -> 536870908 <= lenN recs -> lenN recs < W32 ->
  encode_orig_chk stub recs dest_len = Fault POverflow.
Proof. exact CheckedProofs.encode_orig_refuted. Qed.
Print Assumptions C02_F41_rich_encode_orig_refuted.
Theorem C02_checked_rich_encode_total : forall stub recs dest_len, 4 * lenN stub < W32 -> N.of_nat dest_len < W64 -> lenN recs < 2 ^ 60 ->
  exists r, encode_chk stub recs dest_len = Ok r.
Proof. exact CheckedProofs.encode_chk_total. Qed.
Print Assumptions C02_checked_rich_encode_total.

(* base_relocs.rs:55 parse + :103 peek + :123 next: exactly the directories at a multiple of 4 reach the iterator (the
   Err(Misaligned) branch Model/Relocs.v leaves out), and there the walk with its raw references and the re-slicing
   [&self.data[block_size..]] is the model; build's [8 + 2 * n] *)
Theorem C02_checked_reloc_parse : forall base data, lenN data + 3 < W64 ->
  reloc_parse_chk base data = if base mod 4 =? 0 then blocks data else Err EMisaligned.
Proof. exact CheckedProofs.reloc_parse_chk_spec. Qed.
Print Assumptions C02_checked_reloc_parse.
Theorem C02_checked_reloc_build_size : forall n, 2 * n + 11 < W64 -> build_size_chk n = Ok (align_to W64 4 (8 + 2 * n)).
Proof. exact CheckedProofs.build_size_chk_eq. Qed.
Print Assumptions C02_checked_reloc_build_size.

(* strings.rs:81 Enumerator::next: [bytes[i]], [i += 1], [i - start], [i + 1], [&bytes[start..i]] *)
Theorem C02_checked_strings_next : forall c base bytes offset, lenN bytes < W64 ->
  str_next_chk c base bytes offset = Ok (Strings.next c base bytes offset).
Proof. exact CheckedProofs.str_next_chk_eq. Qed.
Print Assumptions C02_checked_strings_next.

Example C02_checked_nonvacuous :
  validate_chk fmt32 (HeadersProofs.bytes_mem 0 (HeadersProofs.tiny_pe32 96)) = Ok 4096 /\
  blocks_chk 4096 [0;16;0;0; 12;0;0;0; 5;48; 0;0] = Ok [ {| b_off := 0; b_va := 4096; b_sob := 12; b_words := [12293; 0] |} ] /\
  blocks_chk 4098 [0;16;0;0; 12;0;0;0; 5;48; 0;0] = Fault UBAlign /\
  reloc_parse_chk 4098 [0;16;0;0; 12;0;0;0; 5;48; 0;0] = Err EMisaligned /\
  total_size_orig_chk 0 536870908 = Fault POverflow /\ total_size_chk 0 536870908 = Ok 4294967296 /\
  rva_to_file_offset_chk 512 [{| s_va := 4096; s_vs := 512; s_prd := 1024; s_srd := 512 |}] 4100 = Ok 1028.
Proof. vm_compute. repeat split; reflexivity. Qed.

(* headers.rs:32 check_sum on a validated image: [e_lfanew + offset_of + offset_of], [dwords[i]], the u64 sums of the
   fold (the accumulator stays below 3 * 2^32), [&image[dwords.len() * 4..]], [dw[..tail.len()]], [check_sum += len] *)
Theorem C02_checked_check_sum : forall f m soi, f = fmt32 \/ f = fmt64 -> mem_ok m -> m_len m + 65536 < W64 -> validate f m = Ok soi ->
  check_sum_chk f m = Ok (check_sum f m).
Proof. exact CheckedProofs.check_sum_chk_eq. Qed.
Print Assumptions C02_checked_check_sum.

(* ---- component `util`: the utility / formatting layer never panics, or panics exactly on the stated arguments ---- *)
From PV.Model Require Util.
From PV.Spec Require UtilSpec.
From PV.Proofs Require UtilText UtilProofs UtilSlow.

(* no panic, no UB fault, no OutOfFuel on ALL inputs: UTF-16 decoding, FmtUtf16 Display / Debug, from_words, the
   accessors of a non-empty value, strn / wstrn / trimn / parsen / split_f, the GUID formatters, Ptr::fmt and the hex
   traits, to_strs (in particular 1 << i never shifts by the width or more) *)
Theorem C02_util_total :
  (forall ws, no_fault (Util.decode_all ws)) /\
  (forall ws, no_fault (Util.fmt_display ws)) /\
  (forall ws, UtilSpec.units_ok ws -> no_fault (Util.fmt_debug ws)) /\
  (forall words, UtilSpec.units_ok words -> no_fault (Util.from_words words)) /\
  (forall w0 t, no_fault (Util.as_ref (w0 :: t)) /\ no_fault (Util.to_string (w0 :: t)) /\ forall cs, no_fault (Util.eq_str (w0 :: t) cs)) /\
  (forall buf, no_fault (Util.strn buf) /\ no_fault (Util.wstrn buf) /\ no_fault (Util.trimn buf) /\ forall valid, no_fault (Util.parsen valid buf)) /\
  (forall p l, no_fault (Util.split_f p l)) /\
  (forall upper dashed b, length b = 16%nat -> bytes_ok b -> no_fault (Util.guid_fmt upper dashed (Util.guid_of_bytes b))) /\
  (forall bits va, bits = 32 \/ bits = 64 -> va < 2 ^ bits -> no_fault (Util.ptr_fmt bits va)) /\
  (forall upper alt width va, va < 2 ^ 64 -> no_fault (Util.ptr_hex upper alt width va)) /\
  (forall checks size t x, size * 8 < W32 -> no_fault (Util.to_strs checks size t x)).
Proof. exact UtilProofs.util_total. Qed.
Print Assumptions C02_util_total.

(* WideStr::from_str panics exactly on an empty buffer (index) and - in a build that checks overflow - when
   min(buffer.len() - 1, number of UTF-16 code units) reaches 65536 (the u16 counter); otherwise its value is stated *)
Theorem C02_util_from_str_faults_iff : forall checks s buffer,
  ((exists f, Util.from_str checks s buffer = Fault f) <-> UtilSpec.from_str_faults checks s buffer = true) /\
  (UtilSpec.from_str_faults checks s buffer = true ->
     Util.from_str checks s buffer = Fault (if lenN buffer =? 0 then PIndex else POverflow)) /\
  (UtilSpec.from_str_faults checks s buffer = false -> Util.from_str checks s buffer = Ok (UtilSpec.from_str_spec checks s buffer)).
Proof. exact UtilProofs.from_str_faults_iff. Qed.
Print Assumptions C02_util_from_str_faults_iff.

Theorem C02_util_from_str_witnesses :
  Util.from_str true [97] [] = Fault PIndex /\
  Util.from_str true (repeat 97 (N.to_nat 65536)) (repeat 0 (N.to_nat 65537)) = Fault POverflow /\
  match Util.from_str true (repeat 97 (N.to_nat 65535)) (repeat 0 (N.to_nat 65536)) with
  | Ok (n :: t) => (n =? 65535) && UtilSpec.wide_invb (n :: t) | _ => false end = true /\
  match Util.from_str false (repeat 97 (N.to_nat 65536)) (repeat 0 (N.to_nat 65537)) with
  | Ok (n :: t) => (n =? 0) && negb (UtilSpec.wide_invb (n :: t)) | _ => false end = true /\
  Util.from_str true [97] [0; 0; 0] = Ok [1; 97; 0] /\ UtilSpec.wide_invb [1; 97; 0] = false.
Proof. exact UtilSlow.from_str_witnesses. Qed.
Print Assumptions C02_util_from_str_witnesses.

(* Ptr::member(va, offset) panics exactly when va + offset does not fit the address type (checked build) *)
Theorem C02_util_ptr_member_faults_iff : forall checks bits va offset,
  (exists f, Util.ptr_member checks bits va offset = Fault f) <-> (checks = true /\ 2 ^ bits <= va + offset).
Proof. exact UtilProofs.ptr_member_faults_iff. Qed.
Print Assumptions C02_util_ptr_member_faults_iff.

(* Ptr::at(i) / Pir::at(i) panic exactly when i * size_of::<T>() overflows usize or va + (the product truncated to the
   address type) overflows the address type *)
Theorem C02_util_ptr_at_faults_iff : forall checks bits va i size, bits = 32 \/ bits = 64 ->
  ((exists f, Util.ptr_at checks bits va i size = Fault f) <->
   (checks = true /\ (W64 <= i * size \/ 2 ^ bits <= va + (i * size) mod 2 ^ bits))).
Proof. exact UtilProofs.ptr_at_faults_iff. Qed.
Print Assumptions C02_util_ptr_at_faults_iff.

Theorem C02_util_ptr_at_truncation_witness :
  Util.ptr_at true 32 4096 1073741824 4 = Ok 4096 /\ Util.ptr_at true 64 4096 1073741824 4 = Ok 4294971392 /\
  Util.ptr_at true 32 0 2305843009213693951 8 = Ok 4294967288 /\ Util.ptr_at true 64 0 2305843009213693952 8 = Fault POverflow.
Proof. exact UtilProofs.ptr_at_truncation_witness. Qed.
Print Assumptions C02_util_ptr_at_truncation_witness.

(* the values of the transcribed tables of Model/Util.v are the constants of src/image.rs (coq/gen/Consts.v is
   regenerated from the source on every run): a changed constant breaks this theorem (third audit, F5: the lemma
   file was outside every property's closure) *)
From PV.Proofs Require UtilConsts.
From PV.gen Require Consts.
Theorem C02_util_tables_from_source :
  map (fun r => snd r) Util.file_chars_table = [Consts.K_IMAGE_FILE_RELOCS_STRIPPED; Consts.K_IMAGE_FILE_EXECUTABLE_IMAGE; Consts.K_IMAGE_FILE_LINE_NUMS_STRIPPED; Consts.K_IMAGE_FILE_LOCAL_SYMS_STRIPPED; Consts.K_IMAGE_FILE_AGGRESIVE_WS_TRIM; Consts.K_IMAGE_FILE_LARGE_ADDRESS_AWARE; Consts.K_IMAGE_FILE_6; Consts.K_IMAGE_FILE_BYTES_REVERSED_LO; Consts.K_IMAGE_FILE_32BIT_MACHINE; Consts.K_IMAGE_FILE_DEBUG_STRIPPED; Consts.K_IMAGE_FILE_REMOVABLE_RUN_FROM_SWAP; Consts.K_IMAGE_FILE_NET_RUN_FROM_SWAP; Consts.K_IMAGE_FILE_SYSTEM; Consts.K_IMAGE_FILE_DLL; Consts.K_IMAGE_FILE_UP_SYSTEM_ONLY; Consts.K_IMAGE_FILE_BYTES_REVERSED_HI] /\
  map (fun r => snd r) Util.dll_chars_table = [Consts.K_IMAGE_DLLCHARACTERISTICS_0; Consts.K_IMAGE_DLLCHARACTERISTICS_1; Consts.K_IMAGE_DLLCHARACTERISTICS_2; Consts.K_IMAGE_DLLCHARACTERISTICS_3; Consts.K_IMAGE_DLLCHARACTERISTICS_4; Consts.K_IMAGE_DLLCHARACTERISTICS_HIGH_ENTROPY_VA; Consts.K_IMAGE_DLLCHARACTERISTICS_DYNAMIC_BASE; Consts.K_IMAGE_DLLCHARACTERISTICS_FORCE_INTEGRITY; Consts.K_IMAGE_DLLCHARACTERISTICS_NX_COMPAT; Consts.K_IMAGE_DLLCHARACTERISTICS_NO_ISOLATION; Consts.K_IMAGE_DLLCHARACTERISTICS_NO_SEH; Consts.K_IMAGE_DLLCHARACTERISTICS_NO_BIND; Consts.K_IMAGE_DLLCHARACTERISTICS_APPCONTAINER; Consts.K_IMAGE_DLLCHARACTERISTICS_WDM_DRIVER; Consts.K_IMAGE_DLLCHARACTERISTICS_GUARD_CF; Consts.K_IMAGE_DLLCHARACTERISTICS_TERMINAL_SERVER_AWARE] /\
  map (fun r => snd r) Util.section_chars_table = [Consts.K_IMAGE_SCN_0; Consts.K_IMAGE_SCN_1; Consts.K_IMAGE_SCN_2; Consts.K_IMAGE_SCN_TYPE_NO_PAD; Consts.K_IMAGE_SCN_4; Consts.K_IMAGE_SCN_CNT_CODE; Consts.K_IMAGE_SCN_CNT_INITIALIZED_DATA; Consts.K_IMAGE_SCN_CNT_UNINITIALIZED_DATA; Consts.K_IMAGE_SCN_LNK_OTHER; Consts.K_IMAGE_SCN_LNK_INFO; Consts.K_IMAGE_SCN_10; Consts.K_IMAGE_SCN_LNK_REMOVE; Consts.K_IMAGE_SCN_LNK_COMDAT; Consts.K_IMAGE_SCN_13; Consts.K_IMAGE_SCN_NO_DEFER_SPEC_EXC; Consts.K_IMAGE_SCN_GPREL; Consts.K_IMAGE_SCN_16; Consts.K_IMAGE_SCN_MEM_PURGEABLE; Consts.K_IMAGE_SCN_MEM_LOCKED; Consts.K_IMAGE_SCN_MEM_PRELOAD; Consts.K_IMAGE_SCN_ALIGN_1; Consts.K_IMAGE_SCN_ALIGN_2; Consts.K_IMAGE_SCN_ALIGN_4; Consts.K_IMAGE_SCN_ALIGN_8; Consts.K_IMAGE_SCN_LNK_NRELOC_OVFL; Consts.K_IMAGE_SCN_MEM_DISCARDABLE; Consts.K_IMAGE_SCN_MEM_NOT_CACHED; Consts.K_IMAGE_SCN_MEM_NOT_PAGED; Consts.K_IMAGE_SCN_MEM_SHARED; Consts.K_IMAGE_SCN_MEM_EXECUTE; Consts.K_IMAGE_SCN_MEM_READ; Consts.K_IMAGE_SCN_MEM_WRITE] /\
  map fst Util.machine_table = [Consts.K_IMAGE_FILE_MACHINE_I386; Consts.K_IMAGE_FILE_MACHINE_AMD64; Consts.K_IMAGE_FILE_MACHINE_IA64] /\
  map fst Util.optional_magic_table = [Consts.K_IMAGE_NT_OPTIONAL_HDR32_MAGIC; Consts.K_IMAGE_NT_OPTIONAL_HDR64_MAGIC; Consts.K_IMAGE_ROM_OPTIONAL_HDR_MAGIC] /\
  map fst Util.subsystem_table = [Consts.K_IMAGE_SUBSYSTEM_UNKNOWN; Consts.K_IMAGE_SUBSYSTEM_NATIVE; Consts.K_IMAGE_SUBSYSTEM_WINDOWS_GUI; Consts.K_IMAGE_SUBSYSTEM_WINDOWS_CUI; Consts.K_IMAGE_SUBSYSTEM_OS2_CUI; Consts.K_IMAGE_SUBSYSTEM_POSIX_CUI; Consts.K_IMAGE_SUBSYSTEM_NATIVE_WINDOWS; Consts.K_IMAGE_SUBSYSTEM_WINDOWS_CE_GUI; Consts.K_IMAGE_SUBSYSTEM_EFI_APPLICATION; Consts.K_IMAGE_SUBSYSTEM_EFI_BOOT_SERVICE_DRIVER; Consts.K_IMAGE_SUBSYSTEM_EFI_RUNTIME_DRIVER; Consts.K_IMAGE_SUBSYSTEM_EFI_ROM; Consts.K_IMAGE_SUBSYSTEM_XBOX; Consts.K_IMAGE_SUBSYSTEM_WINDOWS_BOOT_APPLICATION] /\
  map fst Util.directory_entry_table = [Consts.K_IMAGE_DIRECTORY_ENTRY_EXPORT; Consts.K_IMAGE_DIRECTORY_ENTRY_IMPORT; Consts.K_IMAGE_DIRECTORY_ENTRY_RESOURCE; Consts.K_IMAGE_DIRECTORY_ENTRY_EXCEPTION; Consts.K_IMAGE_DIRECTORY_ENTRY_SECURITY; Consts.K_IMAGE_DIRECTORY_ENTRY_BASERELOC; Consts.K_IMAGE_DIRECTORY_ENTRY_DEBUG; Consts.K_IMAGE_DIRECTORY_ENTRY_ARCHITECTURE; Consts.K_IMAGE_DIRECTORY_ENTRY_GLOBALPTR; Consts.K_IMAGE_DIRECTORY_ENTRY_TLS; Consts.K_IMAGE_DIRECTORY_ENTRY_LOAD_CONFIG; Consts.K_IMAGE_DIRECTORY_ENTRY_BOUND_IMPORT; Consts.K_IMAGE_DIRECTORY_ENTRY_IAT; Consts.K_IMAGE_DIRECTORY_ENTRY_DELAY_IMPORT; Consts.K_IMAGE_DIRECTORY_ENTRY_COM_DESCRIPTOR] /\
  map fst Util.resource_name_table = [Consts.K_RT_CURSOR; Consts.K_RT_BITMAP; Consts.K_RT_ICON; Consts.K_RT_MENU; Consts.K_RT_DIALOG; Consts.K_RT_STRING; Consts.K_RT_FONTDIR; Consts.K_RT_FONT; Consts.K_RT_ACCELERATOR; Consts.K_RT_RCDATA; Consts.K_RT_MESSAGETABLE; Consts.K_RT_GROUP_CURSOR; Consts.K_RT_GROUP_ICON; Consts.K_RT_VERSION; Consts.K_RT_DLGINCLUDE; Consts.K_RT_PLUGPLAY; Consts.K_RT_VXD; Consts.K_RT_ANICURSOR; Consts.K_RT_ANIICON; Consts.K_RT_HTML; Consts.K_RT_MANIFEST] /\
  map fst Util.reloc_type_table = [Consts.K_IMAGE_REL_BASED_ABSOLUTE; Consts.K_IMAGE_REL_BASED_HIGH; Consts.K_IMAGE_REL_BASED_LOW; Consts.K_IMAGE_REL_BASED_HIGHLOW; Consts.K_IMAGE_REL_BASED_HIGHADJ; Consts.K_IMAGE_REL_BASED_MACHINE_SPECIFIC_5; Consts.K_IMAGE_REL_BASED_MACHINE_SPECIFIC_7; Consts.K_IMAGE_REL_BASED_MACHINE_SPECIFIC_9; Consts.K_IMAGE_REL_BASED_DIR64] /\
  map fst Util.unwind_op_table = [Consts.K_UWOP_PUSH_NONVOL; Consts.K_UWOP_ALLOC_LARGE; Consts.K_UWOP_ALLOC_SMALL; Consts.K_UWOP_SET_FPREG; Consts.K_UWOP_SAVE_NONVOL; Consts.K_UWOP_SAVE_NONVOL_FAR; Consts.K_UWOP_SAVE_XMM128; Consts.K_UWOP_SAVE_XMM128_FAR; Consts.K_UWOP_PUSH_MACHFRAME] /\
  map fst Util.unwind_flag_table = [Consts.K_UNW_FLAG_NHANDLER; Consts.K_UNW_FLAG_EHANDLER; Consts.K_UNW_FLAG_UHANDLER; Consts.K_UNW_FLAG_FHANDLER; Consts.K_UNW_FLAG_CHAININFO] /\
  map fst Util.debug_type_table = [Consts.K_IMAGE_DEBUG_TYPE_UNKNOWN; Consts.K_IMAGE_DEBUG_TYPE_COFF; Consts.K_IMAGE_DEBUG_TYPE_CODEVIEW; Consts.K_IMAGE_DEBUG_TYPE_FPO; Consts.K_IMAGE_DEBUG_TYPE_MISC; Consts.K_IMAGE_DEBUG_TYPE_EXCEPTION; Consts.K_IMAGE_DEBUG_TYPE_FIXUP; Consts.K_IMAGE_DEBUG_TYPE_OMAP_TO_SRC; Consts.K_IMAGE_DEBUG_TYPE_OMAP_FROM_SRC; Consts.K_IMAGE_DEBUG_TYPE_BORLAND; Consts.K_IMAGE_DEBUG_TYPE_RESERVED10; Consts.K_IMAGE_DEBUG_TYPE_CLSID; Consts.K_IMAGE_DEBUG_TYPE_VC_FEATURE; Consts.K_IMAGE_DEBUG_TYPE_POGO; Consts.K_IMAGE_DEBUG_TYPE_ILTCG; Consts.K_IMAGE_DEBUG_TYPE_MPX; Consts.K_IMAGE_DEBUG_TYPE_REPRO].
Proof. exact UtilConsts.util_tables_from_source. Qed.
Print Assumptions C02_util_tables_from_source.
