(* C09 — Import descriptors, name tables and the IAT are decoded as stored.
   Statements only; every proof is [exact <lemma>].
   [pe_ok p]: the format is PE32 or PE32+, the buffer holds bytes, and the header fields of the
   view are machine words (view_ok of C05).  [slice_spec] is the closed form of slicing proved in
   C04/C05: for a file view the first containing section's stored bytes, for a mapped view the
   buffer from offset rva. *)
From PV.Model Require Import Machine Mapping Views Headers Imports.
From PV.Spec Require Import MappingSpec ViewSpec ImportSpec.
From PV.Proofs Require ViewsProofs ImportsProofs.
Import ViewsProofs ImportsProofs.

(* 1. the import directory: the longest prefix of 20-byte descriptors, at the directory RVA, before the
      first one whose FirstThunk is zero; Bounds if the available bytes hold no such descriptor; the
      errors of slicing at the RVA otherwise; Bounds if directory 1 does not exist *)
Theorem C09_imports : forall p, pe_ok p ->
  match dir_spec p DIR_IMPORT with
  | None => imports p = Err EBounds
  | Some (rva, _) => terminated_post (desc_q p) DESC_SIZE (slice_spec (p_v p) rva 0 4) (imports p)
  end.
Proof. exact ImportsProofs.imports_post. Qed.
Print Assumptions C09_imports.

Theorem C09_imports_exec : forall p, pe_ok p -> imports p = imports_spec p.
Proof. exact ImportsProofs.imports_correct. Qed.
Print Assumptions C09_imports_exec.

(* an image without the directory reports the null error *)
Theorem C09_imports_null : forall p sz, pe_ok p -> dir_spec p DIR_IMPORT = Some (0, sz) -> imports p = Err ENull.
Proof. exact ImportsProofs.imports_null. Qed.
Print Assumptions C09_imports_null.

(* a directory index at or beyond NumberOfRvaAndSizes: Bounds *)
Theorem C09_dir_absent : forall p, pe_ok p ->
  (nrva_spec p <= DIR_IMPORT -> imports p = Err EBounds) /\ (nrva_spec p <= DIR_IAT -> iat p = Err EBounds).
Proof. exact ImportsProofs.dir_absent. Qed.
Print Assumptions C09_dir_absent.

(* corollary: when every descriptor before the all-zero terminator (descriptor n) has a non-zero
   FirstThunk, exactly the n descriptors up to the terminator are reported *)
Theorem C09_imports_wf : forall p rva sz r n, pe_ok p -> dir_spec p DIR_IMPORT = Some (rva, sz) ->
  slice_spec (p_v p) rva 0 4 = Ok r -> wf_import_dir (p_get p) (r_off r) (r_len r) n ->
  imports p = Ok {| r_off := r_off r; r_len := DESC_SIZE * n |}.
Proof. exact ImportsProofs.imports_wf. Qed.
Print Assumptions C09_imports_wf.

(* the iterator yields the descriptors of the array in order *)
Theorem C09_descs_in_order : forall p r,
  length (descs p r) = N.to_nat (r_len r / DESC_SIZE) /\
  forall k, (k < length (descs p r))%nat ->
    nth_error (descs p r) k = Some (desc_at (p_get p) (r_off r) (N.of_nat k)).
Proof. exact ImportsProofs.descs_in_order. Qed.
Print Assumptions C09_descs_in_order.

Theorem C09_desc_fields : forall get off k,
  d_oft (desc_at get off k) = desc_field get off k OFF_ILT /\
  d_name (desc_at get off k) = desc_field get off k OFF_NAME /\
  d_ft (desc_at get off k) = desc_field get off k OFF_IAT.
Proof. exact ImportsProofs.desc_at_fields. Qed.
Print Assumptions C09_desc_fields.

(* 2. the DLL name: the bytes up to and including the first NUL of what is available at Name *)
Theorem C09_dll_name : forall p d, pe_ok p -> d_name d < W32 ->
  match slice_spec (p_v p) (d_name d) 0 1 with
  | Ok r =>
    match dll_name p d with
    | Ok q => r_off q = r_off r /\ r_len q <= r_len r /\ p_get p (r_off r + r_len q - 1) = 0 /\ 0 < r_len q /\
              forall k, k < r_len q - 1 -> p_get p (r_off r + k) <> 0
    | Err e => e = EEncoding /\ forall k, k < r_len r -> p_get p (r_off r + k) <> 0
    | Fault _ => False
    end
  | Err e => dll_name p d = Err e
  | Fault f => dll_name p d = Fault f
  end.
Proof. exact ImportsProofs.dll_name_post. Qed.
Print Assumptions C09_dll_name.

Theorem C09_dll_name_exec : forall p d, pe_ok p -> d_name d < W32 -> dll_name p d = c_string_spec p (d_name d).
Proof. exact ImportsProofs.dll_name_correct. Qed.
Print Assumptions C09_dll_name_exec.

(* the name table (rva = OriginalFirstThunk) and the address table (rva = FirstThunk): the thunks
   before the first zero thunk; Bounds if the available bytes hold no zero thunk *)
Theorem C09_thunks : forall p rva, pe_ok p -> rva < W32 ->
  terminated_post (thunk_q p) (thunk_size p) (slice_spec (p_v p) rva 0 (thunk_size p)) (thunks p rva).
Proof. exact ImportsProofs.thunks_post. Qed.
Print Assumptions C09_thunks.

Theorem C09_thunks_exec : forall p rva, pe_ok p -> rva < W32 -> thunks p rva = thunks_spec p rva.
Proof. exact ImportsProofs.thunks_correct. Qed.
Print Assumptions C09_thunks_exec.

(* a zero Name / FirstThunk / OriginalFirstThunk gives the null error *)
Theorem C09_tables_null : forall p d,
  (d_name d = 0 -> dll_name p d = Err ENull) /\ (d_ft d = 0 -> desc_iat p d = Err ENull) /\
  (d_oft d = 0 -> desc_int p d = Err ENull).
Proof. exact ImportsProofs.tables_null. Qed.
Print Assumptions C09_tables_null.

Theorem C09_thunk_values_in_order : forall p r,
  length (thunk_values p r) = N.to_nat (r_len r / thunk_size p) /\
  forall k, (k < length (thunk_values p r))%nat ->
    nth_error (thunk_values p r) k = Some (thunk_spec (p_get p) (r_off r) (thunk_size p) (N.of_nat k)).
Proof. exact ImportsProofs.thunk_values_in_order. Qed.
Print Assumptions C09_thunk_values_in_order.

(* 3. thunk decoding, for both thunk widths: top bit set -> the low 16 bits as ordinal; otherwise the
      u16 hint at rva = t mod 2^32 and the C string at rva + 2; the errors of the two reads propagate;
      Overflow when rva + 2 is not a 32-bit rva (after the F38 repair) *)
Theorem C09_import_from_va : forall p t, pe_ok p ->
  t < 2 * thunk_top p -> import_from_va p t = import_spec p t.
Proof. exact ImportsProofs.import_from_va_correct. Qed.
Print Assumptions C09_import_from_va.

(* the name table of a descriptor and the image-wide IAT decode every entry by (3) *)
Theorem C09_tables_decode : forall p r, pe_ok p ->
  int_imports p r = map (import_spec p) (thunk_values p r) /\
  iat_iter p r = map (fun va => (va, import_spec p va)) (thunk_values p r).
Proof. exact ImportsProofs.tables_decode. Qed.
Print Assumptions C09_tables_decode.

(* a successful 2-byte read at rva leaves room below 2^32 for rva + 2 on every file view and on
   mapped views shorter than 4 GiB: there the Overflow case of (3) cannot occur *)
Theorem C09_name_rva_no_wrap : forall v rva al r, view_ok v -> (v_file v = false -> v_len v < W32) ->
  slice_spec v rva 2 al = Ok r -> rva + 2 < W32.
Proof. exact ImportsProofs.slice_spec_room. Qed.
Print Assumptions C09_name_rva_no_wrap.

(* 4. the image-wide IAT: Size / pointer-size entries at the directory RVA *)
Theorem C09_iat : forall p, pe_ok p -> iat p = iat_spec p.
Proof. exact ImportsProofs.iat_correct. Qed.
Print Assumptions C09_iat.

Theorem C09_iat_length : forall p rva sz q, pe_ok p -> dir_spec p DIR_IAT = Some (rva, sz) -> iat p = Ok q ->
  r_len q = thunk_size p * (sz / thunk_size p) /\ length (thunk_values p q) = N.to_nat (sz / thunk_size p).
Proof. exact ImportsProofs.iat_length. Qed.
Print Assumptions C09_iat_length.

Theorem C09_iat_null : forall p sz, pe_ok p -> dir_spec p DIR_IAT = Some (0, sz) -> iat p = Err ENull.
Proof. exact ImportsProofs.iat_null. Qed.
Print Assumptions C09_iat_null.

(* 5. none of the table reads panics, reads out of bounds or runs out of fuel, whatever the image holds *)
Theorem C09_tables_no_fault : forall p d rva,
  no_fault (imports p) /\ no_fault (iat p) /\ no_fault (dll_name p d) /\ no_fault (desc_iat p d) /\
  no_fault (desc_int p d) /\ no_fault (thunks p rva).
Proof. exact ImportsProofs.tables_no_fault. Qed.
Print Assumptions C09_tables_no_fault.

Theorem C09_import_from_va_no_fault : forall p t, no_fault (import_from_va p t).
Proof. exact ImportsProofs.import_from_va_no_fault. Qed.
Print Assumptions C09_import_from_va_no_fault.

(* F38: the code as it stood computed rva + 2 with a plain add, which overflowed on a mapped view of
   4 GiB; on file views and on smaller mapped views the repair changes nothing *)
Theorem C09_F38_import_from_va_orig_refuted :
  import_from_va_orig {| p_f := fmt64; p_v := view_4g |} 4294967294 = Fault POverflow /\
  import_from_va {| p_f := fmt64; p_v := view_4g |} 4294967294 = Err EOverflow.
Proof. exact ImportsProofs.import_from_va_orig_refuted. Qed.
Print Assumptions C09_F38_import_from_va_orig_refuted.

Theorem C09_F38_orig_agrees : forall p t, view_ok (p_v p) -> (v_file (p_v p) = false -> v_len (p_v p) < W32) ->
  import_from_va_orig p t = import_from_va p t.
Proof. exact ImportsProofs.import_from_va_orig_agrees. Qed.
Print Assumptions C09_F38_orig_agrees.


(* 6. SHAPE: which bytes are decoded how (audit: C09_import_from_va and C09_iat compare the model with the same reading over
      slice_spec).  Stated over the bytes of the view at literal offsets (Spec/LeBytes.v: word_at / dword_at / qword_at are the
      little-endian values written out byte by byte) and over [slice] itself, with no hypothesis on the image. *)
From PV.Spec Require Import LeBytes.
From PV.Proofs Require ImportsShape.

(* a descriptor is the five dwords at offsets 0, 4, 8, 12, 16 of its 20-byte record:
   OriginalFirstThunk, TimeDateStamp, ForwarderChain, Name, FirstThunk *)
Theorem C09_desc_shape : forall get off k,
  desc_at get off k =
    {| d_oft := dword_at get (off + 20 * k); d_tds := dword_at get (off + 20 * k + 4); d_fwd := dword_at get (off + 20 * k + 8);
       d_name := dword_at get (off + 20 * k + 12); d_ft := dword_at get (off + 20 * k + 16) |}.
Proof. exact ImportsShape.desc_at_shape. Qed.
Print Assumptions C09_desc_shape.

Theorem C09_descs_shape : forall p r,
  length (descs p r) = N.to_nat (r_len r / 20) /\
  forall k, k < r_len r / 20 ->
    nth_error (descs p r) (N.to_nat k) =
    Some {| d_oft := dword_at (p_get p) (r_off r + 20 * k); d_tds := dword_at (p_get p) (r_off r + 20 * k + 4);
            d_fwd := dword_at (p_get p) (r_off r + 20 * k + 8); d_name := dword_at (p_get p) (r_off r + 20 * k + 12);
            d_ft := dword_at (p_get p) (r_off r + 20 * k + 16) |}.
Proof. exact ImportsShape.descs_shape. Qed.
Print Assumptions C09_descs_shape.

(* a thunk is the pointer-wide little-endian value at offset i * pointer size of its table *)
Theorem C09_thunk_shape : forall p r i,
  thunk_at p r i = if f_64 (p_f p) then qword_at (p_get p) (r_off r + 8 * i) else dword_at (p_get p) (r_off r + 4 * i).
Proof. exact ImportsShape.thunk_at_shape. Qed.
Print Assumptions C09_thunk_shape.

(* the address table / name table of a descriptor (desc_iat p d = thunks p (d_ft d), desc_int p d = thunks p (d_oft d)):
   the table starts where slicing (pointer-aligned) at the rva starts; thunk i is the value at FirstThunk + i * va_bytes; every
   reported thunk is non-zero, and the thunk after the last reported one lies inside the slice and is zero *)
Theorem C09_thunks_shape : forall p rva r, thunks p rva = Ok r ->
  let w := va_bytes p in
  exists s, slice (p_v p) rva 0 w = Ok s /\ r_off r = r_off s /\
    let n := r_len r / w in
    r_len r = n * w /\ (n + 1) * w <= r_len s /\
    length (thunk_values p r) = N.to_nat n /\
    (forall i, i < n -> nth_error (thunk_values p r) (N.to_nat i) = Some (thunk_at p r i) /\ thunk_at p r i <> 0) /\
    thunk_at p r n = 0.
Proof. exact ImportsShape.thunks_shape. Qed.
Print Assumptions C09_thunks_shape.

(* thunk decoding over the bytes, every outcome: flag bit set -> ordinal = the low 16 bits; otherwise the hint is the word at
   what slicing (2 bytes, 2-aligned) yields at rva = t mod 2^32 and the name the bytes up to and including the first NUL of what
   slicing yields at rva + 2; each error is attributed to the step that produced it; no fault *)
Theorem C09_import_shape : forall p t,
  match import_from_va p t with
  | Ok (ByOrdinal o) => N.land t (ordinal_flag p) <> 0 /\ o = t mod 65536
  | Ok (ByName h nm) =>
    N.land t (ordinal_flag p) = 0 /\
    let rva := t mod 4294967296 in
    rva + 2 < 4294967296 /\
    exists hr s, slice (p_v p) rva 2 2 = Ok hr /\ h = word_at (p_get p) (r_off hr) /\
      slice (p_v p) (rva + 2) 0 1 = Ok s /\ r_off nm = r_off s /\ 0 < r_len nm /\ r_len nm <= r_len s /\
      p_get p (r_off s + r_len nm - 1) = 0 /\ forall k, k < r_len nm - 1 -> p_get p (r_off s + k) <> 0
  | Err e =>
    N.land t (ordinal_flag p) = 0 /\
    let rva := t mod 4294967296 in
    (slice (p_v p) rva 2 2 = Err e \/
     (exists hr, slice (p_v p) rva 2 2 = Ok hr) /\
       ((4294967296 <= rva + 2 /\ e = EOverflow) \/
        (rva + 2 < 4294967296 /\ (slice (p_v p) (rva + 2) 0 1 = Err e \/
           exists s, slice (p_v p) (rva + 2) 0 1 = Ok s /\ e = EEncoding /\ forall k, k < r_len s -> p_get p (r_off s + k) <> 0))))
  | Fault _ => False
  end.
Proof. exact ImportsShape.import_from_va_shape. Qed.
Print Assumptions C09_import_shape.

(* the flag test is the top bit of the thunk *)
Theorem C09_ordinal_flag_bit : forall p t,
  N.land t (ordinal_flag p) = 0 <-> N.testbit t (if f_64 (p_f p) then 63 else 31) = false.
Proof. exact ImportsShape.ordinal_flag_bit. Qed.
Print Assumptions C09_ordinal_flag_bit.

Example C09_shape_nonvacuous :
  exists d, descs ex_pe {| r_off := 320; r_len := 20 |} = [d] /\
    d = {| d_oft := dword_at (p_get ex_pe) 320; d_tds := dword_at (p_get ex_pe) 324; d_fwd := dword_at (p_get ex_pe) 328;
           d_name := dword_at (p_get ex_pe) 332; d_ft := dword_at (p_get ex_pe) 336 |} /\
    desc_iat ex_pe d = Ok {| r_off := 384; r_len := 8 |} /\
    thunk_values ex_pe {| r_off := 384; r_len := 8 |} = [dword_at (p_get ex_pe) 384; dword_at (p_get ex_pe) 388] /\
    dword_at (p_get ex_pe) 384 = 2147483655 /\ dword_at (p_get ex_pe) 392 = 0.
Proof. exact ImportsShape.shape_nonvacuous. Qed.

(* the ordinal flag of the model is the IMAGE_ORDINAL_FLAG32/64 constant of src/image.rs, regenerated on every run *)
From PV.gen Require Consts.
From PV.Proofs Require ConstsImports.
Theorem C09_constants_match_source : forall p,
  ordinal_flag p = if Headers.f_64 (p_f p) then Consts.K_IMAGE_ORDINAL_FLAG64 else Consts.K_IMAGE_ORDINAL_FLAG32.
Proof. exact ConstsImports.imports_consts. Qed.
Print Assumptions C09_constants_match_source.

Example C09_nonvacuous :
  pe_ok ex_pe /\
  imports ex_pe = Ok {| r_off := 320; r_len := 20 |} /\
  wf_import_dir (p_get ex_pe) 320 88 1 /\
  (exists d, descs ex_pe {| r_off := 320; r_len := 20 |} = [d] /\
     dll_name ex_pe d = Ok {| r_off := 376; r_len := 6 |} /\
     desc_iat ex_pe d = Ok {| r_off := 384; r_len := 8 |} /\
     desc_int ex_pe d = Ok {| r_off := 360; r_len := 8 |} /\
     int_imports ex_pe {| r_off := 360; r_len := 8 |} = [Ok (ByOrdinal 7); Ok (ByName 5 {| r_off := 402; r_len := 2 |})]) /\
  iat ex_pe = Ok {| r_off := 384; r_len := 8 |}.
Proof. exact ImportsProofs.nonvacuous_example. Qed.

(* ---- leaf functions regenerated from the source on every run (tools/gen_leaf.py -> gen/Leaf.v): agreement with the hand-written model ---- *)
(* src/pe64/imports.rs import_from_va: the ordinal-flag test, the casts and the checked name rva, compiled for pe32 and
   for pe64 and regenerated from the source on every run - the model's import_from_va is the same function written with
   them; IMAGE_IMPORT_DESCRIPTOR::is_null is the model's terminator test *)
From PV.Model Require Headers Imports.
From PV.gen Require Leaf Layout.
From PV.Proofs Require LeafImports.
Theorem C09_leaf_import_from_va_64 : forall p va, Headers.f_64 (Imports.p_f p) = true ->
  Imports.import_from_va p va =
    LeafImports.import_from_va_leaf Leaf.L_pe64_imports_import_from_va__by_name Leaf.L_pe64_imports_import_from_va__rva
      Leaf.L_pe64_imports_import_from_va__name_rva Leaf.L_pe64_imports_import_from_va__ordinal p va.
Proof. exact LeafImports.import_from_va_agrees_64. Qed.
Print Assumptions C09_leaf_import_from_va_64.
Theorem C09_leaf_import_from_va_32 : forall p va, Headers.f_64 (Imports.p_f p) = false ->
  Imports.import_from_va p va =
    LeafImports.import_from_va_leaf Leaf.L_pe32_imports_import_from_va__by_name Leaf.L_pe32_imports_import_from_va__rva
      Leaf.L_pe32_imports_import_from_va__name_rva Leaf.L_pe32_imports_import_from_va__ordinal p va.
Proof. exact LeafImports.import_from_va_agrees_32. Qed.
Print Assumptions C09_leaf_import_from_va_32.
Theorem C09_leaf_import_from_va_no_panic : forall va,
  Leaf.L_pe64_imports_import_from_va__by_name_ok va = true /\ Leaf.L_pe64_imports_import_from_va__rva_ok va = true /\
  Leaf.L_pe64_imports_import_from_va__name_rva_ok va = true /\ Leaf.L_pe64_imports_import_from_va__ordinal_ok va = true /\
  Leaf.L_pe32_imports_import_from_va__by_name_ok va = true /\ Leaf.L_pe32_imports_import_from_va__rva_ok va = true /\
  Leaf.L_pe32_imports_import_from_va__name_rva_ok va = true /\ Leaf.L_pe32_imports_import_from_va__ordinal_ok va = true.
Proof. exact LeafImports.import_from_va_leaves_ok. Qed.
Print Assumptions C09_leaf_import_from_va_no_panic.
Theorem C09_leaf_desc_is_null : forall x,
  Leaf.L_image_IMAGE_IMPORT_DESCRIPTOR_is_null_ok (x / 2 ^ (8 * Layout.IMAGE_IMPORT_DESCRIPTOR_FirstThunk_off)) = true /\
  Leaf.L_image_IMAGE_IMPORT_DESCRIPTOR_is_null (x / 2 ^ (8 * Layout.IMAGE_IMPORT_DESCRIPTOR_FirstThunk_off)) = Imports.desc_is_null x.
Proof. exact LeafImports.desc_is_null_agrees. Qed.
Print Assumptions C09_leaf_desc_is_null.

(* the source places the binders of the generated leaf definitions stand for (third audit, F2) *)
From Coq Require Import List String.
Import ListNotations.
Theorem C09_leaf_reads_imports :
  Leaf.L_image_IMAGE_IMPORT_DESCRIPTOR_is_null_args = ["self.FirstThunk : u32"%string] /\
  Leaf.L_pe32_imports_import_from_va__by_name_args = ["arg2 : u32"%string] /\
  Leaf.L_pe32_imports_import_from_va__rva_args = ["arg2 : u32"%string] /\
  Leaf.L_pe32_imports_import_from_va__name_rva_args = ["arg2 : u32"%string] /\
  Leaf.L_pe32_imports_import_from_va__ordinal_args = ["arg2 : u32"%string] /\
  Leaf.L_pe64_imports_import_from_va__by_name_args = ["arg2 : u64"%string] /\
  Leaf.L_pe64_imports_import_from_va__rva_args = ["arg2 : u64"%string] /\
  Leaf.L_pe64_imports_import_from_va__name_rva_args = ["arg2 : u64"%string] /\
  Leaf.L_pe64_imports_import_from_va__ordinal_args = ["arg2 : u64"%string].
Proof. exact LeafImports.leaf_reads_imports. Qed.
Print Assumptions C09_leaf_reads_imports.
