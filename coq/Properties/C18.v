(* C18 — Iterators behave as faithful sequences under any interleaving of calls.
   Statements only; every proof is [exact <lemma>].

   Vocabulary.  Spec/Deque.v: a pool of deques (lists of items); a history is a list of
   (slot, call) with calls Next | NextBack | Nth k | Len | SizeHint | Count | Clone | NthBack k; [run full pool hist]
   is the list of outputs; [full] says the iterator is double-ended and exact-size.
   Model/Iters.v: an iterator is a record of its methods over a state ([iter_impl]); [m_run impl pool hist]
   runs the same history on the model and is [Fault _] if any call panics / runs out of fuel.
   [out_ok true] is equality; [out_ok false] is equality except that a size hint only has to be a valid bound. *)
From PV.Model Require Import Machine Rich Relocs Strings Iters.
From PV.Spec Require Import Deque.
From PV.Spec Require Runs.
From PV.Model Require Import ItersMore.
From PV.Proofs Require ItersProofs ItersMoreProofs.
Import ItersProofs ItersMoreProofs.

(* ---- RichIter: the hand-written next / nth / next_back / size_hint / count ---- *)

(* For every pool of RichIter states (an even number of remaining dwords, fewer than 2^64) and EVERY history:
   no call faults, and the outputs are literally those of the deque holding the decoded records. *)
Theorem C18_rich_all_histories : forall hist pool, Forall rich_inv pool ->
  m_run rich_impl pool hist = Ok (run true (map rich_abs pool) hist).
Proof. exact ItersProofs.rich_faithful. Qed.
Print Assumptions C18_rich_all_histories.

(* in particular no call panics (C02 for RichIter) *)
Theorem C18_rich_no_fault : forall hist pool, Forall rich_inv pool -> no_fault (m_run rich_impl pool hist).
Proof. exact ItersProofs.rich_no_fault. Qed.
Print Assumptions C18_rich_no_fault.

(* The iterator records() hands out for an accepted DOS area is such a state, and its deque is the
   record list of C16. *)
Theorem C18_rich_records : forall image se hist, Rich.try_from image = Ok se -> lenN image < W64 ->
  m_run rich_impl [rich_records_iter image se] hist = Ok (run true [Rich.records image se] hist).
Proof. exact ItersProofs.rich_records_faithful. Qed.
Print Assumptions C18_rich_records.

(* F23: nth as it stood (n * 2 + 2) faults on nth(2^63) and nth(usize::MAX) where the deque answers none *)
Theorem C18_F23_rich_nth_orig_refuted :
  rich_nth_orig ([1; 2], 0) (2 ^ 63) = Fault POverflow /\
  rich_nth_orig ([], 0) (2 ^ 64 - 1) = Fault POverflow /\
  rich_nth ([1; 2], 0) (2 ^ 63) = Ok (None, ([], 0)) /\
  snd (dq_nth (A := rec) [rdecode 0 1 2] (2 ^ 63)) = ONone.
Proof. exact ItersProofs.rich_nth_orig_refuted. Qed.
Print Assumptions C18_F23_rich_nth_orig_refuted.

(* ---- iterators that only define next (IterBlocks, Enumerator, PgoIter, Wrap) ---- *)

(* Any iterator whose next never faults, leaves the state alone when it returns None and makes progress
   when it returns Some: under EVERY history (next, the provided nth / count / size_hint, clone) no call
   faults or runs out of fuel and the outputs are those of the deque holding what a for loop collects. *)
Theorem C18_forward_iterators : forall (S A : Type) (next : S -> res (option A * S)) (measure : S -> nat) (Inv : S -> Prop),
  (forall s, Inv s -> next s = Ok (None, s) \/
                      (exists x s', next s = Ok (Some x, s') /\ Inv s' /\ (measure s' < measure s)%nat)) ->
  (forall s, Inv s -> N.of_nat (measure s) < W64) ->
  forall hist pool, Forall Inv pool ->
  exists outs, m_run (fwd_impl next measure) pool hist = Ok outs /\
               Forall2 (out_ok false) (run false (map (items next measure) pool) hist) outs.
Proof. exact @ItersProofs.fwd_collect_faithful. Qed.
Print Assumptions C18_forward_iterators.

(* fused in fact: after the first None, next keeps returning None and the state no longer changes *)
Theorem C18_forward_fused : forall (S A : Type) (next : S -> res (option A * S)) (measure : S -> nat) (Inv : S -> Prop),
  (forall s, Inv s -> next s = Ok (None, s) \/
                      (exists x s', next s = Ok (Some x, s') /\ Inv s' /\ (measure s' < measure s)%nat)) ->
  forall s s', Inv s -> next s = Ok (None, s') -> s' = s /\ next s' = Ok (None, s').
Proof. exact @ItersProofs.fwd_fused. Qed.
Print Assumptions C18_forward_fused.

(* IterBlocks: the deque is the block list of C14 *)
Theorem C18_blocks : forall data bs hist, lenN data + 3 < W64 -> blocks data = Ok bs ->
  exists outs, m_run blk_impl [(0, data)] hist = Ok outs /\ Forall2 (out_ok false) (run false [bs] hist) outs.
Proof. exact ItersProofs.blk_faithful. Qed.
Print Assumptions C18_blocks.

(* strings::Enumerator: the deque is the list of qualifying runs of C20 *)
Theorem C18_strings : forall c base bytes, lenN bytes < W64 -> forall hist,
  exists outs, m_run (str_impl c base bytes) [0] hist = Ok outs /\
               Forall2 (out_ok false) (run false [Runs.enumerate_spec c base bytes] hist) outs.
Proof. exact ItersProofs.str_faithful. Qed.
Print Assumptions C18_strings.

(* PgoIter: the deque is what a for loop over the model collects *)
Theorem C18_pgo : forall l hist, lenN l < W64 ->
  exists outs, m_run pgo_impl [l] hist = Ok outs /\
               Forall2 (out_ok false) (run false [items pgo_next pgo_measure l] hist) outs.
Proof. exact ItersProofs.pgo_faithful. Qed.
Print Assumptions C18_pgo.

(* ---- iterators that pass every call to a slice::Iter (imports::Iter, debug::Iter) ---- *)

(* the delegation diagram: with slice::Iter trusted to be the deque of the slice, every method passes
   the right call and argument through and maps the item *)
Theorem C18_delegating : forall (B A : Type) (f : B -> A) hist (pool : list (list B)),
  m_run (deleg_impl f) pool hist = Ok (run true (map (map f) pool) hist).
Proof. exact @ItersProofs.deleg_faithful. Qed.
Print Assumptions C18_delegating.

(* Wrap<Iter32, Iter64> over them: only next is forwarded, the rest are the provided methods *)
Theorem C18_wrap : forall (B A W : Type) (f : B -> A) (tag : A -> W) (l : list B) hist, lenN l < W64 ->
  exists outs, m_run (wrap_impl (deleg_impl f) tag (fun s => length (map f s))) [l] hist = Ok outs /\
               Forall2 (out_ok false) (run false [map tag (map f l)] hist) outs.
Proof. exact @ItersProofs.wrap_deleg_faithful. Qed.
Print Assumptions C18_wrap.

(* ---- what the deque means ---- *)

(* next, next, ...: the items front to back, then none forever *)
Theorem C18_deque_is_the_sequence : forall (A : Type) full (l : list A) k,
  run full [l] (repeat (0%nat, Next) (length l + k)) = map OItem l ++ repeat ONone k.
Proof. exact @ItersProofs.deque_drain. Qed.
Print Assumptions C18_deque_is_the_sequence.

(* nth k: the k-th item (from 0), leaving what follows it; none and exhausted if there is no such item *)
Theorem C18_deque_nth : forall (A : Type) (l : list A) k,
  dq_nth l k = (skipn (S (N.to_nat k)) l, opt_out (nth_error l (N.to_nat k))).
Proof. exact @ItersProofs.dq_nth_meaning. Qed.
Print Assumptions C18_deque_nth.

(* next_back: the last item, leaving what precedes it *)
Theorem C18_deque_next_back : forall (A : Type) (l0 : list A) x, dq_next_back (l0 ++ [x]) = (l0, OItem x).
Proof. exact @ItersProofs.dq_next_back_meaning. Qed.
Print Assumptions C18_deque_next_back.

(* once exhausted, exhausted under every call *)
Theorem C18_deque_exhausted : forall (A : Type) full (o : op), fst (step1 (A := A) full [] o) = [].
Proof. exact @ItersProofs.deque_exhausted. Qed.
Print Assumptions C18_deque_exhausted.

Example C18_nonvacuous :
  m_run rich_impl [(ex_words, ex_key)] ex_hist
  = Ok [OHint 3 (Some 3); OCloned;
        OItem {| r_build := 1; r_product := 0; r_count := 4294967295 |};
        OItem {| r_build := 9; r_product := 258; r_count := 0 |};
        ONum 2;
        OItem {| r_build := 1; r_product := 0; r_count := 4294967295 |};
        ONone; ONone; ONone; ONoIter; ONum 0]
  /\ m_run rich_impl_orig [(ex_words, ex_key)] ex_hist = Fault POverflow.
Proof. exact ItersProofs.ex_run. Qed.

(* ====================================================================================================
   Iterators built from std adaptors: exports::By::iter / iter_names / iter_name_indices (and the same three on
   Wrap<By32, By64>), resources::Directory::entries / named_entries / id_entries, IAT::iter, Desc::int, Desc::iat and
   their format-agnostic wrappers.  Model/ItersMore.v composes them as the code does from slice::Iter, Range<u32>,
   Zip, Map, Wrap and `impl Iterator` ([erase]); each adaptor overrides exactly the methods std overrides (Map: next,
   next_back, size_hint; Zip: next, size_hint; Wrap: next) and inherits nth / count as the loops over its own next.
   [prim_ok exact impl abs Inv]: next / next_back of [impl] step the sequence [abs], size_hint bounds (exact: equals)
   its length - what an adaptor needs of the iterator it wraps.
   ==================================================================================================== *)

(* ---- the generic theorems ---- *)

(* An iterator whose nth and count are the provided loops over its own next, over primitives that step the sequence
   with an exact size hint: for EVERY history no call faults or runs out of fuel and the outputs are LITERALLY the
   deque's (also when it is not double-ended: then next_back / len do not exist and the size hint is still exact). *)
Theorem C18_adaptor_exact : forall (S A : Type) (impl : iter_impl S A) (abs : S -> list A) (Inv : S -> Prop) (measure : S -> nat),
  provided_nth_count impl measure ->
  (forall s, Inv s -> (length (abs s) <= measure s)%nat /\ N.of_nat (measure s) < W64) ->
  prim_ok true impl abs Inv ->
  forall hist pool, Forall Inv pool -> m_run impl pool hist = Ok (run (m_full impl) (map abs pool) hist).
Proof. exact @ItersMoreProofs.adaptor_exact. Qed.
Print Assumptions C18_adaptor_exact.

(* the same with a size hint that is only a bound somewhere in the stack (a Wrap): a faithful forward sequence *)
Theorem C18_adaptor_bound : forall (S A : Type) (impl : iter_impl S A) (abs : S -> list A) (Inv : S -> Prop) (measure : S -> nat),
  provided_nth_count impl measure ->
  (forall s, Inv s -> (length (abs s) <= measure s)%nat /\ N.of_nat (measure s) < W64) ->
  forall e, prim_ok e impl abs Inv -> m_full impl = false ->
  forall hist pool, Forall Inv pool ->
  exists outs, m_run impl pool hist = Ok outs /\ Forall2 (out_ok false) (run false (map abs pool) hist) outs.
Proof. exact @ItersMoreProofs.adaptor_bound. Qed.
Print Assumptions C18_adaptor_bound.

(* Range<u32> = the deque of the index list start, start+1, .., end-1: every method, including the overridden
   nth (forward_checked) and count, under every history *)
Theorem C18_range : forall hist pool, Forall range_inv pool ->
  m_run range_impl pool hist = Ok (run true (map range_abs pool) hist).
Proof. exact ItersMoreProofs.range_faithful. Qed.
Print Assumptions C18_range.

Theorem C18_range_primitives : prim_ok true range_impl range_abs range_inv.
Proof. exact ItersMoreProofs.range_prim. Qed.
Print Assumptions C18_range_primitives.

(* slice::Iter (trusted: the sl_ functions of Model/Iters.v) as a primitive *)
Theorem C18_slice_primitives : forall (B : Type), prim_ok true (@slice_impl B) (fun l => l) (fun l => lenN l < W64).
Proof. exact @ItersMoreProofs.slice_prim. Qed.
Print Assumptions C18_slice_primitives.

(* Zip of two sequences = the sequence of the zipped prefix (as long as the SHORTER one); exact if both are *)
Theorem C18_zip : forall (SA SB A B : Type) (a : iter_impl SA A) (b : iter_impl SB B) (measure : SA * SB -> nat)
    (absa : SA -> list A) (absb : SB -> list B) (Inva : SA -> Prop) (Invb : SB -> Prop) (ea eb : bool),
  prim_ok ea a absa Inva -> prim_ok eb b absb Invb ->
  prim_ok (ea && eb) (zip_impl a b measure) (fun s => combine (absa (fst s)) (absb (snd s))) (fun s => Inva (fst s) /\ Invb (snd s)).
Proof. exact @ItersMoreProofs.zip_prim. Qed.
Print Assumptions C18_zip.

(* Map of a sequence = the mapped sequence; double-ended / exact iff the inner iterator is *)
Theorem C18_map : forall (S B A : Type) (inner : iter_impl S B) (f : B -> A) (measure : S -> nat) (abs : S -> list B) (Inv : S -> Prop) (e : bool),
  prim_ok e inner abs Inv -> prim_ok e (map_impl inner f measure) (fun s => map f (abs s)) Inv.
Proof. exact @ItersMoreProofs.map_prim. Qed.
Print Assumptions C18_map.

(* Wrap<I32, I64> of a sequence = the tagged sequence, with the provided size hint (0, None) *)
Theorem C18_wrap_primitives : forall (S A W : Type) (e : bool) (inner : iter_impl S A) (tag : A -> W) (measure : S -> nat)
    (abs : S -> list A) (Inv : S -> Prop),
  prim_ok e inner abs Inv -> prim_ok false (wrap_impl inner tag measure) (fun s => map tag (abs s)) Inv.
Proof. exact @ItersMoreProofs.wrap_prim. Qed.
Print Assumptions C18_wrap_primitives.

(* ---- exports ---- *)

(* By::iter (and Wrap<By>::iter): functions.iter().map(symbol_from_rva) behind `impl Iterator`: one item per entry of
   the export address table, in order; size hints exact *)
Theorem C18_exports_iter : forall (B A : Type) (f : B -> A) hist (pool : list (list B)), Forall (fun l => lenN l < W64) pool ->
  m_run (exp_iter_impl f) pool hist = Ok (run false (map (map f) pool) hist).
Proof. exact @ItersMoreProofs.exp_iter_faithful. Qed.
Print Assumptions C18_exports_iter.

(* By::iter_names: (0..names.len() as u32).map(..): one item per entry of the NAME table (whatever the length of the
   name index table), the item of hint h being g h *)
Theorem C18_exports_iter_names : forall (R A : Type) (g : N -> A) (names : list R) hist, lenN names < W32 ->
  m_run (exp_names_impl g) [exp_names_start names] hist = Ok (run false [map g (nseq 0 (length names))] hist).
Proof. exact @ItersMoreProofs.exp_names_faithful. Qed.
Print Assumptions C18_exports_iter_names.

(* By::iter_name_indices: (0..names.len() as u32).zip(name_indices.iter()).map(..): the hints paired with the name
   indices, as many as the SHORTER of the two tables *)
Theorem C18_exports_iter_name_indices : forall (R I A : Type) (g : N * I -> A) (names : list R) (idx : list I) hist,
  lenN names < W32 -> lenN idx < W64 ->
  m_run (exp_nidx_impl g) [exp_nidx_start names idx] hist = Ok (run false [map g (combine (nseq 0 (length names)) idx)] hist).
Proof. exact @ItersMoreProofs.exp_nidx_faithful. Qed.
Print Assumptions C18_exports_iter_name_indices.

Theorem C18_exports_iter_name_indices_length : forall (I : Type) n (idx : list I),
  lenN (combine (nseq 0 n) idx) = N.min (N.of_nat n) (lenN idx).
Proof. exact @ItersMoreProofs.nidx_length. Qed.
Print Assumptions C18_exports_iter_name_indices_length.

(* the i-th item pairs hint i with the i-th name index *)
Theorem C18_exports_iter_name_indices_item : forall (I : Type) (idx : list I) n a i h x,
  nth_error (combine (nseq a n) idx) i = Some (h, x) -> h = a + N.of_nat i /\ nth_error idx i = Some x /\ (i < n)%nat.
Proof. exact @ItersMoreProofs.nidx_item. Qed.
Print Assumptions C18_exports_iter_name_indices_item.

Theorem C18_exports_iter_name_indices_no_fault : forall (R I A : Type) (g : N * I -> A) (names : list R) (idx : list I) hist,
  lenN names < W32 -> lenN idx < W64 -> no_fault (m_run (exp_nidx_impl g) [exp_nidx_start names idx] hist).
Proof. exact @ItersMoreProofs.exp_nidx_no_fault. Qed.
Print Assumptions C18_exports_iter_name_indices_no_fault.

(* F7 seen through the iterator: iter_name_indices as it stood indexed name_indices[hint] for every hint below
   names.len() and panicked on a null name index table; the repaired composition answers none *)
Theorem C18_F7_iter_name_indices_orig_refuted :
  exp_nidx_next_orig 0 (fun p : N * N => p) [] (exp_names_start [10]) = Fault PIndex /\
  m_run (exp_nidx_impl (fun p : N * N => p)) [exp_nidx_start [10] []] [(0%nat, Next); (0%nat, SizeHint)] = Ok [ONone; OHint 0 (Some 0)].
Proof. exact ItersMoreProofs.nidx_orig_refuted. Qed.
Print Assumptions C18_F7_iter_name_indices_orig_refuted.

(* ---- resource directories, IAT::iter, Desc::int, Desc::iat ---- *)

(* Entries = Map<slice::Iter, F> (Directory::entries / named_entries / id_entries; also IAT::iter and Desc::int):
   double-ended and exact-size; under every history literally the deque of the mapped slice *)
Theorem C18_entries : forall (B A : Type) (f : B -> A) hist (pool : list (list B)), Forall (fun l => lenN l < W64) pool ->
  m_run (entries_impl f) pool hist = Ok (run true (map (map f) pool) hist).
Proof. exact @ItersMoreProofs.entries_faithful. Qed.
Print Assumptions C18_entries.

(* the three slices of a directory's entry array: named entries first, id entries after them, together all entries *)
Theorem C18_resource_slices : forall (B : Type) nn ni (arr : list B),
  res_named nn ni arr ++ res_id nn ni arr = res_all nn ni arr /\
  (nn + ni <= lenN arr -> lenN (res_named nn ni arr) = nn /\ lenN (res_id nn ni arr) = ni /\ lenN (res_all nn ni arr) = nn + ni).
Proof. exact @ItersMoreProofs.res_slices. Qed.
Print Assumptions C18_resource_slices.

(* Desc::iat hands out the slice::Iter itself *)
Theorem C18_slice_iter : forall (B : Type) hist (pool : list (list B)), m_run slice_impl pool hist = Ok (run true pool hist).
Proof. exact @ItersMoreProofs.slice_faithful. Qed.
Print Assumptions C18_slice_iter.

(* ---- the format-agnostic wrappers ---- *)

(* Wrap<IAT32, IAT64>::iter = Wrap over Map<slice::Iter> *)
Theorem C18_wrap_iat_iter : forall (B A W : Type) (f : B -> A) (tag : A -> W) hist (pool : list (list B)), Forall (fun l => lenN l < W64) pool ->
  exists outs, m_run (wrap_entries_impl f tag) pool hist = Ok outs /\
               Forall2 (out_ok false) (run false (map (fun l => map tag (map f l)) pool) hist) outs.
Proof. exact @ItersMoreProofs.wrap_entries_faithful. Qed.
Print Assumptions C18_wrap_iat_iter.

(* Wrap<Desc32, Desc64>::iat = Wrap over slice::Iter *)
Theorem C18_wrap_desc_iat : forall (B W : Type) (tag : B -> W) hist (pool : list (list B)), Forall (fun l => lenN l < W64) pool ->
  exists outs, m_run (wrap_slice_impl tag) pool hist = Ok outs /\
               Forall2 (out_ok false) (run false (map (map tag) pool) hist) outs.
Proof. exact @ItersMoreProofs.wrap_slice_faithful. Qed.
Print Assumptions C18_wrap_desc_iat.

(* Wrap<Desc32, Desc64>::int = Map over Wrap over Map<slice::Iter> *)
Theorem C18_wrap_desc_int : forall (B A W X : Type) (f : B -> A) (tag : A -> W) (into : W -> X) hist (pool : list (list B)),
  Forall (fun l => lenN l < W64) pool ->
  exists outs, m_run (wrap_int_impl f tag into) pool hist = Ok outs /\
               Forall2 (out_ok false) (run false (map (fun l => map into (map tag (map f l))) pool) hist) outs.
Proof. exact @ItersMoreProofs.wrap_int_faithful. Qed.
Print Assumptions C18_wrap_desc_int.

(* ---- Resources::icons / cursors: FlatMap over result::IntoIter of Entries ---- *)

(* FlatMap over an outer iterator of at most one item (never used from the back): the items of the current inner
   iterator followed by those of the item not yet taken; the size hint is a valid bound (open above while the outer
   item is not yet taken) *)
Theorem C18_flat_map : forall (S X A : Type) (inner : iter_impl S A) (mk : X -> S) (measure : option S * option X -> nat)
    (absi : S -> list A) (Invi : S -> Prop) (e : bool),
  prim_ok e inner absi Invi ->
  prim_ok false (flat_impl inner mk measure)
    (fun s => (match fst s with Some si => absi si | None => [] end) ++ (match snd s with Some x => absi (mk x) | None => [] end))
    (fun s => (match fst s with Some si => Invi si | None => True end) /\ (match snd s with Some x => Invi (mk x) | None => True end)).
Proof. exact @ItersMoreProofs.flat_prim. Qed.
Print Assumptions C18_flat_map.

(* the iterator icons() / cursors() hands out: every entry of the group directory in order if there is such a
   directory, nothing otherwise - under every history *)
Theorem C18_resource_icons : forall (B A : Type) (f : B -> A) (group_dir : option (list B)) hist,
  (match group_dir with Some l => lenN l < W63 | None => True end) ->
  exists outs, m_run (icons_impl f) [icons_start group_dir] hist = Ok outs /\
               Forall2 (out_ok false) (run false [match group_dir with Some l => map f l | None => [] end] hist) outs.
Proof. exact @ItersMoreProofs.icons_start_faithful. Qed.
Print Assumptions C18_resource_icons.

Example C18_nonvacuous_icons :
  m_run (icons_impl (fun x : N => x + 100)) [icons_start (Some [1; 2; 3])]
        [(0%nat, SizeHint); (0%nat, Next); (0%nat, SizeHint); (0%nat, Clone); (0%nat, Nth 5); (1%nat, Count); (1%nat, Next); (0%nat, SizeHint)]
  = Ok [OHint 0 None; OItem 101; OHint 2 (Some 2); OCloned; ONone; ONum 2; OItem 102; OHint 0 (Some 0)]
  /\ m_run (icons_impl (fun x : N => x + 100)) [icons_start None] [(0%nat, SizeHint); (0%nat, Next); (0%nat, Count)]
     = Ok [OHint 0 (Some 0); ONone; ONum 0].
Proof. exact ItersMoreProofs.ex_icons_run. Qed.

Example C18_nonvacuous_adaptors :
  m_run (exp_nidx_impl (fun p : N * N => p)) [exp_nidx_start [10; 20; 30] [7; 9]] ex_nidx_hist
  = Ok [OHint 2 (Some 2); OCloned; OItem (0, 7); ONone; ONone; ONum 2; OItem (1, 9); OUnsupported; OUnsupported;
        OHint 0 (Some 0); ONoIter]
  /\ m_run (exp_names_impl (fun h : N => h)) [exp_names_start [10; 20; 30]] [(0%nat, Nth 1); (0%nat, SizeHint); (0%nat, Next); (0%nat, Next)]
     = Ok [OItem 1; OHint 1 (Some 1); OItem 2; ONone]
  /\ m_run (entries_impl (fun x : N => x + 100)) [res_id 2 3 [1; 2; 3; 4; 5; 6]] [(0%nat, Len); (0%nat, NextBack); (0%nat, Nth 1); (0%nat, Next)]
     = Ok [ONum 3; OItem 105; OItem 104; ONone]
  /\ m_run (wrap_int_impl (fun x : N => x + 1) (fun x : N => (64, x)) (fun p : N * N => snd p)) [[1; 2; 3]] [(0%nat, SizeHint); (0%nat, Nth 2); (0%nat, Count)]
     = Ok [OHint 0 None; OItem 4; ONum 0].
Proof. exact ItersMoreProofs.ex_nidx_run. Qed.

(* ====================================================================================================
   nth_back.  DoubleEndedIterator::nth_back is callable on every double-ended iterator the library hands out (RichIter,
   imports::Iter, debug::Iter, Exception::functions, Entries, IAT::iter, Desc::int, Desc::iat, SectionHeaders::iter).  [op]
   has the constructor [NthBack k], so EVERY theorem above that quantifies over histories now also covers histories
   containing nth_back: C18_rich_all_histories (RichIter does not define nth_back: the provided loop over
   RichIter::next_back), C18_delegating (imports::Iter / debug::Iter define next_back only: the provided loop over their
   own next_back), C18_adaptor_exact / C18_entries (Map inherits nth_back: [provided_nth_count] now also says so),
   C18_slice_iter (slice::Iter's own nth_back, trusted), C18_range (Range's nth_back with backward_checked; [range_inv]
   now bounds the start as well as the end, because nth_back sets end := start).  On the forward-only families [NthBack]
   is [OUnsupported] in the model and in the deque, exactly as [NextBack].
   ==================================================================================================== *)

(* nth_back k: the item with k items behind it, leaving what precedes it *)
Theorem C18_deque_nth_back : forall (A : Type) (l0 : list A) x r k, lenN r = k -> dq_nth_back (l0 ++ x :: r) k = (l0, OItem x).
Proof. exact @ItersProofs.dq_nth_back_meaning. Qed.
Print Assumptions C18_deque_nth_back.

(* fewer than k+1 items: none, and the deque is left empty *)
Theorem C18_deque_nth_back_none : forall (A : Type) (l : list A) k, lenN l <= k -> dq_nth_back l k = ([], ONone).
Proof. exact @ItersProofs.dq_nth_back_none. Qed.
Print Assumptions C18_deque_nth_back_none.

(* nth_back is nth on the reversed deque; nth_back 0 is next_back *)
Theorem C18_deque_nth_back_reversed : forall (A : Type) (l : list A) k,
  dq_nth_back l k = (rev (fst (dq_nth (rev l) k)), snd (dq_nth (rev l) k)).
Proof. exact @ItersProofs.dq_nth_back_rev. Qed.
Print Assumptions C18_deque_nth_back_reversed.
Theorem C18_deque_nth_back_0 : forall (A : Type) (l : list A), dq_nth_back l 0 = dq_next_back l.
Proof. exact @ItersProofs.dq_nth_back_0. Qed.
Print Assumptions C18_deque_nth_back_0.

(* std's provided nth_back (advance_back_by, then next_back) over ANY next_back that steps a sequence from the back is the
   deque's nth_back: it never faults, the fuel (one call per item + 1) suffices, and an overshoot leaves the iterator
   exhausted *)
Theorem C18_provided_nth_back : forall (S A : Type) (next_back : S -> res (option A * S)) (abs : S -> list A) (Inv : S -> Prop),
  (forall s, Inv s -> exists o s', next_back s = Ok (o, s') /\ Inv s' /\
       opt_out o = snd (dq_next_back (abs s)) /\ abs s' = fst (dq_next_back (abs s))) ->
  forall fuel s k, Inv s -> (length (abs s) < fuel)%nat ->
  exists o s', prov_nth_back next_back fuel s k = Ok (o, s') /\ Inv s' /\
    opt_out o = snd (dq_nth_back (abs s) k) /\ abs s' = fst (dq_nth_back (abs s) k).
Proof. exact @ItersProofs.prov_nth_back_sim. Qed.
Print Assumptions C18_provided_nth_back.

(* not callable on a forward-only iterator - in the model and in the deque - exactly as next_back *)
Theorem C18_nth_back_forward_only : forall (S A : Type) (impl : iter_impl S A) (s : S) (l : list A) k, m_full impl = false ->
  m_step1 impl s (NthBack k) = Ok (s, OUnsupported) /\ step1 false l (NthBack k) = (l, OUnsupported) /\
  m_step1 impl s NextBack = Ok (s, OUnsupported) /\ step1 false l NextBack = (l, OUnsupported).
Proof. exact @ItersMoreProofs.nth_back_unsupported. Qed.
Print Assumptions C18_nth_back_forward_only.

(* ---- Exception::functions: image.iter().map(|image| Function { pe, image }), the Map itself ---- *)
Theorem C18_exception_functions : forall (B A : Type) (f : B -> A) hist (pool : list (list B)), Forall (fun l => lenN l < W64) pool ->
  m_run (exc_functions_impl f) pool hist = Ok (run true (map (map f) pool) hist).
Proof. exact @ItersMoreProofs.exc_functions_faithful. Qed.
Print Assumptions C18_exception_functions.

(* ---- SectionHeaders::iter / IntoIterator for &SectionHeaders: as_slice().iter() ---- *)
Theorem C18_section_headers_iter : forall (B : Type) hist (pool : list (list B)), m_run sections_iter_impl pool hist = Ok (run true pool hist).
Proof. exact @ItersMoreProofs.sections_iter_faithful. Qed.
Print Assumptions C18_section_headers_iter.

(* ---- flags!::to_strs: FilterMap over Range<u32> behind `impl Clone + Iterator` ---- *)

(* FilterMap of a sequence (find_map over the inner next) = the answers that are Some, in order; the size hint is
   (0, the inner upper bound).  The fuel of the find_map loop must cover the inner sequence. *)
Theorem C18_filter_map : forall (S B A : Type) (inner : iter_impl S B) (f : B -> option A) (measure : S -> nat)
    (absi : S -> list B) (Invi : S -> Prop),
  (forall s, Invi s -> (length (absi s) <= measure s)%nat) ->
  forall e, prim_ok e inner absi Invi ->
  prim_ok false (filter_map_impl inner f measure) (fun s => fm_list f (absi s)) Invi.
Proof. exact @ItersMoreProofs.filter_map_prim. Qed.
Print Assumptions C18_filter_map.

(* to_strs of a value of a [bits]-bit flag type: under every history (next, nth, size_hint, count, clone; next_back /
   nth_back / len do not exist) a faithful forward sequence of the identifiers of the set bits the table names, by
   increasing bit index from bit 0; size hints are valid bounds *)
Theorem C18_to_strs : forall (A : Type) (flag_str : N -> option A) (value bits : N) hist, bits < W32 ->
  exists outs, m_run (to_strs_impl flag_str value) [to_strs_start bits] hist = Ok outs /\
               Forall2 (out_ok false) (run false [fm_list (to_strs_f flag_str value) (nseq 0 (N.to_nat bits))] hist) outs.
Proof. exact @ItersMoreProofs.to_strs_faithful. Qed.
Print Assumptions C18_to_strs.

Theorem C18_to_strs_item : forall (A : Type) (flag_str : N -> option A) value i,
  to_strs_f flag_str value i = if N.testbit value i then flag_str i else None.
Proof. exact @ItersMoreProofs.to_strs_f_testbit. Qed.
Print Assumptions C18_to_strs_item.

(* nth_back changes what later calls see: after nth_back(1) on five items, len is 3, next_back gives the third item;
   without it len is 5 and next_back gives the fifth.  The same history on Map<slice::Iter> (inherited nth_back),
   imports::Iter / debug::Iter (provided loop over their next_back), slice::Iter (its own), Range<u32> (its own),
   RichIter (provided loop); OUnsupported on a forward-only family *)
Example C18_nonvacuous_nth_back :
  m_run (exc_functions_impl (fun x : N => x + 100)) [[1; 2; 3; 4; 5]] ex_nth_back_hist
  = Ok [OCloned; OItem 104; ONum 3; OItem 103; OItem 101; ONone; ONone; OHint 0 (Some 0); OItem 102; ONone; ONone]
  /\ m_run (exc_functions_impl (fun x : N => x + 100)) [[1; 2; 3; 4; 5]] [(0%nat, Len); (0%nat, NextBack); (0%nat, Next)]
     = Ok [ONum 5; OItem 105; OItem 101]
  /\ m_run (deleg_impl (fun x : N => x + 100)) [[1; 2; 3; 4; 5]] ex_nth_back_hist
     = Ok [OCloned; OItem 104; ONum 3; OItem 103; OItem 101; ONone; ONone; OHint 0 (Some 0); OItem 102; ONone; ONone]
  /\ m_run (@slice_impl N) [[1; 2; 3; 4; 5]] ex_nth_back_hist
     = Ok [OCloned; OItem 4; ONum 3; OItem 3; OItem 1; ONone; ONone; OHint 0 (Some 0); OItem 2; ONone; ONone]
  /\ m_run range_impl [(1, 6)] ex_nth_back_hist
     = Ok [OCloned; OItem 4; ONum 3; OItem 3; OItem 1; ONone; ONone; OHint 0 (Some 0); OItem 2; ONone; ONone]
  /\ m_run rich_impl [(ex_words, ex_key)] [(0%nat, NthBack 1); (0%nat, Len); (0%nat, NextBack); (0%nat, NextBack)]
     = Ok [OItem {| r_build := 9; r_product := 258; r_count := 0 |}; ONum 1; OItem {| r_build := 7; r_product := 7; r_count := 3 |}; ONone]
  /\ m_run (exp_iter_impl (fun x : N => x)) [[1; 2; 3]] [(0%nat, NthBack 1); (0%nat, NextBack); (0%nat, Len); (0%nat, Next)]
     = Ok [OUnsupported; OUnsupported; OUnsupported; OItem 1].
Proof. exact ItersMoreProofs.ex_nth_back_run. Qed.

(* to_strs of 0x2022 (bits 1, 5, 13) with a table naming bits 0..7 and 13 *)
Example C18_nonvacuous_to_strs :
  m_run (to_strs_impl ex_flag_str 8226) [to_strs_start 16]
        [(0%nat, SizeHint); (0%nat, Count); (0%nat, Clone); (0%nat, Next); (0%nat, SizeHint); (0%nat, Nth 1); (0%nat, SizeHint);
         (1%nat, Nth 2); (1%nat, Next); (0%nat, NextBack); (0%nat, NthBack 0)]
  = Ok [OHint 0 (Some 16); ONum 3; OCloned; OItem 1001; OHint 0 (Some 14); OItem 1013; OHint 0 (Some 2);
        OItem 1013; ONone; OUnsupported; OUnsupported]
  /\ fm_list (to_strs_f ex_flag_str 8226) (nseq 0 16) = [1001; 1005; 1013]
  /\ fm_list (to_strs_f ex_flag_str 65535) (nseq 0 16) = [1000; 1001; 1002; 1003; 1004; 1005; 1006; 1007; 1013].
Proof. exact ItersMoreProofs.ex_to_strs_run. Qed.
