(* C18 — Iterators behave as faithful sequences under any interleaving of calls.
   Statements only; every proof is [exact <lemma>].

   Vocabulary.  Spec/Deque.v: a pool of deques (lists of items); a history is a list of
   (slot, call) with calls Next | NextBack | Nth k | Len | SizeHint | Count | Clone; [run full pool hist]
   is the list of outputs; [full] says the iterator is double-ended and exact-size.
   Model/Iters.v: an iterator is a record of its methods over a state ([iter_impl]); [m_run impl pool hist]
   runs the same history on the model and is [Fault _] if any call panics / runs out of fuel.
   [out_ok true] is equality; [out_ok false] is equality except that a size hint only has to be a valid bound. *)
From PV.Model Require Import Machine Rich Relocs Strings Iters.
From PV.Spec Require Import Deque.
From PV.Spec Require Runs.
From PV.Proofs Require ItersProofs.
Import ItersProofs.

(* ---- RichIter: the hand-written next / nth / next_back / size_hint / count ---- *)

(* For every pool of RichIter states (an even number of remaining dwords, fewer than 2^64) and EVERY history:
   no call faults, and the outputs are literally those of the deque holding the decoded records. *)
Theorem C18_rich_all_histories : forall hist pool, Forall rich_inv pool ->
  m_run rich_impl pool hist = Ok (run true (map rich_abs pool) hist).
Proof. exact ItersProofs.rich_faithful. Qed.
Print Assumptions C18_rich_all_histories.

(* in particular no call panics (C02 for RichIter) *)
Theorem C18_rich_no_fault : forall hist pool, Forall rich_inv pool -> no_fault (m_run rich_impl pool hist).
Proof. exact ItersProofs.rich_no_fault. Qed.
Print Assumptions C18_rich_no_fault.

(* The iterator records() hands out for an accepted DOS area is such a state, and its deque is the
   record list of C16. *)
Theorem C18_rich_records : forall image se hist, Rich.try_from image = Ok se -> lenN image < W64 ->
  m_run rich_impl [rich_records_iter image se] hist = Ok (run true [Rich.records image se] hist).
Proof. exact ItersProofs.rich_records_faithful. Qed.
Print Assumptions C18_rich_records.

(* F23: nth as it stood (n * 2 + 2) faults on nth(2^63) and nth(usize::MAX) where the deque answers none *)
Theorem C18_F23_rich_nth_orig_refuted :
  rich_nth_orig ([1; 2], 0) (2 ^ 63) = Fault POverflow /\
  rich_nth_orig ([], 0) (2 ^ 64 - 1) = Fault POverflow /\
  rich_nth ([1; 2], 0) (2 ^ 63) = Ok (None, ([], 0)) /\
  snd (dq_nth (A := rec) [rdecode 0 1 2] (2 ^ 63)) = ONone.
Proof. exact ItersProofs.rich_nth_orig_refuted. Qed.
Print Assumptions C18_F23_rich_nth_orig_refuted.

(* ---- iterators that only define next (IterBlocks, Enumerator, PgoIter, Wrap) ---- *)

(* Any iterator whose next never faults, leaves the state alone when it returns None and makes progress
   when it returns Some: under EVERY history (next, the provided nth / count / size_hint, clone) no call
   faults or runs out of fuel and the outputs are those of the deque holding what a for loop collects. *)
Theorem C18_forward_iterators : forall (S A : Type) (next : S -> res (option A * S)) (measure : S -> nat) (Inv : S -> Prop),
  (forall s, Inv s -> next s = Ok (None, s) \/
                      (exists x s', next s = Ok (Some x, s') /\ Inv s' /\ (measure s' < measure s)%nat)) ->
  (forall s, Inv s -> N.of_nat (measure s) < W64) ->
  forall hist pool, Forall Inv pool ->
  exists outs, m_run (fwd_impl next measure) pool hist = Ok outs /\
               Forall2 (out_ok false) (run false (map (items next measure) pool) hist) outs.
Proof. exact @ItersProofs.fwd_collect_faithful. Qed.
Print Assumptions C18_forward_iterators.

(* fused in fact: after the first None, next keeps returning None and the state no longer changes *)
Theorem C18_forward_fused : forall (S A : Type) (next : S -> res (option A * S)) (measure : S -> nat) (Inv : S -> Prop),
  (forall s, Inv s -> next s = Ok (None, s) \/
                      (exists x s', next s = Ok (Some x, s') /\ Inv s' /\ (measure s' < measure s)%nat)) ->
  forall s s', Inv s -> next s = Ok (None, s') -> s' = s /\ next s' = Ok (None, s').
Proof. exact @ItersProofs.fwd_fused. Qed.
Print Assumptions C18_forward_fused.

(* IterBlocks: the deque is the block list of C14 *)
Theorem C18_blocks : forall data bs hist, lenN data + 3 < W64 -> blocks data = Ok bs ->
  exists outs, m_run blk_impl [(0, data)] hist = Ok outs /\ Forall2 (out_ok false) (run false [bs] hist) outs.
Proof. exact ItersProofs.blk_faithful. Qed.
Print Assumptions C18_blocks.

(* strings::Enumerator: the deque is the list of qualifying runs of C20 *)
Theorem C18_strings : forall c base bytes, lenN bytes < W64 -> forall hist,
  exists outs, m_run (str_impl c base bytes) [0] hist = Ok outs /\
               Forall2 (out_ok false) (run false [Runs.enumerate_spec c base bytes] hist) outs.
Proof. exact ItersProofs.str_faithful. Qed.
Print Assumptions C18_strings.

(* PgoIter: the deque is what a for loop over the model collects *)
Theorem C18_pgo : forall l hist, lenN l < W64 ->
  exists outs, m_run pgo_impl [l] hist = Ok outs /\
               Forall2 (out_ok false) (run false [items pgo_next pgo_measure l] hist) outs.
Proof. exact ItersProofs.pgo_faithful. Qed.
Print Assumptions C18_pgo.

(* ---- iterators that pass every call to a slice::Iter (imports::Iter, debug::Iter) ---- *)

(* the delegation diagram: with slice::Iter trusted to be the deque of the slice, every method passes
   the right call and argument through and maps the item *)
Theorem C18_delegating : forall (B A : Type) (f : B -> A) hist (pool : list (list B)),
  m_run (deleg_impl f) pool hist = Ok (run true (map (map f) pool) hist).
Proof. exact @ItersProofs.deleg_faithful. Qed.
Print Assumptions C18_delegating.

(* Wrap<Iter32, Iter64> over them: only next is forwarded, the rest are the provided methods *)
Theorem C18_wrap : forall (B A W : Type) (f : B -> A) (tag : A -> W) (l : list B) hist, lenN l < W64 ->
  exists outs, m_run (wrap_impl (deleg_impl f) tag (fun s => length (map f s))) [l] hist = Ok outs /\
               Forall2 (out_ok false) (run false [map tag (map f l)] hist) outs.
Proof. exact @ItersProofs.wrap_deleg_faithful. Qed.
Print Assumptions C18_wrap.

(* ---- what the deque means ---- *)

(* next, next, ...: the items front to back, then none forever *)
Theorem C18_deque_is_the_sequence : forall (A : Type) full (l : list A) k,
  run full [l] (repeat (0%nat, Next) (length l + k)) = map OItem l ++ repeat ONone k.
Proof. exact @ItersProofs.deque_drain. Qed.
Print Assumptions C18_deque_is_the_sequence.

(* nth k: the k-th item (from 0), leaving what follows it; none and exhausted if there is no such item *)
Theorem C18_deque_nth : forall (A : Type) (l : list A) k,
  dq_nth l k = (skipn (S (N.to_nat k)) l, opt_out (nth_error l (N.to_nat k))).
Proof. exact @ItersProofs.dq_nth_meaning. Qed.
Print Assumptions C18_deque_nth.

(* next_back: the last item, leaving what precedes it *)
Theorem C18_deque_next_back : forall (A : Type) (l0 : list A) x, dq_next_back (l0 ++ [x]) = (l0, OItem x).
Proof. exact @ItersProofs.dq_next_back_meaning. Qed.
Print Assumptions C18_deque_next_back.

(* once exhausted, exhausted under every call *)
Theorem C18_deque_exhausted : forall (A : Type) full (o : op), fst (step1 (A := A) full [] o) = [].
Proof. exact @ItersProofs.deque_exhausted. Qed.
Print Assumptions C18_deque_exhausted.

Example C18_nonvacuous :
  m_run rich_impl [(ex_words, ex_key)] ex_hist
  = Ok [OHint 3 (Some 3); OCloned;
        OItem {| r_build := 1; r_product := 0; r_count := 4294967295 |};
        OItem {| r_build := 9; r_product := 258; r_count := 0 |};
        ONum 2;
        OItem {| r_build := 1; r_product := 0; r_count := 4294967295 |};
        ONone; ONone; ONone; ONoIter; ONum 0]
  /\ m_run rich_impl_orig [(ex_words, ex_key)] ex_hist = Fault POverflow.
Proof. exact ItersProofs.ex_run. Qed.
