(* C08 — Export lookups agree with the export tables for every table shape.
   Statements only; every proof is [exact <lemma>].

   [t : tables] is what a By value holds (functions, names, name_indices as decoded slices,
   image.Base, the data directory entry); [cstr rva] is the result of derva_c_str at rva
   (the bytes without the NUL).  [entry l k] is element k of a table, [None] past its end.
   The model functions (ordinal, index, hint, name_linear, name, hint_name, import_, name_lookup,
   check_sorted, iter, iter_names, iter_name_indices, get_proc_address) mirror
   src/pe64/exports.rs after the F6 / F7 repairs; the *_orig functions are the code as it stood. *)
From PV.Model Require Import Machine Mapping Views Exports.
From PV.Spec Require Import MappingSpec ViewSpec ExportSpec.
From PV.Proofs Require ViewsProofs ExportsProofs.
Import ExportsProofs.

(* 1. ordinal o maps to functions[o - base]; the entry is classified: zero is Null, an rva inside the
      directory extent [VA, VA + Size) (unbounded arithmetic) is a forwarder string, anything else a symbol *)
Theorem C08_ordinal : forall cstr t o,
  ordinal cstr t o =
    if o <? t_base t then Err EBounds
    else match entry (t_funcs t) (o - t_base t) with
         | None => Err EBounds
         | Some rva =>
           if rva =? 0 then Err ENull
           else if (t_dva t <=? rva) && (rva <? t_dva t + t_dsize t)
                then match cstr rva with Ok s => Ok (Forward s) | Err e => Err e | Fault f => Fault f end
                else Ok (Symbol rva)
         end.
Proof. exact ExportsProofs.ordinal_closed_form. Qed.
Print Assumptions C08_ordinal.

Theorem C08_index : forall cstr t i,
  index cstr t i = match entry (t_funcs t) i with None => Err EBounds | Some rva => classify cstr t rva end.
Proof. exact ExportsProofs.index_correct. Qed.
Print Assumptions C08_index.

(* the i-th name maps to functions[name_indices[i]] *)
Theorem C08_hint : forall cstr t h,
  hint cstr t h = match entry (t_idxs t) h with None => Err EBounds | Some i => index cstr t i end.
Proof. exact ExportsProofs.hint_by_index. Qed.
Print Assumptions C08_hint.

Theorem C08_name_of_hint : forall cstr t h,
  name_of_hint cstr t h = match entry (t_names t) h with None => Err EBounds | Some rva => cstr rva end.
Proof. exact ExportsProofs.name_of_hint_correct. Qed.
Print Assumptions C08_name_of_hint.

(* 2. linear search, on any table: the entry of the least hint whose name reads as n
      (unreadable names are skipped), Null if there is none *)
Theorem C08_name_linear : forall cstr t, (forall a f, cstr a <> Fault f) -> forall n,
  (exists h, names_hint cstr t h n /\ (forall h', h' < h -> ~ names_hint cstr t h' n) /\ name_linear cstr t n = hint cstr t h)
  \/ ((forall h, ~ names_hint cstr t h n) /\ name_linear cstr t n = Err ENull).
Proof. exact ExportsProofs.name_linear_least. Qed.
Print Assumptions C08_name_linear.

(* 3a. binary search, on ANY table: it never returns the entry of a hint with another name; the result is
       Null, or the entry of a hint carrying n, or the error of an unreadable name *)
Theorem C08_name_sound : forall cstr t, (forall a f, cstr a <> Fault f) -> lenN (t_names t) < W64 -> forall n,
  name cstr t n = Err ENull \/ (exists h, names_hint cstr t h n /\ name cstr t n = hint cstr t h) \/
  (exists h e, h < lenN (t_names t) /\ name_of_hint cstr t h = Err e /\ name cstr t n = Err e).
Proof. exact ExportsProofs.name_sound. Qed.
Print Assumptions C08_name_sound.

(* 3b. check_sorted answers true exactly when every name is readable and the names are non-decreasing
       in the lexicographic order on unsigned bytes *)
Theorem C08_check_sorted : forall cstr t, (forall a f, cstr a <> Fault f) ->
  (check_sorted cstr t = Ok true <-> exists ns, map cstr (t_names t) = map Ok ns /\ ascending ns).
Proof. exact ExportsProofs.check_sorted_true. Qed.
Print Assumptions C08_check_sorted.

Theorem C08_lex_order : forall a b,
  (lex_cmp a b = Eq <-> a = b) /\ (lex_cmp a b = Lt <-> lex_lt a b) /\ (lex_cmp a b = Gt <-> lex_lt b a).
Proof. exact ExportsProofs.lex_order. Qed.
Print Assumptions C08_lex_order.

(* 3c. binary search on a sorted table: a name carried by some hint is found (as the entry of a hint
       carrying it); a name carried by none gives Null *)
Theorem C08_name_sorted : forall cstr t, (forall a f, cstr a <> Fault f) -> lenN (t_names t) < W64 ->
  check_sorted cstr t = Ok true -> forall n,
  ((exists h, names_hint cstr t h n) -> exists h', names_hint cstr t h' n /\ name cstr t n = hint cstr t h') /\
  ((forall h, ~ names_hint cstr t h n) -> name cstr t n = Err ENull).
Proof. exact ExportsProofs.name_when_check_sorted. Qed.
Print Assumptions C08_name_sorted.

(* 3d. on a sorted table, for a name that at most one hint carries, binary and linear search agree *)
Theorem C08_name_is_name_linear : forall cstr t, (forall a f, cstr a <> Fault f) -> lenN (t_names t) < W64 ->
  check_sorted cstr t = Ok true -> forall n,
  (forall h1 h2, names_hint cstr t h1 n -> names_hint cstr t h2 n -> h1 = h2) ->
  name cstr t n = name_linear cstr t n.
Proof. exact ExportsProofs.name_is_name_linear_when_check_sorted. Qed.
Print Assumptions C08_name_is_name_linear.

(* 4. hint with name fallback: the hinted entry when it is an export and the hint's name is n, else the search by name;
      by import descriptor: by hint and name, or by ordinal *)
Theorem C08_hint_name : forall cstr t, (forall a f, cstr a <> Fault f) -> forall h n,
  hint_name cstr t h n =
    match hint_spec cstr t h with
    | Ok e => if names_hintb cstr t h n then Ok e else name cstr t n
    | _ => name cstr t n
    end.
Proof. exact ExportsProofs.hint_name_correct. Qed.
Print Assumptions C08_hint_name.

Theorem C08_import : forall cstr t i,
  import_ cstr t i = match i with ByName h n => hint_name cstr t h n | ByOrdinal o => ordinal_spec cstr t o end.
Proof. exact ExportsProofs.import_correct. Qed.
Print Assumptions C08_import.

(* 5. reverse lookup of an index: the name and hint of the least hint whose name index is i, else the ordinal
      i + base (as a 16-bit ordinal); and looking the answer up again finds functions[i] *)
Theorem C08_name_lookup : forall cstr t i,
  match name_lookup cstr t i with
  | Ok (ByName h s) =>
    entry (t_idxs t) h = Some i /\ names_hint cstr t h s /\ (forall h', h' < h -> entry (t_idxs t) h' <> Some i) /\
    hint cstr t h = index cstr t i
  | Ok (ByOrdinal o) =>
    (forall h, entry (t_idxs t) h <> Some i) /\ o = (i + t_base t) mod W16 /\
    (i + t_base t < W16 -> ordinal cstr t o = index cstr t i)
  | Err e => exists h, entry (t_idxs t) h = Some i /\ (forall h', h' < h -> entry (t_idxs t) h' <> Some i) /\ name_of_hint cstr t h = Err e
  | Fault f => exists a, cstr a = Fault f
  end.
Proof. exact ExportsProofs.name_lookup_meaning. Qed.
Print Assumptions C08_name_lookup.

(* 6. get-proc-address yields image base + rva for real symbols only *)
Theorem C08_get_proc_address : forall v r va,
  get_proc_address v r = Ok va <->
  exists rva, r = Ok (Symbol rva) /\ rva <> 0 /\ rva < v_soi v /\ v_base v + rva < v_w v /\ va = v_base v + rva.
Proof. exact ExportsProofs.get_proc_address_ok. Qed.
Print Assumptions C08_get_proc_address.

(* 7. the iterators enumerate the tables *)
Theorem C08_iter : forall cstr t, iter cstr t = map (classify cstr t) (t_funcs t).
Proof. exact ExportsProofs.iter_correct. Qed.
Print Assumptions C08_iter.

Theorem C08_iter_names : forall cstr t,
  iter_names cstr t = map (fun h => (name_of_hint_spec cstr t h, hint_spec cstr t h)) (hints_of (t_names t)).
Proof. exact ExportsProofs.iter_names_correct. Qed.
Print Assumptions C08_iter_names.

Theorem C08_iter_name_indices : forall cstr t,
  iter_name_indices cstr t =
    map (fun h => (name_of_hint_spec cstr t h, match entry (t_idxs t) h with Some ix => ix | None => 0 end))
        (filter (fun h => h <? lenN (t_idxs t)) (hints_of (t_names t))).
Proof. exact ExportsProofs.iter_name_indices_correct. Qed.
Print Assumptions C08_iter_name_indices.

(* 8. nothing panics, reads out of bounds or runs out of fuel: on abstract tables ... *)
Theorem C08_no_fault : forall cstr t, (forall a f, cstr a <> Fault f) -> lenN (t_names t) < W64 ->
  (forall o, no_fault (ordinal cstr t o)) /\ (forall i, no_fault (index cstr t i)) /\ (forall h, no_fault (hint cstr t h)) /\
  (forall h, no_fault (name_of_hint cstr t h)) /\ (forall n, no_fault (name_linear cstr t n)) /\ (forall n, no_fault (name cstr t n)) /\
  (forall h n, no_fault (hint_name cstr t h n)) /\ (forall i, no_fault (import_ cstr t i)) /\ (forall i, no_fault (name_lookup cstr t i)) /\
  no_fault (check_sorted cstr t) /\ Forall no_fault (iter cstr t) /\
  Forall (fun p => no_fault (fst p) /\ no_fault (snd p)) (iter_names cstr t) /\
  Forall (fun p => no_fault (fst p)) (iter_name_indices cstr t).
Proof. exact ExportsProofs.lookups_no_fault. Qed.
Print Assumptions C08_no_fault.

(* ... and on every view (PeFile or PeView, PE32 or PE32+): exports()?.by()? never faults, and on the tables
   it yields every lookup, iterator and get_export / get_proc_address is fault free *)
Theorem C08_no_fault_by : forall v dd, no_fault (view_by v dd).
Proof. exact ExportsProofs.view_by_no_fault. Qed.
Print Assumptions C08_no_fault_by.

Theorem C08_no_fault_on_view : forall v dd t, (forall i, v_get v i < 256) -> view_by v dd = Ok t ->
  (forall o, no_fault (ordinal (view_cstr v) t o)) /\ (forall i, no_fault (index (view_cstr v) t i)) /\ (forall h, no_fault (hint (view_cstr v) t h)) /\
  (forall h, no_fault (name_of_hint (view_cstr v) t h)) /\ (forall n, no_fault (name_linear (view_cstr v) t n)) /\ (forall n, no_fault (name (view_cstr v) t n)) /\
  (forall h n, no_fault (hint_name (view_cstr v) t h n)) /\ (forall i, no_fault (import_ (view_cstr v) t i)) /\ (forall i, no_fault (name_lookup (view_cstr v) t i)) /\
  no_fault (check_sorted (view_cstr v) t) /\ Forall no_fault (iter (view_cstr v) t) /\
  Forall (fun p => no_fault (fst p) /\ no_fault (snd p)) (iter_names (view_cstr v) t) /\
  Forall (fun p => no_fault (fst p)) (iter_name_indices (view_cstr v) t).
Proof. exact ExportsProofs.view_lookups_no_fault. Qed.
Print Assumptions C08_no_fault_on_view.

Theorem C08_no_fault_get_proc_address : forall v dd, (forall i, v_get v i < 256) ->
  (forall o, no_fault (get_export_ordinal v dd o)) /\ (forall n, no_fault (get_export_name v dd n)) /\ (forall i, no_fault (get_export_import v dd i)) /\
  (forall r, no_fault r -> no_fault (get_proc_address v r)).
Proof. exact ExportsProofs.get_export_no_fault. Qed.
Print Assumptions C08_no_fault_get_proc_address.

(* 9. the abstraction and the image: [cstr] on a view is the bytes before the first NUL of the slice at the rva
      (Encoding if the slice holds no NUL; the slicing error otherwise), and the tables a view yields are the
      ones denoted by the specification of slicing proved in C04 / C05 *)
Theorem C08_cstr_on_image : forall sl get a,
  match sl a 0 1 with
  | Ok r =>
    match cstr_of sl get a with
    | Ok s => lenN s < r_len r /\ s = bytes_of get (r_off r) (lenN s) /\ Forall (fun b => b <> 0) s /\ get (r_off r + lenN s) = 0
    | Err e => e = EEncoding /\ forall k, k < r_len r -> get (r_off r + k) <> 0
    | Fault _ => False
    end
  | Err e => cstr_of sl get a = Err e
  | Fault f => cstr_of sl get a = Fault f
  end.
Proof. exact ExportsProofs.cstr_of_meaning. Qed.
Print Assumptions C08_cstr_on_image.

Theorem C08_tables_on_image : forall v dd, ViewsProofs.view_ok v -> (forall i, v_get v i < 256) ->
  (forall va sz, dd = Some (va, sz) -> va < W32) -> view_by v dd = exports_by (slice_spec v) (v_get v) dd.
Proof. exact ExportsProofs.view_by_is_spec. Qed.
Print Assumptions C08_tables_on_image.

(* 9b. WHICH bytes are decoded HOW (audit: C08_tables_on_image runs the same decoder over slice and slice_spec and so only
       restates C04 / C05).  Spec/ExportShape.v states the tables over the bytes of the view at the fixed offsets of the
       Export Directory Table of the PE/COFF specification, without the model decoder:
         dword_at g o = g o + 256 g(o+1) + 65536 g(o+2) + 16777216 g(o+3),   word_at g o = g o + 256 g(o+1);
         table_shape v a n w dec = Ok [] when a = 0, else the w*n bytes (w-aligned) that slicing yields at rva a, decoded item by item;
         tables_shape v dd = the 40-byte directory at dd.VirtualAddress (4-aligned), then functions = NumberOfFunctions (offset 20) dwords
           at AddressOfFunctions (28), names = NumberOfNames (24) dwords at AddressOfNames (32), name_indices = NumberOfNames words at
           AddressOfNameOrdinals (36), Base = the dword at offset 16; the first failing step, in that order, is the result. *)
From PV.Spec Require Import ExportShape.
From PV.Proofs Require ExportsShape.

Theorem C08_tables_shape_closed : forall v dd, (forall i, v_get v i < 256) -> view_by v dd = tables_shape v dd.
Proof. exact ExportsShape.view_by_shape. Qed.
Print Assumptions C08_tables_shape_closed.

(* the same pointwise: entry i of each table is the little-endian item at offset w*i of the region slicing yields at the
   table's rva; a table whose rva is 0 is EMPTY ([is_table] of Spec/ExportShape.v) *)
Theorem C08_tables_shape : forall v va sz t, (forall i, v_get v i < 256) -> view_by v (Some (va, sz)) = Ok t ->
  exists d, slice v va EXPDIR_SIZE 4 = Ok d /\
    let g := v_get v in let x := r_off d in
    t_base t = dword_at g (x + EXPDIR_ORDINAL_BASE) /\ t_dva t = va /\ t_dsize t = sz /\
    is_table v (dword_at g (x + EXPDIR_EXPORT_ADDRESS_TABLE_RVA)) (dword_at g (x + EXPDIR_ADDRESS_TABLE_ENTRIES)) 4 dword_at (t_funcs t) /\
    is_table v (dword_at g (x + EXPDIR_NAME_POINTER_RVA)) (dword_at g (x + EXPDIR_NUMBER_OF_NAME_POINTERS)) 4 dword_at (t_names t) /\
    is_table v (dword_at g (x + EXPDIR_ORDINAL_TABLE_RVA)) (dword_at g (x + EXPDIR_NUMBER_OF_NAME_POINTERS)) 2 word_at (t_idxs t).
Proof. exact ExportsShape.view_by_tables_shape. Qed.
Print Assumptions C08_tables_shape.

(* the error cases: no directory entry -> Bounds; VirtualAddress 0 -> Null; the directory does not slice -> that error;
   then the address table, the name pointer table, the ordinal table in this order: the first one that is present
   (rva <> 0) and does not slice gives its slicing error; if all three are absent or slice, by() succeeds *)
Theorem C08_tables_errors : forall v va sz, (forall i, v_get v i < 256) ->
  view_by v None = Err EBounds /\
  (va = 0 -> view_by v (Some (va, sz)) = Err ENull) /\
  (forall e, slice v va EXPDIR_SIZE 4 = Err e -> view_by v (Some (va, sz)) = Err e) /\
  forall d, slice v va EXPDIR_SIZE 4 = Ok d ->
    let g := v_get v in let x := r_off d in
    let af := dword_at g (x + EXPDIR_EXPORT_ADDRESS_TABLE_RVA) in let nf := dword_at g (x + EXPDIR_ADDRESS_TABLE_ENTRIES) in
    let an := dword_at g (x + EXPDIR_NAME_POINTER_RVA) in let nn := dword_at g (x + EXPDIR_NUMBER_OF_NAME_POINTERS) in
    let ao := dword_at g (x + EXPDIR_ORDINAL_TABLE_RVA) in
    (forall e, af <> 0 -> slice v af (4 * nf) 4 = Err e -> view_by v (Some (va, sz)) = Err e) /\
    (forall e, (af = 0 \/ exists r, slice v af (4 * nf) 4 = Ok r) -> an <> 0 -> slice v an (4 * nn) 4 = Err e ->
       view_by v (Some (va, sz)) = Err e) /\
    (forall e, (af = 0 \/ exists r, slice v af (4 * nf) 4 = Ok r) -> (an = 0 \/ exists r, slice v an (4 * nn) 4 = Ok r) ->
       ao <> 0 -> slice v ao (2 * nn) 2 = Err e -> view_by v (Some (va, sz)) = Err e) /\
    ((af = 0 \/ exists r, slice v af (4 * nf) 4 = Ok r) -> (an = 0 \/ exists r, slice v an (4 * nn) 4 = Ok r) ->
     (ao = 0 \/ exists r, slice v ao (2 * nn) 2 = Ok r) -> exists t, view_by v (Some (va, sz)) = Ok t).
Proof. exact ExportsShape.view_by_errors. Qed.
Print Assumptions C08_tables_errors.

(* slicing answers Null exactly at rva 0 (so "absent" above is exactly "rva = 0") *)
Theorem C08_slice_null_iff : forall v a m al, slice v a m al = Err ENull <-> a = 0.
Proof. exact ExportsShape.slice_null_iff. Qed.
Print Assumptions C08_slice_null_iff.

(* get_export(key) - the extracted functions the driver calls - is the lookup on those tables *)
Theorem C08_get_export_shape : forall v dd, (forall i, v_get v i < 256) ->
  (forall o, get_export_ordinal v dd o =
     match tables_shape v dd with Ok t => ordinal (view_cstr v) t o | Err e => Err e | Fault f => Fault f end) /\
  (forall n, get_export_name v dd n =
     match tables_shape v dd with Ok t => name (view_cstr v) t n | Err e => Err e | Fault f => Fault f end) /\
  (forall i, get_export_import v dd i =
     match tables_shape v dd with Ok t => import_ (view_cstr v) t i | Err e => Err e | Fault f => Fault f end).
Proof. exact ExportsShape.get_export_shape. Qed.
Print Assumptions C08_get_export_shape.

Example C08_shape_nonvacuous :
  view_by ExportsShape.ex_shape_view (Some (16, 40))
  = Ok {| t_funcs := [4096; 8192]; t_names := []; t_idxs := [1]; t_base := 5; t_dva := 16; t_dsize := 40 |} /\
  tables_shape ExportsShape.ex_shape_view (Some (16, 40))
  = Ok {| t_funcs := [4096; 8192]; t_names := []; t_idxs := [1]; t_base := 5; t_dva := 16; t_dsize := 40 |} /\
  tables_shape ExportsShape.ex_shape_view (Some (100, 40)) = Err EBounds /\
  tables_shape ExportsShape.ex_shape_view (Some (18, 40)) = Err EMisaligned /\
  get_export_ordinal ExportsShape.ex_shape_view (Some (16, 40)) 6 = Ok (Symbol 8192).
Proof. vm_compute. repeat split; reflexivity. Qed.

(* the code as it stood (F6, F7) *)
Theorem C08_F6_is_forwarded_orig_refuted :
  let t := {| t_funcs := [12287]; t_names := []; t_idxs := []; t_base := 1; t_dva := 8192; t_dsize := 4294967295 |} in
  symbol_from_rva_orig k_empty t 12287 = Fault POverflow /\ symbol_from_rva k_empty t 12287 = Ok (Forward []) /\
  t_dva t < W32 /\ t_dsize t < W32.
Proof. exact ExportsProofs.F6_is_forwarded_orig_refuted. Qed.
Print Assumptions C08_F6_is_forwarded_orig_refuted.

Theorem C08_F7_name_lookup_orig_index_refuted :
  let t := {| t_funcs := [4096]; t_names := []; t_idxs := [0]; t_base := 1; t_dva := 8192; t_dsize := 64 |} in
  name_lookup_orig k_empty t 0 = Fault PIndex /\ name_lookup k_empty t 0 = Err EBounds.
Proof. exact ExportsProofs.F7_name_lookup_orig_index_refuted. Qed.
Print Assumptions C08_F7_name_lookup_orig_index_refuted.

Theorem C08_F7_name_lookup_orig_overflow_refuted :
  let t := {| t_funcs := []; t_names := []; t_idxs := []; t_base := 65535; t_dva := 8192; t_dsize := 64 |} in
  name_lookup_orig k_empty t 4294967295 = Fault POverflow /\ name_lookup k_empty t 4294967295 = Ok (ByOrdinal 65534).
Proof. exact ExportsProofs.F7_name_lookup_orig_overflow_refuted. Qed.
Print Assumptions C08_F7_name_lookup_orig_overflow_refuted.

Theorem C08_F7_iter_name_indices_orig_refuted :
  let t := {| t_funcs := [4096]; t_names := [8300]; t_idxs := []; t_base := 1; t_dva := 8192; t_dsize := 64 |} in
  iter_name_indices_orig k_empty t = Fault PIndex /\ iter_name_indices k_empty t = [].
Proof. exact ExportsProofs.F7_iter_name_indices_orig_refuted. Qed.
Print Assumptions C08_F7_iter_name_indices_orig_refuted.

(* a table with a symbol, a hole, a forwarder and an unnamed entry; three sorted names *)

(* the field offsets of IMAGE_EXPORT_DIRECTORY that the model reads through (regenerated from src/image.rs on every run)
   are those of the Export Directory Table in the PE/COFF specification *)
From PV.gen Require Layout.
From PV.Proofs Require ConstsExports.
Theorem C08_layout_matches_format :
  Layout.IMAGE_EXPORT_DIRECTORY_size = 40 /\ Layout.IMAGE_EXPORT_DIRECTORY_align <= 4 /\
  Layout.IMAGE_EXPORT_DIRECTORY_Characteristics_off = 0 /\ Layout.IMAGE_EXPORT_DIRECTORY_TimeDateStamp_off = 4 /\
  Layout.IMAGE_EXPORT_DIRECTORY_Version_off = 8 /\
  Layout.IMAGE_EXPORT_DIRECTORY_Name_off = 12 /\ Layout.IMAGE_EXPORT_DIRECTORY_Base_off = 16 /\
  Layout.IMAGE_EXPORT_DIRECTORY_NumberOfFunctions_off = 20 /\ Layout.IMAGE_EXPORT_DIRECTORY_NumberOfNames_off = 24 /\
  Layout.IMAGE_EXPORT_DIRECTORY_AddressOfFunctions_off = 28 /\ Layout.IMAGE_EXPORT_DIRECTORY_AddressOfNames_off = 32 /\
  Layout.IMAGE_EXPORT_DIRECTORY_AddressOfNameOrdinals_off = 36.
Proof. exact ConstsExports.export_layout_matches_format. Qed.
Print Assumptions C08_layout_matches_format.

Example C08_nonvacuous :
  ordinal ex_cstr ex_tables 5 = Ok (Symbol 4096) /\ ordinal ex_cstr ex_tables 4 = Err EBounds /\
  ordinal ex_cstr ex_tables 6 = Err ENull /\ ordinal ex_cstr ex_tables 7 = Ok (Forward [75; 46; 70]) /\
  ordinal ex_cstr ex_tables 9 = Err EBounds /\
  name ex_cstr ex_tables [97; 98] = Ok (Symbol 4096) /\ name ex_cstr ex_tables [97] = Ok (Forward [75; 46; 70]) /\
  name ex_cstr ex_tables [98] = Err ENull /\ name ex_cstr ex_tables [99] = Err ENull /\
  name_linear ex_cstr ex_tables [97; 98] = Ok (Symbol 4096) /\
  hint_name ex_cstr ex_tables 0 [97; 98] = Ok (Symbol 4096) /\
  name_lookup ex_cstr ex_tables 0 = Ok (ByName 1 [97; 98]) /\ name_lookup ex_cstr ex_tables 3 = Ok (ByOrdinal 8) /\
  check_sorted ex_cstr ex_tables = Ok true.
Proof. vm_compute. repeat split; reflexivity. Qed.

(* ---- leaf functions regenerated from the source on every run (tools/gen_leaf.py -> gen/Leaf.v): agreement with the hand-written model ---- *)
(* src/pe64/exports.rs Exports::is_forwarded, regenerated from the source on every run, is the model's classification
   of a forwarder rva and cannot panic (the subtraction is guarded by the left operand of &&) *)
From PV.Model Require Exports.
From PV.gen Require Leaf.
From PV.Proofs Require LeafExports.
Theorem C08_leaf_is_forwarded : forall t rva,
  Leaf.L_exports_Exports_is_forwarded_dom (Exports.t_dva t) (Exports.t_dsize t) rva = true ->
  Leaf.L_exports_Exports_is_forwarded_ok (Exports.t_dva t) (Exports.t_dsize t) rva = true /\
  Leaf.L_exports_Exports_is_forwarded (Exports.t_dva t) (Exports.t_dsize t) rva = Exports.is_forwarded t rva.
Proof. exact LeafExports.is_forwarded_agrees. Qed.
Print Assumptions C08_leaf_is_forwarded.

(* the source places the binders of the generated leaf definitions stand for (third audit, F2) *)
From Coq Require Import List String.
Import ListNotations.
Theorem C08_leaf_reads_exports :
  Leaf.L_exports_Exports_is_forwarded_args = ["self.datadir.VirtualAddress : u32"%string; "self.datadir.Size : u32"%string; "arg1 : u32"%string].
Proof. exact LeafExports.leaf_reads_exports. Qed.
Print Assumptions C08_leaf_reads_exports.
