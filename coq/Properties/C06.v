(* C06 — File and mapped representations of one image are interchangeable (to_view / to_file).
   Statements only; every proof is [exact <lemma>].
   Buffers are byte lists; [byte_at l i] is l[i] (0 outside); [view_byte] / [file_byte] are the
   byte-by-byte rules of Spec/ConvertSpec.v; [wf_sections], [wf_raw] and the two known classes
   are decidable predicates defined there. *)
From PV.Model Require Import Machine Mapping Views Headers Convert.
From PV.Spec Require Import MappingSpec ConvertSpec.
From PV.Proofs Require ConvertProofs.
Import ConvertProofs.

(* (4) no panic and no out-of-bounds access on ANY accepted input: every buffer, either format,
   any section table the headers decode to (from_bytes followed by the conversion) *)
Theorem C06_to_view_no_fault : forall f m, mem_ok m -> no_fault (pe_to_view f m).
Proof. exact ConvertProofs.pe_to_view_no_fault. Qed.
Print Assumptions C06_to_view_no_fault.

Theorem C06_to_file_no_fault : forall f m, mem_ok m -> no_fault (pe_to_file f m).
Proof. exact ConvertProofs.pe_to_file_no_fault. Qed.
Print Assumptions C06_to_file_no_fault.

(* (1) general form, no well-formedness: an accepted file converts, the result has SizeOfImage
   bytes, and every byte is the one the rule gives (headers below SizeOfHeaders, then the LAST
   section of the table whose copied range min(VS,SRD) covers the byte, else zero) *)
Theorem C06_to_view_bytes : forall f m x, mem_ok m -> validate f m = Ok x ->
  exists V, pe_to_view f m = Ok V /\ lenN V = h_soi f m /\
    forall i, byte_at V i = view_byte (byte_at (image_bytes m)) (m_len m) (h_soh f m) (h_soi f m) (sections f m) i.
Proof. exact ConvertProofs.pe_to_view_correct. Qed.
Print Assumptions C06_to_view_bytes.

Theorem C06_to_view_table : forall img soh soi secs, Forall section_ok secs -> soh <= lenN img -> soh <= soi ->
  exists V, to_view img soh soi secs = Ok V /\ lenN V = soi /\
    forall i, byte_at V i = view_byte (byte_at img) (lenN img) soh soi secs i.
Proof. exact ConvertProofs.to_view_correct. Qed.
Print Assumptions C06_to_view_table.

Theorem C06_to_file_table : forall img soh soi secs, Forall section_ok secs -> soh <= lenN img -> soh <= soi ->
  exists F', to_file img soh soi secs = Ok F' /\ lenN F' = file_size_spec soh soi secs /\
    forall i, byte_at F' i = file_byte (byte_at img) (lenN img) soh soi secs i.
Proof. exact ConvertProofs.to_file_correct. Qed.
Print Assumptions C06_to_file_table.

(* (1) in the words of the property, for a well-formed table: SizeOfImage bytes; the headers;
   each section's stored bytes at their virtual addresses; every other byte - the virtual-only
   tail of every section and everything outside all sections - is zero *)
Theorem C06_to_view_wellformed : forall img soh soi secs V,
  Forall section_ok secs -> soh <= lenN img -> soh <= soi ->
  wf_sections (lenN img) soh soi secs = true ->
  to_view img soh soi secs = Ok V ->
  lenN V = soi /\
  (forall i, i < soh -> byte_at V i = byte_at img i) /\
  (forall s i, In s secs -> i < mapped_len s -> byte_at V (s_va s + i) = byte_at img (s_prd s + i)) /\
  (forall i, soh <= i -> (forall s, In s secs -> ~ (s_va s <= i /\ i < s_va s + mapped_len s)) -> byte_at V i = 0).
Proof. exact ConvertProofs.to_view_wf. Qed.
Print Assumptions C06_to_view_wellformed.

(* (2) prefix simulation: a slice that succeeds on the file view succeeds on the view over the
   converted buffer, is at least as long, and agrees on the stored-and-mapped bytes; when the
   section's raw tail beyond VirtualSize is zero padding (not in class raw_tail_not_mapped) the
   whole file slice is a prefix of the view slice *)
Theorem C06_prefix_simulation : forall img soh soi secs V base baseV rva min_size r,
  Forall section_ok secs -> soh <= lenN img -> soh <= soi ->
  wf_sections (lenN img) soh soi secs = true ->
  to_view img soh soi secs = Ok V -> rva < W32 ->
  slice_file base (lenN img) secs rva min_size 1 = Ok r ->
  exists s, first_v secs rva = Some s /\ In s secs /\
    slice_section baseV (lenN V) rva min_size 1 = Ok {| r_off := rva; r_len := soi - rva |} /\
    r_len r <= soi - rva /\
    (forall k, k < mapped_len s - (rva - s_va s) -> byte_at img (r_off r + k) = byte_at V (rva + k)) /\
    (raw_tail_zero (byte_at img) s = true -> forall k, k < r_len r -> byte_at img (r_off r + k) = byte_at V (rva + k)).
Proof. exact ConvertProofs.prefix_simulation. Qed.
Print Assumptions C06_prefix_simulation.

(* (3 of the design) monotonicity of a typed reader, proved for the C-string reader: a read that succeeds
   on a slice returns the same result on any slice that agrees on the bytes it consumed ... *)
Theorem C06_c_str_monotone : forall getF getV (slF slV : N -> N -> N -> res region) a r rf rv k,
  slF a 0 1 = Ok rf -> slV a 0 1 = Ok rv ->
  (forall j, j < k -> getF (r_off rf + j) = getV (r_off rv + j)) -> k <= r_len rv ->
  rd_c_str getF slF a = Ok r -> r_len r <= k ->
  rd_c_str getV slV a = Ok {| r_off := r_off rv; r_len := r_len r |}.
Proof. exact ConvertProofs.c_str_monotone. Qed.
Print Assumptions C06_c_str_monotone.

(* ... hence a C string read through the file view that lies in the stored-and-mapped part of its section
   is read identically (same RVA, same length) through the view over the converted buffer *)
Theorem C06_c_str_simulation : forall img soh soi secs V base baseV rva r s,
  Forall section_ok secs -> soh <= lenN img -> soh <= soi ->
  wf_sections (lenN img) soh soi secs = true ->
  to_view img soh soi secs = Ok V -> rva < W32 ->
  first_v secs rva = Some s ->
  rd_c_str (byte_at img) (slice_file base (lenN img) secs) rva = Ok r ->
  (rva - s_va s) + r_len r <= mapped_len s ->
  rd_c_str (byte_at V) (slice_section baseV (lenN V)) rva = Ok {| r_off := rva; r_len := r_len r |}.
Proof. exact ConvertProofs.c_str_simulation. Qed.
Print Assumptions C06_c_str_simulation.

(* (3) the way back reproduces the headers and every section's stored-and-mapped bytes at their
   file offsets - outside the known class stored_beyond_size_of_image (F33) *)
Theorem C06_roundtrip : forall img soh soi secs V,
  Forall section_ok secs -> soh <= lenN img -> soh <= soi ->
  wf_sections (lenN img) soh soi secs = true -> wf_raw soh secs = true ->
  stored_beyond_size_of_image soh soi secs = false ->
  to_view img soh soi secs = Ok V ->
  exists F', to_file V soh soi secs = Ok F' /\ lenN F' = file_extent_spec soh secs /\
    (forall i, i < soh -> byte_at F' i = byte_at img i) /\
    (forall s i, In s secs -> i < mapped_len s -> byte_at F' (s_prd s + i) = byte_at img (s_prd s + i)).
Proof. exact ConvertProofs.roundtrip. Qed.
Print Assumptions C06_roundtrip.

(* ---- the code as it stood, and the known classes ---- *)
Theorem C06_F5_to_view_orig_refuted : to_view_orig (zeros 5632) 1024 57344 [demo_text] = Fault PCopyLen.
Proof. exact ConvertProofs.to_view_orig_refuted. Qed.
Print Assumptions C06_F5_to_view_orig_refuted.

Theorem C06_F5_to_file_orig_refuted : to_file_orig (zeros 57344) 1024 57344 [demo_text] = Fault PCopyLen.
Proof. exact ConvertProofs.to_file_orig_refuted. Qed.
Print Assumptions C06_F5_to_file_orig_refuted.

Theorem C06_F33_known_class_witness :
  wf_sections (lenN f33_img) 1024 8192 [f33_sec] = true /\ wf_raw 1024 [f33_sec] = true /\
  stored_beyond_size_of_image 1024 8192 [f33_sec] = true /\
  exists V F', to_view f33_img 1024 8192 [f33_sec] = Ok V /\ to_file V 1024 8192 [f33_sec] = Ok F' /\
    byte_at V 4096 = 7 /\ lenN F' = 8192 /\ byte_at F' 7680 <> byte_at f33_img 7680.
Proof. exact ConvertProofs.f33_known_class_witness. Qed.
Print Assumptions C06_F33_known_class_witness.

Theorem C06_F37_known_class_witness :
  wf_sections (lenN f36_img) 1024 8192 [f36_sec] = true /\ raw_tail_not_mapped (byte_at f36_img) [f36_sec] = true /\
  exists V r, to_view f36_img 1024 8192 [f36_sec] = Ok V /\ slice_file 0 (lenN f36_img) [f36_sec] 4112 0 1 = Ok r /\
    byte_at f36_img (r_off r) = 7 /\ byte_at V 4112 = 0.
Proof. exact ConvertProofs.f36_known_class_witness. Qed.
Print Assumptions C06_F37_known_class_witness.

(* OPEN: C06_directory_queries_equal : every directory parser (exports, imports, relocations, resources, TLS,
   debug, exceptions, load config, Rich header) returns equal results on PeFile(F) and PeView(to_view F).
   Covered here only through C06_prefix_simulation (every slice the parsers take from the file view is a
   prefix of the slice they take from the converted view) and, for one typed reader, C06_c_str_simulation;
   the directory parsers themselves are not modelled in C06. *)

Example C06_nonvacuous :
  Forall section_ok ex_secs /\ wf_sections (lenN ex_img) 2 12 ex_secs = true /\ wf_raw 2 ex_secs = true /\
  stored_beyond_size_of_image 2 12 ex_secs = false /\
  to_view ex_img 2 12 ex_secs = Ok [1;2;0;0;3;4;0;0;5;6;0;0] /\
  to_file [1;2;0;0;3;4;0;0;5;6;0;0] 2 12 ex_secs = Ok [1;2;3;4;5;6;0;0] /\
  slice_file 0 (lenN ex_img) ex_secs 5 0 1 = Ok {| r_off := 3; r_len := 1 |}.
Proof. exact ConvertProofs.nonvacuous_example. Qed.
