(* C06 — File and mapped representations of one image are interchangeable (to_view / to_file).
   Statements only; every proof is [exact <lemma>].
   Buffers are byte lists; [byte_at l i] is l[i] (0 outside); [view_byte] / [file_byte] are the
   byte-by-byte rules of Spec/ConvertSpec.v; [wf_sections], [wf_raw] and the two known classes
   are decidable predicates defined there. *)
From PV.Model Require Import Machine Mapping Views Headers Convert.
From PV.Model Require Dirs Relocs Rich Exports Imports Resources.
From PV.gen Require Import Layout.
From PV.Spec Require Import MappingSpec ConvertSpec ConvertSimSpec.
From PV.Proofs Require ConvertProofs ConvertSimProofs ConvertResFrame ConvertSimMore.
Import ConvertProofs.

(* (4) no panic and no out-of-bounds access on ANY accepted input: every buffer, either format,
   any section table the headers decode to (from_bytes followed by the conversion) *)
Theorem C06_to_view_no_fault : forall f m, mem_ok m -> no_fault (pe_to_view f m).
Proof. exact ConvertProofs.pe_to_view_no_fault. Qed.
Print Assumptions C06_to_view_no_fault.

Theorem C06_to_file_no_fault : forall f m, mem_ok m -> no_fault (pe_to_file f m).
Proof. exact ConvertProofs.pe_to_file_no_fault. Qed.
Print Assumptions C06_to_file_no_fault.

(* (1) general form, no well-formedness: an accepted file converts, the result has SizeOfImage
   bytes, and every byte is the one the rule gives (headers below SizeOfHeaders, then the LAST
   section of the table whose copied range min(VS,SRD) covers the byte, else zero) *)
Theorem C06_to_view_bytes : forall f m x, mem_ok m -> validate f m = Ok x ->
  exists V, pe_to_view f m = Ok V /\ lenN V = h_soi f m /\
    forall i, byte_at V i = view_byte (byte_at (image_bytes m)) (m_len m) (h_soh f m) (h_soi f m) (sections f m) i.
Proof. exact ConvertProofs.pe_to_view_correct. Qed.
Print Assumptions C06_to_view_bytes.

Theorem C06_to_view_table : forall img soh soi secs, Forall section_ok secs -> soh <= lenN img -> soh <= soi ->
  exists V, to_view img soh soi secs = Ok V /\ lenN V = soi /\
    forall i, byte_at V i = view_byte (byte_at img) (lenN img) soh soi secs i.
Proof. exact ConvertProofs.to_view_correct. Qed.
Print Assumptions C06_to_view_table.

Theorem C06_to_file_table : forall img soh soi secs, Forall section_ok secs -> soh <= lenN img -> soh <= soi ->
  exists F', to_file img soh soi secs = Ok F' /\ lenN F' = file_size_spec soh soi secs /\
    forall i, byte_at F' i = file_byte (byte_at img) (lenN img) soh soi secs i.
Proof. exact ConvertProofs.to_file_correct. Qed.
Print Assumptions C06_to_file_table.

(* (1) in the words of the property, for a well-formed table: SizeOfImage bytes; the headers;
   each section's stored bytes at their virtual addresses; every other byte - the virtual-only
   tail of every section and everything outside all sections - is zero *)
Theorem C06_to_view_wellformed : forall img soh soi secs V,
  Forall section_ok secs -> soh <= lenN img -> soh <= soi ->
  wf_sections (lenN img) soh soi secs = true ->
  to_view img soh soi secs = Ok V ->
  lenN V = soi /\
  (forall i, i < soh -> byte_at V i = byte_at img i) /\
  (forall s i, In s secs -> i < mapped_len s -> byte_at V (s_va s + i) = byte_at img (s_prd s + i)) /\
  (forall i, soh <= i -> (forall s, In s secs -> ~ (s_va s <= i /\ i < s_va s + mapped_len s)) -> byte_at V i = 0).
Proof. exact ConvertProofs.to_view_wf. Qed.
Print Assumptions C06_to_view_wellformed.

(* (2) prefix simulation: a slice that succeeds on the file view succeeds on the view over the
   converted buffer, is at least as long, and agrees on the stored-and-mapped bytes; when the
   section's raw tail beyond VirtualSize is zero padding (not in class raw_tail_not_mapped) the
   whole file slice is a prefix of the view slice *)
Theorem C06_prefix_simulation : forall img soh soi secs V base baseV rva min_size r,
  Forall section_ok secs -> soh <= lenN img -> soh <= soi ->
  wf_sections (lenN img) soh soi secs = true ->
  to_view img soh soi secs = Ok V -> rva < W32 ->
  slice_file base (lenN img) secs rva min_size 1 = Ok r ->
  exists s, first_v secs rva = Some s /\ In s secs /\
    slice_section baseV (lenN V) rva min_size 1 = Ok {| r_off := rva; r_len := soi - rva |} /\
    r_len r <= soi - rva /\
    (forall k, k < mapped_len s - (rva - s_va s) -> byte_at img (r_off r + k) = byte_at V (rva + k)) /\
    (raw_tail_zero (byte_at img) s = true -> forall k, k < r_len r -> byte_at img (r_off r + k) = byte_at V (rva + k)).
Proof. exact ConvertProofs.prefix_simulation. Qed.
Print Assumptions C06_prefix_simulation.

(* (3 of the design) monotonicity of a typed reader, proved for the C-string reader: a read that succeeds
   on a slice returns the same result on any slice that agrees on the bytes it consumed ... *)
Theorem C06_c_str_monotone : forall getF getV (slF slV : N -> N -> N -> res region) a r rf rv k,
  slF a 0 1 = Ok rf -> slV a 0 1 = Ok rv ->
  (forall j, j < k -> getF (r_off rf + j) = getV (r_off rv + j)) -> k <= r_len rv ->
  rd_c_str getF slF a = Ok r -> r_len r <= k ->
  rd_c_str getV slV a = Ok {| r_off := r_off rv; r_len := r_len r |}.
Proof. exact ConvertProofs.c_str_monotone. Qed.
Print Assumptions C06_c_str_monotone.

(* ... hence a C string read through the file view that lies in the stored-and-mapped part of its section
   is read identically (same RVA, same length) through the view over the converted buffer *)
Theorem C06_c_str_simulation : forall img soh soi secs V base baseV rva r s,
  Forall section_ok secs -> soh <= lenN img -> soh <= soi ->
  wf_sections (lenN img) soh soi secs = true ->
  to_view img soh soi secs = Ok V -> rva < W32 ->
  first_v secs rva = Some s ->
  rd_c_str (byte_at img) (slice_file base (lenN img) secs) rva = Ok r ->
  (rva - s_va s) + r_len r <= mapped_len s ->
  rd_c_str (byte_at V) (slice_section baseV (lenN V)) rva = Ok {| r_off := rva; r_len := r_len r |}.
Proof. exact ConvertProofs.c_str_simulation. Qed.
Print Assumptions C06_c_str_simulation.

(* (3) the way back reproduces the headers and every section's stored-and-mapped bytes at their
   file offsets - outside the known class stored_beyond_size_of_image (F33) *)
Theorem C06_roundtrip : forall img soh soi secs V,
  Forall section_ok secs -> soh <= lenN img -> soh <= soi ->
  wf_sections (lenN img) soh soi secs = true -> wf_raw soh secs = true ->
  stored_beyond_size_of_image soh soi secs = false ->
  to_view img soh soi secs = Ok V ->
  exists F', to_file V soh soi secs = Ok F' /\ lenN F' = file_extent_spec soh secs /\
    (forall i, i < soh -> byte_at F' i = byte_at img i) /\
    (forall s i, In s secs -> i < mapped_len s -> byte_at F' (s_prd s + i) = byte_at img (s_prd s + i)).
Proof. exact ConvertProofs.roundtrip. Qed.
Print Assumptions C06_roundtrip.

(* ---- the code as it stood, and the known classes ---- *)
Theorem C06_F5_to_view_orig_refuted : to_view_orig (zeros 5632) 1024 57344 [demo_text] = Fault PCopyLen.
Proof. exact ConvertProofs.to_view_orig_refuted. Qed.
Print Assumptions C06_F5_to_view_orig_refuted.

Theorem C06_F5_to_file_orig_refuted : to_file_orig (zeros 57344) 1024 57344 [demo_text] = Fault PCopyLen.
Proof. exact ConvertProofs.to_file_orig_refuted. Qed.
Print Assumptions C06_F5_to_file_orig_refuted.

Theorem C06_F33_known_class_witness :
  wf_sections (lenN f33_img) 1024 8192 [f33_sec] = true /\ wf_raw 1024 [f33_sec] = true /\
  stored_beyond_size_of_image 1024 8192 [f33_sec] = true /\
  exists V F', to_view f33_img 1024 8192 [f33_sec] = Ok V /\ to_file V 1024 8192 [f33_sec] = Ok F' /\
    byte_at V 4096 = 7 /\ lenN F' = 8192 /\ byte_at F' 7680 <> byte_at f33_img 7680.
Proof. exact ConvertProofs.f33_known_class_witness. Qed.
Print Assumptions C06_F33_known_class_witness.

Theorem C06_F37_known_class_witness :
  wf_sections (lenN f36_img) 1024 8192 [f36_sec] = true /\ raw_tail_not_mapped (byte_at f36_img) [f36_sec] = true /\
  exists V r, to_view f36_img 1024 8192 [f36_sec] = Ok V /\ slice_file 0 (lenN f36_img) [f36_sec] 4112 0 1 = Ok r /\
    byte_at f36_img (r_off r) = 7 /\ byte_at V 4112 = 0.
Proof. exact ConvertProofs.f36_known_class_witness. Qed.
Print Assumptions C06_F37_known_class_witness.

(* ======================================================================================================
   Second layer: "every directory query gives equal results on both".
   Setting of every statement below ([conv_setting], Spec/ConvertSimSpec.v): a section table of u32 fields,
   well-formed ([wf_sections]), SizeOfHeaders <= len F, SizeOfHeaders <= SizeOfImage, and V = to_view F.
   vf = [file_view aF w b soh soi secs F] is what PeFile::from_bytes(F) holds, vv = [mapped_view aV ..] what
   PeView::from_bytes(V) holds: same decoded header fields and ImageBase (C06_headers_equal proves that for the
   real constructors), different buffer, machine address (aF, aV) and align kind.
   [align_compat al aF aV]: the two buffers are congruent modulo the alignment [al] of the read (al divides 2^64).
   [path]: RvaPath = the derva_* family (through [slice]), VaPath = the deref_* family (through [read]).
   Direction: file => view.  The converse is false in general: the view also serves the headers, the
   virtual-only zero tail of every section and the gaps between sections, where the file view fails. *)

(* (5) the slicing functions, both families, any alignment: generalises C06_prefix_simulation.
   [agree_len F secs rva] bytes from the RVA on are equal: up to the end of min(VS,SRD) of the section, and up to
   the end of the raw data (the whole file slice) when the raw tail beyond VirtualSize is zero padding *)
Theorem C06_slice_simulation : forall img V soh soi secs, conv_setting img soh soi secs V ->
  forall aF aV w b, let vf := file_view aF w b soh soi secs img in let vv := mapped_view aV w b soh soi secs V in
  forall p a ms al rf, align_compat al aF aV = true -> sl_of p vf a ms al = Ok rf ->
  exists rv, sl_of p vv a ms al = Ok rv /\ r_off rv = rva_of p b a /\ r_len rf <= r_len rv /\
    forall j, j < agree_len (byte_at img) secs (rva_of p b a) -> byte_at img (r_off rf + j) = byte_at V (rva_of p b a + j).
Proof. exact ConvertSimProofs.sl_sim. Qed.
Print Assumptions C06_slice_simulation.

(* (6) typed reads, general form.  Fixed-size reads (derva/deref, derva_copy/_into, derva_slice/deref_slice)
   succeed on the view whenever they succeed on the file, with the same length, at the RVA itself; the first
   min(length, agree_len) bytes are equal. *)
Theorem C06_rd_simulation : forall img V soh soi secs, conv_setting img soh soi secs V ->
  forall aF aV w b, let vf := file_view aF w b soh soi secs img in let vv := mapped_view aV w b soh soi secs V in
  forall p a size al r, align_compat al aF aV = true -> rd (sl_of p vf) a size al = Ok r ->
  exists r', rd (sl_of p vv) a size al = Ok r' /\ r_off r' = rva_of p b a /\ r_len r' = r_len r /\
    forall j, j < N.min (r_len r) (agree_len (byte_at img) secs (rva_of p b a)) -> byte_at img (r_off r + j) = byte_at V (r_off r' + j).
Proof. exact ConvertSimProofs.v_rd_sim. Qed.
Print Assumptions C06_rd_simulation.

Theorem C06_rd_copy_simulation : forall img V soh soi secs, conv_setting img soh soi secs V ->
  forall aF aV w b, let vf := file_view aF w b soh soi secs img in let vv := mapped_view aV w b soh soi secs V in
  forall p a size r, rd_copy (sl_of p vf) a size = Ok r ->
  exists r', rd_copy (sl_of p vv) a size = Ok r' /\ r_off r' = rva_of p b a /\ r_len r' = r_len r /\
    forall j, j < N.min (r_len r) (agree_len (byte_at img) secs (rva_of p b a)) -> byte_at img (r_off r + j) = byte_at V (r_off r' + j).
Proof. exact ConvertSimProofs.v_rd_copy_sim. Qed.
Print Assumptions C06_rd_copy_simulation.

Theorem C06_rd_slice_simulation : forall img V soh soi secs, conv_setting img soh soi secs V ->
  forall aF aV w b, let vf := file_view aF w b soh soi secs img in let vv := mapped_view aV w b soh soi secs V in
  forall p a size al len r, align_compat al aF aV = true -> rd_slice (sl_of p vf) a size al len = Ok r ->
  exists r', rd_slice (sl_of p vv) a size al len = Ok r' /\ r_off r' = rva_of p b a /\ r_len r' = r_len r /\
    forall j, j < N.min (r_len r) (agree_len (byte_at img) secs (rva_of p b a)) -> byte_at img (r_off r + j) = byte_at V (r_off r' + j).
Proof. exact ConvertSimProofs.v_rd_slice_sim. Qed.
Print Assumptions C06_rd_slice_simulation.

(* the sentinel readers (derva_slice_f/_s, deref_slice_s, derva_c_str): the proviso is decidable -
   [inside_agree]: the elements read INCLUDING the terminating one lie in the agreeing part of the section *)
Theorem C06_rd_slice_f_simulation : forall img V soh soi secs, conv_setting img soh soi secs V ->
  forall aF aV w b, let vf := file_view aF w b soh soi secs img in let vv := mapped_view aV w b soh soi secs V in
  forall p a size al q r, align_compat al aF aV = true -> 0 < size ->
  rd_slice_f (byte_at img) (sl_of p vf) a size al q = Ok r ->
  inside_agree (byte_at img) secs (rva_of p b a) (r_len r + size) = true ->
  exists r', rd_slice_f (byte_at V) (sl_of p vv) a size al q = Ok r' /\ r_off r' = rva_of p b a /\ r_len r' = r_len r /\
    forall j, j < r_len r + size -> byte_at img (r_off r + j) = byte_at V (r_off r' + j).
Proof. exact ConvertSimProofs.v_rd_slice_f_sim. Qed.
Print Assumptions C06_rd_slice_f_simulation.

Theorem C06_rd_slice_s_simulation : forall img V soh soi secs, conv_setting img soh soi secs V ->
  forall aF aV w b, let vf := file_view aF w b soh soi secs img in let vv := mapped_view aV w b soh soi secs V in
  forall p a size al s r, align_compat al aF aV = true -> 0 < size ->
  rd_slice_s (byte_at img) (sl_of p vf) a size al s = Ok r ->
  inside_agree (byte_at img) secs (rva_of p b a) (r_len r + size) = true ->
  exists r', rd_slice_s (byte_at V) (sl_of p vv) a size al s = Ok r' /\ r_off r' = rva_of p b a /\ r_len r' = r_len r /\
    forall j, j < r_len r + size -> byte_at img (r_off r + j) = byte_at V (r_off r' + j).
Proof. exact ConvertSimProofs.v_rd_slice_s_sim. Qed.
Print Assumptions C06_rd_slice_s_simulation.

Theorem C06_rd_c_str_simulation : forall img V soh soi secs, conv_setting img soh soi secs V ->
  forall aF aV w b, let vf := file_view aF w b soh soi secs img in let vv := mapped_view aV w b soh soi secs V in
  forall p a r, rd_c_str (byte_at img) (sl_of p vf) a = Ok r ->
  inside_agree (byte_at img) secs (rva_of p b a) (r_len r) = true ->
  exists r', rd_c_str (byte_at V) (sl_of p vv) a = Ok r' /\ r_off r' = rva_of p b a /\ r_len r' = r_len r /\
    forall j, j < r_len r -> byte_at img (r_off r + j) = byte_at V (r_off r' + j).
Proof. exact ConvertSimProofs.v_rd_c_str_sim. Qed.
Print Assumptions C06_rd_c_str_simulation.

(* (7) outside the known class raw_tail_not_mapped (F37) no proviso is left: EVERY typed read that succeeds on
   the file view succeeds on the view over the converted buffer and returns a region with the same bytes
   ([region_sim]: same length, equal contents) that starts at the RVA read *)
Theorem C06_rd_equal : forall img V soh soi secs, conv_setting img soh soi secs V ->
  forall aF aV w b, let vf := file_view aF w b soh soi secs img in let vv := mapped_view aV w b soh soi secs V in
  raw_tail_not_mapped (byte_at img) secs = false ->
  forall p a size al r, align_compat al aF aV = true -> rd (sl_of p vf) a size al = Ok r ->
  exists r', rd (sl_of p vv) a size al = Ok r' /\ r_off r' = rva_of p b a /\ region_sim (byte_at img) (byte_at V) r r'.
Proof. exact ConvertSimProofs.v_rd_full. Qed.
Print Assumptions C06_rd_equal.

Theorem C06_rd_slice_equal : forall img V soh soi secs, conv_setting img soh soi secs V ->
  forall aF aV w b, let vf := file_view aF w b soh soi secs img in let vv := mapped_view aV w b soh soi secs V in
  raw_tail_not_mapped (byte_at img) secs = false ->
  forall p a size al len r, align_compat al aF aV = true -> rd_slice (sl_of p vf) a size al len = Ok r ->
  exists r', rd_slice (sl_of p vv) a size al len = Ok r' /\ r_off r' = rva_of p b a /\ region_sim (byte_at img) (byte_at V) r r'.
Proof. exact ConvertSimProofs.v_rd_slice_full. Qed.
Print Assumptions C06_rd_slice_equal.

Theorem C06_rd_slice_f_equal : forall img V soh soi secs, conv_setting img soh soi secs V ->
  forall aF aV w b, let vf := file_view aF w b soh soi secs img in let vv := mapped_view aV w b soh soi secs V in
  raw_tail_not_mapped (byte_at img) secs = false ->
  forall p a size al q r, align_compat al aF aV = true -> 0 < size ->
  rd_slice_f (byte_at img) (sl_of p vf) a size al q = Ok r ->
  exists r', rd_slice_f (byte_at V) (sl_of p vv) a size al q = Ok r' /\ r_off r' = rva_of p b a /\
    region_sim (byte_at img) (byte_at V) r r' /\
    forall j, j < r_len r + size -> byte_at img (r_off r + j) = byte_at V (r_off r' + j).
Proof. exact ConvertSimProofs.v_rd_slice_f_full. Qed.
Print Assumptions C06_rd_slice_f_equal.

Theorem C06_rd_slice_s_equal : forall img V soh soi secs, conv_setting img soh soi secs V ->
  forall aF aV w b, let vf := file_view aF w b soh soi secs img in let vv := mapped_view aV w b soh soi secs V in
  raw_tail_not_mapped (byte_at img) secs = false ->
  forall p a size al s r, align_compat al aF aV = true -> 0 < size ->
  rd_slice_s (byte_at img) (sl_of p vf) a size al s = Ok r ->
  exists r', rd_slice_s (byte_at V) (sl_of p vv) a size al s = Ok r' /\ r_off r' = rva_of p b a /\
    region_sim (byte_at img) (byte_at V) r r' /\
    forall j, j < r_len r + size -> byte_at img (r_off r + j) = byte_at V (r_off r' + j).
Proof. exact ConvertSimProofs.v_rd_slice_s_full. Qed.
Print Assumptions C06_rd_slice_s_equal.

Theorem C06_rd_c_str_equal : forall img V soh soi secs, conv_setting img soh soi secs V ->
  forall aF aV w b, let vf := file_view aF w b soh soi secs img in let vv := mapped_view aV w b soh soi secs V in
  raw_tail_not_mapped (byte_at img) secs = false ->
  forall p a r, rd_c_str (byte_at img) (sl_of p vf) a = Ok r ->
  exists r', rd_c_str (byte_at V) (sl_of p vv) a = Ok r' /\ r_off r' = rva_of p b a /\ region_sim (byte_at img) (byte_at V) r r'.
Proof. exact ConvertSimProofs.v_rd_c_str_full. Qed.
Print Assumptions C06_rd_c_str_equal.

(* (8) the directory parsers, outside F37: parse on vf = Ok x  ->  parse on vv = Ok x' with x' equal to x up to
   the buffer offsets of the borrows.  [dd] is data_directory().get(i), the same on both by C06_headers_equal. *)

(* exports: the three tables, image.Base and the directory entry - the decoded [tables] are EQUAL *)
Theorem C06_exports_equal : forall img V soh soi secs, conv_setting img soh soi secs V ->
  forall aF aV w b, let vf := file_view aF w b soh soi secs img in let vv := mapped_view aV w b soh soi secs V in
  raw_tail_not_mapped (byte_at img) secs = false ->
  forall dd t, align_compat 4 aF aV = true -> Exports.view_by vf dd = Ok t -> Exports.view_by vv dd = Ok t.
Proof. exact ConvertSimProofs.exports_by_sim. Qed.
Print Assumptions C06_exports_equal.

(* the export / forwarder name strings (derva_c_str as bytes) *)
Theorem C06_export_names_equal : forall img V soh soi secs, conv_setting img soh soi secs V ->
  forall aF aV w b, let vf := file_view aF w b soh soi secs img in let vv := mapped_view aV w b soh soi secs V in
  raw_tail_not_mapped (byte_at img) secs = false ->
  forall a s, Exports.view_cstr vf a = Ok s -> Exports.view_cstr vv a = Ok s.
Proof. exact ConvertSimProofs.view_cstr_sim. Qed.
Print Assumptions C06_export_names_equal.

(* the lookups: by ordinal and by name (binary search) *)
Theorem C06_get_export_ordinal_equal : forall img V soh soi secs, conv_setting img soh soi secs V ->
  forall aF aV w b, let vf := file_view aF w b soh soi secs img in let vv := mapped_view aV w b soh soi secs V in
  raw_tail_not_mapped (byte_at img) secs = false ->
  forall dd o e, align_compat 4 aF aV = true ->
  Exports.get_export_ordinal vf dd o = Ok e -> Exports.get_export_ordinal vv dd o = Ok e.
Proof. exact ConvertSimProofs.get_export_ordinal_sim. Qed.
Print Assumptions C06_get_export_ordinal_equal.

Theorem C06_get_export_name_equal : forall img V soh soi secs, conv_setting img soh soi secs V ->
  forall aF aV w b, let vf := file_view aF w b soh soi secs img in let vv := mapped_view aV w b soh soi secs V in
  raw_tail_not_mapped (byte_at img) secs = false ->
  forall dd nm e, align_compat 4 aF aV = true ->
  Exports.get_export_name vf dd nm = Ok e -> Exports.get_export_name vv dd nm = Ok e.
Proof. exact ConvertSimProofs.get_export_name_sim. Qed.
Print Assumptions C06_get_export_name_equal.

(* imports: the descriptor array (values equal), given the same directory entry ... *)
Theorem C06_imports_equal : forall img V soh soi secs, conv_setting img soh soi secs V ->
  forall aF aV w b, let vf := file_view aF w b soh soi secs img in let vv := mapped_view aV w b soh soi secs V in
  raw_tail_not_mapped (byte_at img) secs = false ->
  forall f r, let pF := {| Imports.p_f := f; Imports.p_v := vf |} in let pV := {| Imports.p_f := f; Imports.p_v := vv |} in
  align_compat 4 aF aV = true ->
  Imports.dir_entry pV IMAGE_DIRECTORY_ENTRY_IMPORT = Imports.dir_entry pF IMAGE_DIRECTORY_ENTRY_IMPORT ->
  Imports.imports pF = Ok r ->
  exists r', Imports.imports pV = Ok r' /\ region_sim (byte_at img) (byte_at V) r r' /\ Imports.descs pF r = Imports.descs pV r'.
Proof. exact ConvertSimProofs.imports_sim. Qed.
Print Assumptions C06_imports_equal.

(* ... which the two real constructors supply: PeFile::from_bytes(F).imports() and PeView::from_bytes(to_view F).imports() *)
Theorem C06_pe_imports_equal : forall f aF aV img V x, f = fmt32 \/ f = fmt64 ->
  let mF := mem_of aF img in
  validate f mF = Ok x -> headers_within f mF = true ->
  conv_setting img (h_soh f mF) (h_soi f mF) (sections f mF) V ->
  forall w b r,
  let pF := {| Imports.p_f := f; Imports.p_v := file_view aF w b (h_soh f mF) (h_soi f mF) (sections f mF) img |} in
  let pV := {| Imports.p_f := f; Imports.p_v := mapped_view aV w b (h_soh f mF) (h_soi f mF) (sections f mF) V |} in
  aligned_to 4 aV = true -> raw_tail_not_mapped (byte_at img) (sections f mF) = false ->
  Imports.imports pF = Ok r ->
  exists r', Imports.imports pV = Ok r' /\ region_sim (byte_at img) (byte_at V) r r' /\ Imports.descs pF r = Imports.descs pV r'.
Proof. exact ConvertSimProofs.pe_imports_sim. Qed.
Print Assumptions C06_pe_imports_equal.

(* dll names, thunk arrays (IAT / INT of a descriptor; the Va values are equal), one import entry
   (hint and name bytes equal, [import_vals]), the IAT directory *)
Theorem C06_dll_name_equal : forall img V soh soi secs, conv_setting img soh soi secs V ->
  forall aF aV w b, let vf := file_view aF w b soh soi secs img in let vv := mapped_view aV w b soh soi secs V in
  raw_tail_not_mapped (byte_at img) secs = false ->
  forall f d r, let pF := {| Imports.p_f := f; Imports.p_v := vf |} in let pV := {| Imports.p_f := f; Imports.p_v := vv |} in
  Imports.dll_name pF d = Ok r -> exists r', Imports.dll_name pV d = Ok r' /\ region_sim (byte_at img) (byte_at V) r r'.
Proof. exact ConvertSimProofs.dll_name_sim. Qed.
Print Assumptions C06_dll_name_equal.

Theorem C06_thunks_equal : forall img V soh soi secs, conv_setting img soh soi secs V ->
  forall aF aV w b, let vf := file_view aF w b soh soi secs img in let vv := mapped_view aV w b soh soi secs V in
  raw_tail_not_mapped (byte_at img) secs = false ->
  forall f rva r, let pF := {| Imports.p_f := f; Imports.p_v := vf |} in let pV := {| Imports.p_f := f; Imports.p_v := vv |} in
  align_compat (Imports.va_bytes pF) aF aV = true -> Imports.thunks pF rva = Ok r ->
  exists r', Imports.thunks pV rva = Ok r' /\ region_sim (byte_at img) (byte_at V) r r' /\
    Imports.thunk_values pF r = Imports.thunk_values pV r'.
Proof. exact ConvertSimProofs.thunks_sim. Qed.
Print Assumptions C06_thunks_equal.

Theorem C06_import_from_va_equal : forall img V soh soi secs, conv_setting img soh soi secs V ->
  forall aF aV w b, let vf := file_view aF w b soh soi secs img in let vv := mapped_view aV w b soh soi secs V in
  raw_tail_not_mapped (byte_at img) secs = false ->
  forall f va i, let pF := {| Imports.p_f := f; Imports.p_v := vf |} in let pV := {| Imports.p_f := f; Imports.p_v := vv |} in
  align_compat 2 aF aV = true -> Imports.import_from_va pF va = Ok i ->
  exists i', Imports.import_from_va pV va = Ok i' /\ import_vals (byte_at img) i = import_vals (byte_at V) i'.
Proof. exact ConvertSimProofs.import_from_va_sim. Qed.
Print Assumptions C06_import_from_va_equal.

Theorem C06_iat_equal : forall img V soh soi secs, conv_setting img soh soi secs V ->
  forall aF aV w b, let vf := file_view aF w b soh soi secs img in let vv := mapped_view aV w b soh soi secs V in
  raw_tail_not_mapped (byte_at img) secs = false ->
  forall f r, let pF := {| Imports.p_f := f; Imports.p_v := vf |} in let pV := {| Imports.p_f := f; Imports.p_v := vv |} in
  align_compat (Imports.va_bytes pF) aF aV = true ->
  Imports.dir_entry pV IMAGE_DIRECTORY_ENTRY_IAT = Imports.dir_entry pF IMAGE_DIRECTORY_ENTRY_IAT ->
  Imports.iat pF = Ok r ->
  exists r', Imports.iat pV = Ok r' /\ region_sim (byte_at img) (byte_at V) r r' /\ Imports.thunk_values pF r = Imports.thunk_values pV r'.
Proof. exact ConvertSimProofs.iat_sim. Qed.
Print Assumptions C06_iat_equal.

(* base relocations: the directory bytes, hence the blocks and the (rva, type) pairs of Model/Relocs.v *)
Theorem C06_relocs_equal : forall img V soh soi secs, conv_setting img soh soi secs V ->
  forall aF aV w b, let vf := file_view aF w b soh soi secs img in let vv := mapped_view aV w b soh soi secs V in
  raw_tail_not_mapped (byte_at img) secs = false ->
  forall dd r, align_compat 4 aF aV = true -> relocs_try_from vf dd = Ok r ->
  exists r', relocs_try_from vv dd = Ok r' /\ region_sim (byte_at img) (byte_at V) r r' /\
    relocs_data vf r = relocs_data vv r' /\
    Relocs.blocks (relocs_data vf r) = Relocs.blocks (relocs_data vv r') /\
    Relocs.fold_pairs (relocs_data vf r) = Relocs.fold_pairs (relocs_data vv r').
Proof. exact ConvertSimProofs.relocs_sim. Qed.
Print Assumptions C06_relocs_equal.

(* exception directory: the RUNTIME_FUNCTION table *)
Theorem C06_exception_equal : forall img V soh soi secs, conv_setting img soh soi secs V ->
  forall aF aV w b, let vf := file_view aF w b soh soi secs img in let vv := mapped_view aV w b soh soi secs V in
  raw_tail_not_mapped (byte_at img) secs = false ->
  forall dd r, align_compat 4 aF aV = true -> Dirs.exception_try_from vf dd = Ok r ->
  exists r', Dirs.exception_try_from vv dd = Ok r' /\ r_off r' = fst (match dd with Some d => d | None => (0, 0) end) /\
    region_sim (byte_at img) (byte_at V) r r' /\ Dirs.exception_functions vf r = Dirs.exception_functions vv r'.
Proof. exact ConvertSimProofs.exception_sim. Qed.
Print Assumptions C06_exception_equal.

(* debug directory: the IMAGE_DEBUG_DIRECTORY table (field values; not the payloads, which a file addresses by
   PointerToRawData and a mapped image by AddressOfRawData) *)
Theorem C06_debug_equal : forall img V soh soi secs, conv_setting img soh soi secs V ->
  forall aF aV w b, let vf := file_view aF w b soh soi secs img in let vv := mapped_view aV w b soh soi secs V in
  raw_tail_not_mapped (byte_at img) secs = false ->
  forall dd r, align_compat 4 aF aV = true -> Dirs.debug_try_from vf dd = Ok r ->
  exists r', Dirs.debug_try_from vv dd = Ok r' /\ region_sim (byte_at img) (byte_at V) r r' /\
    map ddir_vals (Dirs.debug_dirs vf r) = map ddir_vals (Dirs.debug_dirs vv r').
Proof. exact ConvertSimProofs.debug_sim. Qed.
Print Assumptions C06_debug_equal.

(* TLS: the directory, its four pointer fields, and what they point to (raw data, slot, callbacks; VA path) *)
Theorem C06_tls_equal : forall img V soh soi secs, conv_setting img soh soi secs V ->
  forall aF aV w b, let vf := file_view aF w b soh soi secs img in let vv := mapped_view aV w b soh soi secs V in
  raw_tail_not_mapped (byte_at img) secs = false ->
  forall dd t, align_compat (Dirs.va_size vf) aF aV = true -> Dirs.tls_try_from vf dd = Ok t ->
  exists t', Dirs.tls_try_from vv dd = Ok t' /\ region_sim (byte_at img) (byte_at V) t t' /\
    Dirs.tls_start vf t = Dirs.tls_start vv t' /\ Dirs.tls_end vf t = Dirs.tls_end vv t' /\
    Dirs.tls_index vf t = Dirs.tls_index vv t' /\ Dirs.tls_cb vf t = Dirs.tls_cb vv t' /\
    (forall r, Dirs.tls_raw_data vf t = Ok r -> exists r', Dirs.tls_raw_data vv t' = Ok r' /\ region_sim (byte_at img) (byte_at V) r r') /\
    (forall r, align_compat 4 aF aV = true -> Dirs.tls_slot vf t = Ok r ->
               exists r', Dirs.tls_slot vv t' = Ok r' /\ region_sim (byte_at img) (byte_at V) r r') /\
    (forall r, Dirs.tls_callbacks vf t = Ok r -> exists r', Dirs.tls_callbacks vv t' = Ok r' /\ region_sim (byte_at img) (byte_at V) r r').
Proof. exact ConvertSimProofs.tls_sim. Qed.
Print Assumptions C06_tls_equal.

(* load config: the directory, SecurityCookie / SEHandlerTable / SEHandlerCount and what they point to *)
Theorem C06_load_config_equal : forall img V soh soi secs, conv_setting img soh soi secs V ->
  forall aF aV w b, let vf := file_view aF w b soh soi secs img in let vv := mapped_view aV w b soh soi secs V in
  raw_tail_not_mapped (byte_at img) secs = false ->
  forall dd t, align_compat (Dirs.va_size vf) aF aV = true -> Dirs.load_config_try_from vf dd = Ok t ->
  exists t', Dirs.load_config_try_from vv dd = Ok t' /\ region_sim (byte_at img) (byte_at V) t t' /\
    Dirs.lc_cookie_ptr vf t = Dirs.lc_cookie_ptr vv t' /\ Dirs.lc_table_ptr vf t = Dirs.lc_table_ptr vv t' /\
    Dirs.lc_count vf t = Dirs.lc_count vv t' /\
    (forall r, align_compat 4 aF aV = true -> Dirs.lc_security_cookie vf t = Ok r ->
               exists r', Dirs.lc_security_cookie vv t' = Ok r' /\ region_sim (byte_at img) (byte_at V) r r') /\
    (forall r, Dirs.lc_se_handler_table vf t = Ok r -> exists r', Dirs.lc_se_handler_table vv t' = Ok r' /\ region_sim (byte_at img) (byte_at V) r r').
Proof. exact ConvertSimProofs.load_config_sim. Qed.
Print Assumptions C06_load_config_equal.

(* resources: the resource SECTION handed to the parsers (same VirtualAddress, the view's at least as long,
   equal bytes; equal length when the directory Size fits the stored data).  The tree walkers themselves are
   covered by correspondence only. *)
Theorem C06_resources_section_equal : forall img V soh soi secs, conv_setting img soh soi secs V ->
  forall aF aV w b, let vf := file_view aF w b soh soi secs img in let vv := mapped_view aV w b soh soi secs V in
  raw_tail_not_mapped (byte_at img) secs = false ->
  forall dd s, view_resources vf dd = Ok s ->
  exists s', view_resources vv dd = Ok s' /\ Resources.rs_va s' = Resources.rs_va s /\
    Resources.rs_len s <= Resources.rs_len s' /\
    (forall i, i < Resources.rs_len s -> Resources.rs_get s i = Resources.rs_get s' i) /\
    (forall va size, dd = Some (va, size) -> Resources.rs_len s = size -> Resources.rs_len s' = size).
Proof. exact ConvertSimProofs.resources_sim. Qed.
Print Assumptions C06_resources_section_equal.

(* security: NOT equal by design - a mapped view has no security directory (security.rs:9) *)
Theorem C06_security_view_unmapped : forall V soh soi secs aV w b dd,
  Dirs.security_try_from (mapped_view aV w b soh soi secs V) dd = Err EUnmapped.
Proof. exact ConvertSimProofs.security_view. Qed.
Print Assumptions C06_security_view_unmapped.

(* (9) the headers.  validate_headers bounds the headers by the buffer length only; when they also lie inside
   SizeOfHeaders ([headers_within], decidable) the converted buffer is accepted by PeView::from_bytes and decodes
   the same e_lfanew, SizeOfHeaders, SizeOfImage, ImageBase, section table and data directory: vf and vv above
   are what the two constructors hold.  (This also proves what the driver's tag [roundtrip] checked per case.) *)
Theorem C06_headers_equal : forall f aF aV img V x, f = fmt32 \/ f = fmt64 ->
  let mF := mem_of aF img in let mV := mem_of aV V in
  validate f mF = Ok x -> headers_within f mF = true ->
  conv_setting img (h_soh f mF) (h_soi f mF) (sections f mF) V -> aligned_to 4 aV = true ->
  validate f mV = Ok x /\ e_lfanew mV = e_lfanew mF /\ h_soh f mV = h_soh f mF /\ h_soi f mV = h_soi f mF /\
  h_base f mV = h_base f mF /\ sections f mV = sections f mF /\
  (forall i, Headers.data_dir f mV i = Headers.data_dir f mF i).
Proof. exact ConvertSimProofs.pe_headers_sim. Qed.
Print Assumptions C06_headers_equal.

(* the Rich structure is read from the dwords below e_lfanew <= SizeOfHeaders only: identical result, key,
   records and checksum *)
Theorem C06_rich_equal : forall f aF img V, let mF := mem_of aF img in
  headers_within f mF = true -> conv_setting img (h_soh f mF) (h_soi f mF) (sections f mF) V ->
  view_rich (byte_at V) (lenN V) = view_rich (byte_at img) (lenN img) /\
  forall se, view_rich (byte_at img) (lenN img) = Ok se ->
    Rich.xor_key (dwords_of (byte_at V) (lenN V)) se = Rich.xor_key (dwords_of (byte_at img) (lenN img)) se /\
    Rich.records (dwords_of (byte_at V) (lenN V)) se = Rich.records (dwords_of (byte_at img) (lenN img)) se /\
    Rich.checksum (dwords_of (byte_at V) (lenN V)) se = Rich.checksum (dwords_of (byte_at img) (lenN img)) se.
Proof. exact ConvertSimProofs.pe_rich_sim. Qed.
Print Assumptions C06_rich_equal.

(* Headers::check_sum is NOT preserved (it sums the whole buffer and adds its length): a well-formed
   two-section image outside both known classes whose mapped form has a different sum *)
Theorem C06_check_sum_not_preserved :
  conv_setting ConvertSimProofs.cs_img 2 12 ConvertSimProofs.cs_secs ConvertSimProofs.cs_V /\
  raw_tail_not_mapped (byte_at ConvertSimProofs.cs_img) ConvertSimProofs.cs_secs = false /\
  check_sum fmt32 (mem_of 0 ConvertSimProofs.cs_V) <> check_sum fmt32 (mem_of 0 ConvertSimProofs.cs_img) /\
  check_sum fmt64 (mem_of 0 ConvertSimProofs.cs_V) <> check_sum fmt64 (mem_of 0 ConvertSimProofs.cs_img).
Proof. exact ConvertSimProofs.check_sum_not_preserved. Qed.
Print Assumptions C06_check_sum_not_preserved.

(* ======================================================================================================
   Third layer: the parts of "every directory query gives equal results on both" that the second layer left
   open - the resource tree walkers, the debug entry payloads, the export lookups that swallow read errors and the
   export iterators, unwind_info / function_bytes, and the converse direction for slices. *)

(* (10) resources.  The frame lemma of Model/Resources.v: every parser of the resources API reads the section below
   rs_len only, tests alignments 2 and 4 of (address + offset) only, and otherwise uses rs_len and rs_va; so two
   sections with the same length, the same directory RVA, the same bytes below the length and addresses congruent
   modulo 4 ([rsec_same]) give EQUAL results for every query ([res_queries_equal]: root, the full traversal with
   names / kinds / data entries / DataEntry::bytes / size / code page, fsck, the tree printer, find_resources,
   find_resource, find_resource_ex, find (path), manifest, version_info, the icon/cursor group listing, GroupResource::new,
   image lookup and the .ico/.cur writer, and the bytes of every region inside the section).  Offsets are relative to
   the section, so "equal" is literal equality. *)
Theorem C06_resources_frame : forall s s', rsec_same s s' -> res_queries_equal s s'.
Proof. exact ConvertResFrame.resources_frame. Qed.
Print Assumptions C06_resources_frame.

(* Pe::resources() on the two views, outside F37: when the directory lies in stored bytes (the file view did not have to
   clamp: rs_len s = Size) and the section that holds it is stored at a file offset congruent to its VirtualAddress
   modulo 4 ([prd_va_congruent]; the buffers themselves congruent modulo 4), the mapped view hands the parsers THE SAME
   section, hence every resource query is equal. *)
Theorem C06_resources_queries_equal : forall img V soh soi secs, conv_setting img soh soi secs V ->
  forall aF aV w b, let vf := file_view aF w b soh soi secs img in let vv := mapped_view aV w b soh soi secs V in
  raw_tail_not_mapped (byte_at img) secs = false ->
  forall va size s, align_compat 4 aF aV = true -> prd_va_congruent 4 secs va = true ->
  view_resources vf (Some (va, size)) = Ok s -> Resources.rs_len s = size ->
  exists s', view_resources vv (Some (va, size)) = Ok s' /\ rsec_same s s' /\ res_queries_equal s s'.
Proof. exact ConvertSimMore.resources_queries_sim. Qed.
Print Assumptions C06_resources_queries_equal.

(* both hypotheses are necessary (well-formed images outside F37, buffers at address 0):
   Size reaching into the virtual-only tail - the file view clamps the section to the stored bytes, the mapped view does not *)
Theorem C06_resources_len_needed :
  conv_setting ConvertSimMore.rl_img 4 24 ConvertSimMore.rl_secs ConvertSimMore.rl_V /\
  raw_tail_not_mapped (byte_at ConvertSimMore.rl_img) ConvertSimMore.rl_secs = false /\
  align_compat 4 0 0 = true /\ prd_va_congruent 4 ConvertSimMore.rl_secs 8 = true /\
  exists s s', view_resources (file_view 0 W32 4194304 4 24 ConvertSimMore.rl_secs ConvertSimMore.rl_img) (Some (8, 16)) = Ok s /\
    view_resources (mapped_view 0 W32 4194304 4 24 ConvertSimMore.rl_secs ConvertSimMore.rl_V) (Some (8, 16)) = Ok s' /\
    Resources.rs_len s = 8 /\ Resources.rs_len s' = 16 /\ Resources.fsck s = Err EBounds /\ Resources.fsck s' = Ok tt.
Proof. exact ConvertSimMore.resources_len_needed. Qed.
Print Assumptions C06_resources_len_needed.

(* PointerToRawData not congruent to VirtualAddress modulo 4 - the directory is misaligned in the file buffer only *)
Theorem C06_resources_congruence_needed :
  conv_setting ConvertSimMore.rc_img 6 24 ConvertSimMore.rc_secs ConvertSimMore.rc_V /\
  raw_tail_not_mapped (byte_at ConvertSimMore.rc_img) ConvertSimMore.rc_secs = false /\
  align_compat 4 0 0 = true /\ prd_va_congruent 4 ConvertSimMore.rc_secs 8 = false /\
  exists s s', view_resources (file_view 0 W32 4194304 6 24 ConvertSimMore.rc_secs ConvertSimMore.rc_img) (Some (8, 16)) = Ok s /\
    view_resources (mapped_view 0 W32 4194304 6 24 ConvertSimMore.rc_secs ConvertSimMore.rc_V) (Some (8, 16)) = Ok s' /\
    Resources.rs_len s = 16 /\ Resources.rs_len s' = 16 /\ Resources.fsck s = Err EMisaligned /\ Resources.fsck s' = Ok tt.
Proof. exact ConvertSimMore.resources_congruence_needed. Qed.
Print Assumptions C06_resources_congruence_needed.

(* (11) debug entry payloads.  Dir::data slices the buffer at PointerToRawData on a file and at AddressOfRawData on a
   mapped image.  For a CONSISTENT entry ([debug_entry_consistent], decidable: rva_to_file_offset AddressOfRawData =
   Ok PointerToRawData and the payload lies inside the headers or inside the agreeing part of its section - min(VS,SRD),
   the whole raw data when the raw tail is zero padding) both exist and hold the same bytes.  d' is the entry as decoded
   from the view (equal field values by C06_debug_equal).  No F37 hypothesis: the predicate measures against agree_len. *)
Theorem C06_debug_payload_equal : forall img V soh soi secs, conv_setting img soh soi secs V ->
  forall aF aV w b, let vf := file_view aF w b soh soi secs img in let vv := mapped_view aV w b soh soi secs V in
  forall d d', ddir_vals d' = ddir_vals d -> debug_entry_consistent (byte_at img) soh secs d = true ->
  Dirs.dir_data vf d = Some {| r_off := Dirs.dd_ptr d; r_len := Dirs.dd_size d |} /\
  Dirs.dir_data vv d' = Some {| r_off := Dirs.dd_addr d; r_len := Dirs.dd_size d |} /\
  region_sim (byte_at img) (byte_at V) {| r_off := Dirs.dd_ptr d; r_len := Dirs.dd_size d |} {| r_off := Dirs.dd_addr d; r_len := Dirs.dd_size d |}.
Proof. exact ConvertSimMore.debug_payload_sim. Qed.
Print Assumptions C06_debug_payload_equal.

(* the decoded entry (Dir::entry: CodeView NB10 / RSDS with pdb_file_name, MISC, POGO with Pgo::iter() run to exhaustion,
   unknown types with their raw data), results and errors alike, as values ([entry_vals]: the bytes of the borrowed structures
   and strings) - when moreover the payload has the same alignment modulo 4 in both buffers *)
Theorem C06_debug_entry_equal : forall img V soh soi secs, conv_setting img soh soi secs V ->
  forall aF aV w b, let vf := file_view aF w b soh soi secs img in let vv := mapped_view aV w b soh soi secs V in
  forall d d', align_compat 4 aF aV = true -> prd_va_congruent 4 secs (Dirs.dd_addr d) = true ->
  ddir_vals d' = ddir_vals d -> debug_entry_consistent (byte_at img) soh secs d = true ->
  res_map (entry_vals (byte_at img)) (Dirs.dir_entry vf d) = res_map (entry_vals (byte_at V)) (Dirs.dir_entry vv d').
Proof. exact ConvertSimMore.debug_entry_sim. Qed.
Print Assumptions C06_debug_entry_equal.

(* the whole directory (ds, ds' as given by C06_debug_equal): every entry, and Debug::pdb_file_name *)
Theorem C06_debug_entries_equal : forall img V soh soi secs, conv_setting img soh soi secs V ->
  forall aF aV w b, let vf := file_view aF w b soh soi secs img in let vv := mapped_view aV w b soh soi secs V in
  align_compat 4 aF aV = true -> forall ds ds', map ddir_vals ds' = map ddir_vals ds ->
  forallb (fun d => debug_entry_consistent (byte_at img) soh secs d && prd_va_congruent 4 secs (Dirs.dd_addr d)) ds = true ->
  map (fun d => res_map (entry_vals (byte_at img)) (Dirs.dir_entry vf d)) ds =
    map (fun d => res_map (entry_vals (byte_at V)) (Dirs.dir_entry vv d)) ds' /\
  option_map (region_bytes (byte_at img)) (Dirs.pdb_file_name vf ds) = option_map (region_bytes (byte_at V)) (Dirs.pdb_file_name vv ds').
Proof. exact ConvertSimMore.debug_entries_sim. Qed.
Print Assumptions C06_debug_entries_equal.

(* consistency is necessary: a payload in the overlay behind the last section (where linkers and signing tools put debug
   data that is not mapped).  The file has it; the mapped view has nothing at AddressOfRawData = 16 (beyond SizeOfImage)
   and serves the HEADERS for AddressOfRawData = 0 *)
Theorem C06_debug_consistent_needed :
  conv_setting ConvertSimMore.dbw_img 4 12 ConvertSimMore.dbw_secs ConvertSimMore.dbw_V /\
  raw_tail_not_mapped (byte_at ConvertSimMore.dbw_img) ConvertSimMore.dbw_secs = false /\
  debug_entry_consistent (byte_at ConvertSimMore.dbw_img) 4 ConvertSimMore.dbw_secs (ConvertSimMore.dbw_d 16) = false /\
  debug_entry_consistent (byte_at ConvertSimMore.dbw_img) 4 ConvertSimMore.dbw_secs (ConvertSimMore.dbw_d 0) = false /\
  option_map (region_bytes (byte_at ConvertSimMore.dbw_img))
    (Dirs.dir_data (file_view 0 W32 4194304 4 12 ConvertSimMore.dbw_secs ConvertSimMore.dbw_img) (ConvertSimMore.dbw_d 16)) = Some [7; 7; 7; 7] /\
  Dirs.dir_data (mapped_view 0 W32 4194304 4 12 ConvertSimMore.dbw_secs ConvertSimMore.dbw_V) (ConvertSimMore.dbw_d 16) = None /\
  option_map (region_bytes (byte_at ConvertSimMore.dbw_V))
    (Dirs.dir_data (mapped_view 0 W32 4194304 4 12 ConvertSimMore.dbw_secs ConvertSimMore.dbw_V) (ConvertSimMore.dbw_d 0)) = Some [77; 90; 0; 0].
Proof. exact ConvertSimMore.debug_consistent_needed. Qed.
Print Assumptions C06_debug_consistent_needed.

(* (12) exports: name_linear skips a name whose derva_c_str fails, so it is monotone only when every entry of the name
   table is readable on the file view ([names_readable], decidable) ... *)
Theorem C06_export_name_linear_equal : forall img V soh soi secs, conv_setting img soh soi secs V ->
  forall aF aV w b, let vf := file_view aF w b soh soi secs img in let vv := mapped_view aV w b soh soi secs V in
  raw_tail_not_mapped (byte_at img) secs = false ->
  forall dd t nm e, align_compat 4 aF aV = true -> Exports.view_by vf dd = Ok t ->
  names_readable (Exports.view_cstr vf) t = true ->
  Exports.name_linear (Exports.view_cstr vf) t nm = Ok e ->
  Exports.view_by vv dd = Ok t /\ Exports.name_linear (Exports.view_cstr vv) t nm = Ok e.
Proof. exact ConvertSimMore.name_linear_sim. Qed.
Print Assumptions C06_export_name_linear_equal.

(* ... and is NOT monotone without it: a well-formed image outside F37 whose first name RVA lies in the virtual-only zero
   tail of its section (unreadable through the file view, the empty string through the mapped view); looking up "" finds
   the second export on the file and the first on the view *)
Theorem C06_name_linear_not_monotone :
  conv_setting (ConvertSimMore.nl_img 86) 4 96 ConvertSimMore.nl_secs (ConvertSimMore.nl_V 86) /\
  raw_tail_not_mapped (byte_at (ConvertSimMore.nl_img 86)) ConvertSimMore.nl_secs = false /\
  align_compat 4 0 0 = true /\
  Exports.view_by (ConvertSimMore.nl_vf 86) (Some (16, 40)) = Ok ConvertSimMore.nl_t /\
  Exports.view_by (ConvertSimMore.nl_vv 86) (Some (16, 40)) = Ok ConvertSimMore.nl_t /\
  names_readable (Exports.view_cstr (ConvertSimMore.nl_vf 86)) ConvertSimMore.nl_t = false /\
  Exports.name_linear (Exports.view_cstr (ConvertSimMore.nl_vf 86)) ConvertSimMore.nl_t [] = Ok (Exports.Symbol 2000) /\
  Exports.name_linear (Exports.view_cstr (ConvertSimMore.nl_vv 86)) ConvertSimMore.nl_t [] = Ok (Exports.Symbol 1000).
Proof. exact ConvertSimMore.name_linear_image_witness. Qed.
Print Assumptions C06_name_linear_not_monotone.

(* import (by name with a hint / by ordinal): hint_name falls back to the name search when hint(h) or name_of_hint(h) fails,
   so it is monotone when both succeed on the file view ([import_readable], decidable) *)
Theorem C06_get_export_import_equal : forall img V soh soi secs, conv_setting img soh soi secs V ->
  forall aF aV w b, let vf := file_view aF w b soh soi secs img in let vv := mapped_view aV w b soh soi secs V in
  raw_tail_not_mapped (byte_at img) secs = false ->
  forall dd t i e, align_compat 4 aF aV = true -> Exports.view_by vf dd = Ok t ->
  import_readable (Exports.view_cstr vf) t i = true ->
  Exports.get_export_import vf dd i = Ok e -> Exports.get_export_import vv dd i = Ok e.
Proof. exact ConvertSimMore.get_export_import_sim. Qed.
Print Assumptions C06_get_export_import_equal.

(* the three iterators and check_sorted: item by item, whatever the file view yields the mapped view yields
   ([res_le]; an item that is an error on the file may be a value on the view) *)
Theorem C06_export_iterators_equal : forall img V soh soi secs, conv_setting img soh soi secs V ->
  forall aF aV w b, let vf := file_view aF w b soh soi secs img in let vv := mapped_view aV w b soh soi secs V in
  raw_tail_not_mapped (byte_at img) secs = false ->
  forall dd t, align_compat 4 aF aV = true -> Exports.view_by vf dd = Ok t ->
  Exports.view_by vv dd = Ok t /\
  Forall2 res_le (Exports.iter (Exports.view_cstr vf) t) (Exports.iter (Exports.view_cstr vv) t) /\
  Forall2 (fun p p' => res_le (fst p) (fst p') /\ res_le (snd p) (snd p'))
    (Exports.iter_names (Exports.view_cstr vf) t) (Exports.iter_names (Exports.view_cstr vv) t) /\
  Forall2 (fun p p' => res_le (fst p) (fst p') /\ snd p' = snd p)
    (Exports.iter_name_indices (Exports.view_cstr vf) t) (Exports.iter_name_indices (Exports.view_cstr vv) t) /\
  res_le (Exports.check_sorted (Exports.view_cstr vf) t) (Exports.check_sorted (Exports.view_cstr vv) t).
Proof. exact ConvertSimMore.export_iters_sim. Qed.
Print Assumptions C06_export_iterators_equal.

(* (13) exception directory: Function::bytes and Function::unwind_info (the UNWIND_INFO header with its CountOfCodes
   slots; [unwind_vals]: version, flags, size of prolog, count, frame register / offset, the code slots) *)
Theorem C06_function_bytes_equal : forall img V soh soi secs, conv_setting img soh soi secs V ->
  forall aF aV w b, let vf := file_view aF w b soh soi secs img in let vv := mapped_view aV w b soh soi secs V in
  raw_tail_not_mapped (byte_at img) secs = false ->
  forall f r, Dirs.function_bytes vf f = Ok r ->
  exists r', Dirs.function_bytes vv f = Ok r' /\ r_off r' = Dirs.rf_begin f /\ region_sim (byte_at img) (byte_at V) r r'.
Proof. exact ConvertSimMore.function_bytes_sim. Qed.
Print Assumptions C06_function_bytes_equal.

Theorem C06_unwind_info_equal : forall img V soh soi secs, conv_setting img soh soi secs V ->
  forall aF aV w b, let vf := file_view aF w b soh soi secs img in let vv := mapped_view aV w b soh soi secs V in
  raw_tail_not_mapped (byte_at img) secs = false ->
  forall f r, Dirs.unwind_info vf f = Ok r ->
  exists r', Dirs.unwind_info vv f = Ok r' /\ r_off r' = Dirs.rf_unwind f /\ region_sim (byte_at img) (byte_at V) r r' /\
    unwind_vals (byte_at img) r = unwind_vals (byte_at V) r'.
Proof. exact ConvertSimMore.unwind_info_sim. Qed.
Print Assumptions C06_unwind_info_equal.

(* (14) the converse direction, for slices: the file view serves EXACTLY those slices of the mapped view that are stored
   ([stored_at secs rva ms]: rva lies in a section and section offset + ms <= SizeOfRawData) - for buffers congruent
   modulo the alignment and a section stored congruently to its VirtualAddress.  Everything else the view serves
   (headers, virtual-only zero tails, gaps between sections) fails on the file.  No F37 hypothesis. *)
Theorem C06_slice_converse : forall img V soh soi secs, conv_setting img soh soi secs V ->
  forall aF aV w b, let vf := file_view aF w b soh soi secs img in let vv := mapped_view aV w b soh soi secs V in
  forall rva ms al, align_compat al aF aV = true -> prd_va_congruent al secs rva = true ->
  ((exists rf, slice vf rva ms al = Ok rf) <-> ((exists rv, slice vv rva ms al = Ok rv) /\ stored_at secs rva ms = true)).
Proof. exact ConvertSimMore.slice_iff. Qed.
Print Assumptions C06_slice_converse.

(* OPEN: C06_directory_queries_equal : every directory query returns equal results on PeFile(F) and
   PeView(to_view F).  Proved above, file => view, outside F37 (and inside it under [inside_agree]):
   every typed read; exports (tables, names, lookup by ordinal and by name, name_linear under names_readable, the three
   iterators, check_sorted, import under import_readable); imports (descriptors, dll names, thunk arrays, import entries, IAT); base relocations;
   exception table, function bytes, unwind info; debug directory table, payloads and decoded entries (consistent entries);
   TLS; load config; resources (the section and EVERY query of the resources API, when the directory lies in stored bytes
   and the section is stored congruently modulo 4); the Rich structure (an equality); the header fields; for slices the
   exact converse (C06_slice_converse).
   Still open: (a) the converse direction beyond slices: the typed readers with a sentinel (derva_c_str, derva_slice_f/_s)
   can run from stored bytes into the virtual-only tail on the view and stop at the end of the raw data on the file, so
   view => file for them needs the terminator inside the stored bytes - not written down; hence "equal" for the directory
   parsers is proved as "whatever the file view returns the mapped view returns", not as an equivalence;
   (b) the VA-path converse and to_file-side queries (PeView::to_file output re-parsed).
   Not equal by design: security directory (file only), check_sum. *)

Example C06_nonvacuous :
  Forall section_ok ex_secs /\ wf_sections (lenN ex_img) 2 12 ex_secs = true /\ wf_raw 2 ex_secs = true /\
  stored_beyond_size_of_image 2 12 ex_secs = false /\
  to_view ex_img 2 12 ex_secs = Ok [1;2;0;0;3;4;0;0;5;6;0;0] /\
  to_file [1;2;0;0;3;4;0;0;5;6;0;0] 2 12 ex_secs = Ok [1;2;3;4;5;6;0;0] /\
  slice_file 0 (lenN ex_img) ex_secs 5 0 1 = Ok {| r_off := 3; r_len := 1 |}.
Proof. exact ConvertProofs.nonvacuous_example. Qed.

(* non-vacuity of the third layer: concrete well-formed images on which the hypotheses of the implications hold *)
Example C06_resources_nonvacuous :
  conv_setting ConvertSimMore.rx_img 4 52 ConvertSimMore.rx_secs ConvertSimMore.rx_V /\
  raw_tail_not_mapped (byte_at ConvertSimMore.rx_img) ConvertSimMore.rx_secs = false /\
  align_compat 4 0 0 = true /\ prd_va_congruent 4 ConvertSimMore.rx_secs 8 = true /\
  exists s, view_resources (file_view 0 W32 4194304 4 52 ConvertSimMore.rx_secs ConvertSimMore.rx_img) (Some (8, 44)) = Ok s /\ Resources.rs_len s = 44 /\
    Resources.fsck s = Ok tt /\
    fst (Resources.walk 3 s 0 0 10) =
      [Resources.WItem {| Resources.i_lvl := 0; Resources.i_eoff := 16; Resources.i_named := false; Resources.i_name := Ok (Resources.NId 16);
                          Resources.i_isdir := false;
                          Resources.i_tgt := Resources.TData 24 (Ok {| r_off := 40; r_len := 4 |}) 4 0 |}] /\
    Resources.sec_bytes s 40 4 = [1; 2; 3; 4].
Proof. exact ConvertSimMore.resources_nonvacuous. Qed.

Example C06_debug_nonvacuous :
  conv_setting ConvertSimMore.dbx_img 4 36 ConvertSimMore.dbx_secs ConvertSimMore.dbx_V /\ align_compat 4 0 0 = true /\
  prd_va_congruent 4 ConvertSimMore.dbx_secs 8 = true /\
  debug_entry_consistent (byte_at ConvertSimMore.dbx_img) 4 ConvertSimMore.dbx_secs ConvertSimMore.dbx_d = true /\
  res_map (entry_vals (byte_at ConvertSimMore.dbx_img)) (Dirs.dir_entry (file_view 0 W32 4194304 4 36 ConvertSimMore.dbx_secs ConvertSimMore.dbx_img) ConvertSimMore.dbx_d) =
    Ok (VCv70 ([82; 83; 68; 83] ++ [1;2;3;4;5;6;7;8;9;10;11;12;13;14;15;16] ++ [1;0;0;0]) [97; 0]) /\
  res_map (entry_vals (byte_at ConvertSimMore.dbx_V)) (Dirs.dir_entry (mapped_view 0 W32 4194304 4 36 ConvertSimMore.dbx_secs ConvertSimMore.dbx_V) ConvertSimMore.dbx_d) =
    Ok (VCv70 ([82; 83; 68; 83] ++ [1;2;3;4;5;6;7;8;9;10;11;12;13;14;15;16] ++ [1;0;0;0]) [97; 0]).
Proof. exact ConvertSimMore.debug_nonvacuous. Qed.

Example C06_name_linear_nonvacuous :
  conv_setting (ConvertSimMore.nl_img 78) 4 96 ConvertSimMore.nl_secs (ConvertSimMore.nl_V 78) /\
  raw_tail_not_mapped (byte_at (ConvertSimMore.nl_img 78)) ConvertSimMore.nl_secs = false /\
  align_compat 4 0 0 = true /\
  exists t, Exports.view_by (ConvertSimMore.nl_vf 78) (Some (16, 40)) = Ok t /\ names_readable (Exports.view_cstr (ConvertSimMore.nl_vf 78)) t = true /\
    Exports.name_linear (Exports.view_cstr (ConvertSimMore.nl_vf 78)) t [] = Ok (Exports.Symbol 1000) /\
    Exports.iter (Exports.view_cstr (ConvertSimMore.nl_vf 78)) t = [Ok (Exports.Symbol 1000); Ok (Exports.Symbol 2000)] /\
    Exports.check_sorted (Exports.view_cstr (ConvertSimMore.nl_vf 78)) t = Ok true.
Proof. exact ConvertSimMore.name_linear_nonvacuous. Qed.

Example C06_import_nonvacuous :
  exists t, Exports.view_by (ConvertSimMore.nl_vf 78) (Some (16, 40)) = Ok t /\
    import_readable (Exports.view_cstr (ConvertSimMore.nl_vf 78)) t (Exports.ByName 0 []) = true /\
    Exports.get_export_import (ConvertSimMore.nl_vf 78) (Some (16, 40)) (Exports.ByName 0 []) = Ok (Exports.Symbol 1000).
Proof. exact ConvertSimMore.import_nonvacuous. Qed.

Example C06_unwind_nonvacuous :
  conv_setting ConvertSimMore.uw_img 4 16 ConvertSimMore.uw_secs ConvertSimMore.uw_V /\
  raw_tail_not_mapped (byte_at ConvertSimMore.uw_img) ConvertSimMore.uw_secs = false /\
  Dirs.unwind_info (file_view 0 W32 4194304 4 16 ConvertSimMore.uw_secs ConvertSimMore.uw_img) ConvertSimMore.uw_f = Ok {| r_off := 4; r_len := 6 |} /\
  Dirs.function_bytes (file_view 0 W32 4194304 4 16 ConvertSimMore.uw_secs ConvertSimMore.uw_img) ConvertSimMore.uw_f = Ok {| r_off := 4; r_len := 4 |} /\
  Dirs.unwind_info (mapped_view 0 W32 4194304 4 16 ConvertSimMore.uw_secs ConvertSimMore.uw_V) ConvertSimMore.uw_f = Ok {| r_off := 8; r_len := 6 |} /\
  unwind_vals (byte_at ConvertSimMore.uw_img) {| r_off := 4; r_len := 6 |} = (1, 0, 0, 1, 0, 0, [5; 6]).
Proof. exact ConvertSimMore.unwind_nonvacuous. Qed.

Example C06_slice_converse_nonvacuous :
  stored_at ConvertSimMore.nl_secs 76 4 = true /\ stored_at ConvertSimMore.nl_secs 86 0 = false /\
  slice (ConvertSimMore.nl_vf 86) 76 4 4 = Ok {| r_off := 64; r_len := 4 |} /\ slice (ConvertSimMore.nl_vv 86) 76 4 4 = Ok {| r_off := 76; r_len := 20 |} /\
  slice (ConvertSimMore.nl_vf 86) 86 0 1 = Err EZeroFill /\ slice (ConvertSimMore.nl_vv 86) 86 0 1 = Ok {| r_off := 86; r_len := 10 |}.
Proof. exact ConvertSimMore.slice_converse_nonvacuous. Qed.
