(* C16 — Rich header decode, checksum and encode are mutually consistent.
   Statements only; every proof is [exact <lemma>]. *)
From PV.Model Require Import Machine Rich.
From PV.Spec Require Import RichSpec.
From PV.Proofs Require RichProofs.

(* encoding and decoding a single record are inverse for every key *)
Theorem C16_decode_encode : forall r k, rec_ok r -> k < W32 ->
  rdecode k (fst (rencode r k)) (snd (rencode r k)) = r.
Proof. exact RichProofs.decode_encode. Qed.
Print Assumptions C16_decode_encode.
Theorem C16_encode_decode : forall k v0 v1, k < W32 -> v0 < W32 -> v1 < W32 ->
  rencode (rdecode k v0 v1) k = (v0, v1).
Proof. exact RichProofs.encode_decode. Qed.
Print Assumptions C16_encode_decode.

(* the checksum fold is the closed formula: 4*|stub| + rotated stub bytes (e_lfanew zeroed) + rotated record values, mod 2^32 *)
Theorem C16_checksum_formula : forall stub recs, Forall rec_ok recs -> checksum_of stub recs = rich_checksum stub recs.
Proof. exact RichProofs.checksum_formula. Qed.
Print Assumptions C16_checksum_formula.

(* Round trip: any stub of at least 16 dwords, any records, any non-zero key, any zero padding, anything after
   e_lfanew; outside the known ambiguity class the decoder returns exactly the records and the key, and when the
   key is the checksum the recomputed checksum equals it. *)
Theorem C16_roundtrip : forall stub recs key pad rest e_lfanew,
  (16 <= length stub)%nat -> Forall rec_ok recs -> key < W32 -> known_class key recs = false ->
  Forall (fun z => z = 0) pad -> nth_error stub 15 = Some e_lfanew ->
  N.to_nat (e_lfanew / 4) = (length stub + (2 * length recs + 6) + length pad)%nat ->
  let image := stub ++ write_words key recs ++ pad ++ rest in
  let se := (length stub, (length stub + (2 * length recs + 6))%nat) in
  try_from image = Ok se /\ records image se = recs /\ xor_key image se = key /\
  (key = rich_checksum stub recs -> checksum image se = key).
Proof. exact RichProofs.roundtrip. Qed.
Print Assumptions C16_roundtrip.

(* re-encoding the decoded records reproduces the words (the key is recomputed as the checksum) *)
Theorem C16_reencode : forall stub recs dest_len, (2 * length recs + 6 <= dest_len)%nat ->
  exists total, encode stub recs dest_len
    = inl (Ok (write_words (checksum_of stub recs) recs ++ repeat 0 (dest_len - (2 * length recs + 6)), total)).
Proof. exact RichProofs.reencode. Qed.
Print Assumptions C16_reencode.

(* An image is accepted only with a well-formed 'DanS^k k k k ... Rich k 0*' trailer in its DOS area *)
Theorem C16_accept_only_well_formed : forall image s e, try_from image = Ok (s, e) ->
  exists e_lfanew, nth_error image 15 = Some e_lfanew /\ (N.to_nat (e_lfanew / 4) <= length image)%nat /\
    well_formed (firstn (N.to_nat (e_lfanew / 4)) image) s e.
Proof. exact RichProofs.try_from_well_formed. Qed.
Print Assumptions C16_accept_only_well_formed.

Theorem C16_well_formedb_sound : forall img s e, well_formedb img s e = true -> well_formed img s e.
Proof. exact RichProofs.well_formedb_sound. Qed.
Print Assumptions C16_well_formedb_sound.

(* totality and termination of the two backward scans *)
Theorem C16_try_from_no_fault : forall image f, try_from image <> Fault f.
Proof. exact RichProofs.try_from_no_fault. Qed.
Print Assumptions C16_try_from_no_fault.

(* F20 (known finding): the class is inhabited and the round trip really fails on it *)
Theorem C16_F20_known_class_witness :
  known_class RichProofs.f20_key RichProofs.f20_recs = true /\
  exists se, try_from RichProofs.f20_image = Ok se /\ length (records RichProofs.f20_image se) = 1%nat /\ length RichProofs.f20_recs = 4%nat.
Proof. exact RichProofs.f20_known_class_witness. Qed.
Print Assumptions C16_F20_known_class_witness.

(* ---- leaf functions regenerated from the source on every run (tools/gen_leaf.py -> gen/Leaf.v): agreement with the hand-written model ---- *)
(* src/rich_structure.rs RichRecord::decode / encode, the record step of the checksum and the length arithmetic of
   RichStructure::encode, regenerated from the source on every run, are the functions of Model/Rich.v / Model/Checked.v.
   Model/Rich.v encode keeps the u32 length of the code as it stood: it is the source's value below 2^29 - 6 records
   and differs from it there (F41, already a stated precondition of the encode theorems) *)
From PV.Model Require Rich Checked.
From PV.gen Require Leaf.
From PV.Proofs Require LeafRich.
Theorem C16_leaf_record_decode : forall key v0 v1, Leaf.L_rich_structure_RichRecord_decode_dom key v0 v1 = true ->
  Leaf.L_rich_structure_RichRecord_decode_ok key v0 v1 = true /\
  Leaf.L_rich_structure_RichRecord_decode key v0 v1 =
    (Rich.r_build (Rich.rdecode key v0 v1), Rich.r_product (Rich.rdecode key v0 v1), Rich.r_count (Rich.rdecode key v0 v1)).
Proof. exact LeafRich.decode_agrees. Qed.
Print Assumptions C16_leaf_record_decode.
Theorem C16_leaf_record_encode : forall b p c key, Leaf.L_rich_structure_RichRecord_encode_dom b p c key = true ->
  Leaf.L_rich_structure_RichRecord_encode_ok b p c key = true /\
  Leaf.L_rich_structure_RichRecord_encode b p c key =
    Rich.rencode {| Rich.r_build := b; Rich.r_product := p; Rich.r_count := c |} key.
Proof. exact LeafRich.encode_agrees. Qed.
Print Assumptions C16_leaf_record_encode.
Theorem C16_leaf_checksum_record_step : forall csum b p c, Leaf.L_rich_structure_checksum__record_step_dom csum b p c = true ->
  Leaf.L_rich_structure_checksum__record_step_ok csum b p c = true /\
  Leaf.L_rich_structure_checksum__record_step csum b p c =
    Rich.rec_step csum {| Rich.r_build := b; Rich.r_product := p; Rich.r_count := c |}.
Proof. exact LeafRich.record_step_agrees. Qed.
Print Assumptions C16_leaf_checksum_record_step.
Theorem C16_leaf_encode_total_len : forall n key, Leaf.L_rich_structure_encode__total_len_dom n key = true ->
  (ts <- Checked.total_size_chk key n ;; Ok (ts / 4)) =
    if Leaf.L_rich_structure_encode__total_len_ok n key then Ok (Leaf.L_rich_structure_encode__total_len n key) else Fault POverflow.
Proof. exact LeafRich.total_len_agrees. Qed.
Print Assumptions C16_leaf_encode_total_len.
Theorem C16_leaf_encode_total_len_u32 : forall n key, (n + 2) * 8 + 32 < W32 ->
  Leaf.L_rich_structure_encode__total_len n key = ((((key / 32) mod 3 + n) * 8 + 32) mod W32) / 4.
Proof. exact LeafRich.total_len_rich_model. Qed.
Print Assumptions C16_leaf_encode_total_len_u32.
Theorem C16_leaf_encode_total_len_u32_differs :
  Leaf.L_rich_structure_encode__total_len_ok 536870906 64 = true /\
  Leaf.L_rich_structure_encode__total_len 536870906 64 = 1073741824 /\
  ((((64 / 32) mod 3 + 536870906) * 8 + 32) mod W32) / 4 = 0.
Proof. exact LeafRich.total_len_rich_model_differs. Qed.
Print Assumptions C16_leaf_encode_total_len_u32_differs.

(* the source places the binders of the generated leaf definitions stand for (third audit, F2) *)
From Coq Require Import List String.
Import ListNotations.
Theorem C16_leaf_reads_rich :
  Leaf.L_rich_structure_RichRecord_decode_args = ["arg1 : u32"%string; "arg2[0] : u32"%string; "arg2[1] : u32"%string] /\
  Leaf.L_rich_structure_RichRecord_encode_args = ["self.build : u16"%string; "self.product : u16"%string; "self.count : u32"%string; "arg1 : u32"%string] /\
  Leaf.L_rich_structure_checksum__record_step_args = ["csum : u32"%string; "record.build : u16"%string; "record.product : u16"%string; "record.count : u32"%string] /\
  Leaf.L_rich_structure_encode__total_len_args = ["n : usize"%string; "xor_key : u32"%string].
Proof. exact LeafRich.leaf_reads_rich. Qed.
Print Assumptions C16_leaf_reads_rich.
