(* CheckedProofs.v - the proof obligations that the first-phase models left unstated: every checked twin of
   Model/Checked.v returns exactly what the existing model returns, hence no plain operator of the mirrored Rust
   function overflows, no index is out of range and no raw reference leaves the buffer or is misaligned - under the
   machine ranges stated with each theorem.  Where an obligation is false the witness is proved ([.._refuted]). *)
From PV.Model Require Import Machine Mapping Views Headers Rich Relocs Checked.
From PV.gen Require Import Layout.
From PV.Spec Require Import SafetySpec.
From PV.Proofs Require Import BaseProofs SafetyProofs.
Ltac Zify.zify_post_hook ::= Z.div_mod_to_equations.

(* ---- the primitives ---- *)
Lemma chk_add_ok w a b : a + b < w -> chk_add w a b = Ok (a + b).
Proof. intros H. unfold chk_add. destruct (a + b <? w) eqn:E; [reflexivity|lia]. Qed.
Lemma chk_sub_ok a b : b <= a -> chk_sub a b = Ok (a - b).
Proof. intros H. unfold chk_sub. destruct (b <=? a) eqn:E; [reflexivity|lia]. Qed.
Lemma chk_mul_ok w a b : a * b < w -> chk_mul w a b = Ok (a * b).
Proof. intros H. unfold chk_mul. destruct (a * b <? w) eqn:E; [reflexivity|lia]. Qed.
Lemma ref_chk_ok addr len off size align :
  off + size <= len -> (addr + off) mod align = 0 -> ref_chk addr len off size align = Ok tt.
Proof.
  intros H1 H2. unfold ref_chk. destruct (len <? off + size) eqn:E; [lia|].
  apply aligned_to_spec in H2. rewrite H2. reflexivity.
Qed.
Lemma range_chk_ok len i j : i <= j -> j <= len -> range_chk len i j = Ok tt.
Proof. intros H1 H2. unfold range_chk. destruct (j <? i) eqn:E; [lia|]. destruct (len <? j) eqn:E2; [lia|reflexivity]. Qed.
Lemma idx_chk_ok {A} (l : list A) i d : (N.to_nat i < length l)%nat -> idx_chk l i = Ok (nth (N.to_nat i) l d).
Proof. intros H. unfold idx_chk. rewrite (nth_error_nth' l d H). reflexivity. Qed.
Lemma mod_add_mul a s n al : 0 < al -> a mod al = 0 -> s mod al = 0 -> (a + n * s) mod al = 0.
Proof.
  intros Hal Ha Hs. assert (Hz : al <> 0) by lia.
  apply N.mod_divide in Ha; [|exact Hz]. apply N.mod_divide in Hs; [|exact Hz]. apply N.mod_divide; [exact Hz|].
  apply N.divide_add_r; [exact Ha|]. apply N.divide_mul_r. exact Hs.
Qed.

(* =====================================================================================================
   address translation: no hypothesis at all - the guards that precede each operator suffice
   ===================================================================================================== *)
Theorem rva_to_file_offset_secs_chk_eq secs rva :
  rva_to_file_offset_secs_chk secs rva = rva_to_file_offset_secs secs rva.
Proof.
  induction secs as [|it rest IH]; cbn [rva_to_file_offset_secs_chk rva_to_file_offset_secs]; [reflexivity|].
  destruct ((s_va it <=? rva) && (rva <? wadd32 (s_va it) (N.max (s_vs it) (s_srd it)))) eqn:E; [|exact IH].
  unfold checked_add. destruct (s_prd it + s_srd it <? W32) eqn:C; [|reflexivity].
  rewrite chk_sub_ok by lia. cbn [bind].
  destruct (rva - s_va it <? s_srd it) eqn:E1; [|reflexivity].
  apply chk_add_ok. lia.
Qed.
Theorem rva_to_file_offset_chk_eq soh secs rva : rva_to_file_offset_chk soh secs rva = rva_to_file_offset soh secs rva.
Proof. unfold rva_to_file_offset_chk, rva_to_file_offset. rewrite rva_to_file_offset_secs_chk_eq. reflexivity. Qed.

Theorem file_offset_to_rva_secs_chk_eq secs fo :
  file_offset_to_rva_secs_chk secs fo = file_offset_to_rva_secs secs fo.
Proof.
  induction secs as [|it rest IH]; cbn [file_offset_to_rva_secs_chk file_offset_to_rva_secs]; [reflexivity|].
  destruct ((s_prd it <=? fo) && (fo <? wadd32 (s_prd it) (s_srd it))) eqn:E; [|exact IH].
  unfold checked_add. destruct (s_va it + s_vs it <? W32) eqn:C; [|reflexivity].
  assert (Hfo : fo < W32) by (unfold wadd32, W32 in *; lia).
  rewrite chk_sub_ok by (rewrite N.mod_small by exact Hfo; lia). cbn [bind].
  destruct (fo mod W32 - s_prd it <? s_vs it) eqn:E1; [|reflexivity].
  apply chk_add_ok. lia.
Qed.
Theorem file_offset_to_rva_chk_eq soh secs fo : file_offset_to_rva_chk soh secs fo = file_offset_to_rva soh secs fo.
Proof. unfold file_offset_to_rva_chk, file_offset_to_rva. rewrite file_offset_to_rva_secs_chk_eq. reflexivity. Qed.

Theorem range_file_chk_eq len secs rva min_size : range_file_chk len secs rva min_size = range_file len secs rva min_size.
Proof.
  induction secs as [|it rest IH]; cbn [range_file_chk range_file]; [reflexivity|].
  destruct ((s_va it <=? rva) && (rva <? wadd32 (s_va it) (N.max (s_vs it) (s_srd it)))) eqn:E; [|exact IH].
  destruct (get_range len (s_prd it) (wadd32 (s_prd it) (s_srd it))) as [sb|]; [|reflexivity].
  rewrite chk_sub_ok by lia. cbn [bind].
  rewrite (chk_sub_ok (wadd32 (s_va it) (N.max (s_vs it) (s_srd it))) rva) by lia. cbn [bind].
  reflexivity.
Qed.

Theorem slice_file_chk_eq base len secs rva min_size align :
  slice_file_chk base len secs rva min_size align = slice_file base len secs rva min_size align.
Proof. unfold slice_file_chk, slice_file. rewrite range_file_chk_eq. reflexivity. Qed.
Theorem read_file_chk_eq v va min_size align : read_file_chk v va min_size align = read_file v va min_size align.
Proof.
  unfold read_file_chk, read_file. destruct (va =? 0); [reflexivity|].
  destruct (va <? v_base v) eqn:E; cbn [orb]; [reflexivity|].
  rewrite chk_sub_ok by lia. cbn [bind]. rewrite range_file_chk_eq. reflexivity.
Qed.
Theorem read_section_chk_eq v va min_size align : read_section_chk v va min_size align = read_section v va min_size align.
Proof.
  unfold read_section_chk, read_section. destruct (va =? 0); [reflexivity|].
  destruct (va <? v_base v) eqn:E; cbn [orb]; [reflexivity|].
  rewrite chk_sub_ok by lia. cbn [bind]. reflexivity.
Qed.
Theorem slice_chk_eq v rva min_size align : slice_chk v rva min_size align = slice v rva min_size align.
Proof. unfold slice_chk, slice. rewrite slice_file_chk_eq. reflexivity. Qed.
Theorem read_chk_eq v va min_size align : read_chk v va min_size align = read v va min_size align.
Proof. unfold read_chk, read. rewrite read_file_chk_eq, read_section_chk_eq. reflexivity. Qed.
Theorem va_to_rva_chk_eq v va : va_to_rva_chk v va = va_to_rva v va.
Proof.
  unfold va_to_rva_chk, va_to_rva. destruct (va =? 0); [reflexivity|].
  destruct (va <? v_base v) eqn:E; cbn [orb]; [reflexivity|].
  rewrite chk_sub_ok by lia. cbn [bind]. reflexivity.
Qed.

(* =====================================================================================================
   typed reads: over any slicing function that keeps the promise of slice/read (SafetySpec.slice_safe)
   ===================================================================================================== *)
Lemma scan_f_bound' get fuel p off blen size n k : scan_f get fuel p off blen size n = Ok k -> k * size + size <= blen /\ n <= k.
Proof.
  revert n. induction fuel as [|fuel IH]; intros n; cbn [scan_f]; [discriminate|].
  destruct (blen <? n * size + size) eqn:E; [discriminate|].
  destruct (p (le_value get (off + n * size) (N.to_nat size))).
  - intros H; injection H as <-. lia.
  - intros H. apply IH in H. lia.
Qed.
Lemma find_nul_bound' get off n i : find_nul get off n = Some i -> i < N.of_nat n.
Proof.
  revert off i. induction n as [|n IH]; intros off i; cbn [find_nul]; [discriminate|].
  destruct (get off =? 0); [intros H; injection H as <-; lia|].
  destruct (find_nul get (off + 1) n) as [j|] eqn:E; [|discriminate]. intros H; injection H as <-. apply IH in E. lia.
Qed.

Section TypedChkProofs.
  Variable get : N -> N.
  Variable sl : N -> N -> N -> res region.
  Variable addr len : N.
  Hypothesis sl_safe : forall a m al r, sl a m al = Ok r -> slice_safe addr len m al r.

  Lemma rd_chk_eq a size align : rd_chk sl addr a size align = rd sl a size align.
  Proof.
    unfold rd_chk, rd. destruct (sl a size align) as [r| |] eqn:E; cbn [bind]; try reflexivity.
    apply sl_safe in E. destruct E as [_ [Hm Ha]].
    rewrite ref_chk_ok; [reflexivity|lia|rewrite N.add_0_r; exact Ha].
  Qed.
  Lemma rd_copy_chk_eq a size : rd_copy_chk sl addr a size = rd_copy sl a size.
  Proof.
    unfold rd_copy_chk, rd_copy. destruct (sl a size 1) as [r| |] eqn:E; cbn [bind]; try reflexivity.
    apply sl_safe in E. destruct E as [_ [Hm Ha]].
    rewrite ref_chk_ok; [reflexivity|lia|rewrite N.add_0_r; exact Ha].
  Qed.
  Lemma rd_into_chk_eq a size : rd_into_chk sl a size = rd_copy sl a size.
  Proof.
    unfold rd_into_chk, rd_copy. destruct (sl a size 1) as [r| |] eqn:E; cbn [bind]; try reflexivity.
    apply sl_safe in E. destruct E as [_ [Hm Ha]].
    rewrite range_chk_ok; [reflexivity|lia|lia].
  Qed.
  Lemma rd_slice_chk_eq a size align n : rd_slice_chk sl addr a size align n = rd_slice sl a size align n.
  Proof.
    unfold rd_slice_chk, rd_slice. destruct (checked_mul W64 size n) as [m|]; [|reflexivity].
    destruct (sl a m align) as [r| |] eqn:E; cbn [bind]; try reflexivity.
    apply sl_safe in E. destruct E as [_ [Hm Ha]].
    rewrite ref_chk_ok; [reflexivity|lia|rewrite N.add_0_r; exact Ha].
  Qed.

  (* the loop of derva_slice_f: [n * size <= blen] is the invariant that keeps the two products and sums in range.
     [blen + size < 2^64] is what the source comment calls "would be ridiculous": a byte slice has at most
     isize::MAX bytes and so has a Rust type *)
  Lemma scan_f_chk_eq p off blen size align : 0 < size -> 0 < align -> size mod align = 0 -> (addr + off) mod align = 0 ->
    blen + size < W64 ->
    forall fuel n, n * size <= blen ->
    scan_f_chk get addr fuel p off blen size align n = scan_f get fuel p off blen size n.
  Proof.
    intros Hs Hal Hsa Ha Hb. induction fuel as [|fuel IH]; intros n Hn; cbn [scan_f_chk scan_f]; [reflexivity|].
    rewrite chk_mul_ok by lia. cbn [bind]. rewrite chk_add_ok by lia. cbn [bind].
    destruct (blen <? n * size + size) eqn:E; [reflexivity|].
    rewrite ref_chk_ok; [|lia|].
    2:{ rewrite <- N.add_assoc. replace (off + n * size) with (off + n * size) by reflexivity.
        rewrite N.add_assoc. apply mod_add_mul; assumption. }
    cbn [bind]. destruct (p (le_value get (off + n * size) (N.to_nat size))); [reflexivity|].
    assert (Hn1 : (n + 1) * size <= blen) by lia.
    rewrite chk_add_ok by nia. cbn [bind]. apply IH. exact Hn1.
  Qed.

  Lemma rd_slice_f_chk_eq a size align p : 0 < size -> 0 < align -> size mod align = 0 -> len + size < W64 ->
    rd_slice_f_chk get sl addr a size align p = rd_slice_f get sl a size align p.
  Proof.
    intros Hs Hal Hsa Hl. unfold rd_slice_f_chk, rd_slice_f.
    destruct (sl a 0 align) as [r| |] eqn:E; cbn [bind]; try reflexivity.
    apply sl_safe in E. destruct E as [Hin [_ Ha]]. unfold region_in in Hin.
    rewrite scan_f_chk_eq; [|assumption|assumption|assumption|exact Ha|lia|lia].
    destruct (scan_f get (S (N.to_nat (r_len r / size))) p (r_off r) (r_len r) size 0) as [k| |] eqn:Es; cbn [bind]; try reflexivity.
    apply scan_f_bound' in Es.
    rewrite ref_chk_ok; [reflexivity|lia|rewrite N.add_0_r; exact Ha].
  Qed.

  Lemma rd_c_str_chk_eq a : len < W64 -> rd_c_str_chk get sl addr a = rd_c_str get sl a.
  Proof.
    intros Hl. unfold rd_c_str_chk, rd_c_str. destruct (sl a 0 1) as [r| |] eqn:E; cbn [bind]; try reflexivity.
    apply sl_safe in E. destruct E as [Hin _]. unfold region_in in Hin.
    destruct (find_nul get (r_off r) (N.to_nat (r_len r))) as [i|] eqn:Ef; [|reflexivity].
    apply find_nul_bound' in Ef. rewrite N2Nat.id in Ef.
    rewrite chk_add_ok by lia. cbn [bind].
    rewrite ref_chk_ok; [reflexivity|lia|]. apply N.mod_1_r.
  Qed.
  (* the string without its NUL: [len - 1] on a value rd_c_str returned *)
  Lemma cstr_len_chk_eq a q : rd_c_str get sl a = Ok q -> cstr_len_chk addr q = Ok (r_len q - 1).
  Proof.
    unfold rd_c_str. destruct (sl a 0 1) as [r| |] eqn:E; cbn [bind]; try discriminate.
    destruct (find_nul get (r_off r) (N.to_nat (r_len r))) as [i|] eqn:Ef; [|discriminate].
    intros H; injection H as <-. unfold cstr_len_chk. cbn [r_len r_off].
    rewrite chk_sub_ok by lia. cbn [bind]. rewrite ref_chk_ok; [reflexivity|lia|]. apply N.mod_1_r.
  Qed.
End TypedChkProofs.

(* the two read paths of a view keep the promise (SafetyProofs), so the twins agree on every view *)
Theorem view_typed_chk_eq v byva : placed (v_addr v) (v_len v) ->
  (forall a size align, rd_chk (sl_of v byva) (v_addr v) a size align = rd (sl_of v byva) a size align) /\
  (forall a size, rd_copy_chk (sl_of v byva) (v_addr v) a size = rd_copy (sl_of v byva) a size) /\
  (forall a size, rd_into_chk (sl_of v byva) a size = rd_copy (sl_of v byva) a size) /\
  (forall a size align n, rd_slice_chk (sl_of v byva) (v_addr v) a size align n = rd_slice (sl_of v byva) a size align n) /\
  (forall a size align p, 0 < size -> 0 < align -> size mod align = 0 -> v_len v + size < W64 ->
     rd_slice_f_chk (v_get v) (sl_of v byva) (v_addr v) a size align p = rd_slice_f (v_get v) (sl_of v byva) a size align p) /\
  (forall a, rd_c_str_chk (v_get v) (sl_of v byva) (v_addr v) a = rd_c_str (v_get v) (sl_of v byva) a) /\
  (forall a q, rd_c_str (v_get v) (sl_of v byva) a = Ok q -> cstr_len_chk (v_addr v) q = Ok (r_len q - 1)).
Proof.
  intros Hp.
  assert (Hs : forall a m al r, sl_of v byva a m al = Ok r -> slice_safe (v_addr v) (v_len v) m al r).
  { intros a m al r. destruct byva; cbn [sl_of]; [apply read_safe_view|apply slice_safe_view]; exact Hp. }
  split; [|split; [|split; [|split; [|split; [|split]]]]].
  - intros. exact (rd_chk_eq (v_get v) _ _ _ Hs _ _ _).
  - intros. exact (rd_copy_chk_eq (v_get v) _ _ _ Hs _ _).
  - intros. exact (rd_into_chk_eq (v_get v) _ _ _ Hs _ _).
  - intros. exact (rd_slice_chk_eq (v_get v) _ _ _ Hs _ _ _ _).
  - intros. apply (rd_slice_f_chk_eq _ _ _ _ Hs); assumption.
  - intros. apply (rd_c_str_chk_eq _ _ _ _ Hs). unfold placed in Hp. lia.
  - intros a q H. exact (cstr_len_chk_eq _ _ _ _ Hs _ _ H).
Qed.

(* =====================================================================================================
   header validation: every sum and product of validate_headers is in range once e_lfanew <= 2^24 is known, and
   the two casts (DOS header at 0, NT headers at e_lfanew) are inside the buffer and 4-aligned
   ===================================================================================================== *)
Lemma rd16_lt m o : mem_ok m -> rd16 m o < 65536.
Proof. intros H. unfold rd16. pose proof (H o). pose proof (H (o + 1)). lia. Qed.

Theorem validate_chk_eq f m : f = fmt32 \/ f = fmt64 -> mem_ok m -> validate_chk f m = validate f m.
Proof.
  intros Hf Hm. unfold validate_chk, validate.
  assert (Hnt : f_nt_size f <= 136 /\ f_opt_size f <= f_nt_size f /\ f_nt_align f = 4).
  { destruct Hf; subst f; vm_compute; repeat split; discriminate. }
  destruct Hnt as [Hnt [Hopt Hal]].
  assert (Hosz : h_optsz f m < 65536) by (apply rd16_lt; exact Hm).
  unfold IMAGE_DOS_HEADER_size, IMAGE_DOS_HEADER_align, IMAGE_DATA_DIRECTORY_size, IMAGE_NUMBEROF_DIRECTORY_ENTRIES,
    IMAGE_SECTION_HEADER_size in *.
  destruct (m_len m <? 64) eqn:E1; [reflexivity|].
  destruct (aligned_to 4 (m_addr m)) eqn:E2; cbn [negb]; [|reflexivity].
  apply aligned_to_spec in E2.
  rewrite ref_chk_ok; [|lia|rewrite N.add_0_r; exact E2]. cbn [bind].
  destruct (rd16 m IMAGE_DOS_HEADER_e_magic_off =? IMAGE_DOS_SIGNATURE); cbn [negb]; [|reflexivity].
  destruct (aligned_to 4 (e_lfanew m)) eqn:E3; cbn [negb]; [|reflexivity].
  apply aligned_to_spec in E3.
  destruct (16777216 <? e_lfanew m) eqn:E4; [reflexivity|].
  rewrite chk_add_ok by (unfold W64; lia). cbn [bind].
  destruct (m_len m <? e_lfanew m + f_nt_size f) eqn:E5; [reflexivity|].
  rewrite ref_chk_ok; [|lia|rewrite Hal; lia]. cbn [bind].
  match goal with |- context [if ?c then Err EBadMagic else _] => destruct c end; [reflexivity|].
  destruct (m_len m <? h_soh f m); [reflexivity|].
  destruct (h_soi f m <? h_soh f m); [reflexivity|].
  destruct (h_magic f m =? f_magic f); cbn [negb]; [|reflexivity].
  rewrite chk_mul_ok by (unfold W64; lia). cbn [bind].
  rewrite chk_add_ok by (unfold W64; lia). cbn [bind].
  destruct (m_len m <? e_lfanew m + f_nt_size f + N.min (h_nrva f m) 16 * 8); [reflexivity|].
  destruct (96 <? h_nsec f m) eqn:E6; [reflexivity|].
  rewrite chk_mul_ok by (unfold W64; lia). cbn [bind].
  rewrite chk_sub_ok by exact Hopt. cbn [bind].
  rewrite chk_add_ok by (unfold W64; lia). cbn [bind].
  rewrite chk_add_ok by (unfold W64; lia). cbn [bind].
  rewrite chk_add_ok by (unfold W64; lia). cbn [bind].
  reflexivity.
Qed.

(* the wrapper: Headers.v:157 turns anything but Ok of the PE32 retry into Err Bounds; the twin lets a Fault through.
   They agree because the retry never faults *)
Theorem wrap_from_bytes_chk_eq m : mem_ok m -> wrap_from_bytes_chk m = wrap_from_bytes m.
Proof.
  intros Hm. unfold wrap_from_bytes_chk, wrap_from_bytes.
  rewrite !validate_chk_eq by (auto; exact Hm).
  pose proof (validate_no_fault fmt32 m) as H32.
  destruct (validate fmt64 m) as [x|e|h]; [reflexivity| |reflexivity].
  destruct e; try reflexivity.
  destruct (validate fmt32 m) as [y|e2|h2]; try reflexivity. exfalso; exact (H32 h2 eq_refl).
Qed.

(* =====================================================================================================
   Rich structure
   ===================================================================================================== *)
From PV.Spec Require Import RichSpec.
From PV.Proofs Require Import RichProofs.

Lemma nsub_ok a b : (b <= a)%nat -> nsub a b = Ok (a - b)%nat.
Proof. intros H. unfold nsub. destruct (Nat.leb b a) eqn:E; [reflexivity|]. apply Nat.leb_gt in E. lia. Qed.
Lemma nadd_ok a b : N.of_nat (a + b) < W64 -> nadd a b = Ok (a + b)%nat.
Proof. intros H. unfold nadd. destruct (N.of_nat (a + b) <? W64) eqn:E; [reflexivity|lia]. Qed.
Lemma nidx_ok l i : (i < length l)%nat -> nidx l i = Ok (dw l i).
Proof. intros H. unfold nidx, dw. rewrite (nth_error_nth' l 0 H). reflexivity. Qed.
Lemma dw_firstn (l : list N) : forall k i, (i < k)%nat -> dw (firstn k l) i = dw l i.
Proof.
  unfold dw. induction l as [|x l IH]; intros k i H; [rewrite firstn_nil; reflexivity|].
  destruct k as [|k]; [lia|]. cbn [firstn]. destruct i as [|i]; [reflexivity|]. cbn [nth]. apply IH. lia.
Qed.

Lemma skip_zeros_chk_eq img : forall e, (e <= length img)%nat -> skip_zeros_chk img e = skip_zeros img e.
Proof.
  induction e as [|e IH]; intros He; cbn [skip_zeros_chk skip_zeros].
  - reflexivity.
  - destruct (Nat.ltb (S e) 16); [reflexivity|]. rewrite nidx_ok by lia. cbn [bind].
    destruct (dw img e =? 0); [apply IH; lia|reflexivity].
Qed.

Lemma header_at_chk_eq img x s : (s + 3 < length img)%nat -> lenN img < W64 ->
  header_at_chk img x s = Ok (header_at img x s).
Proof.
  intros Hs Hl. unfold lenN in Hl. unfold header_at_chk, header_at.
  rewrite nidx_ok by lia. cbn [bind]. destruct (dw img s =? N.lxor DANS x); cbn [negb andb]; [|reflexivity].
  rewrite nadd_ok by lia. cbn [bind]. rewrite nidx_ok by lia. cbn [bind].
  destruct (dw img (s + 1) =? x); cbn [negb andb]; [|reflexivity].
  rewrite nadd_ok by lia. cbn [bind]. rewrite nidx_ok by lia. cbn [bind].
  destruct (dw img (s + 2) =? x); cbn [negb andb]; [|reflexivity].
  rewrite nadd_ok by lia. cbn [bind]. rewrite nidx_ok by lia. cbn [bind]. reflexivity.
Qed.

Lemma find_start_chk_eq img x : lenN img < W64 -> forall fuel s, (s + 3 < length img)%nat ->
  find_start_chk fuel img x s = find_start fuel img x s.
Proof.
  intros Hl. induction fuel as [|fuel IH]; intros s Hs; cbn [find_start_chk find_start]; [reflexivity|].
  destruct (Nat.ltb s 16) eqn:E; [reflexivity|]. apply Nat.ltb_ge in E.
  rewrite header_at_chk_eq by assumption. cbn [bind].
  destruct (header_at img x s); [reflexivity|]. rewrite nsub_ok by lia. cbn [bind]. apply IH. lia.
Qed.

(* try_from: seven indexings, three subtractions, two re-slicings - all inside, because [end >= 16] and
   [16 <= start <= end - 6] are established before them.  In particular a small e_lfanew (accepted by
   from_bytes from 0x10 up) ends at [end < 16] before anything is indexed. *)
Theorem try_from_chk_eq image : lenN image < W64 -> try_from_chk image = try_from image.
Proof.
  intros Hl. unfold try_from_chk, try_from. destruct (nth_error image 15) as [e_lfanew|]; [|reflexivity].
  set (n := N.to_nat (e_lfanew / 4)). destruct (Nat.ltb (length image) n) eqn:El; [reflexivity|]. apply Nat.ltb_ge in El.
  set (img := firstn n image).
  assert (Hlen : length img = n) by (unfold img; rewrite firstn_length; lia).
  assert (Hli : lenN img < W64) by (unfold lenN in *; lia).
  rewrite Hlen. rewrite skip_zeros_chk_eq by lia.
  destruct (skip_zeros img n) as [e| |f0] eqn:Es; cbn [bind]; try reflexivity.
  apply skip_zeros_spec in Es. destruct Es as [He _].
  rewrite nsub_ok by lia. cbn [bind]. rewrite nidx_ok by lia. cbn [bind].
  destruct (negb (dw img (e - 2) =? RICH)); [reflexivity|].
  rewrite nsub_ok by lia. cbn [bind]. rewrite nidx_ok by lia. cbn [bind].
  rewrite nsub_ok by lia. cbn [bind].
  rewrite find_start_chk_eq by (try assumption; lia).
  destruct (find_start e img (dw img (e - 1)) (e - 6)) as [s| |f1] eqn:Ef; cbn [bind]; try reflexivity.
  apply find_start_spec in Ef. destruct Ef as [Hs _].
  unfold lenN. rewrite Hlen.
  rewrite range_chk_ok by lia. cbn [bind]. rewrite range_chk_ok by lia. cbn [bind]. reflexivity.
Qed.

(* the accessors of an accepted structure: self.image = image[start..end] has at least 6 dwords *)
Lemma try_from_bounds image s e : try_from image = Ok (s, e) -> (16 <= s)%nat /\ (s + 6 <= e)%nat /\ (e <= length image)%nat /\
  forall d, nth_error image 15 = Some d -> (e <= N.to_nat (d / 4))%nat.
Proof.
  intros H. apply try_from_well_formed in H. destruct H as [d [Hd [Hn Hw]]].
  unfold well_formed in Hw. destruct Hw as [H1 [H2 [H3 _]]]. rewrite firstn_length in H3.
  split; [exact H1|]. split; [exact H2|]. split; [lia|]. intros d' Hd'. rewrite Hd in Hd'. injection Hd' as <-. lia.
Qed.

Lemma xor_key_chk_eq image s e : (s + 6 <= e)%nat -> (e <= length image)%nat ->
  xor_key_chk image (s, e) = Ok (xor_key image (s, e)).
Proof.
  intros H1 H2. unfold xor_key_chk, xor_key. cbn [fst snd].
  rewrite nidx_ok by (rewrite firstn_length, skipn_length; lia).
  rewrite dw_firstn by lia. rewrite dw_skipn. reflexivity.
Qed.
Lemma body_chk_eq image s e : (s + 6 <= e)%nat -> (e <= length image)%nat -> lenN image < W64 ->
  body_chk image (s, e) = Ok (body image (s, e)).
Proof.
  intros H1 H2 Hl. unfold body_chk, body. cbn [fst snd].
  assert (Hlen : length (firstn (e - s) (skipn s image)) = (e - s)%nat) by (rewrite firstn_length, skipn_length; lia).
  rewrite Hlen. rewrite nsub_ok by lia. cbn [bind].
  unfold lenN. rewrite Hlen. rewrite range_chk_ok by lia. cbn [bind].
  rewrite skipn_firstn_comm, firstn_firstn, skipn_skipn_nat.
  replace (Nat.min (e - s - 2 - 4) (e - s - 4)) with (e - s - 6)%nat by lia. reflexivity.
Qed.
Lemma records_chk_eq image s e : (s + 6 <= e)%nat -> (e <= length image)%nat -> lenN image < W64 ->
  records_chk image (s, e) = Ok (records image (s, e)).
Proof.
  intros H1 H2 Hl. unfold records_chk, records. rewrite xor_key_chk_eq by assumption. cbn [bind].
  rewrite body_chk_eq by assumption. cbn [bind]. reflexivity.
Qed.

(* _checksum: the rotate amount [i] ends at 4 * |dos_stub|, which must stay below 2^32 *)
Lemma stub_fold_chk stub : forall c i, i + 4 * lenN stub < W32 ->
  fold_left stub_step_chk stub (Ok (c, i)) = Ok (fold_left stub_step stub (c, i)).
Proof.
  induction stub as [|d stub IH]; intros c i H; cbn [fold_left]; [reflexivity|].
  rewrite lenN_cons in H.
  assert (E : stub_step_chk (Ok (c, i)) d = Ok (stub_step (c, i) d)).
  { unfold stub_step_chk, stub_step. cbn [bind].
    rewrite !chk_add_ok by lia. cbn [bind]. reflexivity. }
  rewrite E. unfold stub_step at 2. apply IH. lia.
Qed.
Theorem checksum_of_chk_eq stub recs : 4 * lenN stub < W32 -> checksum_of_chk stub recs = Ok (checksum_of stub recs).
Proof.
  intros H. unfold checksum_of_chk, checksum_of. rewrite stub_fold_chk by lia. cbn [bind]. reflexivity.
Qed.
(* on an accepted structure the stub is shorter than e_lfanew / 4 < 2^30 dwords *)
Theorem checksum_chk_eq image se : Forall (fun d => d < W32) image -> lenN image < W64 -> try_from image = Ok se ->
  checksum_chk image se = Ok (checksum image se).
Proof.
  intros Hd Hl H. destruct se as [s e]. apply try_from_bounds in H. destruct H as [H1 [H2 [H3 H4]]].
  unfold checksum_chk, checksum. cbn [fst]. unfold lenN. rewrite range_chk_ok by lia. cbn [bind].
  rewrite records_chk_eq by assumption. cbn [bind]. apply checksum_of_chk_eq.
  destruct (nth_error image 15) as [d|] eqn:E15.
  - specialize (H4 d eq_refl). apply nth_error_In in E15. rewrite Forall_forall in Hd. apply Hd in E15.
    unfold lenN. rewrite firstn_length. unfold W32 in *. lia.
  - apply nth_error_None in E15. lia.
Qed.

(* encode *)
Lemma enc_writes_chk_ok dest_len : forall recs i, 2 * (i + lenN recs) + 4 <= dest_len -> dest_len < W64 ->
  enc_writes_chk dest_len i recs = Ok tt.
Proof.
  induction recs as [|r recs IH]; intros i H Hd; cbn [enc_writes_chk]; [reflexivity|].
  rewrite lenN_cons in H.
  rewrite chk_mul_ok by lia. cbn [bind]. rewrite chk_add_ok by lia. cbn [bind].
  destruct (i * 2 + 4 <? dest_len) eqn:E1; [|lia]. cbn [bind].
  rewrite chk_add_ok by lia. cbn [bind].
  destruct (i * 2 + 5 <? dest_len) eqn:E2; [|lia]. cbn [bind]. apply IH; lia.
Qed.

Definition lift_encode (r : res (list N * N) + N) : res ((list N * N) + N) :=
  match r with inl (Ok x) => Ok (inl x) | inl (Err e) => Err e | inl (Fault f) => Fault f | inr t => Ok (inr t) end.

Lemma total_size_orig_chk_ok key n : (n + 2) * 8 + 32 < W32 ->
  total_size_orig_chk key n = Ok ((((key / 32) mod 3 + n) * 8 + 32) mod W32).
Proof.
  intros H. unfold total_size_orig_chk. unfold W32 in *.
  rewrite (N.mod_small n) by lia.
  rewrite chk_add_ok by lia. cbn [bind]. rewrite chk_mul_ok by lia. cbn [bind]. rewrite chk_add_ok by lia.
  rewrite (N.mod_small (_ * 8 + 32)) by lia. reflexivity.
Qed.
Lemma total_size_chk_ok key n : (n + 2) * 8 + 32 < W32 ->
  total_size_chk key n = Ok ((((key / 32) mod 3 + n) * 8 + 32) mod W32).
Proof.
  intros H. unfold total_size_chk. unfold W32, W64 in *.
  rewrite chk_add_ok by lia. cbn [bind]. rewrite chk_mul_ok by lia. cbn [bind]. rewrite chk_add_ok by lia.
  rewrite (N.mod_small (_ * 8 + 32)) by lia. reflexivity.
Qed.

Lemma encode_gen_chk_eq ts stub recs dest_len : 4 * lenN stub < W32 -> N.of_nat dest_len < W64 ->
  ts (checksum_of stub recs) (lenN recs) = Ok ((((checksum_of stub recs / 32) mod 3 + lenN recs) * 8 + 32) mod W32) ->
  2 * lenN recs + 6 < W64 ->
  encode_gen_chk ts stub recs dest_len = lift_encode (encode stub recs dest_len).
Proof.
  intros Hs Hd Hts Hn. unfold encode_gen_chk, encode. rewrite checksum_of_chk_eq by exact Hs. cbn [bind].
  fold (lenN recs). rewrite Hts. cbn [bind]. unfold lenN in *.
  rewrite chk_mul_ok by lia. cbn [bind]. rewrite chk_add_ok by lia. cbn [bind].
  destruct (Nat.ltb dest_len (length recs * 2 + 6)) eqn:E.
  - apply Nat.ltb_lt in E. destruct (N.of_nat dest_len <? N.of_nat (length recs) * 2 + 6) eqn:E2; [|lia]. reflexivity.
  - apply Nat.ltb_ge in E. destruct (N.of_nat dest_len <? N.of_nat (length recs) * 2 + 6) eqn:E2; [lia|].
    destruct (3 <? N.of_nat dest_len) eqn:E3; [|lia]. cbn [bind].
    rewrite enc_writes_chk_ok by (unfold lenN; lia). cbn [bind].
    rewrite chk_add_ok by lia. cbn [bind].
    destruct (N.of_nat (length recs) * 2 + 4 <? N.of_nat dest_len) eqn:E4; [|lia]. cbn [bind].
    rewrite chk_add_ok by lia. cbn [bind].
    destruct (N.of_nat (length recs) * 2 + 5 <? N.of_nat dest_len) eqn:E5; [|lia]. cbn [bind].
    reflexivity.
Qed.
(* below 2^29 - 6 records both the code as it stood and the repaired code are the model *)
Theorem encode_chk_eq stub recs dest_len : 4 * lenN stub < W32 -> N.of_nat dest_len < W64 -> (lenN recs + 2) * 8 + 32 < W32 ->
  encode_chk stub recs dest_len = lift_encode (encode stub recs dest_len) /\
  encode_orig_chk stub recs dest_len = lift_encode (encode stub recs dest_len).
Proof.
  intros Hs Hd Hn. split; apply encode_gen_chk_eq; try assumption; try (unfold W32, W64 in *; lia).
  - apply total_size_chk_ok. exact Hn.
  - apply total_size_orig_chk_ok. exact Hn.
Qed.
(* the obligation is FALSE of the code as it stood: from 2^29 - 4 records on, [(.. + n as u32) * 8 + 0x20] leaves u32 *)
Lemma total_size_orig_refuted key n : 536870908 <= n -> n < W32 -> total_size_orig_chk key n = Fault POverflow.
Proof.
  intros H1 H2. unfold total_size_orig_chk. unfold W32 in *. rewrite (N.mod_small n) by lia.
  unfold chk_add at 1. destruct ((key / 32) mod 3 + n <? 4294967296) eqn:E1; [|reflexivity]. cbn [bind].
  unfold chk_mul. destruct (((key / 32) mod 3 + n) * 8 <? 4294967296) eqn:E2; [|reflexivity]. cbn [bind].
  unfold chk_add. destruct (((key / 32) mod 3 + n) * 8 + 32 <? 4294967296) eqn:E3; [lia|reflexivity].
Qed.
Theorem encode_orig_refuted stub recs dest_len : 4 * lenN stub < W32 -> 536870908 <= lenN recs -> lenN recs < W32 ->
  encode_orig_chk stub recs dest_len = Fault POverflow.
Proof.
  intros Hs H1 H2. unfold encode_orig_chk, encode_gen_chk. rewrite checksum_of_chk_eq by exact Hs. cbn [bind].
  fold (lenN recs). rewrite total_size_orig_refuted by assumption. reflexivity.
Qed.
(* the repaired code has no such limit: the size is computed in usize *)
Theorem encode_chk_total stub recs dest_len : 4 * lenN stub < W32 -> N.of_nat dest_len < W64 -> lenN recs < 2 ^ 60 ->
  exists r, encode_chk stub recs dest_len = Ok r.
Proof.
  intros Hs Hd Hn. assert (Hn' : lenN recs < 1152921504606846976) by exact Hn. clear Hn.
  unfold encode_chk, encode_gen_chk. rewrite checksum_of_chk_eq by exact Hs. cbn [bind].
  fold (lenN recs). unfold total_size_chk. unfold W64 in *.
  rewrite chk_add_ok by lia. cbn [bind]. rewrite chk_mul_ok by lia. cbn [bind]. rewrite chk_add_ok by lia. cbn [bind].
  rewrite chk_mul_ok by lia. cbn [bind]. rewrite chk_add_ok by lia. cbn [bind].
  destruct (N.of_nat dest_len <? lenN recs * 2 + 6) eqn:E2; [eexists; reflexivity|].
  destruct (3 <? N.of_nat dest_len) eqn:E3; [|lia]. cbn [bind].
  rewrite enc_writes_chk_ok by (unfold W64; lia). cbn [bind].
  rewrite chk_add_ok by lia. cbn [bind].
  destruct (lenN recs * 2 + 4 <? N.of_nat dest_len) eqn:E4; [|lia]. cbn [bind].
  rewrite chk_add_ok by lia. cbn [bind].
  destruct (lenN recs * 2 + 5 <? N.of_nat dest_len) eqn:E5; [|lia]. cbn [bind].
  eexists; reflexivity.
Qed.

(* =====================================================================================================
   base relocations: the raw references of IterBlocks::peek
   ===================================================================================================== *)
From PV.Proofs Require Import RelocsProofs.

Lemma peek_chk_eq addr off data : addr mod 4 = 0 \/ lenN data < 8 -> peek_chk addr off data = Ok (peek off data).
Proof.
  intros H. unfold peek_chk, peek, IMAGE_BASE_RELOCATION_size, IMAGE_BASE_RELOCATION_align.
  destruct (8 <=? lenN data) eqn:E; [|reflexivity]. destruct H as [H|H]; [|lia].
  rewrite ref_chk_ok; [|lia|rewrite N.add_0_r; exact H]. cbn [bind].
  rewrite ref_chk_ok; [reflexivity|lia|lia].
Qed.

Lemma advance_inv s rem : rem + 3 < W64 -> advance s rem <= rem /\ (advance s rem mod 4 = 0 \/ advance s rem = rem).
Proof. intros H. unfold advance. rewrite align_to_4 by lia. lia. Qed.

(* the invariant: the current slice starts at a multiple of 4, or is too short to hold another header *)
Lemma iter_blocks_chk_eq base : forall fuel off data, lenN data + 3 < W64 -> (base + off) mod 4 = 0 \/ lenN data < 8 ->
  iter_blocks_chk fuel base off data = iter_blocks fuel off data.
Proof.
  induction fuel as [|fuel IH]; intros off data Hl Hinv; unfold iter_blocks in *; cbn [iter_blocks_chk iter_blocks_gen];
    rewrite peek_chk_eq by exact Hinv; cbn [bind]; destruct (peek off data) as [b|] eqn:Ep; try reflexivity.
  pose proof (advance_inv (b_sob b) (lenN data) Hl) as [Ha1 Ha2].
  rewrite range_chk_ok by lia. cbn [bind].
  rewrite IH; [reflexivity| |].
  - rewrite lenN_skipn. lia.
  - rewrite lenN_skipn, N2Nat.id.
    assert (8 <= lenN data). { unfold peek in Ep. destruct (8 <=? lenN data) eqn:E; [lia|discriminate]. }
    destruct Hinv as [Hinv|Hinv]; [|lia]. destruct Ha2 as [Ha2|Ha2]; [left; lia|right; lia].
Qed.

Theorem blocks_chk_eq base data : base mod 4 = 0 -> lenN data + 3 < W64 -> blocks_chk base data = blocks data.
Proof. intros Hb Hl. unfold blocks_chk, blocks. apply iter_blocks_chk_eq; [exact Hl|left; rewrite N.add_0_r; exact Hb]. Qed.

(* BaseRelocs::parse: exactly the directories at a multiple of 4 reach the iterator; the others are refused *)
Theorem reloc_parse_chk_spec base data : lenN data + 3 < W64 ->
  reloc_parse_chk base data = if base mod 4 =? 0 then blocks data else Err EMisaligned.
Proof.
  intros Hl. unfold reloc_parse_chk, aligned_to. destruct (base mod 4 =? 0) eqn:E; cbn [negb]; [|reflexivity].
  apply blocks_chk_eq; [lia|exact Hl].
Qed.
(* and the refusal is needed: without it the first header would be read through a misaligned reference *)
Theorem blocks_chk_misaligned base data : base mod 4 <> 0 -> 8 <= lenN data -> blocks_chk base data = Fault UBAlign.
Proof.
  intros Hb Hl. unfold blocks_chk. destruct data as [|x data]; [unfold lenN in Hl; cbn [length] in Hl; lia|].
  cbn [length iter_blocks_chk]. unfold peek_chk, IMAGE_BASE_RELOCATION_size, IMAGE_BASE_RELOCATION_align.
  destruct (8 <=? lenN (x :: data)) eqn:E; [|lia]. unfold ref_chk at 1.
  destruct (lenN (x :: data) <? 0 + 8) eqn:E2; [lia|]. unfold aligned_to.
  destruct ((base + 0 + 0) mod 4 =? 0) eqn:E3; [lia|]. reflexivity.
Qed.

(* Pe::base_relocs() of a file or mapped view hands BaseRelocs::new a slice obtained with align 4 *)
From PV.Spec Require ConvertSimSpec SafetyDirsSpec.
From PV.Proofs Require SafetyDirsProofs.
Lemma lenN_region_bytes g r : lenN (ConvertSimSpec.region_bytes g r) = r_len r.
Proof. unfold ConvertSimSpec.region_bytes, lenN. rewrite map_length, seq_length. lia. Qed.
Theorem view_relocs_chk_eq v dd r : placed (v_addr v) (v_len v) -> v_len v + 3 < W64 -> ConvertSimSpec.relocs_try_from v dd = Ok r ->
  blocks_chk (v_addr v + r_off r) (ConvertSimSpec.relocs_data v r) = blocks (ConvertSimSpec.relocs_data v r) /\
  fold_pairs_chk (v_addr v + r_off r) (ConvertSimSpec.relocs_data v r) = fold_pairs (ConvertSimSpec.relocs_data v r).
Proof.
  intros Hp Hl H. apply (SafetyDirsProofs.relocs_try_from_safe v dd r Hp) in H. destruct H as [[Hin Ha] _].
  unfold region_in in Hin. unfold IMAGE_BASE_RELOCATION_align in Ha.
  assert (E : blocks_chk (v_addr v + r_off r) (ConvertSimSpec.relocs_data v r) = blocks (ConvertSimSpec.relocs_data v r)).
  { apply blocks_chk_eq; [exact Ha|]. unfold ConvertSimSpec.relocs_data. rewrite lenN_region_bytes. lia. }
  split; [exact E|]. unfold fold_pairs_chk, fold_pairs, reloc_parse_chk.
  apply aligned_to_spec in Ha. rewrite Ha. cbn [negb]. rewrite E. reflexivity.
Qed.

(* build: [8 + 2 * n] cannot overflow for any slice, and [size as u32] is lossless below 2^31 - 5 entries per page *)
Lemma build_size_chk_eq n : 2 * n + 11 < W64 -> build_size_chk n = Ok (align_to W64 4 (8 + 2 * n)).
Proof. intros H. unfold build_size_chk. rewrite chk_mul_ok by lia. cbn [bind]. rewrite chk_add_ok by lia. reflexivity. Qed.
Lemma build_size_cast_lossless n : 2 * n + 11 < W32 -> align_to W64 4 (8 + 2 * n) mod W32 = align_to W64 4 (8 + 2 * n).
Proof. intros H. unfold W32 in *. rewrite align_to_4 by (unfold W64; lia). apply N.mod_small. lia. Qed.

(* =====================================================================================================
   string enumerator: the index walk of Enumerator::next is the structural walk of the model
   ===================================================================================================== *)
From PV.Model Require Import Strings.
Lemma skipn_cons_inv {A} (l : list A) : forall n b r, skipn n l = b :: r -> nth_error l n = Some b /\ skipn (S n) l = r /\ (n < length l)%nat.
Proof.
  induction l as [|x l IH]; intros n b r H.
  - destruct n; discriminate.
  - destruct n as [|n]; cbn [skipn] in H.
    + injection H as -> ->. cbn [nth_error skipn length]. split; [reflexivity|]. split; [reflexivity|lia].
    + apply IH in H. destruct H as [H1 [H2 H3]]. cbn [nth_error length]. split; [exact H1|]. split; [exact H2|lia].
Qed.
Lemma skipn_nil_inv {A} (l : list A) n : skipn n l = [] -> (length l <= n)%nat.
Proof. intros H. pose proof (skipn_length n l) as E. rewrite H in E. cbn [length] in E. lia. Qed.

Theorem str_scan_chk_eq c base bytes : lenN bytes < W64 -> forall rest start i,
  skipn (N.to_nat i) bytes = rest -> start <= i -> start = i \/ i <= lenN bytes ->
  str_scan_chk (length rest) c base bytes start i = Ok (scan c base rest start i).
Proof.
  intros Hl. induction rest as [|b rest IH]; intros start i Hr Hsi Hil; cbn [length str_scan_chk scan].
  - apply skipn_nil_inv in Hr. unfold lenN in *. destruct (i <? N.of_nat (length bytes)) eqn:E; [lia|].
    destruct (start =? i) eqn:Esi; cbn [negb andb]; [reflexivity|]. destruct (strict c); cbn [negb andb]; [reflexivity|].
    rewrite chk_sub_ok by exact Hsi. cbn [bind]. destruct (min_len c <=? i - start); [|reflexivity].
    unfold str_found_chk. rewrite range_chk_ok by lia. reflexivity.
  - apply skipn_cons_inv in Hr. destruct Hr as [Hn [Hs Hlt]]. unfold lenN in *.
    destruct (i <? N.of_nat (length bytes)) eqn:E; [|lia].
    unfold idx_chk. rewrite Hn. cbn [bind].
    assert (Hs' : skipn (N.to_nat (i + 1)) bytes = rest) by (replace (N.to_nat (i + 1)) with (S (N.to_nat i)) by lia; exact Hs).
    assert (Hcont : (i1 <- chk_add W64 i 1 ;; str_scan_chk (length rest) c base bytes i1 i1) = Ok (scan c base rest (i + 1) (i + 1))).
    { rewrite chk_add_ok by lia. cbn [bind]. apply IH; [exact Hs'|lia|lia]. }
    destruct (is_printable b).
    + rewrite chk_add_ok by lia. cbn [bind]. apply IH; [exact Hs'|lia|lia].
    + destruct (b =? 0).
      * rewrite chk_sub_ok by exact Hsi. cbn [bind]. destruct (min_len_nul c <=? i - start); [|exact Hcont].
        rewrite chk_add_ok by lia. cbn [bind]. unfold str_found_chk. rewrite range_chk_ok by lia. reflexivity.
      * destruct (strict c); cbn [negb]; [exact Hcont|].
        rewrite chk_sub_ok by exact Hsi. cbn [bind]. destruct (min_len c <=? i - start); [|exact Hcont].
        rewrite chk_add_ok by lia. cbn [bind]. unfold str_found_chk. rewrite range_chk_ok by lia. reflexivity.
Qed.
Theorem str_next_chk_eq c base bytes offset : lenN bytes < W64 -> str_next_chk c base bytes offset = Ok (next c base bytes offset).
Proof. intros Hl. unfold str_next_chk, next. apply str_scan_chk_eq; [exact Hl|reflexivity|lia|left; reflexivity]. Qed.

(* the dword view of a validated image *)
Theorem dword_view_chk_ok f m soi : validate f m = Ok soi -> dword_view_chk m = Ok tt.
Proof.
  intros H. apply dword_view_safe in H. destruct H as [H1 H2]. unfold dword_view_chk. apply ref_chk_ok; [lia|exact H1].
Qed.

(* ---- the range hypotheses are needed, and the checks of the twins are live ---- *)
From PV.Proofs Require HeadersProofs.
(* derva_slice_f on a byte slice within [size] of 2^64 bytes: [offset + size_of::<T>()] overflows (pe.rs:349 says so).
   No Rust slice is that long (at most isize::MAX bytes), so this is a hypothesis of the theorem, not a defect *)
Lemma scan_f_chk_needs_range :
  scan_f_chk (fun _ => 1) 0 1 (fun _ => false) 0 (W64 - 1) 8 1 2305843009213693951 = Fault POverflow.
Proof. vm_compute. reflexivity. Qed.
(* a twin does report what its model cannot: a section-less image whose e_lfanew points at its last 4 bytes is refused by
   the length test before the NT headers are referenced, and with the test removed the reference check fires *)
Lemma ref_chk_live : ref_chk 4096 100 96 120 4 = Fault UBOob /\ ref_chk 4098 200 0 64 4 = Fault UBAlign /\ ref_chk 4096 200 0 64 4 = Ok tt.
Proof. vm_compute. repeat split; reflexivity. Qed.
Lemma checked_nonvacuous :
  validate_chk fmt32 (HeadersProofs.bytes_mem 0 (HeadersProofs.tiny_pe32 96)) = Ok 4096 /\
  blocks_chk 4096 [0;16;0;0; 12;0;0;0; 5;48; 0;0] = Ok [ {| b_off := 0; b_va := 4096; b_sob := 12; b_words := [12293; 0] |} ] /\
  blocks_chk 4098 [0;16;0;0; 12;0;0;0; 5;48; 0;0] = Fault UBAlign /\
  reloc_parse_chk 4098 [0;16;0;0; 12;0;0;0; 5;48; 0;0] = Err EMisaligned /\
  total_size_orig_chk 0 536870908 = Fault POverflow /\ total_size_chk 0 536870908 = Ok 4294967296 /\
  rva_to_file_offset_chk 512 [{| s_va := 4096; s_vs := 512; s_prd := 1024; s_srd := 512 |}] 4100 = Ok 1028.
Proof. vm_compute. repeat split; reflexivity. Qed.

Theorem rich_accessors_chk_eq image se : Forall (fun d => d < W32) image -> lenN image < W64 -> try_from image = Ok se ->
  xor_key_chk image se = Ok (xor_key image se) /\ records_chk image se = Ok (records image se) /\
  checksum_chk image se = Ok (checksum image se).
Proof.
  intros Hd Hl H. pose proof (checksum_chk_eq image se Hd Hl H) as Hc. destruct se as [s e].
  apply try_from_bounds in H. destruct H as [H1 [H2 [H3 _]]].
  split; [apply xor_key_chk_eq; assumption|]. split; [apply records_chk_eq; assumption|exact Hc].
Qed.

(* =====================================================================================================
   check_sum: the u64 accumulator stays below 3 * 2^32, the final additions below 2^48 + len
   ===================================================================================================== *)
Lemma rd32_lt m o : mem_ok m -> rd32 m o < W32.
Proof. intros H. unfold rd32, W32. pose proof (rd16_lt m o H). pose proof (rd16_lt m (o + 2) H). lia. Qed.
Lemma step32_lt acc dw : acc < W64 -> dw < W32 -> step32 acc dw < W64.
Proof. unfold step32, W64, W32. intros H1 H2. destruct (4294967295 <? _); lia. Qed.
Lemma step32_chk_eq acc dw : acc < W64 -> dw < W32 -> step32_chk acc dw = Ok (step32 acc dw).
Proof.
  intros H1 H2. unfold step32_chk, step32, W64, W32 in *.
  rewrite chk_add_ok by lia. cbn [bind]. rewrite chk_add_ok by lia. cbn [bind].
  destruct (4294967295 <? acc mod 4294967296 + dw + acc / 4294967296); [|reflexivity].
  apply chk_add_ok. lia.
Qed.
Lemma sum_dwords_chk_eq m skip : mem_ok m -> forall n i acc, acc < W64 -> i + N.of_nat n <= m_len m / 4 ->
  sum_dwords_chk m skip i n acc = Ok (sum_dwords m skip i n acc) /\ sum_dwords m skip i n acc < W64.
Proof.
  intros Hm. induction n as [|n IH]; intros i acc Ha Hi; cbn [sum_dwords_chk sum_dwords]; [split; [reflexivity|exact Ha]|].
  destruct (i =? skip); cbn [bind].
  - apply IH; [exact Ha|lia].
  - destruct (i <? m_len m / 4) eqn:E; [|lia]. cbn [bind].
    rewrite step32_chk_eq by (try exact Ha; apply rd32_lt; exact Hm). cbn [bind].
    apply IH; [apply step32_lt; [exact Ha|apply rd32_lt; exact Hm]|lia].
Qed.
Lemma tail_dword_lt m : mem_ok m -> tail_dword m < W32.
Proof.
  intros H. unfold tail_dword, rd8, W32. pose proof (H (m_len m / 4 * 4)). pose proof (H (m_len m / 4 * 4 + 1)). pose proof (H (m_len m / 4 * 4 + 2)).
  destruct (0 <? m_len m mod 4); destruct (1 <? m_len m mod 4); destruct (2 <? m_len m mod 4); lia.
Qed.
Theorem check_sum_chk_eq f m soi : f = fmt32 \/ f = fmt64 -> mem_ok m -> m_len m + 65536 < W64 -> validate f m = Ok soi ->
  check_sum_chk f m = Ok (check_sum f m).
Proof.
  intros Hf Hm Hl Hv. unfold check_sum_chk, check_sum, check_sum_pos.
  assert (He : e_lfanew m < W32) by (apply rd32_lt; exact Hm).
  assert (Hoff : f_opt_off f <= 24 /\ f_csum_off f <= 64) by (destruct Hf; subst f; vm_compute; split; discriminate).
  destruct Hoff as [Ho1 Ho2].
  rewrite chk_add_ok by (unfold W32, W64 in *; lia). cbn [bind].
  rewrite chk_add_ok by (unfold W32, W64 in *; lia). cbn [bind].
  rewrite (dword_view_chk_ok f m soi Hv). cbn [bind].
  destruct (sum_dwords_chk_eq m ((e_lfanew m + f_opt_off f + f_csum_off f) / 4) Hm (N.to_nat (m_len m / 4)) 0 0) as [Es Hs];
    [unfold W64; lia|lia|].
  rewrite Es. cbn [bind].
  rewrite chk_mul_ok by (unfold W64 in *; lia). cbn [bind].
  rewrite range_chk_ok by lia. cbn [bind].
  set (acc0 := sum_dwords m ((e_lfanew m + f_opt_off f + f_csum_off f) / 4) 0 (N.to_nat (m_len m / 4)) 0) in *.
  assert (Hfin : forall acc, acc < W64 ->
    (c1 <- chk_add W64 (acc mod 65536) (acc / 65536) ;; c2 <- chk_add W64 c1 (c1 / 65536) ;;
     c3 <- chk_add W64 (c2 mod 65536) (m_len m) ;; Ok (c3 mod W32)) = Ok ((fin16 acc + m_len m) mod W32)).
  { intros acc Hacc. unfold fin16. unfold W64 in *.
    rewrite chk_add_ok by lia. cbn [bind]. rewrite chk_add_ok by lia. cbn [bind]. rewrite chk_add_ok by lia. cbn [bind]. reflexivity. }
  destruct (m_len m mod 4 =? 0) eqn:E4; cbn [bind].
  - apply Hfin. exact Hs.
  - rewrite range_chk_ok by lia. cbn [bind].
    rewrite step32_chk_eq by (try exact Hs; apply tail_dword_lt; exact Hm). cbn [bind].
    apply Hfin. apply step32_lt; [exact Hs|apply tail_dword_lt; exact Hm].
Qed.
