(* Proofs for C06: to_view / to_file equal the byte-by-byte rule of Spec/ConvertSpec.v for every
   input; in the words of the property for well-formed tables; prefix simulation of file slices by
   slices of the converted image; the way back; absence of faults. *)
From PV.Model Require Import Machine Mapping Views Headers Convert.
From PV.Spec Require Import MappingSpec ConvertSpec.
From PV.Proofs Require Import BaseProofs MappingProofs.
Ltac Zify.zify_post_hook ::= Z.div_mod_to_equations.

(* ---------- lists ---------- *)
Lemma nth_firstn_lt {A} n i (l : list A) d : (i < n)%nat -> nth i (firstn n l) d = nth i l d.
Proof.
  revert i l; induction n as [|n IH]; intros i l H; [lia|].
  destruct l as [|x l]; [destruct i; reflexivity|]. destruct i as [|i]; [reflexivity|].
  cbn [firstn nth]. apply IH. lia.
Qed.
Lemma nth_firstn_ge {A} n i (l : list A) d : (n <= i)%nat -> nth i (firstn n l) d = d.
Proof. intros H. apply nth_overflow. pose proof (firstn_le_length n l). lia. Qed.

Lemma byte_at_ge l i : lenN l <= i -> byte_at l i = 0.
Proof. unfold byte_at, lenN. intros H. apply nth_overflow. lia. Qed.

Lemma byte_at_sub l a n i : byte_at (sub l a n) i = if i <? n then byte_at l (a + i) else 0.
Proof.
  unfold sub, byte_at. destruct (i <? n) eqn:E.
  - rewrite nth_firstn_lt by lia. rewrite nth_skipn. f_equal. lia.
  - apply nth_firstn_ge. lia.
Qed.
Lemma lenN_sub l a n : a + n <= lenN l -> lenN (sub l a n) = n.
Proof. unfold sub, lenN. intros H. rewrite firstn_length, skipn_length. lia. Qed.
Lemma lenN_sub_le l a n : lenN (sub l a n) <= n.
Proof. unfold sub, lenN. rewrite firstn_length. lia. Qed.

Lemma lenN_splice l a src : a + lenN src <= lenN l -> lenN (splice l a src) = lenN l.
Proof. unfold splice, lenN. intros H. rewrite !app_length, firstn_length, skipn_length. lia. Qed.
Lemma byte_at_splice l a src i : a + lenN src <= lenN l ->
  byte_at (splice l a src) i = if (a <=? i) && (i <? a + lenN src) then byte_at src (i - a) else byte_at l i.
Proof.
  unfold splice, byte_at, lenN. intros H.
  assert (Hf : length (firstn (N.to_nat a) l) = N.to_nat a) by (rewrite firstn_length; lia).
  destruct (a <=? i) eqn:E1; cbn [andb].
  - rewrite app_nth2 by lia. rewrite Hf.
    destruct (i <? a + N.of_nat (length src)) eqn:E2.
    + rewrite app_nth1 by lia. f_equal. lia.
    + rewrite app_nth2 by lia. rewrite nth_skipn. f_equal. lia.
  - rewrite app_nth1 by lia. apply nth_firstn_lt. lia.
Qed.

Lemma lenN_zeros n : lenN (zeros n) = n.
Proof. unfold zeros, lenN. rewrite repeat_length. lia. Qed.
Lemma byte_at_zeros n i : byte_at (zeros n) i = 0.
Proof.
  unfold zeros, byte_at. destruct (Nat.lt_ge_cases (N.to_nat i) (N.to_nat n)) as [H|H].
  - apply nth_repeat.
  - apply nth_overflow. rewrite repeat_length. exact H.
Qed.

Lemma find_app {A} p (a b : list A) : find p (a ++ b) = match find p a with Some x => Some x | None => find p b end.
Proof. induction a as [|x a IH]; cbn [app find]; [reflexivity|]. destruct (p x); [reflexivity|exact IH]. Qed.
Lemma find_none_all {A} p (l : list A) : (forall x, In x l -> p x = false) -> find p l = None.
Proof.
  induction l as [|x l IH]; intros H; cbn [find]; [reflexivity|].
  rewrite (H x (or_introl eq_refl)). apply IH. intros y Hy. apply H. right; exact Hy.
Qed.
Lemma find_some_ex {A} p (l : list A) x : In x l -> p x = true -> exists y, find p l = Some y.
Proof.
  induction l as [|a l IH]; intros Hin Hp; [destruct Hin|]. cbn [find].
  destruct (p a) eqn:E; [eexists; reflexivity|]. destruct Hin as [->|Hin]; [congruence|]. apply IH; assumption.
Qed.

Lemma pairwise_b_In {A} (r : A -> A -> bool) l x y : (forall a b, r a b = r b a) ->
  pairwise_b r l = true -> In x l -> In y l -> x = y \/ r x y = true.
Proof.
  intros Hsym. induction l as [|a l IH]; intros Hp Hx Hy; [destruct Hx|].
  cbn [pairwise_b] in Hp. apply andb_true_iff in Hp. destruct Hp as [Ha Hp]. rewrite forallb_forall in Ha.
  destruct Hx as [<-|Hx]; destruct Hy as [<-|Hy].
  - left; reflexivity.
  - right. apply Ha. exact Hy.
  - right. rewrite Hsym. apply Ha. exact Hx.
  - apply IH; assumption.
Qed.

(* ---------- one iteration of the section loop ---------- *)
Lemma get_range_wadd len a n : a < W32 -> n < W32 ->
  get_range len a (wadd32 a n) =
  if (a + n <? W32) && (a + n <=? len) then Some {| r_off := a; r_len := n |} else None.
Proof.
  intros Ha Hn. unfold get_range, wadd32. destruct (a + n <? W32) eqn:E; cbn [andb].
  - rewrite N.mod_small by lia. destruct (a <=? a + n) eqn:E1; [|lia]. cbn [andb].
    destruct (a + n <=? len); [|reflexivity]. f_equal. f_equal. lia.
  - assert (H : (a + n) mod W32 = a + n - W32) by (unfold W32 in *; lia). rewrite H.
    destruct (a <=? a + n - W32) eqn:E1; [unfold W32 in *; lia|]. reflexivity.
Qed.
Lemma get_slice_wadd l a n : a < W32 -> n < W32 ->
  get_slice l a (wadd32 a n) = if (a + n <? W32) && (a + n <=? lenN l) then Some (sub l a n) else None.
Proof.
  intros Ha Hn. unfold get_slice, wadd32. destruct (a + n <? W32) eqn:E; cbn [andb].
  - rewrite N.mod_small by lia. destruct (a <=? a + n) eqn:E1; [|lia]. cbn [andb].
    destruct (a + n <=? lenN l); [|reflexivity]. f_equal. f_equal. lia.
  - assert (H : (a + n) mod W32 = a + n - W32) by (unfold W32 in *; lia). rewrite H.
    destruct (a <=? a + n - W32) eqn:E1; [unfold W32 in *; lia|]. reflexivity.
Qed.

Lemma copy_sec_spec vec img s : section_ok s ->
  let v' := copy_sec vec img (s_va s) (wadd32 (s_va s) (s_vs s)) (s_prd s) (wadd32 (s_prd s) (s_srd s)) in
  lenN v' = lenN vec /\
  forall i, byte_at v' i = if covers (lenN img) (lenN vec) i s then byte_at img (s_prd s + (i - s_va s)) else byte_at vec i.
Proof.
  intros [Hva [Hvs [Hprd Hsrd]]]. cbv zeta. unfold copy_sec.
  rewrite get_range_wadd, get_slice_wadd by assumption.
  assert (Hnc : copyable (lenN img) (lenN vec) s = false -> forall i, covers (lenN img) (lenN vec) i s = false).
  { intros Hc i. unfold covers. rewrite Hc. destruct (s_va s <=? i); [|reflexivity]. destruct (i <? s_va s + mapped_len s); reflexivity. }
  destruct ((s_va s + s_vs s <? W32) && (s_va s + s_vs s <=? lenN vec)) eqn:E1.
  2:{ split; [reflexivity|]. intros i. rewrite Hnc; [reflexivity|]. unfold copyable. lia. }
  destruct ((s_prd s + s_srd s <? W32) && (s_prd s + s_srd s <=? lenN img)) eqn:E2.
  2:{ split; [reflexivity|]. intros i. rewrite Hnc; [reflexivity|]. unfold copyable. lia. }
  cbn [r_len r_off].
  assert (Hc : copyable (lenN img) (lenN vec) s = true) by (unfold copyable; lia).
  assert (Hl : lenN (sub img (s_prd s) (s_srd s)) = s_srd s) by (apply lenN_sub; lia).
  rewrite Hl. fold (mapped_len s).
  assert (Hm : mapped_len s <= s_vs s /\ mapped_len s <= s_srd s) by (unfold mapped_len; lia).
  assert (Hl2 : lenN (sub (sub img (s_prd s) (s_srd s)) 0 (mapped_len s)) = mapped_len s) by (apply lenN_sub; lia).
  split.
  - apply lenN_splice. lia.
  - intros i. rewrite byte_at_splice by lia. rewrite Hl2. unfold covers. rewrite Hc.
    destruct (s_va s <=? i) eqn:E3; cbn [andb]; [|reflexivity].
    destruct (i <? s_va s + mapped_len s) eqn:E4; [|reflexivity].
    rewrite byte_at_sub. destruct (i - s_va s <? mapped_len s) eqn:E5; [|lia].
    rewrite byte_at_sub. destruct (0 + (i - s_va s) <? s_srd s) eqn:E6; [|lia].
    f_equal; lia.
Qed.

(* ---------- the loops ---------- *)
Lemma view_sections_spec img secs : Forall section_ok secs -> forall vec,
  lenN (view_sections vec img secs) = lenN vec /\
  forall i, byte_at (view_sections vec img secs) i =
    match find (covers (lenN img) (lenN vec) i) (rev secs) with
    | Some s => byte_at img (s_prd s + (i - s_va s))
    | None => byte_at vec i
    end.
Proof.
  induction 1 as [|s secs Hs _ IH]; intros vec; cbn [view_sections rev find]; [split; reflexivity|].
  destruct (copy_sec_spec vec img s Hs) as [Hl Hb]. cbv zeta in Hl, Hb.
  destruct (IH (copy_sec vec img (s_va s) (wadd32 (s_va s) (s_vs s)) (s_prd s) (wadd32 (s_prd s) (s_srd s)))) as [IHl IHb].
  split; [rewrite IHl; exact Hl|].
  intros i. rewrite IHb, Hl, find_app. destruct (find (covers (lenN img) (lenN vec) i) (rev secs)); [reflexivity|].
  cbn [find]. rewrite Hb. destruct (covers (lenN img) (lenN vec) i s); reflexivity.
Qed.

Lemma file_sections_flip vec img secs : file_sections vec img secs = view_sections vec img (map flip secs).
Proof. revert vec; induction secs as [|s secs IH]; intros vec; cbn [file_sections view_sections map]; [reflexivity|]. apply IH. Qed.

Lemma copy_headers_spec vec img soh : soh <= lenN vec -> soh <= lenN img ->
  exists v, copy_headers vec img soh = Ok v /\ lenN v = lenN vec /\
    forall i, byte_at v i = if i <? soh then byte_at img i else byte_at vec i.
Proof.
  intros H1 H2. unfold copy_headers. destruct ((lenN vec <? soh) || (lenN img <? soh)) eqn:E; [lia|].
  eexists. split; [reflexivity|]. assert (Hl : lenN (sub img 0 soh) = soh) by (apply lenN_sub; lia).
  split; [apply lenN_splice; lia|]. intros i. rewrite byte_at_splice by lia. rewrite Hl.
  destruct (i <? soh) eqn:E1.
  - replace ((0 <=? i) && (i <? 0 + soh)) with true by lia. rewrite byte_at_sub. destruct (i - 0 <? soh) eqn:E2; [|lia]. f_equal. lia.
  - replace ((0 <=? i) && (i <? 0 + soh)) with false by lia. reflexivity.
Qed.

Lemma covers_lt slen dlen i s : covers slen dlen i s = true -> i < dlen.
Proof.
  unfold covers, copyable, mapped_len. destruct (s_va s <=? i) eqn:E1; [|discriminate].
  destruct (i <? s_va s + N.min (s_vs s) (s_srd s)) eqn:E2; [|discriminate]. lia.
Qed.

(* ---------- theorem 1, general form: for EVERY section table the output is the rule's ---------- *)
Theorem to_view_correct img soh soi secs : Forall section_ok secs -> soh <= lenN img -> soh <= soi ->
  exists V, to_view img soh soi secs = Ok V /\ lenN V = soi /\
    forall i, byte_at V i = view_byte (byte_at img) (lenN img) soh soi secs i.
Proof.
  intros Hs H1 H2. unfold to_view.
  destruct (copy_headers_spec (zeros soi) img soh) as [v [Hv [Hl Hb]]]; [rewrite lenN_zeros; lia|lia|].
  rewrite Hv. cbn [bind]. eexists. split; [reflexivity|].
  destruct (view_sections_spec img secs Hs v) as [Hl' Hb']. rewrite lenN_zeros in Hl.
  split; [lia|]. intros i. unfold view_byte, conv_byte_r.
  destruct (soi <=? i) eqn:E; [apply byte_at_ge; lia|].
  rewrite Hb', Hl. destruct (find (covers (lenN img) soi i) (rev secs)); [reflexivity|].
  rewrite Hb, byte_at_zeros. reflexivity.
Qed.

Lemma fold_right_max_acc (g : section -> N) l a b :
  fold_right (fun s acc => N.max acc (g s)) (N.max a b) l = N.max (fold_right (fun s acc => N.max acc (g s)) a l) b.
Proof. induction l as [|s l IH]; cbn [fold_right]; [reflexivity|]. rewrite IH. lia. Qed.
Lemma file_extent_eq soh secs : file_extent soh secs = file_extent_spec soh secs.
Proof.
  unfold file_extent, file_extent_spec, wadd32. revert soh. induction secs as [|s l IH]; intros soh; cbn [fold_left fold_right]; [reflexivity|].
  rewrite IH. apply (fold_right_max_acc (fun s => (s_prd s + s_srd s) mod W32)).
Qed.
Lemma file_size_eq soh soi secs : file_size soh soi secs = file_size_spec soh soi secs.
Proof. unfold file_size, file_size_spec. rewrite file_extent_eq. reflexivity. Qed.
Lemma file_extent_ge_soh soh secs : soh <= file_extent_spec soh secs.
Proof. unfold file_extent_spec. induction secs as [|s l IH]; cbn [fold_right]; lia. Qed.
Lemma file_extent_ge_sec soh secs s : In s secs -> (s_prd s + s_srd s) mod W32 <= file_extent_spec soh secs.
Proof. unfold file_extent_spec. induction secs as [|t l IH]; intros H; [destruct H|]. cbn [fold_right]. destruct H as [->|H]; [lia|]. specialize (IH H). lia. Qed.

Lemma to_file_as_to_view img soh soi secs : to_file img soh soi secs = to_view img soh (file_size_spec soh soi secs) (map flip secs).
Proof. unfold to_file, to_view. rewrite file_size_eq. destruct (copy_headers _ img soh); cbn [bind]; [|reflexivity|reflexivity]. rewrite file_sections_flip. reflexivity. Qed.

Lemma flip_ok s : section_ok s -> section_ok (flip s).
Proof. unfold section_ok, flip. cbn. tauto. Qed.

Theorem to_file_correct img soh soi secs : Forall section_ok secs -> soh <= lenN img -> soh <= soi ->
  exists F', to_file img soh soi secs = Ok F' /\ lenN F' = file_size_spec soh soi secs /\
    forall i, byte_at F' i = file_byte (byte_at img) (lenN img) soh soi secs i.
Proof.
  intros Hs H1 H2. rewrite to_file_as_to_view. unfold file_byte.
  apply to_view_correct; [|exact H1|].
  - rewrite Forall_forall in *. intros x Hx. apply in_map_iff in Hx. destruct Hx as [s [<- Hin]]. apply flip_ok, Hs, Hin.
  - unfold file_size_spec. pose proof (file_extent_ge_soh soh secs). lia.
Qed.

(* ---------- theorem 4: no fault on any accepted input ---------- *)
Theorem to_view_no_fault img soh soi secs : Forall section_ok secs -> soh <= lenN img -> soh <= soi ->
  no_fault (to_view img soh soi secs).
Proof. intros A B C. destruct (to_view_correct img soh soi secs A B C) as [V [H _]]. rewrite H. intros f; discriminate. Qed.
Theorem to_file_no_fault img soh soi secs : Forall section_ok secs -> soh <= lenN img -> soh <= soi ->
  no_fault (to_file img soh soi secs).
Proof. intros A B C. destruct (to_file_correct img soh soi secs A B C) as [V [H _]]. rewrite H. intros f; discriminate. Qed.

(* ---------- the public entry points: from_bytes, then the conversion ---------- *)
Lemma rd32_lt m o : mem_ok m -> rd32 m o < W32.
Proof.
  intros H. unfold rd32, rd16, W32. pose proof (H o). pose proof (H (o + 1)). pose proof (H (o + 2)). pose proof (H (o + 2 + 1)). lia.
Qed.
Lemma sections_from_ok m o n : mem_ok m -> Forall section_ok (sections_from m o n).
Proof.
  intros H. revert o; induction n as [|n IH]; intros o; cbn [sections_from]; constructor; [|apply IH].
  unfold section_ok, section_at. cbn [s_va s_vs s_prd s_srd]. repeat split; apply rd32_lt; exact H.
Qed.
Lemma sections_ok f m : mem_ok m -> Forall section_ok (sections f m).
Proof. intros H. apply sections_from_ok. exact H. Qed.

Lemma length_bytes_from m o n : length (bytes_from m o n) = n.
Proof. revert o; induction n as [|n IH]; intros o; cbn [bytes_from length]; [reflexivity|]. rewrite IH. reflexivity. Qed.
Lemma nth_bytes_from m o n i : (i < n)%nat -> nth i (bytes_from m o n) 0 = m_get m (o + N.of_nat i).
Proof.
  revert o i; induction n as [|n IH]; intros o i H; [lia|]. cbn [bytes_from].
  destruct i as [|i]; cbn [nth]; [f_equal; lia|]. rewrite IH by lia. f_equal. lia.
Qed.
Lemma lenN_image_bytes m : lenN (image_bytes m) = m_len m.
Proof. unfold image_bytes, lenN. rewrite length_bytes_from. lia. Qed.
Lemma byte_at_image_bytes m i : i < m_len m -> byte_at (image_bytes m) i = m_get m i.
Proof. intros H. unfold image_bytes, byte_at. rewrite nth_bytes_from by lia. f_equal. lia. Qed.

Lemma validate_ok_bounds f m x : validate f m = Ok x -> h_soh f m <= m_len m /\ h_soh f m <= h_soi f m.
Proof.
  unfold validate. cbv zeta.
  repeat match goal with |- context [if ?c then _ else _] => destruct c eqn:? end; intros H; try discriminate; lia.
Qed.

Theorem pe_to_view_no_fault f m : mem_ok m -> no_fault (pe_to_view f m).
Proof.
  intros Hm. unfold pe_to_view. destruct (validate f m) as [x|e|ft] eqn:E; cbn [bind].
  - destruct (validate_ok_bounds f m x E) as [H1 H2]. apply to_view_no_fault; [apply sections_ok; exact Hm|rewrite lenN_image_bytes; exact H1|exact H2].
  - intros ft; discriminate.
  - exfalso. revert E. unfold validate. cbv zeta.
    repeat match goal with |- context [if ?c then _ else _] => destruct c end; discriminate.
Qed.
Theorem pe_to_file_no_fault f m : mem_ok m -> no_fault (pe_to_file f m).
Proof.
  intros Hm. unfold pe_to_file. destruct (validate f m) as [x|e|ft] eqn:E; cbn [bind].
  - destruct (validate_ok_bounds f m x E) as [H1 H2]. apply to_file_no_fault; [apply sections_ok; exact Hm|rewrite lenN_image_bytes; exact H1|exact H2].
  - intros ft; discriminate.
  - exfalso. revert E. unfold validate. cbv zeta.
    repeat match goal with |- context [if ?c then _ else _] => destruct c end; discriminate.
Qed.

(* an accepted file converts, and the result is the rule's, with the fields the accessors decode *)
Theorem pe_to_view_correct f m x : mem_ok m -> validate f m = Ok x ->
  exists V, pe_to_view f m = Ok V /\ lenN V = h_soi f m /\
    forall i, byte_at V i = view_byte (byte_at (image_bytes m)) (m_len m) (h_soh f m) (h_soi f m) (sections f m) i.
Proof.
  intros Hm E. unfold pe_to_view. rewrite E. cbn [bind]. destruct (validate_ok_bounds f m x E) as [H1 H2].
  destruct (to_view_correct (image_bytes m) (h_soh f m) (h_soi f m) (sections f m)) as [V [A [B C]]];
    [apply sections_ok; exact Hm|rewrite lenN_image_bytes; exact H1|exact H2|].
  rewrite lenN_image_bytes in C. exists V. split; [exact A|]. split; [exact B|exact C].
Qed.

(* ---------- theorem 1 in the words of the property: well-formed section tables ---------- *)
Lemma disjoint_v_sym a b : disjoint_v a b = disjoint_v b a.
Proof. unfold disjoint_v. apply orb_comm. Qed.
Lemma disjoint_r_sym a b : disjoint_r a b = disjoint_r b a.
Proof. unfold disjoint_r. apply orb_comm. Qed.

Lemma wf_inv flen soh soi secs : wf_sections flen soh soi secs = true ->
  soi < W32 /\
  (forall s, In s secs -> soh <= s_va s /\ s_va s + vext s <= soi /\ s_prd s + s_srd s <= flen /\ s_prd s + s_srd s < W32) /\
  (forall s t, In s secs -> In t secs -> s = t \/ disjoint_v s t = true).
Proof.
  unfold wf_sections. rewrite !andb_true_iff. intros [[H1 H2] H3]. split; [lia|]. split.
  - intros s Hs. rewrite forallb_forall in H2. specialize (H2 s Hs). unfold sec_wf in H2. lia.
  - intros s t Hs Ht. apply (pairwise_b_In disjoint_v secs s t disjoint_v_sym H3 Hs Ht).
Qed.

Lemma covers_inv slen dlen i s : covers slen dlen i s = true ->
  s_va s <= i /\ i < s_va s + mapped_len s /\ copyable slen dlen s = true.
Proof.
  unfold covers. destruct (s_va s <=? i) eqn:E1; [|discriminate].
  destruct (i <? s_va s + mapped_len s) eqn:E2; [|discriminate]. intros H. repeat split; try assumption; lia.
Qed.
Lemma covers_intro slen dlen i s : s_va s <= i -> i < s_va s + mapped_len s -> copyable slen dlen s = true ->
  covers slen dlen i s = true.
Proof. intros A B C. unfold covers. destruct (s_va s <=? i) eqn:E1; [|lia]. destruct (i <? s_va s + mapped_len s) eqn:E2; [exact C|lia]. Qed.

Lemma wf_find flen soh soi secs s j : wf_sections flen soh soi secs = true -> In s secs ->
  s_va s <= j -> j < s_va s + mapped_len s ->
  find (covers flen soi j) (rev secs) = Some s.
Proof.
  intros Hwf Hs A B. destruct (wf_inv _ _ _ _ Hwf) as [Hsoi [Hsec Hdis]].
  destruct (Hsec s Hs) as [S1 [S2 [S3 S4]]].
  assert (Hc : covers flen soi j s = true).
  { apply covers_intro; try assumption. unfold copyable, vext in *. lia. }
  destruct (find_some_ex (covers flen soi j) (rev secs) s) as [y Hy]; [apply -> in_rev; exact Hs|exact Hc|].
  rewrite Hy. f_equal. pose proof (find_some _ _ Hy) as [Hin Hcy]. apply in_rev in Hin.
  destruct (Hdis s y Hs Hin) as [->|Hd]; [reflexivity|exfalso].
  apply covers_inv in Hcy. unfold disjoint_v, vext, mapped_len in *. lia.
Qed.

Theorem to_view_wf img soh soi secs V : Forall section_ok secs -> soh <= lenN img -> soh <= soi ->
  wf_sections (lenN img) soh soi secs = true ->
  to_view img soh soi secs = Ok V ->
  lenN V = soi /\
  (forall i, i < soh -> byte_at V i = byte_at img i) /\
  (forall s i, In s secs -> i < mapped_len s -> byte_at V (s_va s + i) = byte_at img (s_prd s + i)) /\
  (forall i, soh <= i -> (forall s, In s secs -> ~ (s_va s <= i /\ i < s_va s + mapped_len s)) -> byte_at V i = 0).
Proof.
  intros Hs H1 H2 Hwf HV. destruct (to_view_correct img soh soi secs Hs H1 H2) as [V' [HV' [Hl Hb]]].
  rewrite HV in HV'. injection HV' as <-. destruct (wf_inv _ _ _ _ Hwf) as [Hsoi [Hsec Hdis]].
  split; [exact Hl|]. split; [|split].
  - intros i Hi. rewrite Hb. unfold view_byte, conv_byte_r. destruct (soi <=? i) eqn:E; [lia|].
    rewrite find_none_all.
    + destruct (i <? soh) eqn:E1; [reflexivity|lia].
    + intros s Hin. apply in_rev in Hin. destruct (Hsec s Hin) as [S1 _].
      destruct (covers (lenN img) soi i s) eqn:Ec; [|reflexivity]. apply covers_inv in Ec. lia.
  - intros s i Hin Hi. rewrite Hb. unfold view_byte, conv_byte_r. destruct (Hsec s Hin) as [S1 [S2 [S3 S4]]].
    destruct (soi <=? s_va s + i) eqn:E; [unfold vext, mapped_len in *; lia|].
    rewrite (wf_find _ _ _ _ s (s_va s + i) Hwf Hin) by lia. f_equal. lia.
  - intros i Hi Hno. rewrite Hb. unfold view_byte, conv_byte_r. destruct (soi <=? i) eqn:E; [reflexivity|].
    rewrite find_none_all.
    + destruct (i <? soh) eqn:E1; [lia|reflexivity].
    + intros s Hin. apply in_rev in Hin. destruct (covers (lenN img) soi i s) eqn:Ec; [|reflexivity].
      apply covers_inv in Ec. exfalso. apply (Hno s Hin). lia.
Qed.

(* ---------- theorem 2: prefix simulation ---------- *)
Lemma any_from_false n i p : any_from n i p = false -> forall k, k < N.of_nat n -> p (i + k) = false.
Proof.
  revert i; induction n as [|n IH]; intros i H k Hk; [lia|]. cbn [any_from] in H.
  destruct (p i) eqn:E; [discriminate|]. destruct (N.eq_dec k 0) as [->|Hz]; [rewrite N.add_0_r; exact E|].
  replace (i + k) with (i + 1 + (k - 1)) by lia. apply IH; [exact H|lia].
Qed.
Lemma raw_tail_zero_inv F s : raw_tail_zero F s = true -> forall o, s_vs s <= o -> o < s_srd s -> F (s_prd s + o) = 0.
Proof.
  unfold raw_tail_zero. intros H o A B. apply negb_true_iff in H.
  pose proof (any_from_false _ _ _ H (o - s_vs s)) as H1. cbv beta in H1.
  replace (s_prd s + s_vs s + (o - s_vs s)) with (s_prd s + o) in H1 by lia.
  specialize (H1 ltac:(lia)). apply negb_false_iff in H1. lia.
Qed.

Theorem prefix_simulation img soh soi secs V base baseV rva min_size r :
  Forall section_ok secs -> soh <= lenN img -> soh <= soi ->
  wf_sections (lenN img) soh soi secs = true ->
  to_view img soh soi secs = Ok V -> rva < W32 ->
  slice_file base (lenN img) secs rva min_size 1 = Ok r ->
  exists s, first_v secs rva = Some s /\ In s secs /\
    slice_section baseV (lenN V) rva min_size 1 = Ok {| r_off := rva; r_len := soi - rva |} /\
    r_len r <= soi - rva /\
    (* the stored-and-mapped bytes agree *)
    (forall k, k < mapped_len s - (rva - s_va s) -> byte_at img (r_off r + k) = byte_at V (rva + k)) /\
    (* and when the raw tail beyond VirtualSize is zero padding, the whole file slice is a prefix *)
    (raw_tail_zero (byte_at img) s = true -> forall k, k < r_len r -> byte_at img (r_off r + k) = byte_at V (rva + k)).
Proof.
  intros Hs H1 H2 Hwf HV Hr Hsl.
  destruct (slice_file_ok_inv _ _ _ _ _ _ _ Hs Hr Hsl) as [s [Hf [Ho [He [Hle [Hmin [_ Hnz]]]]]]].
  exists s. split; [exact Hf|].
  unfold first_v in Hf. apply find_some in Hf. destruct Hf as [Hin Hiv].
  split; [exact Hin|].
  destruct (to_view_wf img soh soi secs V Hs H1 H2 Hwf HV) as [Hl [_ [Hsec Hzero]]].
  destruct (wf_inv _ _ _ _ Hwf) as [Hsoi [Hbounds Hdis]]. destruct (Hbounds s Hin) as [S1 [S2 [S3 S4]]].
  unfold in_virtual in Hiv.
  assert (Hrv : s_va s <= rva /\ rva < s_va s + vext s) by lia.
  assert (Hlen : r_len r = s_srd s - (rva - s_va s)) by lia.
  assert (Hso : rva - s_va s <= s_srd s) by lia.
  split; [|split; [|split]].
  - unfold slice_section, aligned_to. destruct (rva =? 0) eqn:E0; [lia|]. rewrite N.mod_1_r. cbn [N.eqb negb].
    unfold get_from. rewrite Hl. destruct (rva <=? soi) eqn:E1; [|lia]. cbn [r_len].
    destruct (min_size <=? soi - rva) eqn:E2; [reflexivity|unfold vext in *; lia].
  - unfold vext in *. lia.
  - intros k Hk. rewrite Ho. replace (rva + k) with (s_va s + (rva - s_va s + k)) by lia.
    rewrite Hsec by (assumption || lia). f_equal. lia.
  - intros Hz k Hk. destruct (N.lt_ge_cases (rva - s_va s + k) (mapped_len s)) as [Hm|Hm].
    + rewrite Ho. replace (rva + k) with (s_va s + (rva - s_va s + k)) by lia.
      rewrite Hsec by (assumption || lia). f_equal. lia.
    + (* beyond min(VS,SRD): zero padding in the file, never written in the image *)
      assert (Hvs : s_vs s <= rva - s_va s + k) by (unfold mapped_len in Hm; lia).
      rewrite Ho. replace (s_prd s + (rva - s_va s) + k) with (s_prd s + (rva - s_va s + k)) by lia.
      rewrite (raw_tail_zero_inv _ s Hz) by lia. symmetry. apply Hzero; [lia|].
      intros t Ht [A B]. destruct (Hdis s t Hin Ht) as [<-|Hd]; [lia|].
      unfold disjoint_v, vext, mapped_len in *. lia.
Qed.

(* ---------- theorem 3: the way back ---------- *)
Lemma wf_raw_inv soh secs : wf_raw soh secs = true ->
  (forall s, In s secs -> soh <= s_prd s) /\ (forall s t, In s secs -> In t secs -> s = t \/ disjoint_r s t = true).
Proof.
  unfold wf_raw. rewrite andb_true_iff. intros [H1 H2]. split.
  - intros s Hs. rewrite forallb_forall in H1. specialize (H1 s Hs). lia.
  - intros s t Hs Ht. apply (pairwise_b_In disjoint_r secs s t disjoint_r_sym H2 Hs Ht).
Qed.

Theorem roundtrip img soh soi secs V : Forall section_ok secs -> soh <= lenN img -> soh <= soi ->
  wf_sections (lenN img) soh soi secs = true -> wf_raw soh secs = true ->
  stored_beyond_size_of_image soh soi secs = false ->
  to_view img soh soi secs = Ok V ->
  exists F', to_file V soh soi secs = Ok F' /\ lenN F' = file_extent_spec soh secs /\
    (forall i, i < soh -> byte_at F' i = byte_at img i) /\
    (forall s i, In s secs -> i < mapped_len s -> byte_at F' (s_prd s + i) = byte_at img (s_prd s + i)).
Proof.
  intros Hs H1 H2 Hwf Hraw Hext HV.
  destruct (to_view_wf img soh soi secs V Hs H1 H2 Hwf HV) as [Hl [Hhdr [Hsec _]]].
  destruct (wf_inv _ _ _ _ Hwf) as [Hsoi [Hbounds _]].
  destruct (wf_raw_inv _ _ Hraw) as [Hprd Hdis].
  destruct (to_file_correct V soh soi secs Hs) as [F' [HF [HlF Hb]]]; [lia|exact H2|].
  unfold stored_beyond_size_of_image in Hext.
  assert (Hfsz : file_size_spec soh soi secs = file_extent_spec soh secs) by (unfold file_size_spec; lia).
  pose proof (file_extent_ge_soh soh secs) as Hge.
  exists F'. split; [exact HF|]. split; [lia|]. split.
  - intros i Hi. rewrite Hb. unfold file_byte, conv_byte_r. rewrite Hfsz.
    destruct (file_extent_spec soh secs <=? i) eqn:E; [lia|].
    rewrite find_none_all.
    + destruct (i <? soh) eqn:E1; [apply Hhdr; exact Hi|lia].
    + intros x Hx. apply in_rev in Hx. apply in_map_iff in Hx. destruct Hx as [t [<- Ht]].
      destruct (covers (lenN V) (file_extent_spec soh secs) i (flip t)) eqn:Ec; [|reflexivity].
      apply covers_inv in Ec. cbn [flip s_va] in Ec. specialize (Hprd t Ht). lia.
  - intros s i Hin Hi. rewrite Hb. unfold file_byte, conv_byte_r. rewrite Hfsz.
    destruct (Hbounds s Hin) as [S1 [S2 [S3 S4]]].
    pose proof (file_extent_ge_sec soh secs s Hin) as Hes. rewrite N.mod_small in Hes by exact S4.
    assert (Hm : mapped_len s <= s_srd s /\ mapped_len s <= s_vs s) by (unfold mapped_len; lia).
    destruct (file_extent_spec soh secs <=? s_prd s + i) eqn:E; [lia|].
    assert (Hc : covers (lenN V) (file_extent_spec soh secs) (s_prd s + i) (flip s) = true).
    { apply covers_intro; cbn [flip s_va s_vs s_prd s_srd]; [lia|unfold mapped_len in *; cbn [flip s_va s_vs s_prd s_srd]; lia|].
      unfold copyable, vext in *. cbn [flip s_va s_vs s_prd s_srd]. lia. }
    destruct (find_some_ex (covers (lenN V) (file_extent_spec soh secs) (s_prd s + i)) (rev (map flip secs)) (flip s)) as [y Hy];
      [apply -> in_rev; apply in_map; exact Hin|exact Hc|].
    rewrite Hy. pose proof (find_some _ _ Hy) as [Hyin Hcy]. apply in_rev in Hyin. apply in_map_iff in Hyin.
    destruct Hyin as [t [<- Ht]].
    destruct (Hdis s t Hin Ht) as [<-|Hd].
    + cbn [flip s_va s_prd]. replace (s_va s + (s_prd s + i - s_prd s)) with (s_va s + i) by lia. apply Hsec; assumption.
    + exfalso. apply covers_inv in Hcy. unfold disjoint_r, mapped_len in *. cbn [flip s_va s_vs s_prd s_srd] in Hcy. lia.
Qed.

(* ---------- witnesses ---------- *)
(* F5: the code as it stood, on Demo64.dll's first section header (.text: VirtualSize 0x11BB, SizeOfRawData 0x1200) *)
Definition demo_text : section := {| s_va := 4096; s_vs := 4539; s_prd := 1024; s_srd := 4608 |}.
Lemma to_view_orig_refuted : to_view_orig (zeros 5632) 1024 57344 [demo_text] = Fault PCopyLen.
Proof. vm_compute. reflexivity. Qed.
Lemma to_file_orig_refuted : to_file_orig (zeros 57344) 1024 57344 [demo_text] = Fault PCopyLen.
Proof. vm_compute. reflexivity. Qed.

(* F33: a file of 0x2200 bytes whose only section is stored at 0x1E00..0x2200, SizeOfImage 0x2000 *)
Definition f33_sec : section := {| s_va := 4096; s_vs := 1024; s_prd := 7680; s_srd := 1024 |}.
Definition f33_img : list N := repeat 7 8704.
Lemma f33_known_class_witness :
  wf_sections (lenN f33_img) 1024 8192 [f33_sec] = true /\ wf_raw 1024 [f33_sec] = true /\
  stored_beyond_size_of_image 1024 8192 [f33_sec] = true /\
  exists V F', to_view f33_img 1024 8192 [f33_sec] = Ok V /\ to_file V 1024 8192 [f33_sec] = Ok F' /\
    byte_at V 4096 = 7 /\ lenN F' = 8192 /\ byte_at F' 7680 <> byte_at f33_img 7680.
Proof.
  split; [vm_compute; reflexivity|]. split; [vm_compute; reflexivity|]. split; [vm_compute; reflexivity|].
  eexists. eexists. split; [vm_compute; reflexivity|]. split; [vm_compute; reflexivity|].
  split; [vm_compute; reflexivity|]. split; [vm_compute; reflexivity|]. vm_compute. discriminate.
Qed.

(* F37: VirtualSize 0x10 < SizeOfRawData 0x200 with non-zero bytes stored beyond VirtualSize *)
Definition f36_sec : section := {| s_va := 4096; s_vs := 16; s_prd := 1024; s_srd := 512 |}.
Definition f36_img : list N := repeat 7 1536.
Lemma f36_known_class_witness :
  wf_sections (lenN f36_img) 1024 8192 [f36_sec] = true /\ raw_tail_not_mapped (byte_at f36_img) [f36_sec] = true /\
  exists V r, to_view f36_img 1024 8192 [f36_sec] = Ok V /\ slice_file 0 (lenN f36_img) [f36_sec] 4112 0 1 = Ok r /\
    byte_at f36_img (r_off r) = 7 /\ byte_at V 4112 = 0.
Proof.
  split; [vm_compute; reflexivity|]. split; [vm_compute; reflexivity|].
  eexists. eexists. split; [vm_compute; reflexivity|]. split; [vm_compute; reflexivity|].
  split; vm_compute; reflexivity.
Qed.

(* non-vacuity: a two-section image satisfying every hypothesis, computed *)
Definition ex_img : list N := [1;2;3;4;5;6;7;8;9;10;11;12].
Definition ex_secs : list section :=
  [ {| s_va := 4; s_vs := 3; s_prd := 2; s_srd := 2 |};      (* VS > SRD: virtual-only tail *)
    {| s_va := 8; s_vs := 2; s_prd := 4; s_srd := 4 |} ].    (* VS < SRD *)
Lemma nonvacuous_example :
  Forall section_ok ex_secs /\ wf_sections (lenN ex_img) 2 12 ex_secs = true /\ wf_raw 2 ex_secs = true /\
  stored_beyond_size_of_image 2 12 ex_secs = false /\
  to_view ex_img 2 12 ex_secs = Ok [1;2;0;0;3;4;0;0;5;6;0;0] /\
  to_file [1;2;0;0;3;4;0;0;5;6;0;0] 2 12 ex_secs = Ok [1;2;3;4;5;6;0;0] /\
  slice_file 0 (lenN ex_img) ex_secs 5 0 1 = Ok {| r_off := 3; r_len := 1 |}.
Proof.
  split; [repeat constructor; vm_compute; reflexivity|].
  repeat split; vm_compute; reflexivity.
Qed.

(* ---------- monotonicity of a typed reader: C strings ---------- *)
Lemma find_nul_mono getF getV n : forall off off' n' i,
  find_nul getF off n = Some i -> (forall j, j <= i -> getF (off + j) = getV (off' + j)) -> i < N.of_nat n' ->
  find_nul getV off' n' = Some i.
Proof.
  induction n as [|n IH]; intros off off' n' i H Heq Hi; cbn [find_nul] in H; [discriminate|].
  destruct n' as [|n']; [lia|]. cbn [find_nul].
  pose proof (Heq 0 ltac:(lia)) as H0. rewrite !N.add_0_r in H0. rewrite <- H0.
  destruct (getF off =? 0) eqn:E; [exact H|].
  destruct (find_nul getF (off + 1) n) as [i0|] eqn:E1; [|discriminate]. injection H as <-.
  rewrite (IH (off + 1) (off' + 1) n' i0 E1); [reflexivity| |lia].
  intros j Hj. replace (off + 1 + j) with (off + (j + 1)) by lia. replace (off' + 1 + j) with (off' + (j + 1)) by lia.
  apply Heq. lia.
Qed.

Theorem c_str_monotone getF getV (slF slV : N -> N -> N -> res region) a r rf rv k :
  slF a 0 1 = Ok rf -> slV a 0 1 = Ok rv ->
  (forall j, j < k -> getF (r_off rf + j) = getV (r_off rv + j)) -> k <= r_len rv ->
  rd_c_str getF slF a = Ok r -> r_len r <= k ->
  rd_c_str getV slV a = Ok {| r_off := r_off rv; r_len := r_len r |}.
Proof.
  intros HF HV Heq Hk H Hr. unfold rd_c_str in *. rewrite HF in H. rewrite HV. cbn [bind] in *.
  destruct (find_nul getF (r_off rf) (N.to_nat (r_len rf))) as [i|] eqn:E; [|discriminate].
  injection H as <-. cbn [r_len] in *.
  rewrite (find_nul_mono getF getV _ _ (r_off rv) (N.to_nat (r_len rv)) i E); [reflexivity| |lia].
  intros j Hj. apply Heq. lia.
Qed.

(* a C string read through the file view that lies in the stored-and-mapped part of its section is
   read identically (same RVA, same length, same bytes) through the view over the converted buffer *)
Corollary c_str_simulation img soh soi secs V base baseV rva r s :
  Forall section_ok secs -> soh <= lenN img -> soh <= soi ->
  wf_sections (lenN img) soh soi secs = true ->
  to_view img soh soi secs = Ok V -> rva < W32 ->
  first_v secs rva = Some s ->
  rd_c_str (byte_at img) (slice_file base (lenN img) secs) rva = Ok r ->
  (rva - s_va s) + r_len r <= mapped_len s ->
  rd_c_str (byte_at V) (slice_section baseV (lenN V)) rva = Ok {| r_off := rva; r_len := r_len r |}.
Proof.
  intros Hs H1 H2 Hwf HV Hr Hf H Hm.
  assert (Hsl : exists rf, slice_file base (lenN img) secs rva 0 1 = Ok rf).
  { unfold rd_c_str in H. destruct (slice_file base (lenN img) secs rva 0 1) as [rf|e|ft]; [eexists; reflexivity|discriminate|discriminate]. }
  destruct Hsl as [rf Hrf].
  destruct (prefix_simulation img soh soi secs V base baseV rva 0 rf Hs H1 H2 Hwf HV Hr Hrf) as [s' [Hf' [Hin [Hsv [Hle [Hpre _]]]]]].
  rewrite Hf in Hf'. injection Hf' as <-.
  destruct (wf_inv _ _ _ _ Hwf) as [_ [Hb _]]. destruct (Hb s Hin) as [S1 [S2 _]].
  unfold first_v in Hf. apply find_some in Hf. destruct Hf as [_ Hiv]. unfold in_virtual in Hiv.
  apply (c_str_monotone (byte_at img) (byte_at V) (slice_file base (lenN img) secs) (slice_section baseV (lenN V)) rva r rf
           {| r_off := rva; r_len := soi - rva |} (mapped_len s - (rva - s_va s)) Hrf Hsv).
  - intros j Hj. cbn [r_off]. apply Hpre. exact Hj.
  - cbn [r_len]. unfold vext, mapped_len in *. lia.
  - exact H.
  - lia.
Qed.
