(* Proofs for C12, second round: explicit step counts (C03 bound) for fsck, the traversal and the tree printer. *)
From PV.Model Require Import Machine Mapping Views Resources.
From PV.Spec Require Import ResTree.
From PV.Proofs Require Import BaseProofs ResourcesProofs.
Ltac Zify.zify_post_hook ::= Z.div_mod_to_equations.
(* fsck: the instrumented function computes the same result ... *)
Lemma fsck_loop_c_fst s below belowc : (forall o b, fst (belowc o b) = below o b) ->
  forall es b, fst (fsck_loop_c s belowc es b) = fsck_loop s below es b.
Proof.
  intros HB. induction es as [|e r IH]; intros b; cbn [fsck_loop_c fsck_loop]; [reflexivity|].
  destruct (b =? 0); [reflexivity|].
  destruct (e_name s e) as [n|er|f0]; cbn [bind]; try reflexivity.
  destruct (e_entry s e) as [[o|o]|er|f0]; cbn [bind]; try reflexivity; cbv zeta.
  - rewrite HB. destruct (below o (b - 1)) as [b1|er|f0]; cbn [bind fst]; [apply IH|reflexivity|reflexivity].
  - cbn [fst]. destruct (data_bytes s o) as [rg|er|f0]; cbn [bind fst]; [apply IH|reflexivity|reflexivity].
Qed.
Lemma fsck_dir_c_fst s d : forall o b, fst (fsck_dir_c d s o b) = fsck_dir d s o b.
Proof.
  induction d as [|d IH]; intros o b; cbn [fsck_dir_c fsck_dir]; [reflexivity|]. cbv zeta. cbn [fst].
  apply fsck_loop_c_fst. exact IH.
Qed.

(* ... and visits at most [b] entries, exactly [b - b'] when it succeeds with remaining budget b', never nesting deeper than d *)
Definition cnt_ok (D : nat) (b : N) (x : res N * cnt) : Prop :=
  c_steps (snd x) <= b /\ (c_depth (snd x) <= D)%nat /\ forall b', fst x = Ok b' -> c_steps (snd x) + b' = b.

Lemma fsck_loop_c_bound s belowc D : (forall o b, cnt_ok D b (belowc o b)) ->
  forall es b, cnt_ok D b (fsck_loop_c s belowc es b).
Proof.
  intros HB. induction es as [|e r IH]; intros b; cbn [fsck_loop_c].
  - unfold cnt_ok. cbn [fst snd cnt0 c_steps c_depth]. split; [lia|]. split; [lia|]. intros b' [= <-]. lia.
  - destruct (b =? 0) eqn:B0.
    { unfold cnt_ok. cbn [fst snd cnt0 c_steps c_depth]. split; [lia|]. split; [lia|]. intros b'; discriminate. }
    destruct (e_name s e) as [n|er|f0]; try (unfold cnt_ok; cbn [fst snd c_steps c_depth]; split; [lia|]; split; [lia|]; intros b'; discriminate).
    destruct (e_entry s e) as [en|er|f0]; try (unfold cnt_ok; cbn [fst snd c_steps c_depth]; split; [lia|]; split; [lia|]; intros b'; discriminate).
    cbv zeta.
    assert (Hsub : cnt_ok D (b - 1) (match en with EDir o => belowc o (b - 1) | EData o => (_ <- data_bytes s o ;; Ok (b - 1), cnt0) end)).
    { destruct en as [o|o]; [apply HB|]. unfold cnt_ok. cbn [fst snd cnt0 c_steps c_depth]. split; [lia|]. split; [lia|].
      intros b'. destruct (data_bytes s o); cbn [bind]; [intros [= <-]; lia|discriminate|discriminate]. }
    destruct (match en with EDir o => belowc o (b - 1) | EData o => (_ <- data_bytes s o ;; Ok (b - 1), cnt0) end) as [sr sc].
    destruct Hsub as (S1 & S2 & S3). cbn [fst snd] in *.
    destruct sr as [b1|er|f0].
    + specialize (S3 b1 eq_refl). destruct (IH b1) as (R1 & R2 & R3).
      unfold cnt_ok. cbn [fst snd c_steps c_depth]. split; [lia|]. split; [apply Nat.max_lub; assumption|].
      intros b' Hb'. specialize (R3 b' Hb'). lia.
    + unfold cnt_ok. cbn [fst snd c_steps c_depth]. split; [lia|]. split; [lia|]. intros b'; discriminate.
    + unfold cnt_ok. cbn [fst snd c_steps c_depth]. split; [lia|]. split; [lia|]. intros b'; discriminate.
Qed.
Lemma fsck_dir_c_bound s d : forall o b, cnt_ok d b (fsck_dir_c d s o b).
Proof.
  induction d as [|d IH]; intros o b; cbn [fsck_dir_c].
  - unfold cnt_ok. cbn [fst snd cnt0 c_steps c_depth]. split; [lia|]. split; [lia|]. intros b'; discriminate.
  - cbv zeta. destruct (fsck_loop_c_bound s (fsck_dir_c d s) d IH (entries s o) b) as (R1 & R2 & R3).
    unfold cnt_ok. cbn [fst snd c_steps c_depth]. split; [exact R1|]. split; [lia|exact R3].
Qed.

Theorem fsck_counted s :
  fst (fsck_c s) = fsck s /\ c_steps (snd (fsck_c s)) <= rs_len s / 8 /\ (c_depth (snd (fsck_c s)) <= 32)%nat.
Proof.
  unfold fsck_c, fsck. destruct (root s) as [r|er|f0].
  - cbn [bind]. pose proof (fsck_dir_c_fst s FSCK_DEPTH r (fsck_budget s)) as F.
    destruct (fsck_dir_c_bound s FSCK_DEPTH r (fsck_budget s)) as (R1 & R2 & _). revert F R1 R2.
    generalize (fsck_dir_c FSCK_DEPTH s r (fsck_budget s)) as x. generalize (fsck_dir FSCK_DEPTH s r (fsck_budget s)) as y.
    intros y [xr xc]. cbn [fst snd bind]. unfold fsck_budget, FSCK_DEPTH. intros -> R1 R2. split; [reflexivity|]. split; [exact R1|exact R2].
  - cbn [fst snd bind cnt0 c_steps c_depth]. split; [reflexivity|]. split; lia.
  - cbn [fst snd bind cnt0 c_steps c_depth]. split; [reflexivity|]. split; lia.
Qed.
Theorem fsck_dir_counted s d o b :
  fst (fsck_dir_c d s o b) = fsck_dir d s o b /\ c_steps (snd (fsck_dir_c d s o b)) <= b /\ (c_depth (snd (fsck_dir_c d s o b)) <= d)%nat /\
  (forall b', fsck_dir d s o b = Ok b' -> c_steps (snd (fsck_dir_c d s o b)) + b' = b).
Proof.
  destruct (fsck_dir_c_bound s d o b) as (R1 & R2 & R3). rewrite <- (fsck_dir_c_fst s d o b).
  split; [reflexivity|]. split; [exact R1|]. split; [exact R2|exact R3].
Qed.

(* the traversal: the listing has exactly (budget given - budget returned) entries, all of them above level lvl + d;
   the printer writes exactly (budget given - budget returned) lines *)
Fixpoint count_items (l : list witem) : N :=
  match l with [] => 0 | WItem _ :: r => 1 + count_items r | _ :: r => count_items r end.
Lemma count_items_app a b : count_items (a ++ b) = count_items a + count_items b.
Proof. induction a as [|[i| |] r IH]; cbn [count_items app]; lia. Qed.

Lemma walk_loop_count s below L named : (forall o b, count_items (fst (below o (L + 1) b)) + snd (below o (L + 1) b) = b) ->
  forall es idx b, count_items (fst (walk_loop s below L named es idx b)) + snd (walk_loop s below L named es idx b) = b.
Proof.
  intros HB. induction es as [|e r IH]; intros idx b; cbn [walk_loop]; [cbn [fst snd count_items]; lia|].
  destruct (b =? 0) eqn:B0; [cbn [fst snd count_items]; lia|]. cbv zeta. cbn [fst snd count_items]. rewrite count_items_app.
  set (sub := match e_entry s e with Ok (EDir o) => below o (L + 1) (b - 1) | _ => ([], b - 1) end).
  assert (Hsub : count_items (fst sub) + snd sub = b - 1).
  { unfold sub. destruct (e_entry s e) as [[o|o]|er|f0]; try (cbn [fst snd count_items]; lia). apply HB. }
  specialize (IH (idx + 1) (snd sub)). lia.
Qed.
Theorem walk_count s d : forall o L b, count_items (fst (walk d s o L b)) + snd (walk d s o L b) = b.
Proof.
  induction d as [|d IH]; intros o L b; cbn [walk]; [cbn [fst snd count_items]; lia|].
  apply walk_loop_count. intros o' b'. apply IH.
Qed.

Definition lvl_lt (M : N) (l : list witem) : bool :=
  forallb (fun w => match w with WItem i => i_lvl i <? M | _ => true end) l.
Lemma lvl_lt_app M a b : lvl_lt M (a ++ b) = lvl_lt M a && lvl_lt M b.
Proof. unfold lvl_lt. apply forallb_app. Qed.
Lemma walk_loop_lvl s below L named M : L < M -> (forall o b, lvl_lt M (fst (below o (L + 1) b)) = true) ->
  forall es idx b, lvl_lt M (fst (walk_loop s below L named es idx b)) = true.
Proof.
  intros HL HB. induction es as [|e r IH]; intros idx b; cbn [walk_loop]; [reflexivity|].
  destruct (b =? 0); [reflexivity|]. cbv zeta. cbn [fst].
  change (lvl_lt M (WItem (item_at s L named idx e) :: ?x)) with ((L <? M) && lvl_lt M x).
  rewrite lvl_lt_app, IH. replace (L <? M) with true by lia. cbn [andb]. rewrite andb_true_r.
  destruct (e_entry s e) as [[o|o]|er|f0]; try reflexivity. apply HB.
Qed.
Theorem walk_levels s d : forall o L b, lvl_lt (L + N.of_nat d) (fst (walk d s o L b)) = true.
Proof.
  induction d as [|d IH]; intros o L b; cbn [walk]; [reflexivity|].
  apply walk_loop_lvl; [lia|]. intros o' b'. replace (L + N.of_nat (S d)) with (L + 1 + N.of_nat d) by lia. apply IH.
Qed.

Lemma draw_loop_count s below : (forall o b, fst (below o b) + snd (below o b) = b) ->
  forall es b, fst (draw_loop s below es b) + snd (draw_loop s below es b) = b.
Proof.
  intros HB. induction es as [|e r IH]; intros b; cbn [draw_loop]; [cbn [fst snd]; lia|].
  destruct (b =? 0) eqn:B0; [cbn [fst snd]; lia|]. cbv zeta. cbn [fst snd].
  set (sub := match e_entry s e with Ok (EDir o) => below o (b - 1) | _ => (0, b - 1) end).
  assert (Hsub : fst sub + snd sub = b - 1).
  { unfold sub. destruct (e_entry s e) as [[o|o]|er|f0]; try (cbn [fst snd]; lia). apply HB. }
  specialize (IH (snd sub)). lia.
Qed.
Lemma draw_count s d : forall o b, fst (draw d s o b) + snd (draw d s o b) = b.
Proof.
  induction d as [|d IH]; intros o b; cbn [draw]; [cbn [fst snd]; lia|]. apply draw_loop_count. exact IH.
Qed.
Theorem display_lines_bound s : display_lines s <= 1 + rs_len s / 8.
Proof.
  unfold display_lines. destruct (root s) as [r|er|f0]; try lia.
  pose proof (draw_count s 32 r (fsck_budget s)) as H. unfold fsck_budget in *. lia.
Qed.
