(* C09: which bytes the import decoders read how, over the bytes at literal offsets (Spec/LeBytes.v). *)
From PV.Model Require Import Machine Mapping Views Headers Imports.
From PV.Spec Require Import MappingSpec ViewSpec ImportSpec LeBytes.
From PV.Proofs Require Import BaseProofs ViewsProofs ImportsProofs.
From PV.gen Require Import Layout.
Ltac Zify.zify_post_hook ::= Z.div_mod_to_equations.

Lemma le4_dword g o : le_value g o 4 = dword_at g o.
Proof. unfold dword_at. cbn [le_value]. rewrite <- !N.add_assoc. change (1 + 1) with 2. change (1 + 2) with 3. lia. Qed.
Lemma le2_word g o : le_value g o 2 = word_at g o.
Proof. unfold word_at. cbn [le_value]. lia. Qed.
Lemma le8_qword g o : le_value g o 8 = qword_at g o.
Proof.
  unfold qword_at, dword_at. cbn [le_value]. rewrite <- !N.add_assoc.
  change (1 + 1) with 2. change (1 + 2) with 3. change (1 + 3) with 4. change (1 + 4) with 5. change (1 + 5) with 6. change (1 + 6) with 7.
  change (4 + 1) with 5. change (4 + 2) with 6. change (4 + 3) with 7. lia.
Qed.

(* the descriptor record: five dwords at offsets 0, 4, 8, 12, 16 of the 20-byte record *)
Theorem desc_at_shape get off k :
  desc_at get off k =
    {| d_oft := dword_at get (off + 20 * k); d_tds := dword_at get (off + 20 * k + 4); d_fwd := dword_at get (off + 20 * k + 8);
       d_name := dword_at get (off + 20 * k + 12); d_ft := dword_at get (off + 20 * k + 16) |}.
Proof.
  unfold desc_at. change IMAGE_IMPORT_DESCRIPTOR_size with 20. change IMAGE_IMPORT_DESCRIPTOR_OriginalFirstThunk_off with 0.
  change IMAGE_IMPORT_DESCRIPTOR_TimeDateStamp_off with 4. change IMAGE_IMPORT_DESCRIPTOR_ForwarderChain_off with 8.
  change IMAGE_IMPORT_DESCRIPTOR_Name_off with 12. change IMAGE_IMPORT_DESCRIPTOR_FirstThunk_off with 16.
  change (N.to_nat 4) with 4%nat. rewrite !le4_dword, N.add_0_r. replace (k * 20) with (20 * k) by lia. reflexivity.
Qed.

Theorem descs_shape p r :
  length (descs p r) = N.to_nat (r_len r / 20) /\
  forall k, k < r_len r / 20 ->
    nth_error (descs p r) (N.to_nat k) =
    Some {| d_oft := dword_at (p_get p) (r_off r + 20 * k); d_tds := dword_at (p_get p) (r_off r + 20 * k + 4);
            d_fwd := dword_at (p_get p) (r_off r + 20 * k + 8); d_name := dword_at (p_get p) (r_off r + 20 * k + 12);
            d_ft := dword_at (p_get p) (r_off r + 20 * k + 16) |}.
Proof.
  destruct (descs_in_order p r) as [H1 H2]. change DESC_SIZE with 20 in H1. split; [exact H1|].
  intros k Hk. rewrite H2 by lia. rewrite N2Nat.id. rewrite desc_at_shape. reflexivity.
Qed.

(* a thunk: the pointer-wide little-endian value at offset i * pointer size *)
Theorem thunk_at_shape p r i :
  thunk_at p r i = if f_64 (p_f p) then qword_at (p_get p) (r_off r + 8 * i) else dword_at (p_get p) (r_off r + 4 * i).
Proof.
  unfold thunk_at, va_bytes. destruct (f_64 (p_f p)).
  - change (N.to_nat 8) with 8%nat. rewrite le8_qword. f_equal. lia.
  - change (N.to_nat 4) with 4%nat. rewrite le4_dword. f_equal. lia.
Qed.

(* the scan of derva_slice_f: the first index at or after n whose item satisfies the predicate, wholly inside blen bytes *)
Lemma scan_f_shape get q off blen size : forall fuel n m, scan_f get fuel q off blen size n = Ok m ->
  n <= m /\ (m + 1) * size <= blen /\ q (le_value get (off + m * size) (N.to_nat size)) = true /\
  forall k, n <= k -> k < m -> q (le_value get (off + k * size) (N.to_nat size)) = false.
Proof.
  induction fuel as [|fuel IH]; intros n m H; cbn [scan_f] in H; [discriminate|].
  destruct (blen <? n * size + size) eqn:E1; [discriminate|].
  destruct (q (le_value get (off + n * size) (N.to_nat size))) eqn:E2.
  - injection H as <-. split; [lia|]. split; [lia|]. split; [exact E2|]. intros k; lia.
  - apply IH in H. destruct H as (A & B & C & D). split; [lia|]. split; [exact B|]. split; [exact C|].
    intros k H1 H2. destruct (N.eq_dec k n) as [->|Hne]; [exact E2|]. apply D; lia.
Qed.

(* the two thunk tables of a descriptor (desc_iat p d = thunks p FirstThunk, desc_int p d = thunks p OriginalFirstThunk):
   thunk i is the pointer-wide little-endian value at offset i * pointer size of what slicing yields at the rva, every
   reported thunk is non-zero and the next one, still inside the slice, is zero *)
Theorem thunks_shape p rva r : thunks p rva = Ok r ->
  let w := va_bytes p in
  exists s, slice (p_v p) rva 0 w = Ok s /\ r_off r = r_off s /\
    let n := r_len r / w in
    r_len r = n * w /\ (n + 1) * w <= r_len s /\
    length (thunk_values p r) = N.to_nat n /\
    (forall i, i < n -> nth_error (thunk_values p r) (N.to_nat i) = Some (thunk_at p r i) /\ thunk_at p r i <> 0) /\
    thunk_at p r n = 0.
Proof.
  unfold thunks, rd_slice_s, rd_slice_f. intros H. cbv zeta.
  assert (Hw : 0 < va_bytes p) by (unfold va_bytes; destruct (f_64 (p_f p)); lia).
  destruct (slice (p_v p) rva 0 (va_bytes p)) as [s|e|f]; cbn [bind] in H; try discriminate.
  destruct (scan_f (p_get p) (S (N.to_nat (r_len s / va_bytes p))) (fun x => x =? 0) (r_off s) (r_len s) (va_bytes p) 0) as [m|e|f] eqn:Es;
    cbn [bind] in H; try discriminate.
  injection H as <-. cbn [r_off r_len]. exists s. split; [reflexivity|]. split; [reflexivity|].
  apply scan_f_shape in Es. destruct Es as (_ & B & C & D).
  assert (Hdiv : m * va_bytes p / va_bytes p = m) by (apply N.div_mul; lia). rewrite Hdiv.
  split; [reflexivity|]. split; [exact B|]. split.
  { unfold thunk_values. cbn [r_len]. rewrite map_length, seq_length, Hdiv. reflexivity. }
  split.
  - intros i Hi. split.
    + unfold thunk_values. cbn [r_len]. rewrite Hdiv. rewrite nth_error_map.
      rewrite nth_error_nth' with (d := 0%nat) by (rewrite seq_length; lia). rewrite seq_nth by lia. cbn [option_map plus].
      rewrite N2Nat.id. reflexivity.
    + unfold thunk_at. cbn [r_off]. specialize (D i ltac:(lia) Hi). lia.
  - unfold thunk_at. cbn [r_off]. lia.
Qed.

(* thunk decoding over the bytes: top bit set -> the low 16 bits are the ordinal; otherwise the hint is the word that slicing
   (2 bytes, 2-aligned) yields at rva = t mod 2^32 and the name is the bytes up to and including the first NUL of what slicing yields at rva + 2 *)
Theorem import_from_va_shape p t :
  match import_from_va p t with
  | Ok (ByOrdinal o) => N.land t (ordinal_flag p) <> 0 /\ o = t mod 65536
  | Ok (ByName h nm) =>
    N.land t (ordinal_flag p) = 0 /\
    let rva := t mod 4294967296 in
    rva + 2 < 4294967296 /\
    exists hr s, slice (p_v p) rva 2 2 = Ok hr /\ h = word_at (p_get p) (r_off hr) /\
      slice (p_v p) (rva + 2) 0 1 = Ok s /\ r_off nm = r_off s /\ 0 < r_len nm /\ r_len nm <= r_len s /\
      p_get p (r_off s + r_len nm - 1) = 0 /\ forall k, k < r_len nm - 1 -> p_get p (r_off s + k) <> 0
  | Err e =>
    N.land t (ordinal_flag p) = 0 /\
    let rva := t mod 4294967296 in
    (slice (p_v p) rva 2 2 = Err e \/
     (exists hr, slice (p_v p) rva 2 2 = Ok hr) /\
       ((4294967296 <= rva + 2 /\ e = EOverflow) \/
        (rva + 2 < 4294967296 /\ (slice (p_v p) (rva + 2) 0 1 = Err e \/
           exists s, slice (p_v p) (rva + 2) 0 1 = Ok s /\ e = EEncoding /\ forall k, k < r_len s -> p_get p (r_off s + k) <> 0))))
  | Fault _ => False
  end.
Proof.
  unfold import_from_va. destruct (N.land t (ordinal_flag p) =? 0) eqn:Ef.
  2:{ split; [lia|reflexivity]. }
  assert (Hf : N.land t (ordinal_flag p) = 0) by lia.
  change W32 with 4294967296. set (rva := t mod 4294967296). unfold rd.
  pose proof (slice_no_fault (p_v p) rva 2 2) as Hnf1.
  destruct (slice (p_v p) rva 2 2) as [hr|e|f] eqn:E1; cbn [bind]; [|split; [exact Hf|left; reflexivity]|exact (Hnf1 f eq_refl)].
  unfold checked_add. destruct (rva + 2 <? 4294967296) eqn:E2.
  2:{ split; [exact Hf|]. right. split; [eexists; reflexivity|]. left. split; [lia|reflexivity]. }
  pose proof (rd_c_str_correct (p_get p) (slice (p_v p)) (rva + 2)) as Hc.
  pose proof (slice_no_fault (p_v p) (rva + 2) 0 1) as Hnf2.
  destruct (slice (p_v p) (rva + 2) 0 1) as [s|e|f] eqn:E3.
  - destruct (rd_c_str (p_get p) (slice (p_v p)) (rva + 2)) as [nm|e|f]; cbn [bind r_off].
    + destruct Hc as (C1 & C2 & C3 & C4 & C5). split; [exact Hf|]. split; [lia|].
      exists hr, s. split; [reflexivity|]. split; [change (N.to_nat 2) with 2%nat; apply le2_word|].
      split; [reflexivity|]. split; [exact C1|]. split; [exact C4|]. split; [exact C2|]. split; [exact C3|exact C5].
    + destruct Hc as [-> Hk]. split; [exact Hf|]. right. split; [eexists; reflexivity|]. right. split; [lia|].
      right. exists s. split; [reflexivity|]. split; [reflexivity|exact Hk].
    + exact Hc.
  - rewrite Hc. cbn [bind]. split; [exact Hf|]. right. split; [eexists; reflexivity|]. right. split; [lia|]. left. reflexivity.
  - exfalso. exact (Hnf2 f eq_refl).
Qed.

(* the ordinal flag is the top bit of the thunk *)
Lemma ordinal_flag_bit p t : N.land t (ordinal_flag p) = 0 <-> N.testbit t (if f_64 (p_f p) then 63 else 31) = false.
Proof.
  unfold ordinal_flag. destruct (f_64 (p_f p)).
  - change 9223372036854775808 with (2 ^ 63). split.
    + intros H. apply (f_equal (fun x => N.testbit x 63)) in H. rewrite N.land_spec, N.pow2_bits_true, N.bits_0 in H.
      rewrite andb_true_r in H. exact H.
    + intros H. apply N.bits_inj. intros k. rewrite N.land_spec, N.bits_0. destruct (N.eq_dec k 63) as [->|Hne].
      * rewrite H. reflexivity.
      * rewrite N.pow2_bits_false by lia. apply andb_false_r.
  - change 2147483648 with (2 ^ 31). split.
    + intros H. apply (f_equal (fun x => N.testbit x 31)) in H. rewrite N.land_spec, N.pow2_bits_true, N.bits_0 in H.
      rewrite andb_true_r in H. exact H.
    + intros H. apply N.bits_inj. intros k. rewrite N.land_spec, N.bits_0. destruct (N.eq_dec k 31) as [->|Hne].
      * rewrite H. reflexivity.
      * rewrite N.pow2_bits_false by lia. apply andb_false_r.
Qed.

Lemma shape_nonvacuous :
  exists d, descs ex_pe {| r_off := 320; r_len := 20 |} = [d] /\
    d = {| d_oft := dword_at (p_get ex_pe) 320; d_tds := dword_at (p_get ex_pe) 324; d_fwd := dword_at (p_get ex_pe) 328;
           d_name := dword_at (p_get ex_pe) 332; d_ft := dword_at (p_get ex_pe) 336 |} /\
    desc_iat ex_pe d = Ok {| r_off := 384; r_len := 8 |} /\
    thunk_values ex_pe {| r_off := 384; r_len := 8 |} = [dword_at (p_get ex_pe) 384; dword_at (p_get ex_pe) 388] /\
    dword_at (p_get ex_pe) 384 = 2147483655 /\ dword_at (p_get ex_pe) 392 = 0.
Proof. eexists. vm_compute. repeat split; reflexivity. Qed.
