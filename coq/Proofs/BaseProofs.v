(* General lemmas about byte lists, little-endian words, alignment and masks. *)
From PV.Model Require Import Machine.
Ltac Zify.zify_post_hook ::= Z.div_mod_to_equations.

Lemma lenN_app {A} (a b : list A) : lenN (a ++ b) = lenN a + lenN b.
Proof. unfold lenN. rewrite app_length. lia. Qed.

Lemma lenN_nil {A} : lenN (@nil A) = 0.
Proof. reflexivity. Qed.

Lemma lenN_cons {A} (x : A) l : lenN (x :: l) = 1 + lenN l.
Proof. unfold lenN. cbn [length]. lia. Qed.

Lemma lenN_skipn {A} (l : list A) n : lenN (skipn n l) = lenN l - N.of_nat n.
Proof. unfold lenN. rewrite skipn_length. lia. Qed.

Lemma nth_skipn {A} (l : list A) n i d : nth i (skipn n l) d = nth (n + i) l d.
Proof.
  revert l; induction n as [|n IH]; intros l; cbn [skipn plus]; [reflexivity|].
  destruct l as [|x l]; [destruct i; reflexivity|]. cbn [nth]. apply IH.
Qed.

Lemma skipn_skipn_nat {A} (l : list A) a b : skipn a (skipn b l) = skipn (b + a) l.
Proof.
  revert l; induction b as [|b IH]; intros l; cbn [skipn plus]; [reflexivity|].
  destruct l as [|x l]; [destruct a; reflexivity|]. apply IH.
Qed.

Lemma skipn_app_exact {A} (a b : list A) n : length a = n -> skipn n (a ++ b) = b.
Proof. intros <-. induction a as [|x a IH]; cbn [length skipn app]; [reflexivity|exact IH]. Qed.

Lemma byte_at_skipn l o i : byte_at (skipn (N.to_nat o) l) i = byte_at l (o + i).
Proof. unfold byte_at. rewrite nth_skipn. f_equal. lia. Qed.

Lemma u16_at_skipn l o i : u16_at (skipn (N.to_nat o) l) i = u16_at l (o + i).
Proof. unfold u16_at. rewrite !byte_at_skipn, !N.add_assoc. reflexivity. Qed.

Lemma u32_at_skipn l o i : u32_at (skipn (N.to_nat o) l) i = u32_at l (o + i).
Proof. unfold u32_at. rewrite !byte_at_skipn, !N.add_assoc. reflexivity. Qed.

Lemma byte_at_app_r a b i : lenN a <= i -> byte_at (a ++ b) i = byte_at b (i - lenN a).
Proof. unfold byte_at, lenN. intros H. rewrite app_nth2 by lia. f_equal. lia. Qed.

Lemma byte_at_app_l a b i : i < lenN a -> byte_at (a ++ b) i = byte_at a i.
Proof. unfold byte_at, lenN. intros H. rewrite app_nth1 by lia. reflexivity. Qed.

Lemma byte_at_lt l i : bytes_ok l -> byte_at l i < 256.
Proof.
  unfold byte_at, bytes_ok. intros H. destruct (Nat.lt_ge_cases (N.to_nat i) (length l)) as [Hl|Hl].
  - rewrite Forall_forall in H. apply H. apply nth_In. exact Hl.
  - rewrite nth_overflow by exact Hl. lia.
Qed.

Lemma u16_at_lt l i : bytes_ok l -> u16_at l i < 65536.
Proof. intros H. unfold u16_at. pose proof (byte_at_lt l i H). pose proof (byte_at_lt l (i+1) H). lia. Qed.

Lemma u32_at_lt l i : bytes_ok l -> u32_at l i < W32.
Proof.
  intros H. unfold u32_at, W32. pose proof (byte_at_lt l i H). pose proof (byte_at_lt l (i+1) H).
  pose proof (byte_at_lt l (i+2) H). pose proof (byte_at_lt l (i+3) H). lia.
Qed.

Lemma u32_at_le32 x r : x < W32 -> u32_at (le32 x ++ r) 0 = x.
Proof.
  unfold u32_at, byte_at, le32, W32. intros H.
  change (N.to_nat 0) with 0%nat. change (N.to_nat (0 + 1)) with 1%nat.
  change (N.to_nat (0 + 2)) with 2%nat. change (N.to_nat (0 + 3)) with 3%nat.
  cbn [nth app]. lia.
Qed.

Lemma u16_at_le16 x r : x < 65536 -> u16_at (le16 x ++ r) 0 = x.
Proof.
  unfold u16_at, byte_at, le16. intros H.
  change (N.to_nat 0) with 0%nat. change (N.to_nat (0 + 1)) with 1%nat.
  cbn [nth app]. lia.
Qed.

Lemma le32_bytes_ok x : bytes_ok (le32 x).
Proof. unfold bytes_ok, le32. repeat constructor; lia. Qed.
Lemma le16_bytes_ok x : bytes_ok (le16 x).
Proof. unfold bytes_ok, le16. repeat constructor; lia. Qed.
Lemma bytes_ok_app a b : bytes_ok a -> bytes_ok b -> bytes_ok (a ++ b).
Proof. unfold bytes_ok. intros; apply Forall_app; split; assumption. Qed.
Lemma bytes_ok_skipn l n : bytes_ok l -> bytes_ok (skipn n l).
Proof.
  unfold bytes_ok. rewrite !Forall_forall. intros H x Hx. apply H.
  rewrite <- (firstn_skipn n l). apply in_or_app. right; exact Hx.
Qed.

Lemma lenN_le32 x : lenN (le32 x) = 4.  Proof. reflexivity. Qed.
Lemma lenN_le16 x : lenN (le16 x) = 2.  Proof. reflexivity. Qed.

(* x.align_to(4) on a w-wide word equals the mathematical round-up when it does not wrap *)
Lemma align_to_4 w x : x + 3 < w -> align_to w 4 x = ((x + 3) / 4) * 4.
Proof. intros H. unfold align_to. change (4 - 1) with 3. rewrite N.mod_small by exact H. reflexivity. Qed.

(* masks and shifts as arithmetic *)
Lemma lor_disjoint_add a b k : a < 2 ^ k -> N.lor a (b * 2 ^ k) = a + b * 2 ^ k.
Proof.
  intros Ha. rewrite <- N.shiftl_mul_pow2.
  assert (Hl : N.land a (N.shiftl b k) = 0).
  { apply N.bits_inj_0. intros n. rewrite N.land_spec.
    destruct (N.lt_ge_cases n k) as [Hn|Hn].
    - rewrite N.shiftl_spec_low by exact Hn. apply andb_false_r.
    - destruct (N.eq_dec a 0) as [->|Hz]; [rewrite N.bits_0; reflexivity|].
      rewrite (N.bits_above_log2 a n); [reflexivity|].
      apply N.log2_lt_pow2 in Ha; [|lia]. lia. }
  rewrite <- N.lxor_lor by exact Hl. symmetry. apply N.add_nocarry_lxor. exact Hl.
Qed.
