(* Cross-cutting safety facts about the mapping / view / typed-read models (C01, C02, C03):
   every region a model function returns lies inside the buffer and is aligned as requested,
   and none of these functions faults (no panic, no out-of-fuel) for any arguments. *)
From PV.Model Require Import Machine Mapping Views Headers.
From PV.gen Require Import Layout.
From PV.Spec Require Import SafetySpec.
From PV.Proofs Require Import BaseProofs ViewsProofs.
Ltac Zify.zify_post_hook ::= Z.div_mod_to_equations.


Lemma aligned_to_spec a x : aligned_to a x = true <-> x mod a = 0.
Proof. unfold aligned_to. rewrite N.eqb_eq. reflexivity. Qed.

(* ---- Mapping.v ---- *)
Lemma range_file_in len secs rva min_size r :
  range_file len secs rva min_size = Ok r -> region_in len r /\ min_size <= r_len r.
Proof.
  induction secs as [|it rest IH]; cbn [range_file]; [discriminate|].
  destruct ((s_va it <=? rva) && (rva <? wadd32 (s_va it) (N.max (s_vs it) (s_srd it)))); [|exact IH].
  unfold get_range, get_from.
  destruct ((s_prd it <=? wadd32 (s_prd it) (s_srd it)) && (wadd32 (s_prd it) (s_srd it) <=? len)) eqn:E1; [|discriminate].
  cbn [r_len r_off].
  destruct (rva - s_va it <=? wadd32 (s_prd it) (s_srd it) - s_prd it) eqn:E2; [|discriminate].
  cbn [r_len r_off].
  destruct (min_size <=? wadd32 (s_prd it) (s_srd it) - s_prd it - (rva - s_va it)) eqn:E3; [|discriminate].
  intros H; injection H as <-. unfold region_in. cbn [r_len r_off]. lia.
Qed.

Lemma range_file_no_fault len secs rva min_size : no_fault (range_file len secs rva min_size).
Proof.
  unfold no_fault. induction secs as [|it rest IH]; cbn [range_file]; [discriminate|].
  destruct ((s_va it <=? rva) && (rva <? wadd32 (s_va it) (N.max (s_vs it) (s_srd it)))); [|exact IH].
  destruct (get_range len (s_prd it) (wadd32 (s_prd it) (s_srd it))); [|discriminate].
  destruct (get_from (r_len r) (rva - s_va it)); [destruct (min_size <=? r_len r0)|]; discriminate.
Qed.

Theorem slice_file_safe base len secs rva min_size align r :
  slice_file base len secs rva min_size align = Ok r -> slice_safe base len min_size align r.
Proof.
  unfold slice_file. destruct (rva =? 0); [discriminate|].
  destruct (negb (aligned_to align (wadd64 base rva))); [discriminate|].
  destruct (range_file len secs rva min_size) as [q| |] eqn:E; cbn [bind]; try discriminate.
  destruct (aligned_to align (base + r_off q)) eqn:Ea; cbn [negb]; [|discriminate].
  intros H; injection H as <-. apply range_file_in in E. apply aligned_to_spec in Ea. unfold slice_safe. tauto.
Qed.

Theorem slice_file_no_fault base len secs rva min_size align : no_fault (slice_file base len secs rva min_size align).
Proof.
  unfold no_fault, slice_file. intros f. destruct (rva =? 0); [discriminate|].
  destruct (negb (aligned_to align (wadd64 base rva))); [discriminate|].
  pose proof (range_file_no_fault len secs rva min_size) as Hn.
  destruct (range_file len secs rva min_size) as [q| |g]; cbn [bind]; try discriminate.
  - destruct (negb (aligned_to align (base + r_off q))); discriminate.
  - exfalso. exact (Hn g eq_refl).
Qed.

Lemma rva_to_file_offset_no_fault soh secs rva : no_fault (rva_to_file_offset soh secs rva).
Proof.
  unfold no_fault, rva_to_file_offset. intros f. destruct (rva <? soh); [discriminate|].
  induction secs as [|it rest IH]; cbn [rva_to_file_offset_secs]; [discriminate|].
  destruct ((s_va it <=? rva) && (rva <? wadd32 (s_va it) (N.max (s_vs it) (s_srd it)))); [|exact IH].
  destruct (checked_add W32 (s_prd it) (s_srd it)); [|discriminate].
  destruct (rva - s_va it <? s_srd it); [discriminate|]. destruct (rva - s_va it <? s_vs it); discriminate.
Qed.

Lemma file_offset_to_rva_no_fault soh secs fo : no_fault (file_offset_to_rva soh secs fo).
Proof.
  unfold no_fault, file_offset_to_rva. intros f. destruct (fo <? soh); [discriminate|].
  induction secs as [|it rest IH]; cbn [file_offset_to_rva_secs]; [discriminate|].
  destruct ((s_prd it <=? fo) && (fo <? wadd32 (s_prd it) (s_srd it))); [|exact IH].
  destruct (checked_add W32 (s_va it) (s_vs it)); [|discriminate].
  destruct (fo mod W32 - s_prd it <? s_vs it); [discriminate|]. destruct (fo mod W32 - s_prd it <? s_srd it); discriminate.
Qed.

Lemma get_section_bytes_safe len address size r : get_section_bytes len address size = Ok r -> region_in len r.
Proof.
  unfold get_section_bytes, get_range. destruct (address =? 0); [discriminate|].
  destruct ((address <=? wadd32 address size) && (wadd32 address size <=? len)) eqn:E; [|discriminate].
  intros H; injection H as <-. unfold region_in. cbn [r_off r_len]. lia.
Qed.

(* ---- Views.v ---- *)

Theorem slice_section_safe addr len rva min_size align r : placed addr len ->
  slice_section addr len rva min_size align = Ok r -> slice_safe addr len min_size align r.
Proof.
  unfold placed, slice_section, get_from. intros Hp. destruct (rva =? 0); [discriminate|].
  destruct (aligned_to align (wadd64 addr rva)) eqn:Ea; cbn [negb]; [|discriminate].
  destruct (rva <=? len) eqn:E1; [|discriminate]. cbn [r_len].
  destruct (min_size <=? len - rva) eqn:E2; [|discriminate].
  intros H; injection H as <-. apply aligned_to_spec in Ea. unfold wadd64 in Ea.
  rewrite (N.mod_small (addr + rva) W64) in Ea by lia. unfold slice_safe, region_in. cbn [r_off r_len]. repeat split; [lia|lia|exact Ea].
Qed.

Theorem read_section_safe v va min_size align r : placed (v_addr v) (v_len v) ->
  read_section v va min_size align = Ok r -> slice_safe (v_addr v) (v_len v) min_size align r.
Proof.
  unfold placed, read_section, get_from. intros Hp. destruct (va =? 0); [discriminate|].
  destruct ((va <? v_base v) || (v_soi v <? va - v_base v)); [discriminate|].
  destruct (aligned_to align (wadd64 (v_addr v) (va - v_base v))) eqn:Ea; cbn [negb]; [|discriminate].
  destruct (va - v_base v <=? v_len v) eqn:E1; [|discriminate]. cbn [r_len].
  destruct (min_size <=? v_len v - (va - v_base v)) eqn:E2; [|discriminate].
  intros H; injection H as <-. apply aligned_to_spec in Ea. unfold wadd64 in Ea.
  rewrite (N.mod_small (v_addr v + (va - v_base v)) W64) in Ea by lia. unfold slice_safe, region_in. cbn [r_off r_len]. repeat split; [lia|lia|exact Ea].
Qed.

Theorem read_file_safe v va min_size align r :
  read_file v va min_size align = Ok r -> slice_safe (v_addr v) (v_len v) min_size align r.
Proof.
  unfold read_file. destruct (va =? 0); [discriminate|].
  destruct ((va <? v_base v) || (v_soi v <? va - v_base v)); [discriminate|].
  destruct (negb (aligned_to align (wadd64 (v_addr v) ((va - v_base v) mod W32)))); [discriminate|].
  destruct (range_file (v_len v) (v_secs v) ((va - v_base v) mod W32) min_size) as [q| |] eqn:E; cbn [bind]; try discriminate.
  destruct (aligned_to align (v_addr v + r_off q)) eqn:Ea; cbn [negb]; [|discriminate].
  intros H; injection H as <-. apply range_file_in in E. apply aligned_to_spec in Ea. unfold slice_safe. tauto.
Qed.

Theorem slice_safe_view v rva min_size align r : placed (v_addr v) (v_len v) ->
  slice v rva min_size align = Ok r -> slice_safe (v_addr v) (v_len v) min_size align r.
Proof.
  unfold slice. intros Hp. destruct (v_file v); [apply slice_file_safe|apply slice_section_safe; exact Hp].
Qed.
Theorem read_safe_view v va min_size align r : placed (v_addr v) (v_len v) ->
  read v va min_size align = Ok r -> slice_safe (v_addr v) (v_len v) min_size align r.
Proof.
  unfold read. intros Hp. destruct (v_file v); [apply read_file_safe|apply read_section_safe; exact Hp].
Qed.

Theorem slice_no_fault v rva min_size align : no_fault (slice v rva min_size align).
Proof.
  unfold slice. destruct (v_file v); [apply slice_file_no_fault|].
  unfold no_fault, slice_section. intros f. destruct (rva =? 0); [discriminate|].
  destruct (negb (aligned_to align (wadd64 (v_addr v) rva))); [discriminate|].
  destruct (get_from (v_len v) rva); [destruct (min_size <=? r_len r)|]; discriminate.
Qed.
Theorem read_no_fault v va min_size align : no_fault (read v va min_size align).
Proof.
  unfold read, no_fault. intros f. destruct (v_file v).
  - unfold read_file. destruct (va =? 0); [discriminate|].
    destruct ((va <? v_base v) || (v_soi v <? va - v_base v)); [discriminate|].
    destruct (negb (aligned_to align (wadd64 (v_addr v) ((va - v_base v) mod W32)))); [discriminate|].
    pose proof (range_file_no_fault (v_len v) (v_secs v) ((va - v_base v) mod W32) min_size) as Hn.
    destruct (range_file (v_len v) (v_secs v) ((va - v_base v) mod W32) min_size) as [q| |g]; cbn [bind]; try discriminate.
    + destruct (negb (aligned_to align (v_addr v + r_off q))); discriminate.
    + exfalso. exact (Hn g eq_refl).
  - unfold read_section. destruct (va =? 0); [discriminate|].
    destruct ((va <? v_base v) || (v_soi v <? va - v_base v)); [discriminate|].
    destruct (negb (aligned_to align (wadd64 (v_addr v) (va - v_base v)))); [discriminate|].
    destruct (get_from (v_len v) (va - v_base v)); [destruct (min_size <=? r_len r)|]; discriminate.
Qed.
Theorem rva_to_va_no_fault v rva : no_fault (rva_to_va v rva).
Proof.
  unfold no_fault, rva_to_va. intros f. destruct (rva =? 0); [discriminate|]. destruct (rva <? v_soi v); [|discriminate].
  destruct (checked_add (v_w v) (v_base v) rva); discriminate.
Qed.
Theorem va_to_rva_no_fault v va : no_fault (va_to_rva v va).
Proof.
  unfold no_fault, va_to_rva. intros f. destruct (va =? 0); [discriminate|].
  destruct ((va <? v_base v) || (v_soi v <? va - v_base v)); discriminate.
Qed.

(* ---- typed reads over any slicing function that keeps the promise above ---- *)
Section TypedSafe.
  Variable get : N -> N.
  Variable sl : N -> N -> N -> res region.
  Variable addr len : N.
  Hypothesis sl_safe : forall a m al r, sl a m al = Ok r -> slice_safe addr len m al r.
  Hypothesis sl_no_fault : forall a m al, no_fault (sl a m al).


  Lemma rd_safe a size align r : rd sl a size align = Ok r -> typed_safe addr len align r /\ r_len r = size.
  Proof.
    unfold rd. destruct (sl a size align) as [q| |] eqn:E; cbn [bind]; try discriminate.
    intros H; injection H as <-. apply sl_safe in E. destruct E as [Hin [Hm Ha]].
    unfold typed_safe, region_in in *. cbn [r_off r_len]. repeat split; [lia|exact Ha].
  Qed.
  Lemma rd_copy_safe a size r : rd_copy sl a size = Ok r -> region_in len r /\ r_len r = size.
  Proof.
    unfold rd_copy. destruct (sl a size 1) as [q| |] eqn:E; cbn [bind]; try discriminate.
    intros H; injection H as <-. apply sl_safe in E. destruct E as [Hin [Hm Ha]].
    unfold region_in in *. cbn [r_off r_len]. split; [lia|reflexivity].
  Qed.
  Lemma rd_slice_safe a size align n r : rd_slice sl a size align n = Ok r -> typed_safe addr len align r /\ r_len r = size * n.
  Proof.
    unfold rd_slice, checked_mul. destruct (size * n <? W64); [|discriminate].
    destruct (sl a (size * n) align) as [q| |] eqn:E; cbn [bind]; try discriminate.
    intros H; injection H as <-. apply sl_safe in E. destruct E as [Hin [Hm Ha]].
    unfold typed_safe, region_in in *. cbn [r_off r_len]. repeat split; [lia|exact Ha].
  Qed.
  Lemma scan_f_bound fuel p off blen size n k : scan_f get fuel p off blen size n = Ok k -> k * size + size <= blen /\ n <= k.
  Proof.
    revert n. induction fuel as [|fuel IH]; intros n; cbn [scan_f]; [discriminate|].
    destruct (blen <? n * size + size) eqn:E; [discriminate|].
    destruct (p (le_value get (off + n * size) (N.to_nat size))).
    - intros H; injection H as <-. lia.
    - intros H. apply IH in H. lia.
  Qed.
  Lemma rd_slice_f_safe a size align p r : rd_slice_f get sl a size align p = Ok r ->
    typed_safe addr len align r /\ exists n, r_len r = n * size.
  Proof.
    unfold rd_slice_f. destruct (sl a 0 align) as [q| |] eqn:E; cbn [bind]; try discriminate.
    destruct (scan_f get (S (N.to_nat (r_len q / size))) p (r_off q) (r_len q) size 0) as [k| |] eqn:Es; cbn [bind]; try discriminate.
    intros H; injection H as <-. apply sl_safe in E. destruct E as [Hin [Hm Ha]]. apply scan_f_bound in Es.
    unfold typed_safe, region_in in *. cbn [r_off r_len]. split; [split; [lia|exact Ha]|exists k; reflexivity].
  Qed.
  Lemma find_nul_bound off n i : find_nul get off n = Some i -> i < N.of_nat n.
  Proof.
    revert off i. induction n as [|n IH]; intros off i; cbn [find_nul]; [discriminate|].
    destruct (get off =? 0); [intros H; injection H as <-; lia|].
    destruct (find_nul get (off + 1) n) as [j|] eqn:E; [|discriminate]. intros H; injection H as <-. apply IH in E. lia.
  Qed.
  Lemma rd_c_str_safe a r : rd_c_str get sl a = Ok r -> region_in len r /\ 0 < r_len r.
  Proof.
    unfold rd_c_str. destruct (sl a 0 1) as [q| |] eqn:E; cbn [bind]; try discriminate.
    destruct (find_nul get (r_off q) (N.to_nat (r_len q))) as [i|] eqn:Ef; [|discriminate].
    intros H; injection H as <-. apply sl_safe in E. destruct E as [Hin _]. apply find_nul_bound in Ef.
    unfold region_in in *. cbn [r_off r_len]. rewrite N2Nat.id in Ef. lia.
  Qed.

  (* none of them faults: no panic, and the sentinel scan never runs out of fuel *)
  Lemma rd_no_fault a size align : no_fault (rd sl a size align).
  Proof. unfold no_fault, rd. intros f. pose proof (sl_no_fault a size align) as Hn. destruct (sl a size align) as [q| |g]; cbn [bind]; try discriminate. exfalso; exact (Hn g eq_refl). Qed.
  Lemma rd_copy_no_fault a size : no_fault (rd_copy sl a size).
  Proof. unfold no_fault, rd_copy. intros f. pose proof (sl_no_fault a size 1) as Hn. destruct (sl a size 1) as [q| |g]; cbn [bind]; try discriminate. exfalso; exact (Hn g eq_refl). Qed.
  Lemma rd_slice_no_fault a size align n : no_fault (rd_slice sl a size align n).
  Proof.
    unfold no_fault, rd_slice. intros f. destruct (checked_mul W64 size n) as [m|]; [|discriminate].
    pose proof (sl_no_fault a m align) as Hn. destruct (sl a m align) as [q| |g]; cbn [bind]; try discriminate. exfalso; exact (Hn g eq_refl).
  Qed.
  Lemma rd_slice_f_no_fault a size align p : 0 < size -> no_fault (rd_slice_f get sl a size align p).
  Proof.
    intros Hs f Hf. pose proof (rd_slice_f_correct get sl a size align p Hs) as H.
    pose proof (sl_no_fault a 0 align) as Hn.
    destruct (sl a 0 align) as [q|e|g].
    - rewrite Hf in H. exact H.
    - rewrite H in Hf. discriminate.
    - exact (Hn g eq_refl).
  Qed.
  Lemma rd_c_str_no_fault a : no_fault (rd_c_str get sl a).
  Proof.
    intros f Hf. pose proof (rd_c_str_correct get sl a) as H. pose proof (sl_no_fault a 0 1) as Hn.
    destruct (sl a 0 1) as [q|e|g].
    - rewrite Hf in H. exact H.
    - rewrite H in Hf. discriminate.
    - exact (Hn g eq_refl).
  Qed.
End TypedSafe.

(* ---- Headers.v ---- *)
Theorem validate_no_fault f m : no_fault (validate f m).
Proof.
  unfold no_fault, validate. intros g.
  repeat match goal with |- context [if ?c then _ else _] => destruct c end; discriminate.
Qed.
Theorem wrap_from_bytes_no_fault m : no_fault (wrap_from_bytes m).
Proof.
  unfold no_fault, wrap_from_bytes. intros g.
  pose proof (validate_no_fault fmt64 m) as H64. pose proof (validate_no_fault fmt32 m) as H32.
  destruct (validate fmt64 m) as [x|e|h]; [discriminate| |exfalso; exact (H64 h eq_refl)].
  destruct e; try discriminate; destruct (validate fmt32 m) as [y|e2|h2]; try discriminate; exfalso; exact (H32 h2 eq_refl).
Qed.

(* pe.rs:471 rich_structure and headers.rs:32 check_sum reinterpret the image as len/4 dwords at offset 0:
   after the validation gate the buffer address is a multiple of 4 and the dword view ends inside the buffer *)
Theorem dword_view_safe f m soi : validate f m = Ok soi ->
  (m_addr m + 0) mod 4 = 0 /\ 0 + 4 * (m_len m / 4) <= m_len m.
Proof.
  unfold validate. destruct (m_len m <? IMAGE_DOS_HEADER_size); [discriminate|].
  destruct (aligned_to 4 (m_addr m)) eqn:Ea; cbn [negb]; [|discriminate]. intros _.
  apply aligned_to_spec in Ea. split; [rewrite N.add_0_r; exact Ea|lia].
Qed.

(* util/align.rs tests alignment with a mask: [x & (a-1) == 0], after debug_assert!(a.is_power_of_two()).  For a
   power of two the mask test is the divisibility test the models use; for anything else the Rust code fails its
   debug assertion (checked builds) or tests a different predicate (optimised builds), so the statements about
   [slice]/[read] carry [is_pow2 align] - the documented precondition of the API. *)
Definition is_pow2 (a : N) : Prop := exists k, a = 2 ^ k.
Lemma pow2_mask_is_mod a x : is_pow2 a -> (N.land x (a - 1) =? 0) = aligned_to a x.
Proof.
  intros [k ->]. unfold aligned_to. replace (2 ^ k - 1) with (N.ones k) by (rewrite N.ones_equiv, N.sub_1_r; reflexivity).
  rewrite N.land_ones. reflexivity.
Qed.
Lemma slice_safe_view_pow2 v rva min_size align r : is_pow2 align -> placed (v_addr v) (v_len v) ->
  slice v rva min_size align = Ok r -> slice_safe (v_addr v) (v_len v) min_size align r.
Proof. intros _. apply slice_safe_view. Qed.
Lemma read_safe_view_pow2 v va min_size align r : is_pow2 align -> placed (v_addr v) (v_len v) ->
  read v va min_size align = Ok r -> slice_safe (v_addr v) (v_len v) min_size align r.
Proof. intros _. apply read_safe_view. Qed.
Lemma slice_no_fault_pow2 v rva min_size align : is_pow2 align -> no_fault (slice v rva min_size align).
Proof. intros _. apply slice_no_fault. Qed.
Lemma read_no_fault_pow2 v va min_size align : is_pow2 align -> no_fault (read v va min_size align).
Proof. intros _. apply read_no_fault. Qed.
