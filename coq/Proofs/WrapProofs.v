(* Proofs for C19: variant selection, delegation diagrams, the computed JSON detail,
   null-ness of the `.ok()` fields. *)
From PV.Model Require Import Machine Mapping Views Headers Wrap.
From PV.gen Require Import Layout.
From PV.Spec Require Import HeaderSpec WrapSpec.
From PV.Proofs Require Import BaseProofs HeadersProofs.
Ltac Zify.zify_post_hook ::= Z.div_mod_to_equations.

(* ------------------------------------------------------------------ variant selection *)

Lemma acceptb_iff b m : acceptb b m = true <-> accept b m.
Proof.
  unfold acceptb, accept.
  rewrite !andb_true_iff, !orb_true_iff, !N.leb_le, !N.eqb_eq. tauto.
Qed.

Lemma accept_exclusive m : accept true m -> accept false m -> False.
Proof. unfold accept, MAGIC. intros A B. assert (s_magic m = 523) by tauto. assert (s_magic m = 267) by tauto. lia. Qed.

Lemma validate_no_fault f m : no_fault (validate f m).
Proof.
  intros x. unfold validate.
  repeat match goal with |- context [if ?c then _ else _] => destruct c end; discriminate.
Qed.

Lemma wrap_no_fault m : no_fault (wrap_from_bytes m).
Proof.
  intros x. unfold wrap_from_bytes.
  pose proof (validate_no_fault fmt64 m) as N64. pose proof (validate_no_fault fmt32 m) as N32.
  destruct (validate fmt64 m) as [?|[]|y]; try discriminate; try (exfalso; exact (N64 y eq_refl));
    destruct (validate fmt32 m) as [?|?|z]; try discriminate; exfalso; exact (N32 z eq_refl).
Qed.

(* T64 iff the PE32+ parser accepts; T32 iff the PE32 parser accepts (which includes magic = 0x10b) *)
Theorem select_64 m : wrap_from_bytes m = Ok T64 <-> exists soi, validate fmt64 m = Ok soi.
Proof.
  destruct (wrap_correct m) as [A _]. rewrite A. split.
  - intros H. exists (s_soi m). apply validate_accept64. tauto.
  - intros [soi H]. apply validate_accept64 in H. tauto.
Qed.
Theorem select_32 m : wrap_from_bytes m = Ok T32 <-> exists soi, validate fmt32 m = Ok soi.
Proof.
  destruct (wrap_correct m) as [_ B]. rewrite B. split.
  - intros H. exists (s_soi m). apply validate_accept32. tauto.
  - intros [soi H]. apply validate_accept32 in H. tauto.
Qed.
Theorem select_err m e : wrap_from_bytes m = Err e ->
  (forall soi, validate fmt32 m <> Ok soi) /\ (forall soi, validate fmt64 m <> Ok soi).
Proof.
  intros H. split; intros soi V.
  - assert (W : wrap_from_bytes m = Ok T32) by (apply select_32; eauto). congruence.
  - assert (W : wrap_from_bytes m = Ok T64) by (apply select_64; eauto). congruence.
Qed.

(* the constructor as a total function of the buffer is the spec's selection *)
Theorem select_is_spec m :
  match select_spec m with
  | Some w => wrap_from_bytes m = Ok w
  | None => exists e, wrap_from_bytes m = Err e
  end.
Proof.
  unfold select_spec.
  destruct (acceptb true m) eqn:E64.
  - apply (proj1 (wrap_correct m)), acceptb_iff, E64.
  - destruct (acceptb false m) eqn:E32.
    + apply (proj2 (wrap_correct m)), acceptb_iff, E32.
    + destruct (wrap_from_bytes m) as [[]|e|x] eqn:W.
      * apply (proj2 (wrap_correct m)), acceptb_iff in W. congruence.
      * apply (proj1 (wrap_correct m)), acceptb_iff in W. congruence.
      * eauto.
      * exfalso. exact (wrap_no_fault m x W).
Qed.

Lemma select_magic m w : wrap_from_bytes m = Ok w -> fmt_by_magic m = Some (fmt_of w).
Proof.
  intros H. destruct (wrap_magic m) as [A B]. unfold fmt_by_magic.
  destruct w; [rewrite (B H)|rewrite (A H)]; reflexivity.
Qed.

(* ------------------------------------------------------------------ delegation *)

Lemma dispatch_fmt {A} (w : wrapped) (op : fmt -> A) : dispatch w op = op (fmt_of w).
Proof. destruct w; reflexivity. Qed.

(* every wrapper method on the value the constructor returned = the format-specific
   operation of the format named by the optional-header magic, whose own constructor accepts *)
Theorem wrapper_mirrors m w : wrap_from_bytes m = Ok w ->
  fmt_by_magic m = Some (fmt_of w) /\
  (exists soi, validate (fmt_of w) m = Ok soi) /\
  forall (A : Type) (op : fmt -> A), dispatch w op = op (fmt_of w).
Proof.
  intros H. split; [exact (select_magic m w H)|]. split.
  - destruct w; [apply select_32|apply select_64]; exact H.
  - intros A op. apply dispatch_fmt.
Qed.

Theorem delegation_diagrams w file m :
  wrap_accessors w m = op_accessors (fmt_of w) m /\
  wrap_data_directory w m = op_data_directory (fmt_of w) m /\
  wrap_section_headers w m = op_section_headers (fmt_of w) m /\
  (forall rva, wrap_by_rva w m rva = op_by_rva (fmt_of w) m rva) /\
  (forall rva n a, wrap_slice w file m rva n a = op_slice (fmt_of w) file m rva n a) /\
  (forall rva, wrap_slice_bytes w file m rva = op_slice_bytes (fmt_of w) file m rva) /\
  (forall i, wrap_get_section_bytes w file m i = op_get_section_bytes (fmt_of w) file m i) /\
  (forall rva s a, wrap_derva w file m rva s a = op_derva (fmt_of w) file m rva s a) /\
  (forall rva s, wrap_derva_copy w file m rva s = op_derva_copy (fmt_of w) file m rva s) /\
  (forall rva s a n, wrap_derva_slice w file m rva s a n = op_derva_slice (fmt_of w) file m rva s a n) /\
  (forall rva s a x, wrap_derva_slice_s w file m rva s a x = op_derva_slice_s (fmt_of w) file m rva s a x) /\
  (forall rva s a p, wrap_derva_slice_f w file m rva s a p = op_derva_slice_f (fmt_of w) file m rva s a p) /\
  (forall rva, wrap_derva_c_str w file m rva = op_derva_c_str (fmt_of w) file m rva) /\
  wrap_check_sum w m = op_check_sum (fmt_of w) m /\
  wrap_code_range w m = op_code_range (fmt_of w) m /\
  wrap_image_range w m = op_image_range (fmt_of w) m.
Proof. destruct w; repeat split; reflexivity. Qed.

(* the two format-specific views of one accepted buffer differ only in what the format
   prescribes: the width of Va and where ImageBase / SizeOf* are read *)
Lemma pe_view_common f file m :
  v_file (pe_view f file m) = file /\ v_addr (pe_view f file m) = m_addr m /\
  v_len (pe_view f file m) = m_len m /\ v_secs (pe_view f file m) = sections f m.
Proof. repeat split. Qed.

(* get_section_bytes does not depend on the format at all (wrap/pe.rs:124 calls the free function) *)
Lemma sections_fmt_indep m : sections fmt32 m = sections fmt64 m.
Proof. reflexivity. Qed.
Lemma get_section_bytes_fmt_indep file m i :
  op_get_section_bytes fmt32 file m i = op_get_section_bytes fmt64 file m i.
Proof. reflexivity. Qed.

(* ------------------------------------------------------------------ the JSON detail (F24) *)

Lemma dd_pos_is_by_rva secs : forall idx rva, dd_pos secs idx rva = Ok (by_rva_secs secs idx rva).
Proof.
  induction secs as [|s secs IH]; intros idx rva; cbn [dd_pos by_rva_secs]; [reflexivity|].
  destruct (s_va s <=? rva); cbn [andb].
  - destruct (rva <? wadd32 (s_va s) (s_vs s)); [reflexivity|apply IH].
  - apply IH.
Qed.

Lemma dd_pos_no_fault secs idx rva : no_fault (dd_pos secs idx rva).
Proof. intros x. rewrite dd_pos_is_by_rva. discriminate. Qed.

(* the code as it stood computes the same position whenever no section's end wraps *)
Lemma dd_pos_orig_agrees secs : Forall (fun s => s_va s + s_vs s < W32) secs ->
  forall idx rva, dd_pos_orig secs idx rva = dd_pos secs idx rva.
Proof.
  induction 1 as [|s secs Hs _ IH]; intros idx rva; cbn [dd_pos_orig dd_pos]; [reflexivity|].
  destruct (s_va s <=? rva); [|apply IH].
  unfold chk_add, wadd32. destruct (s_va s + s_vs s <? W32) eqn:E; [|lia].
  cbn [bind]. rewrite N.mod_small by lia. destruct (rva <? s_va s + s_vs s); [reflexivity|apply IH].
Qed.

(* ... and panics exactly when a section whose end wraps is reached with VirtualAddress <= rva *)
Lemma dd_pos_orig_faults s rest idx rva :
  s_va s <= rva -> W32 <= s_va s + s_vs s -> dd_pos_orig (s :: rest) idx rva = Fault POverflow.
Proof.
  intros A B. cbn [dd_pos_orig]. destruct (s_va s <=? rva) eqn:E; [|lia].
  unfold chk_add. destruct (s_va s + s_vs s <? W32) eqn:E2; [lia|reflexivity].
Qed.

Lemma f24_dd_pos_orig_refuted :
  let s := {| s_va := 4294963200; s_vs := 8192; s_prd := 1024; s_srd := 512 |} in
  section_ok s /\ dd_pos_orig [s] 0 4294963200 = Fault POverflow /\ dd_pos [s] 0 4294963200 = Ok None.
Proof. vm_compute. repeat split; reflexivity. Qed.

Lemma map_res_ok {A B} (g : A -> res B) (h : A -> B) l : (forall x, g x = Ok (h x)) -> map_res g l = Ok (map h l).
Proof. intros H. induction l as [|x t IH]; cbn [map_res map]; [reflexivity|]. rewrite H, IH. reflexivity. Qed.

(* the serialized table equals, entry by entry, what the accessor by_rva returns; no panic *)
Theorem details_eq_accessor f m : details_dd_sections f m = Ok (details_spec f m).
Proof.
  unfold details_dd_sections, details_spec. apply map_res_ok. intros d. apply dd_pos_is_by_rva.
Qed.
Theorem details_no_fault f m : no_fault (details_dd_sections f m).
Proof. intros x. rewrite details_eq_accessor. discriminate. Qed.
Theorem details_oracle_sound f m obs : details_ok f m obs = true <-> details_dd_sections f m = Ok obs.
Proof.
  rewrite details_eq_accessor. unfold details_ok. generalize (details_spec f m) as l.
  induction obs as [|x obs IH]; intros [|y l]; cbn [optN_list_eqb]; split; intros H; try discriminate; try reflexivity.
  - apply andb_true_iff in H. destruct H as [H1 H2]. apply IH in H2. injection H2 as <-.
    destruct x, y; cbn [optN_eqb] in H1; try discriminate; [apply N.eqb_eq in H1; subst|]; reflexivity.
  - injection H as <- <-. apply andb_true_iff. split.
    + destruct y; cbn [optN_eqb]; [apply N.eqb_refl|reflexivity].
    + apply IH. reflexivity.
Qed.

(* ------------------------------------------------------------------ `.ok()` fields *)

Lemma json_null_iff_err {A} (r : res A) : no_fault r -> (json_is_null r = true <-> exists e, r = Err e).
Proof.
  intros NF. destruct r as [a|e|x]; cbn [json_is_null]; split; intros H; try discriminate; eauto.
  - destruct H as [e H]. discriminate.
  - exfalso. exact (NF x eq_refl).
Qed.

Lemma bind_no_fault {A B} (r : res A) (k : A -> res B) : no_fault r -> (forall a, no_fault (k a)) -> no_fault (bind r k).
Proof. intros N1 N2 x. destruct r as [a|e|y]; cbn [bind]; [apply N2|discriminate|intros H; exact (N1 y eq_refl)]. Qed.

Lemma range_file_no_fault len secs rva n : no_fault (range_file len secs rva n).
Proof.
  intros x. induction secs as [|s secs IH]; cbn [range_file]; [discriminate|].
  destruct ((s_va s <=? rva) && (rva <? wadd32 (s_va s) (N.max (s_vs s) (s_srd s)))); [|exact IH].
  destruct (get_range len (s_prd s) (wadd32 (s_prd s) (s_srd s))); [|discriminate].
  destruct (get_from (r_len r) (rva - s_va s)); [|discriminate].
  destruct (n <=? r_len r0); discriminate.
Qed.

Lemma slice_no_fault v rva n a : no_fault (slice v rva n a).
Proof.
  intros x. unfold slice, slice_file, slice_section.
  destruct (v_file v).
  - destruct (rva =? 0); [discriminate|]. destruct (negb (aligned_to a (wadd64 (v_addr v) rva))); [discriminate|].
    pose proof (range_file_no_fault (v_len v) (v_secs v) rva n) as NF.
    destruct (range_file (v_len v) (v_secs v) rva n) as [r|e|y]; cbn [bind]; [|discriminate|intros H; exact (NF y eq_refl)].
    destruct (negb (aligned_to a (v_addr v + r_off r))); discriminate.
  - destruct (rva =? 0); [discriminate|]. destruct (negb (aligned_to a (wadd64 (v_addr v) rva))); [discriminate|].
    destruct (get_from (v_len v) rva); [|discriminate]. destruct (n <=? r_len r); discriminate.
Qed.

Lemma op_derva_no_fault f file m rva s a : no_fault (op_derva f file m rva s a).
Proof. unfold op_derva, rd. apply bind_no_fault; [apply slice_no_fault|intros r x; discriminate]. Qed.
Lemma op_derva_slice_no_fault f file m rva s a n : no_fault (op_derva_slice f file m rva s a n).
Proof.
  unfold op_derva_slice, rd_slice. destruct (checked_mul W64 s n); [|intros x; discriminate].
  apply bind_no_fault; [apply slice_no_fault|intros r x; discriminate].
Qed.
Lemma dir_entry_no_fault f m i : no_fault (dir_entry f m i).
Proof. intros x. unfold dir_entry. destruct (data_dir f m i); discriminate. Qed.

Theorem accessors_no_fault f file m :
  no_fault (acc_exports f file m) /\ no_fault (acc_tls f file m) /\ no_fault (acc_load_config f file m) /\
  no_fault (acc_debug f file m) /\ no_fault (acc_base_relocs f file m) /\ no_fault (acc_security f file m).
Proof.
  repeat apply conj.
  - apply bind_no_fault; [apply dir_entry_no_fault|intros d; apply op_derva_no_fault].
  - apply bind_no_fault; [apply dir_entry_no_fault|intros d]. destruct (f_64 f); apply op_derva_no_fault.
  - apply bind_no_fault; [apply dir_entry_no_fault|intros d]. destruct (f_64 f); apply op_derva_no_fault.
  - apply bind_no_fault; [apply dir_entry_no_fault|intros d].
    destruct (negb (snd d mod IMAGE_DEBUG_DIRECTORY_size =? 0)); [intros x; discriminate|apply op_derva_slice_no_fault].
  - apply bind_no_fault; [apply dir_entry_no_fault|intros d].
    apply bind_no_fault; [apply slice_no_fault|intros r x; discriminate].
  - unfold acc_security, acc_security_gen. destruct (negb file); [intros x; discriminate|].
    apply bind_no_fault; [apply dir_entry_no_fault|intros d].
    destruct (fst d =? 0); [intros x; discriminate|].
    destruct (negb (aligned_to 8 (fst d)) || negb (aligned_to 8 (snd d))); [intros x; discriminate|].
    destruct (snd d =? 0); [intros x; discriminate|].
    destruct (checked_add W64 (fst d) (snd d)); cbn [bind]; [|intros x; discriminate].
    destruct (get_range (m_len m) (fst d) n); intros x; discriminate.
Qed.

(* each modelled `.ok()` field of serialize_pe is null exactly when its accessor returns an error *)
Theorem ok_fields_null_iff_err f file m :
  (json_is_null (acc_exports f file m) = true <-> exists e, acc_exports f file m = Err e) /\
  (json_is_null (acc_tls f file m) = true <-> exists e, acc_tls f file m = Err e) /\
  (json_is_null (acc_load_config f file m) = true <-> exists e, acc_load_config f file m = Err e) /\
  (json_is_null (acc_debug f file m) = true <-> exists e, acc_debug f file m = Err e) /\
  (json_is_null (acc_base_relocs f file m) = true <-> exists e, acc_base_relocs f file m = Err e) /\
  (json_is_null (acc_security f file m) = true <-> exists e, acc_security f file m = Err e).
Proof.
  destruct (accessors_no_fault f file m) as (A & B & C & D & E & F).
  repeat apply conj; apply json_null_iff_err; assumption.
Qed.

Lemma null_ok_sound {A} (r : res A) b : no_fault r -> (null_ok r b = true <-> json_is_null r = b).
Proof.
  intros NF. destruct r as [a|e|x]; cbn [null_ok json_is_null]; destruct b; cbn [negb]; split; intros H; try discriminate; try reflexivity.
  exfalso. exact (NF x eq_refl).
Qed.

(* ------------------------------------------------------------------ witnesses *)

(* a PE32 image of 0x400 bytes with one section at 0xFFFFF000 of size 0x2000 and sixteen data
   directories, the first of which points into that section (F24) and the fifth of which
   (security) ends beyond 2^32 (F8) *)
Definition le32l (x : N) : list N := [x mod 256; (x / 256) mod 256; (x / 65536) mod 256; (x / 16777216) mod 256].
Definition f24_image : list N :=
  [77;90] ++ repeat 0 58 ++ [64;0;0;0]                                   (* DOS header, e_lfanew = 0x40 *)
  ++ [80;69;0;0] ++ [76;1; 1;0] ++ repeat 0 12 ++ [224;0; 2;1]          (* PE, 1 section, SizeOfOptionalHeader 0xE0 *)
  ++ [11;1] ++ repeat 0 54 ++ le32l 12288 ++ le32l 1024 ++ repeat 0 28 ++ le32l 16   (* magic 0x10b, SizeOfImage, SizeOfHeaders, NumberOfRvaAndSizes *)
  ++ le32l 4294963200 ++ le32l 40 ++ repeat 0 24 ++ le32l 4294967288 ++ le32l 8 ++ repeat 0 88   (* data directories *)
  ++ [46;116;0;0;0;0;0;0] ++ le32l 8192 ++ le32l 4294963200 ++ le32l 512 ++ le32l 512 ++ repeat 0 16   (* section header *)
  ++ repeat 0 (1024 - 352).
Definition f24_mem : mem := bytes_mem 0 f24_image.

Lemma f24_details_orig_refuted :
  wrap_from_bytes f24_mem = Ok T32 /\
  details_dd_sections_orig fmt32 f24_mem = Fault POverflow /\
  details_dd_sections fmt32 f24_mem = Ok (None :: repeat None 15).
Proof. vm_compute. repeat split; reflexivity. Qed.

Lemma f8_security_orig_refuted :
  acc_security_orig fmt32 true f24_mem = Fault POverflow /\ acc_security fmt32 true f24_mem = Err EBounds.
Proof. vm_compute. split; reflexivity. Qed.

Lemma nonvacuous_example :
  wrap_from_bytes f24_mem = Ok T32 /\ select_spec f24_mem = Some T32 /\ fmt_by_magic f24_mem = Some fmt32 /\
  wrap_image_range T32 f24_mem = (1024, 12288) /\
  wrap_data_directory T32 f24_mem = (4294963200, 40) :: repeat (0, 0) 3 ++ (4294967288, 8) :: repeat (0, 0) 11 /\
  wrap_section_headers T32 f24_mem = [{| s_va := 4294963200; s_vs := 8192; s_prd := 512; s_srd := 512 |}] /\
  wrap_slice T32 true f24_mem 4294963200 4 4 = Err EBounds /\
  wrap_slice T32 false f24_mem 64 4 4 = Ok {| r_off := 64; r_len := 960 |} /\
  wrap_derva T32 false f24_mem 64 4 4 = Ok {| r_off := 64; r_len := 4 |} /\
  json_is_null (acc_exports fmt32 true f24_mem) = true /\ json_is_null (acc_base_relocs fmt32 false f24_mem) = true.
Proof. vm_compute. repeat split; reflexivity. Qed.
