(* Proofs about the utility / formatting layer, part 2 (part 1 is Proofs/UtilText.v): WideStr constructors and
   accessors, strn / wstrn / trimn / parsen, GUID formatters, Ptr / Pir, flags! / enum1!. *)
From PV.Model Require Import Machine Util.
From PV.Spec Require Import UtilSpec.
From PV.Proofs Require Import BaseProofs.
From PV.Proofs Require Export UtilText.
Ltac Zify.zify_post_hook ::= Z.div_mod_to_equations.

(* ------------------------------------------------------------------------------------------------ WideStr *)
Lemma as_ref_cons : forall w t, as_ref (w :: t) = Ok t.
Proof. intros. unfold as_ref. rewrite lenN_cons. destruct (1 <=? 1 + lenN t) eqn:E; [reflexivity|lia]. Qed.

Lemma lenN_firstn : forall {A} (l : list A) n, n <= lenN l -> lenN (firstn (N.to_nat n) l) = n.
Proof. intros A l n H. unfold lenN in *. rewrite firstn_length. lia. Qed.

(* from_words: never faults (the first word is a u16; any value below 2^64 - 1 would do), and is its specification *)
Lemma get_range_0_1 : forall w0 t, get_range (w0 :: t) 0 1 = Some [w0].
Proof. intros. unfold get_range. rewrite lenN_cons. destruct ((0 <=? 1) && (1 <=? 1 + lenN t)) eqn:E; [reflexivity|lia]. Qed.
Lemma get_range_prefix : forall l n, get_range l 0 n = if n <=? lenN l then Some (firstn (N.to_nat n) l) else None.
Proof.
  intros. unfold get_range. rewrite N.sub_0_r. change (skipn (N.to_nat 0) l) with l.
  destruct (n <=? lenN l) eqn:E; destruct (0 <=? n) eqn:E2; cbn [andb]; try reflexivity; lia.
Qed.

Theorem from_words_ok : forall words, (forall w0 t, words = w0 :: t -> w0 + 1 < W64) -> from_words words = Ok (from_words_spec words).
Proof.
  intros [|w0 t] H; [reflexivity|]. specialize (H w0 t eq_refl). unfold from_words, from_words_spec.
  rewrite get_range_0_1. change (index [w0] 0) with (Ok w0). cbn [bind]. unfold chk_add.
  destruct (w0 + 1 <? W64) eqn:E2; [|lia]. cbn [bind]. rewrite get_range_prefix.
  destruct (w0 + 1 <=? lenN (w0 :: t)); reflexivity.
Qed.

Corollary from_words_no_fault : forall words, units_ok words -> no_fault (from_words words).
Proof.
  intros words Hok. rewrite from_words_ok; [intros f Hf; discriminate|]. intros w0 t ->. apply units_ok_cons in Hok. unfold W64. lia.
Qed.

(* region: the result is the prefix of first word + 1 words of the given slice, and it satisfies the invariant that
   from_words_unchecked asks for *)
Theorem from_words_region : forall words at_ r, units_ok words -> from_words words = Ok (Some (at_, r)) ->
  at_ = 0 /\ (exists rest, words = r ++ rest) /\ lenN r <= lenN words /\ wide_inv r /\ (exists w0, hd_error words = Some w0 /\ lenN r = w0 + 1).
Proof.
  intros words at_ r Hok H. rewrite from_words_ok in H by (intros w0 t ->; apply units_ok_cons in Hok; unfold W64; lia).
  destruct words as [|w0 t]; [discriminate|]. unfold from_words_spec in H. destruct (w0 + 1 <=? lenN (w0 :: t)) eqn:E; [|discriminate].
  inversion H; subst. clear H. split; [reflexivity|].
  assert (Hl : lenN (firstn (N.to_nat (w0 + 1)) (w0 :: t)) = w0 + 1) by (apply lenN_firstn; lia).
  split; [exists (skipn (N.to_nat (w0 + 1)) (w0 :: t)); symmetry; apply firstn_skipn|]. split; [lia|]. split.
  - replace (N.to_nat (w0 + 1)) with (S (N.to_nat w0)) in * by lia. cbn [firstn] in *. exists w0, (firstn (N.to_nat w0) t). split; [reflexivity|]. lia.
  - exists w0. split; [reflexivity|exact Hl].
Qed.

(* from_bytes under the guarantees of its callers (derva_string / deref_string pass a slice obtained with
   MIN_SIZE_OF = 2 and ALIGN_OF = 2): no out-of-bounds or misaligned access, and the result is the specification *)
Theorem from_bytes_ok : forall addr bytes, bytes_ok bytes -> aligned_to 2 addr = true -> 2 <= lenN bytes ->
  from_bytes addr bytes = Ok (from_bytes_spec bytes).
Proof.
  intros addr bytes Hb Ha Hl. unfold from_bytes, from_bytes_spec, raw_read_u16. rewrite N.add_0_r, Ha. cbn [negb].
  destruct (0 + 2 <=? lenN bytes) eqn:E; [|lia]. cbn [bind]. pose proof (u16_at_lt bytes 0 Hb) as Hw.
  unfold chk_add, chk_mul. destruct (u16_at bytes 0 + 1 <? W64) eqn:E1; [|unfold W64 in *; lia]. cbn [bind].
  destruct ((u16_at bytes 0 + 1) * 2 <? W64) eqn:E2; [|unfold W64 in *; lia]. cbn [bind].
  destruct (lenN bytes <? (u16_at bytes 0 + 1) * 2) eqn:E3.
  - destruct (2 * (u16_at bytes 0 + 1) <=? lenN bytes) eqn:E4; [lia|reflexivity].
  - destruct (2 * (u16_at bytes 0 + 1) <=? lenN bytes) eqn:E4; [|lia]. unfold raw_words. rewrite N.add_0_r, Ha. cbn [negb].
    destruct (0 + 2 * (u16_at bytes 0 + 1) <=? lenN bytes) eqn:E5; [|lia]. cbn [bind]. unfold words_of_bytes. do 3 f_equal.
Qed.

(* ... and outside those guarantees the accesses are undefined behaviour: the guarantees are needed *)
Theorem from_bytes_faults_iff : forall addr bytes, bytes_ok bytes ->
  ((exists f, from_bytes addr bytes = Fault f) <-> (aligned_to 2 addr = false \/ lenN bytes < 2)).
Proof.
  intros addr bytes Hb. split.
  - intros [f Hf]. destruct (aligned_to 2 addr) eqn:Ha; [|left; reflexivity]. right.
    destruct (N.lt_ge_cases (lenN bytes) 2) as [H|H]; [exact H|]. rewrite from_bytes_ok in Hf by (assumption || lia). discriminate.
  - intros [Ha|Hl]; unfold from_bytes, raw_read_u16; rewrite N.add_0_r.
    + rewrite Ha. eexists; reflexivity.
    + destruct (aligned_to 2 addr); cbn [negb]; [|eexists; reflexivity]. destruct (0 + 2 <=? lenN bytes) eqn:E; [lia|]. eexists; reflexivity.
Qed.
Theorem from_bytes_unguarded_refuted : from_bytes 4096 [] = Fault UBOob /\ from_bytes 4096 [7] = Fault UBOob /\ from_bytes 4097 [1; 0; 65; 0] = Fault UBAlign.
Proof. vm_compute. repeat split; reflexivity. Qed.

Lemma words_of_bytes_len : forall bytes n, lenN (words_of_bytes bytes n) = n.
Proof. intros. unfold words_of_bytes, lenN. rewrite map_length, seq_length. lia. Qed.

(* region: the words lie inside the given byte slice, there are first word + 1 of them, the invariant holds *)
Theorem from_bytes_region : forall addr bytes at_ ws, bytes_ok bytes -> aligned_to 2 addr = true -> 2 <= lenN bytes ->
  from_bytes addr bytes = Ok (Some (at_, ws)) ->
  at_ = 0 /\ at_ + 2 * lenN ws <= lenN bytes /\ lenN ws = u16_at bytes 0 + 1 /\ wide_inv ws /\
  (forall i, i < lenN ws -> nth (N.to_nat i) ws 0 = u16_at bytes (at_ + 2 * i)).
Proof.
  intros addr bytes at_ ws Hb Ha Hl H. rewrite from_bytes_ok in H by assumption. unfold from_bytes_spec in H.
  destruct (2 * (u16_at bytes 0 + 1) <=? lenN bytes) eqn:E; [|discriminate]. inversion H; subst. clear H.
  rewrite words_of_bytes_len. split; [reflexivity|]. split; [lia|]. split; [reflexivity|]. split.
  - unfold words_of_bytes. replace (N.to_nat (u16_at bytes 0 + 1)) with (S (N.to_nat (u16_at bytes 0))) by lia.
    cbn [seq map]. eexists _, _. split; [reflexivity|]. rewrite lenN_cons. unfold lenN. rewrite map_length, seq_length.
    change (2 * N.of_nat 0) with 0. lia.
  - intros i Hi. unfold words_of_bytes. rewrite nth_indep with (d' := u16_at bytes (2 * N.of_nat 0)) by (rewrite map_length, seq_length; lia).
    rewrite (map_nth (fun i => u16_at bytes (2 * N.of_nat i))). rewrite seq_nth by lia. f_equal. lia.
Qed.

(* Deref / as_ref: the unchecked 1.. never leaves a value that satisfies the invariant (or any non-empty slice) *)
Theorem as_ref_ok : forall words, wide_inv words -> exists t, as_ref words = Ok t /\ lenN t + 1 = lenN words /\ (forall w0, hd_error words = Some w0 -> lenN t = w0).
Proof.
  intros words [w0 [t [-> Hl]]]. exists t. unfold as_ref. rewrite lenN_cons in *. destruct (1 <=? 1 + lenN t) eqn:E; [|lia].
  split; [reflexivity|]. split; [lia|]. intros w Hw. inversion Hw; subst. lia.
Qed.
Theorem as_ref_faults_iff : forall words, (exists f, as_ref words = Fault f) <-> words = [].
Proof.
  intros words. unfold as_ref. destruct words as [|w t].
  - split; [reflexivity|]. intros _. eexists. reflexivity.
  - rewrite lenN_cons. destruct (1 <=? 1 + lenN t) eqn:E; [|lia]. split; [intros [f Hf]; discriminate|discriminate].
Qed.

(* from_str *)
Lemma from_str_loop_ok : forall tail units n, n < 65536 ->
  let k := N.min (lenN tail) (lenN units) in
  (n + k < 65536 -> from_str_loop true tail units n = Ok (firstn (N.to_nat k) units ++ skipn (N.to_nat k) tail, n + k)) /\
  (65536 <= n + k -> from_str_loop true tail units n = Fault POverflow) /\
  from_str_loop false tail units n = Ok (firstn (N.to_nat k) units ++ skipn (N.to_nat k) tail, (n + k) mod 65536).
Proof.
  induction tail as [|p t IH]; intros units n Hn k.
  - subst k. change (lenN (@nil N)) with 0. rewrite N.min_0_l. cbn [from_str_loop firstn skipn app N.to_nat]. change (N.to_nat 0) with 0%nat. cbn [firstn skipn app].
    rewrite N.add_0_r. rewrite N.mod_small by exact Hn. repeat split; intros; try reflexivity; lia.
  - destruct units as [|wc us].
    + subst k. change (lenN (@nil N)) with 0. rewrite N.min_0_r. change (N.to_nat 0) with 0%nat. cbn [from_str_loop firstn skipn app].
      rewrite N.add_0_r. rewrite N.mod_small by exact Hn. repeat split; intros; try reflexivity; lia.
    + subst k. rewrite !lenN_cons. replace (N.min (1 + lenN t) (1 + lenN us)) with (1 + N.min (lenN t) (lenN us)) by lia.
      set (k := N.min (lenN t) (lenN us)). replace (N.to_nat (1 + k)) with (S (N.to_nat k)) by lia.
      cbn [from_str_loop firstn skipn app]. unfold arith_add, chk_add, W16.
      destruct (N.lt_ge_cases (n + 1) 65536) as [Hs|Hs].
      * destruct (IH us (n + 1) Hs) as [A [B C]]. fold k in A, B, C. split; [|split].
        -- intros Hk. destruct (n + 1 <? 65536) eqn:E; [|lia]. cbn [bind]. rewrite A by lia. cbn [bind fst snd]. do 2 f_equal. lia.
        -- intros Hk. destruct (n + 1 <? 65536) eqn:E; [|lia]. cbn [bind]. rewrite B by lia. reflexivity.
        -- cbn [bind]. rewrite (N.mod_small (n + 1)) by exact Hs. rewrite C. cbn [bind fst snd]. do 3 f_equal. lia.
      * assert (n = 65535) by lia. subst n. split; [|split].
        -- intros Hk. lia.
        -- intros Hk. destruct (65535 + 1 <? 65536) eqn:E; [lia|]. reflexivity.
        -- cbn [bind]. change ((65535 + 1) mod 65536) with 0. destruct (IH us 0 ltac:(lia)) as [_ [_ C]]. fold k in C. rewrite C. cbn [bind fst snd].
           do 2 f_equal. rewrite N.add_0_l. replace (65535 + (1 + k)) with (65536 + k) by lia.
           lia.
Qed.

(* from_str: the exact set of arguments on which it panics, and its value everywhere else *)
Theorem from_str_faults_iff : forall checks s buffer,
  ((exists f, from_str checks s buffer = Fault f) <-> from_str_faults checks s buffer = true) /\
  (from_str_faults checks s buffer = true -> from_str checks s buffer = Fault (if lenN buffer =? 0 then PIndex else POverflow)) /\
  (from_str_faults checks s buffer = false -> from_str checks s buffer = Ok (from_str_spec checks s buffer)).
Proof.
  intros checks s buffer.
  assert (Hmain : (from_str_faults checks s buffer = true -> from_str checks s buffer = Fault (if lenN buffer =? 0 then PIndex else POverflow)) /\
                  (from_str_faults checks s buffer = false -> from_str checks s buffer = Ok (from_str_spec checks s buffer))).
  { unfold from_str_faults, from_str, from_str_spec, str_encode_utf16. destruct buffer as [|b0 tail].
    - split; [reflexivity|discriminate].
    - rewrite lenN_cons. unfold index, slice_from. rewrite lenN_cons. destruct (0 <? 1 + lenN tail) eqn:E0; [|lia]. cbn [bind].
      destruct (1 <=? 1 + lenN tail) eqn:E1; [|lia]. cbn [bind]. change (skipn (N.to_nat 1) (b0 :: tail)) with tail.
      replace (1 + lenN tail - 1) with (lenN tail) by lia. set (units := flat_map utf16_encode s). set (k := N.min (lenN tail) (lenN units)).
      destruct (from_str_loop_ok tail units 0 ltac:(lia)) as [A [B C]]. fold k in A, B, C. rewrite N.add_0_l in *.
      destruct (1 + lenN tail =? 0) eqn:Ez; [lia|]. cbn [orb].
      replace (N.to_nat (k + 1)) with (S (N.to_nat k)) by lia. cbn [skipn].
      destruct checks; cbn [andb].
      + destruct (65536 <=? k) eqn:Ek.
        * split; [intros _; rewrite B by lia; reflexivity|discriminate].
        * split; [discriminate|intros _; rewrite A by lia; reflexivity].
      + split; [discriminate|intros _; rewrite C; reflexivity]. }
  destruct Hmain as [H1 H2]. split; [|split; assumption]. split.
  - intros [f Hf]. destruct (from_str_faults checks s buffer) eqn:E; [reflexivity|]. rewrite H2 in Hf by reflexivity. discriminate.
  - intros H. rewrite H1 by exact H. eexists. reflexivity.
Qed.

Theorem from_str_invariant_iff : forall checks s buffer r, from_str checks s buffer = Ok r -> lenN buffer <= 65536 ->
  (wide_invb r = true <-> lenN buffer <= lenN (str_encode_utf16 s) + 1).
Proof.
  intros checks s buffer r H Hb. destruct (from_str_faults_iff checks s buffer) as [_ [H1 H2]].
  destruct (from_str_faults checks s buffer) eqn:E; [rewrite H1 in H by reflexivity; discriminate|]. rewrite H2 in H by reflexivity.
  inversion H; subst. clear H H1 H2. unfold from_str_faults in E. unfold from_str_spec, wide_invb, str_encode_utf16.
  set (units := flat_map utf16_encode s) in *. set (k := N.min (lenN buffer - 1) (lenN units)) in *.
  assert (Hk : k < 65536) by lia.
  assert (Hl1 : lenN (firstn (N.to_nat k) units) = k) by (apply lenN_firstn; lia).
  assert (Hl2 : lenN (skipn (N.to_nat (k + 1)) buffer) = lenN buffer - (k + 1)) by (rewrite lenN_skipn; lia).
  rewrite lenN_cons, lenN_app, Hl1, Hl2. rewrite (N.mod_small k) by exact Hk.
  replace (if checks then k else k) with k by (destruct checks; reflexivity). split; intros Hx; lia.
Qed.

(* every constructor's result can be dereferenced: no UB in Deref / as_ref *)
Theorem as_ref_after_constructors :
  (forall words at_ r, units_ok words -> from_words words = Ok (Some (at_, r)) -> exists t, as_ref r = Ok t) /\
  (forall addr bytes at_ r, bytes_ok bytes -> aligned_to 2 addr = true -> 2 <= lenN bytes -> from_bytes addr bytes = Ok (Some (at_, r)) -> exists t, as_ref r = Ok t) /\
  (forall checks s buffer r, from_str checks s buffer = Ok r -> exists t, as_ref r = Ok t).
Proof.
  split; [|split].
  - intros words at_ r Hok H. destruct (from_words_region _ _ _ Hok H) as [_ [_ [_ [Hi _]]]]. destruct (as_ref_ok r Hi) as [t [Ht _]]. exists t. exact Ht.
  - intros addr bytes at_ r Hb Ha Hl H. destruct (from_bytes_region _ _ _ _ Hb Ha Hl H) as [_ [_ [_ [Hi _]]]]. destruct (as_ref_ok r Hi) as [t [Ht _]]. exists t. exact Ht.
  - intros checks s buffer r H. destruct (from_str_faults_iff checks s buffer) as [_ [H1 H2]].
    destruct (from_str_faults checks s buffer) eqn:E; [rewrite H1 in H by reflexivity; discriminate|]. rewrite H2 in H by reflexivity.
    inversion H; subst. unfold from_str_spec. eexists. apply as_ref_cons.
Qed.

(* to_string and == str on a value w0 :: t: the accessors applied to the decoding of t *)
Lemma collect_items_spec : forall its,
  collect_items its = match first_bad its with Some u => inr u | None => inl (utf8_encode_all (lossy its)) end.
Proof.
  induction its as [|[c|u] t IH]; [reflexivity| |reflexivity]. cbn [collect_items first_bad]. rewrite IH.
  destruct (first_bad t); [reflexivity|]. reflexivity.
Qed.
Theorem to_string_ok : forall w0 t, to_string (w0 :: t) = Ok (to_string_spec t).
Proof. intros. unfold to_string, to_string_spec. rewrite as_ref_cons. cbn [bind]. rewrite decode_all_spec. cbn [bind]. rewrite collect_items_spec. reflexivity. Qed.

Lemma items_eq_spec : forall its cs, items_eq its cs = items_eqb its (map IChar cs).
Proof.
  induction its as [|[c|u] t IH]; intros [|c' cs]; cbn [items_eq items_eqb map item_eqb]; try reflexivity. rewrite IH. reflexivity.
Qed.
Theorem eq_str_ok : forall w0 t cs, eq_str (w0 :: t) cs = Ok (eq_str_spec t cs).
Proof. intros. unfold eq_str, eq_str_spec. rewrite as_ref_cons. cbn [bind]. rewrite decode_all_spec. cbn [bind]. rewrite items_eq_spec. reflexivity. Qed.

Lemma items_eqb_eq : forall a b, items_eqb a b = true <-> a = b.
Proof.
  induction a as [|x a IH]; destruct b as [|y b]; cbn [items_eqb]; split; intros H; try discriminate; try reflexivity.
  - apply andb_true_iff in H. destruct H as [H1 H2]. apply IH in H2. subst. f_equal.
    destruct x, y; cbn [item_eqb] in H1; try discriminate; apply N.eqb_eq in H1; subst; reflexivity.
  - inversion H; subst. apply (items_eqb_refl (y :: b)).
Qed.
(* == str holds exactly when the words decode, without error, to the characters of the string *)
Theorem eq_str_meaning : forall w0 t cs, eq_str (w0 :: t) cs = Ok true <-> utf16_decode_spec t = map IChar cs.
Proof.
  intros. rewrite eq_str_ok. unfold eq_str_spec. split.
  - intros H. inversion H as [H1]. apply items_eqb_eq. exact H1.
  - intros H. f_equal. apply items_eqb_eq. exact H.
Qed.

(* ------------------------------------------------------------------------------------------------ strn, wstrn, trimn, parsen *)
Lemma position_spec : forall p l, match position p l with
  | Some i => i < lenN l /\ p (nth (N.to_nat i) l 0) = true /\ forallb (fun b => negb (p b)) (firstn (N.to_nat i) l) = true
  | None => forallb (fun b => negb (p b)) l = true end.
Proof.
  induction l as [|b t IH]; [reflexivity|]. cbn [position]. destruct (p b) eqn:Ep.
  - rewrite lenN_cons. split; [lia|]. split; [exact Ep|reflexivity].
  - destruct (position p t) as [i|].
    + destruct IH as [H1 [H2 H3]]. rewrite lenN_cons. replace (N.to_nat (i + 1)) with (S (N.to_nat i)) by lia. split; [lia|].
      cbn [nth firstn forallb]. rewrite Ep, H3. split; [exact H2|reflexivity].
    + cbn [forallb]. rewrite Ep, IH. reflexivity.
Qed.

Lemma take_nonzero_firstn : forall l i, i <= lenN l ->
  forallb (fun b => negb (b =? 0)) (firstn (N.to_nat i) l) = true -> (i = lenN l \/ nth (N.to_nat i) l 0 = 0 /\ i < lenN l) ->
  take_nonzero l = firstn (N.to_nat i) l.
Proof.
  induction l as [|b t IH]; intros i Hi Hf Hend.
  - destruct (N.to_nat i); reflexivity.
  - rewrite lenN_cons in *. destruct (N.eq_dec i 0) as [->|Hn].
    + change (N.to_nat 0) with 0%nat in *. cbn [firstn nth] in *. destruct Hend as [H|[H _]]; [lia|]. subst. reflexivity.
    + replace (N.to_nat i) with (S (N.to_nat (i - 1))) in * by lia. cbn [firstn forallb nth take_nonzero] in *.
      apply andb_true_iff in Hf. destruct Hf as [Hb Hf]. destruct (b =? 0) eqn:Eb; [discriminate|]. f_equal.
      apply IH; [lia|exact Hf|]. destruct Hend as [H|[H1 H2]]; [left; lia|right; split; [exact H1|lia]].
Qed.

(* split_f never panics: the two slicings use an index that is at most the length *)
Theorem split_f_ok : forall p l, exists a b, split_f p l = Ok (a, b) /\ l = a ++ b /\ forallb (fun x => negb (p x)) a = true /\
  (b = [] \/ exists x t, b = x :: t /\ p x = true).
Proof.
  intros p l. unfold split_f. pose proof (position_spec p l) as H. destruct (position p l) as [i|].
  - destruct H as [H1 [H2 H3]]. unfold slice_to, slice_from. destruct (i <=? lenN l) eqn:E; [|lia]. cbn [bind].
    eexists _, _. split; [reflexivity|]. split; [symmetry; apply firstn_skipn|]. split; [exact H3|]. right.
    assert (Hs : (N.to_nat i < length l)%nat) by (unfold lenN in H1; lia).
    destruct (skipn (N.to_nat i) l) as [|x t] eqn:Es.
    + apply (f_equal (@length N)) in Es. rewrite skipn_length in Es. cbn [length] in Es. lia.
    + exists x, t. split; [reflexivity|]. rewrite <- (firstn_skipn (N.to_nat i) l) in H2. rewrite app_nth2 in H2 by (rewrite firstn_length; lia).
      rewrite firstn_length, Es in H2. replace (N.to_nat i - Nat.min (N.to_nat i) (length l))%nat with 0%nat in H2 by lia. exact H2.
  - unfold slice_to, slice_from. rewrite N.leb_refl. cbn [bind]. unfold lenN. rewrite Nat2N.id. rewrite firstn_all, skipn_all.
    eexists _, _. split; [reflexivity|]. split; [symmetry; apply app_nil_r|]. split; [exact H|left; reflexivity].
Qed.

Lemma take_nonzero_split : forall a b, forallb (fun x => negb (x =? 0)) a = true -> (b = [] \/ exists x t, b = x :: t /\ (x =? 0) = true) ->
  take_nonzero (a ++ b) = a.
Proof.
  induction a as [|x a IH]; intros b Ha Hb.
  - cbn [app]. destruct Hb as [->|[x [t [-> Hx]]]]; [reflexivity|]. cbn [take_nonzero]. rewrite Hx. reflexivity.
  - cbn [forallb] in Ha. apply andb_true_iff in Ha. destruct Ha as [Hx Ha]. cbn [app take_nonzero].
    destruct (x =? 0); [discriminate|]. f_equal. apply IH; assumption.
Qed.

(* strn / wstrn: the longest prefix without a zero element - a prefix of the buffer (offset 0), never a panic *)
Theorem strn_ok : forall buf, strn buf = Ok (take_nonzero buf) /\ wstrn buf = Ok (take_nonzero buf).
Proof.
  intros buf. unfold strn, wstrn. destruct (split_f_ok (fun b => b =? 0) buf) as [a [b [H [Hl [Ha Hb]]]]].
  rewrite H. cbn [bind fst]. assert (Ht : take_nonzero buf = a) by (rewrite Hl; apply take_nonzero_split; assumption).
  rewrite Ht. split; reflexivity.
Qed.
Theorem take_nonzero_is_strn : forall buf, is_strn buf (take_nonzero buf).
Proof.
  induction buf as [|b t IH]; [split; [constructor|exists []; split; [reflexivity|left; reflexivity]]|].
  cbn [take_nonzero]. destruct (b =? 0) eqn:E.
  - apply N.eqb_eq in E. subst. split; [constructor|]. exists (0 :: t). split; [reflexivity|]. right. exists t. reflexivity.
  - destruct IH as [Hf [rest [Hr Hz]]]. split; [constructor; [lia|exact Hf]|]. exists rest. split; [cbn [app]; f_equal; exact Hr|exact Hz].
Qed.
Theorem is_strn_unique : forall buf r1 r2, is_strn buf r1 -> is_strn buf r2 -> r1 = r2.
Proof.
  induction buf as [|b t IH]; intros r1 r2 [F1 [s1 [E1 Z1]]] [F2 [s2 [E2 Z2]]].
  - destruct r1; [|discriminate]. destruct r2; [reflexivity|discriminate].
  - destruct r1 as [|x1 r1]; destruct r2 as [|x2 r2]; [reflexivity| | |].
    + cbn [app] in *. subst s1. inversion E2; subst. inversion F2; subst. destruct Z1 as [H|[t' H]]; [discriminate|]. inversion H; subst. lia.
    + cbn [app] in *. subst s2. inversion E1; subst. inversion F1; subst. destruct Z2 as [H|[t' H]]; [discriminate|]. inversion H; subst. lia.
    + cbn [app] in *. inversion E1; subst. inversion E2; subst. inversion F1; subst. inversion F2; subst. f_equal.
      apply (IH r1 r2); (split; [assumption|]).
      * exists s1. split; [reflexivity|exact Z1].
      * exists s2. split; [exact H1|exact Z2].
Qed.

(* trimn *)
Lemma index_app_l : forall pre suf i, i < lenN pre -> index (pre ++ suf) i = index pre i.
Proof.
  intros pre suf i H. unfold index. rewrite lenN_app. destruct (i <? lenN pre + lenN suf) eqn:E1; [|lia]. destruct (i <? lenN pre) eqn:E2; [|lia].
  rewrite app_nth1 by (unfold lenN in H; lia). reflexivity.
Qed.
Lemma trimn_loop_app : forall fuel pre suf len, len <= lenN pre -> trimn_loop fuel (pre ++ suf) len = trimn_loop fuel pre len.
Proof.
  induction fuel as [|k IH]; intros pre suf len H; [reflexivity|]. cbn [trimn_loop]. destruct (0 <? len) eqn:E; [|reflexivity].
  unfold chk_sub. destruct (1 <=? len) eqn:E1; [|lia]. cbn [bind]. rewrite index_app_l by lia.
  destruct (index pre (len - 1)) as [b| |]; cbn [bind]; try reflexivity. destruct (negb (b =? 0)); [reflexivity|]. apply IH. lia.
Qed.
Lemma trim_spec_snoc : forall pre b, trim_spec (pre ++ [b]) = if b =? 0 then trim_spec pre else pre ++ [b].
Proof.
  intros. unfold trim_spec. rewrite rev_app_distr. cbn [rev app drop_zeros]. destruct (b =? 0); [reflexivity|].
  cbn [rev]. rewrite rev_involutive. reflexivity.
Qed.
Lemma index_last : forall pre b, index (pre ++ [b]) (lenN pre) = Ok b.
Proof.
  intros. unfold index. rewrite lenN_app. change (lenN [b]) with 1. destruct (lenN pre <? lenN pre + 1) eqn:E; [|lia].
  rewrite app_nth2 by (unfold lenN; lia). unfold lenN. rewrite Nat2N.id, Nat.sub_diag. reflexivity.
Qed.

Lemma trimn_loop_ok : forall buf fuel, (length buf < fuel)%nat -> trimn_loop fuel buf (lenN buf) = Ok (lenN (trim_spec buf)).
Proof.
  induction buf as [|b pre IH] using rev_ind; intros fuel Hf.
  - destruct fuel; [lia|]. reflexivity.
  - destruct fuel as [|k]; [lia|]. rewrite app_length in Hf. cbn [length] in Hf. cbn [trimn_loop]. rewrite lenN_app. change (lenN [b]) with 1.
    destruct (0 <? lenN pre + 1) eqn:E; [|lia]. unfold chk_sub. destruct (1 <=? lenN pre + 1) eqn:E1; [|lia]. cbn [bind].
    replace (lenN pre + 1 - 1) with (lenN pre) by lia. rewrite index_last. cbn [bind]. rewrite trim_spec_snoc.
    destruct (b =? 0) eqn:Eb; cbn [negb].
    + rewrite trimn_loop_app by lia. apply IH. lia.
    + rewrite lenN_app. reflexivity.
Qed.

Lemma trim_spec_prefix : forall buf, exists k, buf = trim_spec buf ++ repeat 0 k.
Proof.
  induction buf as [|b pre IH] using rev_ind; [exists 0%nat; reflexivity|]. rewrite trim_spec_snoc. destruct (b =? 0) eqn:Eb.
  - apply N.eqb_eq in Eb. subst. destruct IH as [k Hk]. exists (S k). rewrite Hk at 1. rewrite <- app_assoc. f_equal.
    change [0] with (repeat 0 1). rewrite <- repeat_app. f_equal. lia.
  - exists 0%nat. cbn [repeat]. rewrite app_nil_r. reflexivity.
Qed.

(* trimn: never a panic, never out of fuel, and the input minus its maximal suffix of zeros *)
Theorem trimn_ok : forall buf, trimn buf = Ok (trim_spec buf).
Proof.
  intros buf. unfold trimn. rewrite trimn_loop_ok by lia. cbn [bind]. unfold slice_to. destruct (trim_spec_prefix buf) as [k Hk].
  assert (Hle : lenN (trim_spec buf) <= lenN buf) by (rewrite Hk at 2; rewrite lenN_app; lia).
  destruct (lenN (trim_spec buf) <=? lenN buf) eqn:E; [|lia]. f_equal. rewrite Hk at 2. unfold lenN. rewrite Nat2N.id.
  rewrite firstn_app, Nat.sub_diag, firstn_all. cbn [firstn]. apply app_nil_r.
Qed.
Theorem trim_spec_is_trimn : forall buf, is_trimn buf (trim_spec buf).
Proof.
  intros buf. split; [apply trim_spec_prefix|]. induction buf as [|b pre IH] using rev_ind; [left; reflexivity|].
  rewrite trim_spec_snoc. destruct (b =? 0) eqn:Eb; [exact IH|]. right. rewrite last_last. lia.
Qed.
Lemma last_in_zeros : forall r k (post : list N), r <> [] -> repeat 0 k = r ++ post -> last r 0 = 0.
Proof.
  intros r k post Hr H. assert (Hin : In (last r 0) (repeat 0 k)).
  { rewrite H. apply in_or_app. left. destruct (exists_last Hr) as [l' [a Ha]].
    rewrite Ha. rewrite last_last. apply in_or_app. right. left. reflexivity. }
  apply repeat_spec in Hin. exact Hin.
Qed.
Theorem is_trimn_unique : forall buf r1 r2, is_trimn buf r1 -> is_trimn buf r2 -> r1 = r2.
Proof.
  intros buf r1. revert buf. induction r1 as [|x r1 IH]; intros buf r2 [[k1 E1] L1] [[k2 E2] L2].
  - destruct r2 as [|y r2]; [reflexivity|]. exfalso. destruct L2 as [H|H]; [discriminate|]. apply H.
    apply (last_in_zeros (y :: r2) k1 (repeat 0 k2)); [discriminate|]. cbn [app] in *. rewrite <- E1. exact E2.
  - destruct r2 as [|y r2].
    + exfalso. destruct L1 as [H|H]; [discriminate|]. apply H.
      apply (last_in_zeros (x :: r1) k2 (repeat 0 k1)); [discriminate|]. cbn [app] in *. rewrite <- E2. exact E1.
    + cbn [app] in *. subst buf. inversion E2; subst. f_equal. apply (IH (r1 ++ repeat 0 k1) r2).
      * split; [exists k1; reflexivity|]. destruct r1 as [|a r1]; [left; reflexivity|]. right. destruct L1 as [H|H]; [discriminate|]. exact H.
      * split; [exists k2; assumption|]. destruct r2 as [|a r2]; [left; reflexivity|]. right. destruct L2 as [H|H]; [discriminate|]. exact H.
Qed.

(* parsen for any validity test: Ok(trimmed) when the trimmed bytes are valid, otherwise Err(the WHOLE buffer) *)
Theorem parsen_ok : forall valid buf, parsen valid buf = Ok (if valid (trim_spec buf) then inl (trim_spec buf) else inr buf).
Proof. intros. unfold parsen. rewrite trimn_ok. reflexivity. Qed.
Corollary parsen_utf8 : forall buf, parsen utf8_valid buf = Ok (parsen_spec buf).
Proof. intros. apply parsen_ok. Qed.

(* ------------------------------------------------------------------------------------------------ GUID *)
(* big-endian value of a byte list *)
Definition val_be (bs : list N) : N := fold_left (fun a b => a * 256 + b) bs 0.
Lemma val_be_snoc : forall bs b, val_be (bs ++ [b]) = val_be bs * 256 + b.
Proof. intros. unfold val_be. rewrite fold_left_app. reflexivity. Qed.
Lemma hex_fixed_2 : forall upper b, b < 256 -> hex_fixed upper 2 b = [hexdigit upper (b / 16); hexdigit upper (b mod 16)].
Proof.
  intros. unfold hex_fixed. cbn [seq map]. change (16 ^ N.of_nat (2 - 1 - 0)) with 16. change (16 ^ N.of_nat (2 - 1 - 1)) with 1.
  rewrite N.div_1_r. rewrite (N.mod_small (b / 16)) by lia. reflexivity.
Qed.

(* the hex rendering of a big-endian number is the concatenation of the two-digit renderings of its bytes *)
Lemma hex_fixed_bytes : forall upper bs, bytes_ok bs -> hex_fixed upper (2 * length bs) (val_be bs) = hex_bytes upper bs.
Proof.
  intros upper. induction bs as [|b bs IH] using rev_ind; intros Hb; [reflexivity|].
  apply Forall_app in Hb. destruct Hb as [Hbs Hb]. inversion Hb; subst. rewrite app_length. cbn [length].
  replace (2 * (length bs + 1))%nat with (S (S (2 * length bs))) by lia. rewrite !hex_fixed_snoc, val_be_snoc.
  unfold hex_bytes in *. rewrite flat_map_app. cbn [flat_map]. rewrite app_nil_r, <- IH by assumption. rewrite hex_fixed_2 by assumption.
  rewrite <- app_assoc. cbn [app]. f_equal; [f_equal; lia|]. f_equal; [f_equal; lia|]. f_equal. f_equal. lia.
Qed.

Lemma lor_add_mult : forall x a k, a < 2 ^ k -> x mod 2 ^ k = 0 -> N.lor x a = x + a.
Proof.
  intros x a k Ha Hx. assert (x = x / 2 ^ k * 2 ^ k) as ->.
  { pose proof (N.div_mod x (2 ^ k)) as D. rewrite Hx in D. rewrite N.mul_comm. rewrite N.add_0_r in D. apply D. apply N.pow_nonzero. lia. }
  apply lor_add_r. exact Ha.
Qed.

Lemma list_len8 : forall (l : list N), length l = 8%nat -> exists d0 d1 d2 d3 d4 d5 d6 d7, l = [d0; d1; d2; d3; d4; d5; d6; d7].
Proof.
  intros l H. do 8 (destruct l as [|? l]; [discriminate|]). destruct l; [|discriminate]. repeat eexists.
Qed.

Ltac eval_index := repeat match goal with |- context [index ?l ?i] => let r := eval vm_compute in (index l i) in change (index l i) with r end.

(* group(): g4 and g5 are the big-endian values of Data4[0..2] and Data4[2..8]; no index panics *)
Theorem guid_group_ok : forall g, length (Data4 g) = 8%nat -> bytes_ok (Data4 g) ->
  guid_group g = Ok (Data1 g, Data2 g, Data3 g, val_be (firstn 2 (Data4 g)), val_be (skipn 2 (Data4 g))).
Proof.
  intros g Hl Hb. destruct (list_len8 _ Hl) as [d0 [d1 [d2 [d3 [d4 [d5 [d6 [d7 E]]]]]]]]. unfold guid_group. rewrite E in *. eval_index. cbn [bind].
  unfold bytes_ok in Hb. repeat match goal with H : Forall _ (_ :: _) |- _ => inversion H; clear H; subst end.
  cbn [firstn skipn]. unfold val_be. cbn [fold_left]. rewrite !shl_mul. unfold W16, W64.
  change (2 ^ 8) with 256. change (2 ^ 40) with 1099511627776. change (2 ^ 32) with 4294967296. change (2 ^ 24) with 16777216.
  change (2 ^ 16) with 65536. change (2 ^ 0) with 1.
  rewrite !N.mod_small by lia.
  rewrite (lor_add_mult (d0 * 256) d1 8) by (change (2 ^ 8) with 256; lia).
  rewrite (lor_add_mult (d2 * 1099511627776) (d3 * 4294967296) 40) by (change (2 ^ 40) with 1099511627776; lia).
  rewrite (lor_add_mult _ (d4 * 16777216) 32) by (change (2 ^ 32) with 4294967296; lia).
  rewrite (lor_add_mult _ (d5 * 65536) 24) by (change (2 ^ 24) with 16777216; lia).
  rewrite (lor_add_mult _ (d6 * 256) 16) by (change (2 ^ 16) with 65536; lia).
  rewrite (lor_add_mult _ (d7 * 1) 8) by (change (2 ^ 8) with 256; lia).
  replace (d7 * 1) with d7 by lia. f_equal.
  replace ((0 * 256 + d0) * 256 + d1) with (d0 * 256 + d1) by lia.
  replace ((((((0 * 256 + d2) * 256 + d3) * 256 + d4) * 256 + d5) * 256 + d6) * 256 + d7)
    with (d2 * 1099511627776 + d3 * 4294967296 + d4 * 16777216 + d5 * 65536 + d6 * 256 + d7) by lia.
  reflexivity.
Qed.

Lemma val_be_lt : forall bs, bytes_ok bs -> val_be bs < 16 ^ N.of_nat (2 * length bs).
Proof.
  induction bs as [|b bs IH] using rev_ind; intros Hb; [reflexivity|]. apply Forall_app in Hb. destruct Hb as [Hbs Hb]. inversion Hb; subst.
  rewrite val_be_snoc, app_length. cbn [length]. replace (2 * (length bs + 1))%nat with (S (S (2 * length bs))) by lia.
  rewrite !pow16_succ. specialize (IH Hbs). remember (16 ^ N.of_nat (2 * length bs)) as P. lia.
Qed.

Definition guid_text (upper dashed : bool) (a b c d e : list N) : list N :=
  if dashed then [123] ++ a ++ [45] ++ b ++ [45] ++ c ++ [45] ++ d ++ [45] ++ e ++ [125] else a ++ b ++ c ++ d ++ e.

(* the formatters in terms of the fields: fixed-width, zero-padded hex of Data1 (8), Data2 (4), Data3 (4), Data4[0..2], Data4[2..8] *)
Theorem guid_fmt_fields : forall upper dashed g, Data1 g < 2 ^ 32 -> Data2 g < 2 ^ 16 -> Data3 g < 2 ^ 16 ->
  length (Data4 g) = 8%nat -> bytes_ok (Data4 g) ->
  guid_fmt upper dashed g = Ok (guid_text upper dashed (hex_fixed upper 8 (Data1 g)) (hex_fixed upper 4 (Data2 g)) (hex_fixed upper 4 (Data3 g))
                                          (hex_bytes upper (firstn 2 (Data4 g))) (hex_bytes upper (skipn 2 (Data4 g)))).
Proof.
  intros upper dashed g H1 H2 H3 Hl Hb. unfold guid_fmt. rewrite guid_group_ok by assumption. cbn [bind].
  assert (Hb2 : bytes_ok (firstn 2 (Data4 g))).
  { pose proof Hb as Hb'. rewrite <- (firstn_skipn 2 (Data4 g)) in Hb'. apply Forall_app in Hb'. apply Hb'. }
  assert (Hb6 : bytes_ok (skipn 2 (Data4 g))) by (apply bytes_ok_skipn; exact Hb).
  assert (Hl2 : length (firstn 2 (Data4 g)) = 2%nat) by (rewrite firstn_length; lia).
  assert (Hl6 : length (skipn 2 (Data4 g)) = 6%nat) by (rewrite skipn_length; lia).
  pose proof (val_be_lt _ Hb2) as V2. pose proof (val_be_lt _ Hb6) as V6. rewrite Hl2 in V2. rewrite Hl6 in V6.
  change 8 with (N.of_nat 8). change 4 with (N.of_nat 4). change 12 with (N.of_nat 12).
  rewrite (fmt_hex_fixed upper 8) by (try lia; change (16 ^ N.of_nat 8) with (2 ^ 32); exact H1). cbn [bind].
  rewrite (fmt_hex_fixed upper 4 (Data2 g)) by (try lia; change (16 ^ N.of_nat 4) with (2 ^ 16); exact H2). cbn [bind].
  rewrite (fmt_hex_fixed upper 4 (Data3 g)) by (try lia; change (16 ^ N.of_nat 4) with (2 ^ 16); exact H3). cbn [bind].
  rewrite (fmt_hex_fixed upper 4 (val_be _)) by (try lia; exact V2). cbn [bind].
  rewrite (fmt_hex_fixed upper 12) by (try lia; exact V6). cbn [bind].
  pose proof (hex_fixed_bytes upper _ Hb2) as E2. rewrite Hl2 in E2. change (2 * 2)%nat with 4%nat in E2. rewrite E2.
  pose proof (hex_fixed_bytes upper _ Hb6) as E6. rewrite Hl6 in E6. change (2 * 6)%nat with 12%nat in E6. rewrite E6.
  reflexivity.
Qed.

Lemma hex_bytes_length : forall upper bs, length (hex_bytes upper bs) = (2 * length bs)%nat.
Proof. intros. unfold hex_bytes. induction bs as [|b t IH]; [reflexivity|]. cbn [flat_map]. rewrite app_length, IH, hex_fixed_length. cbn [length]. lia. Qed.

(* exact output sizes: 38 bytes dashed, 32 bytes plain - for every GUID *)
Theorem guid_fmt_length : forall upper dashed g out, Data1 g < 2 ^ 32 -> Data2 g < 2 ^ 16 -> Data3 g < 2 ^ 16 ->
  length (Data4 g) = 8%nat -> bytes_ok (Data4 g) -> guid_fmt upper dashed g = Ok out ->
  length out = if dashed then 38%nat else 32%nat.
Proof.
  intros upper dashed g out H1 H2 H3 Hl Hb H. rewrite guid_fmt_fields in H by assumption.
  assert (Hl2 : length (firstn 2 (Data4 g)) = 2%nat) by (rewrite firstn_length; lia).
  assert (Hl6 : length (skipn 2 (Data4 g)) = 6%nat) by (rewrite skipn_length; lia).
  apply (f_equal (fun r => match r with Ok l => length l | _ => 0%nat end)) in H. cbv beta iota in H. rewrite <- H. unfold guid_text.
  destruct dashed; repeat rewrite app_length; rewrite ?hex_fixed_length, ?hex_bytes_length, Hl2, Hl6; reflexivity.
Qed.

Lemma list_len16 : forall (l : list N), length l = 16%nat ->
  exists x0 x1 x2 x3 x4 x5 x6 x7 x8 x9 x10 x11 x12 x13 x14 x15, l = [x0; x1; x2; x3; x4; x5; x6; x7; x8; x9; x10; x11; x12; x13; x14; x15].
Proof. intros l H. do 16 (destruct l as [|? l]; [discriminate|]). destruct l; [|discriminate]. repeat eexists. Qed.

(* lower_dashed / lower_hex / upper_hex on a GUID read from an image: {8-4-4-4-12} hex digits; Data1, Data2, Data3 are
   little-endian fields (bytes 3,2,1,0 / 5,4 / 7,6), the Data4 bytes follow in order *)
Theorem guid_fmt_bytes : forall upper dashed b, length b = 16%nat -> bytes_ok b ->
  guid_fmt upper dashed (guid_of_bytes b) = Ok (guid_spec upper dashed b).
Proof.
  intros upper dashed b Hl Hb.
  destruct (list_len16 _ Hl) as [x0 [x1 [x2 [x3 [x4 [x5 [x6 [x7 [x8 [x9 [x10 [x11 [x12 [x13 [x14 [x15 E]]]]]]]]]]]]]]]]. subst b.
  unfold bytes_ok in Hb. repeat match goal with H : Forall _ (_ :: _) |- _ => inversion H; clear H; subst end.
  assert (E1 : u32_at [x0; x1; x2; x3; x4; x5; x6; x7; x8; x9; x10; x11; x12; x13; x14; x15] 0 = val_be [x3; x2; x1; x0]).
  { change (u32_at [x0; x1; x2; x3; x4; x5; x6; x7; x8; x9; x10; x11; x12; x13; x14; x15] 0) with (x0 + 256 * x1 + 65536 * x2 + 16777216 * x3).
    unfold val_be. cbn [fold_left]. lia. }
  assert (E2 : u16_at [x0; x1; x2; x3; x4; x5; x6; x7; x8; x9; x10; x11; x12; x13; x14; x15] 4 = val_be [x5; x4]).
  { change (u16_at [x0; x1; x2; x3; x4; x5; x6; x7; x8; x9; x10; x11; x12; x13; x14; x15] 4) with (x4 + 256 * x5). unfold val_be. cbn [fold_left]. lia. }
  assert (E3 : u16_at [x0; x1; x2; x3; x4; x5; x6; x7; x8; x9; x10; x11; x12; x13; x14; x15] 6 = val_be [x7; x6]).
  { change (u16_at [x0; x1; x2; x3; x4; x5; x6; x7; x8; x9; x10; x11; x12; x13; x14; x15] 6) with (x6 + 256 * x7). unfold val_be. cbn [fold_left]. lia. }
  assert (B4 : bytes_ok [x3; x2; x1; x0]) by (repeat constructor; assumption).
  assert (B2 : bytes_ok [x5; x4]) by (repeat constructor; assumption).
  assert (B3 : bytes_ok [x7; x6]) by (repeat constructor; assumption).
  rewrite guid_fmt_fields.
  - unfold guid_of_bytes. cbn [Data1 Data2 Data3 Data4 firstn skipn]. rewrite E1, E2, E3.
    rewrite (hex_fixed_bytes upper [x3; x2; x1; x0] B4 : hex_fixed upper 8 _ = _).
    rewrite (hex_fixed_bytes upper [x5; x4] B2 : hex_fixed upper 4 _ = _).
    rewrite (hex_fixed_bytes upper [x7; x6] B3 : hex_fixed upper 4 _ = _).
    unfold guid_spec, guid_text. cbn [nth]. destruct dashed; cbn [app]; rewrite <- ?app_assoc; reflexivity.
  - unfold guid_of_bytes. cbn [Data1]. rewrite E1. pose proof (val_be_lt _ B4) as V. cbn [length] in V. exact V.
  - unfold guid_of_bytes. cbn [Data2]. rewrite E2. pose proof (val_be_lt _ B2) as V. cbn [length] in V. exact V.
  - unfold guid_of_bytes. cbn [Data3]. rewrite E3. pose proof (val_be_lt _ B3) as V. cbn [length] in V. exact V.
  - reflexivity.
  - unfold guid_of_bytes. cbn [Data4 firstn skipn]. repeat constructor; assumption.
Qed.

Corollary guid_fmt_no_fault : forall upper dashed b, length b = 16%nat -> bytes_ok b -> no_fault (guid_fmt upper dashed (guid_of_bytes b)).
Proof. intros. rewrite guid_fmt_bytes by assumption. intros f Hf. discriminate. Qed.

(* ------------------------------------------------------------------------------------------------ Ptr, Pir *)
(* member: panics exactly when va + offset does not fit the address type (in a build that checks overflow);
   a build without the checks wraps *)
Theorem ptr_member_ok : forall checks bits va offset,
  ptr_member checks bits va offset = match ptr_member_spec checks bits va offset with Some r => Ok r | None => Fault POverflow end.
Proof.
  intros. unfold ptr_member, ptr_member_spec, ptr_member_faults, arith_add, chk_add. destruct checks; cbn [andb]; [|reflexivity].
  destruct (va + offset <? 2 ^ bits) eqn:E; destruct (2 ^ bits <=? va + offset) eqn:E2; try lia; [|reflexivity].
  rewrite N.mod_small by lia. reflexivity.
Qed.
Corollary ptr_member_faults_iff : forall checks bits va offset,
  (exists f, ptr_member checks bits va offset = Fault f) <-> (checks = true /\ 2 ^ bits <= va + offset).
Proof.
  intros. rewrite ptr_member_ok. unfold ptr_member_spec, ptr_member_faults. destruct checks; cbn [andb].
  - destruct (2 ^ bits <=? va + offset) eqn:E; split; [intros _; split; [reflexivity|lia]|intros _; eexists; reflexivity|intros [f Hf]; discriminate|intros [_ H]; lia].
  - split; [intros [f Hf]; discriminate|intros [H _]; discriminate].
Qed.

(* at: panics exactly when i * size_of::<T>() does not fit usize or va + (that product truncated to the address type)
   does not fit the address type.  Note the truncation: on pe32 (and Pir) a product of 2^32 or more is cut to 32 bits
   BEFORE the checked addition, so e.g. index 2^30 of a [u32] array is the array's own address, silently. *)
Theorem ptr_at_ok : forall checks bits va i size, bits = 32 \/ bits = 64 ->
  ptr_at checks bits va i size = match ptr_at_spec checks bits va i size with Some r => Ok r | None => Fault POverflow end.
Proof.
  intros checks bits va i size Hb. unfold ptr_at, ptr_at_spec, ptr_at_faults, arith_mul, arith_add, chk_mul, chk_add, W64.
  remember (i * size) as p eqn:Hp. clear Hp.
  destruct Hb as [-> | ->]; [change (2 ^ 32) with 4294967296|change (2 ^ 64) with 18446744073709551616]; destruct checks; cbn [andb bind].
  - destruct (p <? 18446744073709551616) eqn:E1; cbn [bind].
    + destruct (18446744073709551616 <=? p) eqn:E2; [lia|]. cbn [orb].
      destruct (va + p mod 4294967296 <? 4294967296) eqn:E3; destruct (4294967296 <=? va + p mod 4294967296) eqn:E4; try lia; [|reflexivity].
      f_equal. lia.
    + destruct (18446744073709551616 <=? p) eqn:E2; [|lia]. reflexivity.
  - f_equal. lia.
  - destruct (p <? 18446744073709551616) eqn:E1; cbn [bind].
    + destruct (18446744073709551616 <=? p) eqn:E2; [lia|]. cbn [orb].
      destruct (va + p mod 18446744073709551616 <? 18446744073709551616) eqn:E3; destruct (18446744073709551616 <=? va + p mod 18446744073709551616) eqn:E4; try lia; [|reflexivity].
      f_equal. lia.
    + destruct (18446744073709551616 <=? p) eqn:E2; [|lia]. reflexivity.
  - f_equal. lia.
Qed.
Corollary ptr_at_faults_iff : forall checks bits va i size, bits = 32 \/ bits = 64 ->
  ((exists f, ptr_at checks bits va i size = Fault f) <->
   (checks = true /\ (W64 <= i * size \/ 2 ^ bits <= va + (i * size) mod 2 ^ bits))).
Proof.
  intros checks bits va i size Hb. rewrite ptr_at_ok by exact Hb. unfold ptr_at_spec, ptr_at_faults. destruct checks; cbn [andb].
  - destruct ((W64 <=? i * size) || (2 ^ bits <=? va + (i * size) mod 2 ^ bits)) eqn:E; split.
    + intros _. split; [reflexivity|]. apply orb_true_iff in E. destruct E; [left|right]; lia.
    + intros _. eexists. reflexivity.
    + intros [f Hf]. discriminate.
    + intros [_ H]. apply orb_false_iff in E. destruct E. destruct H; lia.
  - split; [intros [f Hf]; discriminate|intros [H _]; discriminate].
Qed.
Theorem ptr_at_truncation_witness :
  ptr_at true 32 4096 1073741824 4 = Ok 4096 /\ ptr_at true 64 4096 1073741824 4 = Ok 4294971392 /\
  ptr_at true 32 0 2305843009213693951 8 = Ok 4294967288 /\ ptr_at true 64 0 2305843009213693952 8 = Fault POverflow.
Proof. vm_compute. repeat split; reflexivity. Qed.

(* offset: wrapping by construction; its value is va + the signed offset, modulo the address space *)
Theorem ptr_offset_signed : forall bits va so, bits = 32 \/ bits = 64 -> va < 2 ^ bits -> so < 2 ^ bits ->
  Z.of_N (ptr_offset bits va so) = ((Z.of_N va + signed bits so) mod Z.of_N (2 ^ bits))%Z /\ ptr_offset bits va so < 2 ^ bits.
Proof.
  intros bits va so Hb Hva Hso. unfold ptr_offset, signed.
  destruct Hb as [-> | ->]; [change (2 ^ 32) with 4294967296 in *; change (2 ^ (32 - 1)) with 2147483648
                            |change (2 ^ 64) with 18446744073709551616 in *; change (2 ^ (64 - 1)) with 9223372036854775808].
  - destruct (so <? 2147483648) eqn:E; split; lia.
  - destruct (so <? 9223372036854775808) eqn:E; split; lia.
Qed.

(* fmt(): numbers as lists of hex digits, most significant first *)
Definition val16 (ds : list N) : N := fold_left (fun a d => a * 16 + d) ds 0.
Definition digits_ok (ds : list N) : Prop := Forall (fun d => d < 16) ds.
Lemma val16_snoc : forall ds d, val16 (ds ++ [d]) = val16 ds * 16 + d.
Proof. intros. unfold val16. rewrite fold_left_app. reflexivity. Qed.
Lemma val16_lt : forall ds, digits_ok ds -> val16 ds < 16 ^ N.of_nat (length ds).
Proof.
  induction ds as [|d ds IH] using rev_ind; intros H; [reflexivity|]. apply Forall_app in H. destruct H as [H1 H2]. inversion H2; subst.
  rewrite val16_snoc, app_length. cbn [length]. replace (length ds + 1)%nat with (S (length ds)) by lia. rewrite pow16_succ.
  specialize (IH H1). lia.
Qed.
Lemma val16_cons : forall ds d, val16 (d :: ds) = d * 16 ^ N.of_nat (length ds) + val16 ds.
Proof.
  induction ds as [|x ds IH] using rev_ind; intros d; [unfold val16; cbn [fold_left length]; change (16 ^ N.of_nat 0) with 1; lia|].
  rewrite app_comm_cons, !val16_snoc, IH, app_length. cbn [length]. replace (length ds + 1)%nat with (S (length ds)) by lia. rewrite pow16_succ. lia.
Qed.

Lemma pow2_4n : forall n, 2 ^ (4 * N.of_nat n) = 16 ^ N.of_nat n.
Proof. intros. rewrite N.pow_mul_r. reflexivity. Qed.

(* rotate_left(4) moves the most significant digit to the least significant place *)
Lemma rotl4_digits : forall d ds, d < 16 -> digits_ok ds ->
  rotl4 (4 * N.of_nat (S (length ds))) (val16 (d :: ds)) = val16 (ds ++ [d]).
Proof.
  intros d ds Hd Hds. unfold rotl4. rewrite val16_cons, val16_snoc. pose proof (val16_lt ds Hds) as Hv.
  rewrite pow2_4n, pow16_succ. replace (4 * N.of_nat (S (length ds)) - 4) with (4 * N.of_nat (length ds)) by lia.
  rewrite shr_div, shl_mul, pow2_4n. change (2 ^ 4) with 16. remember (16 ^ N.of_nat (length ds)) as P eqn:HP. remember (val16 ds) as v.
  assert (HP0 : 0 < P) by (subst P; apply pow16_pos).
  assert (E1 : ((d * P + v) * 16) mod (16 * P) = v * 16).
  { replace ((d * P + v) * 16) with (v * 16 + d * (16 * P)) by lia. rewrite N.mod_add by lia. apply N.mod_small. lia. }
  assert (E2 : (d * P + v) / P = d).
  { rewrite N.div_add_l by lia. rewrite N.div_small by lia. lia. }
  rewrite E1, E2. replace (v * 16) with (v * 2 ^ 4) by reflexivity. rewrite lor_add_r by (change (2 ^ 4) with 16; lia). reflexivity.
Qed.
Lemma land15_last : forall ds d, d < 16 -> N.land (val16 (ds ++ [d])) 15 = d.
Proof. intros. rewrite val16_snoc, land15. lia. Qed.

Lemma set_nth_mid : forall (a b : list N) x v, set_nth (a ++ x :: b) (lenN a) v = Ok (a ++ v :: b).
Proof.
  intros. unfold set_nth. rewrite lenN_app, lenN_cons. destruct (lenN a <? lenN a + (1 + lenN b)) eqn:E; [|lia]. f_equal.
  unfold lenN. rewrite Nat2N.id. replace (N.to_nat (N.of_nat (length a) + 1)) with (length a + 1)%nat by lia.
  rewrite firstn_app, Nat.sub_diag, firstn_all. cbn [firstn]. rewrite app_nil_r. f_equal. f_equal.
  rewrite skipn_app. rewrite skipn_all2 by lia. replace (length a + 1 - length a)%nat with 1%nat by lia. reflexivity.
Qed.

Lemma ptr_fmt_loop_digits : forall post pre out_pre bits,
  digits_ok (post ++ pre) -> bits = 4 * N.of_nat (length post + length pre) -> length out_pre = length pre ->
  (length post + length pre <= 16)%nat ->
  ptr_fmt_loop bits (length post) (lenN pre) (val16 (post ++ pre)) ([48; 120] ++ out_pre ++ repeat 0 (length post))
  = Ok ([48; 120] ++ out_pre ++ map (hexdigit false) post).
Proof.
  induction post as [|d post IH]; intros pre out_pre bits Hd Hbits Hlen Hsmall; [reflexivity|].
  change ((d :: post) ++ pre) with (d :: (post ++ pre)) in *. inversion Hd as [|? ? Hd1 Hd2]; subst.
  replace (4 * N.of_nat (length (d :: post) + length pre)) with (4 * N.of_nat (S (length (post ++ pre)))) by (cbn [length]; rewrite app_length; lia).
  cbn [length ptr_fmt_loop]. rewrite rotl4_digits by assumption. rewrite land15_last by assumption.
  assert (Hchr : (if d <? 10 then chk_add W8 48 d else d0 <- chk_sub d 10 ;; chk_add W8 97 d0) = Ok (hexdigit false d)).
  { unfold hexdigit, chk_add, chk_sub, W8. destruct (d <? 10) eqn:E.
    - destruct (48 + d <? 256) eqn:E2; [reflexivity|lia].
    - destruct (10 <=? d) eqn:E1; [|lia]. cbn [bind]. destruct (97 + (d - 10) <? 256) eqn:E2; [|lia]. f_equal. lia. }
  rewrite Hchr. cbn [bind]. unfold chk_add, W64. cbn [length] in Hsmall.
  destruct (lenN pre + 2 <? 18446744073709551616) eqn:E; [|unfold lenN in E; lia]. cbn [bind].
  replace ([48; 120] ++ out_pre ++ repeat 0 (S (length post))) with (([48; 120] ++ out_pre) ++ 0 :: repeat 0 (length post))
    by (rewrite <- app_assoc; reflexivity).
  replace (lenN pre + 2) with (lenN ([48; 120] ++ out_pre)) by (rewrite lenN_app; unfold lenN; rewrite Hlen; cbn [length]; lia).
  rewrite set_nth_mid. cbn [bind].
  replace (lenN pre + 1) with (lenN (pre ++ [d])) by (rewrite lenN_app; reflexivity).
  rewrite <- (app_assoc post pre [d]).
  replace (([48; 120] ++ out_pre) ++ hexdigit false d :: repeat 0 (length post))
    with ([48; 120] ++ (out_pre ++ [hexdigit false d]) ++ repeat 0 (length post)) by (rewrite <- !app_assoc; reflexivity).
  rewrite IH.
  - cbn [map]. rewrite <- !app_assoc. reflexivity.
  - rewrite app_assoc. apply Forall_app. split; [exact Hd2|constructor; [exact Hd1|constructor]].
  - rewrite !app_length. cbn [length]. f_equal. lia.
  - rewrite !app_length. cbn [length]. lia.
  - rewrite app_length. cbn [length]. lia.
Qed.

Definition digits_be (n : nat) (x : N) : list N := map (fun i => (x / 16 ^ N.of_nat (n - 1 - i)) mod 16) (seq 0 n).
Lemma digits_be_cons : forall n x, digits_be (S n) x = (x / 16 ^ N.of_nat n) mod 16 :: digits_be n x.
Proof.
  intros. unfold digits_be. cbn [seq map]. f_equal; [replace (S n - 1 - 0)%nat with n by lia; reflexivity|].
  rewrite <- seq_shift, map_map. apply map_ext. intros i. replace (S n - 1 - S i)%nat with (n - 1 - i)%nat by lia. reflexivity.
Qed.
Lemma digits_be_length : forall n x, length (digits_be n x) = n.
Proof. intros. unfold digits_be. rewrite map_length, seq_length. reflexivity. Qed.
Lemma digits_be_ok : forall n x, digits_ok (digits_be n x).
Proof. intros. unfold digits_be, digits_ok. apply Forall_forall. intros d Hd. apply in_map_iff in Hd. destruct Hd as [i [<- _]]. apply N.mod_lt. lia. Qed.
Lemma val16_digits_be : forall n x, val16 (digits_be n x) = x mod 16 ^ N.of_nat n.
Proof.
  induction n as [|n IH]; intros x; [change (16 ^ N.of_nat 0) with 1; rewrite N.mod_1_r; reflexivity|].
  rewrite digits_be_cons, val16_cons, digits_be_length, IH, pow16_succ.
  rewrite (N.mul_comm 16). rewrite N.mod_mul_r by (try apply N.pow_nonzero; lia). lia.
Qed.
Lemma hex_fixed_digits : forall upper n x, hex_fixed upper n x = map (hexdigit upper) (digits_be n x).
Proof. intros. unfold hex_fixed, digits_be. rewrite map_map. reflexivity. Qed.

(* Ptr::fmt / Pir::fmt: "0x" and exactly 2 * size_of::<Va>() lower-case hex digits, most significant first;
   no index panic, no u8 overflow in the digit arithmetic *)
Theorem ptr_fmt_ok : forall bits va, bits = 32 \/ bits = 64 -> va < 2 ^ bits -> ptr_fmt bits va = Ok (ptr_display_spec bits va).
Proof.
  intros bits va Hb Hva. unfold ptr_display_spec. rewrite hex_fixed_digits.
  assert (Hv : val16 (digits_be (N.to_nat (bits / 4)) va ++ []) = va).
  { rewrite app_nil_r, val16_digits_be. apply N.mod_small. destruct Hb as [-> | ->]; exact Hva. }
  pose proof (ptr_fmt_loop_digits (digits_be (N.to_nat (bits / 4)) va) [] [] bits) as L.
  rewrite Hv, digits_be_length in L. cbn [length app] in L. rewrite Nat.add_0_r in L.
  unfold ptr_fmt. destruct Hb as [-> | ->].
  - change (chk_mul W64 (32 / 8) 2) with (Ok 8). cbn [bind]. change (chk_add W64 8 2) with (Ok 10). cbn [bind].
    change (set_nth (repeat 0 (N.to_nat 10)) 0 48) with (Ok (48 :: repeat 0 9)). cbn [bind].
    change (set_nth (48 :: repeat 0 9) 1 120) with (Ok ([48; 120] ++ repeat 0 8)). cbn [bind].
    apply L; try reflexivity; try (vm_compute; lia). rewrite app_nil_r. apply digits_be_ok.
  - change (chk_mul W64 (64 / 8) 2) with (Ok 16). cbn [bind]. change (chk_add W64 16 2) with (Ok 18). cbn [bind].
    change (set_nth (repeat 0 (N.to_nat 18)) 0 48) with (Ok (48 :: repeat 0 17)). cbn [bind].
    change (set_nth (48 :: repeat 0 17) 1 120) with (Ok ([48; 120] ++ repeat 0 16)). cbn [bind].
    apply L; try reflexivity; try (vm_compute; lia). rewrite app_nil_r. apply digits_be_ok.
Qed.
Corollary ptr_fmt_length : forall bits va out, bits = 32 \/ bits = 64 -> va < 2 ^ bits -> ptr_fmt bits va = Ok out ->
  lenN out = 2 + 2 * (bits / 8).
Proof.
  intros bits va out Hb Hva H. rewrite ptr_fmt_ok in H by assumption. injection H as <-. unfold ptr_display_spec.
  rewrite lenN_app. unfold lenN at 2. rewrite hex_fixed_length. destruct Hb as [-> | ->]; reflexivity.
Qed.
(* {:x} {:X} {:#x} {:0Nx}.. of a Ptr / Pir are the integer's: minimal digits, optional prefix, zero padding *)
Theorem ptr_hex_ok : forall upper alt width va, va < 2 ^ 64 -> ptr_hex upper alt width va = Ok (fmt_hex_spec upper alt width va).
Proof. intros. unfold ptr_hex. apply fmt_hex_spec_ok. eapply N.lt_trans; [eassumption|reflexivity]. Qed.

(* ------------------------------------------------------------------------------------------------ flags!, enum1! *)
Lemma land_pow2_test : forall x i, (N.land x (2 ^ i) =? 0) = negb (N.testbit x i).
Proof.
  intros x i. destruct (N.testbit x i) eqn:T; cbn [negb].
  - apply N.eqb_neq. intros H. assert (B : N.testbit (N.land x (2 ^ i)) i = true) by (rewrite N.land_spec, T, N.pow2_bits_true; reflexivity).
    rewrite H, N.bits_0 in B. discriminate.
  - apply N.eqb_eq. apply N.bits_inj. intros m. rewrite N.land_spec, N.pow2_bits_eqb, N.bits_0.
    destruct (i =? m) eqn:E; [apply N.eqb_eq in E; subst; rewrite T; reflexivity|apply andb_false_r].
Qed.

Lemma flag_str_lookup : forall t i, lookup_flag t i = match flag_str t i with Some s => [s] | None => [] end.
Proof.
  induction t as [|[[j nm] v] r IH]; intros i; [reflexivity|]. unfold lookup_flag in *. cbn [find flag_str fst snd].
  destruct (j =? i); [reflexivity|]. apply IH.
Qed.

Definition flags_at (t : flag_table) (x : N) (j : nat) : list name :=
  if N.testbit x (N.of_nat j) then lookup_flag t (N.of_nat j) else [].

Lemma to_strs_loop_ok : forall checks bits t x k i, N.of_nat i + N.of_nat k <= bits ->
  to_strs_loop checks bits t x k (N.of_nat i) = Ok (flat_map (flags_at t x) (seq i k)).
Proof.
  induction k as [|k IH]; intros i Hi; [reflexivity|]. cbn [to_strs_loop seq flat_map]. unfold arith_shl.
  destruct (N.of_nat i <? bits) eqn:E; [|lia]. cbn [bind].
  replace (N.of_nat i + 1) with (N.of_nat (S i)) by lia. rewrite IH by lia. cbn [bind]. f_equal.
  rewrite shl_mul, N.mul_1_l. rewrite N.mod_small by (apply N.pow_lt_mono_r; lia). rewrite land_pow2_test, negb_involutive.
  unfold flags_at. rewrite flag_str_lookup. destruct (N.testbit x (N.of_nat i)); [|reflexivity]. destruct (flag_str t (N.of_nat i)); reflexivity.
Qed.

(* to_strs: exactly the names of the set bits that have a table row, in ascending bit order; the shift amount is
   always below the width (with checks = true a wider shift would be Fault POverflow) *)
Theorem to_strs_ok : forall checks size t x, size * 8 < W32 ->
  to_strs checks size t x = Ok (to_strs_spec (N.to_nat (size * 8)) t x).
Proof.
  intros checks size t x H. unfold to_strs, arith_mul, chk_mul.
  assert (E : (if checks then if size * 8 <? W32 then Ok (size * 8) else Fault POverflow else Ok ((size * 8) mod W32)) = Ok (size * 8)).
  { destruct checks; [destruct (size * 8 <? W32) eqn:E; [reflexivity|lia]|rewrite N.mod_small by exact H; reflexivity]. }
  rewrite E. cbn [bind]. change 0 with (N.of_nat 0). rewrite to_strs_loop_ok by lia. reflexivity.
Qed.

Lemma lookup_flag_len : forall t i, (length (lookup_flag t i) <= 1)%nat.
Proof. intros. unfold lookup_flag. destruct (find _ t); cbn [length]; lia. Qed.
Theorem to_strs_spec_bound : forall bits t x, (length (to_strs_spec bits t x) <= bits)%nat.
Proof.
  intros bits t x. unfold to_strs_spec. assert (G : forall k i, (length (flat_map (fun j => if N.testbit x (N.of_nat j) then lookup_flag t (N.of_nat j) else []) (seq i k)) <= k)%nat).
  { induction k as [|k IH]; intros i; [cbn; lia|]. cbn [seq flat_map]. rewrite app_length. specialize (IH (S i)).
    pose proof (lookup_flag_len t (N.of_nat i)). destruct (N.testbit x (N.of_nat i)); cbn [length] in *; lia. }
  apply G.
Qed.
(* ... i.e. map name (filter set bits) *)
Theorem to_strs_spec_filter : forall bits t x,
  to_strs_spec bits t x = flat_map (fun j => lookup_flag t (N.of_nat j)) (filter (fun j => N.testbit x (N.of_nat j)) (seq 0 bits)).
Proof.
  intros bits t x. unfold to_strs_spec. generalize 0%nat. induction bits as [|k IH]; intros i; [reflexivity|]. cbn [seq flat_map filter].
  rewrite IH. destruct (N.testbit x (N.of_nat i)); reflexivity.
Qed.
Theorem to_strs_spec_in : forall bits t x s, In s (to_strs_spec bits t x) <->
  exists i, (i < bits)%nat /\ N.testbit x (N.of_nat i) = true /\ flag_str t (N.of_nat i) = Some s.
Proof.
  intros bits t x s. unfold to_strs_spec. rewrite in_flat_map. split.
  - intros [i [Hi Hs]]. apply in_seq in Hi. exists i. split; [lia|]. destruct (N.testbit x (N.of_nat i)); [|contradiction]. split; [reflexivity|].
    rewrite flag_str_lookup in Hs. destruct (flag_str t (N.of_nat i)); [|contradiction]. destruct Hs as [->|[]]. reflexivity.
  - intros [i [Hi [Hb Hs]]]. exists i. split; [apply in_seq; lia|]. rewrite Hb, flag_str_lookup, Hs. left. reflexivity.
Qed.

Lemma name_eqb_eq : forall a b, name_eqb a b = true <-> a = b.
Proof.
  induction a as [|x a IH]; destruct b as [|y b]; cbn [name_eqb]; split; intros H; try discriminate; try reflexivity.
  - apply andb_true_iff in H. destruct H as [H1 H2]. apply N.eqb_eq in H1. apply IH in H2. subst. reflexivity.
  - inversion H; subst. rewrite N.eqb_refl. apply IH. reflexivity.
Qed.
Lemma name_in_In : forall s l, name_in s l = true <-> In s l.
Proof.
  induction l as [|x r IH]; cbn [name_in In]; [split; [discriminate|contradiction]|]. rewrite orb_true_iff, IH, name_eqb_eq. tauto.
Qed.
Lemma n_in_In : forall v l, n_in v l = true <-> In v l.
Proof.
  induction l as [|x r IH]; cbn [n_in In]; [split; [discriminate|contradiction]|]. rewrite orb_true_iff, IH, N.eqb_eq. tauto.
Qed.

Theorem enum_to_str_ok : forall t v, enum_to_str t v = enum_to_str_spec t v.
Proof. induction t as [|[k nm] r IH]; intros v; [reflexivity|]. unfold enum_to_str_spec in *. cbn [enum_to_str find fst snd]. destruct (k =? v); [reflexivity|apply IH]. Qed.
Theorem enum_from_str_ok : forall t s, enum_from_str t s = enum_from_str_spec t s.
Proof. induction t as [|[k nm] r IH]; intros s; [reflexivity|]. unfold enum_from_str_spec in *. cbn [enum_from_str find fst snd]. destruct (name_eqb nm s); [reflexivity|apply IH]. Qed.
Theorem parse_flag_ok : forall t s, parse_flag t s = parse_flag_spec t s.
Proof. induction t as [|[[i nm] v] r IH]; intros s; [reflexivity|]. unfold parse_flag_spec in *. cbn [parse_flag find fst snd]. destruct (name_eqb nm s); [reflexivity|apply IH]. Qed.

Lemma enum_to_str_in : forall t v s, enum_to_str t v = Some s -> In (v, s) t.
Proof.
  induction t as [|[k nm] r IH]; intros v s H; [discriminate|]. cbn [enum_to_str] in H. destruct (k =? v) eqn:E.
  - apply N.eqb_eq in E. inversion H; subst. left. reflexivity.
  - right. apply IH. exact H.
Qed.
Lemma enum_from_str_in : forall t v s, enum_from_str t s = Some v -> In (v, s) t.
Proof.
  induction t as [|[k nm] r IH]; intros v s H; [discriminate|]. cbn [enum_from_str] in H. destruct (name_eqb nm s) eqn:E.
  - apply name_eqb_eq in E. inversion H; subst. left. reflexivity.
  - right. apply IH. exact H.
Qed.
Lemma enum_in_from_str : forall t v s, names_distinct (map snd t) = true -> In (v, s) t -> enum_from_str t s = Some v.
Proof.
  induction t as [|[k nm] r IH]; intros v s Hd Hin; [contradiction|]. cbn [map snd names_distinct] in Hd. apply andb_true_iff in Hd. destruct Hd as [Hn Hd].
  cbn [enum_from_str]. destruct Hin as [H|H].
  - inversion H; subst. rewrite (proj2 (name_eqb_eq s s) eq_refl). reflexivity.
  - destruct (name_eqb nm s) eqn:E; [|apply IH; assumption]. apply name_eqb_eq in E. subst. exfalso.
    apply negb_true_iff in Hn. assert (name_in s (map snd r) = true) by (apply name_in_In; apply (in_map snd) in H; exact H). congruence.
Qed.
Lemma enum_in_to_str : forall t v s, ns_distinct (map fst t) = true -> In (v, s) t -> enum_to_str t v = Some s.
Proof.
  induction t as [|[k nm] r IH]; intros v s Hd Hin; [contradiction|]. cbn [map fst ns_distinct] in Hd. apply andb_true_iff in Hd. destruct Hd as [Hn Hd].
  cbn [enum_to_str]. destruct Hin as [H|H].
  - inversion H; subst. rewrite N.eqb_refl. reflexivity.
  - destruct (k =? v) eqn:E; [|apply IH; assumption]. apply N.eqb_eq in E. subst. exfalso.
    apply negb_true_iff in Hn. assert (n_in v (map fst r) = true) by (apply n_in_In; apply (in_map fst) in H; exact H). congruence.
Qed.

(* enum1!: to_str and from_str are inverse to each other on a table with distinct values and distinct names *)
Theorem enum_round_trip : forall t, enum_table_wf t = true ->
  (forall v s, enum_to_str t v = Some s -> enum_from_str t s = Some v) /\
  (forall v s, enum_from_str t s = Some v -> enum_to_str t v = Some s).
Proof.
  intros t H. unfold enum_table_wf in H. apply andb_true_iff in H. destruct H as [H1 H2]. split; intros v s Hx.
  - apply enum_in_from_str; [exact H2|]. apply enum_to_str_in. exact Hx.
  - apply enum_in_to_str; [exact H1|]. apply enum_from_str_in. exact Hx.
Qed.

(* flags!: on a well-formed table, the name of bit i parses to the constant 1 << i *)
Theorem flag_round_trip : forall bits t i s, flag_table_wf bits t = true -> flag_str t i = Some s -> parse_flag t s = Some (2 ^ i) /\ i < bits.
Proof.
  intros bits t i s H. unfold flag_table_wf in H. apply andb_true_iff in H. destruct H as [H Hv]. apply andb_true_iff in H. destruct H as [_ Hn].
  revert Hv Hn. induction t as [|[[j nm] v] r IH]; intros Hv Hn Hs; [discriminate|].
  cbn [forallb fst snd] in Hv. apply andb_true_iff in Hv. destruct Hv as [Hj Hv]. apply andb_true_iff in Hj. destruct Hj as [Hjb Hjv].
  cbn [map fst snd names_distinct] in Hn. apply andb_true_iff in Hn. destruct Hn as [Hn1 Hn].
  cbn [flag_str] in Hs. cbn [parse_flag]. destruct (j =? i) eqn:E.
  - apply N.eqb_eq in E. inversion Hs; subst. rewrite (proj2 (name_eqb_eq s s) eq_refl). apply N.eqb_eq in Hjv. subst. split; [reflexivity|lia].
  - destruct (name_eqb nm s) eqn:En; [|apply IH; assumption]. exfalso. apply name_eqb_eq in En. subst.
    apply negb_true_iff in Hn1. assert (name_in s (map (fun r0 => snd (fst r0)) r) = true).
    { apply name_in_In. clear - Hs. induction r as [|[[j' nm'] v'] r IHr]; [discriminate|]. cbn [flag_str] in Hs. cbn [map fst snd In].
      destruct (j' =? i); [inversion Hs; subst; left; reflexivity|right; apply IHr; exact Hs]. }
    congruence.
Qed.

(* the transcribed tables are well formed ... *)
Theorem real_tables_wf :
  flag_table_wf 16 file_chars_table = true /\ flag_table_wf 16 dll_chars_table = true /\ flag_table_wf 32 section_chars_table = true /\
  forallb enum_table_wf [machine_table; optional_magic_table; subsystem_table; directory_entry_table; resource_name_table;
                         reloc_type_table; unwind_op_table; unwind_flag_table; debug_type_table] = true.
Proof. vm_compute. repeat split; reflexivity. Qed.

(* ------------------------------------------------------------------------------------------------ encode_utf16 against the decoder *)
Lemma utf16_encode_arith : forall c, c < 1114112 ->
  utf16_encode c = if c <? 65536 then [c] else [55296 + (c - 65536) / 1024; 56320 + (c - 65536) mod 1024].
Proof.
  intros c Hc. unfold utf16_encode. rewrite land65535. destruct (c <? 65536) eqn:E.
  - destruct (c mod 65536 =? c) eqn:E2; [reflexivity|lia].
  - destruct (c mod 65536 =? c) eqn:E2; [lia|]. rewrite shr_div, land1023. change (2 ^ 10) with 1024.
    rewrite (N.lor_comm 55296), (N.lor_comm 56320).
    rewrite (lor_tag _ 55296 10 54) by (try reflexivity; change (2 ^ 10) with 1024; lia).
    rewrite (lor_tag _ 56320 10 55) by (try reflexivity; change (2 ^ 10) with 1024; lia). reflexivity.
Qed.
(* what from_str writes decodes back to the characters of the string *)
Theorem utf16_round_trip : forall cs, forallb is_scalar cs = true -> utf16_decode_spec (str_encode_utf16 cs) = map IChar cs.
Proof.
  intros cs H. rewrite <- decode_struct_spec. induction cs as [|c t IH]; [reflexivity|]. cbn [forallb] in H. apply andb_true_iff in H. destruct H as [Hc Ht].
  unfold str_encode_utf16 in *. cbn [flat_map map]. unfold is_scalar in Hc. rewrite utf16_encode_arith by lia. destruct (c <? 65536) eqn:E.
  - cbn [app decode_struct]. unfold is_utf16_surrogate. destruct (negb ((55296 <=? c) && (c <=? 57343))) eqn:Es; [|lia]. rewrite IH by exact Ht. reflexivity.
  - cbn [app decode_struct]. unfold is_utf16_surrogate. set (h := 55296 + (c - 65536) / 1024). set (l := 56320 + (c - 65536) mod 1024).
    destruct (negb ((55296 <=? h) && (h <=? 57343))) eqn:Es; [subst h; lia|]. destruct (56320 <=? h) eqn:El; [subst h; lia|].
    destruct ((l <? 56320) || (57343 <? l)) eqn:E2; [subst l; lia|]. rewrite IH by exact Ht. f_equal. f_equal. unfold pair_value. subst h l. lia.
Qed.

(* ------------------------------------------------------------------------------------------------ summaries used by the statement files *)
Theorem fmt_bounds : forall ws, units_ok ws ->
  (exists out, fmt_display ws = Ok out /\ (length out <= 3 * length ws)%nat) /\
  (exists out, fmt_debug ws = Ok out /\ (length out <= 6 * length ws + 3)%nat).
Proof. intros ws H. split; [apply fmt_display_bound|apply fmt_debug_bound]; exact H. Qed.

Theorem strn_trimn_ok : forall buf, strn buf = Ok (take_nonzero buf) /\ wstrn buf = Ok (take_nonzero buf) /\ trimn buf = Ok (trim_spec buf) /\
  is_strn buf (take_nonzero buf) /\ is_trimn buf (trim_spec buf).
Proof.
  intros buf. destruct (strn_ok buf) as [A B]. split; [exact A|]. split; [exact B|]. split; [apply trimn_ok|].
  split; [apply take_nonzero_is_strn|apply trim_spec_is_trimn].
Qed.

(* no panic, no UB fault, no OutOfFuel - the functions that cannot fault at all, on all inputs *)
Theorem util_total :
  (forall ws, no_fault (decode_all ws)) /\
  (forall ws, no_fault (fmt_display ws)) /\
  (forall ws, units_ok ws -> no_fault (fmt_debug ws)) /\
  (forall words, units_ok words -> no_fault (from_words words)) /\
  (forall w0 t, no_fault (as_ref (w0 :: t)) /\ no_fault (to_string (w0 :: t)) /\ forall cs, no_fault (eq_str (w0 :: t) cs)) /\
  (forall buf, no_fault (strn buf) /\ no_fault (wstrn buf) /\ no_fault (trimn buf) /\ forall valid, no_fault (parsen valid buf)) /\
  (forall p l, no_fault (split_f p l)) /\
  (forall upper dashed b, length b = 16%nat -> bytes_ok b -> no_fault (guid_fmt upper dashed (guid_of_bytes b))) /\
  (forall bits va, bits = 32 \/ bits = 64 -> va < 2 ^ bits -> no_fault (ptr_fmt bits va)) /\
  (forall upper alt width va, va < 2 ^ 64 -> no_fault (ptr_hex upper alt width va)) /\
  (forall checks size t x, size * 8 < W32 -> no_fault (to_strs checks size t x)).
Proof.
  repeat split.
  - intros ws f. rewrite decode_all_spec. discriminate.
  - intros ws f. rewrite fmt_display_spec. discriminate.
  - intros ws H f. rewrite fmt_debug_chars by exact H. discriminate.
  - apply from_words_no_fault.
  - intros f. rewrite as_ref_cons. discriminate.
  - intros f. rewrite to_string_ok. discriminate.
  - intros cs f. rewrite eq_str_ok. discriminate.
  - intros f. rewrite (proj1 (strn_ok buf)). discriminate.
  - intros f. rewrite (proj2 (strn_ok buf)). discriminate.
  - intros f. rewrite trimn_ok. discriminate.
  - intros valid f. rewrite parsen_ok. discriminate.
  - intros p l f. destruct (split_f_ok p l) as [a [b [H _]]]. rewrite H. discriminate.
  - intros upper dashed b Hl Hb. apply guid_fmt_no_fault; assumption.
  - intros bits va Hb Hva f. rewrite ptr_fmt_ok by assumption. discriminate.
  - intros upper alt width va H f. rewrite ptr_hex_ok by exact H. discriminate.
  - intros checks size t x H f. rewrite to_strs_ok by exact H. discriminate.
Qed.

Theorem to_strs_bounded : forall checks size t x, size * 8 < W32 ->
  exists l, to_strs checks size t x = Ok l /\ (length l <= N.to_nat (size * 8))%nat.
Proof. intros. eexists. split; [apply to_strs_ok; assumption|apply to_strs_spec_bound]. Qed.

(* the results of strn / wstrn / trimn are prefixes of the buffer they were given (offset 0, not longer) *)
Theorem strn_trimn_regions : forall buf,
  (exists r rest, strn buf = Ok r /\ wstrn buf = Ok r /\ buf = r ++ rest) /\
  (exists r k, trimn buf = Ok r /\ buf = r ++ repeat 0 k).
Proof.
  intros buf. destruct (strn_trimn_ok buf) as [A [B [C [[_ [rest [D _]]] [[k E] _]]]]]. split.
  - exists (take_nonzero buf), rest. split; [exact A|]. split; [exact B|exact D].
  - exists (trim_spec buf), k. split; [exact C|exact E].
Qed.

(* the fuel of the two fuelled loops is a function of the input length and always suffices *)
Theorem util_fuel_suffices : forall ws,
  decode_iter (S (length ws)) None ws = Ok (utf16_decode_spec ws) /\
  trimn_loop (S (length ws)) ws (lenN ws) = Ok (lenN (trim_spec ws)) /\
  (length (utf16_decode_spec ws) <= length ws)%nat.
Proof.
  intros ws. split; [apply decode_all_spec|]. split; [apply trimn_loop_ok; lia|].
  rewrite <- decode_struct_spec. apply (decode_struct_ind (fun ws its => (length its <= length ws)%nat)); intros; cbn [length] in *; lia.
Qed.
