(* C13, (4) containment, stronger form: in a children area in which ONE child has been replaced by arbitrary
   words of the same length, the children before it are reported unchanged (the events before a malformed child
   are a prefix of the well-formed events); if the replaced child keeps its own wLength word, it either ends the
   enumeration of its level or is read as one block made of its own words only, and the children after it are
   reported unchanged.  Lifted to the report of a whole resource for a replaced string table: every event
   outside that table's own level is unchanged, nothing is attributed to another table. *)
From PV.Model Require Import Machine VersionInfo.
From PV.Spec Require Import TlvEnc.
From PV.Proofs Require Import BaseProofs VersionInfoProofs VersionInfoRoundtrip.
Ltac Zify.zify_post_hook ::= Z.div_mod_to_equations.

(* ------------------------------------------------------------------ lengths depend on lengths only *)
Definition same_len (a b : list N) : Prop := lenN a = lenN b.
Lemma enc_seq_len tight : forall l1 l2, Forall2 same_len l1 l2 -> lenN (enc_seq tight l1) = lenN (enc_seq tight l2).
Proof.
  induction 1 as [|a b l1 l2 Hab Hl IH]; [reflexivity|]. unfold same_len in Hab.
  inversion Hl as [|a' b' l1' l2' Hab' Hl']; subst.
  - cbn [enc_seq]. rewrite !lenN_app, Hab. destruct tight; reflexivity.
  - rewrite !enc_seq_cons2 in *. rewrite !lenN_app, Hab, IH. reflexivity.
Qed.
Lemma same_len_refl l : Forall2 same_len l l.
Proof. induction l; constructor; [reflexivity|assumption]. Qed.
Lemma same_len_hole (a b : list (list N)) g e : lenN g = lenN e -> Forall2 same_len (a ++ g :: b) (a ++ e :: b).
Proof. intros H. apply Forall2_app; [apply same_len_refl|]. constructor; [exact H|apply same_len_refl]. Qed.
Lemma enc_tlv_len tight wtype f key value c1 c2 : lenN c1 = lenN c2 ->
  lenN (enc_tlv tight wtype f key value c1) = lenN (enc_tlv tight wtype f key value c2).
Proof.
  intros H. assert (Hn : isnil c1 = isnil c2).
  { destruct c1, c2; try reflexivity; rewrite ?lenN_cons, ?lenN_nil in H; lia. }
  unfold enc_tlv. rewrite Hn, !lenN_app, H. reflexivity.
Qed.
Lemma enc_tlv_word0 tight wtype f key value c :
  word (enc_tlv tight wtype f key value c) 0 = 2 * lenN (enc_tlv tight wtype f key value c) /\
  4 <= lenN (enc_tlv tight wtype f key value c).
Proof. unfold enc_tlv. cbn [app word nth]. rewrite !lenN_cons, !lenN_app, lenN_cons. split; lia. Qed.

(* ------------------------------------------------------------------ siblings before and after a replaced child *)
Lemma items_enc_seq2 tight vl : forall es ts, Forall2 (parses vl) es ts ->
  lenN (enc_seq tight es) + 65536 < W64 -> items vl (enc_seq tight es) = ts.
Proof.
  induction 1 as [|e t es ts (Hne & Hsm & Hp) Hl IH]; intros Hlen; [reflexivity|].
  inversion Hl as [|e' t' es' ts' Hp' Hl']; subst.
  - cbn [enc_seq] in *. set (pad := if tight then [] else padw (lenN e)) in *.
    assert (H : parse_tlv vl (e ++ pad) = Ok (t, [])).
    { specialize (Hp pad []). rewrite app_nil_r in Hp. apply Hp; [rewrite lenN_nil; unfold W64; lia|].
      unfold pad. destruct tight; [right; split; reflexivity|left; reflexivity]. }
    rewrite (items_cons _ _ _ _ (fun X => Hne (proj1 (app_eq_nil _ _ X))) (len_ok_big _ Hlen) H). reflexivity.
  - rewrite enc_seq_cons2 in *.
    assert (Hl2 : lenN (enc_seq tight (e' :: es')) + 65536 < W64) by (rewrite !lenN_app in Hlen; lia).
    assert (H : parse_tlv vl (e ++ padw (lenN e) ++ enc_seq tight (e' :: es')) = Ok (t, enc_seq tight (e' :: es'))).
    { apply Hp; [exact Hl2|left; reflexivity]. }
    rewrite (items_cons _ _ _ _ (fun X => Hne (proj1 (app_eq_nil _ _ X))) (len_ok_big _ Hlen) H).
    f_equal. apply IH. exact Hl2.
Qed.

Lemma Forall2_map2 {A B C} (R : B -> C -> Prop) (f : A -> B) (g : A -> C) l :
  (forall x, In x l -> R (f x) (g x)) -> Forall2 R (map f l) (map g l).
Proof. induction l as [|x l IH]; intros H; [constructor|]. constructor; [apply H; left; reflexivity|apply IH; intros y Hy; apply H; right; exact Hy]. Qed.

(* the children before the replaced one: unchanged, whatever follows them *)
Lemma items_enc_seq_prefix tight vl : forall es ts (tail : list (list N)), Forall2 (parses vl) es ts -> tail <> [] ->
  lenN (enc_seq tight (es ++ tail)) + 65536 < W64 ->
  items vl (enc_seq tight (es ++ tail)) = ts ++ items vl (enc_seq tight tail).
Proof.
  induction 1 as [|e t es ts (Hne & Hsm & Hp) Hl IH]; intros Ht Hlen; [reflexivity|].
  cbn [app] in *. destruct (es ++ tail) as [|y r] eqn:E.
  { apply app_eq_nil in E. destruct E as [_ E]. congruence. }
  rewrite enc_seq_cons2 in *.
  assert (Hl2 : lenN (enc_seq tight (y :: r)) + 65536 < W64) by (rewrite !lenN_app in Hlen; lia).
  assert (H : parse_tlv vl (e ++ padw (lenN e) ++ enc_seq tight (y :: r)) = Ok (t, enc_seq tight (y :: r))).
  { apply Hp; [exact Hl2|left; reflexivity]. }
  rewrite (items_cons _ _ _ _ (fun X => Hne (proj1 (app_eq_nil _ _ X))) (len_ok_big _ Hlen) H).
  f_equal. apply IH; assumption.
Qed.

(* the replaced child itself, its wLength word intact: it ends the enumeration, or it is read as one block whose
   key, value and children are made of its own words, and the children after it are unchanged *)
Lemma items_garbage tight vl g : forall es ts, Forall2 (parses vl) es ts ->
  4 <= lenN g -> word g 0 = 2 * lenN g ->
  lenN (enc_seq tight (g :: es)) + 65536 < W64 ->
  items vl (enc_seq tight (g :: es)) = [] \/
  exists t, items vl (enc_seq tight (g :: es)) = t :: ts /\
    (exists a b, g = a ++ t_key t ++ b) /\ (exists a b, g = a ++ t_value t ++ b) /\ (exists a, g = a ++ t_children t).
Proof.
  intros es ts Hall H4 Hw0 Hlen.
  assert (Hshape : exists pad, enc_seq tight (g :: es) = g ++ pad ++ enc_seq tight es /\
                     (pad = padw (lenN g) \/ (pad = [] /\ enc_seq tight es = []))).
  { destruct es as [|y r].
    - cbn [enc_seq]. exists (if tight then [] else padw (lenN g)). split; [rewrite app_nil_r; reflexivity|].
      destruct tight; [right; split; reflexivity|left; reflexivity].
    - exists (padw (lenN g)). split; [apply enc_seq_cons2|left; reflexivity]. }
  destruct Hshape as (pad & Hws & Hpad). set (rest := enc_seq tight es) in *. set (ws := enc_seq tight (g :: es)) in *.
  assert (Hne : ws <> []). { rewrite Hws. destruct g; [rewrite lenN_nil in H4; lia|discriminate]. }
  assert (Hok : len_ok ws) by (apply len_ok_big; exact Hlen).
  destruct (parse_tlv_cases vl ws Hok) as [E|(t & r & E & _)]; [left; apply items_err; assumption|]. right.
  destruct (parse_tlv_contained vl ws t r Hok E) as (HL & Hr & Hk & Hv & Hc). cbv zeta in *.
  assert (Hword : word ws 0 = 2 * lenN g). { rewrite Hws, <- Hw0. destruct g; [rewrite lenN_nil in H4; lia|reflexivity]. }
  rewrite Hword in *. replace (N.max 4 (2 * lenN g / 2)) with (lenN g) in * by lia.
  assert (Htake : take (lenN g) ws = g) by (rewrite Hws; apply take_app_exact; reflexivity).
  rewrite Htake in *.
  assert (Hal : align2 (lenN g) = lenN g + lenN g mod 2) by (apply align2_spec; rewrite Hws, !lenN_app in Hlen; unfold W64 in *; lia).
  assert (Hrest : r = rest).
  { rewrite Hr, Hal. destruct Hpad as [->|[-> Hnil]].
    - replace (N.min (lenN g + lenN g mod 2) (lenN ws)) with (lenN (g ++ padw (lenN g)))
        by (rewrite Hws, !lenN_app, lenN_padw; lia).
      rewrite Hws, app_assoc. apply drop_app_exact. reflexivity.
    - rewrite Hnil in *. rewrite Hws, !app_nil_r. apply drop_all. lia. }
  exists t. split.
  - rewrite (items_cons vl ws t r Hne Hok E). f_equal. rewrite Hrest. apply items_enc_seq2; [exact Hall|].
    unfold rest. rewrite Hws, !lenN_app in Hlen. fold rest in Hlen |- *. lia.
  - split; [destruct Hk as (a & b & Hk & _); exists a, b; exact Hk|].
    split; [destruct Hv as (a & b & Hv & _); exists a, b; exact Hv|].
    destruct Hc as (a & Hc & _). exists a. exact Hc.
Qed.

(* ------------------------------------------------------------------ the report of a resource with one replaced string table *)
Definition tlv_table (tight : bool) (t : vtable) : tlv := tlv_of tight (vt_key t) [] (table_children tight t).
Definition tlv_block (tight : bool) (b : vblock) : tlv := tlv_of tight (block_key b) [] (block_children tight b).

Lemma tables_events_spec tight ts : forallb (table_ok tight) ts = true ->
  flat_map ev_table (map (tlv_table tight) ts) = flat_map table_events ts.
Proof.
  induction ts as [|t ts IH]; [reflexivity|]. cbn [flat_map forallb map]. intros H. apply andb_true_iff in H. destruct H as [H1 H2].
  unfold tlv_table at 1. rewrite (table_events_spec tight t H1), (IH H2). reflexivity.
Qed.
Lemma blocks_events_spec tight bs : forallb (block_ok tight) bs = true ->
  flat_map ev_file (map (tlv_block tight) bs) = flat_map block_events bs.
Proof.
  induction bs as [|b bs IH]; [reflexivity|]. cbn [flat_map forallb map]. intros H. apply andb_true_iff in H. destruct H as [H1 H2].
  unfold tlv_block at 1. rewrite (block_events_spec tight b H1), (IH H2). reflexivity.
Qed.
Lemma tables_parse tight ts : forallb (table_ok tight) ts = true ->
  Forall2 (parses VZero) (map (enc_table tight) ts) (map (tlv_table tight) ts).
Proof. intros H. apply Forall2_map2. intros t Hin. apply table_parses. rewrite forallb_forall in H. apply H. exact Hin. Qed.
Lemma blocks_parse tight bs : forallb (block_ok tight) bs = true ->
  Forall2 (parses VZero) (map (enc_block tight) bs) (map (tlv_block tight) bs).
Proof. intros H. apply Forall2_map2. intros b Hin. apply block_parses. rewrite forallb_forall in H. apply H. exact Hin. Qed.

Section Corrupt.
  Variables (tight : bool) (key fixed : list N) (bpre bpost : list vblock) (tpre tpost : list vtable) (x : vtable) (g : list N).
  Let v := {| vi_key := key; vi_fixed := fixed; vi_blocks := bpre ++ BStrings (tpre ++ x :: tpost) :: bpost |}.
  Definition frame (mid : list event) : list event :=
    [EvVersion key (fixed_opt fixed); EvEnter 0] ++ flat_map block_events bpre ++
    ([EvFile StringFileInfo; EvEnter 1] ++ flat_map table_events tpre ++ mid ++ [EvExit 1]) ++
    flat_map block_events bpost ++ [EvExit 0].
  Definition corrupted : list N :=
    encode_blocks tight key fixed
      (map (enc_block tight) bpre ++
       enc_strings_block tight (map (enc_table tight) tpre ++ g :: map (enc_table tight) tpost) ::
       map (enc_block tight) bpost).

  Theorem corrupt_table_contained : vinfo_ok tight v = true -> lenN g = lenN (enc_table tight x) ->
    events_of v = frame (table_events x ++ flat_map table_events tpost) /\
    exists mid, all_events corrupted = frame mid /\
      (word g 0 = word (enc_table tight x) 0 ->
       mid = [] \/
       exists t, mid = ev_table t ++ flat_map table_events tpost /\
         (exists a b, g = a ++ t_key t ++ b) /\ (exists a b, g = a ++ t_value t ++ b) /\ (exists a, g = a ++ t_children t)).
  Proof.
    intros Hok Hg. split.
    { unfold events_of, frame, v. cbn [vi_key vi_fixed vi_blocks]. rewrite (flat_map_app block_events bpre). cbn [flat_map].
      change (block_events (BStrings (tpre ++ x :: tpost)))
        with ([EvFile StringFileInfo; EvEnter 1] ++ flat_map table_events (tpre ++ x :: tpost) ++ [EvExit 1]).
      rewrite (flat_map_app table_events tpre). cbn [flat_map]. rewrite <- !app_assoc. reflexivity. }
    unfold vinfo_ok in Hok. apply andb_true_iff in Hok. destruct Hok as [Hok Hall]. apply andb_true_iff in Hok. destruct Hok as [Hk Hs].
    cbn [v vi_key vi_fixed vi_blocks] in Hk, Hs, Hall.
    rewrite forallb_app in Hall. apply andb_true_iff in Hall. destruct Hall as [Hbpre Hall]. cbn [forallb] in Hall.
    apply andb_true_iff in Hall. destruct Hall as [Hsfi Hbpost].
    unfold block_ok in Hsfi. apply andb_true_iff in Hsfi. destruct Hsfi as [Hsfis Htabs].
    rewrite forallb_app in Htabs. apply andb_true_iff in Htabs. destruct Htabs as [Htpre Htabs]. cbn [forallb] in Htabs.
    apply andb_true_iff in Htabs. destruct Htabs as [Hx Htpost].
    (* lengths are those of the uncorrupted encoding *)
    set (tabs' := map (enc_table tight) tpre ++ g :: map (enc_table tight) tpost).
    set (sfi' := enc_strings_block tight tabs').
    set (blks' := map (enc_block tight) bpre ++ sfi' :: map (enc_block tight) bpost).
    assert (Ltabs : lenN (enc_seq tight tabs') = lenN (enc_seq tight (map (enc_table tight) (tpre ++ x :: tpost)))).
    { rewrite map_app. cbn [map]. apply enc_seq_len. apply same_len_hole. exact Hg. }
    assert (Lsfi : lenN sfi' = lenN (enc_block tight (BStrings (tpre ++ x :: tpost)))).
    { unfold sfi', enc_strings_block. cbn [enc_block]. apply enc_tlv_len. exact Ltabs. }
    assert (Lblks : lenN (enc_seq tight blks') = lenN (enc_seq tight (map (enc_block tight) (bpre ++ BStrings (tpre ++ x :: tpost) :: bpost)))).
    { rewrite map_app. cbn [map]. apply enc_seq_len. apply same_len_hole. exact Lsfi. }
    assert (Lall : lenN corrupted = lenN (encode tight v)).
    { unfold corrupted, encode_blocks, encode. apply enc_tlv_len. exact Lblks. }
    assert (Hs' : small corrupted = true) by (unfold small in *; rewrite Lall; exact Hs).
    assert (Hsfis' : small sfi' = true) by (unfold small in *; rewrite Lsfi; exact Hsfis).
    (* the root block *)
    assert (Hp : parses VBytes corrupted (tlv_of tight key fixed (enc_seq tight blks'))).
    { apply parses_enc; [exact Hk| |exact Hs']. cbn [vl_field_ok]. lia. }
    pose proof (small_children _ _ _ _ _ _ Hs') as Hc. fold blks' in Hc.
    destruct Hp as (Hne & Hsm & Hp). specialize (Hp [] [] ltac:(rewrite lenN_nil; unfold W64; lia) (or_intror (conj eq_refl eq_refl))).
    rewrite !app_nil_r in Hp.
    assert (Hlok : len_ok corrupted) by (unfold len_ok, W64; lia).
    (* its blocks *)
    assert (Hpsfi : parses VZero sfi' (tlv_of tight StringFileInfo [] (enc_seq tight tabs'))).
    { apply parses_enc; [reflexivity|split; reflexivity|exact Hsfis']. }
    pose proof (small_children _ _ _ _ _ _ Hsfis') as Hct.
    assert (Hblocks : items VZero (enc_seq tight blks') =
              map (tlv_block tight) bpre ++ tlv_of tight StringFileInfo [] (enc_seq tight tabs') :: map (tlv_block tight) bpost).
    { apply items_enc_seq2; [|exact Hc]. apply Forall2_app; [apply blocks_parse; exact Hbpre|].
      constructor; [exact Hpsfi|apply blocks_parse; exact Hbpost]. }
    (* the tables before the replaced one *)
    set (R := items VZero (enc_seq tight (g :: map (enc_table tight) tpost))).
    assert (Htables : items VZero (enc_seq tight tabs') = map (tlv_table tight) tpre ++ R).
    { apply items_enc_seq_prefix; [apply tables_parse; exact Htpre|discriminate|exact Hct]. }
    exists (flat_map ev_table R). split.
    - unfold all_events. rewrite (items_cons _ _ _ _ Hne Hlok Hp).
      assert (Hfx : forall c, fixed_of_tlv (tlv_of tight key fixed c) = fixed_opt fixed).
      { intros c. unfold fixed_of_tlv, fixed_opt, tlv_of. cbn [t_value].
        destruct (N.eqb_spec (2 * lenN fixed) 52), (N.eqb_spec (lenN fixed) 26); try reflexivity; lia. }
      unfold ev_version. rewrite Hfx. unfold frame. cbn [tlv_of t_key t_children].
      rewrite Hblocks, (flat_map_app ev_file (map (tlv_block tight) bpre)). cbn [flat_map].
      rewrite (blocks_events_spec tight bpre Hbpre), (blocks_events_spec tight bpost Hbpost).
      unfold ev_file. cbn [tlv_of t_key t_children].
      replace (list_eqb StringFileInfo StringFileInfo) with true by reflexivity.
      rewrite Htables, (flat_map_app ev_table (map (tlv_table tight) tpre)), (tables_events_spec tight tpre Htpre).
      rewrite <- !app_assoc. reflexivity.
    - intros Hw. destruct (enc_tlv_word0 tight 1 0 (vt_key x) [] (table_children tight x)) as [W0 W4].
      change (enc_tlv tight 1 0 (vt_key x) [] (table_children tight x)) with (enc_table tight x) in W0, W4.
      assert (HlenR : lenN (enc_seq tight (g :: map (enc_table tight) tpost)) + 65536 < W64).
      { assert (X : lenN (enc_seq tight (g :: map (enc_table tight) tpost)) <= lenN (enc_seq tight tabs')).
        { unfold tabs'. clear. induction tpre as [|t l IH]; [cbn [map app]; lia|].
          cbn [map app]. destruct (map (enc_table tight) l ++ g :: map (enc_table tight) tpost) eqn:E.
          - apply app_eq_nil in E. destruct E as [_ E]. discriminate.
          - rewrite enc_seq_cons2, !lenN_app. lia. }
        lia. }
      destruct (items_garbage tight VZero g _ _ (tables_parse tight tpost Htpost) ltac:(lia) ltac:(lia) HlenR) as [E|(t & E & Hin)].
      + left. unfold R. rewrite E. reflexivity.
      + right. exists t. split; [|exact Hin]. unfold R. rewrite E. cbn [flat_map].
        rewrite (tables_events_spec tight tpost Htpost). reflexivity.
  Qed.
End Corrupt.

(* both outcomes occur: in the resource of F32 (two tables of one language) the first table gets a non-zero
   wValueLength (the enumeration of the tables ends), or another first key character (it is reported under that
   key with its own strings, the second table unchanged) *)
Definition demo_t1 : vtable := {| vt_key := f32_lang; vt_strings := [ {| vs_key := [65]; vs_value := [49; 0] |} ] |}.
Definition demo_t2 : vtable := {| vt_key := f32_lang; vt_strings := [ {| vs_key := [66]; vs_value := [50; 0] |} ] |}.
Definition demo_g1 : list N := match enc_table false demo_t1 with a :: _ :: r => a :: 5 :: r | l => l end.
Definition demo_g2 : list N := match enc_table false demo_t1 with a :: b :: c :: _ :: r => a :: b :: c :: 90 :: r | l => l end.
Lemma corrupt_demo :
  vinfo_ok false f32_vi = true /\ f32_vi = {| vi_key := [86; 83]; vi_fixed := []; vi_blocks := [] ++ BStrings ([] ++ demo_t1 :: [demo_t2]) :: [] |} /\
  lenN demo_g1 = lenN (enc_table false demo_t1) /\ word demo_g1 0 = word (enc_table false demo_t1) 0 /\
  lenN demo_g2 = lenN (enc_table false demo_t1) /\ word demo_g2 0 = word (enc_table false demo_t1) 0 /\
  all_events (corrupted false [86; 83] [] [] [] [] [demo_t2] demo_g1) = frame [86; 83] [] [] [] [] [] /\
  all_events (corrupted false [86; 83] [] [] [] [] [demo_t2] demo_g2) =
    frame [86; 83] [] [] [] [] (table_events {| vt_key := 90 :: tl f32_lang; vt_strings := vt_strings demo_t1 |} ++ table_events demo_t2).
Proof. vm_compute. repeat split; reflexivity. Qed.

(* ------------------------------------------------------------------ the same one level down: one replaced String *)
Definition tlv_string (tight : bool) (s : vstring) : tlv := tlv_of tight (vs_key s) (vs_value s) [].
Lemma strings_parse tight ss : forallb (string_ok tight) ss = true ->
  Forall2 (parses VWords) (map (enc_string tight) ss) (map (tlv_string tight) ss).
Proof. intros H. apply Forall2_map2. intros s Hin. apply string_parses. rewrite forallb_forall in H. apply H. exact Hin. Qed.
Lemma strings_events_spec tight ss : map ev_string (map (tlv_string tight) ss) = map string_event ss.
Proof. rewrite map_map. apply map_ext. intros s. apply string_event_spec. Qed.

(* the report of a resource whose StringFileInfo block is any block [sfi] that parses as [tsfi] *)
Lemma all_events_with_block tight key fixed bpre bpost sfi tsfi :
  key_ok key = true -> forallb (block_ok tight) bpre = true -> forallb (block_ok tight) bpost = true ->
  parses VZero sfi tsfi ->
  small (encode_blocks tight key fixed (map (enc_block tight) bpre ++ sfi :: map (enc_block tight) bpost)) = true ->
  all_events (encode_blocks tight key fixed (map (enc_block tight) bpre ++ sfi :: map (enc_block tight) bpost)) =
  [EvVersion key (fixed_opt fixed); EvEnter 0] ++ flat_map block_events bpre ++ ev_file tsfi ++ flat_map block_events bpost ++ [EvExit 0].
Proof.
  intros Hk Hbpre Hbpost Hpsfi Hs'. set (blks' := map (enc_block tight) bpre ++ sfi :: map (enc_block tight) bpost) in *.
  assert (Hp : parses VBytes (encode_blocks tight key fixed blks') (tlv_of tight key fixed (enc_seq tight blks'))).
  { apply parses_enc; [exact Hk| |exact Hs']. cbn [vl_field_ok]. lia. }
  pose proof (small_children _ _ _ _ _ _ Hs') as Hc.
  destruct Hp as (Hne & Hsm & Hp). specialize (Hp [] [] ltac:(rewrite lenN_nil; unfold W64; lia) (or_intror (conj eq_refl eq_refl))).
  rewrite !app_nil_r in Hp.
  assert (Hlok : len_ok (encode_blocks tight key fixed blks')) by (unfold len_ok, W64; lia).
  assert (Hblocks : items VZero (enc_seq tight blks') = map (tlv_block tight) bpre ++ tsfi :: map (tlv_block tight) bpost).
  { apply items_enc_seq2; [|exact Hc]. apply Forall2_app; [apply blocks_parse; exact Hbpre|].
    constructor; [exact Hpsfi|apply blocks_parse; exact Hbpost]. }
  unfold all_events. rewrite (items_cons _ _ _ _ Hne Hlok Hp).
  assert (Hfx : forall c, fixed_of_tlv (tlv_of tight key fixed c) = fixed_opt fixed).
  { intros c. unfold fixed_of_tlv, fixed_opt, tlv_of. cbn [t_value].
    destruct (N.eqb_spec (2 * lenN fixed) 52), (N.eqb_spec (lenN fixed) 26); try reflexivity; lia. }
  unfold ev_version. rewrite Hfx. cbn [tlv_of t_key t_children].
  rewrite Hblocks, (flat_map_app ev_file (map (tlv_block tight) bpre)). cbn [flat_map].
  rewrite (blocks_events_spec tight bpre Hbpre), (blocks_events_spec tight bpost Hbpost).
  rewrite <- !app_assoc. reflexivity.
Qed.

Section CorruptString.
  Variables (tight : bool) (key fixed : list N) (bpre bpost : list vblock) (tpre tpost : list vtable)
            (xk : list N) (spre spost : list vstring) (s : vstring) (g : list N).
  Let x := {| vt_key := xk; vt_strings := spre ++ s :: spost |}.
  Let v := {| vi_key := key; vi_fixed := fixed; vi_blocks := bpre ++ BStrings (tpre ++ x :: tpost) :: bpost |}.
  Definition frame_s (mid : list event) : list event :=
    [EvVersion key (fixed_opt fixed); EvEnter 0] ++ flat_map block_events bpre ++
    ([EvFile StringFileInfo; EvEnter 1] ++ flat_map table_events tpre ++
     ([EvTable xk; EvEnter 2] ++ map string_event spre ++ mid ++ [EvExit 2]) ++
     flat_map table_events tpost ++ [EvExit 1]) ++
    flat_map block_events bpost ++ [EvExit 0].
  Definition corrupted_s : list N :=
    encode_blocks tight key fixed
      (map (enc_block tight) bpre ++
       enc_strings_block tight
         (map (enc_table tight) tpre ++
          enc_table_strings tight xk (map (enc_string tight) spre ++ g :: map (enc_string tight) spost) ::
          map (enc_table tight) tpost) ::
       map (enc_block tight) bpost).

  Theorem corrupt_string_contained : vinfo_ok tight v = true -> lenN g = lenN (enc_string tight s) ->
    events_of v = frame_s (string_event s :: map string_event spost) /\
    exists mid, all_events corrupted_s = frame_s mid /\
      (word g 0 = word (enc_string tight s) 0 ->
       mid = [] \/
       exists t, mid = ev_string t :: map string_event spost /\
         (exists a b, g = a ++ t_key t ++ b) /\ (exists a b, g = a ++ t_value t ++ b)).
  Proof.
    intros Hok Hg. split.
    { unfold events_of, frame_s, v. cbn [vi_key vi_fixed vi_blocks]. rewrite (flat_map_app block_events bpre). cbn [flat_map].
      change (block_events (BStrings (tpre ++ x :: tpost)))
        with ([EvFile StringFileInfo; EvEnter 1] ++ flat_map table_events (tpre ++ x :: tpost) ++ [EvExit 1]).
      rewrite (flat_map_app table_events tpre). cbn [flat_map]. unfold table_events at 2, x. cbn [vt_key vt_strings].
      rewrite map_app. cbn [map]. rewrite <- !app_assoc. reflexivity. }
    unfold vinfo_ok in Hok. apply andb_true_iff in Hok. destruct Hok as [Hok Hall]. apply andb_true_iff in Hok. destruct Hok as [Hk Hs].
    cbn [v vi_key vi_fixed vi_blocks] in Hk, Hs, Hall.
    rewrite forallb_app in Hall. apply andb_true_iff in Hall. destruct Hall as [Hbpre Hall]. cbn [forallb] in Hall.
    apply andb_true_iff in Hall. destruct Hall as [Hsfi Hbpost].
    unfold block_ok in Hsfi. apply andb_true_iff in Hsfi. destruct Hsfi as [Hsfis Htabs].
    rewrite forallb_app in Htabs. apply andb_true_iff in Htabs. destruct Htabs as [Htpre Htabs]. cbn [forallb] in Htabs.
    apply andb_true_iff in Htabs. destruct Htabs as [Hx Htpost].
    unfold table_ok in Hx. apply andb_true_iff in Hx. destruct Hx as [Hx Hstrs]. apply andb_true_iff in Hx. destruct Hx as [Hxk Hxs].
    cbn [x vt_key vt_strings] in Hxk, Hstrs.
    rewrite forallb_app in Hstrs. apply andb_true_iff in Hstrs. destruct Hstrs as [Hspre Hstrs]. cbn [forallb] in Hstrs.
    apply andb_true_iff in Hstrs. destruct Hstrs as [Hsok Hspost].
    (* lengths are those of the uncorrupted encoding *)
    set (strs' := map (enc_string tight) spre ++ g :: map (enc_string tight) spost).
    set (xt' := enc_table_strings tight xk strs').
    set (tabs' := map (enc_table tight) tpre ++ xt' :: map (enc_table tight) tpost).
    set (sfi' := enc_strings_block tight tabs').
    set (blks' := map (enc_block tight) bpre ++ sfi' :: map (enc_block tight) bpost).
    assert (Lstrs : lenN (enc_seq tight strs') = lenN (enc_seq tight (map (enc_string tight) (spre ++ s :: spost)))).
    { rewrite map_app. cbn [map]. apply enc_seq_len. apply same_len_hole. exact Hg. }
    assert (Lxt : lenN xt' = lenN (enc_table tight x)).
    { unfold xt', enc_table_strings, enc_table, x. cbn [vt_key vt_strings]. apply enc_tlv_len. exact Lstrs. }
    assert (Ltabs : lenN (enc_seq tight tabs') = lenN (enc_seq tight (map (enc_table tight) (tpre ++ x :: tpost)))).
    { rewrite map_app. cbn [map]. apply enc_seq_len. apply same_len_hole. exact Lxt. }
    assert (Lsfi : lenN sfi' = lenN (enc_block tight (BStrings (tpre ++ x :: tpost)))).
    { unfold sfi', enc_strings_block. cbn [enc_block]. apply enc_tlv_len. exact Ltabs. }
    assert (Lblks : lenN (enc_seq tight blks') = lenN (enc_seq tight (map (enc_block tight) (bpre ++ BStrings (tpre ++ x :: tpost) :: bpost)))).
    { rewrite map_app. cbn [map]. apply enc_seq_len. apply same_len_hole. exact Lsfi. }
    assert (Lall : lenN corrupted_s = lenN (encode tight v)).
    { unfold corrupted_s, encode_blocks, encode. apply enc_tlv_len. exact Lblks. }
    assert (Hs' : small corrupted_s = true) by (unfold small in *; rewrite Lall; exact Hs).
    assert (Hsfis' : small sfi' = true) by (unfold small in *; rewrite Lsfi; exact Hsfis).
    assert (Hxs' : small xt' = true) by (unfold small in *; rewrite Lxt; exact Hxs).
    (* the replaced string's table and its StringFileInfo block are well-formed blocks *)
    assert (Hpx : parses VZero xt' (tlv_of tight xk [] (enc_seq tight strs'))).
    { apply parses_enc; [exact Hxk|split; reflexivity|exact Hxs']. }
    pose proof (small_children _ _ _ _ _ _ Hxs') as Hcs.
    assert (Hpsfi : parses VZero sfi' (tlv_of tight StringFileInfo [] (enc_seq tight tabs'))).
    { apply parses_enc; [reflexivity|split; reflexivity|exact Hsfis']. }
    pose proof (small_children _ _ _ _ _ _ Hsfis') as Hct.
    assert (Htables : items VZero (enc_seq tight tabs') =
              map (tlv_table tight) tpre ++ tlv_of tight xk [] (enc_seq tight strs') :: map (tlv_table tight) tpost).
    { apply items_enc_seq2; [|exact Hct]. apply Forall2_app; [apply tables_parse; exact Htpre|].
      constructor; [exact Hpx|apply tables_parse; exact Htpost]. }
    set (R := items VWords (enc_seq tight (g :: map (enc_string tight) spost))).
    assert (Hstrings : items VWords (enc_seq tight strs') = map (tlv_string tight) spre ++ R).
    { apply items_enc_seq_prefix; [apply strings_parse; exact Hspre|discriminate|exact Hcs]. }
    exists (map ev_string R). split.
    - unfold corrupted_s. fold strs' xt' tabs' sfi'.
      rewrite (all_events_with_block tight key fixed bpre bpost sfi' _ Hk Hbpre Hbpost Hpsfi Hs').
      unfold frame_s, ev_file. cbn [tlv_of t_key t_children].
      replace (list_eqb StringFileInfo StringFileInfo) with true by reflexivity.
      rewrite Htables, (flat_map_app ev_table (map (tlv_table tight) tpre)). cbn [flat_map].
      rewrite (tables_events_spec tight tpre Htpre), (tables_events_spec tight tpost Htpost).
      unfold ev_table at 1. cbn [tlv_of t_key t_children]. rewrite Hstrings, map_app, strings_events_spec.
      rewrite <- !app_assoc. reflexivity.
    - intros Hw. destruct (enc_tlv_word0 tight 1 (lenN (vs_value s)) (vs_key s) (vs_value s) []) as [W0 W4].
      change (enc_tlv tight 1 (lenN (vs_value s)) (vs_key s) (vs_value s) []) with (enc_string tight s) in W0, W4.
      assert (HlenR : lenN (enc_seq tight (g :: map (enc_string tight) spost)) + 65536 < W64).
      { assert (X : lenN (enc_seq tight (g :: map (enc_string tight) spost)) <= lenN (enc_seq tight strs')).
        { unfold strs'. clear. induction spre as [|t l IH]; [cbn [map app]; lia|].
          cbn [map app]. destruct (map (enc_string tight) l ++ g :: map (enc_string tight) spost) eqn:E.
          - apply app_eq_nil in E. destruct E as [_ E]. discriminate.
          - rewrite enc_seq_cons2, !lenN_app. lia. }
        lia. }
      destruct (items_garbage tight VWords g _ _ (strings_parse tight spost Hspost) ltac:(lia) ltac:(lia) HlenR) as [E|(t & E & Hkin & Hvin & _)].
      + left. unfold R. rewrite E. reflexivity.
      + right. exists t. split; [|split; assumption]. unfold R. rewrite E. cbn [map]. rewrite strings_events_spec. reflexivity.
  Qed.
End CorruptString.
