(* Proofs for C16. *)
From PV.Model Require Import Machine Rich.
From PV.Spec Require Import RichSpec.
From PV.Proofs Require Import BaseProofs.
Ltac Zify.zify_post_hook ::= Z.div_mod_to_equations.

(* ---- xor / mask algebra ---- *)
Lemma lxor_lt a b n : a < 2 ^ n -> b < 2 ^ n -> N.lxor a b < 2 ^ n.
Proof.
  intros Ha Hb. destruct (N.eq_dec (N.lxor a b) 0) as [->|Hz]; [apply N.neq_0_lt_0; apply N.pow_nonzero; lia|].
  apply N.log2_lt_pow2; [lia|].
  pose proof (N.log2_lxor a b) as H.
  destruct (N.eq_dec a 0) as [->|Ha0]; destruct (N.eq_dec b 0) as [->|Hb0].
  - rewrite N.lxor_0_l in Hz. contradiction.
  - rewrite N.lxor_0_l. apply N.log2_lt_pow2; lia.
  - rewrite N.lxor_0_r. apply N.log2_lt_pow2; lia.
  - apply (N.log2_lt_pow2 a n) in Ha; [|lia]. apply (N.log2_lt_pow2 b n) in Hb; [|lia]. lia.
Qed.
Lemma lxor_lt32 a b : a < W32 -> b < W32 -> N.lxor a b < W32.
Proof. change W32 with (2 ^ 32). apply lxor_lt. Qed.
Lemma lxor_cancel a k : N.lxor (N.lxor a k) k = a.
Proof. rewrite N.lxor_assoc, N.lxor_nilpotent, N.lxor_0_r. reflexivity. Qed.
Lemma land_ffff x : N.land x 65535 = x mod 65536.
Proof. change 65535 with (N.ones 16). rewrite N.land_ones. reflexivity. Qed.
Lemma rvalue_arith r : r_build r < 65536 -> rvalue r = r_product r * 65536 + r_build r.
Proof.
  intros H. unfold rvalue. rewrite N.lor_comm, N.shiftl_mul_pow2. change (2 ^ 16) with 65536.
  change 65536 with (2 ^ 16). rewrite lor_disjoint_add by (change (2 ^ 16) with 65536; exact H). lia.
Qed.

(* encoding and decoding a single record are inverse for every key *)
Theorem decode_encode r k : rec_ok r -> k < W32 ->
  rdecode k (fst (rencode r k)) (snd (rencode r k)) = r.
Proof.
  intros [Hb [Hp Hc]] Hk. unfold rdecode, rencode. cbn [fst snd]. rewrite !lxor_cancel.
  rewrite !land_ffff, N.shiftr_div_pow2, rvalue_arith by exact Hb. change (2 ^ 16) with 65536.
  destruct r as [b p c]. cbn [r_build r_product r_count] in *. f_equal; lia.
Qed.
Theorem encode_decode k v0 v1 : k < W32 -> v0 < W32 -> v1 < W32 ->
  rencode (rdecode k v0 v1) k = (v0, v1).
Proof.
  intros Hk H0 H1. unfold rencode, rdecode. cbn [r_build r_product r_count].
  pose proof (lxor_lt32 v0 k H0 Hk) as Hf. set (f := N.lxor v0 k) in *.
  rewrite lxor_cancel. f_equal.
  assert (Hv : rvalue {| r_build := N.land f 65535; r_product := N.land (N.shiftr f 16) 65535; r_count := N.lxor v1 k |} = f).
  { rewrite rvalue_arith; cbn [r_build r_product]; rewrite !land_ffff, ?N.shiftr_div_pow2; change (2 ^ 16) with 65536; unfold W32 in *; lia. }
  rewrite Hv. unfold f. apply lxor_cancel.
Qed.
Lemma rdecode_ok k v0 v1 : k < W32 -> v1 < W32 -> rec_ok (rdecode k v0 v1).
Proof.
  intros Hk H1. unfold rec_ok, rdecode. cbn [r_build r_product r_count]. rewrite !land_ffff.
  repeat split; try lia. apply lxor_lt32; assumption.
Qed.

(* ---- the checksum fold is the closed formula ---- *)
Lemma wadd32_mod a b : wadd32 (a mod W32) b = (a + b) mod W32.
Proof. unfold wadd32. rewrite N.add_mod_idemp_l by (unfold W32; lia). reflexivity. Qed.

Lemma stub_fold stub : forall j c,
  fold_left stub_step stub (c mod W32, 4 * N.of_nat j)
  = ((c + sumN (stub_terms j stub)) mod W32, 4 * N.of_nat (j + length stub)).
Proof.
  induction stub as [|d t IH]; intros j c; cbn [fold_left stub_terms sumN fold_right length].
  - rewrite N.add_0_r, Nat.add_0_r. reflexivity.
  - unfold stub_step at 2. cbv zeta. rewrite !wadd32_mod.
    replace (4 * N.of_nat j + 4) with (4 * N.of_nat (S j)) by lia.
    rewrite IH.
    replace (S j + length t)%nat with (j + S (length t))%nat by lia.
    apply (f_equal (fun v => (v mod W32, 4 * N.of_nat (j + S (length t))))).
    unfold stub_term, sumN. cbv zeta. rewrite ?N.add_0_r. lia.
Qed.
Lemma rec_fold recs : Forall rec_ok recs -> forall c,
  fold_left rec_step recs (c mod W32) = (c + sumN (map rec_term recs)) mod W32.
Proof.
  induction 1 as [|r t [Hb _] _ IH]; intros c; cbn [fold_left map sumN fold_right]; [rewrite N.add_0_r; reflexivity|].
  unfold rec_step at 2. rewrite wadd32_mod, IH. f_equal. unfold rec_term. rewrite rvalue_arith by exact Hb. unfold sumN. lia.
Qed.
Theorem checksum_formula stub recs : Forall rec_ok recs -> checksum_of stub recs = rich_checksum stub recs.
Proof.
  intros H. unfold checksum_of, rich_checksum.
  change 0 with (4 * N.of_nat 0) at 1. rewrite stub_fold. cbn [fst]. rewrite rec_fold by exact H. try reflexivity; f_equal; lia.
Qed.

(* ---- the two backward scans ---- *)
Lemma skip_zeros_spec img : forall n e, skip_zeros img n = Ok e ->
  (16 <= e <= n)%nat /\ dw img (e - 1) <> 0 /\ forall j, (e <= j < n)%nat -> dw img j = 0.
Proof.
  induction n as [|n IH]; intros e H; cbn [skip_zeros] in H.
  - destruct (Nat.ltb 0 16); discriminate.
  - destruct (Nat.ltb (S n) 16) eqn:E; [discriminate|]. apply Nat.ltb_ge in E.
    destruct (dw img n =? 0) eqn:Ez.
    + apply IH in H. destruct H as [H1 [H2 H3]]. split; [lia|]. split; [exact H2|].
      intros j Hj. destruct (Nat.eq_dec j n) as [->|Hne]; [lia|]. apply H3. lia.
    + injection H as <-. split; [lia|]. split; [replace (S n - 1)%nat with n by lia; lia|]. intros j Hj. lia.
Qed.
Lemma skip_zeros_no_fault img : forall n f, skip_zeros img n <> Fault f.
Proof.
  induction n as [|n IH]; intros f; cbn [skip_zeros].
  - destruct (Nat.ltb 0 16); discriminate.
  - destruct (Nat.ltb (S n) 16); [discriminate|]. destruct (dw img n =? 0); [apply IH|discriminate].
Qed.

Lemma find_start_spec img x : forall fuel s s', find_start fuel img x s = Ok s' ->
  (16 <= s' <= s)%nat /\ header_at img x s' = true /\ Nat.even (s - s') = true /\
  forall j, (s' < j <= s)%nat -> Nat.even (s - j) = true -> header_at img x j = false.
Proof.
  induction fuel as [|fuel IH]; intros s s' H; cbn [find_start] in H; [discriminate|].
  destruct (Nat.ltb s 16) eqn:E; [discriminate|]. apply Nat.ltb_ge in E.
  destruct (header_at img x s) eqn:Eh.
  - injection H as <-. split; [lia|]. split; [exact Eh|]. split; [rewrite Nat.sub_diag; reflexivity|]. intros j Hj. lia.
  - apply IH in H. destruct H as [H1 [H2 [H3 H4]]]. split; [lia|]. split; [exact H2|]. split.
    + replace (s - s')%nat with (S (S (s - 2 - s'))) by lia. exact H3.
    + intros j Hj Hev. destruct (Nat.eq_dec j s) as [->|Hne]; [exact Eh|].
      assert (j <> s - 1)%nat.
      { intros ->. replace (s - (s - 1))%nat with 1%nat in Hev by lia. discriminate. }
      apply H4; [lia|]. replace (s - j)%nat with (S (S (s - 2 - j))) in Hev by lia. exact Hev.
Qed.
Lemma find_start_no_fault img x : forall fuel s f, (1 <= fuel)%nat -> (s < 2 * fuel + 14)%nat -> find_start fuel img x s <> Fault f.
Proof.
  induction fuel as [|fuel IH]; intros s f H1 Hs; [lia|]. cbn [find_start].
  destruct (Nat.ltb s 16) eqn:E; [discriminate|]. apply Nat.ltb_ge in E.
  destruct (header_at img x s); [discriminate|]. apply IH; lia.
Qed.

(* try_from never faults, and whatever it accepts has the well-formed trailer structure *)
Theorem try_from_no_fault image f : try_from image <> Fault f.
Proof.
  unfold try_from. destruct (nth_error image 15) as [e_lfanew|]; [|discriminate].
  set (n := N.to_nat (e_lfanew / 4)). destruct (Nat.ltb (length image) n); [discriminate|].
  destruct (skip_zeros (firstn n image) n) as [e| |f0] eqn:Es; cbn [bind]; try discriminate.
  - destruct (negb (dw (firstn n image) (e - 2) =? RICH)); [discriminate|].
    apply skip_zeros_spec in Es. destruct Es as [He _].
    destruct (find_start e (firstn n image) (dw (firstn n image) (e - 1)) (e - 6)) as [s| |f1] eqn:Ef; cbn [bind]; try discriminate.
    exfalso. apply (find_start_no_fault _ _ e (e - 6)%nat f1) in Ef; [exact Ef|lia|lia].
  - exfalso. apply (skip_zeros_no_fault _ _ _ Es).
Qed.

Theorem try_from_well_formed image s e : try_from image = Ok (s, e) ->
  exists e_lfanew, nth_error image 15 = Some e_lfanew /\ (N.to_nat (e_lfanew / 4) <= length image)%nat /\
    well_formed (firstn (N.to_nat (e_lfanew / 4)) image) s e.
Proof.
  unfold try_from. destruct (nth_error image 15) as [e_lfanew|]; [|discriminate].
  set (n := N.to_nat (e_lfanew / 4)). destruct (Nat.ltb (length image) n) eqn:El; [discriminate|]. apply Nat.ltb_ge in El.
  destruct (skip_zeros (firstn n image) n) as [e0| |f0] eqn:Es; cbn [bind]; try discriminate.
  destruct (negb (dw (firstn n image) (e0 - 2) =? RICH)) eqn:Er; [discriminate|].
  destruct (find_start e0 (firstn n image) (dw (firstn n image) (e0 - 1)) (e0 - 6)) as [s0| |f1] eqn:Ef; cbn [bind]; try discriminate.
  intros H. injection H as <- <-. exists e_lfanew. split; [reflexivity|]. split; [exact El|].
  apply skip_zeros_spec in Es. destruct Es as [He [Hnz Hz]].
  apply find_start_spec in Ef. destruct Ef as [Hs [Hh [Hev _]]].
  assert (Hlen : length (firstn n image) = n) by (rewrite firstn_length; lia).
  change (N.to_nat (e_lfanew / 4)) with n. unfold well_formed. rewrite Hlen.
  split; [lia|]. split; [lia|]. split; [lia|]. split.
  { replace (e0 - s0)%nat with (S (S (S (S (S (S (e0 - 6 - s0))))))) by lia. exact Hev. }
  split; [exact Hh|]. split.
  { apply N.eqb_eq. destruct (dw (firstn n image) (e0 - 2) =? RICH); [reflexivity|discriminate]. }
  split; [exact Hnz|]. intros j H1 H2. apply Hz. lia.
Qed.

(* ---- round trip ---- *)
Lemma dw_app_r (a b : list N) i : dw (a ++ b) (length a + i) = dw b i.
Proof. unfold dw. rewrite app_nth2 by lia. f_equal. lia. Qed.
Lemma dw_app_l (a b : list N) i : (i < length a)%nat -> dw (a ++ b) i = dw a i.
Proof. unfold dw. intros H. apply app_nth1. exact H. Qed.
Lemma dw_skipn (l : list N) i k : dw (skipn i l) k = dw l (i + k).
Proof. unfold dw. apply nth_skipn. Qed.

Lemma hdr4_dw x l : (4 <= length l)%nat ->
  hdr4 x l = (dw l 0 =? N.lxor DANS x) && (dw l 1 =? x) && (dw l 2 =? x) && (dw l 3 =? x).
Proof. destruct l as [|a [|b [|c [|d t]]]]; cbn [length]; intros H; try lia. reflexivity. Qed.

Lemma header_at_mid stub W pad x i : (i + 4 <= length W)%nat ->
  header_at (stub ++ W ++ pad) x (length stub + i) = hdr4 x (skipn i W).
Proof.
  intros H. unfold header_at. rewrite hdr4_dw by (rewrite skipn_length; lia). rewrite !dw_skipn.
  rewrite <- !Nat.add_assoc, !dw_app_r. rewrite !dw_app_l by lia. rewrite Nat.add_0_r. reflexivity.
Qed.

Lemma hdr_within_false n x : forall l, hdr_within n x l = false -> forall j, (j < n)%nat -> hdr4 x (skipn (2 * j) l) = false.
Proof.
  induction n as [|n IH]; intros l H j Hj; [lia|]. cbn [hdr_within] in H. apply orb_false_iff in H as [H1 H2].
  destruct j as [|j]; [exact H1|]. replace (2 * S j)%nat with (2 + 2 * j)%nat by lia.
  rewrite <- skipn_skipn_nat. apply IH; [exact H2|lia].
Qed.

Lemma find_start_roundtrip stub W pad x : (16 <= length stub)%nat -> hdr4 x W = true ->
  forall j fuel, (2 * j + 4 <= length W)%nat -> (j < fuel)%nat ->
  (forall j', (1 <= j' <= j)%nat -> hdr4 x (skipn (2 * j') W) = false) ->
  find_start fuel (stub ++ W ++ pad) x (length stub + 2 * j) = Ok (length stub).
Proof.
  intros Hs Hh. induction j as [|j IH]; intros fuel Hl Hf Hno.
  - destruct fuel as [|fuel]; [lia|]. cbn [find_start]. rewrite Nat.mul_0_r, Nat.add_0_r.
    destruct (Nat.ltb (length stub) 16) eqn:E; [apply Nat.ltb_lt in E; lia|].
    replace (length stub) with (length stub + 0)%nat at 1 by lia. rewrite header_at_mid by lia. cbn [skipn]. rewrite Hh. reflexivity.
  - destruct fuel as [|fuel]; [lia|]. cbn [find_start].
    destruct (Nat.ltb (length stub + 2 * S j) 16) eqn:E; [apply Nat.ltb_lt in E; lia|].
    rewrite header_at_mid by lia. rewrite (Hno (S j)) by lia.
    replace (length stub + 2 * S j - 2)%nat with (length stub + 2 * j)%nat by lia.
    apply IH; [lia|lia|]. intros j' Hj'. apply Hno. lia.
Qed.

Lemma skip_zeros_pad l pad : Forall (fun z => z = 0) pad -> (16 <= length l)%nat ->
  forall k, (k <= length pad)%nat -> skip_zeros (l ++ pad) (length l + k) = skip_zeros (l ++ pad) (length l).
Proof.
  intros Hp Hl. induction k as [|k IH]; intros Hk; [rewrite Nat.add_0_r; reflexivity|].
  replace (length l + S k)%nat with (S (length l + k)) by lia. cbn [skip_zeros].
  destruct (Nat.ltb (S (length l + k)) 16) eqn:E; [apply Nat.ltb_lt in E; lia|].
  rewrite dw_app_r. assert (Hz : dw pad k = 0).
  { unfold dw. rewrite Forall_forall in Hp. apply Hp. apply nth_In. lia. }
  rewrite Hz. change (0 =? 0) with true. cbv iota. apply IH. lia.
Qed.

Lemma pairs_flat key recs :
  pairs (flat_map (fun r => [fst (rencode r key); snd (rencode r key)]) recs) = map (fun r => rencode r key) recs.
Proof. induction recs as [|r t IH]; cbn [flat_map map app pairs]; [reflexivity|]. rewrite IH. destruct (rencode r key); reflexivity. Qed.

Lemma length_recwords key recs :
  length (flat_map (fun r => [fst (rencode r key); snd (rencode r key)]) recs) = (2 * length recs)%nat.
Proof. induction recs as [|r t IH]; cbn [flat_map app length]; [reflexivity|]. rewrite IH. lia. Qed.
Lemma length_write_words key recs : length (write_words key recs) = (2 * length recs + 6)%nat.
Proof. unfold write_words. rewrite !app_length, length_recwords. cbn [length]. lia. Qed.

Theorem roundtrip stub recs key pad rest e_lfanew :
  (16 <= length stub)%nat -> Forall rec_ok recs -> key < W32 -> known_class key recs = false ->
  Forall (fun z => z = 0) pad -> nth_error stub 15 = Some e_lfanew ->
  N.to_nat (e_lfanew / 4) = (length stub + (2 * length recs + 6) + length pad)%nat ->
  let image := stub ++ write_words key recs ++ pad ++ rest in
  let se := (length stub, (length stub + (2 * length recs + 6))%nat) in
  try_from image = Ok se /\ records image se = recs /\ xor_key image se = key /\
  (key = rich_checksum stub recs -> checksum image se = key).
Proof.
  intros Hs Hr Hk Hkc Hp He Hn image se.
  apply orb_false_iff in Hkc as [Hk0 Hfh]. apply N.eqb_neq in Hk0.
  set (W := write_words key recs). assert (HW : length W = (2 * length recs + 6)%nat) by apply length_write_words.
  assert (Himg : firstn (N.to_nat (e_lfanew / 4)) image = stub ++ W ++ pad).
  { unfold image. fold W. rewrite Hn. rewrite !app_assoc. rewrite <- (app_assoc stub W pad).
    rewrite firstn_app. rewrite firstn_all2 by (rewrite !app_length; lia).
    replace (length stub + (2 * length recs + 6) + length pad - length (stub ++ W ++ pad))%nat with 0%nat by (rewrite !app_length; lia).
    cbn [firstn]. rewrite app_nil_r. reflexivity. }
  assert (Htry : try_from image = Ok se).
  { unfold try_from. assert (H15 : nth_error image 15 = Some e_lfanew).
    { unfold image. rewrite nth_error_app1 by lia. exact He. }
    rewrite H15. destruct (Nat.ltb (length image) (N.to_nat (e_lfanew / 4))) eqn:El.
    { apply Nat.ltb_lt in El. unfold image in El. fold W in El. rewrite !app_length in El. lia. }
    rewrite Himg, Hn.
    replace (length stub + (2 * length recs + 6) + length pad)%nat with (length (stub ++ W) + length pad)%nat by (rewrite app_length; lia).
    rewrite (app_assoc stub W pad). rewrite skip_zeros_pad; [|exact Hp|rewrite app_length; lia|lia].
    (* the last word of W is the key, which is not zero *)
    assert (Hlast : dw ((stub ++ W) ++ pad) (length (stub ++ W) - 1) = key).
    { rewrite dw_app_l by (rewrite app_length; lia). rewrite app_length.
      replace (length stub + length W - 1)%nat with (length stub + (length W - 1))%nat by lia. rewrite dw_app_r.
      unfold W, write_words, dw. rewrite app_assoc, app_nth2 by (rewrite !app_length, length_recwords; cbn [length]; lia).
      rewrite !app_length, length_recwords. cbn [length].
      match goal with |- nth ?k _ _ = _ => replace k with 1%nat by lia end. reflexivity. }
    assert (Hrich : dw ((stub ++ W) ++ pad) (length (stub ++ W) - 2) = RICH).
    { rewrite dw_app_l by (rewrite app_length; lia). rewrite app_length.
      replace (length stub + length W - 2)%nat with (length stub + (length W - 2))%nat by lia. rewrite dw_app_r.
      unfold W, write_words, dw. rewrite app_assoc, app_nth2 by (rewrite !app_length, length_recwords; cbn [length]; lia).
      rewrite !app_length, length_recwords. cbn [length].
      match goal with |- nth ?k _ _ = _ => replace k with 0%nat by lia end. reflexivity. }
    remember (length (stub ++ W)) as e eqn:Ee. assert (He16 : (22 <= e)%nat) by (rewrite Ee, app_length; lia).
    destruct e as [|e']; [lia|]. cbn [skip_zeros]. destruct (Nat.ltb (S e') 16) eqn:E16; [apply Nat.ltb_lt in E16; lia|].
    replace e' with (S e' - 1)%nat at 1 by lia. rewrite Hlast.
    destruct (key =? 0) eqn:Ek0; [apply N.eqb_eq in Ek0; contradiction|]. cbn [bind].
    rewrite Hrich, N.eqb_refl. cbn [negb]. rewrite Hlast.
    rewrite <- (app_assoc stub W pad).
    replace (S e' - 6)%nat with (length stub + 2 * length recs)%nat by (rewrite app_length in Ee; lia).
    rewrite (find_start_roundtrip stub W pad key Hs); cbn [bind].
    - unfold se. f_equal. f_equal. rewrite app_length in Ee. lia.
    - unfold W, write_words. cbn [app hdr4]. rewrite !N.eqb_refl. reflexivity.
    - lia.
    - rewrite app_length in Ee. lia.
    - intros j' Hj'. unfold false_header in Hfh. fold W in Hfh.
      pose proof (hdr_within_false _ _ _ Hfh (j' - 1)%nat ltac:(lia)) as H. rewrite skipn_skipn_nat in H.
      replace (2 + 2 * (j' - 1))%nat with (2 * j')%nat in H by lia. exact H. }
  split; [exact Htry|].
  assert (Hxk : xor_key image se = key).
  { unfold xor_key, se, image. cbn [fst]. rewrite dw_app_r. reflexivity. }
  assert (Hrec : records image se = recs).
  { unfold records. rewrite Hxk. unfold body, se, image. cbn [fst snd].
    replace (length stub + (2 * length recs + 6) - length stub - 6)%nat with (2 * length recs)%nat by lia.
    rewrite <- skipn_skipn_nat. rewrite skipn_app_exact by reflexivity.
    unfold write_words. cbn [app skipn]. rewrite <- !app_assoc.
    rewrite <- (length_recwords key recs). rewrite firstn_app, firstn_all, Nat.sub_diag. cbn [firstn]. rewrite app_nil_r.
    rewrite pairs_flat, map_map.
    clear -Hr Hk. induction Hr as [|r t Hok _ IH]; cbn [map]; [reflexivity|]. rewrite IH. f_equal. apply decode_encode; assumption. }
  split; [exact Hrec|]. split; [exact Hxk|].
  intros Hkey. unfold checksum. rewrite Hrec. unfold se, image. cbn [fst]. rewrite firstn_app, firstn_all, Nat.sub_diag. cbn [firstn].
  rewrite app_nil_r. rewrite checksum_formula by exact Hr. symmetry. exact Hkey.
Qed.

(* re-encoding the decoded records reproduces the original words *)
Theorem reencode stub recs dest_len : (2 * length recs + 6 <= dest_len)%nat ->
  exists total, encode stub recs dest_len
    = inl (Ok (write_words (checksum_of stub recs) recs ++ repeat 0 (dest_len - (2 * length recs + 6)), total)).
Proof.
  intros H. unfold encode. destruct (Nat.ltb dest_len (length recs * 2 + 6)) eqn:E; [apply Nat.ltb_lt in E; lia|].
  eexists. replace (length recs * 2 + 6)%nat with (2 * length recs + 6)%nat by lia. reflexivity.
Qed.

(* F20: the known ambiguity of the format.  Records (1,2,3), (0x6144^k.., ..) chosen so that the
   encoded stream contains DanS^k,k,k,k: the decoder then yields fewer records. *)
Definition f20_recs : list rec :=
  [ {| r_build := 1; r_product := 2; r_count := 3 |}; {| r_build := 24900; r_product := 21358; r_count := 0 |};
    {| r_build := 0; r_product := 0; r_count := 0 |}; {| r_build := 7; r_product := 8; r_count := 9 |} ].
Definition f20_key : N := 305419896.
Definition f20_image : list N := repeat 0 15 ++ [4 * 30] ++ write_words f20_key f20_recs.
Lemma f20_known_class_witness :
  known_class f20_key f20_recs = true /\
  exists se, try_from f20_image = Ok se /\ length (records f20_image se) = 1%nat /\ length f20_recs = 4%nat.
Proof. split; [vm_compute; reflexivity|]. eexists. split; [vm_compute; reflexivity|]. split; vm_compute; reflexivity. Qed.

Lemma well_formedb_sound img s e : well_formedb img s e = true -> well_formed img s e.
Proof.
  unfold well_formedb, well_formed. rewrite !andb_true_iff. intros [[[[[[[H1 H2] H3] H4] H5] H6] H7] H8].
  apply Nat.leb_le in H1, H2, H3. apply N.eqb_eq in H6.
  split; [exact H1|]. split; [exact H2|]. split; [exact H3|]. split; [exact H4|]. split; [exact H5|]. split; [exact H6|]. split.
  - intros Hz. rewrite Hz in H7. discriminate.
  - intros j Hj1 Hj2. rewrite forallb_forall in H8. apply N.eqb_eq. apply H8. apply in_seq. lia.
Qed.
