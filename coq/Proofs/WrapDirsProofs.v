(* Proofs for the directory part of the wrapper layer (Model/WrapDirs.v): every wrapper method
   with code of its own returns what the format-specific method of the held variant returns. *)
From PV.Model Require Import Machine Mapping Views Headers Wrap WrapDirs.
From PV.Model Require Exports Imports Dirs.
From PV.gen Require Import Layout.
From PV.Spec Require Import HeaderSpec WrapSpec ExportSpec.
From PV.Proofs Require Import BaseProofs HeadersProofs WrapProofs.
From PV.Proofs Require ExportsProofs.
Ltac Zify.zify_post_hook ::= Z.div_mod_to_equations.

(* ------------------------------------------------------------------ wrap/mod.rs *)
Lemma winto_tag {A} w (a : A) : winto (tag w a) = a.
Proof. destruct w; reflexivity. Qed.

Lemma wtranspose_tag {A} w (r : res A) : wtranspose (tag w r) = (x <- r ;; Ok (tag w x)).
Proof. destruct w, r; reflexivity. Qed.

Lemma wtranspose_opt_tag {A} w (o : option A) : wtranspose_opt (tag w o) = option_map (tag w) o.
Proof. destruct w, o; reflexivity. Qed.

(* one step of the wrapped iterator is one step of the held iterator, re-tagged *)
Lemma wnext_tag {A} w (l : list A) :
  wnext (tag w l) = match l with [] => (None, tag w []) | a :: t => (Some (tag w a), tag w t) end.
Proof. destruct w, l; reflexivity. Qed.

Lemma wdrain_tag {A} w : forall (l : list A) fuel, (length l < fuel)%nat -> wdrain fuel (tag w l) = map (tag w) l.
Proof.
  induction l as [|a l IH]; intros fuel H; (destruct fuel as [|k]; [cbn [length] in H; lia|]); cbn [wdrain]; rewrite wnext_tag.
  - reflexivity.
  - cbn [map length] in *. rewrite IH by lia. reflexivity.
Qed.

(* draining the wrapped iterator yields the items of the held iterator, each tagged with the variant *)
Theorem wcollect_tag {A} w (l : list A) : wcollect (tag w l) = map (tag w) l.
Proof. unfold wcollect, wlen. rewrite winto_tag. apply wdrain_tag. lia. Qed.

Lemma map_winto_tag {A} w (l : list A) : map winto (map (tag w) l) = l.
Proof. induction l as [|a l IH]; cbn [map]; [reflexivity|]. rewrite winto_tag, IH. reflexivity. Qed.

Theorem wrap_iterator {A} w (l : list A) : wcollect (tag w l) = map (tag w) l /\ map winto (map (tag w) l) = l.
Proof. split; [apply wcollect_tag|apply map_winto_tag]. Qed.

(* ------------------------------------------------------------------ range *)
Lemma range_from_length s n : length (range_from s n) = n.
Proof. revert s; induction n as [|n IH]; intros s; cbn [range_from length]; [reflexivity|]. rewrite IH. reflexivity. Qed.
Lemma range_from_seq : forall n s, range_from (N.of_nat s) n = map N.of_nat (seq s n).
Proof.
  induction n as [|n IH]; intros s; cbn [range_from seq map]; [reflexivity|].
  replace (N.of_nat s + 1) with (N.of_nat (S s)) by lia. rewrite IH. reflexivity.
Qed.
Lemma range_seq n : range n = map N.of_nat (seq 0 (N.to_nat n)).
Proof. unfold range. exact (range_from_seq (N.to_nat n) 0). Qed.
Lemma range_length n : length (range n) = N.to_nat n.
Proof. unfold range. apply range_from_length. Qed.
Lemma range_lenN {A} (l : list A) : range (lenN l) = range_from 0 (length l).
Proof. unfold range, lenN. rewrite Nat2N.id. reflexivity. Qed.
Lemma in_range_from x : forall n s, In x (range_from s n) <-> s <= x < s + N.of_nat n.
Proof.
  induction n as [|n IH]; intros s; cbn [range_from In]; [lia|]. rewrite IH. lia.
Qed.

(* ------------------------------------------------------------------ exports: the three iterators of Wrap<By> *)
Section By.
  Variable w : wrapped.
  Variable cstr : fmt -> N -> res (list N).
  Variable t : Exports.tables.
  Let c := cstr (fmt_of w).

  (* the delegating helpers *)
  Lemma wby_delegates :
    wby_functions w t = Exports.t_funcs t /\ wby_names w t = Exports.t_names t /\ wby_name_indices w t = Exports.t_idxs t /\
    (forall rva, wby_symbol_from_rva w cstr t rva = Exports.symbol_from_rva c t rva) /\
    (forall h, wby_name_of_hint w cstr t h = Exports.name_of_hint c t h) /\
    (forall h, wby_hint w cstr t h = Exports.hint c t h) /\
    (forall i, wby_index w cstr t i = Exports.index c t i) /\
    (forall o, wby_ordinal w cstr t o = Exports.ordinal c t o) /\
    (forall n, wby_name w cstr t n = Exports.name c t n) /\
    (forall n, wby_name_linear w cstr t n = Exports.name_linear c t n) /\
    (forall h n, wby_hint_name w cstr t h n = Exports.hint_name c t h n) /\
    (forall i, wby_import w cstr t i = Exports.import_ c t i) /\
    (forall i, wby_name_lookup w cstr t i = Exports.name_lookup c t i) /\
    wby_check_sorted w cstr t = Exports.check_sorted c t.
  Proof. subst c. destruct w; repeat split; reflexivity. Qed.

  (* iter: mapping the wrapper's symbol_from_rva over the wrapper's functions() *)
  Theorem wby_iter_mirror : wby_iter w cstr t = Exports.iter c t.
  Proof.
    unfold wby_iter, Exports.iter. destruct wby_delegates as (F & _ & _ & S & _). rewrite F.
    apply map_ext. exact S.
  Qed.

  Lemma nthN_app_mid {A} (pre : list A) x rest : Exports.nthN (pre ++ x :: rest) (lenN pre) = Some x.
  Proof. rewrite ExportsProofs.nthN_entry. apply ExportsProofs.entry_app_mid. Qed.

  Lemma iter_names_from_range : forall ns pre, Exports.t_names t = pre ++ ns ->
    Exports.iter_names_from c t ns (lenN pre) =
    map (fun h => (Exports.name_of_hint c t h, Exports.hint c t h)) (range_from (lenN pre) (length ns)).
  Proof.
    induction ns as [|rva rest IH]; intros pre E; cbn [Exports.iter_names_from length range_from map]; [reflexivity|].
    unfold Exports.name_of_hint at 1. rewrite E, nthN_app_mid. f_equal.
    replace (lenN pre + 1) with (lenN (pre ++ [rva])) by (rewrite lenN_app; reflexivity).
    apply IH. rewrite <- app_assoc. exact E.
  Qed.

  (* iter_names: `0..names.len() as u32` is all hints as long as the table has fewer than 2^32 names
     (the count is a u32 field: Proofs/ExportsProofs.v view_by_names_len) *)
  Theorem wby_iter_names_mirror : lenN (Exports.t_names t) < W32 -> wby_iter_names w cstr t = Exports.iter_names c t.
  Proof.
    intros Hlen. unfold wby_iter_names, Exports.iter_names. destruct wby_delegates as (_ & Nm & _ & _ & NH & HH & _).
    rewrite Nm, N.mod_small by exact Hlen. rewrite range_lenN.
    pose proof (iter_names_from_range (Exports.t_names t) [] eq_refl) as R. change (lenN (@nil N)) with 0 in R.
    rewrite R. apply map_ext. intros h. rewrite NH, HH. reflexivity.
  Qed.
  (* without the bound the wrapper's cast truncates: the statement needs the hypothesis *)

  Lemma iter_name_indices_from_range : forall ns ixs pre, Exports.t_names t = pre ++ ns ->
    Exports.iter_name_indices_from c ns ixs =
    map (fun hi => (Exports.name_of_hint c t (fst hi), snd hi)) (combine (range_from (lenN pre) (length ns)) ixs).
  Proof.
    induction ns as [|rva rest IH]; intros ixs pre E; cbn [Exports.iter_name_indices_from length range_from combine map]; [reflexivity|].
    destruct ixs as [|ix ixs]; cbn [combine map]; [reflexivity|]. cbn [fst snd].
    unfold Exports.name_of_hint at 1. rewrite E, nthN_app_mid. f_equal.
    replace (lenN pre + 1) with (lenN (pre ++ [rva])) by (rewrite lenN_app; reflexivity).
    apply IH. rewrite <- app_assoc. exact E.
  Qed.

  Theorem wby_iter_name_indices_mirror : lenN (Exports.t_names t) < W32 ->
    wby_iter_name_indices w cstr t = Exports.iter_name_indices c t.
  Proof.
    intros Hlen. unfold wby_iter_name_indices, Exports.iter_name_indices. destruct wby_delegates as (_ & Nm & Ix & _ & NH & _).
    rewrite Nm, Ix, N.mod_small by exact Hlen. rewrite range_lenN.
    pose proof (iter_name_indices_from_range (Exports.t_names t) (Exports.t_idxs t) [] eq_refl) as R.
    change (lenN (@nil N)) with 0 in R. rewrite R. apply map_ext. intros hi. rewrite NH. reflexivity.
  Qed.
End By.

Theorem wby_name_iterators_mirror w cstr t : lenN (Exports.t_names t) < W32 ->
  wby_iter_names w cstr t = Exports.iter_names (cstr (fmt_of w)) t /\
  wby_iter_name_indices w cstr t = Exports.iter_name_indices (cstr (fmt_of w)) t.
Proof. intros H. split; [apply wby_iter_names_mirror|apply wby_iter_name_indices_mirror]; exact H. Qed.

(* a table of 2^32 names or more: the wrapper's `as u32` loses items the format-specific iterator yields *)
Lemma wby_iter_names_truncates w cstr t : lenN (Exports.t_names t) = W32 -> wby_iter_names w cstr t = [].
Proof.
  intros H. unfold wby_iter_names. destruct (wby_delegates w cstr t) as (_ & Nm & _). rewrite Nm, H. reflexivity.
Qed.

(* Wrap<Exports>::by *)
Theorem wrap_exports_by_mirror w file m :
  wrap_exports_by w file m = (t <- op_exports_by (fmt_of w) file m ;; Ok (tag w t)).
Proof. unfold wrap_exports_by. rewrite dispatch_fmt. apply wtranspose_tag. Qed.

(* on the value the wrapper constructor returned: the By the wrapper holds is the format's own, it has
   fewer than 2^32 names, and its three iterators are the format-specific ones *)
Theorem wrap_by_iterators m w file t : wrap_from_bytes m = Ok w -> mem_ok m ->
  op_exports_by (fmt_of w) file m = Ok t ->
  let cs := fun f => op_cstr f file m in
  wrap_exports_by w file m = Ok (tag w t) /\
  wby_iter w cs t = Exports.iter (op_cstr (fmt_of w) file m) t /\
  wby_iter_names w cs t = Exports.iter_names (op_cstr (fmt_of w) file m) t /\
  wby_iter_name_indices w cs t = Exports.iter_name_indices (op_cstr (fmt_of w) file m) t.
Proof.
  intros _ Hm Ht cs.
  assert (Hlen : lenN (Exports.t_names t) < W32).
  { apply (ExportsProofs.view_by_names_len (pe_view (fmt_of w) file m) (dd_of (fmt_of w) m IMAGE_DIRECTORY_ENTRY_EXPORT) t); [exact Hm|exact Ht]. }
  split; [rewrite wrap_exports_by_mirror, Ht; reflexivity|].
  split; [apply wby_iter_mirror|]. split; [apply wby_iter_names_mirror; exact Hlen|apply wby_iter_name_indices_mirror; exact Hlen].
Qed.

(* ------------------------------------------------------------------ imports, debug, tls, load config *)
Theorem wrap_imports_iter_mirror w file m r :
  wrap_imports_iter w file m r = map (tag w) (op_descs (fmt_of w) file m r).
Proof. unfold wrap_imports_iter. rewrite dispatch_fmt. apply wcollect_tag. Qed.

Theorem wrap_desc_iat_mirror w file m d :
  wrap_desc_iat w file m d = (l <- op_desc_iat (fmt_of w) file m d ;; Ok (tag w l)).
Proof. unfold wrap_desc_iat. rewrite dispatch_fmt. apply wtranspose_tag. Qed.

(* Wrap<Desc>::int: wrapping the iterator and mapping Wrap::into over it gives back the format's items *)
Theorem wrap_desc_int_mirror w file m d : wrap_desc_int w file m d = op_desc_int (fmt_of w) file m d.
Proof.
  unfold wrap_desc_int. rewrite dispatch_fmt.
  destruct (op_desc_int (fmt_of w) file m d) as [l|e|x]; cbn [bind]; [|reflexivity|reflexivity].
  rewrite wcollect_tag, map_winto_tag. reflexivity.
Qed.

Theorem wrap_iat_iter_mirror w file m r :
  wrap_iat_iter w file m r = map (tag w) (op_iat_iter (fmt_of w) file m r).
Proof. unfold wrap_iat_iter. rewrite dispatch_fmt. apply wcollect_tag. Qed.

Theorem wrap_debug_iter_mirror w file m r :
  wrap_debug_iter w file m r = map (tag w) (op_debug_dirs (fmt_of w) file m r) /\
  wrap_debug_into_iter w file m r = wrap_debug_iter w file m r.
Proof. split; [|reflexivity]. unfold wrap_debug_iter. rewrite dispatch_fmt. apply wcollect_tag. Qed.

Theorem wrap_tls_callbacks_mirror w file m t :
  wrap_tls_callbacks w file m t = (r <- op_tls_callbacks (fmt_of w) file m t ;; Ok (tag w r)).
Proof. unfold wrap_tls_callbacks. rewrite dispatch_fmt. apply wtranspose_tag. Qed.

Theorem wrap_lc_se_handler_table_mirror w file m t :
  wrap_lc_se_handler_table w file m t = (r <- op_lc_se_handler_table (fmt_of w) file m t ;; Ok (tag w r)).
Proof. unfold wrap_lc_se_handler_table. rewrite dispatch_fmt. apply wtranspose_tag. Qed.

(* the width of Va the wrapper's IAT / callbacks / SE handler items have is the held variant's: 4 for T32, 8 for T64 *)
Lemma va_width w file m :
  Imports.va_bytes (pe_of (fmt_of w) file m) = (match w with T32 => 4 | T64 => 8 end) /\
  Dirs.va_size (pe_view (fmt_of w) file m) = (match w with T32 => 4 | T64 => 8 end).
Proof. destruct w; split; reflexivity. Qed.

(* all of the above in one statement *)
Theorem directory_wrappers_mirror w file m :
  wrap_exports_by w file m = (t <- op_exports_by (fmt_of w) file m ;; Ok (tag w t)) /\
  (forall r, map winto (wrap_imports_iter w file m r) = op_descs (fmt_of w) file m r) /\
  (forall d, wrap_desc_iat w file m d = (l <- op_desc_iat (fmt_of w) file m d ;; Ok (tag w l))) /\
  (forall d, wrap_desc_int w file m d = op_desc_int (fmt_of w) file m d) /\
  (forall r, map winto (wrap_iat_iter w file m r) = op_iat_iter (fmt_of w) file m r) /\
  (forall r, map winto (wrap_debug_iter w file m r) = op_debug_dirs (fmt_of w) file m r) /\
  (forall t, wrap_tls_callbacks w file m t = (r <- op_tls_callbacks (fmt_of w) file m t ;; Ok (tag w r))) /\
  (forall t, wrap_lc_se_handler_table w file m t = (r <- op_lc_se_handler_table (fmt_of w) file m t ;; Ok (tag w r))).
Proof.
  split; [apply wrap_exports_by_mirror|].
  split; [intros r; rewrite wrap_imports_iter_mirror; apply map_winto_tag|].
  split; [intros d; apply wrap_desc_iat_mirror|].
  split; [intros d; apply wrap_desc_int_mirror|].
  split; [intros r; rewrite wrap_iat_iter_mirror; apply map_winto_tag|].
  split; [intros r; rewrite (proj1 (wrap_debug_iter_mirror w file m r)); apply map_winto_tag|].
  split; [intros t; apply wrap_tls_callbacks_mirror|intros t; apply wrap_lc_se_handler_table_mirror].
Qed.

(* ------------------------------------------------------------------ wrap/sections.rs *)
(* trimn: the result is the prefix whose removal leaves only zero bytes, and it does not end in a zero byte *)
Lemma trim_len_le buf : forall len, (trim_len buf len <= len)%nat.
Proof. induction len as [|k IH]; cbn [trim_len]; [lia|]. destruct (nth k buf 0 =? 0); lia. Qed.
Lemma trim_len_zeros buf : forall len i, (trim_len buf len <= i < len)%nat -> nth i buf 0 = 0.
Proof.
  induction len as [|k IH]; intros i H; [lia|]. cbn [trim_len] in H.
  destruct (nth k buf 0 =? 0) eqn:E; [|lia]. apply N.eqb_eq in E.
  destruct (Nat.eq_dec i k) as [->|Hne]; [exact E|]. apply IH. lia.
Qed.
Lemma trim_len_last buf : forall len, (0 < trim_len buf len)%nat -> nth (trim_len buf len - 1) buf 0 <> 0.
Proof.
  induction len as [|k IH]; cbn [trim_len]; intros H; [lia|].
  destruct (nth k buf 0 =? 0) eqn:E; [apply IH; exact H|]. apply N.eqb_neq in E.
  replace (S k - 1)%nat with k by lia. exact E.
Qed.
Theorem trimn_spec buf :
  exists zeros, buf = trimn buf ++ zeros /\ Forall (fun b => b = 0) zeros /\
  ((0 < length (trimn buf))%nat -> nth (length (trimn buf) - 1) (trimn buf) 0 <> 0).
Proof.
  unfold trimn. set (n := trim_len buf (length buf)).
  assert (Hn : (n <= length buf)%nat) by apply trim_len_le.
  assert (Hl : length (firstn n buf) = n) by (apply firstn_length_le; exact Hn).
  exists (skipn n buf). split; [symmetry; apply firstn_skipn|]. split.
  - apply Forall_forall. intros b Hb. apply In_nth with (d := 0) in Hb. destruct Hb as (i & Hi & <-).
    rewrite skipn_length in Hi. rewrite nth_skipn. apply (trim_len_zeros buf (length buf)). fold n. lia.
  - rewrite Hl. intros Hpos.
    pose proof (trim_len_last buf (length buf) Hpos) as L. fold n in L.
    rewrite <- (firstn_skipn n buf) in L at 1.
    rewrite app_nth1 in L by lia. exact L.
Qed.
