(* Proofs for C11 theorem 2: the parser inverts the printer of the documented syntax:
   parse (show a) = Ok (compile a) for every well-formed AST a. *)
From PV.Model Require Import Machine Pattern.
From PV.Spec Require Import PatSyntax.
From PV.Proofs Require Import BaseProofs.
Ltac Zify.zify_post_hook ::= Z.div_mod_to_equations.

(* ---------------------------------------------------------------- running the parser loop over a prefix of the input *)
Definition set_pos (st : pstate) (pos : nat) : pstate :=
  {| p_res := p_res st; p_save := p_save st; p_depth := p_depth st; p_subs := p_subs st; p_pos := pos; p_barrier := p_barrier st |}.

(* from [st], whatever the recorded position, consuming exactly [inp] leads to [st'] (at some recorded position) *)
Definition steps (st : pstate) (inp : list N) (st' : pstate) : Prop :=
  forall total rest fuel pos, (length inp + length rest < fuel)%nat ->
    exists fuel' pos', (length rest < fuel')%nat /\
      ploop fuel total (set_pos st pos) (inp ++ rest) = ploop fuel' total (set_pos st' pos') rest.

Lemma steps_nil st : steps st [] st.
Proof. intros total rest fuel pos H. exists fuel, pos. split; [cbn [length] in H; lia|reflexivity]. Qed.

Lemma steps_app st1 st2 st3 a b : steps st1 a st2 -> steps st2 b st3 -> steps st1 (a ++ b) st3.
Proof.
  intros H1 H2 total rest fuel pos H. rewrite app_length in H.
  destruct (H1 total (b ++ rest) fuel pos) as [f1 [p1 [Hf1 E1]]]; [rewrite app_length; lia|].
  destruct (H2 total rest f1 p1) as [f2 [p2 [Hf2 E2]]]; [rewrite app_length in Hf1; lia|].
  exists f2, p2. split; [exact Hf2|]. rewrite <- app_assoc, E1. exact E2.
Qed.

(* one iteration *)
Lemma steps_one st chr mid st' u :
  (forall rest pos, pstep (set_pos st pos) chr (mid ++ rest) = inr (set_pos st' pos, rest, u)) ->
  steps st (chr :: mid) st'.
Proof.
  intros H total rest fuel pos Hf. destruct fuel as [|f]; [lia|]. cbn [app ploop]. rewrite H.
  cbn [length] in Hf. destruct u; [exists f, (total - length rest)%nat|exists f, pos]; (split; [lia|reflexivity]).
Qed.

Lemma steps_cons st1 st2 st3 chr mid u b :
  (forall rest pos, pstep (set_pos st1 pos) chr (mid ++ rest) = inr (set_pos st2 pos, rest, u)) ->
  steps st2 b st3 -> steps st1 (chr :: mid ++ b) st3.
Proof. intros H1 H2. change (chr :: mid ++ b) with ((chr :: mid) ++ b). eapply steps_app; [eapply steps_one; exact H1|exact H2]. Qed.

(* the end of the input *)
Lemma steps_parse inp st :
  steps {| p_res := [Save 0]; p_save := 1; p_depth := 0; p_subs := []; p_pos := 0; p_barrier := 0 |} inp st ->
  p_depth st = 0 -> p_subs st = [] -> parse inp = Ok (inr (trim (p_res st))).
Proof.
  intros H Hd Hs. unfold parse. destruct (H (length inp) [] (S (length inp)) 0%nat) as [f [p [Hf E]]]; [cbn [length]; lia|].
  rewrite app_nil_r in E. unfold set_pos at 1 in E. cbn [p_res p_save p_depth p_subs p_barrier] in E. rewrite E.
  destruct f as [|f]; [cbn [length] in Hf; lia|]. cbn [ploop set_pos p_depth p_subs p_res]. rewrite Hd, Hs. reflexivity.
Qed.

(* ---------------------------------------------------------------- the parser state that corresponds to a compiler state *)
Definition mkst (c : cst) (bar : nat) (depth : N) (subs : list sub) : pstate :=
  {| p_res := c_res c; p_save := c_save c; p_depth := depth; p_subs := subs; p_pos := 0; p_barrier := bar |}.
(* the barrier index of the parser vs. the "just closed a group" flag of the compiler *)
(* (since the F42 repair a '{' moves the barrier behind the jump it takes: the barrier may then equal the length while no
   group has just been closed, but the last atom is a jump, not a skip) *)
Definition bar_ok (c : cst) (bar : nat) : Prop :=
  if c_closed c then bar = length (c_res c)
  else (bar <= length (c_res c))%nat /\ (bar = length (c_res c) -> forall k, last_atom (c_res c) <> Some (Skip k)).
Lemma bar_ok_lt c bar : c_closed c = false -> (bar < length (c_res c))%nat -> bar_ok c bar.
Proof. intros Hc Hl. unfold bar_ok. rewrite Hc. split; [lia|intros E; lia]. Qed.
(* the brace depth never goes below the depth at the '(' of the innermost open group (F43 repair: '}' tests it) *)
Definition floor_ok (depth : N) (subs : list sub) : Prop := match subs with sb :: _ => sb_depth sb <= depth | [] => True end.
Lemma floor_ok_succ depth subs : floor_ok depth subs -> floor_ok (depth + 1) subs.
Proof. unfold floor_ok. destruct subs; [exact (fun H => H)|lia]. Qed.

(* consuming [inp] turns the image of [c] into the image of [c'], whatever the nesting *)
Definition reaches (c : cst) (inp : list N) (c' : cst) : Prop :=
  forall depth subs bar, floor_ok depth subs -> bar_ok c bar -> exists bar', bar_ok c' bar' /\ steps (mkst c bar depth subs) inp (mkst c' bar' depth subs).

Lemma reaches_nil c : reaches c [] c.
Proof. intros d s b _ H. exists b. split; [exact H|apply steps_nil]. Qed.
Lemma reaches_app c1 c2 c3 a b : reaches c1 a c2 -> reaches c2 b c3 -> reaches c1 (a ++ b) c3.
Proof.
  intros H1 H2 d s b1 Hfl Hb1. destruct (H1 d s b1 Hfl Hb1) as [b2 [Hb2 S1]]. destruct (H2 d s b2 Hfl Hb2) as [b3 [Hb3 S2]].
  exists b3. split; [exact Hb3|eapply steps_app; eassumption].
Qed.

(* a space changes nothing *)
Lemma steps_space st : steps st [32] st.
Proof. apply (steps_one st 32 [] st true). intros rest pos. reflexivity. Qed.
Lemma reaches_space c : reaches c [32] c.
Proof. intros d s b _ H. exists b. split; [exact H|apply steps_space]. Qed.

(* ---------------------------------------------------------------- list facts *)
Lemma upd_length {A} (l : list A) : forall i x, length (upd l i x) = length l.
Proof. induction l as [|h t IH]; intros [|i] x; cbn [upd length]; try reflexivity. rewrite IH. reflexivity. Qed.
Lemma last_atom_snoc l a : last_atom (l ++ [a]) = Some a.
Proof. unfold last_atom. rewrite rev_app_distr. reflexivity. Qed.
Lemma upd_snoc {A} (l : list A) a x : upd (l ++ [a]) (length l) x = l ++ [x].
Proof. induction l as [|h t IH]; cbn [app length upd]; [reflexivity|]. rewrite IH. reflexivity. Qed.
Lemma set_last_snoc l a x : set_last (l ++ [a]) x = l ++ [x].
Proof. unfold set_last. rewrite app_length. cbn [length]. replace (length l + 1 - 1)%nat with (length l) by lia. apply upd_snoc. Qed.
Lemma set_last_length l x : length (set_last l x) = length l.
Proof. apply upd_length. Qed.
Lemma last_atom_inv l a : last_atom l = Some a -> exists l', l = l' ++ [a].
Proof.
  unfold last_atom. intros H. destruct (rev l) as [|b r] eqn:E; [discriminate|]. injection H as ->.
  exists (rev r). rewrite <- (rev_involutive l), E. reflexivity.
Qed.

(* ---------------------------------------------------------------- bar_ok under the compiler's moves *)
Lemma bar_ok_emit c bar l : bar_ok c bar -> bar_ok (emit c l) bar.
Proof.
  unfold bar_ok, emit. cbn [c_closed c_res]. destruct l as [|a l]; [rewrite app_nil_r; exact (fun H => H)|].
  rewrite app_length. cbn [length]. destruct (c_closed c); intros H; (split; [lia|intros E; lia]).
Qed.
Lemma bar_ok_emit_slot c bar mk : bar_ok c bar -> bar_ok (emit_slot c mk) bar.
Proof. unfold bar_ok, emit_slot. cbn [c_closed c_res]. rewrite app_length. cbn [length]. destruct (c_closed c); intros H; (split; [lia|intros E; lia]). Qed.

(* ---------------------------------------------------------------- single characters *)
Ltac one_step := intros dep sbs bar _ Hbar; exists bar; split; [first [apply bar_ok_emit|apply bar_ok_emit_slot]; exact Hbar|].

Lemma reaches_jump c j : reaches c [jchar j] (emit c [jatom j]).
Proof. one_step. apply (steps_one _ (jchar j) [] _ true). intros rest pos. destruct j; reflexivity. Qed.

Lemma reaches_save c : c_save c < 255 -> reaches c [39] (emit_slot c Save).
Proof.
  intros H. one_step. apply (steps_one _ 39 [] _ true). intros rest pos.
  change (pstep (set_pos (mkst c bar dep sbs) pos) 39 ([] ++ rest)) with
    (if 255 <=? c_save c then inl SaveOverflow
     else @inr paterr _ (set_pos (mkst (emit_slot c Save) bar dep sbs) pos, rest, true)).
  destruct (255 <=? c_save c) eqn:E; [lia|reflexivity].
Qed.
Lemma reaches_zero c : c_save c < 255 -> reaches c [122] (emit_slot c Zero).
Proof.
  intros H. one_step. apply (steps_one _ 122 [] _ true). intros rest pos.
  change (pstep (set_pos (mkst c bar dep sbs) pos) 122 ([] ++ rest)) with
    (if 255 <=? c_save c then inl SaveOverflow
     else @inr paterr _ (set_pos (mkst (emit_slot c Zero) bar dep sbs) pos, rest, true)).
  destruct (255 <=? c_save c) eqn:E; [lia|reflexivity].
Qed.
Lemma reaches_read c r : c_save c < 255 -> reaches c (rchars r) (emit_slot c (ratom r)).
Proof.
  intros H. one_step.
  assert (E : 255 <=? c_save c = false) by lia.
  destruct r; cbn [rchars];
  match goal with |- steps _ (?ch :: [?op]) (mkst (emit_slot c ?mk) _ _ _) =>
    apply (steps_one _ ch [op] _ true); intros rest pos;
    change (pstep (set_pos (mkst c bar dep sbs) pos) ch ([op] ++ rest)) with
      (if 255 <=? c_save c then inl SaveOverflow
       else @inr paterr _ (set_pos (mkst (emit_slot c mk) bar dep sbs) pos, rest, true)) end;
  rewrite E; reflexivity.
Qed.

(* ---------------------------------------------------------------- hex bytes *)
Lemma lt16 d : d < 16 -> In d [0;1;2;3;4;5;6;7;8;9;10;11;12;13;14;15].
Proof. intros H. cbn [In]. lia. Qed.

Lemma pstep_hex st hi lo rest : hi < 16 -> lo < 16 ->
  pstep st (hexc hi) (hexc lo :: rest) =
  inr ({| p_res := p_res st ++ [Byte (hi * 16 + lo)]; p_save := p_save st; p_depth := p_depth st; p_subs := p_subs st;
          p_pos := p_pos st; p_barrier := p_barrier st |}, rest, true).
Proof.
  intros Hh Hl. apply lt16 in Hh. apply lt16 in Hl. cbn [In] in Hh, Hl.
  repeat (destruct Hh as [<-|Hh]; [repeat (destruct Hl as [<-|Hl]; [reflexivity|]); contradiction|]). contradiction.
Qed.

Lemma reaches_byte c b : b < 256 -> reaches c [hexc (b / 16); hexc (b mod 16)] (emit c [Byte b]).
Proof.
  intros H. one_step. apply (steps_one _ _ [_] _ true). intros rest pos. cbn [app].
  rewrite pstep_hex by lia. replace (b / 16 * 16 + b mod 16) with b by lia. reflexivity.
Qed.

(* ---------------------------------------------------------------- @k *)
Lemma lt36 d : d < 36 -> In d [0;1;2;3;4;5;6;7;8;9;10;11;12;13;14;15;16;17;18;19;20;21;22;23;24;25;26;27;28;29;30;31;32;33;34;35].
Proof. intros H. cbn [In]. lia. Qed.
Lemma pstep_align st k rest : k < 36 ->
  pstep st 64 (alignc k :: rest) =
  inr ({| p_res := p_res st ++ [Aligned k]; p_save := p_save st; p_depth := p_depth st; p_subs := p_subs st;
          p_pos := p_pos st; p_barrier := p_barrier st |}, rest, true).
Proof. intros H. apply lt36 in H. cbn [In] in H. repeat (destruct H as [<-|H]; [reflexivity|]). contradiction. Qed.
Lemma reaches_align c k : k < 36 -> reaches c [64; alignc k] (emit c [Aligned k]).
Proof.
  intros H. one_step. apply (steps_one _ _ [_] _ true). intros rest pos. cbn [app].
  rewrite pstep_align by exact H. reflexivity.
Qed.

(* ---------------------------------------------------------------- "..." *)
Lemma parse_quote_str s : forall res rest, Forall (fun ch => ch < 256 /\ ch <> 34) s ->
  parse_quote (s ++ 34 :: rest) res = inr (res ++ map Byte s, rest).
Proof.
  induction s as [|ch s IH]; intros res rest H; cbn [app parse_quote map].
  - rewrite app_nil_r. reflexivity.
  - inversion H as [|? ? [_ Hc] Hs]; subst. destruct (ch =? 34) eqn:E; [lia|]. rewrite IH by exact Hs.
    rewrite <- app_assoc. reflexivity.
Qed.
Lemma reaches_str c s : Forall (fun ch => ch < 256 /\ ch <> 34) s -> reaches c (34 :: s ++ [34]) (emit c (map Byte s)).
Proof.
  intros H. one_step. apply (steps_one _ 34 (s ++ [34]) _ true). intros rest pos.
  change (pstep (set_pos (mkst c bar dep sbs) pos) 34 ((s ++ [34]) ++ rest)) with
    (match parse_quote ((s ++ [34]) ++ rest) (c_res c) with
     | inl e => inl e
     | inr (res1, rest1) => @inr paterr _ ({| p_res := res1; p_save := c_save c; p_depth := dep; p_subs := sbs; p_pos := pos; p_barrier := bar |}, rest1, true)
     end).
  rewrite <- app_assoc. cbn [app]. rewrite parse_quote_str by exact H. reflexivity.
Qed.

(* ---------------------------------------------------------------- decimal numbers *)
Definition dval (acc : N) (ds : list N) : N := fold_left (fun a d => a * 10 + d) ds acc.
Lemma dval_ge ds : forall acc, acc <= dval acc ds.
Proof. induction ds as [|d ds IH]; intros acc; cbn [dval fold_left]; [lia|]. specialize (IH (acc * 10 + d)). unfold dval in IH. lia. Qed.

Lemma parse_num_digits ds : forall acc any dash t rest,
  Forall (fun d => d < 10) ds -> dval acc ds < 16384 -> ((t =? 93) || (dash && (t =? 45))) = true ->
  parse_num (map digc ds ++ t :: rest) acc any dash = inr (dval acc ds, match ds with [] => any | _ :: _ => true end, t, rest).
Proof.
  induction ds as [|dg ds IH]; intros acc any dash t rest Hd Hv Ht; cbn [map app parse_num].
  - rewrite Ht. reflexivity.
  - inversion Hd as [|? ? Hdg Hds]; subst. change (digc dg) with (48 + dg).
    assert (E1 : ((48 + dg =? 93) || (dash && (48 + dg =? 45))) = false) by (destruct dash; lia). rewrite E1.
    assert (E2 : is_digit (48 + dg) = true) by (unfold is_digit; lia). rewrite E2.
    replace (48 + dg - 48) with dg by lia.
    pose proof (dval_ge ds (acc * 10 + dg)) as Hge. cbn [dval fold_left] in Hv. unfold dval in Hge.
    assert (E3 : 16384 <=? acc * 10 + dg = false) by lia. rewrite E3.
    rewrite IH; [|exact Hds|exact Hv|exact Ht]. cbn [dval fold_left]. destruct ds; reflexivity.
Qed.

Lemma digits_spec n : n < 100000 -> Forall (fun d => d < 10) (digits n) /\ dval 0 (digits n) = n /\ digits n <> [].
Proof.
  intros H. unfold digits.
  destruct (10000 <=? n) eqn:E1; destruct (1000 <=? n) eqn:E2; destruct (100 <=? n) eqn:E3; destruct (10 <=? n) eqn:E4;
  cbn [app dval fold_left]; (split; [repeat constructor; lia|split; [lia|discriminate]]).
Qed.

Lemma parse_num_dec n dash t rest : n < 16384 -> ((t =? 93) || (dash && (t =? 45))) = true ->
  parse_num (show_dec n ++ t :: rest) 0 false dash = inr (n, true, t, rest).
Proof.
  intros H Ht. destruct (digits_spec n) as [Hd [Hv Hn]]; [lia|]. unfold show_dec.
  rewrite parse_num_digits; [|exact Hd|rewrite Hv; exact H|exact Ht]. rewrite Hv. destruct (digits n); [contradiction|reflexivity].
Qed.

(* ---------------------------------------------------------------- [n] and [a-b] *)
Lemma skip_atoms_eq n res :
  (if 0 <? n then (if 256 <=? n then res ++ [Rangext (n / 256)] else res) ++ [Skip (n mod 256)] else res) = res ++ skip_atoms n.
Proof.
  unfold skip_atoms. destruct (0 <? n) eqn:E0; destruct (n =? 0) eqn:E1; try lia; [|rewrite app_nil_r; reflexivity].
  destruct (256 <=? n); [rewrite <- app_assoc|]; reflexivity.
Qed.
Lemma many_atoms_eq m res :
  (if 256 <=? m then res ++ [Rangext (m / 256)] else res) ++ [Many (m mod 256)] = res ++ many_atoms m.
Proof. unfold many_atoms. destruct (256 <=? m); [rewrite <- app_assoc|]; reflexivity. Qed.

Lemma reaches_skip c n : n < 16384 -> reaches c (91 :: show_dec n ++ [93]) (emit c (skip_atoms n)).
Proof.
  intros H. one_step. apply (steps_one _ 91 (show_dec n ++ [93]) _ false). intros rest pos.
  rewrite <- app_assoc. cbn [app].
  change (pstep (set_pos (mkst c bar dep sbs) pos) 91 (show_dec n ++ 93 :: rest)) with
    (match parse_num (show_dec n ++ 93 :: rest) 0 false true with
     | inl e => inl e
     | inr (lower, any, term, rest1) =>
       if negb any then inl ManyInvalid
       else
         let res1 := if 0 <? lower then (if 256 <=? lower then c_res c ++ [Rangext (lower / 256)] else c_res c) ++ [Skip (lower mod 256)] else c_res c in
         if term =? 93 then
           @inr paterr _ ({| p_res := res1; p_save := c_save c; p_depth := dep; p_subs := sbs; p_pos := pos; p_barrier := bar |}, rest1, false)
         else
           match parse_num rest1 0 false false with
           | inl e => inl e
           | inr (upper, _, _, rest2) =>
             if lower <? upper then
               let many := upper - lower in
               let res2 := (if 256 <=? many then res1 ++ [Rangext (many / 256)] else res1) ++ [Many (many mod 256)] in
               inr ({| p_res := res2; p_save := c_save c; p_depth := dep; p_subs := sbs; p_pos := pos; p_barrier := bar |}, rest2, true)
             else inl ManyRange
           end
     end).
  rewrite parse_num_dec by (try exact H; reflexivity). cbn [negb]. cbv zeta. rewrite skip_atoms_eq. reflexivity.
Qed.

Lemma reaches_range c lo hi : lo < hi -> hi < 16384 ->
  reaches c (91 :: show_dec lo ++ 45 :: show_dec hi ++ [93]) (emit c (skip_atoms lo ++ many_atoms (hi - lo))).
Proof.
  intros H1 H2. one_step.
  apply (steps_one _ 91 (show_dec lo ++ 45 :: show_dec hi ++ [93]) _ true). intros rest pos.
  replace ((show_dec lo ++ 45 :: show_dec hi ++ [93]) ++ rest) with (show_dec lo ++ 45 :: show_dec hi ++ 93 :: rest)
    by (rewrite <- !app_assoc; cbn [app]; rewrite <- app_assoc; reflexivity).
  change (pstep (set_pos (mkst c bar dep sbs) pos) 91 (show_dec lo ++ 45 :: show_dec hi ++ 93 :: rest)) with
    (match parse_num (show_dec lo ++ 45 :: show_dec hi ++ 93 :: rest) 0 false true with
     | inl e => inl e
     | inr (lower, any, term, rest1) =>
       if negb any then inl ManyInvalid
       else
         let res1 := if 0 <? lower then (if 256 <=? lower then c_res c ++ [Rangext (lower / 256)] else c_res c) ++ [Skip (lower mod 256)] else c_res c in
         if term =? 93 then
           @inr paterr _ ({| p_res := res1; p_save := c_save c; p_depth := dep; p_subs := sbs; p_pos := pos; p_barrier := bar |}, rest1, false)
         else
           match parse_num rest1 0 false false with
           | inl e => inl e
           | inr (upper, _, _, rest2) =>
             if lower <? upper then
               let many := upper - lower in
               let res2 := (if 256 <=? many then res1 ++ [Rangext (many / 256)] else res1) ++ [Many (many mod 256)] in
               inr ({| p_res := res2; p_save := c_save c; p_depth := dep; p_subs := sbs; p_pos := pos; p_barrier := bar |}, rest2, true)
             else inl ManyRange
           end
     end).
  rewrite parse_num_dec by (try lia; reflexivity). cbn [negb]. cbv zeta. rewrite skip_atoms_eq.
  change (45 =? 93) with false. cbv iota.
  rewrite parse_num_dec by (try lia; reflexivity).
  assert (E : lo <? hi = true) by lia. rewrite E. rewrite many_atoms_eq.
  unfold emit, set_pos, mkst. cbn [c_res c_save c_closed p_res p_save p_depth p_subs p_barrier]. rewrite <- app_assoc.
  destruct (skip_atoms lo ++ many_atoms (hi - lo)) eqn:El; reflexivity.
Qed.

(* ---------------------------------------------------------------- question marks *)
Lemma pstep_wild c bar dep sbs pos rest :
  pstep (set_pos (mkst c bar dep sbs) pos) 63 rest =
  match last_atom (c_res c) with
  | Some (Skip k) =>
    if Nat.ltb bar (length (c_res c)) && negb (k =? 0) && (k <? 255)
    then inr (set_pos (mkst {| c_res := set_last (c_res c) (Skip (k + 1)); c_save := c_save c; c_closed := false |} bar dep sbs) pos, rest, false)
    else inr (set_pos (mkst (emit c [Skip 1]) bar dep sbs) pos, rest, true)
  | _ => inr (set_pos (mkst (emit c [Skip 1]) bar dep sbs) pos, rest, true)
  end.
Proof. reflexivity. Qed.

Lemma reaches_wild1 c : reaches c [63] (wild1 c).
Proof.
  intros dep sbs bar _ Hbar. unfold wild1.
  destruct (last_atom (c_res c)) as [a|] eqn:E.
  2: { exists bar. split; [apply bar_ok_emit; exact Hbar|]. apply (steps_one _ 63 [] _ true). intros rest pos.
       cbn [app]. rewrite pstep_wild, E. reflexivity. }
  destruct a;
  try (exists bar; split; [apply bar_ok_emit; exact Hbar|]; apply (steps_one _ 63 [] _ true); intros rest pos;
       cbn [app]; rewrite pstep_wild, E; reflexivity).
  (* the last atom is a skip *)
  assert (Eb : Nat.ltb bar (length (c_res c)) = negb (c_closed c)).
  { unfold bar_ok in Hbar. destruct (c_closed c); cbn [negb]; [subst bar; apply Nat.ltb_irrefl|apply Nat.ltb_lt].
    destruct Hbar as [Hle Hne]. destruct (Nat.eq_dec bar (length (c_res c))) as [Eq|Ne]; [exfalso; exact (Hne Eq k E)|lia]. }
  destruct (negb (c_closed c) && negb (k =? 0) && (k <? 255)) eqn:Ec.
  - exists bar. split.
    + unfold bar_ok. cbn [c_closed c_res]. rewrite set_last_length.
      assert (Hlt : Nat.ltb bar (length (c_res c)) = true) by (rewrite Eb; destruct (c_closed c); [discriminate|reflexivity]).
      apply Nat.ltb_lt in Hlt. split; [lia|intros Eq; lia].
    + apply (steps_one _ 63 [] _ false). intros rest pos. cbn [app]. rewrite pstep_wild, E, Eb, Ec. reflexivity.
  - exists bar. split; [apply bar_ok_emit; exact Hbar|]. apply (steps_one _ 63 [] _ true). intros rest pos.
    cbn [app]. rewrite pstep_wild, E, Eb, Ec. reflexivity.
Qed.

Lemma iter_succ_r {A} (f : A -> A) n : forall x, Nat.iter (S n) f x = Nat.iter n f (f x).
Proof. induction n as [|n IH]; intros x; [reflexivity|]. cbn [Nat.iter nat_rect] in *. rewrite IH. reflexivity. Qed.

Lemma reaches_wild n : forall c, reaches c (repeat 63 n) (Nat.iter n wild1 c).
Proof.
  induction n as [|n IH]; intros c; [apply reaches_nil|].
  rewrite iter_succ_r. change (repeat 63 (S n)) with ([63] ++ repeat 63 n).
  eapply reaches_app; [apply reaches_wild1|apply IH].
Qed.

(* ---------------------------------------------------------------- every flat item, then every flat sequence *)
Lemma reaches_flat_item it c : flat_item it = true -> wf_item it c -> reaches c (show_item it) (comp_item it c).
Proof.
  destruct it; cbn [flat_item wf_item show_item comp_item]; intros Hf Hw; try discriminate.
  - apply reaches_byte; exact Hw.
  - apply reaches_str; exact Hw.
  - apply reaches_wild.
  - apply reaches_skip; exact Hw.
  - apply reaches_range; [exact (proj1 Hw)|exact (proj2 Hw)].
  - apply reaches_save; exact Hw.
  - apply reaches_read; exact Hw.
  - apply reaches_zero; exact Hw.
  - apply reaches_align; exact Hw.
  - apply reaches_jump.
Qed.

Lemma reaches_flat_show l : forall c, flat l = true -> wf_seq l c -> reaches c (show l) (comp_seq l c).
Proof.
  induction l as [|x t IH]; intros c Hf Hw; [apply reaches_nil|].
  cbn [flat forallb] in Hf. apply andb_prop in Hf. destruct Hf as [Hx Ht]. cbn [wf_seq] in Hw. destruct Hw as [Wx Wt].
  change (comp_seq (x :: t) c) with (comp_seq t (comp_item x c)).
  cbn [show]. destruct t as [|y t'].
  - apply reaches_flat_item; assumption.
  - eapply reaches_app; [apply reaches_flat_item; assumption|].
    change (32 :: show (y :: t')) with ([32] ++ show (y :: t')).
    eapply reaches_app; [apply reaches_space|]. apply IH; assumption.
Qed.

(* parse (show a) = Ok (compile a) on the fragment without braces and alternatives *)
Theorem parse_show_compile_flat a : flat a = true -> wf a -> parse (show a) = Ok (inr (compile a)).
Proof.
  intros Hf Hw. destruct (reaches_flat_show a cinit Hf Hw 0 [] 0%nat I) as [bar' [_ S]].
  - apply bar_ok_lt; [reflexivity|cbn [cinit c_res length]; lia].
  - apply (steps_parse _ _ S); reflexivity.
Qed.

(* ================================================================ braces and alternatives *)
(* a compiler state seen behind a prefix of atoms that are already fixed *)
Definition pre (P : list atom) (c : cst) : cst := {| c_res := P ++ c_res c; c_save := c_save c; c_closed := c_closed c |}.
(* the prefix does not end in a skip that a leading question mark of the local state would extend *)
Definition guard (P : list atom) (c : cst) : Prop :=
  c_res c = [] -> c_closed c = false -> forall k, last_atom P <> Some (Skip k).

Lemma pre_emit P c l : pre P (emit c l) = emit (pre P c) l.
Proof. unfold pre, emit. cbn [c_res c_save c_closed]. rewrite app_assoc. reflexivity. Qed.
Lemma pre_emit_slot P c mk : pre P (emit_slot c mk) = emit_slot (pre P c) mk.
Proof. unfold pre, emit_slot. cbn [c_res c_save c_closed]. rewrite app_assoc. reflexivity. Qed.
Lemma pre_pre P Q c : pre P (pre Q c) = pre (P ++ Q) c.
Proof. unfold pre. cbn [c_res c_save c_closed]. rewrite app_assoc. reflexivity. Qed.

Lemma last_atom_app P R : R <> [] -> last_atom (P ++ R) = last_atom R.
Proof.
  intros H. destruct (@exists_last _ R H) as [R' [a ->]]. rewrite app_assoc, !last_atom_snoc. reflexivity.
Qed.
Lemma set_last_app P R x : R <> [] -> set_last (P ++ R) x = P ++ set_last R x.
Proof.
  intros H. destruct (@exists_last _ R H) as [R' [a ->]]. rewrite app_assoc, !set_last_snoc, app_assoc. reflexivity.
Qed.

Lemma guard_nonempty P c : c_res c <> [] -> guard P c.
Proof. intros H E. contradiction. Qed.

Lemma pre_wild1 P c : guard P c -> pre P (wild1 c) = wild1 (pre P c) /\ c_res (wild1 c) <> [].
Proof.
  intros G. unfold wild1. destruct (c_res c) as [|a0 R0] eqn:ER.
  - (* nothing emitted locally: the question mark must not merge into the prefix *)
    cbn [last_atom rev]. change (c_res (pre P c)) with (P ++ c_res c). rewrite ER, app_nil_r.
    split; [|unfold emit; cbn [c_res]; rewrite ER; discriminate].
    rewrite pre_emit.
    destruct (last_atom P) as [a|] eqn:EL; [|reflexivity]. destruct a; try reflexivity.
    destruct (c_closed c) eqn:EC.
    + change (c_closed (pre P c)) with (c_closed c). rewrite EC. reflexivity.
    + exfalso. exact (G ER EC k EL).
  - assert (Hne : c_res c <> []) by (rewrite ER; discriminate). rewrite <- ER.
    change (c_res (pre P c)) with (P ++ c_res c). rewrite last_atom_app by exact Hne.
    change (c_closed (pre P c)) with (c_closed c). change (c_save (pre P c)) with (c_save c).
    destruct (last_atom (c_res c)) as [a|] eqn:EL.
    2: { split; [apply pre_emit|]. unfold emit. cbn [c_res]. intros E. apply app_eq_nil in E. destruct E; discriminate. }
    assert (Hemit : pre P (emit c [Skip 1]) = emit (pre P c) [Skip 1] /\ c_res (emit c [Skip 1]) <> []).
    { split; [apply pre_emit|]. unfold emit. cbn [c_res]. intros E. apply app_eq_nil in E. destruct E; discriminate. }
    destruct a; try exact Hemit.
    destruct (negb (c_closed c) && negb (k =? 0) && (k <? 255)); [|exact Hemit].
    split.
    + unfold pre. cbn [c_res c_save c_closed]. rewrite set_last_app by exact Hne. reflexivity.
    + cbn [c_res]. intros E. apply (f_equal (@length atom)) in E. rewrite set_last_length in E.
      destruct (c_res c); [contradiction|discriminate].
Qed.

Lemma pre_wild P n : forall c, guard P c -> pre P (Nat.iter n wild1 c) = Nat.iter n wild1 (pre P c).
Proof.
  induction n as [|n IH]; intros c G; [reflexivity|]. rewrite !iter_succ_r.
  destruct (pre_wild1 P c G) as [E Hne]. rewrite <- E. apply IH. apply guard_nonempty. exact Hne.
Qed.

(* the compiled code of an item is never taken back: either the state is unchanged or something has been emitted *)
Lemma iter_wild_nonempty n c : c_res (Nat.iter n wild1 c) <> [] \/ Nat.iter n wild1 c = c.
Proof.
  destruct n as [|n]; [right; reflexivity|left]. induction n as [|n IH].
  - cbn [Nat.iter nat_rect]. destruct (c_res c) eqn:E.
    + unfold wild1. rewrite E. cbn [last_atom rev emit c_res]. rewrite E. discriminate.
    + apply (pre_wild1 [] c). apply guard_nonempty. rewrite E. discriminate.
  - change (Nat.iter (S (S n)) wild1 c) with (wild1 (Nat.iter (S n) wild1 c)).
    apply (pre_wild1 [] _). apply guard_nonempty. exact IH.
Qed.

Lemma alt_code_nonempty l t : alt_code (l :: t) <> [].
Proof. cbn [alt_code]. destruct t; discriminate. Qed.

Lemma guard_comp_item P it c : guard P c -> guard P (comp_item it c).
Proof.
  intros G.
  assert (Hemit : forall l, guard P (emit c l)).
  { intros l. destruct l as [|a l].
    - intros E1 E2. apply G; [cbn [emit c_res] in E1; rewrite app_nil_r in E1; exact E1|exact E2].
    - apply guard_nonempty. cbn [emit c_res]. intros E. apply app_eq_nil in E. destruct E; discriminate. }
  assert (Hslot : forall mk, guard P (emit_slot c mk)).
  { intros mk. apply guard_nonempty. cbn [emit_slot c_res]. intros E. apply app_eq_nil in E. destruct E; discriminate. }
  destruct it; cbn [comp_item]; try apply Hemit; try apply Hslot.
  - destruct (iter_wild_nonempty n c) as [H|H]; [apply guard_nonempty; exact H|rewrite H; exact G].
  - apply guard_nonempty. cbn [emit c_res]. intros E. apply app_eq_nil in E. destruct E; discriminate.
  - apply guard_nonempty. cbn [c_res map]. intros E. apply app_eq_nil in E. destruct E as [_ E]. exact (alt_code_nonempty _ _ E).
Qed.

(* ---------------------------------------------------------------- the parser's steps at { } ( | ) *)
Lemma pstep_open st R j rest : p_res st = R ++ [jatom j] -> (p_barrier st < length (p_res st))%nat ->
  pstep st 123 rest =
  inr ({| p_res := R ++ [Push (jpush j); jatom j]; p_save := p_save st; p_depth := p_depth st + 1; p_subs := p_subs st;
          p_pos := p_pos st; p_barrier := length (R ++ [Push (jpush j); jatom j]) |}, rest, true).
Proof.
  intros H Hb.
  change (pstep st 123 rest) with
    (if negb (Nat.ltb (p_barrier st) (length (p_res st))) then inl StackInvalid else
     match last_atom (p_res st) with
     | Some Jump1 => let r := set_last (p_res st) (Push 1) ++ [Jump1] in @inr paterr _ ({| p_res := r; p_save := p_save st; p_depth := p_depth st + 1; p_subs := p_subs st; p_pos := p_pos st; p_barrier := length r |}, rest, true)
     | Some Jump4 => let r := set_last (p_res st) (Push 4) ++ [Jump4] in inr ({| p_res := r; p_save := p_save st; p_depth := p_depth st + 1; p_subs := p_subs st; p_pos := p_pos st; p_barrier := length r |}, rest, true)
     | Some Ptr => let r := set_last (p_res st) (Push 0) ++ [Ptr] in inr ({| p_res := r; p_save := p_save st; p_depth := p_depth st + 1; p_subs := p_subs st; p_pos := p_pos st; p_barrier := length r |}, rest, true)
     | _ => inl StackInvalid
     end).
  apply Nat.ltb_lt in Hb. rewrite Hb. cbn [negb]. cbv zeta.
  rewrite H, last_atom_snoc. destruct j; cbn [jatom jpush]; rewrite set_last_snoc, <- app_assoc; reflexivity.
Qed.

Definition floor_of (subs : list sub) : N := match subs with sb :: _ => sb_depth sb | [] => 0 end.
Lemma pstep_close st rest : floor_of (p_subs st) < p_depth st ->
  pstep st 125 rest =
  inr ({| p_res := p_res st ++ [Pop]; p_save := p_save st; p_depth := p_depth st - 1; p_subs := p_subs st;
          p_pos := p_pos st; p_barrier := p_barrier st |}, rest, true).
Proof.
  intros H.
  change (pstep st 125 rest) with
    (if p_depth st <=? floor_of (p_subs st) then inl StackError
     else @inr paterr _ ({| p_res := p_res st ++ [Pop]; p_save := p_save st; p_depth := p_depth st - 1; p_subs := p_subs st; p_pos := p_pos st; p_barrier := p_barrier st |}, rest, true)).
  destruct (p_depth st <=? floor_of (p_subs st)) eqn:E; [lia|reflexivity].
Qed.

Lemma pstep_lparen st rest :
  pstep st 40 rest =
  inr ({| p_res := p_res st ++ [Case 0]; p_save := p_save st; p_depth := p_depth st;
          p_subs := {| sb_case := length (p_res st); sb_brks := []; sb_save := p_save st; sb_save_next := 0; sb_depth := p_depth st |} :: p_subs st;
          p_pos := p_pos st; p_barrier := p_barrier st |}, rest, true).
Proof. reflexivity. Qed.

Lemma pstep_pipe st sb subs rest : p_subs st = sb :: subs -> p_depth st = sb_depth sb ->
  pstep st 124 rest =
  if Nat.leb 256 (length (p_res st ++ [Break 0]) - sb_case sb - 1)%nat then inl SubOverflow
  else inr ({| p_res := upd (p_res st ++ [Break 0]) (sb_case sb) (Case (N.of_nat (length (p_res st ++ [Break 0]) - sb_case sb - 1))) ++ [Case 0];
               p_save := sb_save sb; p_depth := sb_depth sb;
               p_subs := {| sb_case := length (upd (p_res st ++ [Break 0]) (sb_case sb) (Case (N.of_nat (length (p_res st ++ [Break 0]) - sb_case sb - 1))));
                            sb_brks := sb_brks sb ++ [length (p_res st)]; sb_save := sb_save sb;
                            sb_save_next := N.max (sb_save_next sb) (p_save st); sb_depth := sb_depth sb |} :: subs;
               p_pos := p_pos st; p_barrier := p_barrier st |}, rest, true).
Proof. intros H Hd. unfold pstep. rewrite H, Hd, (N.eqb_refl (sb_depth sb)). reflexivity. Qed.

Lemma pstep_rparen st sb subs rest : p_subs st = sb :: subs -> p_depth st = sb_depth sb ->
  pstep st 41 rest =
  match fill_breaks (upd (p_res st) (sb_case sb) Nop) (sb_brks sb) with
  | inl e => inl e
  | inr res2 => inr ({| p_res := res2; p_save := N.max (sb_save_next sb) (p_save st); p_depth := sb_depth sb; p_subs := subs;
                        p_pos := p_pos st; p_barrier := length res2 |}, rest, true)
  end.
Proof. intros H Hd. unfold pstep. rewrite H, Hd, (N.eqb_refl (sb_depth sb)). reflexivity. Qed.

(* ---------------------------------------------------------------- the layout of a group while it is being parsed *)
Fixpoint partial (ls : list (list atom)) : list atom :=
  match ls with [] => [] | l :: t => Case (N.of_nat (length l + 1)) :: l ++ Break 0 :: partial t end.
Fixpoint brk_pos (base : nat) (ls : list (list atom)) : list nat :=
  match ls with [] => [] | l :: t => (base + 1 + length l)%nat :: brk_pos (base + length l + 2) t end.
Definition maxl (l : list N) : N := fold_right N.max 0 l.

Lemma partial_snoc ls l : partial (ls ++ [l]) = partial ls ++ Case (N.of_nat (length l + 1)) :: l ++ [Break 0].
Proof. induction ls as [|x t IH]; cbn [app partial]; [reflexivity|]. rewrite IH, <- app_assoc. reflexivity. Qed.
Lemma brk_pos_snoc ls l : forall base,
  brk_pos base (ls ++ [l]) = brk_pos base ls ++ [(base + length (partial ls) + 1 + length l)%nat].
Proof.
  induction ls as [|x t IH]; intros base; cbn [app brk_pos partial length].
  - f_equal. lia.
  - rewrite IH. rewrite app_length. cbn [length]. f_equal. f_equal. f_equal. lia.
Qed.
Lemma maxl_snoc l x : maxl (l ++ [x]) = N.max (maxl l) x.
Proof. unfold maxl. induction l as [|y t IH]; cbn [app fold_right]; [lia|]. rewrite IH. lia. Qed.

Lemma alt_code_cons l t : t <> [] ->
  alt_code (l :: t) = Case (N.of_nat (length l + 1)) :: l ++ Break (N.of_nat (length (alt_code t))) :: alt_code t.
Proof. destruct t; [contradiction|reflexivity]. Qed.
Lemma alt_ok_cons l t : t <> [] ->
  alt_ok (l :: t) -> (length l + 1 < 256)%nat /\ (length (alt_code t) < 256)%nat /\ alt_ok t.
Proof. destruct t; [contradiction|]. intros _ H. exact H. Qed.
Lemma snoc_nonempty {A} (t : list A) x : t ++ [x] <> [].
Proof. destruct t; discriminate. Qed.
Lemma alt_code_length ls l : length (alt_code (ls ++ [l])) = (length (partial ls) + 1 + length l)%nat.
Proof.
  induction ls as [|x t IH]; cbn [app partial]; [reflexivity|].
  rewrite alt_code_cons by apply snoc_nonempty. cbn [length]. rewrite !app_length. cbn [length]. rewrite IH. lia.
Qed.
Lemma alt_ok_mid A : forall l l' t, alt_ok (A ++ l :: l' :: t) -> (length l + 1 < 256)%nat.
Proof.
  induction A as [|a A IH]; intros l l' t H.
  - exact (proj1 H).
  - change ((a :: A) ++ l :: l' :: t) with (a :: (A ++ l :: l' :: t)) in H.
    apply alt_ok_cons in H; [|destruct A; discriminate]. exact (IH _ _ _ (proj2 (proj2 H))).
Qed.

Lemma upd_app_mid {A} (P : list A) a R x : upd (P ++ a :: R) (length P) x = P ++ x :: R.
Proof. induction P as [|h t IH]; cbn [app length upd]; [reflexivity|]. rewrite IH. reflexivity. Qed.

Ltac lens := repeat (progress (rewrite ?app_length; cbn [length])).

Definition fill_fold (total : nat) (brks : list nat) (acc : paterr + list atom) : paterr + list atom :=
  fold_left (fun acc brk =>
    match acc with
    | inl e => inl e
    | inr r => let off := (total - brk - 1)%nat in
               if Nat.leb 256 off then inl SubOverflow else inr (upd r brk (Break (N.of_nat off)))
    end) brks acc.

Lemma fill_fold_ok ll : forall ls P total, total = length (P ++ partial ls ++ Nop :: ll) -> alt_ok (ls ++ [ll]) ->
  fill_fold total (brk_pos (length P) ls) (inr (P ++ partial ls ++ Nop :: ll)) = inr (P ++ alt_code (ls ++ [ll])).
Proof.
  induction ls as [|l t IH]; intros P total Ht Hok; [reflexivity|].
  change ((l :: t) ++ [ll]) with (l :: (t ++ [ll])) in *.
  apply alt_ok_cons in Hok; [|apply snoc_nonempty]. destruct Hok as [H1 [H2 H3]].
  rewrite alt_code_cons by apply snoc_nonempty.
  cbn [brk_pos partial fill_fold fold_left].
  set (k := Case (N.of_nat (length l + 1))) in *.
  assert (Hoff : (total - (length P + 1 + length l) - 1)%nat = length (alt_code (t ++ [ll]))).
  { rewrite Ht, alt_code_length. cbn [partial]. lens. lia. }
  rewrite Hoff. destruct (Nat.leb 256 (length (alt_code (t ++ [ll])))) eqn:E; [apply Nat.leb_le in E; lia|].
  replace (P ++ (k :: l ++ Break 0 :: partial t) ++ Nop :: ll) with ((P ++ k :: l) ++ Break 0 :: partial t ++ Nop :: ll)
    by (rewrite <- !app_assoc; cbn [app]; rewrite <- app_assoc; reflexivity).
  replace (length P + 1 + length l)%nat with (length (P ++ k :: l)) by (rewrite app_length; cbn [length]; lia).
  rewrite upd_app_mid.
  set (bk := Break (N.of_nat (length (alt_code (t ++ [ll]))))).
  replace ((P ++ k :: l) ++ bk :: partial t ++ Nop :: ll) with (((P ++ k :: l) ++ [bk]) ++ partial t ++ Nop :: ll)
    by (rewrite <- !app_assoc; reflexivity).
  replace (length P + length l + 2)%nat with (length ((P ++ k :: l) ++ [bk])) by (lens; lia).
  match goal with |- fold_left _ ?b ?a = _ => change (fill_fold total b a = inr (P ++ k :: l ++ bk :: alt_code (t ++ [ll]))) end.
  rewrite IH; [|rewrite Ht; subst k bk; cbn [partial]; lens; lia|exact H3].
  rewrite <- !app_assoc. reflexivity.
Qed.

Lemma bar_le c bar : bar_ok c bar -> (bar <= length (c_res c))%nat.
Proof. unfold bar_ok. destruct (c_closed c); lia. Qed.

Section Alt.
  Variables (P0 : list atom) (s0 : N) (dep : N) (sbs : list sub).
  Let fresh : cst := {| c_res := []; c_save := s0; c_closed := false |}.
  Definition ctx (prev : list cst) : list atom := P0 ++ partial (map c_res prev) ++ [Case 0].
  Definition mksub (prev : list cst) : sub :=
    {| sb_case := (length P0 + length (partial (map c_res prev)))%nat; sb_brks := brk_pos (length P0) (map c_res prev);
       sb_save := s0; sb_save_next := maxl (map c_save prev); sb_depth := dep |}.
  (* inside the group: [prev] are the alternatives already closed by a pipe, [cur] is the current one *)
  Definition G (prev : list cst) (cur : cst) (bar : nat) : pstate := mkst (pre (ctx prev) cur) bar dep (mksub prev :: sbs).

  Lemma alt_pipe prev cur bar : bar_ok (pre (ctx prev) cur) bar -> (length (c_res cur) + 1 < 256)%nat ->
    bar_ok (pre (ctx (prev ++ [cur])) fresh) bar /\ steps (G prev cur bar) [124] (G (prev ++ [cur]) fresh bar).
  Proof.
    intros Hb Hl. split.
    - apply bar_le in Hb. apply bar_ok_lt; [reflexivity|]. unfold pre, ctx in *. cbn [c_closed c_res fresh] in *.
      rewrite map_app. cbn [map]. rewrite partial_snoc. revert Hb. lens. intros Hb. lia.
    - apply (steps_one _ 124 [] _ true). intros rest pos. cbn [app].
      rewrite (pstep_pipe _ (mksub prev) sbs) by reflexivity.  (* the alternative is balanced: depth = depth at '(' *)
      unfold G, mkst, set_pos, pre, mksub. cbn [p_res p_save p_depth p_subs p_barrier p_pos c_res c_save c_closed sb_case sb_brks sb_save sb_save_next sb_depth fresh].
      set (Ls := map c_res prev). set (Lc := c_res cur).
      assert (Eoff : (length ((ctx prev ++ Lc) ++ [Break 0]) - (length P0 + length (partial Ls)) - 1)%nat = (length Lc + 1)%nat).
      { unfold ctx. fold Ls. lens. lia. }
      rewrite Eoff. destruct (Nat.leb 256 (length Lc + 1)) eqn:E; [apply Nat.leb_le in E; unfold Lc in E; lia|].
      assert (Eupd : upd ((ctx prev ++ Lc) ++ [Break 0]) (length P0 + length (partial Ls)) (Case (N.of_nat (length Lc + 1)))
                     = P0 ++ partial (map c_res (prev ++ [cur]))).
      { unfold ctx. rewrite map_app. cbn [map]. rewrite partial_snoc. fold Ls. fold Lc.
        replace ((P0 ++ partial Ls ++ [Case 0]) ++ Lc) with ((P0 ++ partial Ls) ++ Case 0 :: Lc) by (rewrite <- !app_assoc; reflexivity).
        rewrite <- app_assoc. cbn [app].
        replace (length P0 + length (partial Ls))%nat with (length (P0 ++ partial Ls)) by (rewrite app_length; reflexivity).
        rewrite upd_app_mid, <- app_assoc. reflexivity. }
      rewrite Eupd. do 3 f_equal. f_equal.
      + unfold ctx. rewrite app_nil_r, <- app_assoc. reflexivity.
      + f_equal. f_equal.
        * rewrite app_length. reflexivity.
        * rewrite map_app. cbn [map]. rewrite brk_pos_snoc. fold Ls. fold Lc. f_equal. f_equal. unfold ctx. fold Ls. lens. lia.
        * rewrite map_app. cbn [map]. rewrite maxl_snoc. reflexivity.
  Qed.

  Definition closed_cst (all : list cst) : cst :=
    {| c_res := P0 ++ alt_code (map c_res all); c_save := maxl (map c_save all); c_closed := true |}.

  Lemma alt_close prev cur bar : alt_ok (map c_res (prev ++ [cur])) ->
    steps (G prev cur bar) [41] (mkst (closed_cst (prev ++ [cur])) (length (P0 ++ alt_code (map c_res (prev ++ [cur])))) dep sbs).
  Proof.
    intros Hok. apply (steps_one _ 41 [] _ true). intros rest pos. cbn [app].
    rewrite (pstep_rparen _ (mksub prev) sbs) by reflexivity.
    unfold G, mkst, set_pos, pre, mksub, closed_cst. cbn [p_res p_save p_depth p_subs p_barrier p_pos c_res c_save c_closed sb_case sb_brks sb_save sb_save_next sb_depth].
    set (Ls := map c_res prev). set (Lc := c_res cur).
    assert (Eupd : upd (ctx prev ++ Lc) (length P0 + length (partial Ls)) Nop = P0 ++ partial Ls ++ Nop :: Lc).
    { unfold ctx. fold Ls.
      replace ((P0 ++ partial Ls ++ [Case 0]) ++ Lc) with ((P0 ++ partial Ls) ++ Case 0 :: Lc) by (rewrite <- !app_assoc; reflexivity).
      replace (length P0 + length (partial Ls))%nat with (length (P0 ++ partial Ls)) by (rewrite app_length; reflexivity).
      rewrite upd_app_mid, <- app_assoc. reflexivity. }
    rewrite Eupd. unfold fill_breaks.
    match goal with |- context [fold_left ?f ?b ?a] => change (fold_left f b a) with (fill_fold (length (P0 ++ partial Ls ++ Nop :: Lc)) b a) end.
    rewrite map_app in Hok |- *. cbn [map] in Hok |- *. fold Ls Lc in Hok |- *.
    rewrite fill_fold_ok; [|reflexivity|exact Hok].
    rewrite map_app. cbn [map]. rewrite maxl_snoc. reflexivity.
  Qed.

  Definition compf (alt : list item) : cst := comp_seq alt fresh.
  (* what the induction over the items provides for the remaining alternatives *)
  Definition seq_ok (alt : list item) : Prop :=
    forall P c, guard P c -> wf_seq alt c -> reaches (pre P c) (show_seq alt) (pre P (comp_seq alt c)).

  Lemma alt_more : forall more prev cur bar, bar_ok (pre (ctx prev) cur) bar ->
    Forall seq_ok more -> Forall (fun alt => wf_seq alt fresh) more ->
    alt_ok (map c_res (prev ++ cur :: map compf more)) ->
    exists bar', bar_ok (closed_cst (prev ++ cur :: map compf more)) bar' /\
      steps (G prev cur bar) (flat_map (fun alt => 124 :: 32 :: show_seq alt) more ++ [41])
            (mkst (closed_cst (prev ++ cur :: map compf more)) bar' dep sbs).
  Proof.
    induction more as [|alt more IH]; intros prev cur bar Hb Hseq Hwf Hok.
    - cbn [map flat_map app]. eexists. split; [|apply alt_close; exact Hok]. reflexivity.
    - cbn [map flat_map] in *. inversion Hseq as [|? ? Hs1 Hs2]; subst. inversion Hwf as [|? ? Hw1 Hw2]; subst.
      assert (Hl : (length (c_res cur) + 1 < 256)%nat).
      { rewrite map_app in Hok. cbn [map] in Hok. exact (alt_ok_mid _ _ _ _ Hok). }
      destruct (alt_pipe prev cur bar Hb Hl) as [Hb1 S1].
      assert (Gd : guard (ctx (prev ++ [cur])) fresh).
      { intros _ _ k. unfold ctx. rewrite app_assoc, last_atom_snoc. discriminate. }
      destruct (Hs1 (ctx (prev ++ [cur])) fresh Gd Hw1 dep (mksub (prev ++ [cur]) :: sbs) bar (N.le_refl dep) Hb1) as [bar2 [Hb2 S2]].
      destruct (IH (prev ++ [cur]) (compf alt) bar2 Hb2 Hs2 Hw2) as [bar3 [Hb3 S3]].
      { rewrite <- app_assoc. exact Hok. }
      exists bar3. rewrite <- app_assoc in Hb3, S3. cbn [app] in Hb3, S3. split; [exact Hb3|].
      change ((124 :: 32 :: show_seq alt) ++ flat_map (fun alt0 => 124 :: 32 :: show_seq alt0) more)
        with ([124] ++ [32] ++ show_seq alt ++ flat_map (fun alt0 => 124 :: 32 :: show_seq alt0) more).
      rewrite <- !app_assoc.
      eapply steps_app; [exact S1|]. eapply steps_app; [apply steps_space|]. eapply steps_app; [exact S2|exact S3].
  Qed.
End Alt.

(* ---------------------------------------------------------------- every item, by nested induction *)
Definition item_ok (it : item) : Prop :=
  forall P c, guard P c -> wf_item it c -> reaches (pre P c) (show_item it) (pre P (comp_item it c)).

Lemma seq_from_items l : Forall item_ok l -> seq_ok l.
Proof.
  induction l as [|x t IH]; intros HF P c G Hw.
  - apply reaches_nil.
  - inversion HF as [|? ? Hx Ht]; subst. cbn [wf_seq] in Hw. destruct Hw as [Wx Wt].
    change (show_seq (x :: t)) with ((show_item x ++ [32]) ++ show_seq t).
    change (comp_seq (x :: t) c) with (comp_seq t (comp_item x c)).
    eapply reaches_app; [eapply reaches_app; [apply (Hx P c G Wx)|apply reaches_space]|].
    apply (IH Ht). { apply guard_comp_item. exact G. } exact Wt.
Qed.

Lemma steps_open c j bar dep sbs : (bar <= length (c_res c))%nat ->
  steps (mkst (emit c [jatom j]) bar dep sbs) [123] (mkst (emit c [Push (jpush j); jatom j]) (length (c_res c) + 2) (dep + 1) sbs).
Proof.
  intros Hb. apply (steps_one _ 123 [] _ true). intros rest pos. cbn [app].
  rewrite (pstep_open _ (c_res c) j); [|reflexivity|cbn [set_pos mkst emit p_barrier p_res c_res]; rewrite app_length; cbn [length]; lia].
  unfold set_pos, mkst, emit. cbn [p_res p_save p_depth p_subs p_pos p_barrier c_res c_save c_closed].
  rewrite app_length. reflexivity.
Qed.
Lemma steps_close c bar dep sbs : floor_ok dep sbs -> steps (mkst c bar (dep + 1) sbs) [125] (mkst (emit c [Pop]) bar dep sbs).
Proof.
  intros Hfl. apply (steps_one _ 125 [] _ true). intros rest pos. cbn [app].
  rewrite pstep_close by (cbn [set_pos mkst p_depth p_subs]; unfold floor_of; unfold floor_ok in Hfl; destruct sbs; lia).
  unfold set_pos, mkst, emit. cbn [p_res p_save p_depth p_subs p_pos p_barrier c_res c_save c_closed].
  replace (dep + 1 - 1) with dep by lia. reflexivity.
Qed.

Lemma wf_alts_forall s more :
  (fix gos (ls : list (list item)) : Prop :=
     match ls with [] => True | alt :: t => wf_seq alt {| c_res := []; c_save := s; c_closed := false |} /\ gos t end) more ->
  Forall (fun alt => wf_seq alt {| c_res := []; c_save := s; c_closed := false |}) more.
Proof. induction more as [|alt t IH]; intros H; constructor; [exact (proj1 H)|exact (IH (proj2 H))]. Qed.

Lemma steps_lparen P c bar dep sbs : bar_ok (pre P c) bar ->
  let fresh := {| c_res := []; c_save := c_save c; c_closed := false |} in
  bar_ok (pre (ctx (P ++ c_res c) []) fresh) bar /\
  steps (mkst (pre P c) bar dep sbs) [40] (G (P ++ c_res c) (c_save c) dep sbs [] fresh bar).
Proof.
  intros Hb fresh. split.
  - apply bar_le in Hb. apply bar_ok_lt; [reflexivity|]. unfold pre, ctx in *. cbn [c_closed c_res fresh map partial app] in *. revert Hb. lens. lia.
  - apply (steps_one _ 40 [] _ true). intros rest pos. cbn [app]. rewrite pstep_lparen.
    unfold G, mkst, set_pos, pre, mksub, ctx. cbn [p_res p_save p_depth p_subs p_pos p_barrier c_res c_save c_closed fresh map partial brk_pos app length].
    rewrite app_nil_r, Nat.add_0_r. reflexivity.
Qed.

Lemma reaches_item_gen : forall it, item_ok it.
Proof.
  fix IH 1. intros it P c G Hw. destruct it; cbn [show_item comp_item]; cbn [wf_item] in Hw.
  - rewrite pre_emit. apply reaches_byte. exact Hw.
  - rewrite pre_emit. apply reaches_str. exact Hw.
  - rewrite pre_wild by exact G. apply reaches_wild.
  - rewrite pre_emit. apply reaches_skip. exact Hw.
  - rewrite pre_emit. apply reaches_range; [exact (proj1 Hw)|exact (proj2 Hw)].
  - rewrite pre_emit_slot. apply reaches_save. exact Hw.
  - rewrite pre_emit_slot. apply reaches_read. exact Hw.
  - rewrite pre_emit_slot. apply reaches_zero. exact Hw.
  - rewrite pre_emit. apply reaches_align. exact Hw.
  - rewrite pre_emit. apply reaches_jump.
  - (* j { sub } *)
    assert (Hs : seq_ok sub). { apply seq_from_items. clear - IH. induction sub as [|x t IHt]; [constructor|constructor; [apply IH|exact IHt]]. }
    change (fold_left (fun c0 x => comp_item x c0) sub (emit c [Push (jpush j); jatom j])) with (comp_seq sub (emit c [Push (jpush j); jatom j])).
    change (flat_map (fun x => show_item x ++ [32]) sub) with (show_seq sub).
    set (c1 := emit c [Push (jpush j); jatom j]) in *.
    assert (G1 : guard P c1). { apply guard_nonempty. unfold c1. cbn [emit c_res]. intros E. apply app_eq_nil in E. destruct E; discriminate. }
    intros dep sbs bar Hfl Hbar.
    pose proof (bar_le _ _ Hbar) as Hble.
    destruct (Hs P c1 G1 Hw (dep + 1) sbs (length (c_res (pre P c)) + 2)%nat (floor_ok_succ _ _ Hfl)) as [bar2 [Hb2 S2]].
    { unfold c1. rewrite pre_emit. unfold bar_ok, emit. cbn [c_closed c_res]. rewrite app_length. cbn [length].
      split; [lia|]. intros _ k.
      change (c_res (pre P c) ++ [Push (jpush j); jatom j]) with (c_res (pre P c) ++ [Push (jpush j)] ++ [jatom j]).
      rewrite app_assoc, last_atom_snoc. destruct j; discriminate. }
    exists bar2. split; [rewrite pre_emit; apply bar_ok_emit; exact Hb2|].
    change (jchar j :: 32 :: 123 :: 32 :: show_seq sub ++ [125]) with ([jchar j] ++ [32] ++ [123] ++ [32] ++ show_seq sub ++ [125]).
    eapply steps_app; [apply (steps_one _ (jchar j) [] (mkst (emit (pre P c) [jatom j]) bar dep sbs) true); intros rest pos; destruct j; reflexivity|].
    eapply steps_app; [apply steps_space|]. eapply steps_app; [apply steps_open; exact Hble|]. eapply steps_app; [apply steps_space|].
    unfold c1 in S2. rewrite pre_emit in S2. eapply steps_app; [exact S2|].
    rewrite pre_emit. apply steps_close. exact Hfl.
  - (* ( a | more ) *)
    assert (Hsa : seq_ok a). { apply seq_from_items. clear - IH. induction a as [|x t IHt]; [constructor|constructor; [apply IH|exact IHt]]. }
    assert (Hsm : Forall seq_ok more).
    { clear - IH. induction more as [|alt t IHt]; [constructor|constructor; [|exact IHt]].
      apply seq_from_items. induction alt as [|x t' IHt']; [constructor|constructor; [apply IH|exact IHt']]. }
    destruct Hw as [Wa [Wm Wok]]. apply wf_alts_forall in Wm.
    set (fresh := {| c_res := []; c_save := c_save c; c_closed := false |}) in *.
    set (P0 := P ++ c_res c).
    assert (Efin : pre P (comp_item (IAlt a more) c) = closed_cst P0 ([] ++ compf (c_save c) a :: map (compf (c_save c)) more)).
    { unfold pre, closed_cst, P0. cbn [comp_item c_res c_save c_closed app]. rewrite app_assoc. reflexivity. }
    change (flat_map (fun x => show_item x ++ [32]) a) with (show_seq a).
    change (flat_map (fun alt => 124 :: 32 :: flat_map (fun x => show_item x ++ [32]) alt) more) with (flat_map (fun alt => 124 :: 32 :: show_seq alt) more).
    match goal with |- reaches _ _ ?tgt => change tgt with (pre P (comp_item (IAlt a more) c)) end. rewrite Efin.
    intros dep sbs bar Hfl Hbar.
    destruct (steps_lparen P c bar dep sbs Hbar) as [Hb1 S1]. fold fresh in Hb1, S1. fold P0 in Hb1, S1.
    assert (Gd : guard (ctx P0 []) fresh). { intros _ _ k. unfold ctx. rewrite app_assoc, last_atom_snoc. discriminate. }
    destruct (Hsa (ctx P0 []) fresh Gd Wa dep (mksub P0 (c_save c) dep [] :: sbs) bar (N.le_refl dep) Hb1) as [bar2 [Hb2 S2]].
    destruct (alt_more P0 (c_save c) dep sbs more [] (compf (c_save c) a) bar2 Hb2 Hsm Wm Wok) as [bar3 [Hb3 S3]].
    exists bar3. split; [exact Hb3|].
    change (40 :: 32 :: show_seq a ++ flat_map (fun alt => 124 :: 32 :: show_seq alt) more ++ [41])
      with ([40] ++ [32] ++ show_seq a ++ flat_map (fun alt => 124 :: 32 :: show_seq alt) more ++ [41]).
    eapply steps_app; [exact S1|]. eapply steps_app; [apply steps_space|]. eapply steps_app; [exact S2|exact S3].
Qed.

Lemma guard_nil c : guard [] c.
Proof. intros _ _ k. discriminate. Qed.

Lemma reaches_show l : forall c, wf_seq l c -> reaches (pre [] c) (show l) (pre [] (comp_seq l c)).
Proof.
  induction l as [|x t IH]; intros c Hw; [apply reaches_nil|].
  cbn [wf_seq] in Hw. destruct Hw as [Wx Wt].
  change (comp_seq (x :: t) c) with (comp_seq t (comp_item x c)).
  cbn [show]. destruct t as [|y t'].
  - apply reaches_item_gen; [apply guard_nil|exact Wx].
  - eapply reaches_app; [apply reaches_item_gen; [apply guard_nil|exact Wx]|].
    change (32 :: show (y :: t')) with ([32] ++ show (y :: t')).
    eapply reaches_app; [apply reaches_space|]. apply IH. exact Wt.
Qed.

(* C11 theorem 2: the parser inverts the printer of the documented syntax *)
Theorem parse_show_compile a : wf a -> parse (show a) = Ok (inr (compile a)).
Proof.
  intros Hw. destruct (reaches_show a cinit Hw 0 [] 0%nat I) as [bar' [_ S]].
  - apply bar_ok_lt; [reflexivity|cbn [pre cinit c_res length app]; lia].
  - apply (steps_parse _ _ S); reflexivity.
Qed.

(* the documented equivalence "[n] = n question marks" at the level of the compiler: a run of n wildcards after
   anything that is not a skip is one Skip n, for n up to 255 *)
Lemma wild_run n : forall c k, last_atom (c_res c) = Some (Skip k) -> c_closed c = false -> 0 < k -> (N.to_nat k + n <= 255)%nat ->
  c_res (Nat.iter n wild1 c) = set_last (c_res c) (Skip (k + N.of_nat n)).
Proof.
  induction n as [|n IH]; intros c k Hl Hc Hk Hn.
  - cbn [Nat.iter nat_rect]. rewrite N.add_0_r. destruct (last_atom_inv _ _ Hl) as [r ->]. rewrite set_last_snoc. reflexivity.
  - rewrite iter_succ_r. destruct (last_atom_inv _ _ Hl) as [r Er].
    assert (Ew : wild1 c = {| c_res := r ++ [Skip (k + 1)]; c_save := c_save c; c_closed := false |}).
    { unfold wild1. rewrite Hl, Hc. cbn [negb andb]. destruct (negb (k =? 0) && (k <? 255)) eqn:E; [|lia]. rewrite Er, set_last_snoc. reflexivity. }
    rewrite Ew. rewrite (IH _ (k + 1)); cbn [c_res c_closed].
    + rewrite Er, !set_last_snoc. f_equal. f_equal. f_equal. lia.
    + apply last_atom_snoc.
    + reflexivity.
    + lia.
    + lia.
Qed.

Lemma syntax_nonvacuous :
  let a := [IByte 0x83; IAlt [IByte 0x6a; IWild 1] [[IByte 0x68; IWild 4]; [ISub J4 [ISave; IRange 2 300]]]; IWild 2; IByte 0xe8; IRead RI8; IWild 3] in
  wf a /\ compile a = [Save 0; Byte 0x83; Case 3; Byte 0x6a; Skip 1; Break 12; Case 3; Byte 0x68; Skip 4; Break 8; Nop; Push 4; Jump4; Save 1; Skip 2;
                       Rangext 1; Many 42; Pop; Skip 2; Byte 0xe8; ReadI8 2].
Proof. split; [|vm_compute; reflexivity]. vm_compute. repeat split; try lia; repeat constructor. Qed.
