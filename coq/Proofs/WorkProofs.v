(* C03, work bounds: the ghost step counters of Spec/WorkSpec.v observe the models (erasure), and the
   number of steps is bounded by an explicit function of the input and pattern length. *)
From PV.Model Require Import Machine Pattern Exec.
From PV.Spec Require Import WorkSpec.
From PV.Proofs Require Import BaseProofs.

(* ================= 1. Exec::exec ================= *)

Lemma erase_tick r : erase (tick r) = erase r.
Proof. destruct r as [[x n]|e|f]; reflexivity. Qed.

Lemma many_loop_erase run run' peek byte_at :
  (forall i s, erase (run' i s) = run i s) ->
  forall cnt i save last,
    erase (many_loop_steps run' peek byte_at cnt i save last) = many_loop run peek byte_at cnt i save last.
Proof.
  intros Hr. induction cnt as [|cnt IH]; intros i save last; cbn [many_loop many_loop_steps]; [reflexivity|].
  destruct (match peek with Some b => byte_at i =? b | None => true end).
  - rewrite <- (Hr i save). destruct (run' i save) as [[[[[ok pc'] cur'] save'] n]|e|f]; cbn [bind erase]; try reflexivity.
    destruct ok; [reflexivity|]. rewrite <- IH.
    destruct (many_loop_steps run' peek byte_at cnt (i + 1) save' (pc', cur')) as [[y m]|e|f]; reflexivity.
  - rewrite erase_tick. apply IH.
Qed.

Section Erase.
  Variable sc : scan.
  Variable pat : list atom.

  Lemma exec_steps_erase : forall fuel pc cur mask ext save,
    erase (exec_steps sc pat fuel pc cur mask ext save) = exec sc pat fuel pc cur mask ext save.
  Proof.
    induction fuel as [|fuel IH]; intros pc cur mask ext save; [reflexivity|]. cbn [exec exec_steps].
    destruct (nth_error pat pc) as [a|]; [|reflexivity].
    assert (Ht : forall pc' cur' mask' ext' save', erase (tick (exec_steps sc pat fuel pc' cur' mask' ext' save')) =
                   exec sc pat fuel pc' cur' mask' ext' save') by (intros; rewrite erase_tick; apply IH).
    destruct a; try (apply Ht); try reflexivity.
    - destruct (sc_read sc 1 cur); [|reflexivity]. destruct (N.land n mask =? N.land b mask); [|reflexivity].
      unfold chk_add. destruct (cur + 1 <? W32); cbn [bind]; [apply Ht|reflexivity].
    - (* Push *) rewrite <- (IH (S pc) cur 255 0 save).
      destruct (exec_steps sc pat fuel (S pc) cur 255 0 save) as [[[[[ok pc'] cur'] save'] n]|e|f]; cbn [bind erase]; try reflexivity.
      destruct ok; [|reflexivity]. rewrite <- IH.
      destruct (exec_steps sc pat fuel pc' (wadd32 cur (skip_amount sc ext k)) 255 0 save') as [[y m]|e|f]; reflexivity.
    - (* Many *) destruct (sc_slice_len sc cur); [|reflexivity]. rewrite erase_tick. apply many_loop_erase. intros i s. apply IH.
    - destruct (sc_read sc 1 cur); [apply Ht|reflexivity].
    - destruct (sc_read sc 4 cur); [apply Ht|reflexivity].
    - destruct (sc_read sc (sc_va_bytes sc) cur); [|reflexivity]. destruct (sc_pointer sc n); [apply Ht|reflexivity].
    - destruct (sc_read sc 4 cur); [apply Ht|reflexivity].
    - destruct (vtypename sc cur); [apply Ht|reflexivity].
    - destruct (get_slot save s); [|apply Ht]. destruct (n =? cur); [apply Ht|reflexivity].
    - destruct (N.land cur (if k <? 32 then 2 ^ k - 1 else W32 - 1) =? 0); [apply Ht|reflexivity].
    - destruct (sc_read sc 1 cur); [apply Ht|reflexivity].
    - destruct (sc_read sc 1 cur); [apply Ht|reflexivity].
    - destruct (sc_read sc 2 cur); [apply Ht|reflexivity].
    - destruct (sc_read sc 2 cur); [apply Ht|reflexivity].
    - destruct (sc_read sc 4 cur); [apply Ht|reflexivity].
    - destruct (sc_read sc 4 cur); [apply Ht|reflexivity].
    - (* Case *) rewrite <- (IH (S pc) cur 255 0 save).
      destruct (exec_steps sc pat fuel (S pc) cur 255 0 save) as [[[[[ok pc'] cur'] save'] n]|e|f]; cbn [bind erase]; try reflexivity.
      destruct ok; rewrite <- IH.
      + destruct (exec_steps sc pat fuel pc' cur' mask ext save') as [[y m]|e|f]; reflexivity.
      + destruct (exec_steps sc pat fuel (S pc + N.to_nat k) cur mask ext save') as [[y m]|e|f]; reflexivity.
  Qed.

  (* the counter does not change the verdict, the captures or the fuel that is needed *)
  Theorem run_exec_steps_erase cursor save :
    match run_exec_steps sc pat cursor save with
    | Ok (ok, save', _) => run_exec sc pat cursor save = Ok (ok, save')
    | Err e => run_exec sc pat cursor save = Err e
    | Fault f => run_exec sc pat cursor save = Fault f
    end.
  Proof.
    unfold run_exec_steps, run_exec. rewrite <- exec_steps_erase.
    destruct (exec_steps sc pat (S (length pat)) 0 cursor 255 0 save) as [[[[[ok pc'] cur'] save'] n]|e|f]; reflexivity.
  Qed.
End Erase.

(* ---- the static cost as a function of the program counter ---- *)
Fixpoint xat (l : list atom) (pc : nat) (x : N) {struct pc} : N :=
  match pc with O => x | S p => match l with a :: t => xat t p (ext_next a x) | [] => x end end.

Lemma ext_next_ge a x : x <= ext_next a x.
Proof. destruct a; cbn [ext_next]; lia. Qed.

Lemma nth_skipn_xat : forall (l : list atom) pc a x, nth_error l pc = Some a ->
  skipn pc l = a :: skipn (S pc) l /\ xat l (S pc) x = ext_next a (xat l pc x).
Proof.
  induction l as [|b t IH]; intros [|pc] a x H; cbn [nth_error] in H; try discriminate.
  - injection H as ->. split; [reflexivity|]. destruct t; reflexivity.
  - destruct (IH pc a (ext_next b x) H) as [A B]. split.
    + cbn [skipn] in *. exact A.
    + change (xat (b :: t) (S (S pc)) x) with (xat t (S pc) (ext_next b x)).
      change (xat (b :: t) (S pc) x) with (xat t pc (ext_next b x)). exact B.
Qed.

Lemma nth_none_skipn : forall (l : list atom) pc, nth_error l pc = None -> skipn pc l = [].
Proof. intros l pc H. apply skipn_all2. apply nth_error_None. exact H. Qed.

Lemma xat_step_le : forall l pc x, xat l pc x <= xat l (S pc) x.
Proof.
  induction l as [|b t IH]; intros [|pc] x; cbn [xat]; try lia.
  - apply ext_next_ge.
  - apply IH.
Qed.
Lemma xat_mono l x : forall pc pc', (pc <= pc')%nat -> xat l pc x <= xat l pc' x.
Proof.
  intros pc pc' H. induction H as [|m _ IH]; [lia|]. pose proof (xat_step_le l m x). lia.
Qed.

Section Bound.
  Variable sc : scan.
  Variable pat : list atom.
  Variable smax cf : N.
  Hypothesis Hsmax : forall cur l, sc_slice_len sc cur = Some l -> l <= smax.

  (* an invocation started right after a Case atom can only fail inside the block of that Case *)
  Definition sem_nested : Prop := forall pc k, nth_error pat pc = Some (Case k) ->
    forall fuel cur mask ext save p1 c1 s1,
      exec sc pat fuel (S pc) cur mask ext save = Ok (false, p1, c1, s1) -> (p1 <= S pc + N.to_nat k)%nat.
  Hypothesis Hcf : (cf = 1 /\ sem_nested) \/ 2 <= cf.

  Definition X (pc : nat) : N := xat pat pc 0.
  Definition Wc (pc : nat) : N := wcost cf smax (skipn pc pat) (X pc).

  Lemma cf_pos : 1 <= cf.
  Proof. destruct Hcf as [[-> _]|H]; lia. Qed.

  Lemma Wc_step pc a : nth_error pat pc = Some a -> 1 + Wc (S pc) <= Wc pc.
  Proof.
    intros H. unfold Wc, X. destruct (nth_skipn_xat pat pc a 0 H) as [A B]. rewrite A, B. cbn [wcost].
    pose proof cf_pos as Hc.
    destruct a; cbn [ext_next]; try lia.
    all: set (w := wcost cf smax (skipn (S pc) pat) (xat pat pc 0)); nia.
  Qed.
  Lemma Wc_step_le pc : Wc (S pc) <= Wc pc.
  Proof.
    destruct (nth_error pat pc) as [a|] eqn:E; [pose proof (Wc_step pc a E); lia|].
    unfold Wc. rewrite (nth_none_skipn pat pc E).
    assert (E' : nth_error pat (S pc) = None) by (apply nth_error_None; apply nth_error_None in E; lia).
    rewrite (nth_none_skipn pat (S pc) E'). cbn [wcost]. lia.
  Qed.
  Lemma Wc_mono : forall pc pc', (pc <= pc')%nat -> Wc pc' <= Wc pc.
  Proof. intros pc pc' H. induction H as [|m _ IH]; [lia|]. pose proof (Wc_step_le m). lia. Qed.
  Lemma X_mono : forall pc pc', (pc <= pc')%nat -> X pc <= X pc'.
  Proof. intros. apply xat_mono. assumption. Qed.

  (* result predicate: steps spent plus the cost of what is left fit in the cost of where we started *)
  Definition pcx (x : xres) : nat := snd (fst (fst x)).
  Definition fits (pc : nat) (r : res sres) : Prop :=
    forall x n, r = Ok (x, n) -> (pc <= pcx x)%nat /\ n + Wc (pcx x) <= Wc pc.

  Lemma fits_tick pc r : fits (S pc) r -> forall a, nth_error pat pc = Some a -> fits pc (tick r).
  Proof.
    intros H a Ha x n E. destruct r as [[y m]|e|f]; cbn [tick] in E; try discriminate.
    injection E as <- <-. destruct (H y m eq_refl) as [A B]. pose proof (Wc_step pc a Ha). split; lia.
  Qed.

  Lemma many_loop_fits run peek byte_at p1 :
    (forall i s, fits p1 (run i s)) ->
    forall cnt i save last x n,
      (p1 <= fst last)%nat ->
      many_loop_steps run peek byte_at cnt i save last = Ok (x, n) ->
      (p1 <= pcx x)%nat /\ n + Wc (pcx x) <= N.of_nat cnt * (1 + Wc p1) + Wc (fst last).
  Proof.
    intros Hrun. induction cnt as [|cnt IH]; intros i save last x n Hl E; cbn [many_loop_steps] in E.
    - injection E as <- <-. unfold pcx. cbn [fst snd]. split; lia.
    - pose proof (Wc_mono p1 (fst last) Hl) as Hm.
      destruct (match peek with Some b => byte_at i =? b | None => true end).
      + destruct (run i save) as [[[[[ok pc'] cur'] save'] m]|e|f] eqn:Er; cbn [bind] in E; try discriminate.
        destruct (Hrun i save _ _ Er) as [A B]. unfold pcx in A, B. cbn [fst snd] in A, B.
        destruct ok.
        * injection E as <- <-. unfold pcx. cbn [fst snd]. split; [exact A|]. nia.
        * destruct (many_loop_steps run peek byte_at cnt (i + 1) save' (pc', cur')) as [[y m2]|e|f] eqn:E2; cbn [bind] in E; try discriminate.
          injection E as <- <-. cbn [fst snd]. destruct (IH (i + 1) save' (pc', cur') y m2 A E2) as [C D]. cbn [fst] in D. split; [exact C|]. nia.
      + destruct (many_loop_steps run peek byte_at cnt (i + 1) save last) as [[y m2]|e|f] eqn:E2; cbn [tick] in E; try discriminate.
        injection E as <- <-. destruct (IH _ _ _ _ _ Hl E2) as [C D]. split; [exact C|]. nia.
  Qed.

  Lemma many_factor_ok cur slen ext lim pc : sc_slice_len sc cur = Some slen -> ext <= X pc ->
    (if ext + lim =? 0 then slen else N.min (ext + lim) slen) <= many_factor smax (X pc) lim.
  Proof.
    intros Hs He. pose proof (Hsmax _ _ Hs). unfold many_factor.
    destruct (ext + lim =? 0) eqn:E1; destruct (lim =? 0) eqn:E2; lia.
  Qed.

  Lemma exec_steps_fits : forall fuel pc cur mask ext save, ext <= X pc ->
    fits pc (exec_steps sc pat fuel pc cur mask ext save).
  Proof.
    induction fuel as [|fuel IH]; intros pc cur mask ext save Hx; [intros x n E; discriminate|]. cbn [exec_steps].
    destruct (nth_error pat pc) as [a|] eqn:Ea.
    2: { intros x n E. injection E as <- <-. unfold pcx. cbn [fst snd]. split; lia. }
    pose proof (Wc_step pc a Ea) as Hstep. pose proof (X_mono pc (S pc) ltac:(lia)) as HX.
    assert (Hcont : forall cur' mask' ext' save', ext' <= X (S pc) ->
              fits pc (tick (exec_steps sc pat fuel (S pc) cur' mask' ext' save'))).
    { intros. eapply fits_tick; [apply IH; assumption|exact Ea]. }
    assert (Hfail : fits pc (Ok ((false, S pc, cur, save), 1))).
    { intros x n E. injection E as <- <-. unfold pcx. cbn [fst snd]. split; lia. }
    destruct a.
    - (* Byte *) destruct (sc_read sc 1 cur); [|exact Hfail]. destruct (N.land n mask =? N.land b mask); [|exact Hfail].
      unfold chk_add. destruct (cur + 1 <? W32); cbn [bind]; [apply Hcont; lia|intros x m E; discriminate].
    - apply Hcont; lia.
    - (* Push *) intros x n E.
      destruct (exec_steps sc pat fuel (S pc) cur 255 0 save) as [[[[[ok pc'] cur'] save'] n1]|e|f] eqn:E1; cbn [bind] in E; try discriminate.
      destruct (IH (S pc) cur 255 0 save ltac:(lia) _ _ E1) as [A B]. unfold pcx in A, B. cbn [fst snd] in A, B.
      destruct ok.
      + destruct (exec_steps sc pat fuel pc' (wadd32 cur (skip_amount sc ext k)) 255 0 save') as [[y n2]|e|f] eqn:E2; cbn [bind] in E; try discriminate.
        injection E as <- <-. cbn [fst snd]. destruct (IH pc' (wadd32 cur (skip_amount sc ext k)) 255 0 save' ltac:(lia) _ _ E2) as [C D]. split; lia.
      + injection E as <- <-. unfold pcx. cbn [fst snd]. split; lia.
    - (* Pop *) intros x n E. injection E as <- <-. unfold pcx. cbn [fst snd]. split; lia.
    - apply Hcont; lia.
    - apply Hcont; lia.
    - apply Hcont; lia.
    - (* Rangext *) apply Hcont. unfold X. destruct (nth_skipn_xat pat pc _ 0 Ea) as [_ ->]. cbn [ext_next]. lia.
    - (* Many *) destruct (sc_slice_len sc cur) as [slen|] eqn:Es; [|exact Hfail].
      intros x n E.
      destruct (many_loop_steps (fun i s => exec_steps sc pat fuel (S pc) (wadd32 cur i) 255 0 s) (peek_byte (skipn (S pc) pat))
                  (sc_slice_byte sc cur) (N.to_nat (if ext + k =? 0 then slen else N.min (ext + k) slen)) 0 save (S pc, cur))
        as [[y m]|e|f] eqn:E2; cbn [tick] in E; try discriminate.
      injection E as <- <-.
      assert (Hrun : forall i s, fits (S pc) ((fun i s => exec_steps sc pat fuel (S pc) (wadd32 cur i) 255 0 s) i s)).
      { intros i s. apply IH. lia. }
      destruct (many_loop_fits _ (peek_byte (skipn (S pc) pat)) (sc_slice_byte sc cur) (S pc) Hrun _ 0 save (S pc, cur) y m (le_n _) E2) as [C D].
      cbn [fst] in D. split; [lia|].
      pose proof (many_factor_ok cur slen ext k pc Es Hx) as Hf.
      assert (HW : Wc pc = (many_factor smax (X pc) k + 1) * (1 + Wc (S pc))).
      { unfold Wc, X. destruct (nth_skipn_xat pat pc _ 0 Ea) as [-> ->]. reflexivity. }
      rewrite HW. rewrite N2Nat.id in D. nia.
    - destruct (sc_read sc 1 cur); [apply Hcont; lia|exact Hfail].
    - destruct (sc_read sc 4 cur); [apply Hcont; lia|exact Hfail].
    - destruct (sc_read sc (sc_va_bytes sc) cur); [|exact Hfail]. destruct (sc_pointer sc n); [apply Hcont; lia|exact Hfail].
    - destruct (sc_read sc 4 cur); [apply Hcont; lia|exact Hfail].
    - destruct (vtypename sc cur); [apply Hcont; lia|exact Hfail].
    - destruct (get_slot save s); [|apply Hcont; lia]. destruct (n =? cur); [apply Hcont; lia|exact Hfail].
    - destruct (N.land cur (if k <? 32 then 2 ^ k - 1 else W32 - 1) =? 0); [apply Hcont; lia|exact Hfail].
    - destruct (sc_read sc 1 cur); [apply Hcont; lia|exact Hfail].
    - destruct (sc_read sc 1 cur); [apply Hcont; lia|exact Hfail].
    - destruct (sc_read sc 2 cur); [apply Hcont; lia|exact Hfail].
    - destruct (sc_read sc 2 cur); [apply Hcont; lia|exact Hfail].
    - destruct (sc_read sc 4 cur); [apply Hcont; lia|exact Hfail].
    - destruct (sc_read sc 4 cur); [apply Hcont; lia|exact Hfail].
    - apply Hcont; lia.
    - (* Case *) intros x n E.
      destruct (exec_steps sc pat fuel (S pc) cur 255 0 save) as [[[[[ok pc'] cur'] save'] n1]|e|f] eqn:E1; cbn [bind] in E; try discriminate.
      destruct (IH (S pc) cur 255 0 save ltac:(lia) _ _ E1) as [A B]. unfold pcx in A, B. cbn [fst snd] in A, B.
      assert (HW : Wc pc = 1 + cf * Wc (S pc)).
      { unfold Wc, X. destruct (nth_skipn_xat pat pc _ 0 Ea) as [-> ->]. reflexivity. }
      pose proof cf_pos as Hc.
      destruct ok.
      + destruct (exec_steps sc pat fuel pc' cur' mask ext save') as [[y n2]|e|f] eqn:E2; cbn [bind] in E; try discriminate.
        injection E as <- <-. cbn [fst snd].
        pose proof (X_mono pc pc' ltac:(lia)) as HX'.
        destruct (IH pc' cur' mask ext save' ltac:(lia) _ _ E2) as [C D]. split; [lia|]. nia.
      + destruct (exec_steps sc pat fuel (S pc + N.to_nat k) cur mask ext save') as [[y n2]|e|f] eqn:E2; cbn [bind] in E; try discriminate.
        injection E as <- <-. cbn [fst snd].
        pose proof (X_mono pc (S pc + N.to_nat k) ltac:(lia)) as HX'.
        destruct (IH (S pc + N.to_nat k)%nat cur mask ext save' ltac:(lia) _ _ E2) as [C D]. split; [lia|].
        pose proof (Wc_mono (S pc) (S pc + N.to_nat k) ltac:(lia)) as Hq.
        pose proof Hcf as Hcf'. destruct Hcf' as [[Hc1 Hn]|H2].
        * rewrite Hc1 in HW. assert (Hp : (pc' <= S pc + N.to_nat k)%nat).
          { eapply (Hn pc k Ea fuel cur 255 0 save pc' cur' save'). rewrite <- exec_steps_erase. rewrite E1. reflexivity. }
          pose proof (Wc_mono pc' (S pc + N.to_nat k) Hp) as H.
          revert B HW D H. generalize (Wc (S pc + N.to_nat k)) (Wc pc') (Wc (S pc)) (Wc (pcx y)) (Wc pc). intros; lia.
        * assert (H2w : 2 * Wc (S pc) <= cf * Wc (S pc)) by (apply N.mul_le_mono_r; exact H2).
          revert B HW D Hq H2w. generalize (Wc (S pc + N.to_nat k)) (Wc pc') (cf * Wc (S pc)) (Wc (S pc)) (Wc (pcx y)) (Wc pc). intros; lia.
    - (* Break *) intros x n E. injection E as <- <-. unfold pcx. cbn [fst snd]. split; [lia|].
      pose proof (Wc_mono (S pc) (S (pc + N.to_nat k)) ltac:(lia)) as H.
      revert H Hstep. generalize (Wc (S (pc + N.to_nat k))) (Wc (S pc)) (Wc pc). intros; lia.
    - apply Hcont; lia.
  Qed.

  (* Scanner::exec: the total number of atoms executed and retry iterations, over all nested invocations *)
  Theorem run_exec_steps_bound cursor save ok save' n :
    run_exec_steps sc pat cursor save = Ok (ok, save', n) -> n <= wcost cf smax pat 0.
  Proof.
    unfold run_exec_steps. intros E.
    destruct (exec_steps sc pat (S (length pat)) 0 cursor 255 0 save) as [[[[[ok1 pc'] cur'] save1] n1]|e|f] eqn:E1; cbn [bind] in E; try discriminate.
    injection E as _ _ <-.
    destruct (exec_steps_fits _ 0%nat cursor 255 0 save ltac:(unfold X; cbn; lia) _ _ E1) as [_ B].
    assert (HW0 : Wc 0 = wcost cf smax pat 0). { reflexivity. } lia.
  Qed.
End Bound.

(* ---- closed form: |pat| times one factor (limit_i + 1) per Many atom (and cf per Case atom) ---- *)
Lemma wprod_pos cf smax : 1 <= cf -> forall l x, 1 <= wprod cf smax l x.
Proof.
  intros Hc. induction l as [|a t IH]; intros x; cbn [wprod]; [lia|].
  destruct a; try apply IH.
  - specialize (IH x). nia.
  - specialize (IH x). nia.
Qed.

Lemma wcost_closed cf smax : 1 <= cf -> forall l x, wcost cf smax l x <= lenN l * wprod cf smax l x.
Proof.
  intros Hc. induction l as [|a t IH]; intros x; [cbn; lia|].
  rewrite lenN_cons.
  assert (Hplain : forall y, 1 + wcost cf smax t y <= (1 + lenN t) * wprod cf smax t y).
  { intros y. specialize (IH y). pose proof (wprod_pos cf smax Hc t y). nia. }
  destruct a; cbn [wcost wprod]; try apply Hplain.
  - (* Many *) specialize (Hplain x). match goal with |- context [many_factor ?a ?b ?c] => set (f := many_factor a b c) in * end.
    set (w := wcost cf smax t x) in *. set (p := wprod cf smax t x) in *. nia.
  - (* Case *) specialize (IH x). pose proof (wprod_pos cf smax Hc t x).
    set (w := wcost cf smax t x) in *. set (p := wprod cf smax t x) in *. nia.
Qed.

Definition no_many (l : list atom) : bool := forallb (fun a => match a with Many _ => false | _ => true end) l.
Lemma wprod_no_many smax : forall l x, no_many l = true -> wprod 1 smax l x = 1.
Proof.
  induction l as [|a t IH]; intros x H; [reflexivity|]. cbn [no_many forallb] in H. apply andb_prop in H. destruct H as [Ha Ht].
  destruct a; cbn [wprod]; try (apply IH; exact Ht); try discriminate.
  rewrite (IH x Ht). lia.
Qed.

(* every factor is at most the longest slice + 1, whatever the operands *)
Lemma many_factor_le smax x lim : many_factor smax x lim <= smax.
Proof. unfold many_factor. destruct (lim =? 0); lia. Qed.

(* ---- the static nesting check is sound ---- *)
Section NestSound.
  Variable sc : scan.
  Variable pat : list atom.
  Variable q : nat.

  Definition npost (d : nat) (r : res xres) : Prop :=
    forall ok p' c' s', r = Ok (ok, p', c', s') ->
      (ok = false -> (p' <= q)%nat) /\
      (ok = true -> match d with O => True | S d' => exists fn, nest pat q fn p' d' = true end).

  Lemma many_loop_npost run peek byte_at d :
    (forall i s, npost d (run i s)) ->
    forall cnt i save last, (fst last <= q)%nat -> npost d (many_loop run peek byte_at cnt i save last).
  Proof.
    intros Hrun. induction cnt as [|cnt IH]; intros i save last Hl; cbn [many_loop].
    - intros ok p' c' s' E. injection E as <- <- <- <-. split; [intros _; exact Hl|discriminate].
    - destruct (match peek with Some b => byte_at i =? b | None => true end); [|apply IH; exact Hl].
      destruct (run i save) as [[[[ok pc'] cur'] save']|e|f] eqn:Er; cbn [bind]; try (intros ? ? ? ? E; discriminate).
      destruct ok.
      + intros ok p' c' s' E. injection E as <- <- <- <-. exact (Hrun i save _ _ _ _ Er).
      + apply IH. cbn [fst]. destruct (Hrun i save _ _ _ _ Er) as [A _]. apply A. reflexivity.
  Qed.

  Lemma nest_sound : forall fuel fn p d cur mask ext save,
    nest pat q fn p d = true -> npost d (exec sc pat fuel p cur mask ext save).
  Proof.
    induction fuel as [|fuel IH]; intros fn p d cur mask ext save Hn; [intros ? ? ? ? E; discriminate|].
    cbn [exec]. destruct fn as [|fn]; [discriminate|]. cbn [nest] in Hn.
    destruct (nth_error pat p) as [a|] eqn:Ea.
    2: { intros ok p' c' s' E. injection E as <- <- <- <-. split; [discriminate|]. intros _.
         destruct d; [exact I|]. exists 1%nat. cbn [nest]. rewrite Ea. reflexivity. }
    destruct (Nat.leb q p) eqn:Eq; [discriminate|]. apply Nat.leb_gt in Eq.
    assert (Hfail : npost d (Ok (false, S p, cur, save))).
    { intros ok p' c' s' E. injection E as <- <- <- <-. split; [intros _; lia|discriminate]. }
    destruct a; try (apply (IH fn); exact Hn).
    - (* Byte *) destruct (sc_read sc 1 cur); [|exact Hfail]. destruct (N.land n mask =? N.land b mask); [|exact Hfail].
      unfold chk_add. destruct (cur + 1 <? W32); cbn [bind]; [apply (IH fn); exact Hn|intros ? ? ? ? E; discriminate].
    - (* Push *) destruct (exec sc pat fuel (S p) cur 255 0 save) as [[[[ok pc'] cur'] save']|e|f] eqn:E1; cbn [bind]; try (intros ? ? ? ? E; discriminate).
      destruct (IH fn (S p) (S d) cur 255 0 save Hn _ _ _ _ E1) as [A B].
      destruct ok.
      + destruct (B eq_refl) as [fn' Hn']. apply (IH fn'). exact Hn'.
      + intros ok p' c' s' E. injection E as <- <- <- <-. split; [intros _; apply A; reflexivity|discriminate].
    - (* Pop *) intros ok p' c' s' E. injection E as <- <- <- <-. split; [discriminate|]. intros _.
      destruct d; [exact I|]. exists fn. exact Hn.
    - (* Many *) destruct (sc_slice_len sc cur); [|exact Hfail].
      apply many_loop_npost; [|cbn [fst]; lia]. intros i s. apply (IH fn). exact Hn.
    - destruct (sc_read sc 1 cur); [apply (IH fn); exact Hn|exact Hfail].
    - destruct (sc_read sc 4 cur); [apply (IH fn); exact Hn|exact Hfail].
    - destruct (sc_read sc (sc_va_bytes sc) cur); [|exact Hfail]. destruct (sc_pointer sc n); [apply (IH fn); exact Hn|exact Hfail].
    - destruct (sc_read sc 4 cur); [apply (IH fn); exact Hn|exact Hfail].
    - destruct (vtypename sc cur); [apply (IH fn); exact Hn|exact Hfail].
    - destruct (get_slot save s); [|apply (IH fn); exact Hn]. destruct (n =? cur); [apply (IH fn); exact Hn|exact Hfail].
    - destruct (N.land cur (if k <? 32 then 2 ^ k - 1 else W32 - 1) =? 0); [apply (IH fn); exact Hn|exact Hfail].
    - destruct (sc_read sc 1 cur); [apply (IH fn); exact Hn|exact Hfail].
    - destruct (sc_read sc 1 cur); [apply (IH fn); exact Hn|exact Hfail].
    - destruct (sc_read sc 2 cur); [apply (IH fn); exact Hn|exact Hfail].
    - destruct (sc_read sc 2 cur); [apply (IH fn); exact Hn|exact Hfail].
    - destruct (sc_read sc 4 cur); [apply (IH fn); exact Hn|exact Hfail].
    - destruct (sc_read sc 4 cur); [apply (IH fn); exact Hn|exact Hfail].
    - (* Case *) apply andb_prop in Hn. destruct Hn as [Hn1 Hn2].
      destruct (exec sc pat fuel (S p) cur 255 0 save) as [[[[ok pc'] cur'] save']|e|f] eqn:E1; cbn [bind]; try (intros ? ? ? ? E; discriminate).
      destruct (IH fn (S p) (S d) cur 255 0 save Hn1 _ _ _ _ E1) as [A B].
      destruct ok.
      + destruct (B eq_refl) as [fn' Hn']. apply (IH fn'). exact Hn'.
      + apply (IH fn). exact Hn2.
    - (* Break *) intros ok p' c' s' E. injection E as <- <- <- <-. split; [discriminate|]. intros _.
      destruct d; [exact I|]. exists fn. exact Hn.
  Qed.
End NestSound.

Theorem cases_nested_sound sc pat : cases_nested pat = true -> sem_nested sc pat.
Proof.
  intros H pc k Ea fuel cur mask ext save p1 c1 s1 E.
  unfold cases_nested in H. rewrite forallb_forall in H.
  assert (Hpc : (pc < length pat)%nat) by (apply nth_error_Some; rewrite Ea; discriminate).
  specialize (H pc ltac:(apply in_seq; lia)). unfold case_nested_at in H. rewrite Ea in H.
  destruct (nest_sound sc pat _ fuel _ _ 0%nat cur mask ext save H _ _ _ _ E) as [A _]. apply A. reflexivity.
Qed.

(* the two forms of the bound *)
Theorem exec_work_nested sc pat smax :
  (forall cur l, sc_slice_len sc cur = Some l -> l <= smax) -> cases_nested pat = true ->
  forall cursor save ok save' n, run_exec_steps sc pat cursor save = Ok (ok, save', n) ->
    n <= wcost 1 smax pat 0 /\ wcost 1 smax pat 0 <= lenN pat * wprod 1 smax pat 0.
Proof.
  intros Hs Hn cursor save ok save' n E. split.
  - eapply run_exec_steps_bound; [exact Hs| |exact E]. left. split; [reflexivity|]. apply cases_nested_sound. exact Hn.
  - apply wcost_closed. lia.
Qed.

Theorem exec_work_any sc pat smax :
  (forall cur l, sc_slice_len sc cur = Some l -> l <= smax) ->
  forall cursor save ok save' n, run_exec_steps sc pat cursor save = Ok (ok, save', n) ->
    n <= wcost 2 smax pat 0 /\ wcost 2 smax pat 0 <= lenN pat * wprod 2 smax pat 0.
Proof.
  intros Hs cursor save ok save' n E. split.
  - eapply run_exec_steps_bound; [exact Hs| |exact E]. right. lia.
  - apply wcost_closed. lia.
Qed.

(* linear without skip ranges *)
Theorem exec_work_linear sc pat smax :
  (forall cur l, sc_slice_len sc cur = Some l -> l <= smax) -> cases_nested pat = true -> no_many pat = true ->
  forall cursor save ok save' n, run_exec_steps sc pat cursor save = Ok (ok, save', n) -> n <= lenN pat.
Proof.
  intros Hs Hn Hm cursor save ok save' n E.
  destruct (exec_work_nested sc pat smax Hs Hn _ _ _ _ _ E) as [A B].
  rewrite (wprod_no_many smax pat 0 Hm) in B. lia.
Qed.

(* ---- on a Pe view: the longest slice is the buffer ---- *)
From PV.Model Require Import Mapping Views ScanView.
From PV.Spec Require Import SafetySpec.
From PV.Proofs Require Import ViewsProofs SafetyProofs ExecProofs.

Lemma view_slice_len_le v : placed (v_addr v) (v_len v) ->
  forall cur l, sc_slice_len (scan_of_view v) cur = Some l -> l <= v_len v.
Proof.
  intros Hp cur l H. unfold scan_of_view in H. cbn [sc_slice_len] in H.
  destruct (slice v cur 0 1) as [r| |] eqn:E; try discriminate. injection H as <-.
  destruct (slice_safe_view v cur 0 1 r Hp E) as [Hin _]. unfold region_in in Hin. lia.
Qed.

(* Scanner::exec on a view returns, and its step count is bounded: for ANY atom list by the form with a
   factor 2 per Case atom, for properly nested Case blocks by |pat| * prod (limit_i + 1) *)
Theorem view_exec_work v pat cursor save : view_ok v -> v_len v < W32 -> placed (v_addr v) (v_len v) ->
  exists ok save' n,
    run_exec_steps (scan_of_view v) pat cursor save = Ok (ok, save', n) /\
    view_exec v pat cursor save = Ok (ok, save') /\
    n <= wcost 2 (v_len v) pat 0 /\ wcost 2 (v_len v) pat 0 <= lenN pat * wprod 2 (v_len v) pat 0 /\
    (cases_nested pat = true ->
       n <= wcost 1 (v_len v) pat 0 /\ wcost 1 (v_len v) pat 0 <= lenN pat * wprod 1 (v_len v) pat 0 /\
       (no_many pat = true -> n <= lenN pat)).
Proof.
  intros Hok Hl Hp. destruct (view_exec_total v pat cursor save Hok Hl) as [ok [save' E]].
  pose proof (run_exec_steps_erase (scan_of_view v) pat cursor save) as He. unfold view_exec in E.
  destruct (run_exec_steps (scan_of_view v) pat cursor save) as [[[ok1 s1] n]|e|f] eqn:Es; rewrite E in He; try discriminate.
  injection He as <- <-. exists ok, save', n.
  pose proof (view_slice_len_le v Hp) as Hs.
  destruct (exec_work_any _ pat _ Hs _ _ _ _ _ Es) as [A B].
  split; [reflexivity|]. split; [exact E|]. split; [exact A|]. split; [exact B|].
  intros Hn. destruct (exec_work_nested _ pat _ Hs Hn _ _ _ _ _ Es) as [C D]. split; [exact C|]. split; [exact D|].
  intros Hm. exact (exec_work_linear _ pat _ Hs Hn Hm _ _ _ _ _ Es).
Qed.

(* ---- the bound with one factor per skip range only is FALSE without proper nesting ---- *)
Definition zero_view : view :=
  {| v_file := false; v_addr := 4096; v_len := 4096; v_get := fun _ => 0; v_w := W32; v_base := 4194304;
     v_soh := 1024; v_soi := 4096; v_secs := [] |}.
Fixpoint rep {A} (n : nat) (l : list A) : list A := match n with O => [] | S m => l ++ rep m l end.

(* hand-written atoms (Atom is a public enum and Scanner::exec takes any slice of it): k times Case(0), then a
   byte that does not match - every Case re-runs the rest of the pattern: 2^(k+1) - 1 steps; the bound of
   [exec_work_any] is attained *)
Definition case_chain (k : nat) : list atom := rep k [Case 0] ++ [Byte 1].
Lemma exec_work_case_chain_refuted :
  no_many (case_chain 12) = true /\ lenN (case_chain 12) = 13 /\ cases_nested (case_chain 12) = false /\
  run_exec_steps (scan_of_view zero_view) (case_chain 12) 256 [0] = Ok (false, [0], 8191) /\
  wcost 2 4096 (case_chain 12) 0 = 8191.
Proof. vm_compute. repeat split; reflexivity. Qed.

(* F40 (repaired in 91e76e1; [parse_orig] is the parser as it stood).  A pattern STRING the parser accepted: k groups
   "(%{|?)" and a byte that does not match.  The parser reset its brace depth at '|' (pattern.rs `depth = sub.depth`)
   instead of rejecting the '{' left open inside the alternative, so the Push of every group resumes AFTER the group
   and runs the rest of the pattern, and when that fails the Case runs the second alternative and the rest again:
   7 * 2^k - 5 steps for 6k + 2 characters.  The repaired parser reports StackError at the first '|'. *)
Definition brace_text (k : nat) : list N := rep k [40; 37; 123; 124; 63; 41] ++ [48; 49].
Definition brace_pat (k : nat) : list atom := match parse_orig (brace_text k) with Ok (inr p) => p | _ => [] end.
Lemma exec_work_unbalanced_brace_refuted :
  parse_orig (brace_text 10) = Ok (inr (brace_pat 10)) /\ parse_orig (brace_text 12) = Ok (inr (brace_pat 12)) /\
  no_many (brace_pat 10) = true /\ no_many (brace_pat 12) = true /\ lenN (brace_pat 10) = 62 /\ lenN (brace_pat 12) = 74 /\
  cases_nested (brace_pat 10) = false /\ cases_nested (brace_pat 12) = false /\
  run_exec_steps (scan_of_view zero_view) (brace_pat 10) 256 [0] = Ok (false, [256], 7163) /\
  run_exec_steps (scan_of_view zero_view) (brace_pat 12) 256 [0] = Ok (false, [256], 28667).
Proof. vm_compute. repeat split; reflexivity. Qed.
Lemma unbalanced_brace_rejected :
  parse (brace_text 10) = Ok (inl (StackError, 3%nat)) /\ parse (brace_text 12) = Ok (inl (StackError, 3%nat)).
Proof. vm_compute. split; reflexivity. Qed.

(* the nesting check accepts what the parser produces for the documented syntax (examples; the general
   statement for every compiled AST is open) *)
From PV.Spec Require Import PatSyntax.
Lemma cases_nested_examples :
  forallb (fun a => cases_nested (compile a))
   [ [IByte 0x83; IByte 0xc0; IByte 0x2a; IAlt [IByte 0x6a; IWild 1] [[IByte 0x68; IWild 4]]; IByte 0xe8];
     [IByte 1; IAlt [IByte 2; IWild 1] [[IByte 3]; []]; IWild 2; ISkip 0; IWild 1; IStr []; IByte 9];
     [IByte 1; ISub JP [IAlt [ISave; ISave] [[IRead RU16]; [IZero; ISave; ISave]]; ISave]; ISave; IWild 2];
     [IAlt [IAlt [IByte 1] [[IByte 2; IRange 1 3]]; IWild 1] [[ISub J1 [IWild 1]; IWild 1]]; IWild 1; IByte 7; ISub J4 [ISave]];
     [IAlt [ISub J1 [IAlt [IByte 1] [[IRange 0 300; IByte 2]]]; IJump J4; IByte 3] [[IJump JP; IAlt [] [[]]]; [IRange 2 9]]; IByte 4];
     [ISave; IWild 1; IRange 2 9]; [] ] = true.
Proof. vm_compute. reflexivity. Qed.

(* a nested pattern with two range skips: the count stays below the bound, which has one factor per skip range *)
Example exec_work_nonvacuous :
  let pat := compile [IByte 0; IRange 0 8; IAlt [IByte 1] [[IByte 0; IRange 0 300; IByte 2]]; IByte 3] in
  pat = [Save 0; Byte 0; Many 8; Case 2; Byte 1; Break 5; Nop; Byte 0; Rangext 1; Many 44; Byte 2; Byte 3] /\
  cases_nested pat = true /\ no_many pat = false /\
  run_exec_steps (scan_of_view zero_view) pat 256 [0] = Ok (false, [256], 2459) /\
  wcost 1 4096 pat 0 = 8192 /\ lenN pat * wprod 1 4096 pat 0 = 32508.
Proof. vm_compute. repeat split; reflexivity. Qed.
