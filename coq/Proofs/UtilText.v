(* Proofs about the utility / formatting layer, part 1: bits as arithmetic, UTF-16 decoding, hex, UTF-8,
   the Display and Debug formatters of FmtUtf16 (Model/Util.v against Spec/UtilSpec.v). *)
From PV.Model Require Import Machine Util.
From PV.Spec Require Import UtilSpec.
From PV.Proofs Require Import BaseProofs.
Ltac Zify.zify_post_hook ::= Z.div_mod_to_equations.

(* ------------------------------------------------------------------------------------------------ bits as arithmetic *)
Lemma land_mask : forall k x, N.land x (N.ones k) = x mod 2 ^ k.
Proof. intros. apply N.land_ones. Qed.
Lemma shr_div : forall x k, N.shiftr x k = x / 2 ^ k.
Proof. intros. apply N.shiftr_div_pow2. Qed.
Lemma shl_mul : forall x k, N.shiftl x k = x * 2 ^ k.
Proof. intros. apply N.shiftl_mul_pow2. Qed.
Lemma lor_add_r : forall a b k, a < 2 ^ k -> N.lor (b * 2 ^ k) a = b * 2 ^ k + a.
Proof. intros. rewrite N.lor_comm, lor_disjoint_add by assumption. lia. Qed.

Lemma land63 x : N.land x 63 = x mod 64.   Proof. change 63 with (N.ones 6). rewrite land_mask. reflexivity. Qed.
Lemma land31 x : N.land x 31 = x mod 32.   Proof. change 31 with (N.ones 5). rewrite land_mask. reflexivity. Qed.
Lemma land15 x : N.land x 15 = x mod 16.   Proof. change 15 with (N.ones 4). rewrite land_mask. reflexivity. Qed.
Lemma land7 x : N.land x 7 = x mod 8.      Proof. change 7 with (N.ones 3). rewrite land_mask. reflexivity. Qed.
Lemma land1023 x : N.land x 1023 = x mod 1024.  Proof. change 1023 with (N.ones 10). rewrite land_mask. reflexivity. Qed.
Lemma land65535 x : N.land x 65535 = x mod 65536.  Proof. change 65535 with (N.ones 16). rewrite land_mask. reflexivity. Qed.

(* tag | payload where the payload is below the lowest set bit of the tag *)
Lemma lor_tag : forall a t k m, t = m * 2 ^ k -> a < 2 ^ k -> N.lor a t = t + a.
Proof. intros a t k m -> H. rewrite lor_disjoint_add by assumption. lia. Qed.

(* ------------------------------------------------------------------------------------------------ UTF-16 decoding *)
(* the decoder as a structural recursion (two units of look-ahead) *)
Fixpoint decode_struct (ws : list N) : list item :=
  match ws with
  | [] => []
  | u :: t =>
    if negb (is_utf16_surrogate u) then IChar u :: decode_struct t
    else if 56320 <=? u then IBad u :: decode_struct t
    else match t with
         | [] => [IBad u]
         | u2 :: t2 =>
           if (u2 <? 56320) || (57343 <? u2) then IBad u :: decode_struct t
           else IChar (pair_value u u2) :: decode_struct t2
         end
  end.

Lemma pair_value_bits : forall u u2, 55296 <= u -> u < 56320 -> 56320 <= u2 -> u2 <= 57343 ->
  N.lor (N.shiftl (N.land u 1023) 10) (N.land u2 1023) + 65536 = pair_value u u2.
Proof.
  intros u u2 H1 H2 H3 H4. unfold pair_value. rewrite !land1023, shl_mul.
  change (2 ^ 10) with 1024. replace (u mod 1024 * 1024) with ((u mod 1024) * 2 ^ 10) by reflexivity.
  rewrite lor_add_r by (change (2 ^ 10) with 1024; lia). change (2 ^ 10) with 1024. lia.
Qed.

Lemma decode_iter_buf : forall k u rest, decode_iter (S k) (Some u) rest = decode_iter (S k) None (u :: rest).
Proof. intros. reflexivity. Qed.

Lemma decode_iter_struct : forall n ws fuel, (length ws <= n)%nat -> (length ws < fuel)%nat ->
  decode_iter fuel None ws = Ok (decode_struct ws).
Proof.
  induction n as [|n IH]; intros ws fuel Hn Hf.
  - destruct ws; [|cbn [length] in Hn; lia]. destruct fuel; [lia|]. reflexivity.
  - destruct fuel as [|k]; [lia|]. destruct ws as [|u t]; [reflexivity|]. cbn [length] in Hn, Hf.
    cbn [decode_iter decode_next decode_struct].
    destruct (negb (is_utf16_surrogate u)) eqn:Es.
    + rewrite (IH t k) by lia. reflexivity.
    + destruct (56320 <=? u) eqn:El.
      * rewrite (IH t k) by lia. reflexivity.
      * destruct t as [|u2 t2].
        -- destruct k; [cbn [length] in Hf; lia|]. reflexivity.
        -- cbn [length] in Hn, Hf. destruct ((u2 <? 56320) || (57343 <? u2)) eqn:E2.
           ++ destruct k as [|k']; [lia|]. rewrite decode_iter_buf. rewrite (IH (u2 :: t2) (S k')) by (cbn [length]; lia). reflexivity.
           ++ rewrite (IH t2 k) by lia. cbn [bind]. rewrite pair_value_bits; [reflexivity| | | |];
              unfold is_utf16_surrogate in Es; lia.
Qed.

Theorem decode_all_struct : forall ws, decode_all ws = Ok (decode_struct ws).
Proof. intros. unfold decode_all. apply (decode_iter_struct (length ws)); lia. Qed.

(* the first unit's reading does not depend on the previous unit unless that is a leading and this a trailing surrogate *)
Lemma spec_units_prev : forall p ws,
  match p, ws with Some h, u :: _ => is_high h && is_low u = false | _, _ => True end ->
  spec_units p ws = spec_units None ws.
Proof.
  intros p [|u t] H; [reflexivity|]. cbn [spec_units]. f_equal. destruct p as [h|]; [|reflexivity].
  unfold unit_items. destruct (is_high u) eqn:Eh; [reflexivity|]. destruct (is_low u) eqn:El; [|reflexivity].
  destruct (is_high h); [discriminate|reflexivity].
Qed.

Theorem decode_struct_spec : forall ws, decode_struct ws = utf16_decode_spec ws.
Proof.
  unfold utf16_decode_spec. intros ws. remember (length ws) as n eqn:Hn. assert (Hle : (length ws <= n)%nat) by lia. clear Hn.
  revert ws Hle. induction n as [|n IH]; intros ws Hle.
  - destruct ws; [reflexivity|cbn [length] in Hle; lia].
  - destruct ws as [|u t]; [reflexivity|]. cbn [length] in Hle. cbn [decode_struct spec_units].
    destruct (negb (is_utf16_surrogate u)) eqn:Es.
    + assert (Hh : is_high u = false) by (unfold is_high, is_utf16_surrogate in *; lia).
      assert (Hl : is_low u = false) by (unfold is_low, is_utf16_surrogate in *; lia).
      unfold unit_items. rewrite Hh, Hl. cbn [app]. f_equal. rewrite IH by lia. symmetry. apply spec_units_prev.
      destruct t; [exact I|]. rewrite Hh. reflexivity.
    + destruct (56320 <=? u) eqn:El.
      * assert (Hh : is_high u = false) by (unfold is_high; lia).
        assert (Hl : is_low u = true) by (unfold is_low, is_utf16_surrogate in *; lia).
        unfold unit_items. rewrite Hh, Hl. cbn [app]. f_equal. rewrite IH by lia. symmetry. apply spec_units_prev.
        destruct t; [exact I|]. rewrite Hh. reflexivity.
      * assert (Hh : is_high u = true) by (unfold is_high, is_utf16_surrogate in *; lia).
        unfold unit_items at 1. rewrite Hh. destruct t as [|u2 t2]; [reflexivity|]. cbn [hd_error length] in *.
        destruct ((u2 <? 56320) || (57343 <? u2)) eqn:E2.
        -- assert (Hl2 : is_low u2 = false) by (unfold is_low; lia). rewrite Hl2. cbn [app]. f_equal.
           rewrite IH by (cbn [length]; lia). symmetry. apply spec_units_prev. rewrite Hl2. apply andb_false_r.
        -- assert (Hl2 : is_low u2 = true) by (unfold is_low; lia). rewrite Hl2. cbn [app]. f_equal.
           cbn [spec_units]. unfold unit_items at 1.
           assert (Hh2 : is_high u2 = false) by (unfold is_high; lia). rewrite Hh2, Hl2, Hh. cbn [app].
           rewrite IH by lia. symmetry. apply spec_units_prev. destruct t2; [exact I|]. rewrite Hh2. reflexivity.
Qed.

Theorem decode_all_spec : forall ws, decode_all ws = Ok (utf16_decode_spec ws).
Proof. intros. rewrite decode_all_struct, decode_struct_spec. reflexivity. Qed.

(* ------------------------------------------------------------------------------------------------ hex *)
Lemma pow16_succ : forall m, 16 ^ N.of_nat (S m) = 16 * 16 ^ N.of_nat m.
Proof. intros. rewrite Nat2N.inj_succ, N.pow_succ_r'. reflexivity. Qed.
Lemma pow16_pos : forall m, 0 < 16 ^ m.
Proof. intros. apply N.neq_0_lt_0. apply N.pow_nonzero. lia. Qed.

(* least significant digit last *)
Lemma hex_fixed_snoc : forall upper w x, hex_fixed upper (S w) x = hex_fixed upper w (x / 16) ++ [hexdigit upper (x mod 16)].
Proof.
  intros. unfold hex_fixed. rewrite seq_S, map_app. cbn [map plus]. f_equal.
  - apply map_ext_in. intros i Hi. apply in_seq in Hi. replace (S w - 1 - i)%nat with (S (w - 1 - i)) by lia.
    rewrite pow16_succ. rewrite N.div_div by (try apply N.pow_nonzero; lia). reflexivity.
  - replace (S w - 1 - w)%nat with 0%nat by lia. change (16 ^ N.of_nat 0) with 1. rewrite N.div_1_r. reflexivity.
Qed.
(* most significant digit first *)
Lemma hex_fixed_cons : forall upper w x, hex_fixed upper (S w) x = hexdigit upper ((x / 16 ^ N.of_nat w) mod 16) :: hex_fixed upper w x.
Proof.
  intros. unfold hex_fixed. cbn [seq map]. f_equal.
  - replace (S w - 1 - 0)%nat with w by lia. reflexivity.
  - rewrite <- seq_shift, map_map. apply map_ext. intros i. replace (S w - 1 - S i)%nat with (w - 1 - i)%nat by lia. reflexivity.
Qed.
Lemma hex_fixed_length : forall upper w x, length (hex_fixed upper w x) = w.
Proof. intros. unfold hex_fixed. rewrite map_length, seq_length. reflexivity. Qed.

Lemma hex_fixed_pad : forall upper d n x, x < 16 ^ N.of_nat n -> hex_fixed upper (d + n) x = repeat 48 d ++ hex_fixed upper n x.
Proof.
  induction d as [|d IH]; intros n x Hx; [reflexivity|]. cbn [plus repeat app]. rewrite hex_fixed_cons, IH by assumption. f_equal.
  assert (16 ^ N.of_nat n <= 16 ^ N.of_nat (d + n)) by (apply N.pow_le_mono_r; lia).
  rewrite N.div_small by lia. reflexivity.
Qed.

Lemma ndigits_small : forall x, x < 16 -> ndigits x = 1%nat.
Proof.
  intros x H. unfold ndigits. destruct (N.eq_dec x 0) as [->|Hn]; [reflexivity|].
  assert (N.log2 x < 4) by (apply N.log2_lt_pow2; [lia|exact H]). rewrite N.div_small by assumption. reflexivity.
Qed.
Lemma ndigits_step : forall x, 16 <= x -> ndigits x = S (ndigits (x / 16)).
Proof.
  intros x H. unfold ndigits. f_equal. change 16 with (2 ^ 4). rewrite <- shr_div, N.log2_shiftr.
  assert (4 <= N.log2 x) by (apply N.log2_le_pow2; [lia|exact H]).
  rewrite <- Nat2N.id at 1. rewrite <- N2Nat.inj_succ. f_equal. f_equal. lia.
Qed.

Lemma hex_min_S : forall k upper x acc, hex_min (S k) upper x acc =
  if x / 16 =? 0 then Ok (hexdigit upper (x mod 16) :: acc) else hex_min k upper (x / 16) (hexdigit upper (x mod 16) :: acc).
Proof. reflexivity. Qed.

Lemma hex_min_spec_ok : forall fuel upper x acc, x < 16 ^ N.of_nat (S fuel) ->
  hex_min (S fuel) upper x acc = Ok (hex_min_spec upper x ++ acc).
Proof.
  unfold hex_min_spec. induction fuel as [|k IH]; intros upper x acc Hx.
  - change (16 ^ N.of_nat 1) with 16 in Hx. rewrite hex_min_S. rewrite N.div_small by lia. rewrite N.eqb_refl.
    rewrite ndigits_small by lia. unfold hex_fixed. cbn [seq map app]. change (16 ^ N.of_nat (1 - 1 - 0)) with 1. rewrite N.div_1_r. reflexivity.
  - rewrite hex_min_S. destruct (x / 16 =? 0) eqn:E.
    + assert (x < 16) by lia. rewrite ndigits_small by lia. unfold hex_fixed. cbn [seq map app].
      change (16 ^ N.of_nat (1 - 1 - 0)) with 1. rewrite N.div_1_r. reflexivity.
    + assert (16 <= x) by lia. rewrite IH.
      * rewrite (ndigits_step x) by assumption. rewrite hex_fixed_snoc, <- app_assoc. reflexivity.
      * rewrite pow16_succ in Hx. apply N.div_lt_upper_bound; lia.
Qed.

Lemma ndigits_bound : forall n x, x < 16 ^ N.of_nat (S n) -> (ndigits x <= S n)%nat /\ x < 16 ^ N.of_nat (ndigits x).
Proof.
  induction n as [|n IH]; intros x Hx.
  - change (16 ^ N.of_nat 1) with 16 in Hx. rewrite ndigits_small by lia. split; [lia|exact Hx].
  - destruct (N.lt_ge_cases x 16) as [Hs|Hb].
    + rewrite ndigits_small by lia. split; [lia|exact Hs].
    + rewrite (ndigits_step x) by assumption. rewrite pow16_succ in Hx.
      destruct (IH (x / 16)) as [H1 H2]; [apply N.div_lt_upper_bound; lia|]. split; [lia|].
      rewrite pow16_succ. remember (16 ^ N.of_nat (ndigits (x / 16))) as P. lia.
Qed.

(* {:0Nx}: exactly N digits when the value has at most N *)
Theorem fmt_hex_fixed : forall upper w x, (1 <= w <= 32)%nat -> x < 16 ^ N.of_nat w ->
  fmt_hex upper false (N.of_nat w) x = Ok (hex_fixed upper w x).
Proof.
  intros upper w x Hw Hx. unfold fmt_hex.
  assert (H32 : x < 16 ^ N.of_nat 32) by (eapply N.lt_le_trans; [exact Hx|apply N.pow_le_mono_r; lia]).
  rewrite (hex_min_spec_ok 31) by exact H32. cbn [bind app]. rewrite app_nil_r. f_equal.
  destruct w as [|n]; [lia|]. destruct (ndigits_bound n x Hx) as [Hle Hlt]. unfold hex_min_spec.
  replace (S n) with ((S n - ndigits x) + ndigits x)%nat at 2 by lia. rewrite hex_fixed_pad by assumption. f_equal. f_equal.
  unfold lenN. rewrite hex_fixed_length. cbn [length]. lia.
Qed.

(* the general form: minimal digits, optional prefix, zero padding *)
Theorem fmt_hex_spec_ok : forall upper alt width x, x < 2 ^ 128 -> fmt_hex upper alt width x = Ok (fmt_hex_spec upper alt width x).
Proof.
  intros. unfold fmt_hex, fmt_hex_spec. rewrite (hex_min_spec_ok 31) by (change (16 ^ N.of_nat 32) with (2 ^ 128); assumption).
  cbn [bind]. rewrite app_nil_r. reflexivity.
Qed.

(* ------------------------------------------------------------------------------------------------ UTF-8 *)
Lemma lor128 a : a < 64 -> N.lor a 128 = 128 + a.  Proof. intros. apply (lor_tag a 128 6 2); [reflexivity|exact H]. Qed.
Lemma lor192 a : a < 32 -> N.lor a 192 = 192 + a.  Proof. intros. apply (lor_tag a 192 5 6); [reflexivity|exact H]. Qed.
Lemma lor224 a : a < 16 -> N.lor a 224 = 224 + a.  Proof. intros. apply (lor_tag a 224 4 14); [reflexivity|exact H]. Qed.
Lemma lor240 a : a < 8 -> N.lor a 240 = 240 + a.   Proof. intros. apply (lor_tag a 240 3 30); [reflexivity|exact H]. Qed.

Definition utf8_arith (c : N) : list N :=
  if c <? 128 then [c]
  else if c <? 2048 then [192 + c / 64; 128 + c mod 64]
  else if c <? 65536 then [224 + c / 4096; 128 + (c / 64) mod 64; 128 + c mod 64]
  else [240 + c / 262144; 128 + (c / 4096) mod 64; 128 + (c / 64) mod 64; 128 + c mod 64].

Lemma utf8_encode_arith : forall c, c < 2097152 -> utf8_encode c = utf8_arith c.
Proof.
  intros c Hc. unfold utf8_encode, utf8_arith.
  rewrite ?shr_div, ?land63, ?land31, ?land15, ?land7. change (2 ^ 6) with 64. change (2 ^ 12) with 4096. change (2 ^ 18) with 262144.
  destruct (c <? 128) eqn:E1; [reflexivity|]. destruct (c <? 2048) eqn:E2.
  - rewrite lor192, lor128 by lia. replace ((c / 64) mod 32) with (c / 64) by lia. reflexivity.
  - destruct (c <? 65536) eqn:E3.
    + rewrite lor224, !lor128 by lia. replace ((c / 4096) mod 16) with (c / 4096) by lia. reflexivity.
    + rewrite lor240, !lor128 by lia. replace ((c / 262144) mod 8) with (c / 262144) by lia. reflexivity.
Qed.

Lemma utf8_encode_length : forall c, (1 <= length (utf8_encode c) <= 4)%nat /\ (c < 65536 -> (length (utf8_encode c) <= 3)%nat).
Proof.
  intros c. unfold utf8_encode. destruct (c <? 128) eqn:E1; [cbn [length]; lia|]. destruct (c <? 2048) eqn:E2; [cbn [length]; lia|].
  destruct (c <? 65536) eqn:E3; cbn [length]; lia.
Qed.

Lemma is_scalar_lt : forall c, is_scalar c = true -> c < 2097152.
Proof. unfold is_scalar. intros. lia. Qed.

(* decoding what encode_utf8 wrote gives the character back: encode_utf8 writes well-formed UTF-8 *)
Lemma utf8_decode_encode1 : forall c rest, is_scalar c = true -> utf8_decode (utf8_encode c ++ rest) = consopt c (utf8_decode rest).
Proof.
  intros c rest Hs. rewrite utf8_encode_arith by (apply is_scalar_lt; exact Hs). unfold utf8_arith. unfold is_scalar in Hs.
  destruct (c <? 128) eqn:E1.
  - cbn [app utf8_decode]. rewrite E1. reflexivity.
  - destruct (c <? 2048) eqn:E2.
    + cbn [app utf8_decode]. destruct (192 + c / 64 <? 128) eqn:A1; [lia|].
      destruct ((194 <=? 192 + c / 64) && (192 + c / 64 <=? 223)) eqn:A2; [|lia].
      unfold is_cont. destruct ((128 <=? 128 + c mod 64) && (128 + c mod 64 <=? 191)) eqn:A3; [|lia].
      f_equal. lia.
    + destruct (c <? 65536) eqn:E3.
      * cbn [app utf8_decode]. destruct (224 + c / 4096 <? 128) eqn:A1; [lia|].
        destruct ((194 <=? 224 + c / 4096) && (224 + c / 4096 <=? 223)) eqn:A2; [lia|].
        destruct ((224 <=? 224 + c / 4096) && (224 + c / 4096 <=? 239)) eqn:A3; [|lia].
        unfold is_cont.
        match goal with |- (if ?b then _ else _) = _ => destruct b eqn:A4 end.
        -- f_equal. lia.
        -- exfalso. destruct (224 + c / 4096 =? 224) eqn:B1; destruct (224 + c / 4096 =? 237) eqn:B2; lia.
      * cbn [app utf8_decode]. destruct (240 + c / 262144 <? 128) eqn:A1; [lia|].
        destruct ((194 <=? 240 + c / 262144) && (240 + c / 262144 <=? 223)) eqn:A2; [lia|].
        destruct ((224 <=? 240 + c / 262144) && (240 + c / 262144 <=? 239)) eqn:A3; [lia|].
        destruct ((240 <=? 240 + c / 262144) && (240 + c / 262144 <=? 244)) eqn:A5; [|lia].
        unfold is_cont.
        match goal with |- (if ?b then _ else _) = _ => destruct b eqn:A4 end.
        -- f_equal. lia.
        -- exfalso. destruct (240 + c / 262144 =? 240) eqn:B1; destruct (240 + c / 262144 =? 244) eqn:B2; lia.
Qed.

Theorem utf8_decode_encode : forall cs, forallb is_scalar cs = true -> utf8_decode (utf8_encode_all cs) = Some cs.
Proof.
  induction cs as [|c t IH]; intros H; [reflexivity|]. cbn [forallb] in H. apply andb_true_iff in H. destruct H as [Hc Ht].
  unfold utf8_encode_all in *. cbn [flat_map]. rewrite utf8_decode_encode1 by exact Hc. rewrite IH by exact Ht. reflexivity.
Qed.

(* ------------------------------------------------------------------------------------------------ the two formatters *)
Lemma decode_struct_ind : forall (P : list N -> list item -> Prop),
  P [] [] ->
  (forall u t, (u < 55296 \/ 57343 < u) -> P t (decode_struct t) -> P (u :: t) (IChar u :: decode_struct t)) ->
  (forall u t, 56320 <= u <= 57343 -> P t (decode_struct t) -> P (u :: t) (IBad u :: decode_struct t)) ->
  (forall u, 55296 <= u < 56320 -> P [u] [IBad u]) ->
  (forall u u2 t2, 55296 <= u < 56320 -> (u2 < 56320 \/ 57343 < u2) -> P (u2 :: t2) (decode_struct (u2 :: t2)) ->
     P (u :: u2 :: t2) (IBad u :: decode_struct (u2 :: t2))) ->
  (forall u u2 t2, 55296 <= u < 56320 -> 56320 <= u2 <= 57343 -> P t2 (decode_struct t2) ->
     P (u :: u2 :: t2) (IChar (pair_value u u2) :: decode_struct t2)) ->
  forall ws, P ws (decode_struct ws).
Proof.
  intros P H0 H1 H2 H3 H4 H5 ws. remember (length ws) as n eqn:Hn. assert (Hle : (length ws <= n)%nat) by lia. clear Hn.
  revert ws Hle. induction n as [|n IH]; intros ws Hle.
  - destruct ws; [exact H0|cbn [length] in Hle; lia].
  - destruct ws as [|u t]; [exact H0|]. cbn [length] in Hle. cbn [decode_struct].
    destruct (negb (is_utf16_surrogate u)) eqn:Es.
    + apply H1; [unfold is_utf16_surrogate in Es; lia|apply IH; lia].
    + destruct (56320 <=? u) eqn:El.
      * apply H2; [unfold is_utf16_surrogate in Es; lia|apply IH; lia].
      * assert (55296 <= u < 56320) by (unfold is_utf16_surrogate in Es; lia).
        destruct t as [|u2 t2]; [apply H3; assumption|]. cbn [length] in Hle.
        destruct ((u2 <? 56320) || (57343 <? u2)) eqn:E2.
        -- apply H4; [assumption|lia|apply IH; cbn [length]; lia].
        -- apply H5; [assumption|lia|apply IH; lia].
Qed.

Lemma units_ok_cons : forall u t, units_ok (u :: t) -> u < 65536 /\ units_ok t.
Proof. intros u t H. inversion H; subst. split; assumption. Qed.

Lemma pair_value_range : forall u u2, 55296 <= u < 56320 -> 56320 <= u2 <= 57343 -> 65536 <= pair_value u u2 < 1114112.
Proof. intros. unfold pair_value. lia. Qed.

(* every item of the decoding of 16-bit units is a Unicode scalar value or a surrogate code unit *)
Lemma decode_struct_wf : forall ws, units_ok ws -> forallb item_wf (decode_struct ws) = true.
Proof.
  apply (decode_struct_ind (fun ws its => units_ok ws -> forallb item_wf its = true)).
  - reflexivity.
  - intros u t Hu IH Hok. apply units_ok_cons in Hok. destruct Hok as [H16 Hok]. cbn [forallb item_wf]. rewrite IH by assumption.
    unfold is_scalar. destruct Hu; lia.
  - intros u t Hu IH Hok. apply units_ok_cons in Hok. destruct Hok as [H16 Hok]. cbn [forallb item_wf]. rewrite IH by assumption. lia.
  - intros u Hu _. cbn [forallb item_wf]. lia.
  - intros u u2 t2 Hu Hu2 IH Hok. apply units_ok_cons in Hok. destruct Hok as [H16 Hok]. cbn [forallb item_wf]. rewrite IH by assumption. lia.
  - intros u u2 t2 Hu Hu2 IH Hok. apply units_ok_cons in Hok. destruct Hok as [_ Hok]. apply units_ok_cons in Hok. destruct Hok as [_ Hok].
    cbn [forallb item_wf]. rewrite IH by assumption. pose proof (pair_value_range u u2 Hu Hu2). unfold is_scalar. lia.
Qed.

Lemma flat_map_map : forall {A B C} (f : B -> list C) (g : A -> B) l, flat_map f (map g l) = flat_map (fun x => f (g x)) l.
Proof. induction l as [|x t IH]; [reflexivity|]. cbn [map flat_map]. rewrite IH. reflexivity. Qed.

(* Display: the UTF-8 encoding of the lossy decoding *)
Theorem fmt_display_spec : forall ws, fmt_display ws = Ok (utf8_encode_all (lossy (utf16_decode_spec ws))).
Proof.
  intros. unfold fmt_display. rewrite decode_all_spec. cbn [bind]. unfold utf8_encode_all, lossy. rewrite flat_map_map. reflexivity.
Qed.

Lemma lossy_scalar : forall its, forallb item_wf its = true -> forallb is_scalar (lossy its) = true.
Proof.
  induction its as [|it t IH]; intros H; [reflexivity|]. cbn [forallb] in H. apply andb_true_iff in H. destruct H as [Hi Ht].
  cbn [lossy map forallb]. fold (lossy t). rewrite IH by exact Ht. destruct it as [c|u]; [cbn [item_wf] in Hi; rewrite Hi; reflexivity|reflexivity].
Qed.

Lemma nlist_eqb_refl : forall l, nlist_eqb l l = true.
Proof. induction l as [|x t IH]; [reflexivity|]. cbn [nlist_eqb]. rewrite N.eqb_refl, IH. reflexivity. Qed.
Lemma nlist_eqb_eq : forall a b, nlist_eqb a b = true -> a = b.
Proof.
  induction a as [|x a IH]; destruct b as [|y b]; cbn [nlist_eqb]; intros H; try discriminate; [reflexivity|].
  apply andb_true_iff in H. destruct H as [H1 H2]. apply N.eqb_eq in H1. subst. f_equal. apply IH. exact H2.
Qed.

(* ... and what Display wrote reads back (strict UTF-8 decoding) as exactly the lossy decoding: the oracle holds of the model *)
Theorem fmt_display_reads_back : forall ws, units_ok ws ->
  exists out, fmt_display ws = Ok out /\ utf8_decode out = Some (lossy (utf16_decode_spec ws)) /\ display_ok ws out = true.
Proof.
  intros ws Hok. eexists. split; [apply fmt_display_spec|].
  assert (H : utf8_decode (utf8_encode_all (lossy (utf16_decode_spec ws))) = Some (lossy (utf16_decode_spec ws))).
  { apply utf8_decode_encode. apply lossy_scalar. rewrite <- decode_struct_spec. apply decode_struct_wf. exact Hok. }
  split; [exact H|]. unfold display_ok. rewrite H. apply nlist_eqb_refl.
Qed.

Lemma display_item_len : forall it, item_wf it = true ->
  (length (display_item it) <= 4)%nat /\ (match it with IChar c => c < 65536 | IBad _ => True end -> (length (display_item it) <= 3)%nat).
Proof.
  intros [c|u] Hwf; unfold display_item.
  - destruct (utf8_encode_length c) as [[_ H4] H3]. split; [exact H4|exact H3].
  - split; [vm_compute; lia|intros _; vm_compute; lia].
Qed.

(* Display writes at most 3 bytes per input word (a surrogate pair: 4 bytes for its 2 words) *)
Lemma display_len_struct : forall ws, units_ok ws -> (length (flat_map display_item (decode_struct ws)) <= 3 * length ws)%nat.
Proof.
  apply (decode_struct_ind (fun ws its => units_ok ws -> (length (flat_map display_item its) <= 3 * length ws)%nat)).
  - intros _. cbn [flat_map length]. lia.
  - intros u t Hu IH Hok. apply units_ok_cons in Hok. destruct Hok as [H16 Hok]. cbn [flat_map length]. rewrite app_length.
    specialize (IH Hok). unfold display_item at 1. destruct (utf8_encode_length u) as [_ H3]. specialize (H3 H16). lia.
  - intros u t Hu IH Hok. apply units_ok_cons in Hok. destruct Hok as [H16 Hok]. cbn [flat_map length]. rewrite app_length.
    specialize (IH Hok). change (length (display_item (IBad u))) with 3%nat. lia.
  - intros u Hu _. cbn [flat_map length]. rewrite app_length. change (length (display_item (IBad u))) with 3%nat. cbn [length]. lia.
  - intros u u2 t2 Hu Hu2 IH Hok. apply units_ok_cons in Hok. destruct Hok as [H16 Hok]. cbn [flat_map]. rewrite app_length.
    specialize (IH Hok). change (length (display_item (IBad u))) with 3%nat. cbn [length] in *. lia.
  - intros u u2 t2 Hu Hu2 IH Hok. apply units_ok_cons in Hok. destruct Hok as [_ Hok]. apply units_ok_cons in Hok. destruct Hok as [_ Hok].
    cbn [flat_map]. rewrite app_length. specialize (IH Hok). unfold display_item at 1.
    destruct (utf8_encode_length (pair_value u u2)) as [[_ H4] _]. cbn [length]. lia.
Qed.

Theorem fmt_display_bound : forall ws, units_ok ws ->
  exists out, fmt_display ws = Ok out /\ (length out <= 3 * length ws)%nat.
Proof.
  intros ws Hok. unfold fmt_display. rewrite decode_all_struct. cbn [bind]. eexists. split; [reflexivity|]. apply display_len_struct. exact Hok.
Qed.

(* Debug: the characters written for one item *)
Definition debug_chars (it : item) : list N :=
  match it with
  | IChar c =>
    if c =? 0 then [92; 48] else if c =? 10 then [92; 110] else if c =? 13 then [92; 114]
    else if c =? 9 then [92; 116] else if c =? 34 then [92; 34] else if c =? 92 then [92; 92] else [c]
  | IBad u => [92; 117] ++ hex_fixed false 4 u
  end.

Lemma utf8_ascii : forall l, Forall (fun c => c < 128) l -> utf8_encode_all l = l.
Proof.
  induction l as [|c t IH]; intros H; [reflexivity|]. inversion H; subst. unfold utf8_encode_all in *. cbn [flat_map].
  rewrite IH by assumption. unfold utf8_encode. destruct (c <? 128) eqn:E; [reflexivity|lia].
Qed.
Lemma hexdigit_lower_range : forall d, d < 16 -> (48 <= hexdigit false d <= 57 /\ d < 10) \/ (97 <= hexdigit false d <= 102 /\ 10 <= d).
Proof. intros d H. unfold hexdigit. destruct (d <? 10) eqn:E; lia. Qed.
Lemma hex_fixed_4 : forall upper u, hex_fixed upper 4 u =
  [hexdigit upper ((u / 4096) mod 16); hexdigit upper ((u / 256) mod 16); hexdigit upper ((u / 16) mod 16); hexdigit upper (u mod 16)].
Proof. intros. unfold hex_fixed. cbn [seq map]. change (16 ^ N.of_nat (4 - 1 - 0)) with 4096. change (16 ^ N.of_nat (4 - 1 - 1)) with 256.
  change (16 ^ N.of_nat (4 - 1 - 2)) with 16. change (16 ^ N.of_nat (4 - 1 - 3)) with 1. rewrite N.div_1_r. reflexivity. Qed.
Lemma hex_fixed_ascii : forall upper w x, Forall (fun c => c < 128) (hex_fixed upper w x).
Proof.
  intros. unfold hex_fixed. apply Forall_forall. intros c Hc. apply in_map_iff in Hc. destruct Hc as [i [<- _]].
  unfold hexdigit. assert ((x / 16 ^ N.of_nat (w - 1 - i)) mod 16 < 16) by (apply N.mod_lt; lia).
  destruct (_ <? 10); destruct upper; lia.
Qed.

Lemma debug_item_ok : forall it, item_wf it = true -> debug_item it = Ok (utf8_encode_all (debug_chars it)).
Proof.
  intros [c|u] Hwf; cbn [debug_item debug_chars].
  - f_equal. destruct (c =? 0); [reflexivity|]. destruct (c =? 10); [reflexivity|]. destruct (c =? 13); [reflexivity|].
    destruct (c =? 9); [reflexivity|]. destruct (c =? 34); [reflexivity|]. destruct (c =? 92); [reflexivity|].
    unfold utf8_encode_all. cbn [flat_map]. rewrite app_nil_r. reflexivity.
  - cbn [item_wf] in Hwf. change 4 with (N.of_nat 4). rewrite fmt_hex_fixed by (try lia; change (16 ^ N.of_nat 4) with 65536; lia).
    cbn [bind]. f_equal. symmetry. apply utf8_ascii. cbn [app]. constructor; [lia|]. constructor; [lia|]. apply hex_fixed_ascii.
Qed.

Definition debug_body (its : list item) : list N := flat_map debug_chars its.
Lemma utf8_encode_all_app : forall a b, utf8_encode_all (a ++ b) = utf8_encode_all a ++ utf8_encode_all b.
Proof. intros. unfold utf8_encode_all. apply flat_map_app. Qed.

Lemma debug_items_ok : forall its, forallb item_wf its = true -> debug_items its = Ok (utf8_encode_all (debug_body its)).
Proof.
  induction its as [|it t IH]; intros H; [reflexivity|]. cbn [forallb] in H. apply andb_true_iff in H. destruct H as [Hi Ht].
  cbn [debug_items]. rewrite debug_item_ok by exact Hi. rewrite IH by exact Ht. cbn [bind]. unfold debug_body. cbn [flat_map].
  rewrite utf8_encode_all_app. reflexivity.
Qed.

(* Debug: L" ... " around the escaped characters *)
Theorem fmt_debug_chars : forall ws, units_ok ws ->
  fmt_debug ws = Ok (utf8_encode_all ([76; 34] ++ debug_body (utf16_decode_spec ws) ++ [34])).
Proof.
  intros ws Hok. unfold fmt_debug. rewrite decode_all_spec. cbn [bind]. rewrite debug_items_ok by (rewrite <- decode_struct_spec; apply decode_struct_wf; exact Hok).
  cbn [bind]. rewrite !utf8_encode_all_app. reflexivity.
Qed.

Lemma hexval_hexdigit : forall d, d < 16 -> hexval (hexdigit false d) = Some d.
Proof.
  intros d H. unfold hexval, hexdigit. destruct (d <? 10) eqn:E.
  - destruct ((48 <=? 48 + d) && (48 + d <=? 57)) eqn:A; [f_equal; lia|lia].
  - destruct ((48 <=? 87 + d) && (87 + d <=? 57)) eqn:A; [lia|]. destruct ((97 <=? 87 + d) && (87 + d <=? 102)) eqn:B; [f_equal; lia|lia].
Qed.

Lemma unescape_u : forall h1 h2 h3 h4 t, unescape_body (92 :: 117 :: h1 :: h2 :: h3 :: h4 :: t) =
  match hexval h1, hexval h2, hexval h3, hexval h4 with
  | Some a, Some b, Some c', Some d => consitem (IBad (a * 4096 + b * 256 + c' * 16 + d)) (unescape_body t)
  | _, _, _, _ => None
  end.
Proof. reflexivity. Qed.
Lemma unescape_esc : forall e c t, In (e, c) [(48, 0); (110, 10); (114, 13); (116, 9); (34, 34); (92, 92)] ->
  unescape_body (92 :: e :: t) = consitem (IChar c) (unescape_body t).
Proof. intros e c t H. cbn [In] in H. repeat (destruct H as [H|H]; [inversion H; subst; reflexivity|]). contradiction. Qed.
Lemma unescape_plain : forall c t, c <> 34 -> c <> 92 -> unescape_body (c :: t) = consitem (IChar c) (unescape_body t).
Proof. intros c t H1 H2. cbn [unescape_body]. destruct (c =? 34) eqn:A; [lia|]. destruct (c =? 92) eqn:B; [lia|]. reflexivity. Qed.

(* reading the body back gives the items: the output determines the decoded sequence *)
Lemma unescape_body_ok : forall its, forallb item_wf its = true -> unescape_body (debug_body its ++ [34]) = Some its.
Proof.
  induction its as [|it t IH]; intros H; [reflexivity|]. cbn [forallb] in H. apply andb_true_iff in H. destruct H as [Hi Ht].
  unfold debug_body in *. cbn [flat_map]. rewrite <- app_assoc. specialize (IH Ht). destruct it as [c|u]; cbn [debug_chars].
  - destruct (c =? 0) eqn:E0; [apply N.eqb_eq in E0; subst; cbn [app]; rewrite (unescape_esc 48 0) by (cbn; tauto); rewrite IH; reflexivity|].
    destruct (c =? 10) eqn:E1; [apply N.eqb_eq in E1; subst; cbn [app]; rewrite (unescape_esc 110 10) by (cbn; tauto); rewrite IH; reflexivity|].
    destruct (c =? 13) eqn:E2; [apply N.eqb_eq in E2; subst; cbn [app]; rewrite (unescape_esc 114 13) by (cbn; tauto); rewrite IH; reflexivity|].
    destruct (c =? 9) eqn:E3; [apply N.eqb_eq in E3; subst; cbn [app]; rewrite (unescape_esc 116 9) by (cbn; tauto); rewrite IH; reflexivity|].
    destruct (c =? 34) eqn:E4; [apply N.eqb_eq in E4; subst; cbn [app]; rewrite (unescape_esc 34 34) by (cbn; tauto); rewrite IH; reflexivity|].
    destruct (c =? 92) eqn:E5; [apply N.eqb_eq in E5; subst; cbn [app]; rewrite (unescape_esc 92 92) by (cbn; tauto); rewrite IH; reflexivity|].
    cbn [app]. rewrite unescape_plain by lia. rewrite IH. reflexivity.
  - cbn [item_wf] in Hi. rewrite hex_fixed_4. cbn [app]. rewrite unescape_u.
    rewrite !hexval_hexdigit by (apply N.mod_lt; lia). rewrite IH. cbn [consitem].
    replace ((u / 4096) mod 16 * 4096 + (u / 256) mod 16 * 256 + (u / 16) mod 16 * 16 + u mod 16) with u by lia. reflexivity.
Qed.

Lemma debug_chars_scalar : forall it, item_wf it = true -> forallb is_scalar (debug_chars it) = true.
Proof.
  intros [c|u] H; cbn [debug_chars].
  - destruct (c =? 0); [reflexivity|]. destruct (c =? 10); [reflexivity|]. destruct (c =? 13); [reflexivity|].
    destruct (c =? 9); [reflexivity|]. destruct (c =? 34); [reflexivity|]. destruct (c =? 92); [reflexivity|].
    cbn [forallb item_wf] in *. rewrite H. reflexivity.
  - cbn [app forallb]. apply forallb_forall. intros x Hx. pose proof (hex_fixed_ascii false 4 u) as Ha. rewrite Forall_forall in Ha.
    specialize (Ha x Hx). unfold is_scalar. lia.
Qed.
Lemma debug_body_scalar : forall its, forallb item_wf its = true -> forallb is_scalar (debug_body its) = true.
Proof.
  induction its as [|it t IH]; intros H; [reflexivity|]. cbn [forallb] in H. apply andb_true_iff in H. destruct H as [Hi Ht].
  unfold debug_body in *. cbn [flat_map]. rewrite forallb_app, debug_chars_scalar, IH by assumption. reflexivity.
Qed.

Lemma items_eqb_refl : forall l, items_eqb l l = true.
Proof. induction l as [|x t IH]; [reflexivity|]. cbn [items_eqb]. rewrite IH. destruct x; cbn [item_eqb]; rewrite N.eqb_refl; reflexivity. Qed.

(* Debug round trip: for EVERY string of 16-bit units - unpaired surrogates included - the text written by Debug, read back
   by the grammar of Spec/UtilSpec.v, is the decoded sequence of characters and unpaired surrogates *)
Theorem fmt_debug_round_trip : forall ws, units_ok ws ->
  exists out, fmt_debug ws = Ok out /\ unescape_debug out = Some (utf16_decode_spec ws) /\ debug_ok ws out = true.
Proof.
  intros ws Hok. eexists. split; [apply fmt_debug_chars; exact Hok|].
  assert (Hwf : forallb item_wf (utf16_decode_spec ws) = true) by (rewrite <- decode_struct_spec; apply decode_struct_wf; exact Hok).
  assert (H : unescape_debug (utf8_encode_all ([76; 34] ++ debug_body (utf16_decode_spec ws) ++ [34])) = Some (utf16_decode_spec ws)).
  { unfold unescape_debug. rewrite utf8_decode_encode.
    - cbn [app]. apply unescape_body_ok. exact Hwf.
    - rewrite !forallb_app. rewrite debug_body_scalar by exact Hwf. reflexivity. }
  split; [exact H|]. unfold debug_ok. rewrite H. apply items_eqb_refl.
Qed.

Lemma debug_bytes_len : forall it, item_wf it = true ->
  (length (utf8_encode_all (debug_chars it)) <= 6)%nat /\
  (match it with IChar c => c < 65536 -> (length (utf8_encode_all (debug_chars it)) <= 3)%nat
               | IBad _ => True end) /\
  (match it with IChar c => (length (utf8_encode_all (debug_chars it)) <= 4)%nat | IBad _ => True end).
Proof.
  intros [c|u] H; cbn [debug_chars].
  - assert (forall l : list N, (length l <= 2)%nat -> (length l <= 6)%nat /\ (c < 65536 -> (length l <= 3)%nat) /\ (length l <= 4)%nat) as Hs by (intros; lia).
    destruct (c =? 0); [apply Hs; vm_compute; lia|]. destruct (c =? 10); [apply Hs; vm_compute; lia|]. destruct (c =? 13); [apply Hs; vm_compute; lia|].
    destruct (c =? 9); [apply Hs; vm_compute; lia|]. destruct (c =? 34); [apply Hs; vm_compute; lia|]. destruct (c =? 92); [apply Hs; vm_compute; lia|].
    unfold utf8_encode_all. cbn [flat_map]. rewrite app_nil_r. destruct (utf8_encode_length c) as [[_ H4] H3]. split; [lia|]. split; [exact H3|exact H4].
  - split; [|tauto]. rewrite utf8_ascii by (cbn [app]; constructor; [lia|]; constructor; [lia|]; apply hex_fixed_ascii).
    cbn [app length]. rewrite hex_fixed_length. lia.
Qed.

Lemma debug_len_struct : forall ws, units_ok ws -> (length (utf8_encode_all (debug_body (decode_struct ws))) <= 6 * length ws)%nat.
Proof.
  apply (decode_struct_ind (fun ws its => units_ok ws -> (length (utf8_encode_all (debug_body its)) <= 6 * length ws)%nat)).
  - intros _. cbn. lia.
  - intros u t Hu IH Hok. apply units_ok_cons in Hok. destruct Hok as [H16 Hok]. unfold debug_body in *. cbn [flat_map length].
    rewrite utf8_encode_all_app, app_length. specialize (IH Hok).
    destruct (debug_bytes_len (IChar u)) as [_ [H3 _]]; [cbn [item_wf]; unfold is_scalar; lia|]. specialize (H3 H16). lia.
  - intros u t Hu IH Hok. apply units_ok_cons in Hok. destruct Hok as [H16 Hok]. unfold debug_body in *. cbn [flat_map length].
    rewrite utf8_encode_all_app, app_length. specialize (IH Hok).
    destruct (debug_bytes_len (IBad u)) as [H6 _]; [cbn [item_wf]; lia|]. lia.
  - intros u Hu _. unfold debug_body. cbn [flat_map length]. rewrite app_nil_r.
    destruct (debug_bytes_len (IBad u)) as [H6 _]; [cbn [item_wf]; lia|]. lia.
  - intros u u2 t2 Hu Hu2 IH Hok. apply units_ok_cons in Hok. destruct Hok as [H16 Hok]. unfold debug_body in *. cbn [flat_map].
    rewrite utf8_encode_all_app, app_length. specialize (IH Hok).
    destruct (debug_bytes_len (IBad u)) as [H6 _]; [cbn [item_wf]; lia|]. cbn [length] in *. lia.
  - intros u u2 t2 Hu Hu2 IH Hok. apply units_ok_cons in Hok. destruct Hok as [_ Hok]. apply units_ok_cons in Hok. destruct Hok as [_ Hok].
    unfold debug_body in *. cbn [flat_map]. rewrite utf8_encode_all_app, app_length. specialize (IH Hok).
    pose proof (pair_value_range u u2 Hu Hu2).
    destruct (debug_bytes_len (IChar (pair_value u u2))) as [_ [_ H4]]; [cbn [item_wf]; unfold is_scalar; lia|]. cbn [length]. lia.
Qed.

(* Debug writes at most 6 bytes per input word, plus the three bytes of L" and " *)
Theorem fmt_debug_bound : forall ws, units_ok ws ->
  exists out, fmt_debug ws = Ok out /\ (length out <= 6 * length ws + 3)%nat.
Proof.
  intros ws Hok. eexists. split; [apply fmt_debug_chars; exact Hok|]. rewrite !utf8_encode_all_app, !app_length.
  rewrite <- decode_struct_spec. pose proof (debug_len_struct ws Hok). change (length (utf8_encode_all [76; 34])) with 2%nat.
  change (length (utf8_encode_all [34])) with 1%nat. lia.
Qed.


(* the converse: whatever the strict decoder accepts is the encoding of the scalar values it returns, so
   [utf8_valid] = "is the UTF-8 encoding of a sequence of Unicode scalar values" *)
Lemma consopt_some : forall c r cs, consopt c r = Some cs -> exists cs', r = Some cs' /\ cs = c :: cs'.
Proof. intros c [l|] cs H; [|discriminate]. inversion H; subst. exists l. split; reflexivity. Qed.

Lemma utf8_decode_sound_aux : forall n bs cs, (length bs <= n)%nat -> utf8_decode bs = Some cs ->
  utf8_encode_all cs = bs /\ forallb is_scalar cs = true.
Proof.
  induction n as [|n IH]; intros bs cs Hn H.
  - destruct bs; [|cbn [length] in Hn; lia]. inversion H; subst. split; reflexivity.
  - destruct bs as [|b0 t]; [inversion H; subst; split; reflexivity|]. cbn [length] in Hn. cbn [utf8_decode] in H.
    destruct (b0 <? 128) eqn:E0.
    { apply consopt_some in H. destruct H as [cs' [H ->]]. destruct (IH t cs') as [A B]; [lia|exact H|].
      unfold utf8_encode_all in *. cbn [flat_map forallb]. rewrite A, B. unfold utf8_encode, is_scalar. rewrite E0. split; [reflexivity|lia]. }
    destruct ((194 <=? b0) && (b0 <=? 223)) eqn:E1.
    { destruct t as [|b1 t1]; [discriminate|]. unfold is_cont in H. destruct ((128 <=? b1) && (b1 <=? 191)) eqn:C1; [|discriminate].
      apply consopt_some in H. destruct H as [cs' [H ->]]. cbn [length] in Hn. destruct (IH t1 cs') as [A B]; [lia|exact H|].
      unfold utf8_encode_all in *. cbn [flat_map forallb]. rewrite A, B. set (c := (b0 - 192) * 64 + (b1 - 128)).
      rewrite utf8_encode_arith by (subst c; lia). unfold utf8_arith, is_scalar.
      destruct (c <? 128) eqn:X1; [subst c; lia|]. destruct (c <? 2048) eqn:X2; [|subst c; lia]. cbn [app].
      split; [|subst c; lia]. f_equal; [subst c; lia|]. f_equal. subst c; lia. }
    destruct ((224 <=? b0) && (b0 <=? 239)) eqn:E2.
    { destruct t as [|b1 [|b2 t2]]; [discriminate|discriminate|]. unfold is_cont in H.
      destruct (((if b0 =? 224 then 160 else 128) <=? b1) && (b1 <=? (if b0 =? 237 then 159 else 191)) && ((128 <=? b2) && (b2 <=? 191))) eqn:C1; [|discriminate].
      apply consopt_some in H. destruct H as [cs' [H ->]]. cbn [length] in Hn. destruct (IH t2 cs') as [A B]; [lia|exact H|].
      unfold utf8_encode_all in *. cbn [flat_map forallb]. rewrite A, B. set (c := (b0 - 224) * 4096 + (b1 - 128) * 64 + (b2 - 128)).
      assert (Hr : 2048 <= c < 65536 /\ (c < 55296 \/ 57343 < c) /\ 224 + c / 4096 = b0 /\ 128 + (c / 64) mod 64 = b1 /\ 128 + c mod 64 = b2).
      { subst c. destruct (b0 =? 224) eqn:Q1; destruct (b0 =? 237) eqn:Q2; lia. }
      destruct Hr as [R1 [R2 [R3 [R4 R5]]]].
      rewrite utf8_encode_arith by lia. unfold utf8_arith, is_scalar.
      destruct (c <? 128) eqn:X1; [lia|]. destruct (c <? 2048) eqn:X2; [lia|]. destruct (c <? 65536) eqn:X3; [|lia]. cbn [app].
      rewrite R3, R4, R5. split; [reflexivity|lia]. }
    destruct ((240 <=? b0) && (b0 <=? 244)) eqn:E3; [|discriminate].
    { destruct t as [|b1 [|b2 [|b3 t3]]]; [discriminate|discriminate|discriminate|]. unfold is_cont in H.
      destruct (((if b0 =? 240 then 144 else 128) <=? b1) && (b1 <=? (if b0 =? 244 then 143 else 191)) && ((128 <=? b2) && (b2 <=? 191)) && ((128 <=? b3) && (b3 <=? 191))) eqn:C1; [|discriminate].
      apply consopt_some in H. destruct H as [cs' [H ->]]. cbn [length] in Hn. destruct (IH t3 cs') as [A B]; [lia|exact H|].
      unfold utf8_encode_all in *. cbn [flat_map forallb]. rewrite A, B. set (c := (b0 - 240) * 262144 + (b1 - 128) * 4096 + (b2 - 128) * 64 + (b3 - 128)).
      assert (Hr : 65536 <= c < 1114112 /\ 240 + c / 262144 = b0 /\ 128 + (c / 4096) mod 64 = b1 /\ 128 + (c / 64) mod 64 = b2 /\ 128 + c mod 64 = b3).
      { subst c. destruct (b0 =? 240) eqn:Q1; destruct (b0 =? 244) eqn:Q2; lia. }
      destruct Hr as [R1 [R3 [R4 [R5 R6]]]].
      rewrite utf8_encode_arith by lia. unfold utf8_arith, is_scalar.
      destruct (c <? 128) eqn:X1; [lia|]. destruct (c <? 2048) eqn:X2; [lia|]. destruct (c <? 65536) eqn:X3; [lia|]. cbn [app].
      rewrite R3, R4, R5, R6. split; [reflexivity|lia]. }
Qed.

Theorem utf8_decode_sound : forall bs cs, utf8_decode bs = Some cs -> utf8_encode_all cs = bs /\ forallb is_scalar cs = true.
Proof. intros bs cs. apply (utf8_decode_sound_aux (length bs)). lia. Qed.
Theorem utf8_valid_iff : forall bs, utf8_valid bs = true <-> exists cs, forallb is_scalar cs = true /\ bs = utf8_encode_all cs.
Proof.
  intros bs. unfold utf8_valid. split.
  - destruct (utf8_decode bs) as [cs|] eqn:E; [|discriminate]. intros _. destruct (utf8_decode_sound _ _ E) as [A B]. exists cs. split; [exact B|symmetry; exact A].
  - intros [cs [Hs ->]]. rewrite utf8_decode_encode by exact Hs. reflexivity.
Qed.
