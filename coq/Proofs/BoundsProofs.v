(* C03: bounds on the number of items the traversals yield, and view-level corollaries of SafetyProofs. *)
From PV.Model Require Import Machine Mapping Views Relocs Strings CStrFmt.
From PV.Spec Require Import RelocSpec Runs SafetySpec.
From PV.Proofs Require Import BaseProofs ViewsProofs SafetyProofs RelocsProofs StringsProofs CStrFmtProofs.
Ltac Zify.zify_post_hook ::= Z.div_mod_to_equations.

(* every block of the partition consumes at least its 8-byte header: at most len/8 blocks *)
Lemma chainb_count data : forall bs off, chainb data off bs = true -> off + 8 * lenN bs <= N.max off (lenN data).
Proof.
  induction bs as [|b bs IH]; intros off H.
  - change (lenN (@nil block)) with 0. lia.
  - pose proof (chainb_inv data off b bs H) as Hinv. cbv zeta in Hinv.
    destruct Hinv as [_ [_ [_ [_ [Hw [[Hlt Hle] [_ Hrest]]]]]]].
    apply IH in Hrest. rewrite lenN_cons. lia.
Qed.

Theorem blocks_bounded data : lenN data + 3 < W64 ->
  exists bs, blocks data = Ok bs /\ 8 * lenN bs <= lenN data.
Proof.
  intros H. destruct (blocks_partition data H) as [bs [Hb Hc]]. exists bs. split; [exact Hb|].
  apply chainb_count in Hc. lia.
Qed.

(* one run per non-printable byte plus at most one at the end of the buffer *)
Lemma runs_aux_count : forall bs start len, (length (runs_aux bs start len) <= length bs + 1)%nat.
Proof.
  induction bs as [|b t IH]; intros start len; cbn [runs_aux].
  - destruct (len =? 0); cbn [length]; lia.
  - destruct (printable b); [specialize (IH start (len + 1)); cbn [length]; lia|].
    cbn [length]. specialize (IH (start + len + 1) 0). lia.
Qed.

Lemma filter_len {A} (p : A -> bool) (l : list A) : (length (filter p l) <= length l)%nat.
Proof. induction l as [|x t IH]; cbn [filter length]; [lia|]. destruct (p x); cbn [length]; lia. Qed.

Theorem enumerate_bounded c base bytes :
  exists l, enumerate c base bytes = Ok l /\ (length l <= length bytes + 1)%nat.
Proof.
  exists (enumerate_spec c base bytes). split; [apply enumerate_correct|].
  unfold enumerate_spec, runs. rewrite map_length.
  eapply Nat.le_trans; [apply filter_len|]. apply runs_aux_count.
Qed.

(* ---- the two read paths of a view: by RVA (slice) and by VA (read) ---- *)

Lemma sl_of_safe v byva : placed (v_addr v) (v_len v) ->
  forall a m al r, sl_of v byva a m al = Ok r -> slice_safe (v_addr v) (v_len v) m al r.
Proof. intros Hp a m al r. destruct byva; cbn [sl_of]; [apply read_safe_view|apply slice_safe_view]; exact Hp. Qed.
Lemma sl_of_no_fault v byva : forall a m al, no_fault (sl_of v byva a m al).
Proof. intros a m al. destruct byva; cbn [sl_of]; [apply read_no_fault|apply slice_no_fault]. Qed.

Theorem view_typed_safe v byva : placed (v_addr v) (v_len v) ->
  (forall a size align r, rd (sl_of v byva) a size align = Ok r -> typed_safe (v_addr v) (v_len v) align r /\ Mapping.r_len r = size) /\
  (forall a size r, rd_copy (sl_of v byva) a size = Ok r -> region_in (v_len v) r /\ Mapping.r_len r = size) /\
  (forall a size align n r, rd_slice (sl_of v byva) a size align n = Ok r -> typed_safe (v_addr v) (v_len v) align r /\ Mapping.r_len r = size * n) /\
  (forall a size align p r, rd_slice_f (v_get v) (sl_of v byva) a size align p = Ok r ->
     typed_safe (v_addr v) (v_len v) align r /\ exists n, Mapping.r_len r = n * size) /\
  (forall a r, rd_c_str (v_get v) (sl_of v byva) a = Ok r -> region_in (v_len v) r /\ 0 < Mapping.r_len r).
Proof.
  intros Hp. pose proof (sl_of_safe v byva Hp) as Hs. pose proof (sl_of_no_fault v byva) as Hn.
  split; [|split; [|split; [|split]]].
  - intros a size align r H. exact (rd_safe (v_get v) _ _ _ Hs Hn _ _ _ _ H).
  - intros a size r H. exact (rd_copy_safe (v_get v) _ _ _ Hs Hn _ _ _ H).
  - intros a size align n r H. exact (rd_slice_safe (v_get v) _ _ _ Hs Hn _ _ _ _ _ H).
  - intros a size align p r H. exact (rd_slice_f_safe (v_get v) _ _ _ Hs Hn _ _ _ _ _ H).
  - intros a r H. exact (rd_c_str_safe (v_get v) _ _ _ Hs Hn _ _ H).
Qed.

Theorem view_typed_total v byva :
  (forall a size align, no_fault (rd (sl_of v byva) a size align)) /\
  (forall a size, no_fault (rd_copy (sl_of v byva) a size)) /\
  (forall a size align n, no_fault (rd_slice (sl_of v byva) a size align n)) /\
  (forall a size align p, 0 < size -> no_fault (rd_slice_f (v_get v) (sl_of v byva) a size align p)) /\
  (forall a, no_fault (rd_c_str (v_get v) (sl_of v byva) a)).
Proof.
  pose proof (sl_of_no_fault v byva) as Hn.
  split; [|split; [|split; [|split]]].
  - intros. eapply rd_no_fault; exact Hn.
  - intros. eapply rd_copy_no_fault; exact Hn.
  - intros. eapply rd_slice_no_fault; exact Hn.
  - intros. eapply rd_slice_f_no_fault; [exact Hn|assumption].
  - intros. eapply rd_c_str_no_fault; exact Hn.
Qed.

(* ---- totality corollaries used by C02 ---- *)
Theorem relocs_total : forall data, lenN data + 3 < W64 ->
  exists bs flat, blocks data = Ok bs /\ fold_pairs data = Ok flat.
Proof. intros data H. destruct (parse_ok_model data H) as [bs [flat [A [B _]]]]. exists bs, flat. split; assumption. Qed.
Theorem relocs_build_total : forall rvas types, build_pre rvas types = true -> 2 * lenN rvas + 11 < W32 ->
  exists out, build rvas types = Ok out.
Proof. intros rvas types H1 H2. destruct (build_ok_model rvas types H1 H2) as [out [bs [flat [A _]]]]. exists out. exact A. Qed.
Theorem strings_total : forall c base bytes, exists l, enumerate c base bytes = Ok l.
Proof. intros c base bytes. eexists. apply enumerate_correct. Qed.
Theorem cstr_format_total : forall bytes,
  (exists out, cstr_debug bytes = Ok out /\ (length out <= 4 * length bytes + 2)%nat) /\
  (exists out, cstr_display bytes = Ok out /\ (length out <= 4 * length bytes)%nat).
Proof. intros bytes. split; [apply cstr_debug_total|apply cstr_display_total]. Qed.
