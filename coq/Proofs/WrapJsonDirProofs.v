(* Serialize for Directory / DirectoryEntry (Model/WrapJsonRes.v json_directory, json_dir_entry; fourth audit M7): the
   public impls that start a walk of their own - fresh budget, depth 0, type ids never renamed.  Totality and the two
   bounds on ANY section and offset; on a directory that denotes a tree within the limits the value is the declarative
   JSON of that tree with no renaming. *)
From PV.Model Require Import Machine Mapping Views Headers Wrap WrapDirs Json WrapJson WrapJsonRes.
From PV.Model Require Resources.
From PV.Spec Require Import WrapResSpec.
From PV.Spec Require ResTree.
From PV.Proofs Require Import BaseProofs WrapJsonProofs WrapJsonResProofs.
From PV.Proofs Require ResourcesProofs.
Ltac Zify.zify_post_hook ::= Z.div_mod_to_equations.

Module R := Resources.
Module T := ResTree.

Theorem json_directory_total s off : exists j, json_directory s off = Ok j.
Proof.
  unfold json_directory. destruct (jwalk_total JRES_DEPTH s off false (R.fsck_budget s)) as (w & ->).
  cbn [bind]. eexists. reflexivity.
Qed.

Theorem json_directory_bounded s off j :
  json_directory s off = Ok j -> jentries j <= R.rs_len s / 8 /\ (jdepth j <= R.FSCK_DEPTH)%nat.
Proof.
  unfold json_directory.
  destruct (jwalk JRES_DEPTH s off false (R.fsck_budget s)) as [[l b']|?|?] eqn:Hw; cbn [bind]; [|discriminate|discriminate].
  intros [= <-]. destruct (jwalk_bound _ _ _ _ _ _ _ Hw) as [H1 H2]. unfold R.fsck_budget in H1.
  cbn [jentries jdepth fst]. fold (arr_entries l). fold (arr_depth l). split; [lia|].
  unfold JRES_DEPTH, R.FSCK_DEPTH in *. cbn [pred] in H2. lia.
Qed.

Theorem json_dir_entry_total s e : exists j, json_dir_entry s e = Ok j.
Proof.
  unfold json_dir_entry. generalize JRES_DEPTH. intros d.
  match goal with |- context [jwalk_loop s ?bl false [e] ?bb] =>
    assert (HT : tot (jwalk_loop s bl false [e] bb)) end.
  { apply jwalk_loop_total. intros w Hw. destruct d as [|d']; [discriminate|]. injection Hw as <-.
    intros o b. apply jwalk_total. }
  destruct HT as (w & ->). cbn [bind]. destruct (fst w); eexists; reflexivity.
Qed.

(* a directory at [off] that denotes a tree (Spec/ResTree.v repr) of height <= 32 with at most length / 8 entries is
   serialized as the declarative value of that tree - every level unrenamed (top = false), nothing cut *)
Theorem json_directory_repr s off kids :
  T.repr s (T.RDir off kids) = true -> (T.height (T.RDir off kids) <= R.FSCK_DEPTH)%nat ->
  T.size (T.RDir off kids) <= R.rs_len s / 8 ->
  json_directory s off = Ok (tree_json (R.rs_va s) false (T.RDir off kids)).
Proof.
  intros HR HH HS. unfold json_directory.
  pose proof (jwalk_spec_all (T.RDir off kids) s JRES_DEPTH false (R.fsck_budget s) HR HH HS) as HW. cbn beta iota in HW.
  rewrite HW. reflexivity.
Qed.

Theorem directory_serialize_total (s : R.rsec) off :
  (exists j, json_directory s off = Ok j) /\ (exists j, json_dir_entry s off = Ok j).
Proof. split; [apply json_directory_total|apply json_dir_entry_total]. Qed.
