(* C08: the tables a view yields, in closed form over the bytes (Spec/ExportShape.v). *)
From PV.Model Require Import Machine Mapping Views Exports.
From PV.Spec Require Import ExportSpec ExportShape.
From PV.Proofs Require Import BaseProofs ExportsProofs.
From PV.gen Require Import Layout.
Ltac Zify.zify_post_hook ::= Z.div_mod_to_equations.

Lemma le_value_4 g o : le_value g o 4 = dword_at g o.
Proof. unfold dword_at. cbn [le_value]. rewrite <- !N.add_assoc. change (1 + 1) with 2. change (1 + 2) with 3. lia. Qed.
Lemma le_value_2 g o : le_value g o 2 = word_at g o.
Proof. unfold word_at. cbn [le_value]. lia. Qed.

Lemma dword_at_lt g o : (forall i, g i < 256) -> dword_at g o < W32.
Proof. intros H. unfold dword_at, W32. pose proof (H o). pose proof (H (o + 1)). pose proof (H (o + 2)). pose proof (H (o + 3)). lia. Qed.

(* slicing answers Null exactly at rva 0 *)
Lemma range_file_not_null len secs rva m : range_file len secs rva m <> Err ENull.
Proof.
  induction secs as [|s secs IH]; cbn [range_file]; [discriminate|].
  destruct ((s_va s <=? rva) && (rva <? wadd32 (s_va s) (N.max (s_vs s) (s_srd s)))); [|exact IH].
  destruct (get_range len (s_prd s) (wadd32 (s_prd s) (s_srd s))); [|discriminate].
  destruct (get_from (r_len r) (rva - s_va s)); [destruct (m <=? r_len r0)|];
    try discriminate; destruct (_ <? m); discriminate.
Qed.
Lemma slice_null_iff v a m al : slice v a m al = Err ENull <-> a = 0.
Proof.
  split.
  - intros H. destruct (N.eq_dec a 0) as [E|Hne]; [exact E|exfalso].
    unfold slice, slice_file, slice_section in H. destruct (a =? 0) eqn:E0; [lia|].
    destruct (v_file v).
    + destruct (negb (aligned_to al (wadd64 (v_addr v) a))); [discriminate|].
      pose proof (range_file_not_null (v_len v) (v_secs v) a m) as Hr.
      destruct (range_file (v_len v) (v_secs v) a m) as [r|e|f]; cbn [bind] in H; [|congruence|discriminate].
      destruct (negb (aligned_to al (v_addr v + r_off r))); discriminate.
    + destruct (negb (aligned_to al (wadd64 (v_addr v) a))); [discriminate|].
      destruct (get_from (v_len v) a); [destruct (m <=? r_len r)|]; discriminate.
  - intros ->. apply ViewsProofs.zero_is_null.
Qed.

Lemma elems_4 g off n : elems g 4 off n = dwords_at g off n.
Proof. unfold elems, dwords_at. apply map_ext. intros k. change (N.to_nat 4) with 4%nat. apply le_value_4. Qed.
Lemma elems_2 g off n : elems g 2 off n = words_at g off n.
Proof. unfold elems, words_at. apply map_ext. intros k. change (N.to_nat 2) with 2%nat. apply le_value_2. Qed.

(* one table read of the model (Null-as-empty included) is the closed form *)
Lemma table_is_shape v a n w dec : w * n < W64 ->
  null_as_empty (r <- rd_slice (slice v) a w w n ;; Ok (dec (r_off r) n)) = table_shape v a n w dec.
Proof.
  intros Hm. unfold table_shape, rd_slice, checked_mul. destruct (w * n <? W64) eqn:E; [|lia].
  destruct (a =? 0) eqn:E0.
  - assert (a = 0) as -> by lia. rewrite (proj2 (slice_null_iff v 0 (w * n) w) eq_refl). reflexivity.
  - pose proof (slice_null_iff v a (w * n) w) as Hn.
    destruct (slice v a (w * n) w) as [r|e|f]; cbn [bind null_as_empty]; try reflexivity.
    destruct e; try reflexivity. exfalso. assert (a = 0) by (apply Hn; reflexivity). lia.
Qed.

(* THE CLOSED FORM: for every view whose buffer holds bytes *)
Theorem view_by_shape v dd : (forall i, v_get v i < 256) -> view_by v dd = tables_shape v dd.
Proof.
  intros Hb. unfold view_by, exports_by, try_from, tables_shape.
  destruct dd as [[va sz]|]; [|reflexivity].
  unfold rd. change IMAGE_EXPORT_DIRECTORY_size with EXPDIR_SIZE. change IMAGE_EXPORT_DIRECTORY_align with 4.
  destruct (slice v va EXPDIR_SIZE 4) as [d|e|f]; cbn [bind r_off]; try reflexivity.
  unfold by_, functions, names, name_indices, x_field, rd_u32.
  rewrite !le_value_4.
  change IMAGE_EXPORT_DIRECTORY_NumberOfFunctions_off with EXPDIR_ADDRESS_TABLE_ENTRIES.
  change IMAGE_EXPORT_DIRECTORY_NumberOfNames_off with EXPDIR_NUMBER_OF_NAME_POINTERS.
  change IMAGE_EXPORT_DIRECTORY_AddressOfFunctions_off with EXPDIR_EXPORT_ADDRESS_TABLE_RVA.
  change IMAGE_EXPORT_DIRECTORY_AddressOfNames_off with EXPDIR_NAME_POINTER_RVA.
  change IMAGE_EXPORT_DIRECTORY_AddressOfNameOrdinals_off with EXPDIR_ORDINAL_TABLE_RVA.
  change IMAGE_EXPORT_DIRECTORY_Base_off with EXPDIR_ORDINAL_BASE.
  set (g := v_get v). set (x := r_off d).
  pose proof (dword_at_lt g (x + EXPDIR_ADDRESS_TABLE_ENTRIES) Hb) as H1.
  pose proof (dword_at_lt g (x + EXPDIR_NUMBER_OF_NAME_POINTERS) Hb) as H2.
  rewrite (table_is_shape v _ _ 4 (elems g 4)) by (unfold W32, W64 in *; lia).
  rewrite (table_is_shape v _ (dword_at g (x + EXPDIR_NUMBER_OF_NAME_POINTERS)) 4 (elems g 4)) by (unfold W32, W64 in *; lia).
  rewrite (table_is_shape v _ _ 2 (elems g 2)) by (unfold W32, W64 in *; lia).
  unfold table_shape.
  repeat match goal with |- context [if ?c then _ else _] => destruct c end;
  repeat match goal with |- context [slice v ?a ?m ?w] => destruct (slice v a m w) as [?r|?e|?f] end;
  cbn [bind]; rewrite ?elems_4, ?elems_2; reflexivity.
Qed.

Lemma nth_error_map_seq {A} (f : nat -> A) n i : (i < n)%nat -> nth_error (map f (seq 0 n)) i = Some (f i).
Proof.
  intros H. rewrite nth_error_map. rewrite nth_error_nth' with (d := 0%nat) by (rewrite seq_length; exact H).
  rewrite seq_nth by exact H. reflexivity.
Qed.

Lemma table_shape_is_table v a n w dec item l :
  (forall off, dec off n = map (fun k => item (v_get v) (off + w * N.of_nat k)) (seq 0 (N.to_nat n))) ->
  table_shape v a n w dec = Ok l -> is_table v a n w item l.
Proof.
  intros Hdec H. unfold table_shape in H. unfold is_table. destruct (a =? 0); [congruence|].
  destruct (slice v a (w * n) w) as [r|e|f]; try discriminate. injection H as <-.
  exists r. split; [reflexivity|]. rewrite Hdec. split; [unfold lenN; rewrite map_length, seq_length; lia|].
  intros i Hi. rewrite nth_error_map_seq by lia. f_equal. f_equal. lia.
Qed.

(* POINTWISE: what each field of a successfully decoded By value is *)
Theorem view_by_tables_shape v va sz t : (forall i, v_get v i < 256) -> view_by v (Some (va, sz)) = Ok t ->
  exists d, slice v va EXPDIR_SIZE 4 = Ok d /\
    let g := v_get v in let x := r_off d in
    t_base t = dword_at g (x + EXPDIR_ORDINAL_BASE) /\ t_dva t = va /\ t_dsize t = sz /\
    is_table v (dword_at g (x + EXPDIR_EXPORT_ADDRESS_TABLE_RVA)) (dword_at g (x + EXPDIR_ADDRESS_TABLE_ENTRIES)) 4 dword_at (t_funcs t) /\
    is_table v (dword_at g (x + EXPDIR_NAME_POINTER_RVA)) (dword_at g (x + EXPDIR_NUMBER_OF_NAME_POINTERS)) 4 dword_at (t_names t) /\
    is_table v (dword_at g (x + EXPDIR_ORDINAL_TABLE_RVA)) (dword_at g (x + EXPDIR_NUMBER_OF_NAME_POINTERS)) 2 word_at (t_idxs t).
Proof.
  intros Hb H. rewrite view_by_shape in H by exact Hb. unfold tables_shape in H.
  destruct (slice v va EXPDIR_SIZE 4) as [d|e|f]; try discriminate. exists d. split; [reflexivity|].
  cbv zeta in H |- *.
  destruct (table_shape v (dword_at (v_get v) (r_off d + EXPDIR_EXPORT_ADDRESS_TABLE_RVA)) _ 4 _) as [fs|e|f] eqn:E1; try discriminate.
  destruct (table_shape v (dword_at (v_get v) (r_off d + EXPDIR_NAME_POINTER_RVA)) _ 4 _) as [ns|e|f] eqn:E2; try discriminate.
  destruct (table_shape v (dword_at (v_get v) (r_off d + EXPDIR_ORDINAL_TABLE_RVA)) _ 2 _) as [ix|e|f] eqn:E3; try discriminate.
  injection H as <-. cbn [t_base t_dva t_dsize t_funcs t_names t_idxs].
  split; [reflexivity|]. split; [reflexivity|]. split; [reflexivity|].
  split; [|split].
  - eapply table_shape_is_table; [|exact E1]. intros off. reflexivity.
  - eapply table_shape_is_table; [|exact E2]. intros off. reflexivity.
  - eapply table_shape_is_table; [|exact E3]. intros off. reflexivity.
Qed.

(* THE ERROR CASES, one by one *)
Theorem view_by_errors v va sz : (forall i, v_get v i < 256) ->
  view_by v None = Err EBounds /\
  (va = 0 -> view_by v (Some (va, sz)) = Err ENull) /\
  (forall e, slice v va EXPDIR_SIZE 4 = Err e -> view_by v (Some (va, sz)) = Err e) /\
  forall d, slice v va EXPDIR_SIZE 4 = Ok d ->
    let g := v_get v in let x := r_off d in
    let af := dword_at g (x + EXPDIR_EXPORT_ADDRESS_TABLE_RVA) in let nf := dword_at g (x + EXPDIR_ADDRESS_TABLE_ENTRIES) in
    let an := dword_at g (x + EXPDIR_NAME_POINTER_RVA) in let nn := dword_at g (x + EXPDIR_NUMBER_OF_NAME_POINTERS) in
    let ao := dword_at g (x + EXPDIR_ORDINAL_TABLE_RVA) in
    (* the address table does not fit *)
    (forall e, af <> 0 -> slice v af (4 * nf) 4 = Err e -> view_by v (Some (va, sz)) = Err e) /\
    (* the address table is fine (or absent), the name pointer table does not fit *)
    (forall e, (af = 0 \/ exists r, slice v af (4 * nf) 4 = Ok r) -> an <> 0 -> slice v an (4 * nn) 4 = Err e ->
       view_by v (Some (va, sz)) = Err e) /\
    (* both are fine (or absent), the ordinal table does not fit *)
    (forall e, (af = 0 \/ exists r, slice v af (4 * nf) 4 = Ok r) -> (an = 0 \/ exists r, slice v an (4 * nn) 4 = Ok r) ->
       ao <> 0 -> slice v ao (2 * nn) 2 = Err e -> view_by v (Some (va, sz)) = Err e) /\
    (* all three are fine or absent: success *)
    ((af = 0 \/ exists r, slice v af (4 * nf) 4 = Ok r) -> (an = 0 \/ exists r, slice v an (4 * nn) 4 = Ok r) ->
     (ao = 0 \/ exists r, slice v ao (2 * nn) 2 = Ok r) -> exists t, view_by v (Some (va, sz)) = Ok t).
Proof.
  intros Hb. split; [reflexivity|]. split.
  { intros ->. rewrite view_by_shape by exact Hb. unfold tables_shape.
    rewrite (proj2 (slice_null_iff v 0 EXPDIR_SIZE 4) eq_refl). reflexivity. }
  split.
  { intros e He. rewrite view_by_shape by exact Hb. unfold tables_shape. rewrite He. reflexivity. }
  intros d Hd. cbv zeta. rewrite view_by_shape by exact Hb. unfold tables_shape. rewrite Hd. cbv zeta.
  unfold table_shape.
  split; [|split; [|split]].
  - intros e Ha He. destruct (_ =? 0) eqn:E; [lia|]. rewrite He. reflexivity.
  - intros e [Ha|[r Hr]] Hn He.
    + rewrite Ha. change (0 =? 0) with true. cbv iota. destruct (_ =? 0) eqn:E; [lia|]. rewrite He. reflexivity.
    + rewrite Hr. destruct (dword_at (v_get v) (r_off d + EXPDIR_EXPORT_ADDRESS_TABLE_RVA) =? 0);
        (destruct (dword_at (v_get v) (r_off d + EXPDIR_NAME_POINTER_RVA) =? 0) eqn:E; [lia|]); rewrite He; reflexivity.
  - intros e Hf Hn Ho He.
    assert (Hf' : exists fs, (if dword_at (v_get v) (r_off d + EXPDIR_EXPORT_ADDRESS_TABLE_RVA) =? 0 then Ok []
              else match slice v (dword_at (v_get v) (r_off d + EXPDIR_EXPORT_ADDRESS_TABLE_RVA)) (4 * dword_at (v_get v) (r_off d + EXPDIR_ADDRESS_TABLE_ENTRIES)) 4 with
                   | Ok r => Ok (dwords_at (v_get v) (r_off r) (dword_at (v_get v) (r_off d + EXPDIR_ADDRESS_TABLE_ENTRIES))) | Err e => Err e | Fault f => Fault f end) = Ok fs).
    { destruct Hf as [->|[r ->]]; [eexists; reflexivity|]. destruct (_ =? 0); eexists; reflexivity. }
    destruct Hf' as [fs ->].
    assert (Hn' : exists ns, (if dword_at (v_get v) (r_off d + EXPDIR_NAME_POINTER_RVA) =? 0 then Ok []
              else match slice v (dword_at (v_get v) (r_off d + EXPDIR_NAME_POINTER_RVA)) (4 * dword_at (v_get v) (r_off d + EXPDIR_NUMBER_OF_NAME_POINTERS)) 4 with
                   | Ok r => Ok (dwords_at (v_get v) (r_off r) (dword_at (v_get v) (r_off d + EXPDIR_NUMBER_OF_NAME_POINTERS))) | Err e => Err e | Fault f => Fault f end) = Ok ns).
    { destruct Hn as [->|[r ->]]; [eexists; reflexivity|]. destruct (_ =? 0); eexists; reflexivity. }
    destruct Hn' as [ns ->].
    destruct (_ =? 0) eqn:E; [lia|]. rewrite He. reflexivity.
  - intros Hf Hn Ho.
    destruct Hf as [->|[r1 ->]], Hn as [->|[r2 ->]], Ho as [->|[r3 ->]]; change (0 =? 0) with true; cbv iota;
      repeat match goal with |- context [if ?c then _ else _] => destruct c end; eexists; reflexivity.
Qed.

(* get_export(key) is the lookup on those tables *)
Theorem get_export_shape v dd : (forall i, v_get v i < 256) ->
  (forall o, get_export_ordinal v dd o =
     match tables_shape v dd with Ok t => ordinal (view_cstr v) t o | Err e => Err e | Fault f => Fault f end) /\
  (forall n, get_export_name v dd n =
     match tables_shape v dd with Ok t => name (view_cstr v) t n | Err e => Err e | Fault f => Fault f end) /\
  (forall i, get_export_import v dd i =
     match tables_shape v dd with Ok t => import_ (view_cstr v) t i | Err e => Err e | Fault f => Fault f end).
Proof.
  intros Hb. unfold get_export_ordinal, get_export_name, get_export_import. rewrite view_by_shape by exact Hb.
  repeat split; intros; destruct (tables_shape v dd); reflexivity.
Qed.

(* a 128-byte mapped view: export directory at rva 16 (Base 5, two functions at rva 64, one name whose pointer
   table is ABSENT (AddressOfNames = 0), one name ordinal at rva 72) *)
Definition ex_shape_bytes : list N :=
  repeat 0 16 ++ le32 0 ++ le32 0 ++ le32 0 ++ le32 0 ++ le32 5 ++ le32 2 ++ le32 1 ++ le32 64 ++ le32 0 ++ le32 72 ++
  repeat 0 8 ++ le32 4096 ++ le32 8192 ++ le16 1 ++ repeat 0 54.
Definition ex_shape_view : view :=
  {| v_file := false; v_addr := 4096; v_len := 128; v_get := fun i => nth (N.to_nat i) ex_shape_bytes 0;
     v_w := W32; v_base := 65536; v_soh := 16; v_soi := 128; v_secs := [] |}.
Lemma shape_nonvacuous :
  view_by ex_shape_view (Some (16, 40))
  = Ok {| t_funcs := [4096; 8192]; t_names := []; t_idxs := [1]; t_base := 5; t_dva := 16; t_dsize := 40 |} /\
  tables_shape ex_shape_view (Some (16, 40))
  = Ok {| t_funcs := [4096; 8192]; t_names := []; t_idxs := [1]; t_base := 5; t_dva := 16; t_dsize := 40 |} /\
  tables_shape ex_shape_view (Some (100, 40)) = Err EBounds /\ tables_shape ex_shape_view (Some (18, 40)) = Err EMisaligned /\
  get_export_ordinal ex_shape_view (Some (16, 40)) 6 = Ok (Symbol 8192).
Proof. vm_compute. repeat split; reflexivity. Qed.
