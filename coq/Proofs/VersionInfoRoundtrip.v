(* C13, whole-resource round trip: the report of an encoded abstract resource is [events_of] of it.
   Induction over the nested structure root -> StringFileInfo -> StringTable* -> String*, VarFileInfo -> Var*,
   using the per-block lemma [parse_enc_tlv] at each level; the size hypothesis (2 * length < 65536, wLength
   being a u16) is the [small] conjunct of each [*_ok] predicate. *)
From PV.Model Require Import Machine VersionInfo.
From PV.Spec Require Import TlvEnc.
From PV.Proofs Require Import BaseProofs VersionInfoProofs.
Ltac Zify.zify_post_hook ::= Z.div_mod_to_equations.

(* ------------------------------------------------------------------ one parsed block after another *)
Lemma items_nil vl : items vl [] = [].
Proof. reflexivity. Qed.

Lemma items_cons vl ws t rest : ws <> [] -> len_ok ws -> parse_tlv vl ws = Ok (t, rest) ->
  items vl ws = t :: items vl rest.
Proof.
  intros Hne Hok Hp. destruct (parse_tlv_cases vl ws Hok) as [E|(t1 & r1 & E & Hr & _)]; rewrite E in Hp; [discriminate|].
  injection Hp as -> ->.
  unfold items at 1. cbn [items_f]. unfold parser_next, parser_next_gen. destruct ws as [|w r]; [congruence|].
  change (parse_tlv_gen false vl (w :: r)) with (parse_tlv vl (w :: r)). rewrite E. f_equal.
  apply items_f_enough; [eapply len_ok_le; [exact Hok|lia]|exact Hr|lia].
Qed.

(* an item list does not depend on the fuel beyond |ws| *)
Lemma items_err vl ws : ws <> [] -> len_ok ws -> parse_tlv vl ws = Err EInvalid -> items vl ws = [].
Proof.
  intros Hne Hok Hp. unfold items. cbn [items_f]. unfold parser_next, parser_next_gen. destruct ws as [|w r]; [congruence|].
  change (parse_tlv_gen false vl (w :: r)) with (parse_tlv vl (w :: r)). rewrite Hp. destruct (length (w :: r)); reflexivity.
Qed.

Lemma lenN_padw n : lenN (padw n) = n mod 2.
Proof.
  unfold padw. destruct (N.even n) eqn:En.
  - apply N.even_spec in En. destruct En as [k ->]. rewrite lenN_nil. lia.
  - assert (N.odd n = true) by (rewrite <- N.negb_even, En; reflexivity). apply N.odd_spec in H. destruct H as [k ->].
    rewrite lenN_cons, lenN_nil. lia.
Qed.

(* [e] is a block that parse_tlv reads as [t], whatever follows it *)
Definition parses (vl : vlt) (e : list N) (t : tlv) : Prop :=
  e <> [] /\ 2 * lenN e < 65536 /\
  forall pad rest, lenN rest + 65536 < W64 -> (pad = padw (lenN e) \/ (pad = [] /\ rest = [])) ->
    parse_tlv vl (e ++ pad ++ rest) = Ok (t, rest).

Definition tlv_of (tight : bool) (key value children : list N) : tlv :=
  {| t_key := key; t_value := value; t_children := children;
     t_voff := 4 + lenN key + (if tight && isnil value && isnil children then 0 else lenN key mod 2) |}.

Lemma parses_enc tight vl wtype f key value children :
  key_ok key = true -> vl_field_ok vl f value -> small (enc_tlv tight wtype f key value children) = true ->
  parses vl (enc_tlv tight wtype f key value children) (tlv_of tight key value children).
Proof.
  intros Hk Hvl Hs. unfold small in Hs. split; [|split].
  - unfold enc_tlv. discriminate.
  - lia.
  - intros pad rest Hr Hp. apply parse_enc_tlv; try assumption; [|lia].
    intros Hin. unfold key_ok in Hk. rewrite forallb_forall in Hk. specialize (Hk 0 Hin). discriminate.
Qed.

Lemma enc_seq_cons2 tight x y r : enc_seq tight (x :: y :: r) = x ++ padw (lenN x) ++ enc_seq tight (y :: r).
Proof. reflexivity. Qed.

Lemma len_ok_big ws : lenN ws + 65536 < W64 -> len_ok ws.
Proof. unfold len_ok, W64. lia. Qed.

(* the siblings of an encoded children area are read back one by one *)
Lemma items_enc_seq {A} tight vl (enc : A -> list N) (tl : A -> tlv) : forall xs,
  (forall x, In x xs -> parses vl (enc x) (tl x)) ->
  lenN (enc_seq tight (map enc xs)) + 65536 < W64 ->
  items vl (enc_seq tight (map enc xs)) = map tl xs.
Proof.
  induction xs as [|x xs IH]; intros Hall Hlen; [reflexivity|].
  destruct (Hall x (or_introl eq_refl)) as (Hne & Hsm & Hp).
  destruct xs as [|y ys].
  - cbn [map enc_seq] in *. set (pad := if tight then [] else padw (lenN (enc x))) in *.
    assert (H : parse_tlv vl (enc x ++ pad) = Ok (tl x, [])).
    { specialize (Hp pad []). rewrite app_nil_r in Hp. apply Hp; [rewrite lenN_nil; unfold W64; lia|].
      unfold pad. destruct tight; [right; split; reflexivity|left; reflexivity]. }
    rewrite (items_cons _ _ _ _ (fun X => Hne (proj1 (app_eq_nil _ _ X))) (len_ok_big _ Hlen) H). reflexivity.
  - cbn [map] in *. rewrite enc_seq_cons2 in *.
    assert (Hl : lenN (enc_seq tight (enc y :: map enc ys)) + 65536 < W64) by (rewrite !lenN_app in Hlen; lia).
    assert (H : parse_tlv vl (enc x ++ padw (lenN (enc x)) ++ enc_seq tight (enc y :: map enc ys)) = Ok (tl x, enc_seq tight (enc y :: map enc ys))).
    { apply Hp; [exact Hl|left; reflexivity]. }
    rewrite (items_cons _ _ _ _ (fun X => Hne (proj1 (app_eq_nil _ _ X))) (len_ok_big _ Hlen) H).
    f_equal. apply (IH (fun z Hz => Hall z (or_intror Hz)) Hl).
Qed.

Lemma enc_tlv_children_len tight wtype f key value children :
  lenN children <= lenN (enc_tlv tight wtype f key value children).
Proof. unfold enc_tlv. rewrite !lenN_app. lia. Qed.

Lemma small_children tight wtype f key value children :
  small (enc_tlv tight wtype f key value children) = true -> lenN children + 65536 < W64.
Proof. unfold small. pose proof (enc_tlv_children_len tight wtype f key value children). unfold W64. lia. Qed.

(* ------------------------------------------------------------------ the two readings of "strip one trailing NUL" *)
Lemma strip_nul_spec v : strip_nul v = strip_last_nul v.
Proof.
  unfold strip_nul, strip_last_nul. destruct v as [|x v] using rev_ind; [reflexivity|].
  rewrite last_last, removelast_last, rev_app_distr. cbn [rev app]. destruct x as [|p]; cbn [N.eqb]; [rewrite rev_involutive|]; reflexivity.
Qed.

(* ------------------------------------------------------------------ level by level *)
Lemma string_parses tight s : string_ok tight s = true ->
  parses VWords (enc_string tight s) (tlv_of tight (vs_key s) (vs_value s) []).
Proof.
  unfold string_ok. intros H. apply andb_true_iff in H. destruct H as [Hk Hs].
  apply parses_enc; [exact Hk|reflexivity|exact Hs].
Qed.
Lemma string_event_spec tight s : ev_string (tlv_of tight (vs_key s) (vs_value s) []) = string_event s.
Proof. unfold ev_string, string_event, tlv_of. cbn [t_key t_value]. rewrite strip_nul_spec. reflexivity. Qed.

Definition table_children (tight : bool) (t : vtable) : list N := enc_seq tight (map (enc_string tight) (vt_strings t)).
Lemma table_parses tight t : table_ok tight t = true ->
  parses VZero (enc_table tight t) (tlv_of tight (vt_key t) [] (table_children tight t)).
Proof.
  unfold table_ok. intros H. apply andb_true_iff in H. destruct H as [H _]. apply andb_true_iff in H. destruct H as [Hk Hs].
  apply parses_enc; [exact Hk|split; reflexivity|exact Hs].
Qed.
Lemma table_events_spec tight t : table_ok tight t = true ->
  ev_table (tlv_of tight (vt_key t) [] (table_children tight t)) = table_events t.
Proof.
  unfold table_ok. intros H. apply andb_true_iff in H. destruct H as [H Hall]. apply andb_true_iff in H. destruct H as [Hk Hs].
  unfold ev_table, table_events, tlv_of. cbn [t_key t_children]. unfold table_children.
  rewrite (items_enc_seq tight VWords (enc_string tight) (fun s => tlv_of tight (vs_key s) (vs_value s) [])).
  - rewrite map_map. do 2 f_equal. apply map_ext. intros s. apply string_event_spec.
  - intros s Hin. apply string_parses. rewrite forallb_forall in Hall. apply Hall. exact Hin.
  - eapply small_children. exact Hs.
Qed.

(* a variable with an odd byte count: the value is the whole words; the half word (and its padding) is left over *)
Definition var_children (tight : bool) (v : vvar) : list N :=
  match vv_odd v with
  | None => []
  | Some b => if N.even (lenN (vv_value v)) then b :: (if tight then [] else padw (lenN (vv_value v) + 1)) else []
  end.
Definition tlv_var (tight : bool) (v : vvar) : tlv :=
  {| t_key := vv_key v; t_value := vv_value v; t_children := var_children tight v;
     t_voff := 4 + lenN (vv_key v) +
               (if tight && isnil (vv_value v) && (match vv_odd v with None => true | Some _ => false end) then 0
                else lenN (vv_key v) mod 2) |}.

Lemma var_odd_parses tight k val b : key_ok k = true ->
  small (enc_tlv tight 0 (2 * lenN val + 1) k (val ++ [b]) []) = true ->
  parses VBytes (enc_tlv tight 0 (2 * lenN val + 1) k (val ++ [b]) [])
    {| t_key := k; t_value := val;
       t_children := if N.even (lenN val) then b :: (if tight then [] else padw (lenN val + 1)) else [];
       t_voff := 4 + lenN k + lenN k mod 2 |}.
Proof.
  intros Hk Hs. unfold small in Hs. split; [unfold enc_tlv; discriminate|]. split; [lia|].
  intros pad rest Hr Hpad.
  assert (Hk0 : ~ In 0 k).
  { intros Hin. unfold key_ok in Hk. rewrite forallb_forall in Hk. specialize (Hk 0 Hin). discriminate. }
  unfold enc_tlv in *.
  replace (isnil (val ++ [b])) with false in * by (destruct val; reflexivity). rewrite andb_false_r in *. cbn [andb isnil] in *.
  rewrite andb_true_r in *.
  set (p1 := padw (3 + lenN (k ++ [0]))) in *.
  set (g2 := if N.even (lenN val) then [] else [b]).
  set (ch := if N.even (lenN val) then b :: (if tight then [] else padw (lenN val + 1)) else []).
  assert (Hp1 : lenN p1 = lenN k mod 2).
  { unfold p1. rewrite lenN_padw, lenN_app, lenN_cons, lenN_nil. lia. }
  assert (Htail : (val ++ [b]) ++ (if tight then [] else padw (lenN (val ++ [b]))) ++ [] = val ++ g2 ++ ch).
  { unfold g2, ch. rewrite lenN_app, lenN_cons, lenN_nil, app_nil_r, <- app_assoc. f_equal.
    replace (lenN val + (1 + 0)) with (lenN val + 1) by lia.
    destruct (N.even (lenN val)) eqn:Ev; cbn [app]; [reflexivity|].
    assert (Hev : N.even (lenN val + 1) = true).
    { replace (lenN val + 1) with (N.succ (lenN val)) by lia. rewrite N.even_succ, <- N.negb_even, Ev. reflexivity. }
    unfold padw. rewrite Hev. destruct tight; reflexivity. }
  assert (Hbody : (k ++ [0]) ++ p1 ++ (val ++ [b]) ++ (if tight then [] else padw (lenN (val ++ [b]))) ++ []
                  = k ++ 0 :: p1 ++ val ++ g2 ++ ch).
  { rewrite Htail, <- app_assoc. reflexivity. }
  rewrite Hbody in *. cbn [app] in *.
  assert (Hg2 : lenN g2 = lenN val mod 2).
  { unfold g2. destruct (N.even (lenN val)) eqn:Ev.
    - apply N.even_spec in Ev. destruct Ev as [m Hm]. rewrite Hm, lenN_nil. lia.
    - assert (Ho : N.odd (lenN val) = true) by (rewrite <- N.negb_even, Ev; reflexivity).
      apply N.odd_spec in Ho. destruct Ho as [m Hm]. rewrite Hm, lenN_cons, lenN_nil. lia. }
  assert (Hlb : lenN (k ++ 0 :: p1 ++ val ++ g2 ++ ch) = lenN k + 1 + lenN p1 + lenN val + lenN g2 + lenN ch)
    by (rewrite lenN_app, lenN_cons, !lenN_app; lia).
  rewrite !lenN_cons in Hs, Hpad. rewrite Hlb in *.
  replace (2 * (3 + (lenN k + 1 + lenN p1 + lenN val + lenN g2 + lenN ch)))
    with (2 * (4 + lenN k + lenN p1 + lenN val + lenN g2 + lenN ch)) by lia.
  rewrite <- Hp1.
  apply (parse_tlv_shape VBytes (2 * lenN val + 1) 0 k p1 val g2 ch pad rest); try assumption.
  - destruct Hpad as [->|[-> ->]]; [rewrite lenN_padw|rewrite lenN_nil]; unfold W64 in *; lia.
  - cbn [vl_field_ok]. lia.
  - left. exact Hp1.
  - left. exact Hg2.
  - destruct Hpad as [->|[-> ->]]; [left; rewrite lenN_padw; f_equal; lia|right; split; reflexivity].
Qed.

Lemma var_parses tight v : var_ok tight v = true -> parses VBytes (enc_var tight v) (tlv_var tight v).
Proof.
  unfold var_ok, enc_var, tlv_var, var_children. intros H. apply andb_true_iff in H. destruct H as [Hk Hs].
  destruct (vv_odd v) as [b|].
  - rewrite andb_false_r. apply var_odd_parses; assumption.
  - apply (parses_enc tight VBytes 0 _ (vv_key v) (vv_value v) []); [exact Hk| |exact Hs]. cbn [vl_field_ok]. lia.
Qed.

Definition block_children (tight : bool) (b : vblock) : list N :=
  match b with
  | BStrings ts => enc_seq tight (map (enc_table tight) ts)
  | BVars vs => enc_seq tight (map (enc_var tight) vs)
  | BOther _ c => c
  end.
Lemma enc_block_eq tight b : enc_block tight b = enc_tlv tight 1 0 (block_key b) [] (block_children tight b).
Proof. destruct b; reflexivity. Qed.
Lemma block_key_ok tight b : block_ok tight b = true -> key_ok (block_key b) = true.
Proof.
  unfold block_ok. intros H. apply andb_true_iff in H. destruct H as [_ H]. destruct b as [ts|vs|k c]; cbn [block_key]; try reflexivity.
  apply andb_true_iff in H. destruct H as [H _]. apply andb_true_iff in H. destruct H as [H _]. exact H.
Qed.
Lemma block_parses tight b : block_ok tight b = true ->
  parses VZero (enc_block tight b) (tlv_of tight (block_key b) [] (block_children tight b)).
Proof.
  intros H. pose proof (block_key_ok tight b H) as Hk. unfold block_ok in H. apply andb_true_iff in H. destruct H as [Hs _].
  rewrite enc_block_eq in *. apply parses_enc; [exact Hk|split; reflexivity|exact Hs].
Qed.
Lemma block_events_spec tight b : block_ok tight b = true ->
  ev_file (tlv_of tight (block_key b) [] (block_children tight b)) = block_events b.
Proof.
  unfold block_ok. intros H. apply andb_true_iff in H. destruct H as [Hs H]. rewrite enc_block_eq in Hs. apply small_children in Hs.
  unfold ev_file, block_events, tlv_of. cbn [t_key t_children]. do 2 f_equal.
  destruct b as [ts|vs|k c]; cbn [block_key block_children] in *.
  - replace (list_eqb StringFileInfo StringFileInfo) with true by reflexivity.
    rewrite (items_enc_seq tight VZero (enc_table tight) (fun t => tlv_of tight (vt_key t) [] (table_children tight t))); [|
      intros t Hin; apply table_parses; rewrite forallb_forall in H; apply H; exact Hin | exact Hs].
    rewrite flat_map_concat_map, map_map, <- flat_map_concat_map.
    clear Hs. induction ts as [|t ts IH]; [reflexivity|]. cbn [flat_map forallb] in *. apply andb_true_iff in H. destruct H as [H1 H2].
    rewrite (table_events_spec tight t H1), (IH H2). reflexivity.
  - replace (list_eqb VarFileInfo StringFileInfo) with false by reflexivity.
    replace (list_eqb VarFileInfo VarFileInfo) with true by reflexivity.
    rewrite (items_enc_seq tight VBytes (enc_var tight) (tlv_var tight)); [|
      intros v Hin; apply var_parses; rewrite forallb_forall in H; apply H; exact Hin | exact Hs].
    rewrite map_map. reflexivity.
  - apply andb_true_iff in H. destruct H as [H H2]. apply andb_true_iff in H. destruct H as [_ H1].
    apply negb_true_iff in H1, H2. rewrite H1, H2. reflexivity.
Qed.

(* ------------------------------------------------------------------ the whole resource *)
Theorem events_roundtrip tight v : vinfo_ok tight v = true -> all_events (encode tight v) = events_of v.
Proof.
  unfold vinfo_ok. intros H. apply andb_true_iff in H. destruct H as [H Hall]. apply andb_true_iff in H. destruct H as [Hk Hs].
  pose proof (small_children _ _ _ _ _ _ Hs) as Hc.
  assert (Hp : parses VBytes (encode tight v)
             (tlv_of tight (vi_key v) (vi_fixed v) (enc_seq tight (map (enc_block tight) (vi_blocks v))))).
  { apply parses_enc; [exact Hk| |exact Hs]. cbn [vl_field_ok]. lia. }
  destruct Hp as (Hne & Hsm & Hp). specialize (Hp [] [] ltac:(rewrite lenN_nil; unfold W64; lia) (or_intror (conj eq_refl eq_refl))).
  rewrite !app_nil_r in Hp.
  assert (Hok : len_ok (encode tight v)) by (unfold len_ok, W64; lia).
  unfold all_events. rewrite (items_cons _ _ _ _ Hne Hok Hp).
  unfold ev_version, events_of, tlv_of at 1 2 3. cbn [t_key t_children].
  f_equal; [f_equal|].
  - unfold fixed_of_tlv, fixed_opt, tlv_of. cbn [t_value].
    destruct (N.eqb_spec (2 * lenN (vi_fixed v)) 52), (N.eqb_spec (lenN (vi_fixed v)) 26); try reflexivity; lia.
  - do 2 f_equal.
    rewrite (items_enc_seq tight VZero (enc_block tight) (fun b => tlv_of tight (block_key b) [] (block_children tight b))); [|
      intros b Hin; apply block_parses; rewrite forallb_forall in Hall; apply Hall; exact Hin | exact Hc].
    rewrite flat_map_concat_map, map_map, <- flat_map_concat_map.
    clear - Hall. induction (vi_blocks v) as [|b bs IH]; [reflexivity|]. cbn [flat_map forallb] in *.
    apply andb_true_iff in Hall. destruct Hall as [H1 H2]. rewrite (block_events_spec tight b H1), (IH H2). reflexivity.
Qed.

(* through the API: the recording visitor on the bytes of an encoded resource at a 4-aligned address *)
Lemma words_of_le16 : forall ws, Forall (fun w => w < 65536) ws -> words_of (flat_map le16 ws) = ws.
Proof.
  induction ws as [|w ws IH]; intros H; [reflexivity|]. inversion H as [|? ? Hw Hr]; subst.
  cbn [flat_map]. unfold le16 at 1. cbn [app words_of]. rewrite (IH Hr). f_equal. lia.
Qed.
Lemma lenN_flat_le16 : forall ws, lenN (flat_map le16 ws) = 2 * lenN ws.
Proof. induction ws as [|w ws IH]; [reflexivity|]. cbn [flat_map]. rewrite lenN_app, lenN_cons, IH, lenN_le16. lia. Qed.

Theorem events_roundtrip_bytes tight v base : vinfo_ok tight v = true ->
  Forall (fun w => w < 65536) (encode tight v) -> base mod 4 = 0 ->
  api_events false 0 base (flat_map le16 (encode tight v)) = Ok (events_of v).
Proof.
  intros Hok Hw Hb. pose proof Hok as H. unfold vinfo_ok in H. apply andb_true_iff in H. destruct H as [H _].
  apply andb_true_iff in H. destruct H as [_ Hs]. unfold small in Hs.
  rewrite api_events_spec by (unfold bytes_len_ok; rewrite lenN_flat_le16; unfold W64; lia).
  rewrite Hb. cbn [N.eqb]. rewrite (words_of_le16 _ Hw), (events_roundtrip tight v Hok). reflexivity.
Qed.

(* variables with an odd byte count (an even and an odd number of whole words), both padding conventions: the
   field holds 2n+1, the report holds the n whole words *)
Definition odd_vi : vinfo :=
  {| vi_key := [86]; vi_fixed := [];
     vi_blocks := [BVars [ {| vv_key := Translation; vv_value := [1033; 1200]; vv_odd := Some 7 |};
                           {| vv_key := [65]; vv_value := [5]; vv_odd := Some 9 |} ]] |}.
Lemma odd_var_demo :
  vinfo_ok true odd_vi = true /\ vinfo_ok false odd_vi = true /\
  word (skipn 22 (encode true odd_vi)) 1 = 5 /\ word (skipn 42 (encode true odd_vi)) 1 = 3 /\
  api_events false 0 0 (flat_map le16 (encode true odd_vi)) =
    Ok [EvVersion [86] None; EvEnter 0; EvFile VarFileInfo; EvEnter 1; EvVar Translation [1033; 1200]; EvVar [65] [5]; EvExit 1; EvExit 0] /\
  api_events false 0 0 (flat_map le16 (encode false odd_vi)) = api_events false 0 0 (flat_map le16 (encode true odd_vi)) /\
  api_translation false 0 (flat_map le16 (encode true odd_vi)) = Ok [(1033, 1200)].
Proof. vm_compute. repeat split; reflexivity. Qed.
