(* Proofs for C12, second round: where every borrow the resources API hands out lies (C01 vocabulary, Spec/SafetySpec.v):
   inside the section and aligned for its type, for ANY section bytes, length, address and directory RVA. *)
From PV.Model Require Import Machine Mapping Views Resources.
From PV.Spec Require Import ResTree SafetySpec ResSafety.
From PV.Proofs Require Import BaseProofs ResourcesProofs ResourcesCount ResourcesDeep SafetyProofs.
Ltac Zify.zify_post_hook ::= Z.div_mod_to_equations.


(* Resources::slice<T> with size_of T = size, align_of T = 4 (all three image structs): &T at [off] *)
Lemma rslice_safe s off size o : rslice s off size 4 = Ok o -> o = off /\ sec_typed s 4 (reg o size).
Proof.
  intros H. apply rslice_ok in H. destruct H as (-> & H1 & H2). rewrite aligned_wadd64_4 in H2. split; [reflexivity|].
  unfold sec_typed, typed_safe, region_in, reg. cbn [r_off r_len]. split; lia.
Qed.

(* slice_ws: the u16 length prefix and the &[u16] of that many words behind it *)
Lemma slice_ws_safe s off o n : slice_ws s off = Ok (o, n) ->
  o = off + 2 /\ n = rd16 s off /\ sec_typed s 2 (reg off 2) /\ sec_typed s 2 (reg o (2 * n)).
Proof.
  unfold slice_ws. rewrite aligned_wadd64_2. destruct ((rs_addr s + off) mod 2 =? 0) eqn:A; cbn [negb]; [|discriminate].
  destruct (off + 2 <=? rs_len s) eqn:B; [|discriminate].
  destruct (off + 2 + rd16 s off * 2 <=? rs_len s) eqn:C; [|discriminate]. intros [= <- <-].
  split; [reflexivity|]. split; [reflexivity|].
  unfold sec_typed, typed_safe, region_in, reg. cbn [r_off r_len]. split; split; lia.
Qed.


Theorem dir_try_from_safe s off o : dir_try_from s off = Ok o -> o = off /\ dir_safe s o.
Proof.
  intros H. apply dir_try_from_ok in H. destruct H as (-> & H1 & H2). split; [reflexivity|].
  unfold dir_safe, sec_typed, typed_safe, region_in, reg. cbn [r_off r_len]. repeat split; lia.
Qed.
Lemma dir_at_safe s o : dir_at s o = true -> dir_safe s o.
Proof. intros H. apply dir_at_try_from in H. apply dir_try_from_safe in H. apply H. Qed.

(* every &IMAGE_RESOURCE_DIRECTORY_ENTRY the three iterators yield *)
Theorem entry_refs_safe s o e : dir_safe s o ->
  In e (entries s o) \/ In e (named_entries s o) \/ In e (id_entries s o) ->
  sec_typed s 4 (reg e 8) /\ o + 16 <= e /\ e + 8 <= o + 16 + 8 * (n_named s o + n_ids s o).
Proof.
  intros (H1 & H2 & _) Hin. rewrite entries_named_then_ids in Hin.
  assert (Hin' : In e (named_entries s o) \/ In e (id_entries s o)).
  { destruct Hin as [Hin|[Hin|Hin]]; [apply in_app_or; exact Hin|left; exact Hin|right; exact Hin]. }
  unfold sec_typed, typed_safe, region_in, reg in *. cbn [r_off r_len] in *. destruct H1 as [_ H1]. destruct H2 as [H2 _].
  assert (Hi : exists i, e = o + 16 + 8 * i /\ i < n_named s o + n_ids s o).
  { destruct Hin' as [Hin'|Hin']; unfold named_entries, id_entries, entry_offs in Hin'; apply in_map_iff in Hin';
      destruct Hin' as (i & <- & Hi); apply in_seq in Hi.
    - exists (N.of_nat i). split; lia.
    - exists (n_named s o + N.of_nat i). split; lia. }
  destruct Hi as (i & -> & Hi). repeat split; lia.
Qed.

(* DirectoryEntry::name: the &[u16] of a string name *)
Theorem e_name_safe s e ws : e_name s e = Ok (NWide ws) ->
  exists o n, sec_typed s 2 (reg (o - 2) 2) /\ sec_typed s 2 (reg o (2 * n)) /\ 2 <= o /\ ws = words s o n /\ lenN ws = n.
Proof.
  unfold e_name, e_name_g. destruct (B31 <=? rd32 s e); [|discriminate].
  destruct (slice_ws s (rd32 s e - B31)) as [[o n]|er|f0] eqn:R; cbn [bind fst snd]; [|discriminate|discriminate].
  intros [= <-]. apply slice_ws_safe in R. destruct R as (-> & Hn & R1 & R2).
  exists (rd32 s e - B31 + 2), n. replace (rd32 s e - B31 + 2 - 2) with (rd32 s e - B31) by lia.
  split; [exact R1|]. split; [exact R2|]. split; [lia|]. split; [reflexivity|].
  unfold words, lenN. rewrite map_length, seq_length. lia.
Qed.

(* DirectoryEntry::entry: a Directory (header + entry array) or the &IMAGE_RESOURCE_DATA_ENTRY *)
Theorem e_entry_safe s e en : e_entry s e = Ok en ->
  match en with EDir o => dir_safe s o | EData o => sec_typed s 4 (reg o 16) end.
Proof.
  intros H. apply e_entry_inv in H. destruct en as [o|o].
  - destruct H as (_ & _ & H). apply dir_at_safe. exact H.
  - destruct H as (_ & _ & H). apply rslice_safe in H. apply H.
Qed.

(* DataEntry::bytes: the &[u8] *)
Theorem data_bytes_safe s o rg : data_bytes s o = Ok rg -> region_in (rs_len s) rg /\ r_len rg = data_size s o.
Proof.
  unfold data_bytes, data_size. destruct (rd32 s o <? rs_va s); [discriminate|]. destruct (W32 <=? _); [discriminate|].
  destruct (_ <=? rs_len s) eqn:C; [|discriminate]. intros [= <-]. unfold region_in. cbn [r_off r_len]. split; [lia|reflexivity].
Qed.

(* GroupResource::new on a byte slice of the section: the &GRPICONDIR, the &[GRPICONDIRENTRY] of entries() and each
   entry; all of them inside the slice that was passed in *)
Theorem group_new_safe s g g' : region_in (rs_len s) g -> group_new s g = Ok g' ->
  g' = g /\ sec_typed s 2 (reg (r_off g) 6) /\ sec_typed s 2 (reg (r_off g + 6) (14 * g_count s g)) /\
  6 + 14 * g_count s g = r_len g /\
  (forall e, In e (g_entries s g) -> sec_typed s 2 (reg e 14) /\ r_off g + 6 <= e /\ e + 14 <= r_off g + r_len g).
Proof.
  unfold group_new, region_in. intros HR. rewrite aligned_wadd64_2.
  destruct ((rs_addr s + r_off g) mod 2 =? 0) eqn:A; cbn [negb]; [|discriminate].
  destruct (r_len g <? 6) eqn:B; [discriminate|]. destruct (_ || _); [discriminate|].
  destruct (r_len g =? 6 + rd16 s (r_off g + 4) * 14) eqn:C; cbn [negb]; [|discriminate]. intros [= <-].
  unfold sec_typed, typed_safe, region_in, reg, g_count. cbn [r_off r_len].
  split; [reflexivity|]. split; [split; lia|]. split; [split; lia|]. split; [lia|].
  intros e He. unfold g_entries, g_count in He. apply in_map_iff in He. destruct He as (i & <- & Hi). apply in_seq in Hi.
  repeat split; lia.
Qed.

(* the find API: every byte slice it returns is a slice of the section *)
Lemma fbind_ok {A B} (r : fres A) (k : A -> fres B) b : fbind r k = FOk b -> exists a, r = FOk a /\ k a = FOk b.
Proof. destruct r as [a|e|f]; cbn [fbind]; [|discriminate|discriminate]. intros H. exists a. split; [reflexivity|exact H]. Qed.
Lemma lift_ok {A} (r : res A) a : lift r = FOk a -> r = Ok a.
Proof. destruct r; cbn [lift]; [intros [= <-]; reflexivity|discriminate|discriminate]. Qed.

Theorem find_resource_safe lo s a b rg : find_resource lo s a b = FOk rg -> region_in (rs_len s) rg.
Proof.
  unfold find_resource. intros H. apply fbind_ok in H. destruct H as (d2 & _ & H). apply fbind_ok in H. destruct H as (x & _ & H).
  apply lift_ok in H. apply (data_bytes_safe _ _ _ H).
Qed.
Theorem find_resource_ex_safe lo s a b c rg : find_resource_ex lo s a b c = FOk rg -> region_in (rs_len s) rg.
Proof.
  unfold find_resource_ex. intros H. apply fbind_ok in H. destruct H as (d2 & _ & H). apply fbind_ok in H. destruct H as (x & _ & H).
  apply lift_ok in H. apply (data_bytes_safe _ _ _ H).
Qed.
Theorem manifest_safe s rg : manifest s = FOk rg -> region_in (rs_len s) rg.
Proof.
  unfold manifest. intros H. apply fbind_ok in H. destruct H as (r & _ & H). apply fbind_ok in H. destruct H as (d & _ & H).
  apply fbind_ok in H. destruct H as (d2 & _ & H). apply fbind_ok in H. destruct H as (x & _ & H).
  apply fbind_ok in H. destruct H as (rg' & H1 & H). apply lift_ok in H1.
  destruct (utf8_valid _); [|discriminate]. injection H as <-. apply (data_bytes_safe _ _ _ H1).
Qed.
(* version_info: VersionInfo::try_from reinterprets the bytes as u16 words after testing 4-byte alignment *)
Theorem version_info_safe s rg : version_info s = FOk rg -> sec_typed s 4 rg.
Proof.
  unfold version_info. intros H. apply fbind_ok in H. destruct H as (rg' & H1 & H).
  destruct (aligned_to 4 (wadd64 (rs_addr s) (r_off rg'))) eqn:A; [|discriminate]. injection H as <-.
  rewrite aligned_wadd64_4 in A. unfold sec_typed, typed_safe. split; [apply (find_resource_safe _ _ _ _ _ H1)|lia].
Qed.
Theorem g_image_safe s g id rg : g_image s g id = FOk rg -> region_in (rs_len s) rg.
Proof. apply find_resource_safe. Qed.

(* icons() / cursors(): every group handed out was built from a slice of the section *)
Theorem group_list_safe s ty nm g : In (FOk (nm, g)) (group_list s ty) ->
  region_in (rs_len s) g /\ group_new s g = Ok g /\ match nm with NWide ws => exists o n, sec_typed s 2 (reg o (2 * n)) /\ ws = words s o n | _ => True end.
Proof.
  unfold group_list. destruct (r <-- lift (root s) ;; get_dir 48 s r (NId ty)) as [d|e|f]; [|intros []|intros []].
  intros H. apply in_map_iff in H. destruct H as (e & H & _).
  apply fbind_ok in H. destruct H as (nm' & N1 & H). apply fbind_ok in H. destruct H as (x & _ & H).
  apply fbind_ok in H. destruct H as (d2 & _ & H). apply fbind_ok in H. destruct H as (de & _ & H).
  apply fbind_ok in H. destruct H as (rg & D1 & H). apply fbind_ok in H. destruct H as (g' & G1 & H).
  injection H as <- <-. apply lift_ok in N1, D1, G1. pose proof (data_bytes_safe _ _ _ D1) as [HR _].
  destruct (group_new_safe s rg g' HR G1) as (-> & _). split; [exact HR|]. split; [exact G1|].
  destruct nm' as [id|ws|cs]; try exact I. destruct (e_name_safe _ _ _ N1) as (o & n & _ & R & _ & W & _). exists o, n. split; assumption.
Qed.

(* Pe::resources(): the section is a slice of the image *)
Theorem pe_resources_safe img_addr img_len get rva size s : placed img_addr img_len ->
  pe_resources img_addr img_len get rva size = Ok s ->
  exists off, rs_addr s = img_addr + off /\ off + rs_len s <= img_len /\ rs_len s <= size /\ rs_va s = rva /\ (forall i, rs_get s i = get (off + i)).
Proof.
  intros HP. unfold pe_resources. destruct (slice_section img_addr img_len rva 0 1) as [r|e|f] eqn:R; cbn [bind]; [|discriminate|discriminate].
  intros [= <-]. cbn [rs_addr rs_len rs_va rs_get]. apply (slice_section_safe _ _ _ _ _ _ HP) in R. destruct R as (R1 & _ & _).
  unfold region_in in R1. exists (r_off r). split; [reflexivity|]. split; [lia|]. split; [lia|]. split; [reflexivity|]. intros i. reflexivity.
Qed.

(* ------------------------------------------------------------------ every reference a traversal hands out *)

Lemma item_at_safe s L named idx e : sec_typed s 4 (reg e 8) -> item_safe s (item_at s L named idx e).
Proof.
  intros He. unfold item_safe, item_at. cbn [i_eoff i_name i_tgt]. split; [exact He|]. split.
  - destruct (e_name s e) as [[id|ws|cs]|er|f0] eqn:Nm; try exact I.
    destruct (e_name_safe _ _ _ Nm) as (o & n & _ & R & _ & W & _). exists o, n. split; assumption.
  - destruct (e_entry s e) as [[o|o]|er|f0] eqn:En; try exact I.
    + apply (e_entry_safe _ _ _ En).
    + split; [apply (e_entry_safe _ _ _ En)|]. destruct (data_bytes s o) as [rg|er|f0] eqn:D; try exact I. apply (data_bytes_safe _ _ _ D).
Qed.

Lemma walk_loop_safe s below L named : (forall o b, dir_safe s o -> Forall (witem_safe s) (fst (below o (L + 1) b))) ->
  forall es idx b, (forall e, In e es -> sec_typed s 4 (reg e 8)) -> Forall (witem_safe s) (fst (walk_loop s below L named es idx b)).
Proof.
  intros HB. induction es as [|e r IH]; intros idx b Hin; cbn [walk_loop]; [constructor|].
  destruct (b =? 0); [repeat constructor|]. cbv zeta. cbn [fst snd].
  constructor; [apply item_at_safe; apply Hin; left; reflexivity|]. apply Forall_app. split.
  - destruct (e_entry s e) as [[o|o]|er|f0] eqn:En; try constructor. apply HB. apply (e_entry_safe _ _ _ En).
  - apply IH. intros e' He'. apply Hin. right. exact He'.
Qed.
Theorem walk_safe s d : forall o L b, dir_safe s o -> Forall (witem_safe s) (fst (walk d s o L b)).
Proof.
  induction d as [|d IH]; intros o L b HD; cbn [walk]; [repeat constructor|].
  apply walk_loop_safe; [intros o' b' HD'; apply IH; exact HD'|].
  intros e He. apply (entry_refs_safe s o e HD). left. exact He.
Qed.
Theorem walk_root_safe s r d b : root s = Ok r -> Forall (witem_safe s) (fst (walk d s r 0 b)).
Proof. unfold root. intros H. apply dir_try_from_safe in H. destruct H as [-> H]. apply walk_safe. exact H. Qed.

(* ------------------------------------------------------------------ a tree laid out without sharing fits fsck's budget *)
Lemma disjoint_nodup offs : disjoint_records offs -> NoDup (map (fun a => N.to_nat (a / 8)) offs).
Proof.
  unfold disjoint_records. induction 1 as [|a l HF _ IH]; cbn [map]; constructor; [|exact IH].
  intros Hin. apply in_map_iff in Hin. destruct Hin as (b & Hb & Hin). rewrite Forall_forall in HF. specialize (HF b Hin). lia.
Qed.
Lemma records_bound len offs : disjoint_records offs -> Forall (fun a => a + 8 <= len) offs -> lenN offs <= len / 8.
Proof.
  intros HD HF. pose proof (disjoint_nodup offs HD) as ND.
  assert (HI : incl (map (fun a => N.to_nat (a / 8)) offs) (seq 0 (N.to_nat (len / 8)))).
  { intros x Hx. apply in_map_iff in Hx. destruct Hx as (a & <- & Ha). rewrite Forall_forall in HF. specialize (HF a Ha).
    apply in_seq. lia. }
  pose proof (NoDup_incl_length ND HI) as HL. rewrite map_length, seq_length in HL. unfold lenN. lia.
Qed.
Lemma count_items_offsets l : count_items l = lenN (entry_offsets l).
Proof.
  unfold entry_offsets. induction l as [|[i| |] r IH]; cbn [count_items flat_map app]; try exact IH; [reflexivity|].
  rewrite lenN_cons, IH. lia.
Qed.
Lemma safe_offsets s l : Forall (witem_safe s) l -> Forall (fun a => a + 8 <= rs_len s) (entry_offsets l).
Proof.
  unfold entry_offsets. induction 1 as [|[i| |] r HW _ IH]; cbn [flat_map app]; try exact IH; [constructor|].
  constructor; [|exact IH]. destruct HW as [[HW _] _]. unfold region_in, reg in HW. cbn [r_off r_len] in HW. exact HW.
Qed.

Theorem wellformed_size s o kids lvl : repr s (RDir o kids) = true ->
  disjoint_records (entry_offsets (flatten s lvl (RDir o kids))) -> size (RDir o kids) <= rs_len s / 8.
Proof.
  intros HR HD.
  pose proof (walk_repr s o kids _ lvl _ HR (le_n _) (N.le_refl _)) as HW.
  assert (HDir : dir_safe s o) by (cbn [repr] in HR; split_andb; apply dir_at_safe; assumption).
  pose proof (walk_safe s (height (RDir o kids)) o lvl (size (RDir o kids)) HDir) as HS.
  pose proof (walk_count s (height (RDir o kids)) o lvl (size (RDir o kids))) as HC.
  rewrite HW in HS, HC. cbn [fst snd] in HS, HC. rewrite count_items_offsets in HC.
  pose proof (records_bound (rs_len s) _ HD (safe_offsets s _ HS)) as HB. lia.
Qed.

(* the consistency check succeeds on every well-formed tree: valid names, references and data ranges everywhere (repr),
   laid out without sharing, nested at most 32 directories deep *)
Theorem fsck_wellformed s kids : repr s (RDir 0 kids) = true -> (height (RDir 0 kids) <= FSCK_DEPTH)%nat ->
  disjoint_records (entry_offsets (flatten s 0 (RDir 0 kids))) -> fsck s = Ok tt.
Proof.
  intros HR HH HD. apply fsck_iff. exists kids. split; [exact HR|]. split; [exact HH|]. apply (wellformed_size s 0 kids 0 HR HD).
Qed.

Lemma ex3_wellformed :
  entry_offsets (flatten ex3_sec 0 ex3_tree) = [16; 40; 64] /\ disjoint_records (entry_offsets (flatten ex3_sec 0 ex3_tree)) /\
  fsck ex3_sec = Ok tt.
Proof.
  assert (E : entry_offsets (flatten ex3_sec 0 ex3_tree) = [16; 40; 64]) by (vm_compute; reflexivity).
  split; [exact E|]. split; [|vm_compute; reflexivity]. rewrite E. unfold disjoint_records.
  repeat (constructor; [repeat (constructor; [lia|]); constructor|]). constructor.
Qed.
