(* C10, detection power: the overlap test of Matches::next (scanner.rs:563) is not pinned down by the property.
   The loop over the section headers is re-stated with an arbitrary test [ovl]; soundness needs only that a section
   that passes the test starts below range.end, completeness only that the section owning an obliged position at or
   after range.start passes it.  Both hold for the test as written (VA + VirtualSize > range.start) and for the
   mutant M4 of the self-test (VA + SizeOfRawData > range.start): M4 changes which NON-obliged positions are
   reported (stored bytes beyond VirtualSize when the range starts there) - a disagreement with the model, witnessed
   below - but every call of it still satisfies the per-call soundness and completeness statements of C10, so no
   oracle that reads the property can fail on it. *)
From PV.Model Require Import Machine Mapping Views Pattern Exec ScanView Scanner.
From PV.Spec Require Import MappingSpec ViewSpec ScanSpec.
From PV.Proofs Require Import BaseProofs MappingProofs ViewsProofs ExecProofs ScannerProofs.
Ltac Zify.zify_post_hook ::= Z.div_mod_to_equations.

Fixpoint next_file_g (ovl : section -> mstate -> bool) (nsec : list N -> N -> region -> mstate -> list N -> res sres)
         (len : N) (qs : list N) (secs : list section) (st : mstate) (save : list N) : res sres :=
  match secs with
  | [] => Ok (false, st, save)
  | s :: rest =>
    if ovl s st then
      match get_range len (s_prd s) (wadd32 (s_prd s) (s_srd s)) with
      | Some sl =>
        r <- nsec qs (s_va s) sl st save ;;
        let '(ok, st', save') := r in
        if ok then Ok r else next_file_g ovl nsec len qs rest st' save'
      | None => next_file_g ovl nsec len qs rest st save
      end
    else next_file_g ovl nsec len qs rest st save
  end.

Definition ovl_code (s : section) (st : mstate) : bool := (s_va s <? m_end st) && (m_start st <? wadd32 (s_va s) (s_vs s)).
Definition ovl_m4 (s : section) (st : mstate) : bool := (s_va s <? m_end st) && (m_start st <? wadd32 (s_va s) (s_srd s)).

Lemma next_file_g_code nsec len qs : forall secs st save,
  next_file nsec len qs secs st save = next_file_g ovl_code nsec len qs secs st save.
Proof.
  induction secs as [|s rest IH]; intros st save; [reflexivity|]. cbn [next_file next_file_g]. unfold ovl_code.
  destruct ((s_va s <? m_end st) && (m_start st <? wadd32 (s_va s) (s_vs s))); [|apply IH].
  destruct (get_range len (s_prd s) (wadd32 (s_prd s) (s_srd s))); [|apply IH].
  destruct (nsec qs (s_va s) r st save) as [[[ok st'] sv]| |]; cbn [bind]; try reflexivity. destruct ok; [reflexivity|apply IH].
Qed.

(* Matches::next with the test replaced *)
Definition next_g (ovl : section -> mstate -> bool) (v : view) (pat : list atom) (st : mstate) (save : list N) : res sres :=
  if v_file v then next_file_g ovl (next_section (view_exec v pat) (v_get v)) (v_len v) (setup pat) (v_secs v) st save
  else next_section (view_exec v pat) (v_get v) (setup pat) 0 {| r_off := 0; r_len := v_len v |} st save.

Lemma next_g_code v pat st save : next v pat st save = next_g ovl_code v pat st save.
Proof. unfold next, next_with, next_g. destruct (v_file v); [apply next_file_g_code|reflexivity]. Qed.

Section Generic.
  Variable ovl : section -> mstate -> bool.
  Variable v : view.
  Variable pat : list atom.
  Hypothesis Hok : view_ok v.
  Hypothesis Hlen : v_len v < W32.
  Hypothesis Hovl_end : forall s st, ovl s st = true -> s_va s <= m_end st.

  Lemma next_file_g_post : forall secs st save, m_end st < W32 -> m_hits st <= m_start st ->
    next_post v pat st (next_file_g ovl (next_section (view_exec v pat) (v_get v)) (v_len v) (setup pat) secs st save).
  Proof.
    induction secs as [|s rest IH]; intros st save H2 H3; cbn [next_file_g].
    - exists false, st, save. split; [reflexivity|]. split; [reflexivity|]. split; [exact H3|]. split; [lia|]. split; [lia|]. discriminate.
    - destruct (ovl s st) eqn:Eg; [|apply IH; assumption]. pose proof (Hovl_end s st Eg) as Hbase.
      destruct (get_range (v_len v) (s_prd s) (wadd32 (s_prd s) (s_srd s))) as [sl|]; [|apply IH; assumption].
      destruct (next_section_post v pat Hok Hlen (setup pat) (s_va s) sl st save Hbase H2 H3) as [ok [st' [sv [Hr (He & Hh & Hlo & Hhi & Hc)]]]].
      rewrite Hr. cbn [bind]. destruct ok.
      + exists true, st', sv. split; [reflexivity|]. split; [exact He|]. split; [exact Hh|]. split; [exact Hlo|]. split; [exact Hhi|]. exact Hc.
      + destruct (IH st' sv ltac:(lia) Hh) as [ok2 [st2 [sv2 [Hr2 (He2 & Hh2 & Hlo2 & Hhi2 & Hc2)]]]].
        exists ok2, st2, sv2. split; [exact Hr2|]. split; [lia|]. split; [exact Hh2|]. split; [lia|]. split; [lia|].
        intros Ht. destruct (Hc2 Ht) as [c [s_in (A & B & C & D)]]. exists c, s_in. split; [lia|]. split; [lia|]. split; [exact C|exact D].
  Qed.

  (* theorems 1 and 6 for the generic test *)
  Theorem next_g_total_sound st save : m_end st < W32 -> m_hits st <= m_start st -> next_post v pat st (next_g ovl v pat st save).
  Proof.
    intros H2 H3. unfold next_g. destruct (v_file v).
    - apply next_file_g_post; assumption.
    - apply next_section_post; try assumption. lia.
  Qed.

  Variable rend : N.
  Hypothesis Hrend : rend < W32.
  Hypothesis Hovl_own : forall s st p, s_va s + vext s < W32 -> m_start st <= p -> in_virtual p s = true ->
    p - s_va s < s_vs s -> p + 1 <= N.min (m_end st) (s_va s + s_srd s) -> ovl s st = true.

  Lemma next_file_g_complete : forall secs (Q : N -> Prop) st save,
    Forall section_ok secs -> sorted_by_va secs = true -> sections_sane secs = true ->
    m_end st = rend -> m_hits st <= m_start st ->
    (forall p s, Q p -> find (in_virtual p) secs = Some s -> Eany (view_exec v pat) p -> forall k, (k < length (setup pat))%nat ->
        p + N.of_nat k < s_va s + s_srd s -> v_get v (s_prd s + (p - s_va s) + N.of_nat k) = nth k (setup pat) 0) ->
    exists ok st' save', next_file_g ovl (next_section (view_exec v pat) (v_get v)) (v_len v) (setup pat) secs st save = Ok (ok, st', save') /\
      m_end st' = rend /\ m_hits st' <= m_start st' /\ m_start st <= m_start st' /\
      if ok then exists c s_in, m_start st <= c /\ c < m_start st' /\ (view_exec v pat) c s_in = Ok (true, save') /\
           forall p, m_start st <= p -> p < m_start st' -> p <> c -> Q p -> obl v pat rend secs p -> ~ Eall (view_exec v pat) p
      else forall p, m_start st <= p -> Q p -> obl v pat rend secs p -> ~ Eall (view_exec v pat) p.
  Proof.
    assert (Hw : 1 <= win (setup pat)) by (unfold win; destruct (lenN (setup pat) <? 4) eqn:E; lia).
    induction secs as [|h tail IH]; intros Q st save Hsok Hsort Hsane He Hh Hbytes; cbn [next_file_g].
    - exists false, st, save. split; [reflexivity|]. split; [exact He|]. split; [exact Hh|]. split; [lia|].
      intros p _ _ [s [Hf _]]. discriminate.
    - pose proof (Forall_inv Hsok) as Hhok. pose proof (Forall_inv_tail Hsok) as Htok.
      destruct (sorted_head h tail Hsort) as [Hle Hsort'].
      cbn [sections_sane forallb] in Hsane. apply andb_true_iff in Hsane. destruct Hsane as [Hsh Hsane'].
      assert (Hvs : wadd32 (s_va h) (s_vs h) = s_va h + s_vs h).
      { unfold wadd32. apply N.mod_small. unfold vext in Hsh. lia. }
      (* positions whose owner is in the tail lie at or above the head's base *)
      assert (Htail : forall p, in_virtual p h = false -> obl v pat rend tail p -> s_va h <= p /\ s_va h + vext h <= p).
      { intros p Hnv [s [Hf _]]. apply find_some in Hf. destruct Hf as [Hin Hiv]. specialize (Hle s Hin).
        unfold in_virtual in *. lia. }
      set (Q' := fun p => Q p /\ in_virtual p h = false).
      assert (Hbytes' : forall p s, Q' p -> find (in_virtual p) tail = Some s -> Eany (view_exec v pat) p -> forall k, (k < length (setup pat))%nat ->
        p + N.of_nat k < s_va s + s_srd s -> v_get v (s_prd s + (p - s_va s) + N.of_nat k) = nth k (setup pat) 0).
      { intros p s [HQ Hnv] Hf. apply Hbytes; [exact HQ|]. cbn [find]. rewrite Hnv. exact Hf. }
      (* an obliged position owned by the head forces the head to be scanned *)
      assert (Hown : forall p, m_start st <= p -> in_virtual p h = true -> owner_ok v pat rend h p ->
                ovl h st = true /\
                get_range (v_len v) (s_prd h) (wadd32 (s_prd h) (s_srd h)) = Some {| r_off := s_prd h; r_len := s_srd h |}).
      { intros p Ha Hiv (O1 & O2 & O3). split; [apply (Hovl_own h st p); [unfold vext in *; lia|exact Ha|exact Hiv|exact O2|rewrite He; lia]|]. unfold in_virtual in Hiv.
        unfold get_range, wadd32. destruct Hhok as (_ & _ & Hp & Hs). rewrite N.mod_small by (unfold W32 in *; lia).
        destruct ((s_prd h <=? s_prd h + s_srd h) && (s_prd h + s_srd h <=? v_len v)) eqn:E; [|lia]. f_equal. f_equal. lia. }
      (* the obligation at the head of the list *)
      assert (Hsplit : forall p, obl v pat rend (h :: tail) p -> (in_virtual p h = true /\ owner_ok v pat rend h p) \/ (in_virtual p h = false /\ obl v pat rend tail p)).
      { intros p [s [Hf Ho]]. cbn [find] in Hf. destruct (in_virtual p h) eqn:Eiv.
        - left. inversion Hf; subst s. split; [reflexivity|exact Ho].
        - right. split; [reflexivity|]. exists s. split; assumption. }
      assert (Hskipcase : forall st0 save0, st0 = st -> save0 = save ->
        (forall p, m_start st <= p -> in_virtual p h = true -> owner_ok v pat rend h p -> False) ->
        exists ok st' save', next_file_g ovl (next_section (view_exec v pat) (v_get v)) (v_len v) (setup pat) tail st save = Ok (ok, st', save') /\
        m_end st' = rend /\ m_hits st' <= m_start st' /\ m_start st <= m_start st' /\
        if ok then exists c s_in, m_start st <= c /\ c < m_start st' /\ (view_exec v pat) c s_in = Ok (true, save') /\
             forall p, m_start st <= p -> p < m_start st' -> p <> c -> Q p -> obl v pat rend (h :: tail) p -> ~ Eall (view_exec v pat) p
        else forall p, m_start st <= p -> Q p -> obl v pat rend (h :: tail) p -> ~ Eall (view_exec v pat) p).
      { intros _ _ _ _ Hno. destruct (IH Q' st save Htok Hsort' Hsane' He Hh Hbytes') as [ok [st' [sv (Hr & A & B & C & D)]]].
        exists ok, st', sv. split; [exact Hr|]. split; [exact A|]. split; [exact B|]. split; [exact C|]. destruct ok.
        - destruct D as [c [s_in (D1 & D2 & D3 & D4)]]. exists c, s_in. split; [exact D1|]. split; [exact D2|]. split; [exact D3|].
          intros p Ha Hb Hne HQ Ho. destruct (Hsplit p Ho) as [[Hiv Hoo]|[Hnv Hot]]; [exfalso; exact (Hno p Ha Hiv Hoo)|].
          apply D4; try assumption. split; assumption.
        - intros p Ha HQ Ho. destruct (Hsplit p Ho) as [[Hiv Hoo]|[Hnv Hot]]; [exfalso; exact (Hno p Ha Hiv Hoo)|].
          apply D; try assumption. split; assumption. }
      destruct (ovl h st) eqn:Eg.
      2: { apply (Hskipcase st save eq_refl eq_refl). intros p Ha Hiv Ho. destruct (Hown p Ha Hiv Ho) as [G _]. discriminate. }
      destruct (get_range (v_len v) (s_prd h) (wadd32 (s_prd h) (s_srd h))) as [sl|] eqn:Egr.
      2: { apply (Hskipcase st save eq_refl eq_refl). intros p Ha Hiv Ho. destruct (Hown p Ha Hiv Ho) as [_ G]. discriminate. }
      destruct (get_range_section _ _ _ Hhok Egr) as [-> [Hraw Hraw2]]. pose proof (Hovl_end h st Eg) as Hbase.
      set (P := fun p => Q p /\ in_virtual p h = true /\ owner_ok v pat rend h p).
      destruct (next_section_spec (view_exec v pat) (v_get v) (view_ex_total v pat Hok Hlen) P (setup pat) (s_va h) {| r_off := s_prd h; r_len := s_srd h |} st save
                  ltac:(lia) ltac:(lia) Hh) as [ok [st' [sv [Hr Hfd]]]].
      + cbn [r_off r_len]. intros p (HQ & Hiv & Ho) Ha Hb HE k Hk Hk2.
        apply (Hbytes p h HQ); try assumption; [cbn [find]; rewrite Hiv; reflexivity|]. lia.
      + cbn [r_len]. intros H4 p (HQ & Hiv & (O1 & O2 & O3)). unfold win in O3. destruct (lenN (setup pat) <? 4) eqn:E; lia.
      + rewrite Hr. cbn [bind]. unfold found in Hfd. cbn [r_len] in Hfd. destruct Hfd as (F1 & F2 & F3 & F4 & F5).
        set (s1 := N.max (s_va h) (m_start st)) in *. set (eo := N.min (s_srd h) (m_end st - s_va h)) in *.
        (* positions before this pass's end that are not the head's own are impossible *)
        assert (Hbefore : forall p, m_start st <= p -> p < N.max s1 (s_va h + eo) -> in_virtual p h = false -> obl v pat rend tail p -> False).
        { intros p Ha Hb Hnv Hot. destruct (Htail p Hnv Hot) as [T1 T2]. unfold vext in T2. lia. }
        assert (Hmine : forall p, m_start st <= p -> Q p -> in_virtual p h = true -> owner_ok v pat rend h p -> s1 <= p /\ p < s_va h + eo /\ P p).
        { intros p Ha HQ Hiv Ho. split; [unfold in_virtual in Hiv; lia|]. split; [destruct Ho as (O1 & O2 & O3); lia|]. split; [exact HQ|]. split; assumption. }
        destruct ok.
        * destruct F5 as [c [s_in (G1 & G2 & G3 & G4)]].
          exists true, st', sv. split; [reflexivity|]. split; [lia|]. split; [exact F2|]. split; [lia|].
          exists c, s_in. split; [lia|]. split; [exact G2|]. split; [exact G3|].
          intros p Ha Hb Hne HQ Ho. destruct (Hsplit p Ho) as [[Hiv Hoo]|[Hnv Hot]].
          -- destruct (Hmine p Ha HQ Hiv Hoo) as (M1 & M2 & M3). apply G4; assumption.
          -- exfalso. apply (Hbefore p Ha ltac:(lia) Hnv Hot).
        * destruct F5 as [G1 G2].
          destruct (IH Q' st' sv Htok Hsort' Hsane' ltac:(lia) F2 Hbytes') as [ok2 [st2 [sv2 (Hr2 & A & B & C & D)]]].
          exists ok2, st2, sv2. split; [exact Hr2|]. split; [exact A|]. split; [exact B|]. split; [lia|].
          assert (Hcover : forall p, m_start st <= p -> Q p -> obl v pat rend (h :: tail) p -> p < m_start st' -> ~ Eall (view_exec v pat) p).
          { intros p Ha HQ Ho Hb. destruct (Hsplit p Ho) as [[Hiv Hoo]|[Hnv Hot]].
            - destruct (Hmine p Ha HQ Hiv Hoo) as (M1 & M2 & M3). apply G2; try assumption. lia.
            - exfalso. apply (Hbefore p Ha ltac:(lia) Hnv Hot). }
          assert (Hlater : forall p, m_start st' <= p -> Q p -> obl v pat rend (h :: tail) p -> Q' p /\ obl v pat rend tail p).
          { intros p Ha HQ Ho. destruct (Hsplit p Ho) as [[Hiv Hoo]|[Hnv Hot]].
            - exfalso. destruct (Hmine p ltac:(lia) HQ Hiv Hoo) as (M1 & M2 & M3). lia.
            - split; [split; assumption|exact Hot]. }
          destruct ok2.
          -- destruct D as [c [s_in (D1 & D2 & D3 & D4)]]. exists c, s_in. split; [lia|]. split; [exact D2|]. split; [exact D3|].
             intros p Ha Hb Hne HQ Ho. destruct (N.lt_ge_cases p (m_start st')) as [Hlt|Hge]; [exact (Hcover p Ha HQ Ho Hlt)|].
             destruct (Hlater p Hge HQ Ho) as [HQ' Hot]. apply D4; assumption.
          -- intros p Ha HQ Ho. destruct (N.lt_ge_cases p (m_start st')) as [Hlt|Hge]; [exact (Hcover p Ha HQ Ho Hlt)|].
             destruct (Hlater p Hge HQ Ho) as [HQ' Hot]. apply D; assumption.
  Qed.
End Generic.

Lemma ovl_code_end s st : ovl_code s st = true -> s_va s <= m_end st.
Proof. unfold ovl_code. lia. Qed.
Lemma ovl_m4_end s st : ovl_m4 s st = true -> s_va s <= m_end st.
Proof. unfold ovl_m4. lia. Qed.
Lemma ovl_code_own s st p : s_va s + vext s < W32 -> m_start st <= p -> in_virtual p s = true ->
  p - s_va s < s_vs s -> p + 1 <= N.min (m_end st) (s_va s + s_srd s) -> ovl_code s st = true.
Proof.
  unfold ovl_code, in_virtual, vext, wadd32. intros H1 H2 H3 H4 H5. rewrite N.mod_small by lia. lia.
Qed.
Lemma ovl_m4_own s st p : s_va s + vext s < W32 -> m_start st <= p -> in_virtual p s = true ->
  p - s_va s < s_vs s -> p + 1 <= N.min (m_end st) (s_va s + s_srd s) -> ovl_m4 s st = true.
Proof.
  unfold ovl_m4, in_virtual, vext, wadd32. intros H1 H2 H3 H4 H5. rewrite N.mod_small by lia. lia.
Qed.

Definition next_m4 := next_g ovl_m4.

(* the mutant satisfies theorems 1 and 6 ... *)
Theorem next_m4_total_sound v pat : view_ok v -> v_len v < W32 ->
  forall st save, m_end st < W32 -> m_hits st <= m_start st ->
  exists ok st' save', next_m4 v pat st save = Ok (ok, st', save') /\
    m_end st' = m_end st /\ m_hits st' <= m_start st' /\ m_start st <= m_start st' /\
    m_start st' <= N.max (m_start st) (m_end st) /\
    (ok = true -> exists c s_in, m_start st <= c /\ c < m_end st /\ c < m_start st' /\
                                 view_exec v pat c s_in = Ok (true, save')).
Proof. intros Hok Hl st save H2 H3. exact (next_g_total_sound ovl_m4 v pat Hok Hl ovl_m4_end st save H2 H3). Qed.

(* ... and theorem 4 on file views, word for word the statement of next_complete_file *)
Theorem next_m4_complete_file v pat : view_ok v -> v_len v < W32 -> v_file v = true ->
  (forall i, v_get v i < 256) -> bytes_ok (setup pat) ->
  sorted_by_va (v_secs v) = true -> sections_sane (v_secs v) = true ->
  forall st save, m_end st < W32 -> m_hits st <= m_start st ->
  exists ok st' save', next_m4 v pat st save = Ok (ok, st', save') /\
    if ok then exists c s_in, m_start st <= c /\ c < m_start st' /\ view_exec v pat c s_in = Ok (true, save') /\
        forall p, m_start st <= p -> p < m_start st' -> p <> c -> obl v pat (m_end st) (v_secs v) p -> ~ Eall (view_exec v pat) p
    else forall p, m_start st <= p -> obl v pat (m_end st) (v_secs v) p -> ~ Eall (view_exec v pat) p.
Proof.
  intros Hok Hlen Hf Hget Hqs Hsort Hsane st save H2 H3. unfold next_m4, next_g. rewrite Hf.
  destruct (next_file_g_complete ovl_m4 v pat Hok Hlen ovl_m4_end (m_end st) H2 ovl_m4_own (v_secs v) (fun _ => True) st save) as [ok [st' [sv (Hr & A & B & C & D)]]];
    try assumption; try reflexivity.
  - destruct Hok as (_ & _ & _ & _ & Hs). exact Hs.
  - intros p s _ Hfind [sv [sv' HE]] k Hk Hk2.
    destruct (view_exec_reads_prefix v pat p sv sv' HE k Hk) as [x [Hx1 Hx2]].
    assert (Hsv : s_va s + vext s < W32).
    { pose proof Hfind as Hf'. apply find_some in Hf'. destruct Hf' as [_ Hiv]. unfold in_virtual in Hiv. lia. }
    assert (Hq : p + N.of_nat k < s_va s + vext s) by (unfold vext; lia).
    assert (Hlt : p + N.of_nat k < W32) by lia.
    destruct (file_read_byte v (p + N.of_nat k) x Hok Hf Hlt Hx1) as [s' [Hs' ->]].
    unfold first_v in Hs'. rewrite (first_v_stable (v_secs v) p (p + N.of_nat k) s Hsort Hsane Hfind ltac:(lia) Hq) in Hs'.
    inversion Hs'; subst s'.
    rewrite land255 in Hx2 by apply Hget. rewrite land255 in Hx2.
    + pose proof Hfind as Hf'. apply find_some in Hf'. destruct Hf' as [_ Hiv]. unfold in_virtual in Hiv.
      replace (s_prd s + (p - s_va s) + N.of_nat k) with (s_prd s + (p + N.of_nat k - s_va s)) by lia. exact Hx2.
    + unfold bytes_ok in Hqs. rewrite Forall_forall in Hqs. apply Hqs. apply nth_In. exact Hk.
  - exists ok, st', sv. split; [exact Hr|]. destruct ok.
    + destruct D as [c [s_in (D1 & D2 & D3 & D4)]]. exists c, s_in. split; [exact D1|]. split; [exact D2|]. split; [exact D3|].
      intros p Ha Hb Hne Ho. apply D4; try assumption. exact I.
    + intros p Ha Ho. apply D; try assumption. exact I.
Qed.

(* yet it is a different function: one section with VirtualSize 0x20 < SizeOfRawData 0x100, "AB" stored at offset
   0x10 and, beyond VirtualSize, at 0x40; a range that starts at VA + VirtualSize.  The code skips the section, the
   mutant scans it and reports 0x1040 - a position where exec succeeds, which must_report does not oblige *)
Definition m4_get (i : N) : N := if (i =? 1040) || (i =? 1088) then 65 else if (i =? 1041) || (i =? 1089) then 66 else 0.
Definition m4_view : view :=
  {| v_file := true; v_addr := 4096; v_len := 1536; v_get := m4_get; v_w := W32; v_base := 4194304;
     v_soh := 1024; v_soi := 8192; v_secs := [{| s_va := 4096; s_vs := 32; s_prd := 1024; s_srd := 256 |}] |}.
Lemma m4_differs :
  next m4_view wit_pat (matches 4128 8192) [0] = Ok (false, {| m_start := 4128; m_end := 8192; m_hits := 0 |}, [0]) /\
  next_m4 m4_view wit_pat (matches 4128 8192) [0] = Ok (true, {| m_start := 4161; m_end := 8192; m_hits := 1 |}, [4160]) /\
  view_exec m4_view wit_pat 4160 [0] = Ok (true, [4160]) /\
  must_report m4_view (window wit_pat) 4128 8192 4160 = false.
Proof. vm_compute. repeat split; reflexivity. Qed.
